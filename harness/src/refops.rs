//! Semtech's reference drivers (SWL2001 through smtc-modem-cores) on the same emulated bus as the lora-phy drivers.
//! line: ref chip=<sx1262|sx1261|sx1276> regs=.. reads=.. fill=.. buf=.. | op args | ...   (same op vocabulary as "phy" where an equivalent exists)
//! output per op: "<result> :: <trace>" for the SX126x (command based: compared transaction by transaction in canonical form) and
//! "<result> :: regs=<hex of registers 0x01..0x70> fifo=<first 16 buffer bytes>" for the SX1276 (register based: compared by outcome).
use crate::mock::*;
use crate::util::*;
use smtc_modem_cores::sx126x as r6;
use smtc_modem_cores::sx127x as r7;
use smtc_modem_cores::sys;
use std::cell::RefCell;
use std::rc::Rc;

fn sf6(i: u32) -> r6::sx126x_lora_sf_e {
    use r6::sx126x_lora_sf_e::*;
    [SX126X_LORA_SF5, SX126X_LORA_SF6, SX126X_LORA_SF7, SX126X_LORA_SF8, SX126X_LORA_SF9, SX126X_LORA_SF10, SX126X_LORA_SF11, SX126X_LORA_SF12][i as usize]
}
fn bw6(i: u32) -> r6::sx126x_lora_bw_e {
    use r6::sx126x_lora_bw_e::*;
    [SX126X_LORA_BW_007, SX126X_LORA_BW_010, SX126X_LORA_BW_015, SX126X_LORA_BW_020, SX126X_LORA_BW_031, SX126X_LORA_BW_041, SX126X_LORA_BW_062, SX126X_LORA_BW_125, SX126X_LORA_BW_250, SX126X_LORA_BW_500][i as usize]
}
fn cr6(i: u32) -> r6::sx126x_lora_cr_e {
    use r6::sx126x_lora_cr_e::*;
    [SX126X_LORA_CR_4_5, SX126X_LORA_CR_4_6, SX126X_LORA_CR_4_7, SX126X_LORA_CR_4_8][i as usize]
}
fn ramp6(v: u8) -> r6::sx126x_ramp_time_e {
    use r6::sx126x_ramp_time_e::*;
    [SX126X_RAMP_10_US, SX126X_RAMP_20_US, SX126X_RAMP_40_US, SX126X_RAMP_80_US, SX126X_RAMP_200_US, SX126X_RAMP_800_US, SX126X_RAMP_1700_US, SX126X_RAMP_3400_US][(v & 7) as usize]
}
fn st6(s: r6::Status) -> &'static str {
    match s {
        r6::Status::Ok => "Ok",
        r6::Status::UnSupportedFeature => "Unsupported",
        r6::Status::UnknownValue => "UnknownValue",
        r6::Status::Error => "Error",
    }
}
fn st7(s: r7::Status) -> &'static str {
    match s {
        r7::Status::Ok => "Ok",
        r7::Status::UnSupportedFeature => "Unsupported",
        r7::Status::UnknownValue => "UnknownValue",
        r7::Status::Error => "Error",
        r7::Status::HalContextUninitialized => "NoHal",
    }
}

fn run126(bus: &Rc<RefCell<Bus>>, ops: &[&str]) -> Vec<String> {
    let mut c = r6::Context::new(RefSpi(bus.clone()));
    let mut out = vec![];
    for op in ops {
        let a: Vec<&str> = op.split_whitespace().collect();
        if a.is_empty() {
            continue;
        }
        bus.borrow_mut().trace.clear();
        let r: String = match a[0] {
            "sleep" => st6(c.set_sleep(if boolean(a[1]) { r6::SleepCfg::WarmStart } else { r6::SleepCfg::ColdStart })).into(),
            "standby" => st6(c.set_standby(r6::sx126x_standby_cfgs_e::SX126X_STANDBY_CFG_RC)).into(),
            "chan" => st6(c.set_rf_freq(int(a[1]))).into(),
            // mod sf bw cr ldro
            "mod" => st6(c.set_lora_mod_params(&r6::sx126x_mod_params_lora_t { sf: sf6(int(a[1])), bw: bw6(int(a[2])), cr: cr6(int(a[3])), ldro: int(a[4]) })).into(),
            // pkt preamble implicit len crc iq
            "pkt" => st6(c.set_lora_pkt_params(&r6::sx126x_pkt_params_lora_t {
                preamble_len_in_symb: int(a[1]),
                header_type: if boolean(a[2]) { r6::sx126x_lora_pkt_len_modes_e::SX126X_LORA_PKT_IMPLICIT } else { r6::sx126x_lora_pkt_len_modes_e::SX126X_LORA_PKT_EXPLICIT },
                pld_len_in_bytes: int(a[3]),
                crc_is_on: boolean(a[4]),
                invert_iq_is_on: boolean(a[5]),
            }))
            .into(),
            "sync" => st6(c.set_lora_sync_word(int(a[1]))).into(),
            "base" => st6(c.set_buffer_base_address(int(a[1]), int(a[2]))).into(),
            "payload" => st6(c.write_buffer(0, &unhex(a[1]))).into(),
            "tx" => st6(c.set_tx(0)).into(),
            "irq" => {
                let m: u16 = int(a[1]);
                st6(c.set_dio_irq_params(m, m, 0, 0)).into()
            }
            "clrirq" => st6(c.clear_irq_status(0xFFFF)).into(),
            // rx symbs boosted rtc_timeout
            "rx" => {
                c.stop_timer_on_preamble(true);
                c.set_lora_symb_nb_timeout(int(a[1]));
                c.cfg_rx_boosted(boolean(a[2]));
                st6(c.set_rx_with_timeout_in_rtc_step(int(a[3]))).into()
            }
            // cad sfcode boosted
            "cad" => {
                c.cfg_rx_boosted(boolean(a[2]));
                c.set_cad_params(&r6::sx126x_cad_params_t {
                    cad_symb_nb: r6::sx126x_cad_symbs_e::SX126X_CAD_08_SYMB,
                    cad_detect_peak: int::<u8>(a[1]) + 13,
                    cad_detect_min: 10,
                    cad_exit_mode: r6::sx126x_cad_exit_modes_e::SX126X_CAD_ONLY,
                    cad_timeout: 0,
                });
                st6(c.set_cad()).into()
            }
            // power duty hp devsel txparam ramp clamp
            "power" => {
                if boolean(a[6]) {
                    c.cfg_tx_clamp();
                }
                c.set_pa_cfg(&r6::sx126x_pa_cfg_params_t { pa_duty_cycle: int(a[1]), hp_max: int(a[2]), device_sel: int(a[3]), pa_lut: 1 });
                st6(c.set_tx_params(int::<i8>(a[4]), ramp6(int(a[5])))).into()
            }
            "cw" => st6(c.set_tx_cw()).into(),
            "calimg" => st6(c.cal_img(int(a[1]), int(a[2]))).into(),
            "pkttype" => st6(c.set_pkt_type(r6::sx126x_pkt_types_e::SX126X_PKT_TYPE_LORA)).into(),
            "dio2" => st6(c.set_dio2_as_rf_sw_ctrl(boolean(a[1]))).into(),
            "retention" => st6(c.add_registers_to_retention_list(&[0x08AC, 0x0889])).into(),
            "rxpayload" => {
                let (s, st) = c.get_rx_buffer_status();
                let n = (st.pld_len_in_bytes as usize).min(int::<usize>(a[1]));
                let mut buf = vec![0u8; n];
                c.read_buffer(st.buffer_start_pointer, &mut buf);
                format!("{} len={} off={} data={}", st6(s), st.pld_len_in_bytes, st.buffer_start_pointer, hex(&buf))
            }
            "status" => {
                let (s, p) = c.get_lora_pkt_status();
                format!("{} rssi={} snr={}", st6(s), p.rssi_pkt_in_dbm, p.snr_pkt_in_db)
            }
            "rssi" => {
                let (s, v) = c.get_rssi_inst();
                format!("{} {}", st6(s), v)
            }
            "irqstate" => {
                let (s, v) = c.get_irq_status();
                format!("{} {}", st6(s), v)
            }
            _ => "BADOP".into(),
        };
        out.push(format!("{r} :: {}", bus.borrow().trace.join(" ")));
    }
    out
}

fn dump127(bus: &Rc<RefCell<Bus>>) -> String {
    let b = bus.borrow();
    format!("regs={} fifo={}", hex(&b.regs[1..0x71]), hex(&b.chipbuf[0..16]))
}

fn run127(bus: &Rc<RefCell<Bus>>, ops: &[&str]) -> Vec<String> {
    let mut c = r7::Context::new(RefSpi(bus.clone()), r7::sx127x_radio_id_e::SX127X_RADIO_ID_SX1276);
    c.set_pkt_type(sys::sx127x_pkt_types_e_SX127X_PKT_TYPE_LORA);
    let mut out = vec![];
    for op in ops {
        let a: Vec<&str> = op.split_whitespace().collect();
        if a.is_empty() {
            continue;
        }
        let r: String = match a[0] {
            "standby" => st7(c.set_standby()).into(),
            "sleep" => st7(c.set_sleep()).into(),
            "chan" => st7(c.set_rf_freq(int(a[1]))).into(),
            "sync" => st7(c.set_lora_sync_word(int(a[1]))).into(),
            "symb" => st7(c.set_lora_sync_timeout(int(a[1]))).into(),
            // mod sfcode bwcode crcode ldro
            "mod" => st7(c.set_lora_mod_params(&r7::sx127x_lora_mod_params_t { sf: int(a[1]), bw: int(a[2]), cr: int(a[3]), ldro: int(a[4]) })).into(),
            // pkt preamble implicit len crc iq
            "pkt" => st7(c.set_lora_pkt_params(&r7::sx127x_lora_pkt_params_t {
                preamble_len_in_symb: int(a[1]),
                header_type: int(a[2]),
                pld_len_in_bytes: int(a[3]),
                crc_is_on: boolean(a[4]),
                invert_iq_is_on: boolean(a[5]),
            }))
            .into(),
            // power dbm ramp paselect
            "power" => {
                c.set_pa_cfg(&r7::sx127x_pa_cfg_params_t { pa_select: int(a[3]), is_20_dbm_output_on: boolean(a[4]) });
                st7(c.set_tx_params(int::<i8>(a[1]), int(a[2]))).into()
            }
            "status" => {
                let (s, p) = c.get_lora_pkt_status();
                format!("{} rssi={} snr={}", st7(s), p.rssi_pkt_in_dbm, p.snr_pkt_in_db)
            }
            "rssi" => {
                let (s, v) = c.get_rssi_inst();
                format!("{} {}", st7(s), v)
            }
            _ => "BADOP".into(),
        };
        out.push(format!("{r} :: {}", dump127(bus)));
    }
    out
}

pub fn run_line(line: &str) -> String {
    let parts: Vec<&str> = line.split('|').map(|s| s.trim()).collect();
    let head: Vec<&str> = parts[0].split_whitespace().collect();
    let mut chip = "sx1262";
    let mut regs: Vec<(usize, u8)> = vec![];
    let mut reads: Vec<u8> = vec![];
    let mut fill = 0u8;
    let mut buf: Vec<u8> = vec![];
    for kv in &head[1..] {
        let (k, v) = kv.split_once('=').unwrap();
        match k {
            "chip" => chip = v,
            "regs" => {
                if v != "-" {
                    for p in v.split(',') {
                        let (a, b) = p.split_once(':').unwrap();
                        regs.push((int::<usize>(a), int::<u8>(b)));
                    }
                }
            }
            "reads" => reads = if v == "-" { vec![] } else { unhex(v) },
            "fill" => fill = int(v),
            "buf" => buf = if v == "-" { vec![] } else { unhex(v) },
            _ => {}
        }
    }
    let is126 = !chip.starts_with("sx127");
    let bus = Bus::new(if is126 { ChipKind::Sx126x } else { ChipKind::Sx127x });
    {
        let mut b = bus.borrow_mut();
        for (a, v) in &regs {
            b.regs[*a & 0xfff] = *v;
        }
        b.reads = reads.into_iter().collect();
        b.fill = fill;
        for (i, v) in buf.iter().enumerate().take(256) {
            b.chipbuf[i] = *v;
        }
    }
    let out = if is126 { run126(&bus, &parts[1..]) } else { run127(&bus, &parts[1..]) };
    out.join(" ; ")
}
