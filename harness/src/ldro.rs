//! C15: LDRO decision of every driver and the bit that reaches the chip.
use crate::mock::*;
use crate::toa::{bw, sf};
use crate::util::*;
use lora_phy::mod_params::{ModulationParams, RadioError};
use lora_phy::mod_traits::RadioKind;
use lora_modulation::CodingRate;

fn decide<R: RadioKind>(r: &mut R, s: u32, b: u32, freq: u32) -> Result<ModulationParams, RadioError> {
    r.create_modulation_params(sf(s), bw(b), CodingRate::_4_5, freq)
}

pub fn run_op(a: &[&str]) -> String {
    let chip = a[0];
    let (s, b): (u32, u32) = (int(a[1]), int(a[2]));
    let freq: u32 = if a.len() > 3 { int(a[3]) } else { 868_100_000 };
    match chip {
        "sx1261" | "sx1262" | "stm32wl" => {
            let bus = Bus::new(ChipKind::Sx126x);
            macro_rules! go {
                ($v:expr) => {{
                    let cfg = lora_phy::sx126x::Config { chip: $v, tcxo_ctrl: None, use_dcdc: false, rx_boost: false };
                    let mut r = lora_phy::sx126x::Sx126x::new(Spi(bus.clone()), Iv(bus.clone()), cfg);
                    match decide(&mut r, s, b, freq) {
                        Err(_) => return "ERR".into(),
                        Ok(mp) => {
                            let l = mp.low_data_rate_optimize;
                            if run(r.set_modulation_params(&mp)).unwrap().is_err() {
                                return format!("{l} SETERR");
                            }
                            l
                        }
                    }
                }};
            }
            let l = match chip {
                "sx1261" => go!(lora_phy::sx126x::Sx1261),
                "sx1262" => go!(lora_phy::sx126x::Sx1262),
                _ => go!(lora_phy::sx126x::Stm32wl { use_high_power_pa: true }),
            };
            // SetModulationParams = 0x8B sf bw cr ldro
            let t = bus.borrow().trace.clone();
            let cmd = t.iter().find(|x| x.starts_with("w8b")).cloned().unwrap_or_default();
            let bit = if cmd.len() == 11 { &cmd[9..11] } else { "??" };
            format!("{l} {}", u8::from_str_radix(bit, 16).map(|v| v.to_string()).unwrap_or("?".into()))
        }
        "sx1276" | "sx1272" => {
            let bus = Bus::new(ChipKind::Sx127x);
            // prior register contents must not leak into the LDRO bit
            let prior: u8 = if a.len() > 4 { int(a[4]) } else { 0 };
            bus.borrow_mut().regs[0x1d] = prior;
            bus.borrow_mut().regs[0x26] = prior;
            macro_rules! go {
                ($v:expr) => {{
                    let cfg = lora_phy::sx127x::Config { chip: $v, tcxo_used: false, tx_boost: false, rx_boost: false };
                    let mut r = lora_phy::sx127x::Sx127x::new(Spi(bus.clone()), Iv(bus.clone()), cfg);
                    match decide(&mut r, s, b, freq) {
                        Err(_) => return "ERR".into(),
                        Ok(mp) => {
                            let l = mp.low_data_rate_optimize;
                            if run(r.set_modulation_params(&mp)).unwrap().is_err() {
                                return format!("{l} SETERR");
                            }
                            l
                        }
                    }
                }};
            }
            let (l, bit) = if chip == "sx1276" {
                let l = go!(lora_phy::sx127x::Sx1276);
                (l, (bus.borrow().regs[0x26] >> 3) & 1)
            } else {
                let l = go!(lora_phy::sx127x::Sx1272);
                (l, bus.borrow().regs[0x1d] & 1)
            };
            format!("{l} {bit}")
        }
        "lr1110" => {
            let bus = Bus::new(ChipKind::Lr11xx);
            let cfg = lora_phy::lr1110::Config {
                pa_selection: lora_phy::lr1110::PaSelection::Lp,
                dio_as_rf_switch: None,
                tcxo_ctrl: None,
                use_dcdc: false,
                rx_boost: false,
            };
            let mut r = lora_phy::lr1110::Lr1110::new(Spi(bus.clone()), Iv(bus.clone()), cfg);
            match decide(&mut r, s, b, freq) {
                Err(_) => "ERR".into(),
                Ok(mp) => {
                    let l = mp.low_data_rate_optimize;
                    if run(r.set_modulation_params(&mp)).unwrap().is_err() {
                        return format!("{l} SETERR");
                    }
                    // SetModulationParam = 0x020F sf bw cr ldro
                    let t = bus.borrow().trace.clone();
                    let cmd = t.iter().find(|x| x.starts_with("w020f")).cloned().unwrap_or_default();
                    let bit = if cmd.len() == 13 { u8::from_str_radix(&cmd[11..13], 16).unwrap().to_string() } else { "?".into() };
                    format!("{l} {bit}")
                }
            }
        }
        _ => "BADARGS".into(),
    }
}
