//! PHY driver operations against the recording/emulating bus of mock.rs.
//! line: phy chip=<sx1261|sx1262|stm32wl_hp|stm32wl_lp|sx1276|sx1272> tcxo=<-|n> dcdc=<0|1> rxboost=<0|1> txboost=<0|1>
//!           fault=<-|k> regs=<-|addr:val,addr:val..> reads=<-|hex> fill=<n> buf=<-|hex> | op args | op args ...
//! per op the output is "<result> :: <pin-level trace>"; a panic ends the line with "PANIC".
use crate::mock::*;
use crate::toa::{bw, sf};
use crate::util::*;
use lora_modulation::CodingRate;
use lora_phy::mod_params::*;
use lora_phy::mod_traits::RadioKind;
use std::cell::RefCell;
use std::panic::{catch_unwind, AssertUnwindSafe};
use std::rc::Rc;

fn cr(i: u32) -> CodingRate {
    match i {
        0 => CodingRate::_4_5,
        1 => CodingRate::_4_6,
        2 => CodingRate::_4_7,
        _ => CodingRate::_4_8,
    }
}
fn sfidx(i: u32) -> u32 {
    i + 5
}

fn res<T: std::fmt::Debug>(r: Option<Result<T, RadioError>>) -> String {
    match r {
        None => "PARKED".into(),
        Some(Ok(v)) => format!("Ok({:?})", v),
        Some(Err(e)) => format!("Err({:?})", e),
    }
}

fn radio_mode(tok: &str) -> Option<RadioMode> {
    match tok {
        "none" => None,
        "standby" => Some(RadioMode::Standby),
        "tx" => Some(RadioMode::Transmit),
        "rx" => Some(RadioMode::Receive(RxMode::Continuous)),
        "rxs" => Some(RadioMode::Receive(RxMode::Single(5))),
        "cad" => Some(RadioMode::ChannelActivityDetection),
        "sleep" => Some(RadioMode::Sleep),
        _ => Some(RadioMode::Listen),
    }
}

fn run_ops<R: RadioKind>(r: &mut R, bus: &Rc<RefCell<Bus>>, ops: &[&str]) -> Vec<String> {
    let mut out = vec![];
    for op in ops {
        let a: Vec<&str> = op.split_whitespace().collect();
        if a.is_empty() {
            continue;
        }
        bus.borrow_mut().trace.clear();
        let result = catch_unwind(AssertUnwindSafe(|| match a[0] {
            "init" => res(run(r.init_lora(int::<u16>(a[1])))),
            "sync" => res(run(r.set_lora_sync_word(int::<u16>(a[1])))),
            "standby" => res(run(r.set_standby())),
            "sleep" => res(run(r.set_sleep(boolean(a[1]), &mut Delay(bus.clone())))),
            "ready" => res(run(r.ensure_ready(if boolean(a[1]) { RadioMode::Sleep } else { RadioMode::Standby }))),
            "base" => res(run(r.set_tx_rx_buffer_base_address(int::<usize>(a[1]), int::<usize>(a[2])))),
            "power" => {
                let p: i32 = int(a[1]);
                let istx = boolean(a[3]);
                if a[2] == "-" {
                    res(run(r.set_tx_power_and_ramp_time(p, None, istx)))
                } else {
                    let mp = ModulationParams { spreading_factor: sf(7), bandwidth: bw(7), coding_rate: CodingRate::_4_5, low_data_rate_optimize: 0, frequency_in_hz: int(a[2]) };
                    res(run(r.set_tx_power_and_ramp_time(p, Some(&mp), istx)))
                }
            }
            "mod" => match r.create_modulation_params(sf(sfidx(int(a[1]))), bw(int(a[2])), cr(int(a[3])), int(a[4])) {
                Err(e) => format!("CreateErr({:?})", e),
                Ok(mp) => format!("ldro={} {}", mp.low_data_rate_optimize, res(run(r.set_modulation_params(&mp)))),
            },
            "pkt" => {
                let mp = ModulationParams { spreading_factor: sf(sfidx(int(a[6]))), bandwidth: bw(7), coding_rate: CodingRate::_4_5, low_data_rate_optimize: 0, frequency_in_hz: 868_100_000 };
                match r.create_packet_params(int(a[1]), boolean(a[2]), int(a[3]), boolean(a[4]), boolean(a[5]), &mp) {
                    Err(e) => format!("CreateErr({:?})", e),
                    Ok(pp) => format!("pre={} {}", pp.preamble_length, res(run(r.set_packet_params(&pp)))),
                }
            }
            "calimg" => res(run(r.calibrate_image(int(a[1])))),
            "chan" => res(run(r.set_channel(int(a[1])))),
            "payload" => res(run(r.set_payload(&unhex(a[1])))),
            "tx" => res(run(r.do_tx())),
            "rx" => {
                let m = match a[1] {
                    "s" => RxMode::Single(int(a[2])),
                    "c" => RxMode::Continuous,
                    _ => RxMode::DutyCycle(DutyCycleParams { rx_time: int(a[2]), sleep_time: int(a[3]) }),
                };
                res(run(r.do_rx(m)))
            }
            "rxpayload" => {
                let pp = PacketParams { preamble_length: 8, implicit_header: boolean(a[1]), payload_length: int(a[2]), crc_on: true, iq_inverted: false };
                let n: usize = int(a[3]);
                let mut buf = vec![0xA5u8; n];
                let rr = run(r.get_rx_payload(&pp, &mut buf));
                // the buffer is part of the contract only when the call succeeds
                let ok = matches!(rr, Some(Ok(_)));
                format!("{} buf={}", res(rr), if ok { hex(&buf) } else { "*".into() })
            }
            "status" => match run(r.get_rx_packet_status()) {
                None => "PARKED".into(),
                Some(Ok(s)) => format!("Ok(rssi={} snr={})", s.rssi, s.snr),
                Some(Err(e)) => format!("Err({:?})", e),
            },
            "rssi" => res(run(r.get_rssi())),
            "cad" => {
                let mp = ModulationParams { spreading_factor: sf(sfidx(int(a[1]))), bandwidth: bw(7), coding_rate: CodingRate::_4_5, low_data_rate_optimize: 0, frequency_in_hz: 868_100_000 };
                res(run(r.do_cad(&mp)))
            }
            "dumpregs" => {
                let b = bus.borrow();
                format!("regs={} fifo={}", hex(&b.regs[1..0x71]), hex(&b.chipbuf[0..16]))
            }
            "irq" => res(run(r.set_irq_params(radio_mode(a[1])))),
            "cw" => res(run(r.set_tx_continuous_wave_mode())),
            "clrirq" => res(run(r.clear_irq_status())),
            "irqstate" => {
                let mut cad = false;
                let m = radio_mode(a[1]).unwrap_or(RadioMode::Standby);
                let rr = run(r.get_irq_state(m, Some(&mut cad)));
                match rr {
                    None => "PARKED".into(),
                    Some(Ok(None)) => "Ok(none)".into(),
                    Some(Ok(Some(lora_phy::mod_traits::IrqState::PreambleReceived))) => "Ok(preamble)".into(),
                    Some(Ok(Some(lora_phy::mod_traits::IrqState::Done))) => format!("Ok(done cad={})", cad as u8),
                    Some(Err(e)) => format!("Err({:?})", e),
                }
            }
            "procirq" => {
                let mut cad = false;
                let m = radio_mode(a[1]).unwrap_or(RadioMode::Standby);
                let rr = run(r.process_irq_event(m, Some(&mut cad), boolean(a[2])));
                match rr {
                    None => "PARKED".into(),
                    Some(Ok(None)) => "Ok(none)".into(),
                    Some(Ok(Some(lora_phy::mod_traits::IrqState::PreambleReceived))) => "Ok(preamble)".into(),
                    Some(Ok(Some(lora_phy::mod_traits::IrqState::Done))) => format!("Ok(done cad={})", cad as u8),
                    Some(Err(e)) => format!("Err({:?})", e),
                }
            }
            _ => "BADOP".into(),
        }));
        let tr = bus.borrow().trace.join(" ");
        match result {
            Ok(s) => out.push(format!("{s} :: {tr}")),
            Err(_) => {
                out.push(format!("PANIC :: {tr}"));
                break;
            }
        }
    }
    out
}

pub fn run_line(line: &str) -> String {
    let parts: Vec<&str> = line.split('|').map(|s| s.trim()).collect();
    let head: Vec<&str> = parts[0].split_whitespace().collect();
    let mut chip = "sx1262";
    let (mut tcxo, mut dcdc, mut rxboost, mut txboost) = (None, false, false, false);
    let mut fault = None;
    let mut regs: Vec<(usize, u8)> = vec![];
    let mut reads: Vec<u8> = vec![];
    let mut fill = 0u8;
    let mut buf: Vec<u8> = vec![];
    for kv in &head[1..] {
        let (k, v) = kv.split_once('=').unwrap();
        match k {
            "chip" => chip = v,
            "tcxo" => tcxo = if v == "-" { None } else { Some(int::<u8>(v)) },
            "dcdc" => dcdc = boolean(v),
            "rxboost" => rxboost = boolean(v),
            "txboost" => txboost = boolean(v),
            "fault" => fault = if v == "-" { None } else { Some(int::<usize>(v)) },
            "regs" => {
                if v != "-" {
                    for p in v.split(',') {
                        let (a, b) = p.split_once(':').unwrap();
                        regs.push((int::<usize>(a), int::<u8>(b)));
                    }
                }
            }
            "reads" => reads = if v == "-" { vec![] } else { unhex(v) },
            "fill" => fill = int(v),
            "buf" => buf = if v == "-" { vec![] } else { unhex(v) },
            _ => {}
        }
    }
    let is126 = !chip.starts_with("sx127");
    let bus = Bus::new(if is126 { ChipKind::Sx126x } else { ChipKind::Sx127x });
    {
        let mut b = bus.borrow_mut();
        for (a, v) in &regs {
            b.regs[*a & 0xfff] = *v;
        }
        b.reads = reads.into_iter().collect();
        b.fill = fill;
        for (i, v) in buf.iter().enumerate().take(256) {
            b.chipbuf[i] = *v;
        }
        b.fault_at = fault;
    }
    use lora_phy::sx126x::TcxoCtrlVoltage::*;
    let tv = tcxo.map(|t| [Ctrl1V6, Ctrl1V7, Ctrl1V8, Ctrl2V2, Ctrl2V4, Ctrl2V7, Ctrl3V0, Ctrl3V3][(t & 7) as usize]);
    let ops = &parts[1..];
    let out = match chip {
        "sx1261" => {
            let cfg = lora_phy::sx126x::Config { chip: lora_phy::sx126x::Sx1261, tcxo_ctrl: tv, use_dcdc: dcdc, rx_boost: rxboost };
            let mut r = lora_phy::sx126x::Sx126x::new(Spi(bus.clone()), Iv(bus.clone()), cfg);
            run_ops(&mut r, &bus, ops)
        }
        "sx1262" => {
            let cfg = lora_phy::sx126x::Config { chip: lora_phy::sx126x::Sx1262, tcxo_ctrl: tv, use_dcdc: dcdc, rx_boost: rxboost };
            let mut r = lora_phy::sx126x::Sx126x::new(Spi(bus.clone()), Iv(bus.clone()), cfg);
            run_ops(&mut r, &bus, ops)
        }
        "stm32wl_hp" | "stm32wl_lp" => {
            let cfg = lora_phy::sx126x::Config { chip: lora_phy::sx126x::Stm32wl { use_high_power_pa: chip == "stm32wl_hp" }, tcxo_ctrl: tv, use_dcdc: dcdc, rx_boost: rxboost };
            let mut r = lora_phy::sx126x::Sx126x::new(Spi(bus.clone()), Iv(bus.clone()), cfg);
            run_ops(&mut r, &bus, ops)
        }
        "sx1276" => {
            let cfg = lora_phy::sx127x::Config { chip: lora_phy::sx127x::Sx1276, tcxo_used: tcxo.is_some(), tx_boost: txboost, rx_boost: rxboost };
            let mut r = lora_phy::sx127x::Sx127x::new(Spi(bus.clone()), Iv(bus.clone()), cfg);
            run_ops(&mut r, &bus, ops)
        }
        _ => {
            let cfg = lora_phy::sx127x::Config { chip: lora_phy::sx127x::Sx1272, tcxo_used: tcxo.is_some(), tx_boost: txboost, rx_boost: rxboost };
            let mut r = lora_phy::sx127x::Sx127x::new(Spi(bus.clone()), Iv(bus.clone()), cfg);
            run_ops(&mut r, &bus, ops)
        }
    };
    out.join(" ; ")
}
