//! Front-end histories on async_device::Device with a scripted radio and timer.
//! line: adev r=<rid> p=<maxpower> g=<gain> lead=<ms> classc=<0|1> fault=<k|-> | op | op ...
//!   ops: abp <nwk> <app> <addr> | join <deveui> <appeui> <appkey> <draws> <script> | send <data> <port> <conf> <draws> <script>
//!        | listen <script> | dr <n> | adr <0|1>
//!   script: comma separated events consumed by the radio in order: T = rx_single timeout, E = radio error at this call,
//!           X<hex> = frame received (rx_single or rx_continuous), P = rx_continuous stays pending (timer wins)
//! The fault position k makes the k-th radio call (0-based, counted over the whole line) fail; kxN makes the N calls from k on fail.
use crate::macops::{region_cfg, rng_of, ScriptRng};
use crate::util::*;
use lorawan_device::async_device::radio::{PhyRxTx, RxConfig, RxMode, RxQuality, RxStatus, Timer, TxConfig};
use lorawan_device::async_device::{Device, JoinMode, Timings};
use lorawan_device::{AppEui, AppKey, AppSKey, DevAddr, DevEui, NwkSKey};
use std::cell::RefCell;
use std::collections::VecDeque;
use std::panic::{catch_unwind, AssertUnwindSafe};
use std::rc::Rc;

#[derive(Default)]
pub struct Shared {
    pub trace: Vec<String>,
    pub script: VecDeque<String>,
    pub calls: usize,
    pub fault: Option<(usize, usize)>,
    pub lead: u32,
}
pub struct Radio(pub Rc<RefCell<Shared>>);
pub struct Tm(pub Rc<RefCell<Shared>>);
#[derive(Debug)]
pub struct RErr;

fn bwi(b: lora_modulation::Bandwidth) -> u32 {
    use lora_modulation::Bandwidth::*;
    match b { _7KHz => 0, _10KHz => 1, _15KHz => 2, _20KHz => 3, _31KHz => 4, _41KHz => 5, _62KHz => 6, _125KHz => 7, _250KHz => 8, _500KHz => 9 }
}
impl Radio {
    fn call(&self, what: String) -> Result<(), RErr> {
        let mut s = self.0.borrow_mut();
        let n = s.calls;
        s.calls += 1;
        if matches!(s.fault, Some((k, len)) if k <= n && n < k + len) {
            s.trace.push(format!("{what}!ERR"));
            return Err(RErr);
        }
        s.trace.push(what);
        Ok(())
    }
}
struct Never;
impl std::future::Future for Never {
    type Output = ();
    fn poll(self: std::pin::Pin<&mut Self>, _: &mut std::task::Context<'_>) -> std::task::Poll<()> {
        std::task::Poll::Pending
    }
}
impl PhyRxTx for Radio {
    type PhyError = RErr;
    const MAX_RADIO_POWER: u8 = 22;
    async fn tx(&mut self, c: TxConfig, buf: &[u8]) -> Result<u32, RErr> {
        self.call(format!("tx[{}/{}/{} pw={} {}]", c.rf.frequency, c.rf.bb.sf.factor(), bwi(c.rf.bb.bw), c.pw, hex(buf)))?;
        Ok(100)
    }
    async fn setup_rx(&mut self, c: RxConfig) -> Result<(), RErr> {
        let m = match c.mode { RxMode::Continuous => "cont".to_string(), RxMode::Single { ms } => format!("single{ms}") };
        self.call(format!("setup_rx[{}/{}/{}/{} {}]", c.rf.frequency, c.rf.bb.sf.factor(), bwi(c.rf.bb.bw), c.rf.max_payload_len, m))
    }
    async fn rx_continuous(&mut self, rx_buf: &mut [u8]) -> Result<(usize, RxQuality), RErr> {
        let ev = self.0.borrow_mut().script.pop_front();
        match ev.as_deref() {
            Some(e) if e.starts_with('X') => {
                self.call("rx_continuous".into())?;
                let f = unhex(&e[1..]);
                let n = f.len().min(rx_buf.len());
                rx_buf[..n].copy_from_slice(&f[..n]);
                Ok((n, RxQuality::new(-80, 5)))
            }
            Some("E") => {
                self.call("rx_continuous".into())?;
                self.0.borrow_mut().trace.push("rx_continuous!ERR".into());
                Err(RErr)
            }
            _ => {
                self.0.borrow_mut().trace.push("rx_continuous:pending".into());
                Never.await;
                unreachable!()
            }
        }
    }
    async fn rx_single(&mut self, buf: &mut [u8]) -> Result<RxStatus, RErr> {
        self.call("rx_single".into())?;
        let ev = self.0.borrow_mut().script.pop_front();
        match ev.as_deref() {
            Some(e) if e.starts_with('X') => {
                let f = unhex(&e[1..]);
                let n = f.len().min(buf.len());
                buf[..n].copy_from_slice(&f[..n]);
                Ok(RxStatus::Rx(n, RxQuality::new(-80, 5)))
            }
            Some("E") => {
                self.0.borrow_mut().trace.push("rx_single!ERR".into());
                Err(RErr)
            }
            _ => Ok(RxStatus::RxTimeout),
        }
    }
    async fn low_power(&mut self) -> Result<(), RErr> {
        self.call("low_power".into())
    }
}
impl Timings for Radio {
    fn get_rx_window_lead_time_ms(&self) -> u32 {
        self.0.borrow().lead
    }
}
impl Timer for Tm {
    fn reset(&mut self) {
        self.0.borrow_mut().trace.push("timer.reset".into());
    }
    async fn at(&mut self, millis: u64) {
        self.0.borrow_mut().trace.push(format!("timer.at({millis})"));
    }
    async fn delay_ms(&mut self, millis: u64) {
        self.0.borrow_mut().trace.push(format!("timer.delay({millis})"));
    }
}

fn key16(s: &str) -> [u8; 16] {
    let mut k = [0u8; 16];
    k.copy_from_slice(&unhex(s));
    k
}

pub fn run_history(line: &str) -> String {
    let parts: Vec<&str> = line.split('|').map(|x| x.trim()).collect();
    let head: Vec<&str> = parts[0].split_whitespace().collect();
    let (mut r, mut lead, mut classc) = (5u32, 15u32, false);
    let mut fault = None;
    let mut bias = "-";
    let mut session: Option<String> = None;
    for kv in &head[1..] {
        let (k, v) = kv.split_once('=').unwrap();
        match k {
            "r" => r = int(v),
            "lead" => lead = int(v),
            "classc" => classc = v != "0",
            // k: call k fails; kxN: the N calls from k on fail (an outage)
            "fault" => fault = if v == "-" { None } else { Some(match v.split_once('x') { Some((a, b)) => (int::<usize>(a), int::<usize>(b)), None => (int::<usize>(v), 1) }) },
            "bias" => bias = v,
            "session" => session = Some(v.to_string()),
            _ => {}
        }
    }
    let sh = Rc::new(RefCell::new(Shared { lead, fault, ..Default::default() }));
    // session=<nwk>:<app>:<addr>:<fcnt_up>
    let sess = session.map(|s| {
        let f: Vec<&str> = s.split(':').collect();
        let mut x = lorawan_device::mac::Session::new(NwkSKey::from(key16(f[0])), AppSKey::from(key16(f[1])), DevAddr::from_value(int::<u32>(f[2])));
        x.fcnt_up = int::<u32>(f[3]);
        x
    });
    let mut dev: Device<Radio, Tm, ScriptRng, 256, 4> =
        Device::new_with_session(region_cfg(r, bias), Radio(sh.clone()), Tm(sh.clone()), ScriptRng { draws: Default::default() }, sess);
    if classc {
        dev.enable_class_c();
    }
    let mut out: Vec<String> = vec![];
    for op in &parts[1..] {
        let a: Vec<&str> = op.split_whitespace().collect();
        if a.is_empty() {
            continue;
        }
        sh.borrow_mut().trace.clear();
        let res = catch_unwind(AssertUnwindSafe(|| match a[0] {
            "abp" => {
                let jm = JoinMode::ABP {
                    nwkskey: NwkSKey::from(key16(a[1])),
                    appskey: AppSKey::from(key16(a[2])),
                    devaddr: DevAddr::from_value(int::<u32>(a[3])),
                };
                format!("{:?}", crate::mock::run(dev.join(&jm)).map(|r| r.map_err(|_| "Err")))
            }
            "join" => {
                dev.rng = rng_of(a[4]);
                sh.borrow_mut().script = a[5].split(',').map(|x| x.to_string()).collect();
                let jm = JoinMode::OTAA {
                    deveui: DevEui::from(int::<u64>(a[1]).to_le_bytes()),
                    appeui: AppEui::from(int::<u64>(a[2]).to_le_bytes()),
                    appkey: AppKey::from(key16(a[3])),
                };
                match crate::mock::run(dev.join(&jm)) {
                    None => "PARKED".into(),
                    Some(Ok(r)) => format!("{:?}", r),
                    Some(Err(_)) => "Err".into(),
                }
            }
            "send" => {
                dev.rng = rng_of(a[4]);
                sh.borrow_mut().script = a[5].split(',').map(|x| x.to_string()).collect();
                match crate::mock::run(dev.send(&unhex(a[1]), int::<u8>(a[2]), boolean(a[3]))) {
                    None => "PARKED".into(),
                    Some(Ok(r)) => format!("{:?}", r),
                    Some(Err(lorawan_device::async_device::Error::Radio(_))) => "Err(Radio)".into(),
                    Some(Err(lorawan_device::async_device::Error::Mac(e))) => format!("Err(Mac({:?}))", e),
                }
            }
            "listen" => {
                sh.borrow_mut().script = a[1].split(',').map(|x| x.to_string()).collect();
                match crate::mock::run(dev.rxc_listen()) {
                    None => "PARKED".into(),
                    Some(Ok(r)) => format!("{:?}", r),
                    Some(Err(lorawan_device::async_device::Error::Radio(_))) => "Err(Radio)".into(),
                    Some(Err(lorawan_device::async_device::Error::Mac(e))) => format!("Err(Mac({:?}))", e),
                }
            }
            "dr" => {
                dev.set_datarate(crate::macops::dr_of(int::<u8>(a[1])));
                "ok".into()
            }
            "adr" => {
                dev.set_adr(boolean(a[1]));
                "ok".into()
            }
            "fcnt" => format!("{:?}", dev.get_session().map(|s| (s.fcnt_up, s.fcnt_down()))),
            _ => "BADOP".into(),
        }));
        let tr = sh.borrow().trace.join(" ");
        match res {
            Ok(s) => out.push(format!("{s} :: {tr}")),
            Err(e) => {
                if e.downcast_ref::<&str>().map(|s| *s == crate::macops::OUT_OF_DRAWS).unwrap_or(false) {
                    out.push(format!("HANG :: {tr}"));
                } else {
                    out.push(format!("PANIC :: {tr}"));
                }
                break;
            }
        }
    }
    out.join(" ; ")
}
