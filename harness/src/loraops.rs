//! Physical-layer API histories: LoRa<RK, DLY> (line kind "lora") and the LoRaWAN adapter LorawanRadio (line kind "lwr") on the
//! emulated bus of mock.rs, with faults, scripted interrupt outcomes and cancellation (a pending await_irq drops the future).
//! line: lora chip=<..> tcxo=<-|n> dcdc=.. rxboost=.. txboost=.. regs=.. reads=.. fill=.. buf=.. | [@k=v ...] op args | ...
//!   per-op prefixes: @reads=<hex> (status/irq bytes answered next), @reg=<a>:<v>, @fault=<k> (k-th pin event from now fails),
//!                    @pend=<n> (the n-th await_irq from now never completes: the operation is cancelled)
//! output per op: "<result> mode=<driver's radio_mode> cold=<0|1> cal=<0|1> :: <trace>"
use crate::mock::*;
use crate::toa::{bw, sf};
use crate::util::*;
use lora_modulation::{BaseBandModulationParams, CodingRate};
use lora_phy::mod_params::*;
use lora_phy::mod_traits::RadioKind;
use lora_phy::{LoRa, RxMode as PhyRxMode};
use lorawan_device::async_device::radio::{PhyRxTx, RfConfig, RxConfig, RxMode as LwRxMode, TxConfig};
use std::cell::RefCell;
use std::panic::{catch_unwind, AssertUnwindSafe};
use std::rc::Rc;

fn cr(i: u32) -> CodingRate {
    match i {
        0 => CodingRate::_4_5,
        1 => CodingRate::_4_6,
        2 => CodingRate::_4_7,
        _ => CodingRate::_4_8,
    }
}
fn mode_str(m: RadioMode) -> String {
    match m {
        RadioMode::Sleep => "sleep".into(),
        RadioMode::Standby => "standby".into(),
        RadioMode::FrequencySynthesis => "fs".into(),
        RadioMode::Transmit => "tx".into(),
        RadioMode::Receive(PhyRxMode::Single(n)) => format!("rxs{n}"),
        RadioMode::Receive(PhyRxMode::Continuous) => "rxc".into(),
        RadioMode::Receive(PhyRxMode::DutyCycle(d)) => format!("rxd{}:{}", d.rx_time, d.sleep_time),
        RadioMode::Listen => "listen".into(),
        RadioMode::ChannelActivityDetection => "cad".into(),
    }
}
fn res<T: std::fmt::Debug>(r: Option<Result<T, RadioError>>) -> String {
    match r {
        None => "CANCELLED".into(),
        Some(Ok(v)) => format!("Ok({:?})", v),
        Some(Err(e)) => format!("Err({:?})", e),
    }
}
fn rxmode(a: &[&str]) -> (PhyRxMode, usize) {
    match a[0] {
        "s" => (PhyRxMode::Single(int(a[1])), 2),
        "c" => (PhyRxMode::Continuous, 1),
        _ => (PhyRxMode::DutyCycle(DutyCycleParams { rx_time: int(a[1]), sleep_time: int(a[2]) }), 3),
    }
}

fn prefixes<'a>(bus: &Rc<RefCell<Bus>>, a: &'a [&'a str]) -> &'a [&'a str] {
    let mut i = 0;
    while i < a.len() && a[i].starts_with('@') {
        let (k, v) = a[i][1..].split_once('=').unwrap();
        let mut b = bus.borrow_mut();
        match k {
            "reads" => b.reads = unhex(v).into_iter().collect(),
            "reg" => {
                let (x, y) = v.split_once(':').unwrap();
                b.regs[int::<usize>(x) & 0xfff] = int::<u8>(y);
            }
            "fault" => b.fault_at = Some(b.events + int::<usize>(v)),
            "pend" => b.pending_irq_at = Some(b.irq_calls + int::<usize>(v)),
            "irqs" => b.irq_budget = int::<usize>(v),
            // onirq=<flags>[:<hex bytes the chip answers after the irq status>],...
            "onirq" => {
                b.on_irq = v
                    .split(',')
                    .map(|x| match x.split_once(':') {
                        Some((f, h)) => (int::<u16>(f), unhex(h)),
                        None => (int::<u16>(x), vec![]),
                    })
                    .collect()
            }
            _ => {}
        }
        i += 1;
    }
    &a[i..]
}

fn run_lora<R: RadioKind>(radio: R, bus: &Rc<RefCell<Bus>>, ops: &[&str]) -> Vec<String> {
    let mut out = vec![];
    bus.borrow_mut().trace.clear();
    let mut lora = match run(LoRa::new(radio, true, Delay(bus.clone()))) {
        Some(Ok(l)) => {
            out.push(format!("new Ok mode={} :: {}", mode_str(l.verif_state().0), bus.borrow().trace.join(" ")));
            l
        }
        Some(Err(e)) => {
            out.push(format!("new Err({:?}) :: {}", e, bus.borrow().trace.join(" ")));
            return out;
        }
        None => {
            out.push(format!("new CANCELLED :: {}", bus.borrow().trace.join(" ")));
            return out;
        }
    };
    let mut rxpp: Option<PacketParams> = None;
    for op in ops {
        let toks: Vec<&str> = op.split_whitespace().collect();
        if toks.is_empty() {
            continue;
        }
        bus.borrow_mut().trace.clear();
        bus.borrow_mut().fault_at = None;
        bus.borrow_mut().pending_irq_at = None;
        bus.borrow_mut().irq_budget = 6;
        bus.borrow_mut().on_irq.clear();
        let a = prefixes(bus, &toks);
        let result = catch_unwind(AssertUnwindSafe(|| match a[0] {
            "init" => res(run(lora.init())),
            "sleep" => res(run(lora.sleep(boolean(a[1])))),
            "standby" => res(run(lora.enter_standby())),
            "sync" => res(run(lora.set_lora_sync_word(int::<u16>(a[1])))),
            "ptx" => match lora.create_modulation_params(sf(int::<u32>(a[1]) + 5), bw(int(a[2])), cr(int(a[3])), int(a[4])) {
                Err(e) => format!("CreateErr({:?})", e),
                Ok(mp) => match lora.create_tx_packet_params(8, false, true, false, &mp) {
                    Err(e) => format!("CreateErr({:?})", e),
                    Ok(mut pp) => res(run(lora.prepare_for_tx(&mp, &mut pp, int::<i32>(a[5]), &unhex(a[6])))),
                },
            },
            "tx" => res(run(lora.tx())),
            "prx" => {
                let (m, k) = rxmode(&a[1..]);
                let b = &a[1 + k..];
                match lora.create_modulation_params(sf(int::<u32>(b[0]) + 5), bw(int(b[1])), cr(int(b[2])), int(b[3])) {
                    Err(e) => format!("CreateErr({:?})", e),
                    Ok(mp) => {
                        let implicit = b.len() > 4 && boolean(b[4]);
                        let len: u8 = if b.len() > 5 { int(b[5]) } else { 255 };
                        match lora.create_rx_packet_params(8, implicit, len, true, true, &mp) {
                            Err(e) => format!("CreateErr({:?})", e),
                            Ok(pp) => {
                                let r = res(run(lora.prepare_for_rx(m, &mp, &pp)));
                                rxpp = Some(pp);
                                r
                            }
                        }
                    }
                }
            }
            "startrx" => res(run(lora.start_rx())),
            "completerx" | "rx" | "rxresult" => {
                let pp = rxpp.take().unwrap_or(PacketParams { preamble_length: 8, implicit_header: false, payload_length: 255, crc_on: true, iq_inverted: true });
                let mut buf = vec![0xA5u8; int::<usize>(a[1])];
                let r = match a[0] {
                    "completerx" => run(lora.complete_rx(&pp, &mut buf)),
                    "rx" => run(lora.rx(&pp, &mut buf)),
                    _ => run(lora.get_rx_result(&pp, &mut buf)),
                };
                rxpp = Some(pp);
                match r {
                    None => "CANCELLED buf=*".into(),
                    Some(Ok((n, st))) => format!("Ok({} rssi={} snr={}) buf={}", n, st.rssi, st.snr, hex(&buf)),
                    Some(Err(e)) => format!("Err({:?}) buf=*", e),
                }
            }
            "switch" => res(run(lora.rx_switch_channel(int(a[1])))),
            "listen" => res(run(lora.listen(int(a[1]), bw(int(a[2]))))),
            "pcad" => match lora.create_modulation_params(sf(int::<u32>(a[1]) + 5), bw(int(a[2])), cr(int(a[3])), int(a[4])) {
                Err(e) => format!("CreateErr({:?})", e),
                Ok(mp) => res(run(lora.prepare_for_cad(&mp))),
            },
            "cad" => match lora.create_modulation_params(sf(int::<u32>(a[1]) + 5), bw(7), CodingRate::_4_5, 868_100_000) {
                Err(e) => format!("CreateErr({:?})", e),
                Ok(mp) => res(run(lora.cad(&mp))),
            },
            "cw" => match lora.create_modulation_params(sf(int::<u32>(a[1]) + 5), bw(int(a[2])), cr(int(a[3])), int(a[4])) {
                Err(e) => format!("CreateErr({:?})", e),
                Ok(mp) => res(run(lora.continuous_wave(&mp, int::<i32>(a[5])))),
            },
            "waitirq" => res(run(lora.wait_for_irq())),
            "irq" => match run(lora.process_irq_event()) {
                None => "CANCELLED".into(),
                Some(Ok(None)) => "Ok(none)".into(),
                Some(Ok(Some(lora_phy::mod_traits::IrqState::PreambleReceived))) => "Ok(preamble)".into(),
                Some(Ok(Some(lora_phy::mod_traits::IrqState::Done))) => "Ok(done)".into(),
                Some(Err(e)) => format!("Err({:?})", e),
            },
            "rssi" => res(run(lora.get_rssi())),
            "clrirq" => res(run(lora.clear_irq_status())),
            _ => "BADOP".into(),
        }));
        let tr = bus.borrow().trace.join(" ");
        let (m, cold, cal) = lora.verif_state();
        match result {
            Ok(s) => out.push(format!("{s} mode={} cold={} cal={} :: {tr}", mode_str(m), cold as u8, cal as u8)),
            Err(_) => {
                out.push(format!("PANIC mode={} cold={} cal={} :: {tr}", mode_str(m), cold as u8, cal as u8));
                break;
            }
        }
    }
    out
}

fn run_lwr<R: RadioKind>(radio: R, bus: &Rc<RefCell<Bus>>, ops: &[&str]) -> Vec<String> {
    let mut out = vec![];
    bus.borrow_mut().trace.clear();
    let lora = match run(LoRa::new(radio, true, Delay(bus.clone()))) {
        Some(Ok(l)) => {
            out.push(format!("new Ok mode={} :: {}", mode_str(l.verif_state().0), bus.borrow().trace.join(" ")));
            l
        }
        _ => return vec!["new FAILED".into()],
    };
    let mut lw: lora_phy::lorawan_radio::LorawanRadio<R, Delay, 22> = lora.into();
    for op in ops {
        let toks: Vec<&str> = op.split_whitespace().collect();
        if toks.is_empty() {
            continue;
        }
        bus.borrow_mut().trace.clear();
        bus.borrow_mut().fault_at = None;
        bus.borrow_mut().pending_irq_at = None;
        bus.borrow_mut().irq_budget = 6;
        bus.borrow_mut().on_irq.clear();
        let a = prefixes(bus, &toks);
        let rf = |x: &[&str]| RfConfig { frequency: int(x[3]), bb: BaseBandModulationParams::new(sf(int::<u32>(x[0]) + 5), bw(int(x[1])), cr(int(x[2]))), max_payload_len: 255 };
        let result = catch_unwind(AssertUnwindSafe(|| match a[0] {
            "tx" => match run(lw.tx(TxConfig { pw: int::<i8>(a[5]), rf: rf(&a[1..]) }, &unhex(a[6]))) {
                None => "CANCELLED".into(),
                Some(Ok(v)) => format!("Ok({v})"),
                Some(Err(e)) => format!("Err({:?})", e),
            },
            "setuprx" => {
                let mode = if a[5] == "c" { LwRxMode::Continuous } else { LwRxMode::Single { ms: int(a[5]) } };
                match run(lw.setup_rx(RxConfig { rf: rf(&a[1..]), mode })) {
                    None => "CANCELLED".into(),
                    Some(Ok(())) => "Ok(())".into(),
                    Some(Err(e)) => format!("Err({:?})", e),
                }
            }
            "rxsingle" => {
                let mut buf = vec![0xA5u8; int::<usize>(a[1])];
                match run(lw.rx_single(&mut buf)) {
                    None => "CANCELLED buf=*".into(),
                    Some(Ok(lorawan_device::async_device::radio::RxStatus::Rx(n, q))) => format!("Ok(Rx {} rssi={} snr={}) buf={}", n, q.rssi(), q.snr(), hex(&buf)),
                    Some(Ok(lorawan_device::async_device::radio::RxStatus::RxTimeout)) => "Ok(RxTimeout) buf=*".into(),
                    Some(Err(e)) => format!("Err({:?}) buf=*", e),
                }
            }
            "rxcont" => {
                let mut buf = vec![0xA5u8; int::<usize>(a[1])];
                match run(lw.rx_continuous(&mut buf)) {
                    None => "CANCELLED buf=*".into(),
                    Some(Ok((n, q))) => format!("Ok({} rssi={} snr={}) buf={}", n, q.rssi(), q.snr(), hex(&buf)),
                    Some(Err(e)) => format!("Err({:?}) buf=*", e),
                }
            }
            "lowpower" => match run(lw.low_power()) {
                None => "CANCELLED".into(),
                Some(Ok(())) => "Ok(())".into(),
                Some(Err(e)) => format!("Err({:?})", e),
            },
            _ => "BADOP".into(),
        }));
        let tr = bus.borrow().trace.join(" ");
        let (m, cold, cal) = lw.verif_lora().verif_state();
        match result {
            Ok(s) => out.push(format!("{s} mode={} cold={} cal={} :: {tr}", mode_str(m), cold as u8, cal as u8)),
            Err(_) => {
                out.push(format!("PANIC mode={} cold={} cal={} :: {tr}", mode_str(m), cold as u8, cal as u8));
                break;
            }
        }
    }
    out
}

pub fn run_line(line: &str) -> String {
    let parts: Vec<&str> = line.split('|').map(|s| s.trim()).collect();
    let head: Vec<&str> = parts[0].split_whitespace().collect();
    let lwr = head[0] == "lwr";
    let mut chip = "sx1262";
    let (mut tcxo, mut dcdc, mut rxboost, mut txboost) = (None, false, false, false);
    let mut regs: Vec<(usize, u8)> = vec![];
    let mut reads: Vec<u8> = vec![];
    let mut fill = 0u8;
    let mut buf: Vec<u8> = vec![];
    let mut fault = None;
    for kv in &head[1..] {
        let (k, v) = kv.split_once('=').unwrap();
        match k {
            "chip" => chip = v,
            "tcxo" => tcxo = if v == "-" { None } else { Some(int::<u8>(v)) },
            "dcdc" => dcdc = boolean(v),
            "rxboost" => rxboost = boolean(v),
            "txboost" => txboost = boolean(v),
            "fault" => fault = if v == "-" { None } else { Some(int::<usize>(v)) },
            "regs" => {
                if v != "-" {
                    for p in v.split(',') {
                        let (a, b) = p.split_once(':').unwrap();
                        regs.push((int::<usize>(a), int::<u8>(b)));
                    }
                }
            }
            "reads" => reads = if v == "-" { vec![] } else { unhex(v) },
            "fill" => fill = int(v),
            "buf" => buf = if v == "-" { vec![] } else { unhex(v) },
            _ => {}
        }
    }
    let is126 = !chip.starts_with("sx127");
    let bus = Bus::new(if is126 { ChipKind::Sx126x } else { ChipKind::Sx127x });
    {
        let mut b = bus.borrow_mut();
        for (a, v) in &regs {
            b.regs[*a & 0xfff] = *v;
        }
        b.reads = reads.into_iter().collect();
        b.fill = fill;
        for (i, v) in buf.iter().enumerate().take(256) {
            b.chipbuf[i] = *v;
        }
        b.fault_at = fault;
    }
    use lora_phy::sx126x::TcxoCtrlVoltage::*;
    let tv = tcxo.map(|t| [Ctrl1V6, Ctrl1V7, Ctrl1V8, Ctrl2V2, Ctrl2V4, Ctrl2V7, Ctrl3V0, Ctrl3V3][(t & 7) as usize]);
    let ops = &parts[1..];
    macro_rules! go {
        ($radio:expr) => {{
            let r = $radio;
            if lwr { run_lwr(r, &bus, ops) } else { run_lora(r, &bus, ops) }
        }};
    }
    let out = match chip {
        "sx1261" => go!(lora_phy::sx126x::Sx126x::new(Spi(bus.clone()), Iv(bus.clone()), lora_phy::sx126x::Config { chip: lora_phy::sx126x::Sx1261, tcxo_ctrl: tv, use_dcdc: dcdc, rx_boost: rxboost })),
        "sx1262" => go!(lora_phy::sx126x::Sx126x::new(Spi(bus.clone()), Iv(bus.clone()), lora_phy::sx126x::Config { chip: lora_phy::sx126x::Sx1262, tcxo_ctrl: tv, use_dcdc: dcdc, rx_boost: rxboost })),
        "stm32wl_hp" | "stm32wl_lp" => go!(lora_phy::sx126x::Sx126x::new(Spi(bus.clone()), Iv(bus.clone()), lora_phy::sx126x::Config { chip: lora_phy::sx126x::Stm32wl { use_high_power_pa: chip == "stm32wl_hp" }, tcxo_ctrl: tv, use_dcdc: dcdc, rx_boost: rxboost })),
        "sx1276" => go!(lora_phy::sx127x::Sx127x::new(Spi(bus.clone()), Iv(bus.clone()), lora_phy::sx127x::Config { chip: lora_phy::sx127x::Sx1276, tcxo_used: tcxo.is_some(), tx_boost: txboost, rx_boost: rxboost })),
        _ => go!(lora_phy::sx127x::Sx127x::new(Spi(bus.clone()), Iv(bus.clone()), lora_phy::sx127x::Config { chip: lora_phy::sx127x::Sx1272, tcxo_used: tcxo.is_some(), tx_boost: txboost, rx_boost: rxboost })),
    };
    out.join(" ; ")
}
