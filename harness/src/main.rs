//! vph -- implementation-side runner of the correspondence checks.
//! stdin: one case per line "<op> <arg> ..."; stdout: one canonical result per line
//! (same protocol as /verif/ocaml/driver.ml).  Every case runs under catch_unwind;
//! a panic (including debug-build arithmetic overflow, enabled in this profile)
//! is reported as the outcome "PANIC".
use std::io::{BufRead, Write};
use std::panic::{catch_unwind, AssertUnwindSafe};

mod util;
mod toa;
mod mock;
mod ldro;
mod frame;
mod maccmd;
mod macops;
mod asyncdev;
mod nbdev;
mod phyops;
mod loraops;
mod refops;

fn dispatch(op: &str, a: &[&str]) -> String {
    match op {
        "toa" | "toa_sweep" | "ldro_toa" | "delay_in_symbols" | "symbols_to_ms" => toa::run(op, a),
        "ldro" => ldro::run_op(a),
        "nfd" | "nfd_sweep" => macops::nfd(op, a),
        "regiontables" => macops::region_tables(a),
        "mc_parse" | "mc_read" | "mc_sweep" | "mc_build" | "mc_seq" | "ident" | "pl_new" => maccmd::run_op(op, a),
        "build_data" | "build_jr" | "build_ja" | "parse_phy" | "parse_data" | "parse_jr" | "ja_decrypt" | "aes" | "cmac" => frame::run_op(op, a),
        _ => format!("UNKNOWN-OP {op}"),
    }
}

fn main() {
    std::panic::set_hook(Box::new(|_| {}));
    let stdin = std::io::stdin();
    let stdout = std::io::stdout();
    let mut out = std::io::BufWriter::new(stdout.lock());
    for line in stdin.lock().lines() {
        let line = line.unwrap();
        let toks: Vec<&str> = line.split_whitespace().collect();
        if !toks.is_empty() && toks[0] == "ndev" {
            let r = catch_unwind(AssertUnwindSafe(|| nbdev::run_history(&line)));
            match r {
                Ok(s) => writeln!(out, "{s}").unwrap(),
                Err(_) => writeln!(out, "PANIC").unwrap(),
            }
            continue;
        }
        if !toks.is_empty() && toks[0] == "adev" {
            let r = catch_unwind(AssertUnwindSafe(|| asyncdev::run_history(&line)));
            match r {
                Ok(s) => writeln!(out, "{s}").unwrap(),
                Err(_) => writeln!(out, "PANIC").unwrap(),
            }
            continue;
        }
        if !toks.is_empty() && (toks[0] == "lora" || toks[0] == "lwr") {
            let r = catch_unwind(AssertUnwindSafe(|| loraops::run_line(&line)));
            match r {
                Ok(s) => writeln!(out, "{s}").unwrap(),
                Err(_) => writeln!(out, "PANIC").unwrap(),
            }
            continue;
        }
        if !toks.is_empty() && toks[0] == "ref" {
            let r = catch_unwind(AssertUnwindSafe(|| refops::run_line(&line)));
            match r {
                Ok(s) => writeln!(out, "{s}").unwrap(),
                Err(_) => writeln!(out, "PANIC").unwrap(),
            }
            continue;
        }
        if !toks.is_empty() && toks[0] == "phy" {
            let r = catch_unwind(AssertUnwindSafe(|| phyops::run_line(&line)));
            match r {
                Ok(s) => writeln!(out, "{s}").unwrap(),
                Err(_) => writeln!(out, "PANIC").unwrap(),
            }
            continue;
        }
        if !toks.is_empty() && toks[0] == "mac" {
            let r = catch_unwind(AssertUnwindSafe(|| macops::run_history(&line)));
            match r {
                Ok(s) => writeln!(out, "{s}").unwrap(),
                Err(_) => writeln!(out, "PANIC").unwrap(),
            }
            continue;
        }
        if toks.is_empty() {
            writeln!(out).unwrap();
            continue;
        }
        let r = catch_unwind(AssertUnwindSafe(|| dispatch(toks[0], &toks[1..])));
        match r {
            Ok(s) => writeln!(out, "{s}").unwrap(),
            Err(_) => writeln!(out, "PANIC").unwrap(),
        }
    }
    out.flush().unwrap();
}
