//! Front-end histories on nb_device::Device with a scripted radio.
//! line: ndev r=<rid> fault=<k|kxN|-> | op | ...   ops: abp | join <deveui> <appeui> <appkey> <draws> <resp> |
//!   send <data> <port> <conf> <draws> <resp> | phy <resp> | timeout | dr n | adr b | fcnt
//!   resp (what the radio answers): txing | txdone | idle | rxing | err | rx<hex>
use crate::macops::{region_cfg, rng_of, ScriptRng};
use crate::util::*;
use lorawan_device::nb_device::radio::{Event as REvent, PhyRxTx, Response as RResponse, RxQuality};
use lorawan_device::nb_device::{Device, Event, Response};
use lorawan_device::{AppEui, AppKey, AppSKey, DevAddr, DevEui, JoinMode, NwkSKey, Timings};
use std::panic::{catch_unwind, AssertUnwindSafe};

pub struct Radio {
    pub trace: Vec<String>,
    pub next: String,
    pub packet: Vec<u8>,
    pub calls: usize,
    pub fault: Option<(usize, usize)>,
}
#[derive(Debug)]
pub struct RErr;
fn bwi(b: lora_modulation::Bandwidth) -> u32 {
    use lora_modulation::Bandwidth::*;
    match b { _7KHz => 0, _10KHz => 1, _15KHz => 2, _20KHz => 3, _31KHz => 4, _41KHz => 5, _62KHz => 6, _125KHz => 7, _250KHz => 8, _500KHz => 9 }
}
impl PhyRxTx for Radio {
    type PhyEvent = ();
    type PhyError = RErr;
    type PhyResponse = ();
    const MAX_RADIO_POWER: u8 = 22;
    fn get_mut_radio(&mut self) -> &mut Self {
        self
    }
    fn get_received_packet(&mut self) -> &mut [u8] {
        &mut self.packet
    }
    fn handle_event(&mut self, event: REvent<'_, Self>) -> Result<RResponse<Self>, RErr> {
        let n = self.calls;
        self.calls += 1;
        let what = match &event {
            REvent::TxRequest(c, buf) => format!("tx[{}/{}/{} pw={} {}]", c.rf.frequency, c.rf.bb.sf.factor(), bwi(c.rf.bb.bw), c.pw, hex(buf)),
            REvent::RxRequest(rf) => format!("rx_request[{}/{}/{}/{}]", rf.frequency, rf.bb.sf.factor(), bwi(rf.bb.bw), rf.max_payload_len),
            REvent::CancelRx => "cancel_rx".into(),
            REvent::Phy(_) => "phy".into(),
        };
        if matches!(self.fault, Some((k, len)) if k <= n && n < k + len) {
            self.trace.push(format!("{what}!ERR"));
            return Err(RErr);
        }
        self.trace.push(what);
        let resp = std::mem::take(&mut self.next);
        match event {
            REvent::RxRequest(_) => Ok(RResponse::Rxing),
            REvent::CancelRx => Ok(RResponse::Idle),
            _ => match resp.as_str() {
                "txing" => Ok(RResponse::Txing),
                "txdone" => Ok(RResponse::TxDone(100)),
                "rxing" => Ok(RResponse::Rxing),
                "err" => Err(RErr),
                r if r.starts_with("rx") => {
                    self.packet = unhex(&r[2..]);
                    Ok(RResponse::RxDone(RxQuality::new(-80, 5)))
                }
                _ => Ok(RResponse::Idle),
            },
        }
    }
}
impl Timings for Radio {
    fn get_rx_window_offset_ms(&self) -> i32 {
        -15
    }
    fn get_rx_window_duration_ms(&self) -> u32 {
        100
    }
}
fn key16(s: &str) -> [u8; 16] {
    let mut k = [0u8; 16];
    k.copy_from_slice(&unhex(s));
    k
}
fn resp_str<R: PhyRxTx>(r: Result<Response, lorawan_device::nb_device::Error<R>>) -> String {
    match r {
        Ok(x) => format!("{:?}", x),
        Err(lorawan_device::nb_device::Error::Radio(_)) => "Err(Radio)".into(),
        Err(lorawan_device::nb_device::Error::State(e)) => format!("Err(State({:?}))", e),
        Err(lorawan_device::nb_device::Error::Mac(e)) => format!("Err(Mac({:?}))", e),
    }
}

pub fn run_history(line: &str) -> String {
    let parts: Vec<&str> = line.split('|').map(|x| x.trim()).collect();
    let head: Vec<&str> = parts[0].split_whitespace().collect();
    let mut r = 5u32;
    let mut fault = None;
    let mut bias = "-";
    let mut session: Option<String> = None;
    for kv in &head[1..] {
        let (k, v) = kv.split_once('=').unwrap();
        match k {
            "r" => r = int(v),
            "fault" => fault = if v == "-" { None } else { Some(match v.split_once('x') { Some((a, b)) => (int::<usize>(a), int::<usize>(b)), None => (int::<usize>(v), 1) }) },
            "bias" => bias = v,
            "session" => session = Some(v.to_string()),
            _ => {}
        }
    }
    let radio = Radio { trace: vec![], next: String::new(), packet: vec![], calls: 0, fault };
    let mut dev: Device<Radio, ScriptRng, 256, 4> = Device::new(region_cfg(r, bias), radio, ScriptRng { draws: Default::default() });
    if let Some(s) = session {
        let f: Vec<&str> = s.split(':').collect();
        let mut x = lorawan_device::mac::Session::new(NwkSKey::from(key16(f[0])), AppSKey::from(key16(f[1])), DevAddr::from_value(int::<u32>(f[2])));
        x.fcnt_up = int::<u32>(f[3]);
        dev.set_session(x);
    }
    let mut out: Vec<String> = vec![];
    for op in &parts[1..] {
        let a: Vec<&str> = op.split_whitespace().collect();
        if a.is_empty() {
            continue;
        }
        dev.get_radio().trace.clear();
        let res = catch_unwind(AssertUnwindSafe(|| match a[0] {
            "abp" => resp_str(dev.join(JoinMode::ABP {
                nwkskey: NwkSKey::from(key16(a[1])),
                appskey: AppSKey::from(key16(a[2])),
                devaddr: DevAddr::from_value(int::<u32>(a[3])),
            })),
            "join" => {
                // the device owns its RNG: feed the draws through the radio-independent script
                set_rng(&mut dev, a[4]);
                dev.get_radio().next = a[5].to_string();
                resp_str(dev.join(JoinMode::OTAA {
                    deveui: DevEui::from(int::<u64>(a[1]).to_le_bytes()),
                    appeui: AppEui::from(int::<u64>(a[2]).to_le_bytes()),
                    appkey: AppKey::from(key16(a[3])),
                }))
            }
            "send" => {
                set_rng(&mut dev, a[4]);
                dev.get_radio().next = a[5].to_string();
                resp_str(dev.send(&unhex(a[1]), int::<u8>(a[2]), boolean(a[3])))
            }
            "phy" => {
                dev.get_radio().next = a[1].to_string();
                resp_str(dev.handle_event(Event::RadioEvent(REvent::Phy(()))))
            }
            "timeout" => resp_str(dev.handle_event(Event::TimeoutFired)),
            "dr" => {
                dev.set_datarate(crate::macops::dr_of(int::<u8>(a[1])));
                "ok".into()
            }
            "adr" => {
                dev.set_adr(boolean(a[1]));
                "ok".into()
            }
            "fcnt" => format!("{:?}", dev.get_session().map(|s| (s.fcnt_up, s.fcnt_down()))),
            _ => "BADOP".into(),
        }));
        let tr = dev.get_radio().trace.join(" ");
        match res {
            Ok(s) => out.push(format!("{s} :: {tr}")),
            Err(e) => {
                if e.downcast_ref::<&str>().map(|s| *s == crate::macops::OUT_OF_DRAWS).unwrap_or(false) {
                    out.push(format!("HANG :: {tr}"));
                } else {
                    out.push(format!("PANIC :: {tr}"));
                }
                break;
            }
        }
    }
    out.join(" ; ")
}

// nb Device keeps its RNG private: the script is shared through a thread-local the ScriptRng variant below reads
thread_local! { pub static NB_DRAWS: std::cell::RefCell<std::collections::VecDeque<u32>> = Default::default(); }
fn set_rng(_dev: &mut Device<Radio, ScriptRng, 256, 4>, s: &str) {
    let d = rng_of(s).draws;
    NB_DRAWS.with(|x| *x.borrow_mut() = d);
}
