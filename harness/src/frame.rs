//! C01/C02/C03(frame part): frame builders and parsers of lorawan-encoding.
use crate::util::*;
use core::num::NonZeroU8;
use lorawan::creator::{DataFrame, JoinAccept, JoinRequest, Payload};
use lorawan::default_crypto::{DefaultCrypto, DefaultNetworkCrypto};
use lorawan::keys::{Crypto, AES128};
use lorawan::parser::*;
use lorawan::types::{ChannelMask, DLSettings};

fn key16(s: &str) -> AES128 {
    let v = unhex(s);
    let mut k = [0u8; 16];
    k.copy_from_slice(&v);
    AES128(k)
}
pub fn err_name(e: Error) -> &'static str {
    match e {
        Error::TooShort => "TooShort",
        Error::UnsupportedMajorVersion => "UnsupportedMajorVersion",
        Error::UnsupportedMessageType => "UnsupportedMessageType",
        Error::UnexpectedMessageType => "UnexpectedMessageType",
        Error::NotADataFrame => "NotADataFrame",
        Error::InvalidLength => "InvalidLength",
        Error::TruncatedFhdr => "TruncatedFhdr",
        Error::MissingKey => "MissingKey",
        Error::InvalidMic => "InvalidMic",
        Error::BufferTooShort => "BufferTooShort",
        Error::FOptsTooLong => "FOptsTooLong",
        Error::FOptsWithFPortZero => "FOptsWithFPortZero",
    }
}
fn ftype(n: u32) -> DataFrameType {
    match n {
        0 => DataFrameType::UnconfirmedUp,
        1 => DataFrameType::UnconfirmedDown,
        2 => DataFrameType::ConfirmedUp,
        _ => DataFrameType::ConfirmedDown,
    }
}
fn ftype_n(t: DataFrameType) -> u32 {
    match t {
        DataFrameType::UnconfirmedUp => 0,
        DataFrameType::UnconfirmedDown => 1,
        DataFrameType::ConfirmedUp => 2,
        DataFrameType::ConfirmedDown => 3,
    }
}

fn build_data_with<C: Crypto>(a: &[&str], mk: impl Fn(&AES128) -> C) -> String {
    // ftype addr flags fcnt fopts payload nwk app buflen
    let flags: u32 = int(a[2]);
    let fopts = unhex(a[4]);
    let pl = a[5];
    let pdata;
    let payload = if pl == "none" {
        Payload::None
    } else if let Some(rest) = pl.strip_prefix("data:") {
        let (port, h) = rest.split_once(':').unwrap();
        pdata = unhex(h);
        Payload::Data { f_port: NonZeroU8::new(int::<u8>(port)).unwrap(), data: &pdata }
    } else {
        pdata = unhex(pl.strip_prefix("mac:").unwrap());
        Payload::MacCommands(&pdata)
    };
    let d = DataFrame {
        frame_type: ftype(int(a[0])),
        dev_addr: DevAddr::from_value(int::<u32>(a[1])),
        adr: flags & 8 != 0,
        adr_ack_req: flags & 4 != 0,
        ack: flags & 2 != 0,
        f_pending: flags & 1 != 0,
        fcnt: int::<u32>(a[3]),
        f_opts: &fopts,
        payload,
    };
    let nwk = mk(&key16(a[6]));
    let app = if a[7] == "none" { None } else { Some(mk(&key16(a[7]))) };
    let mut buf = vec![0xAAu8; int::<usize>(a[8])];
    let r = d.build_into(&mut buf, &nwk, app.as_ref()).map(|s| s.len());
    match r {
        Ok(n) => format!("OK {n} {}", hex(&buf)),
        Err(e) => format!("ERR {} {}", err_name(e), hex(&buf)),
    }
}

fn cflist(s: &str) -> Option<CfList> {
    if s == "none" {
        None
    } else if let Some(r) = s.strip_prefix("dyn:") {
        let v: Vec<u32> = r.split(',').map(|x| int::<u32>(x)).collect();
        let mut f = [Frequency::default(); 5];
        for i in 0..5 {
            let le = v[i].to_le_bytes();
            f[i] = Frequency::from_wire_bytes([le[0], le[1], le[2]]);
        }
        Some(CfList::DynamicChannel(f))
    } else {
        let b = unhex(s.strip_prefix("fix:").unwrap());
        Some(CfList::FixedChannel(ChannelMask::<9>::new_from_raw(&b)))
    }
}
fn cflist_str(c: &Option<CfList>) -> String {
    match c {
        None => "none".into(),
        Some(CfList::DynamicChannel(f)) => format!(
            "dyn:{}",
            f.iter()
                .map(|x| {
                    let w = x.as_wire_bytes();
                    u32::from_le_bytes([w[0], w[1], w[2], 0]).to_string()
                })
                .collect::<Vec<_>>()
                .join(",")
        ),
        Some(CfList::FixedChannel(m)) => format!("fix:{}", hex(m.as_ref())),
    }
}

fn describe_data<'a>(
    ft: DataFrameType,
    fhdr: Fhdr<'a>,
    f_port: Option<u8>,
    frm: String,
    mic: [u8; 4],
) -> String {
    let fc = fhdr.fctrl();
    format!(
        "type={} addr={} fctrl={} adr={} adrackreq={} ack={} fpending={} foptslen={} fcnt={} fopts={} fport={} frm={} mic={}",
        ftype_n(ft),
        fhdr.dev_addr().value(),
        fc.raw_value(),
        fc.adr() as u8,
        fc.adr_ack_req() as u8,
        fc.ack() as u8,
        fc.f_pending() as u8,
        fc.f_opts_len(),
        fhdr.fcnt(),
        hex(fhdr.f_opts()),
        f_port.map(|p| p.to_string()).unwrap_or("none".into()),
        frm,
        hex(&mic)
    )
}

pub fn run_op(op: &str, a: &[&str]) -> String {
    match op {
        "build_data" => match a[0] {
            "dev" => build_data_with(&a[1..], DefaultCrypto::new),
            _ => build_data_with(&a[1..], DefaultNetworkCrypto::new),
        },
        "build_jr" => {
            // variant joineui deveui devnonce key buflen
            let jr = JoinRequest {
                join_eui: JoinEui::from_value(int::<u64>(a[1])),
                dev_eui: DevEui::from_value(int::<u64>(a[2])),
                dev_nonce: DevNonce::from_value(int::<u16>(a[3])),
            };
            let mut buf = vec![0xAAu8; int::<usize>(a[5])];
            let r = if a[0] == "dev" {
                jr.build_into(&mut buf, &DefaultCrypto::new(&key16(a[4]))).map(|s| s.len())
            } else {
                jr.build_into(&mut buf, &DefaultNetworkCrypto::new(&key16(a[4]))).map(|s| s.len())
            };
            match r {
                Ok(n) => format!("OK {n} {}", hex(&buf)),
                Err(e) => format!("ERR {} {}", err_name(e), hex(&buf)),
            }
        }
        "build_ja" => {
            // joinnonce netid devaddr dls rxdelay cflist key buflen
            let ja = JoinAccept {
                join_nonce: JoinNonce::from_value(int::<u32>(a[0])),
                net_id: NetId::from_value(int::<u32>(a[1])),
                dev_addr: DevAddr::from_value(int::<u32>(a[2])),
                dl_settings: DLSettings::new(int::<u8>(a[3])),
                rx_delay: int::<u8>(a[4]),
                c_f_list: cflist(a[5]),
            };
            let mut buf = vec![0xAAu8; int::<usize>(a[7])];
            let r = ja.build_into(&mut buf, &DefaultNetworkCrypto::new(&key16(a[6]))).map(|s| s.len());
            match r {
                Ok(n) => format!("OK {n} {}", hex(&buf)),
                Err(e) => format!("ERR {} {}", err_name(e), hex(&buf)),
            }
        }
        "parse_phy" => {
            // whatever the parser accepts must be safe to use: every accessor of the accepted object is exercised (a panic shows as
            // PANIC through catch_unwind); the values themselves are compared by the parse_data / parse_jr / ja_decrypt operations
            let bytes = unhex(a[0]);
            let kind = match parse(&bytes) {
                Ok(PhyPayload::JoinRequest(p)) => {
                    let _ = (p.join_eui(), p.dev_eui(), p.dev_nonce(), p.mic(), p.as_bytes().len(), p.validate_mic(&DefaultCrypto::new(&key16("07070707070707070707070707070707"))));
                    "JR"
                }
                Ok(PhyPayload::JoinAccept(_)) => {
                    let c = DefaultCrypto::new(&key16("07070707070707070707070707070707"));
                    let mut b1 = bytes.clone();
                    if let Ok(p) = DecryptedJoinAcceptPayload::decrypt_in_place(&mut b1, &c) {
                        let dn = DevNonce::from_value(1);
                        let _ = (p.validate_mic(&c), p.join_nonce(), p.net_id(), p.dev_addr(), p.dl_settings(), p.rx_delay(), cflist_str(&p.c_f_list()),
                                 p.mic(), p.as_bytes().len(), p.derive_nwkskey(dn, &c), p.derive_appskey(dn, &c));
                    }
                    let mut b2 = bytes.clone();
                    let _ = DecryptedJoinAcceptPayload::check_mic_and_decrypt_in_place(&mut b2, &c).is_ok();
                    "JA"
                }
                Ok(PhyPayload::Data(_)) => {
                    if let Ok(p) = EncryptedDataPayload::parse(&bytes) {
                        let h = p.fhdr();
                        let _ = (p.frame_type(), p.is_uplink(), p.is_confirmed(), p.f_port(), p.mic(), p.as_bytes().len(), h.dev_addr(), h.fctrl(),
                                 h.fcnt(), h.f_opts().len(), p.validate_mic(&DefaultCrypto::new(&key16("07070707070707070707070707070707")), 0));
                    }
                    let c = DefaultCrypto::new(&key16("07070707070707070707070707070707"));
                    let mut b1 = bytes.clone();
                    if let Ok(p) = DecryptedDataPayload::decrypt_in_place(&mut b1, Some(&c), Some(&c), 0) {
                        let n = match p.frm_payload() {
                            FrmPayload::None => 0,
                            FrmPayload::Data(d) => d.len(),
                            FrmPayload::MacCommands(d) => d.len(),
                        };
                        let _ = (n, p.f_port(), p.fhdr().f_opts().len());
                    }
                    "DATA"
                }
                Err(e) => return format!("ERR {}", err_name(e)),
            };
            kind.into()
        }
        "parse_data" => {
            // mode bytes nwk app fcnt
            let mode = a[0];
            let mut buf = unhex(a[1]);
            let nwk = if a[2] == "none" { None } else { Some(DefaultCrypto::new(&key16(a[2]))) };
            let app = if a[3] == "none" { None } else { Some(DefaultCrypto::new(&key16(a[3]))) };
            let fcnt: u32 = int(a[4]);
            match mode {
                "parse" => match EncryptedDataPayload::parse(&buf) {
                    Err(e) => format!("ERR {}", err_name(e)),
                    Ok(p) => {
                        // the encrypted view exposes no FRMPayload accessor; report its bytes from the layout
                        let fp = p.f_port();
                        let start = 1 + 7 + p.fhdr().f_opts().len() + fp.map_or(0, |_| 1);
                        let frm = hex(&p.as_bytes()[start..p.as_bytes().len() - 4]);
                        let _ = (p.is_uplink(), p.is_confirmed());
                        describe_data(p.frame_type(), p.fhdr(), fp, format!("enc:{frm}"), p.mic().0)
                    }
                },
                "mic" => match EncryptedDataPayload::parse(&buf) {
                    Err(e) => format!("ERR {}", err_name(e)),
                    Ok(p) => format!("MIC {}", p.validate_mic(nwk.as_ref().unwrap(), fcnt) as u8),
                },
                "decrypt" | "check" => {
                    let r = if mode == "decrypt" {
                        DecryptedDataPayload::decrypt_in_place(&mut buf, nwk.as_ref(), app.as_ref(), fcnt)
                    } else {
                        DecryptedDataPayload::check_mic_and_decrypt_in_place(&mut buf, nwk.as_ref().unwrap(), app.as_ref(), fcnt)
                    };
                    let s = match r {
                        Err(e) => format!("ERR {}", err_name(e)),
                        Ok(p) => {
                            let frm = match p.frm_payload() {
                                FrmPayload::None => "none:-".to_string(),
                                FrmPayload::Data(d) => format!("data:{}", hex(d)),
                                FrmPayload::MacCommands(d) => format!("mac:{}", hex(d)),
                            };
                            format!("OK {}", describe_data(p.frame_type(), p.fhdr(), p.f_port(), frm, p.mic().0))
                        }
                    };
                    format!("{s} buf={}", hex(&buf))
                }
                _ => "BADARGS".into(),
            }
        }
        "parse_jr" => {
            // bytes key
            let b = unhex(a[0]);
            match JoinRequestPayload::parse(&b) {
                Err(e) => format!("ERR {}", err_name(e)),
                Ok(p) => format!(
                    "OK joineui={} deveui={} devnonce={} mic={} micok={}",
                    p.join_eui().value(),
                    p.dev_eui().value(),
                    p.dev_nonce().value(),
                    hex(&p.mic().0),
                    p.validate_mic(&DefaultCrypto::new(&key16(a[1]))) as u8
                ),
            }
        }
        "ja_decrypt" => {
            // mode(check|plain) bytes key devnonce
            let mut buf = unhex(a[1]);
            let c = DefaultCrypto::new(&key16(a[2]));
            let dn = DevNonce::from_value(int::<u16>(a[3]));
            let r = if a[0] == "check" {
                DecryptedJoinAcceptPayload::check_mic_and_decrypt_in_place(&mut buf, &c)
            } else {
                DecryptedJoinAcceptPayload::decrypt_in_place(&mut buf, &c)
            };
            let s = match r {
                Err(e) => format!("ERR {}", err_name(e)),
                Ok(p) => format!(
                    "OK micok={} joinnonce={} netid={} devaddr={} dls={} rx1off={} rx2dr={} rxdelay={} cflist={} mic={} nwkskey={} appskey={}",
                    p.validate_mic(&c) as u8,
                    p.join_nonce().value(),
                    p.net_id().value(),
                    p.dev_addr().value(),
                    p.dl_settings().raw_value(),
                    p.dl_settings().rx1_dr_offset(),
                    p.dl_settings().rx2_data_rate() as u8,
                    p.rx_delay(),
                    cflist_str(&p.c_f_list()),
                    hex(&p.mic().0),
                    hex(p.derive_nwkskey(dn, &c).as_ref()),
                    hex(p.derive_appskey(dn, &c).as_ref())
                ),
            };
            format!("{s} buf={}", hex(&buf))
        }
        "aes" => {
            // enc|dec key block
            let mut b = unhex(a[2]);
            let c = DefaultNetworkCrypto::new(&key16(a[1]));
            use lorawan::keys::NetworkCrypto;
            if a[0] == "enc" {
                c.encrypt_block(&mut b)
            } else {
                c.decrypt_block(&mut b)
            }
            hex(&b)
        }
        "cmac" => {
            // variant key b0 data -> 4 bytes
            let (b0, d) = (unhex(a[2]), unhex(a[3]));
            let m = if a[0] == "dev" {
                DefaultCrypto::new(&key16(a[1])).calculate_mic(&b0, &d)
            } else {
                DefaultNetworkCrypto::new(&key16(a[1])).calculate_mic(&b0, &d)
            };
            hex(&m)
        }
        _ => format!("UNKNOWN-OP {op}"),
    }
}
