use crate::util::*;
use lora_modulation::{Bandwidth, BaseBandModulationParams, CodingRate, SpreadingFactor};
use std::panic::{catch_unwind, AssertUnwindSafe};

pub fn sf(n: u32) -> SpreadingFactor {
    match n {
        5 => SpreadingFactor::_5,
        6 => SpreadingFactor::_6,
        7 => SpreadingFactor::_7,
        8 => SpreadingFactor::_8,
        9 => SpreadingFactor::_9,
        10 => SpreadingFactor::_10,
        11 => SpreadingFactor::_11,
        12 => SpreadingFactor::_12,
        _ => panic!("bad sf"),
    }
}
pub fn bw(n: u32) -> Bandwidth {
    match n {
        0 => Bandwidth::_7KHz,
        1 => Bandwidth::_10KHz,
        2 => Bandwidth::_15KHz,
        3 => Bandwidth::_20KHz,
        4 => Bandwidth::_31KHz,
        5 => Bandwidth::_41KHz,
        6 => Bandwidth::_62KHz,
        7 => Bandwidth::_125KHz,
        8 => Bandwidth::_250KHz,
        9 => Bandwidth::_500KHz,
        _ => panic!("bad bw"),
    }
}
pub fn cr(n: u32) -> CodingRate {
    match n {
        5 => CodingRate::_4_5,
        6 => CodingRate::_4_6,
        7 => CodingRate::_4_7,
        8 => CodingRate::_4_8,
        _ => panic!("bad cr"),
    }
}
fn pre(s: &str) -> Option<u8> {
    if s == "none" {
        None
    } else {
        Some(int::<u8>(s))
    }
}

pub fn run(op: &str, a: &[&str]) -> String {
    match op {
        "toa" => {
            let p = BaseBandModulationParams::new(sf(int(a[0])), bw(int(a[1])), cr(int(a[2])));
            p.time_on_air_us(pre(a[3]), boolean(a[4]), int::<u8>(a[5])).to_string()
        }
        "toa_sweep" => {
            let (s, b, c, pr, hd) = (sf(int(a[0])), bw(int(a[1])), cr(int(a[2])), pre(a[3]), boolean(a[4]));
            let mut h = 0u64;
            let mut panics = 0;
            for len in 0..=255u8 {
                let r = catch_unwind(AssertUnwindSafe(|| {
                    BaseBandModulationParams::new(s, b, c).time_on_air_us(pr, hd, len)
                }));
                let v = match r {
                    Ok(v) => v as i64,
                    Err(_) => {
                        panics += 1;
                        -1
                    }
                };
                h = dg_step(h, v);
            }
            format!("{h} {panics}")
        }
        "ldro_toa" => {
            let p = BaseBandModulationParams::new(sf(int(a[0])), bw(int(a[1])), CodingRate::_4_5);
            (p.ldro as u8).to_string()
        }
        "delay_in_symbols" => {
            let p = BaseBandModulationParams::new(sf(int(a[0])), bw(int(a[1])), CodingRate::_4_5);
            p.delay_in_symbols(int::<u32>(a[2])).to_string()
        }
        "symbols_to_ms" => {
            let p = BaseBandModulationParams::new(sf(int(a[0])), bw(int(a[1])), CodingRate::_4_5);
            p.symbols_to_ms(int::<u32>(a[2])).to_string()
        }
        _ => unreachable!(),
    }
}
