//! MAC-level histories through the lora_rs_verif hook (lorawan_device::mac::verif::MacHarness).
//! line:  mac r=<rid> p=<max power> g=<gain> | <op> | <op> ...      output: results joined by " ; "
use crate::util::*;
use lorawan_device::mac::verif::{MacHarness, Tx};
use lorawan_device::mac::NetworkCredentials;
use lorawan_device::region::{Configuration, Region, DR};
use lorawan_device::{AppEui, AppKey, AppSKey, DevAddr, DevEui, NwkSKey};
use std::panic::{catch_unwind, AssertUnwindSafe};

pub struct ScriptRng {
    pub draws: std::collections::VecDeque<u32>,
}
pub const OUT_OF_DRAWS: &str = "OUT-OF-DRAWS";
impl rand_core::RngCore for ScriptRng {
    fn next_u32(&mut self) -> u32 {
        if let Some(v) = self.draws.pop_front() {
            return v;
        }
        // nb_device keeps its RNG private: its draws are passed through a thread-local
        match crate::nbdev::NB_DRAWS.with(|x| x.borrow_mut().pop_front()) {
            Some(v) => v,
            None => std::panic::panic_any(OUT_OF_DRAWS),
        }
    }
    fn next_u64(&mut self) -> u64 {
        self.next_u32() as u64
    }
    fn fill_bytes(&mut self, d: &mut [u8]) {
        for x in d {
            *x = self.next_u32() as u8
        }
    }
    fn try_fill_bytes(&mut self, d: &mut [u8]) -> Result<(), rand_core::Error> {
        self.fill_bytes(d);
        Ok(())
    }
}
pub fn rng_of(s: &str) -> ScriptRng {
    ScriptRng { draws: if s == "-" { Default::default() } else { s.split(',').map(|x| int::<u32>(x)).collect() } }
}

pub fn region_of(r: u32) -> Region {
    match r {
        0 => Region::AS923_1,
        1 => Region::AS923_2,
        2 => Region::AS923_3,
        3 => Region::AS923_4,
        4 => Region::AU915,
        5 => Region::EU868,
        6 => Region::EU433,
        7 => Region::IN865,
        _ => Region::US915,
    }
}
pub fn region_cfg(r: u32, bias: &str) -> Configuration {
    // bias: "-" or "<subband>:<retries>"
    if bias != "-" && (r == 4 || r == 8) {
        use lorawan_device::region::Subband;
        let (sb, n) = bias.split_once(':').unwrap();
        let sb = match int::<u32>(sb) {
            1 => Subband::_1,
            2 => Subband::_2,
            3 => Subband::_3,
            4 => Subband::_4,
            5 => Subband::_5,
            6 => Subband::_6,
            7 => Subband::_7,
            _ => Subband::_8,
        };
        if r == 4 {
            let mut x = lorawan_device::region::AU915::new();
            x.set_join_bias_and_noncompliant_retries(sb, int::<usize>(n));
            return x.into();
        } else {
            let mut x = lorawan_device::region::US915::new();
            x.set_join_bias_and_noncompliant_retries(sb, int::<usize>(n));
            return x.into();
        }
    }
    Configuration::new(region_of(r))
}
pub fn dr_of(n: u8) -> DR {
    DR::from(n)
}
fn bwi(b: lora_modulation::Bandwidth) -> u32 {
    use lora_modulation::Bandwidth::*;
    match b {
        _7KHz => 0,
        _10KHz => 1,
        _15KHz => 2,
        _20KHz => 3,
        _31KHz => 4,
        _41KHz => 5,
        _62KHz => 6,
        _125KHz => 7,
        _250KHz => 8,
        _500KHz => 9,
    }
}
pub fn rf_str(rf: &lorawan_device::mac::verif::RfConfigAlias) -> String {
    format!("{}/{}/{}/{}", rf.frequency, rf.bb.sf.factor(), bwi(rf.bb.bw), rf.max_payload_len)
}
fn tx_str(t: &Tx) -> String {
    format!(
        "TX pw={} rf={} rx1={} rx2={} cnt={} frame={}",
        t.tx.pw,
        rf_str(&t.tx.rf),
        rf_str(&t.rx1),
        rf_str(&t.rx2),
        t.counter,
        hex(&t.frame)
    )
}
fn key16(s: &str) -> [u8; 16] {
    let mut k = [0u8; 16];
    k.copy_from_slice(&unhex(s));
    k
}
fn rf_for(maxp: u8) -> lorawan_device::mac::verif::RfConfigAlias {
    lorawan_device::mac::verif::RfConfigAlias {
        frequency: 868_100_000,
        bb: lora_modulation::BaseBandModulationParams::new(
            lora_modulation::SpreadingFactor::_7,
            lora_modulation::Bandwidth::_125KHz,
            lora_modulation::CodingRate::_4_5,
        ),
        max_payload_len: maxp,
    }
}

pub fn run_history(line: &str) -> String {
    let parts: Vec<&str> = line.split('|').map(|x| x.trim()).collect();
    let head: Vec<&str> = parts[0].split_whitespace().collect();
    let mut r = 5u32;
    let (mut p, mut g) = (14u8, 0i8);
    let mut bias = "-";
    for kv in &head[1..] {
        let (k, v) = kv.split_once('=').unwrap();
        match k {
            "r" => r = int(v),
            "p" => p = int(v),
            "g" => g = int(v),
            "bias" => bias = v,
            _ => {}
        }
    }
    let mut h = MacHarness::new(region_cfg(r, bias), p, g);
    let mut out: Vec<String> = vec![];
    for op in &parts[1..] {
        let a: Vec<&str> = op.split_whitespace().collect();
        if a.is_empty() {
            continue;
        }
        let res = catch_unwind(AssertUnwindSafe(|| match a[0] {
            "otaa" => {
                let creds = NetworkCredentials::new(
                    AppEui::from(int::<u64>(a[2]).to_le_bytes()),
                    DevEui::from(int::<u64>(a[1]).to_le_bytes()),
                    AppKey::from(key16(a[3])),
                );
                let mut rng = rng_of(a[4]);
                tx_str(&h.join_otaa(&mut rng, creds))
            }
            "abp" => {
                h.join_abp(NwkSKey::from(key16(a[1])), AppSKey::from(key16(a[2])), DevAddr::from_value(int::<u32>(a[3])));
                "ok".into()
            }
            "send" => {
                let mut rng = rng_of(a[4]);
                match h.send(&mut rng, &unhex(a[1]), int::<u8>(a[2]), boolean(a[3])) {
                    Ok(t) => tx_str(&t),
                    Err(e) => e,
                }
            }
            "rx" | "rxc" => {
                let bytes = unhex(a[1]);
                let rf = rf_for(int::<u8>(a[3]));
                let before = h.downlinks.len();
                let resp = if a[0] == "rx" { h.handle_rx(&bytes, int::<i8>(a[2]), &rf) } else { h.handle_rxc(&bytes, int::<i8>(a[2]), &rf) };
                let dl = if h.downlinks.len() > before {
                    let d = h.downlinks.pop().unwrap();
                    format!("{}:{}", d.fport, hex(&d.data))
                } else {
                    "none".into()
                };
                format!("{resp} dl={dl} buf={}", hex(&h.buffer_after()))
            }
            // rxk / rxck: like rx / rxc, but the application does not collect the downlink: it stays in the queue (depth 8); drain collects all
            "rxk" | "rxck" => {
                let bytes = unhex(a[1]);
                let rf = rf_for(int::<u8>(a[3]));
                let resp = if a[0] == "rxk" { h.handle_rx(&bytes, int::<i8>(a[2]), &rf) } else { h.handle_rxc(&bytes, int::<i8>(a[2]), &rf) };
                format!("{resp} queued={} buf={}", h.downlinks.len(), hex(&h.buffer_after()))
            }
            "drain" => {
                let mut v = vec![];
                while !h.downlinks.is_empty() {
                    let d = h.downlinks.remove(0);
                    v.push(format!("{}:{}", d.fport, hex(&d.data)));
                }
                if v.is_empty() { "none".into() } else { v.join(",") }
            }
            "rx2c" => h.rx2_complete(),
            "dr" => {
                h.set_datarate(dr_of(int::<u8>(a[1])));
                "ok".into()
            }
            "adr" => {
                h.set_adr(boolean(a[1]));
                "ok".into()
            }
            "snap" => h.snapshot(),
            "delays" => format!("{} {} {} {}", h.rx_delay(false, false), h.rx_delay(false, true), h.rx_delay(true, false), h.rx_delay(true, true)),
            "rxcfg" => rf_str(&h.rxc_config()),
            "serde" => {
                // serialize the session, deserialize it, install the copy (C20)
                match h.session() {
                    None => "nosession".into(),
                    Some(s) => {
                        let js = serde_json::to_string(s).unwrap();
                        match serde_json::from_str::<lorawan_device::mac::Session>(&js) {
                            Ok(s2) => {
                                h.set_session(s2);
                                "restored".into()
                            }
                            Err(e) => format!("deser-error {e}"),
                        }
                    }
                }
            }
            "serjson" => match h.session() {
                None => "nosession".into(),
                Some(s) => serde_json::to_string(s).unwrap(),
            },
            "dejson" => {
                // install a session from a given (possibly malformed) document; the document is hex-encoded UTF-8
                let text = String::from_utf8_lossy(&unhex(a[1])).to_string();
                match serde_json::from_str::<lorawan_device::mac::Session>(&text) {
                    Ok(s2) => {
                        let back = serde_json::to_string(&s2).unwrap();
                        h.set_session(s2);
                        format!("accepted {back}")
                    }
                    Err(_) => "rejected".into(),
                }
            }
            "patch" => {
                // patch up=<n> down=<n|none> adrcnt=<n> : rewrite counters of the session through its serialized form
                match h.session() {
                    None => "nosession".into(),
                    Some(sess) => {
                        let mut v: serde_json::Value = serde_json::to_value(sess).unwrap();
                        for kv in &a[1..] {
                            let (k, val) = kv.split_once('=').unwrap();
                            let key = match k { "up" => "fcnt_up", "down" => "fcnt_down", _ => "adr_ack_cnt" };
                            v[key] = if val == "none" { serde_json::Value::Null } else { serde_json::json!(int::<u64>(val)) };
                        }
                        match serde_json::from_value::<lorawan_device::mac::Session>(v) {
                            Ok(s2) => { h.set_session(s2); "patched".into() }
                            Err(e) => format!("deser-error {e}"),
                        }
                    }
                }
            }
            _ => "BADOP".into(),
        }));
        match res {
            Ok(s) => out.push(s),
            Err(e) => {
                if e.downcast_ref::<&str>().map(|s| *s == OUT_OF_DRAWS).unwrap_or(false) {
                    out.push("HANG".into());
                } else {
                    out.push("PANIC".into());
                }
                break;
            }
        }
    }
    out.join(" ; ")
}


/// nfd <last|none> <wire> ; nfd_sweep <last>: digest over all 65536 wire values
pub fn nfd(op: &str, a: &[&str]) -> String {
    use lorawan_device::mac::verif::next_fcnt_down;
    let last = if a[0] == "none" { None } else { Some(int::<u32>(a[0])) };
    if op == "nfd" {
        return match next_fcnt_down(last, int::<u16>(a[1])) { Some(n) => n.to_string(), None => "none".into() };
    }
    let mut h = 0u64;
    let mut accepted = 0u32;
    for w in 0..=u16::MAX {
        match next_fcnt_down(last, w) {
            Some(n) => { accepted += 1; h = dg_step(h, n as i64); }
            None => { h = dg_step(h, -1); }
        }
    }
    format!("{h} {accepted}")
}

/// regiontables <rid>: the constant tables of a region as the compiled code sees them (second, semantic reading of the
/// tables the textual translator tools/rs2v/regiontables.py extracts): verif_tables() of a fresh configuration, the fresh
/// plan's channel slots (default / join channels), and the frequency range check sampled at every multiple of 100 Hz
/// (the resolution of every frequency field of LoRaWAN) up to 1.1 GHz, reported as maximal intervals.
pub fn region_tables(a: &[&str]) -> String {
    let r = int::<u32>(a[0]);
    let cfg = Configuration::new(region_of(r));
    let mut ranges: Vec<String> = vec![];
    let mut start: Option<u32> = None;
    for k in 0..=11_000_000u32 {
        let f = k * 100;
        let v = cfg.verif_frequency_valid(f);
        match (v, start) {
            (true, None) => start = Some(f),
            (false, Some(s)) => {
                ranges.push(format!("{}-{}", s, f - 100));
                start = None;
            }
            _ => {}
        }
    }
    if let Some(s) = start {
        ranges.push(format!("{}-open", s));
    }
    format!("r={} {} range={} fresh={}", r, cfg.verif_tables(), ranges.join(","), cfg.verif_snapshot().replace(' ', ";"))
}
