#![allow(dead_code)]
pub const DG_MOD: u64 = (1u64 << 40) - 87;
/// digest shared with driver.ml: h' = (h * 1000003 + v + 1) mod (2^40 - 87), v = -1 for a panic
pub fn dg_step(h: u64, v: i64) -> u64 {
    let a = ((h as u128 * 1000003u128) % DG_MOD as u128) as i128 + v as i128 + 1;
    (a.rem_euclid(DG_MOD as i128)) as u64
}
pub fn int<T: std::str::FromStr>(s: &str) -> T
where
    T::Err: std::fmt::Debug,
{
    s.parse::<T>().unwrap()
}
pub fn boolean(s: &str) -> bool {
    s != "0"
}
pub fn unhex(s: &str) -> Vec<u8> {
    if s == "-" {
        return vec![];
    }
    (0..s.len() / 2).map(|i| u8::from_str_radix(&s[2 * i..2 * i + 2], 16).unwrap()).collect()
}
pub fn hex(b: &[u8]) -> String {
    if b.is_empty() {
        return "-".into();
    }
    b.iter().map(|x| format!("{x:02x}")).collect()
}
