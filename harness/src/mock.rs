//! Recording / scripted SPI bus, interface variant and delay for driving lora-phy.
#![allow(dead_code)]
use crate::util::hex;
use embedded_hal_async::spi::{ErrorType, Operation, SpiDevice};
use lora_phy::mod_params::RadioError;
use lora_phy::mod_traits::InterfaceVariant;
use std::cell::RefCell;
use std::collections::VecDeque;
use std::future::Future;
use std::pin::Pin;
use std::rc::Rc;
use std::task::{Context, Poll, RawWaker, RawWakerVTable, Waker};

#[derive(Clone, Copy, PartialEq, Debug)]
pub enum ChipKind {
    Sx126x,
    Sx127x,
    Lr11xx,
}

/// Everything observable at the pins, in order.
pub struct Bus {
    pub kind: ChipKind,
    pub trace: Vec<String>,
    /// register file used to answer register reads (sx126x: 16-bit addresses, sx127x: 7-bit)
    pub regs: Vec<u8>,
    /// bytes answering non-register reads (status commands, FIFO/buffer reads), consumed in order
    pub reads: VecDeque<u8>,
    /// default byte when `reads` is exhausted
    pub fill: u8,
    /// chip data buffer (sx126x ReadBuffer / sx127x FIFO), 256 bytes
    pub chipbuf: Vec<u8>,
    pub fifo_ptr: u8,
    /// event counter and optional fault position (0-based index over SPI transactions and IV calls)
    pub events: usize,
    pub fault_at: Option<usize>,
    /// await_irq positions (0-based count of await_irq calls) at which the future stays pending forever
    pub pending_irq_at: Option<usize>,
    pub irq_calls: usize,
    /// how many more interrupt edges the chip raises; when used up await_irq never completes (the caller's future is dropped)
    pub irq_budget: usize,
    /// interrupt outcomes: at each completed await_irq the next entry becomes the chip's IRQ status
    /// (sx127x: RegIrqFlags; sx126x: the two bytes GetIrqStatus answers next, after a zero status byte)
    pub on_irq: VecDeque<(u16, Vec<u8>)>,
}

impl Bus {
    pub fn new(kind: ChipKind) -> Rc<RefCell<Bus>> {
        Rc::new(RefCell::new(Bus {
            kind,
            trace: vec![],
            regs: vec![0; 0x1000],
            reads: VecDeque::new(),
            fill: 0,
            chipbuf: vec![0; 256],
            fifo_ptr: 0,
            events: 0,
            fault_at: None,
            pending_irq_at: None,
            irq_calls: 0,
            irq_budget: 6,
            on_irq: VecDeque::new(),
        }))
    }
    fn tick(&mut self) -> bool {
        let n = self.events;
        self.events += 1;
        if self.trace.len() > 4000 {
            std::panic::panic_any("EVENT-BUDGET");
        }
        self.fault_at == Some(n)
    }
    fn next_read(&mut self) -> u8 {
        self.reads.pop_front().unwrap_or(self.fill)
    }
}

pub struct Spi(pub Rc<RefCell<Bus>>);
#[derive(Debug)]
pub struct SpiErr;
impl embedded_hal_async::spi::Error for SpiErr {
    fn kind(&self) -> embedded_hal_async::spi::ErrorKind {
        embedded_hal_async::spi::ErrorKind::Other
    }
}
impl ErrorType for Spi {
    type Error = SpiErr;
}
impl SpiDevice<u8> for Spi {
    async fn transaction(&mut self, ops: &mut [Operation<'_, u8>]) -> Result<(), SpiErr> {
        bus_transaction(&mut self.0.borrow_mut(), ops)
    }
}

/// the same bus for a blocking driver (Semtech's reference driver through smtc-modem-cores)
pub struct RefSpi(pub Rc<RefCell<Bus>>);
impl embedded_hal::spi::ErrorType for RefSpi {
    type Error = SpiErr;
}
impl embedded_hal::spi::SpiDevice<u8> for RefSpi {
    fn transaction(&mut self, ops: &mut [Operation<'_, u8>]) -> Result<(), SpiErr> {
        bus_transaction(&mut self.0.borrow_mut(), ops)
    }
}

pub fn bus_transaction(b: &mut Bus, ops: &mut [Operation<'_, u8>]) -> Result<(), SpiErr> {
    {
        if b.tick() {
            b.trace.push("SPI!".into());
            return Err(SpiErr);
        }
        let mut written: Vec<u8> = vec![];
        let mut parts: Vec<String> = vec![];
        let mut read_index = 0usize; // bytes read so far in this transaction
        for op in ops.iter_mut() {
            match op {
                Operation::Write(w) => {
                    written.extend_from_slice(w);
                    parts.push(format!("w{}", hex(w)));
                }
                Operation::Read(r) => {
                    for x in r.iter_mut() {
                        let v = match b.kind {
                            ChipKind::Sx126x => {
                                if written.len() >= 3 && written[0] == 0x1D {
                                    // ReadRegister addr_hi addr_lo nop -> data...
                                    let a = ((written[1] as usize) << 8 | written[2] as usize) + read_index;
                                    b.regs[a & 0xfff]
                                } else if written.len() >= 2 && written[0] == 0x1E {
                                    // ReadBuffer offset nop -> data...
                                    let a = (written[1] as usize + read_index) & 0xff;
                                    b.chipbuf[a]
                                } else {
                                    b.next_read()
                                }
                            }
                            ChipKind::Sx127x => {
                                let a = (written[0] & 0x7f) as usize;
                                if a == 0 {
                                    let p = b.fifo_ptr;
                                    b.fifo_ptr = p.wrapping_add(1);
                                    b.chipbuf[p as usize]
                                } else {
                                    b.regs[a + read_index]
                                }
                            }
                            ChipKind::Lr11xx => b.next_read(),
                        };
                        *x = v;
                        read_index += 1;
                    }
                    parts.push(format!("r{}", hex(r)));
                }
                Operation::Transfer(r, w) => {
                    written.extend_from_slice(w);
                    for x in r.iter_mut() {
                        *x = b.next_read();
                    }
                    parts.push(format!("x{}/{}", hex(w), hex(r)));
                }
                Operation::TransferInPlace(buf) => {
                    written.extend_from_slice(buf);
                    parts.push(format!("i{}", hex(buf)));
                }
                Operation::DelayNs(n) => parts.push(format!("d{n}")),
            }
        }
        // register write side effects so that later read-modify-write sees them
        match b.kind {
            ChipKind::Sx126x => {
                if written.len() > 3 && written[0] == 0x0D {
                    let a = (written[1] as usize) << 8 | written[2] as usize;
                    for (i, v) in written[3..].iter().enumerate() {
                        b.regs[(a + i) & 0xfff] = *v;
                    }
                }
            }
            ChipKind::Sx127x => {
                if written.len() >= 2 && written[0] & 0x80 != 0 {
                    let a = (written[0] & 0x7f) as usize;
                    if a == 0x0d {
                        b.fifo_ptr = written[1];
                    }
                    if a == 0 {
                        // FIFO write at the address pointer
                        for v in written[1..].iter() {
                            let p = b.fifo_ptr;
                            b.chipbuf[p as usize] = *v;
                            b.fifo_ptr = p.wrapping_add(1);
                        }
                    } else if a == 0x12 {
                        // RegIrqFlags: writing a 1 clears the flag
                        b.regs[0x12] &= !written[1];
                    } else if a != 0 {
                        for (i, v) in written[1..].iter().enumerate() {
                            b.regs[a + i] = *v;
                        }
                    }
                }
            }
            ChipKind::Lr11xx => {}
        }
        b.trace.push(parts.join(","));
        Ok(())
    }
}

pub struct Iv(pub Rc<RefCell<Bus>>);
impl Iv {
    fn call(&mut self, name: &str) -> Result<(), RadioError> {
        let mut b = self.0.borrow_mut();
        if b.tick() {
            b.trace.push(format!("{name}!"));
            return Err(RadioError::Busy);
        }
        b.trace.push(name.into());
        Ok(())
    }
    fn output(&mut self, name: &str) -> Result<(), RadioError> {
        let mut b = self.0.borrow_mut();
        if b.trace.len() > 4000 {
            std::panic::panic_any("EVENT-BUDGET");
        }
        b.trace.push(name.into());
        Ok(())
    }
}
pub struct PendingForever;
impl Future for PendingForever {
    type Output = ();
    fn poll(self: Pin<&mut Self>, _cx: &mut Context<'_>) -> Poll<()> {
        Poll::Pending
    }
}
impl InterfaceVariant for Iv {
    // the reset and RF-switch lines are plain outputs: the fault model is SPI / BUSY / IRQ (they neither fail nor count as a position)
    async fn reset(&mut self, _delay: &mut impl lora_phy::DelayNs) -> Result<(), RadioError> {
        self.output("RESET")
    }
    async fn wait_on_busy(&mut self) -> Result<(), RadioError> {
        self.call("BUSY")
    }
    async fn await_irq(&mut self) -> Result<(), RadioError> {
        let pend = {
            let mut b = self.0.borrow_mut();
            let n = b.irq_calls;
            b.irq_calls += 1;
            let exhausted = b.irq_budget == 0;
            if !exhausted {
                b.irq_budget -= 1;
            }
            b.pending_irq_at == Some(n) || exhausted
        };
        if pend {
            self.0.borrow_mut().trace.push("IRQ-PENDING".into());
            PendingForever.await;
        }
        {
            let mut b = self.0.borrow_mut();
            if let Some((v, extra)) = b.on_irq.pop_front() {
                match b.kind {
                    ChipKind::Sx127x => b.regs[0x12] = v as u8,
                    _ => {
                        b.reads.clear();
                        b.reads.extend([0u8, (v >> 8) as u8, v as u8]);
                        b.reads.extend(extra);
                    }
                }
            }
        }
        self.call("IRQ")
    }
    async fn enable_rf_switch_rx(&mut self) -> Result<(), RadioError> {
        self.output("SWRX")
    }
    async fn enable_rf_switch_tx(&mut self) -> Result<(), RadioError> {
        self.output("SWTX")
    }
    async fn disable_rf_switch(&mut self) -> Result<(), RadioError> {
        self.output("SWOFF")
    }
}

pub struct Delay(pub Rc<RefCell<Bus>>);
impl lora_phy::DelayNs for Delay {
    async fn delay_ns(&mut self, ns: u32) {
        self.0.borrow_mut().trace.push(format!("DELAY{ns}"));
    }
}

fn noop_raw() -> RawWaker {
    fn no(_: *const ()) {}
    fn cl(_: *const ()) -> RawWaker {
        noop_raw()
    }
    static VT: RawWakerVTable = RawWakerVTable::new(cl, no, no, no);
    RawWaker::new(std::ptr::null(), &VT)
}
/// Poll a future that only ever waits on the mocks above. None = it parked (a scripted pending point)
pub fn run<F: Future>(f: F) -> Option<F::Output> {
    let waker = unsafe { Waker::from_raw(noop_raw()) };
    let mut cx = Context::from_waker(&waker);
    let mut f = Box::pin(f);
    for _ in 0..4 {
        if let Poll::Ready(v) = f.as_mut().poll(&mut cx) {
            return Some(v);
        }
    }
    None
}
