//! C03 / C19: MAC-command iterators (six command sets) with every accessor called, and creators.
use crate::util::*;
use lorawan::certification::*;
use lorawan::maccommands::*;
use lorawan::multicast::*;
use std::hint::black_box as bb;

fn ints(b: &[u8]) -> String {
    b.iter().map(|x| x.to_string()).collect::<Vec<_>>().join(" ")
}

fn perr(e: ParseError) -> String {
    match e {
        ParseError::UnknownCid(c) => format!("E:U{c}"),
        ParseError::Truncated { cid } => format!("E:T{cid}"),
    }
}

/// canonical listing of the items an iterator yields + accessor values (C19 reads them, C03 only needs no panic)
fn dl_mac(d: &[u8], acc: &mut Vec<String>) -> Vec<String> {
    let mut out = vec![];
    let mut it = parse_downlink_mac_commands(d);
    let mut n = 0;
    while let Some(r) = it.next() {
        n += 1;
        if n > 600 {
            out.push("RUNAWAY".into());
            break;
        }
        match r {
            Err(e) => out.push(perr(e)),
            Ok(c) => {
                out.push(format!("{}:{}", c.cid(), hex(c.bytes())));
                bb(c.len());
                match c {
                    DownlinkMacCommand::LinkCheckAns(p) => acc.push(format!("{} {}", p.margin(), p.gateway_count())),
                    DownlinkMacCommand::LinkADRReq(p) => acc.push(format!(
                        "{} {} {} {} {} {}",
                        p.data_rate() as u8,
                        p.tx_power() as u8,
                        u16::from_le_bytes([p.channel_mask().as_ref()[0], p.channel_mask().as_ref()[1]]),
                        p.redundancy().raw_value(),
                        p.redundancy().channel_mask_control(),
                        p.redundancy().number_of_transmissions()
                    )),
                    DownlinkMacCommand::DutyCycleReq(p) => {
                        bb(p.max_duty_cycle());
                        acc.push(format!("{}", p.max_duty_cycle_raw()))
                    }
                    DownlinkMacCommand::RXParamSetupReq(p) => acc.push(format!(
                        "{} {} {} {}",
                        p.dl_settings().raw_value(),
                        p.dl_settings().rx1_dr_offset(),
                        p.dl_settings().rx2_data_rate() as u8,
                        p.frequency().value()
                    )),
                    DownlinkMacCommand::DevStatusReq(_) => acc.push("".into()),
                    DownlinkMacCommand::NewChannelReq(p) => acc.push(format!(
                        "{} {} {}",
                        p.channel_index(),
                        p.frequency().value(),
                        match p.data_rate_range() {
                            Ok(r) => format!("{} {}", r.min_data_rate(), r.max_data_rate()),
                            Err(_) => "-1 -1".into(),
                        }
                    )),
                    DownlinkMacCommand::RXTimingSetupReq(p) => acc.push(format!("{}", p.delay())),
                    DownlinkMacCommand::TXParamSetupReq(p) => acc.push(format!(
                        "{} {} {}",
                        p.downlink_dwell_time() as u8,
                        p.uplink_dwell_time() as u8,
                        p.max_eirp()
                    )),
                    DownlinkMacCommand::DlChannelReq(p) => acc.push(format!("{} {}", p.channel_index(), p.frequency().value())),
                    DownlinkMacCommand::DeviceTimeAns(p) => acc.push(format!("{} {}", p.seconds(), p.nano_seconds())),
                }
            }
        }
    }
    bb(it.next().is_none());
    out
}

fn ul_mac(d: &[u8], acc: &mut Vec<String>) -> Vec<String> {
    let mut out = vec![];
    let mut n = 0;
    for r in parse_uplink_mac_commands(d) {
        n += 1;
        if n > 600 {
            out.push("RUNAWAY".into());
            break;
        }
        match r {
            Err(e) => out.push(perr(e)),
            Ok(c) => {
                out.push(format!("{}:{}", c.cid(), hex(c.bytes())));
                bb(c.len());
                match c {
                    UplinkMacCommand::LinkADRAns(p) => acc.push(format!(
                        "{} {} {} {}",
                        p.channel_mask_ack() as u8,
                        p.data_rate_ack() as u8,
                        p.powert_ack() as u8,
                        p.ack() as u8
                    )),
                    UplinkMacCommand::RXParamSetupAns(p) => acc.push(format!(
                        "{} {} {} {}",
                        p.channel_ack() as u8,
                        p.rx2_data_rate_ack() as u8,
                        p.rx1_dr_offset_ack() as u8,
                        p.ack() as u8
                    )),
                    UplinkMacCommand::DevStatusAns(p) => acc.push(format!("{} {}", p.battery(), p.margin())),
                    UplinkMacCommand::NewChannelAns(p) => acc.push(format!(
                        "{} {} {}",
                        p.channel_freq_ack() as u8,
                        p.data_rate_range_ack() as u8,
                        p.ack() as u8
                    )),
                    UplinkMacCommand::DlChannelAns(p) => acc.push(format!(
                        "{} {} {}",
                        p.channel_freq_ack() as u8,
                        p.uplink_freq_ack() as u8,
                        p.ack() as u8
                    )),
                    _ => acc.push("".into()),
                }
            }
        }
    }
    out
}

fn dl_dut(d: &[u8], acc: &mut Vec<String>) -> Vec<String> {
    let mut out = vec![];
    let mut n = 0;
    for r in parse_downlink_dut_commands(d) {
        n += 1;
        if n > 600 {
            out.push("RUNAWAY".into());
            break;
        }
        match r {
            Err(e) => out.push(perr(e)),
            Ok(c) => {
                out.push(format!("{}:{}", c.cid(), hex(c.bytes())));
                bb(c.len());
                match c {
                    DownlinkDUTCommand::AdrBitChangeReq(p) => acc.push(match p.adr_enable() { Ok(b) => (b as i32).to_string(), Err(_) => "-1".into() }),
                    DownlinkDUTCommand::TxPeriodicityChangeReq(p) => acc.push(match p.periodicity() { Ok(Some(v)) => v.to_string(), Ok(None) => "-2".into(), Err(_) => "-1".into() }),
                    DownlinkDUTCommand::TxFramesCtrlReq(p) => acc.push(match p.frame_type_override() { Ok(Some(v)) => (v as i32).to_string(), Ok(None) => "-2".into(), Err(_) => "-1".into() }),
                    DownlinkDUTCommand::EchoIncPayloadReq(p) => acc.push(ints(p.payload())),
                    _ => acc.push("".into()),
                }
            }
        }
    }
    out
}

fn ul_dut(d: &[u8], acc: &mut Vec<String>) -> Vec<String> {
    let mut out = vec![];
    let mut n = 0;
    for r in parse_uplink_dut_commands(d) {
        n += 1;
        if n > 600 {
            out.push("RUNAWAY".into());
            break;
        }
        match r {
            Err(e) => out.push(perr(e)),
            Ok(c) => {
                out.push(format!("{}:{}", c.cid(), hex(c.bytes())));
                bb(c.len());
                match c {
                    UplinkDUTCommand::EchoIncPayloadAns(p) => acc.push(ints(p.payload())),
                    _ => acc.push("".into()),
                }
            }
        }
    }
    out
}

fn dl_mc(d: &[u8], acc: &mut Vec<String>) -> Vec<String> {
    let mut out = vec![];
    let mut n = 0;
    for r in parse_downlink_multicast_commands(d) {
        n += 1;
        if n > 600 {
            out.push("RUNAWAY".into());
            break;
        }
        match r {
            Err(e) => out.push(perr(e)),
            Ok(c) => {
                out.push(format!("{}:{}", c.cid(), hex(c.bytes())));
                bb(c.len());
                match c {
                    DownlinkRemoteSetup::McGroupStatusReq(p) => acc.push(format!("{}", p.req_group_mask())),
                    DownlinkRemoteSetup::McGroupSetupReq(p) => acc.push(format!(
                        "{} {} {} {}",
                        p.mc_group_id_header(),
                        p.mc_addr().value(),
                        p.min_mc_fcount(),
                        p.max_mc_fcount()
                    )),
                    DownlinkRemoteSetup::McGroupDeleteReq(p) => acc.push(format!("{}", p.mc_group_id_header())),
                    _ => acc.push("".into()),
                }
            }
        }
    }
    out
}

fn ul_mc(d: &[u8], acc: &mut Vec<String>) -> Vec<String> {
    let mut out = vec![];
    let mut n = 0;
    for r in parse_uplink_multicast_commands(d) {
        n += 1;
        if n > 600 {
            out.push("RUNAWAY".into());
            break;
        }
        match r {
            Err(e) => out.push(perr(e)),
            Ok(c) => {
                out.push(format!("{}:{}", c.cid(), hex(c.bytes())));
                bb(c.len());
                match c {
                    UplinkRemoteSetup::PackageVersionAns(p) => acc.push(format!("{} {}", p.package_identifier(), p.package_version())),
                    UplinkRemoteSetup::McGroupStatusAns(p) => {
                        let items: Vec<String> =
                            p.item_iterator().map(|i| format!("{} {}", i.mc_group_id(), i.mc_addr().value())).collect();
                        acc.push(format!("{} {} {}", p.ans_group_mask(), p.nb_total_groups(), items.join(" ")).trim_end().to_string())
                    }
                    UplinkRemoteSetup::McGroupSetupAns(p) => acc.push(format!("{}", p.mc_group_id_header())),
                    UplinkRemoteSetup::McGroupDeleteAns(p) => acc.push(format!("{} {}", p.mc_group_id_header(), p.mc_group_undefined() as u8)),
                    _ => acc.push("".into()),
                }
            }
        }
    }
    out
}

pub fn parse_set(set: &str, d: &[u8], acc: &mut Vec<String>) -> Vec<String> {
    match set {
        "dl_mac" => dl_mac(d, acc),
        "ul_mac" => ul_mac(d, acc),
        "dl_dut" => dl_dut(d, acc),
        "ul_dut" => ul_dut(d, acc),
        "dl_mc" => dl_mc(d, acc),
        _ => ul_mc(d, acc),
    }
}

fn listing(v: &[String]) -> String {
    if v.is_empty() {
        "-".into()
    } else {
        v.join(",")
    }
}

pub fn run_op(op: &str, a: &[&str]) -> String {
    match op {
        // mc_parse <set> <hex>  -> framing only
        "mc_parse" => {
            let mut acc = vec![];
            listing(&parse_set(a[0], &unhex(a[1]), &mut acc))
        }
        // pl_new <kind> <hex>: the public payload constructors `XPayload::new(data)` and every accessor of the view they return
        "pl_new" => {
            let d = unhex(a[1]);
            match a[0] {
                "mcstatus" => match McGroupStatusAnsPayload::new(&d) {
                    Err(_) => "ERR".into(),
                    Ok(p) => {
                        let items: Vec<String> = p.item_iterator().map(|i| format!("{}:{}", i.mc_group_id(), i.mc_addr().value())).collect();
                        format!("OK {} {} {} {}", p.len(), p.ans_group_mask(), p.nb_total_groups(), items.join(" ")).trim_end().to_string()
                    }
                },
                "linkadr" => match LinkADRReqPayload::new(&d) {
                    Err(_) => "ERR".into(),
                    Ok(p) => format!("OK {} {} {} {}", p.data_rate() as u8, p.tx_power() as u8, hex(p.channel_mask().as_ref()), p.redundancy().raw_value()),
                },
                "chmask2" => match lorawan::maccommands::ChannelMask::<2>::new(&d) {
                    Err(_) => "ERR".into(),
                    Ok(m) => format!("OK {}", hex(m.as_ref())),
                },
                "chmask9" => match lorawan::maccommands::ChannelMask::<9>::new(&d) {
                    Err(_) => "ERR".into(),
                    Ok(m) => format!("OK {}", hex(m.as_ref())),
                },
                "devstatus" => match DevStatusAnsPayload::new(&d) {
                    Err(_) => "ERR".into(),
                    Ok(p) => format!("OK {} {}", p.battery(), p.margin()),
                },
                _ => "BADARGS".into(),
            }
        }
        // mc_read <set> <hex> -> framing | accessor values
        "mc_read" => {
            let mut acc = vec![];
            let l = parse_set(a[0], &unhex(a[1]), &mut acc);
            format!("{} | {}", listing(&l), acc.join(" ; "))
        }
        // mc_sweep <set> <prefix hex> <n>: digest over all strings prefix ++ x, x over all n-byte strings (n <= 2)
        "mc_sweep" => {
            let pre = unhex(a[1]);
            let n: usize = int(a[2]);
            let mut h = 0u64;
            let mut panics = 0u32;
            let total = 1usize << (8 * n);
            for x in 0..total {
                let mut d = pre.clone();
                for k in 0..n {
                    d.push(((x >> (8 * (n - 1 - k))) & 0xff) as u8);
                }
                let r = std::panic::catch_unwind(|| {
                    let mut acc = vec![];
                    listing(&parse_set(a[0], &d, &mut acc))
                });
                match r {
                    Ok(s) => {
                        for b in s.bytes() {
                            h = dg_step(h, b as i64);
                        }
                        h = dg_step(h, 1000);
                    }
                    Err(_) => {
                        panics += 1;
                        h = dg_step(h, -1);
                    }
                }
            }
            format!("{h} {panics}")
        }
        "mc_build" => mc_build(a),
        "mc_seq" => mc_seq(a),
        "ident" => ident(a),
        _ => format!("UNKNOWN-OP {op}"),
    }
}

/// parse "<f>=<v>" / "<f>=<v>:<w>" / "<f>=x<hex>"
fn arg(s: &str) -> (u32, i64, u64, Vec<u8>) {
    let (f, v) = s.split_once('=').unwrap();
    let f: u32 = int(f);
    if let Some(h) = v.strip_prefix('x') {
        return (f, 0, 0, unhex(h));
    }
    if let Some((a, b)) = v.split_once(':') {
        return (f, int::<i64>(a), int::<u64>(b), vec![]);
    }
    (f, int::<i64>(v), 0, vec![])
}

fn mc_build(a: &[&str]) -> String {
    use lorawan::maccommandcreator::*;
    use lorawan::parser::McAddr;
    let c: u32 = int(a[0]);
    let args: Vec<(u32, i64, u64, Vec<u8>)> = a[1..].iter().map(|s| arg(s)).collect();
    macro_rules! go {
        ($cr:expr, $apply:expr) => {{
            let mut cr = $cr;
            for (k, (f, v, w, raw)) in args.iter().enumerate() {
                let ok: bool = $apply(&mut cr, *f, *v, *w, raw);
                if !ok {
                    return format!("ERR {k}");
                }
            }
            hex(cr.build())
        }};
    }
    let f3 = |v: i64| {
        let le = (v as u32).to_le_bytes();
        [le[0], le[1], le[2]]
    };
    match c {
        1 => go!(LinkCheckAnsCreator::new(), |cr: &mut LinkCheckAnsCreator, f, v, _w, _r: &Vec<u8>| {
            match f { 0 => { cr.set_margin(v as u8); } _ => { cr.set_gateway_count(v as u8); } }
            true
        }),
        2 => go!(LinkADRReqCreator::new(), |cr: &mut LinkADRReqCreator, f, v, _w, _r: &Vec<u8>| match f {
            0 => cr.set_data_rate(v as u8).is_ok(),
            1 => cr.set_tx_power(v as u8).is_ok(),
            2 => { cr.set_channel_mask(lorawan::types::ChannelMask::<2>::from((v as u16).to_le_bytes())); true }
            _ => { cr.set_redundancy(v as u8); true }
        }),
        3 => go!(DutyCycleReqCreator::new(), |cr: &mut DutyCycleReqCreator, _f, v, _w, _r: &Vec<u8>| cr.set_max_duty_cycle(v as u8).is_ok()),
        4 => go!(RXParamSetupReqCreator::new(), |cr: &mut RXParamSetupReqCreator, f, v, _w, _r: &Vec<u8>| {
            match f { 0 => { cr.set_dl_settings(v as u8); } _ => { cr.set_frequency(&f3(v)); } }
            true
        }),
        5 => go!(NewChannelReqCreator::new(), |cr: &mut NewChannelReqCreator, f, v, _w, _r: &Vec<u8>| {
            match f { 0 => { cr.set_channel_index(v as u8); } 1 => { cr.set_frequency(&f3(v)); } _ => { cr.set_data_rate_range(v as u8); } }
            true
        }),
        6 => go!(RXTimingSetupReqCreator::new(), |cr: &mut RXTimingSetupReqCreator, _f, v, _w, _r: &Vec<u8>| cr.set_delay(v as u8).is_ok()),
        7 => go!(TXParamSetupReqCreator::new(), |cr: &mut TXParamSetupReqCreator, f, v, _w, _r: &Vec<u8>| match f {
            0 => { cr.set_downlink_dwell_time(v != 0); true }
            1 => { cr.set_uplink_dwell_time(v != 0); true }
            _ => cr.set_max_eirp(v as u8).is_ok(),
        }),
        8 => go!(DlChannelReqCreator::new(), |cr: &mut DlChannelReqCreator, f, v, _w, _r: &Vec<u8>| {
            match f { 0 => { cr.set_channel_index(v as u8); } _ => { cr.set_frequency(&f3(v)); } }
            true
        }),
        9 => go!(DeviceTimeAnsCreator::new(), |cr: &mut DeviceTimeAnsCreator, f, v, _w, _r: &Vec<u8>| match f {
            0 => { cr.set_seconds(v as u32); true }
            _ => cr.set_nano_seconds(v as u32).is_ok(),
        }),
        10 => go!(LinkADRAnsCreator::new(), |cr: &mut LinkADRAnsCreator, f, v, _w, _r: &Vec<u8>| {
            match f { 0 => { cr.set_channel_mask_ack(v != 0); } 1 => { cr.set_data_rate_ack(v != 0); } _ => { cr.set_tx_power_ack(v != 0); } }
            true
        }),
        11 => go!(RXParamSetupAnsCreator::new(), |cr: &mut RXParamSetupAnsCreator, f, v, _w, _r: &Vec<u8>| {
            match f { 0 => { cr.set_channel_ack(v != 0); } 1 => { cr.set_rx2_data_rate_ack(v != 0); } _ => { cr.set_rx1_data_rate_offset_ack(v != 0); } }
            true
        }),
        12 => go!(DevStatusAnsCreator::new(), |cr: &mut DevStatusAnsCreator, f, v, _w, _r: &Vec<u8>| match f {
            0 => { cr.set_battery(v as u8); true }
            _ => cr.set_margin(v as i8).is_ok(),
        }),
        13 => go!(NewChannelAnsCreator::new(), |cr: &mut NewChannelAnsCreator, f, v, _w, _r: &Vec<u8>| {
            match f { 0 => { cr.set_channel_frequency_ack(v != 0); } _ => { cr.set_data_rate_range_ack(v != 0); } }
            true
        }),
        14 => go!(DlChannelAnsCreator::new(), |cr: &mut DlChannelAnsCreator, f, v, _w, _r: &Vec<u8>| {
            match f { 0 => { cr.set_channel_frequency_ack(v != 0); } _ => { cr.set_uplink_frequency_exists_ack(v != 0); } }
            true
        }),
        15 => go!(RxAppCntAnsCreator::new(), |cr: &mut RxAppCntAnsCreator, _f, v, _w, _r: &Vec<u8>| { cr.set_rx_app_cnt(v as u16); true }),
        16 => go!(DutVersionsAnsCreator::new(), |cr: &mut DutVersionsAnsCreator, _f, _v, _w, r: &Vec<u8>| {
            let mut x = [0u8; 12];
            x.copy_from_slice(r);
            cr.set_versions_raw(x);
            true
        }),
        17 => go!(EchoIncPayloadAnsCreator::new(), |cr: &mut EchoIncPayloadAnsCreator, _f, _v, _w, r: &Vec<u8>| { cr.payload(r); true }),
        18 => go!(PackageVersionAnsCreator::new(), |cr: &mut PackageVersionAnsCreator, f, v, _w, _r: &Vec<u8>| {
            match f { 0 => { cr.package_identifier(v as u8); } _ => { cr.package_version(v as u8); } }
            true
        }),
        19 => go!(McGroupStatusReqCreator::new(), |cr: &mut McGroupStatusReqCreator, f, v, _w, _r: &Vec<u8>| {
            match f { 0 => cr.req_group_mask(v as u8), _ => cr.req_group(v as u8) }
            true
        }),
        20 => go!(McGroupSetupReqCreator::new(), |cr: &mut McGroupSetupReqCreator, f, v, _w, _r: &Vec<u8>| {
            match f {
                0 => { cr.mc_group_id_header(v as u8); }
                1 => { cr.mc_addr(&McAddr::from_value(v as u32)); }
                2 => { cr.min_mc_fcount(v as u32); }
                _ => { cr.max_mc_fcount(v as u32); }
            }
            true
        }),
        21 => go!(McGroupSetupAnsCreator::new(), |cr: &mut McGroupSetupAnsCreator, _f, v, _w, _r: &Vec<u8>| { cr.mc_group_id_header(v as u8); true }),
        22 => go!(McGroupDeleteReqCreator::new(), |cr: &mut McGroupDeleteReqCreator, _f, v, _w, _r: &Vec<u8>| { cr.mc_group_id_header(v as u8); true }),
        23 => go!(McGroupDeleteAnsCreator::new(), |cr: &mut McGroupDeleteAnsCreator, f, v, _w, _r: &Vec<u8>| {
            match f { 0 => { cr.mc_group_id_header(v as u8); } _ => { cr.mc_group_undefined(v != 0); } }
            true
        }),
        24 => go!(McGroupStatusAnsCreator::new(), |cr: &mut McGroupStatusAnsCreator, f, v, w, _r: &Vec<u8>| match f {
            0 => { cr.nb_total_groups(v as u8); true }
            _ => cr.push(v as u8, McAddr::from_value(w as u32)).is_ok(),
        }),
        31 => hex(DevStatusReqCreator::new().build()),
        32 => hex(LinkCheckReqCreator::new().build()),
        33 => hex(DutyCycleAnsCreator::new().build()),
        34 => hex(RXTimingSetupAnsCreator::new().build()),
        35 => hex(TXParamSetupAnsCreator::new().build()),
        36 => hex(DeviceTimeReqCreator::new().build()),
        _ => "BADARGS".into(),
    }
}

/// identifier text forms: ident <type> <value> -> "<to_string> <parsed back value | ERR>" ; ident parse <type> <string>
fn ident(a: &[&str]) -> String {
    use core::str::FromStr;
    use lorawan::parser::{DevAddr, DevNonce, JoinNonce, NetId, McAddr};
    macro_rules! rt {
        ($t:ty, $int:ty) => {{
            if a[0] == "parse" {
                match <$t>::from_str(a[2]) { Ok(x) => x.value().to_string(), Err(_) => "ERR".into() }
            } else {
                let x = <$t>::from_value(int::<$int>(a[1]));
                let s = x.to_string();
                let back = match <$t>::from_str(&s) { Ok(y) => y.value().to_string(), Err(_) => "ERR".into() };
                format!("{s} {back} {}", hex(x.as_wire_bytes()))
            }
        }};
    }
    let t = if a[0] == "parse" { a[1] } else { a[0] };
    match t {
        "devaddr" => rt!(DevAddr, u32),
        "mcaddr" => rt!(McAddr, u32),
        "devnonce" => rt!(DevNonce, u16),
        "joinnonce" => rt!(JoinNonce, u32),
        "netid" => rt!(NetId, u32),
        "deveui" => rt!(lorawan::parser::DevEui, u64),
        "joineui" => rt!(lorawan::parser::JoinEui, u64),
        "key" | "keys_deveui" => {
            // keys.rs / string.rs types: AppKey etc. print MSB-first as stored; DevEui/AppEui print reversed (LSB storage)
            if a[0] == "parse" {
                if t == "key" {
                    match lorawan::keys::AppKey::from_str(a[2]) { Ok(k) => hex(k.as_ref()), Err(_) => "ERR".into() }
                } else {
                    match lorawan::keys::DevEui::from_str(a[2]) { Ok(k) => hex(k.as_ref()), Err(_) => "ERR".into() }
                }
            } else if t == "key" {
                let mut k = [0u8; 16];
                k.copy_from_slice(&unhex(a[1]));
                let x = lorawan::keys::NwkSKey::from(k);
                let s = x.to_string();
                let back = match lorawan::keys::NwkSKey::from_str(&s) { Ok(y) => hex(y.as_ref()), Err(_) => "ERR".into() };
                format!("{s} {back}")
            } else {
                let mut k = [0u8; 8];
                k.copy_from_slice(&unhex(a[1]));
                let x = lorawan::keys::DevEui::from(k);
                let s = x.to_string();
                let back = match lorawan::keys::DevEui::from_str(&s) { Ok(y) => hex(y.as_ref()), Err(_) => "ERR".into() };
                format!("{s} {back}")
            }
        }
        _ => "BADARGS".into(),
    }
}


/// mc_seq <bufsize> <id,id,...>: build_mac_commands over default-constructed creators
fn mc_seq(a: &[&str]) -> String {
    use lorawan::maccommandcreator::*;
    let n: usize = int(a[0]);
    let ids: Vec<u32> = if a[1] == "-" { vec![] } else { a[1].split(',').map(|x| int::<u32>(x)).collect() };
    let mut boxes: Vec<Box<dyn SerializableMacCommand>> = vec![];
    for id in ids {
        let b: Box<dyn SerializableMacCommand> = match id {
            1 => Box::new(LinkCheckAnsCreator::new()),
            2 => Box::new(LinkADRReqCreator::new()),
            3 => Box::new(DutyCycleReqCreator::new()),
            4 => Box::new(RXParamSetupReqCreator::new()),
            5 => Box::new(NewChannelReqCreator::new()),
            6 => Box::new(RXTimingSetupReqCreator::new()),
            7 => Box::new(TXParamSetupReqCreator::new()),
            8 => Box::new(DlChannelReqCreator::new()),
            9 => Box::new(DeviceTimeAnsCreator::new()),
            10 => Box::new(LinkADRAnsCreator::new()),
            11 => Box::new(RXParamSetupAnsCreator::new()),
            12 => Box::new(DevStatusAnsCreator::new()),
            13 => Box::new(NewChannelAnsCreator::new()),
            14 => Box::new(DlChannelAnsCreator::new()),
            31 => Box::new(DevStatusReqCreator::new()),
            32 => Box::new(LinkCheckReqCreator::new()),
            33 => Box::new(DutyCycleAnsCreator::new()),
            34 => Box::new(RXTimingSetupAnsCreator::new()),
            35 => Box::new(TXParamSetupAnsCreator::new()),
            36 => Box::new(DeviceTimeReqCreator::new()),
            _ => return "BADARGS".into(),
        };
        boxes.push(b);
    }
    let refs: Vec<&dyn SerializableMacCommand> = boxes.iter().map(|b| b.as_ref()).collect();
    let mut buf = vec![0xAAu8; n];
    match build_mac_commands(&refs, &mut buf[..]) {
        Ok(k) => format!("OK {k} {}", hex(&buf)),
        Err(_) => format!("ERR {}", hex(&buf)),
    }
}
