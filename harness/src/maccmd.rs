//! C03 / C19: MAC-command iterators (six command sets) with every accessor called, and creators.
use crate::util::*;
use lorawan::certification::*;
use lorawan::maccommands::*;
use lorawan::multicast::*;
use std::hint::black_box as bb;

fn perr(e: ParseError) -> String {
    match e {
        ParseError::UnknownCid(c) => format!("E:U{c}"),
        ParseError::Truncated { cid } => format!("E:T{cid}"),
    }
}

/// canonical listing of the items an iterator yields + accessor values (C19 reads them, C03 only needs no panic)
fn dl_mac(d: &[u8], acc: &mut Vec<String>) -> Vec<String> {
    let mut out = vec![];
    let mut it = parse_downlink_mac_commands(d);
    let mut n = 0;
    while let Some(r) = it.next() {
        n += 1;
        if n > 600 {
            out.push("RUNAWAY".into());
            break;
        }
        match r {
            Err(e) => out.push(perr(e)),
            Ok(c) => {
                out.push(format!("{}:{}", c.cid(), hex(c.bytes())));
                bb(c.len());
                match c {
                    DownlinkMacCommand::LinkCheckAns(p) => acc.push(format!("{} {}", p.margin(), p.gateway_count())),
                    DownlinkMacCommand::LinkADRReq(p) => acc.push(format!(
                        "{} {} {} {} {} {}",
                        p.data_rate() as u8,
                        p.tx_power() as u8,
                        hex(p.channel_mask().as_ref()),
                        p.redundancy().raw_value(),
                        p.redundancy().channel_mask_control(),
                        p.redundancy().number_of_transmissions()
                    )),
                    DownlinkMacCommand::DutyCycleReq(p) => {
                        bb(p.max_duty_cycle());
                        acc.push(format!("{}", p.max_duty_cycle_raw()))
                    }
                    DownlinkMacCommand::RXParamSetupReq(p) => acc.push(format!(
                        "{} {} {} {}",
                        p.dl_settings().raw_value(),
                        p.dl_settings().rx1_dr_offset(),
                        p.dl_settings().rx2_data_rate() as u8,
                        p.frequency().value()
                    )),
                    DownlinkMacCommand::DevStatusReq(_) => acc.push("-".into()),
                    DownlinkMacCommand::NewChannelReq(p) => acc.push(format!(
                        "{} {} {}",
                        p.channel_index(),
                        p.frequency().value(),
                        match p.data_rate_range() {
                            Ok(r) => format!("{}-{}", r.min_data_rate(), r.max_data_rate()),
                            Err(_) => "ERR".into(),
                        }
                    )),
                    DownlinkMacCommand::RXTimingSetupReq(p) => acc.push(format!("{}", p.delay())),
                    DownlinkMacCommand::TXParamSetupReq(p) => acc.push(format!(
                        "{} {} {}",
                        p.downlink_dwell_time() as u8,
                        p.uplink_dwell_time() as u8,
                        p.max_eirp()
                    )),
                    DownlinkMacCommand::DlChannelReq(p) => acc.push(format!("{} {}", p.channel_index(), p.frequency().value())),
                    DownlinkMacCommand::DeviceTimeAns(p) => acc.push(format!("{} {}", p.seconds(), p.nano_seconds())),
                }
            }
        }
    }
    bb(it.next().is_none());
    out
}

fn ul_mac(d: &[u8], acc: &mut Vec<String>) -> Vec<String> {
    let mut out = vec![];
    let mut n = 0;
    for r in parse_uplink_mac_commands(d) {
        n += 1;
        if n > 600 {
            out.push("RUNAWAY".into());
            break;
        }
        match r {
            Err(e) => out.push(perr(e)),
            Ok(c) => {
                out.push(format!("{}:{}", c.cid(), hex(c.bytes())));
                bb(c.len());
                match c {
                    UplinkMacCommand::LinkADRAns(p) => acc.push(format!(
                        "{} {} {} {}",
                        p.channel_mask_ack() as u8,
                        p.data_rate_ack() as u8,
                        p.powert_ack() as u8,
                        p.ack() as u8
                    )),
                    UplinkMacCommand::RXParamSetupAns(p) => acc.push(format!(
                        "{} {} {} {}",
                        p.channel_ack() as u8,
                        p.rx2_data_rate_ack() as u8,
                        p.rx1_dr_offset_ack() as u8,
                        p.ack() as u8
                    )),
                    UplinkMacCommand::DevStatusAns(p) => acc.push(format!("{} {}", p.battery(), p.margin())),
                    UplinkMacCommand::NewChannelAns(p) => acc.push(format!(
                        "{} {} {}",
                        p.channel_freq_ack() as u8,
                        p.data_rate_range_ack() as u8,
                        p.ack() as u8
                    )),
                    UplinkMacCommand::DlChannelAns(p) => acc.push(format!(
                        "{} {} {}",
                        p.channel_freq_ack() as u8,
                        p.uplink_freq_ack() as u8,
                        p.ack() as u8
                    )),
                    _ => acc.push("-".into()),
                }
            }
        }
    }
    out
}

fn dl_dut(d: &[u8], acc: &mut Vec<String>) -> Vec<String> {
    let mut out = vec![];
    let mut n = 0;
    for r in parse_downlink_dut_commands(d) {
        n += 1;
        if n > 600 {
            out.push("RUNAWAY".into());
            break;
        }
        match r {
            Err(e) => out.push(perr(e)),
            Ok(c) => {
                out.push(format!("{}:{}", c.cid(), hex(c.bytes())));
                bb(c.len());
                match c {
                    DownlinkDUTCommand::AdrBitChangeReq(p) => acc.push(format!("{:?}", p.adr_enable().ok())),
                    DownlinkDUTCommand::TxPeriodicityChangeReq(p) => acc.push(format!("{:?}", p.periodicity().ok())),
                    DownlinkDUTCommand::TxFramesCtrlReq(p) => acc.push(format!("{:?}", p.frame_type_override().ok())),
                    DownlinkDUTCommand::EchoIncPayloadReq(p) => acc.push(hex(p.payload())),
                    _ => acc.push("-".into()),
                }
            }
        }
    }
    out
}

fn ul_dut(d: &[u8], acc: &mut Vec<String>) -> Vec<String> {
    let mut out = vec![];
    let mut n = 0;
    for r in parse_uplink_dut_commands(d) {
        n += 1;
        if n > 600 {
            out.push("RUNAWAY".into());
            break;
        }
        match r {
            Err(e) => out.push(perr(e)),
            Ok(c) => {
                out.push(format!("{}:{}", c.cid(), hex(c.bytes())));
                bb(c.len());
                match c {
                    UplinkDUTCommand::EchoIncPayloadAns(p) => acc.push(hex(p.payload())),
                    _ => acc.push("-".into()),
                }
            }
        }
    }
    out
}

fn dl_mc(d: &[u8], acc: &mut Vec<String>) -> Vec<String> {
    let mut out = vec![];
    let mut n = 0;
    for r in parse_downlink_multicast_commands(d) {
        n += 1;
        if n > 600 {
            out.push("RUNAWAY".into());
            break;
        }
        match r {
            Err(e) => out.push(perr(e)),
            Ok(c) => {
                out.push(format!("{}:{}", c.cid(), hex(c.bytes())));
                bb(c.len());
                match c {
                    DownlinkRemoteSetup::McGroupStatusReq(p) => acc.push(format!("{}", p.req_group_mask())),
                    DownlinkRemoteSetup::McGroupSetupReq(p) => acc.push(format!(
                        "{} {} {} {}",
                        p.mc_group_id_header(),
                        p.mc_addr().value(),
                        p.min_mc_fcount(),
                        p.max_mc_fcount()
                    )),
                    DownlinkRemoteSetup::McGroupDeleteReq(p) => acc.push(format!("{}", p.mc_group_id_header())),
                    _ => acc.push("-".into()),
                }
            }
        }
    }
    out
}

fn ul_mc(d: &[u8], acc: &mut Vec<String>) -> Vec<String> {
    let mut out = vec![];
    let mut n = 0;
    for r in parse_uplink_multicast_commands(d) {
        n += 1;
        if n > 600 {
            out.push("RUNAWAY".into());
            break;
        }
        match r {
            Err(e) => out.push(perr(e)),
            Ok(c) => {
                out.push(format!("{}:{}", c.cid(), hex(c.bytes())));
                bb(c.len());
                match c {
                    UplinkRemoteSetup::PackageVersionAns(p) => acc.push(format!("{} {}", p.package_identifier(), p.package_version())),
                    UplinkRemoteSetup::McGroupStatusAns(p) => {
                        let items: Vec<String> =
                            p.item_iterator().map(|i| format!("{}/{}", i.mc_group_id(), i.mc_addr().value())).collect();
                        acc.push(format!("{} {} [{}]", p.ans_group_mask(), p.nb_total_groups(), items.join(";")))
                    }
                    UplinkRemoteSetup::McGroupSetupAns(p) => acc.push(format!("{}", p.mc_group_id_header())),
                    UplinkRemoteSetup::McGroupDeleteAns(p) => acc.push(format!("{} {}", p.mc_group_id_header(), p.mc_group_undefined() as u8)),
                    _ => acc.push("-".into()),
                }
            }
        }
    }
    out
}

pub fn parse_set(set: &str, d: &[u8], acc: &mut Vec<String>) -> Vec<String> {
    match set {
        "dl_mac" => dl_mac(d, acc),
        "ul_mac" => ul_mac(d, acc),
        "dl_dut" => dl_dut(d, acc),
        "ul_dut" => ul_dut(d, acc),
        "dl_mc" => dl_mc(d, acc),
        _ => ul_mc(d, acc),
    }
}

fn listing(v: &[String]) -> String {
    if v.is_empty() {
        "-".into()
    } else {
        v.join(",")
    }
}

pub fn run_op(op: &str, a: &[&str]) -> String {
    match op {
        // mc_parse <set> <hex>  -> framing only
        "mc_parse" => {
            let mut acc = vec![];
            listing(&parse_set(a[0], &unhex(a[1]), &mut acc))
        }
        // mc_read <set> <hex> -> framing | accessor values
        "mc_read" => {
            let mut acc = vec![];
            let l = parse_set(a[0], &unhex(a[1]), &mut acc);
            format!("{} | {}", listing(&l), acc.join(" ; "))
        }
        // mc_sweep <set> <prefix hex> <n>: digest over all strings prefix ++ x, x over all n-byte strings (n <= 2)
        "mc_sweep" => {
            let pre = unhex(a[1]);
            let n: usize = int(a[2]);
            let mut h = 0u64;
            let mut panics = 0u32;
            let total = 1usize << (8 * n);
            for x in 0..total {
                let mut d = pre.clone();
                for k in 0..n {
                    d.push(((x >> (8 * (n - 1 - k))) & 0xff) as u8);
                }
                let r = std::panic::catch_unwind(|| {
                    let mut acc = vec![];
                    listing(&parse_set(a[0], &d, &mut acc))
                });
                match r {
                    Ok(s) => {
                        for b in s.bytes() {
                            h = dg_step(h, b as i64);
                        }
                        h = dg_step(h, 1000);
                    }
                    Err(_) => {
                        panics += 1;
                        h = dg_step(h, -1);
                    }
                }
            }
            format!("{h} {panics}")
        }
        _ => format!("UNKNOWN-OP {op}"),
    }
}
