(* Crypto/AES.v -- AES-128 (FIPS-197) on lists of bytes (N), encrypt and decrypt.
   Written from the standard: state = 16 bytes in input order (column-major),
   SubBytes / ShiftRows / MixColumns / AddRoundKey, key expansion with Rcon.
   The S-box is data (generated from its FIPS-197 definition by a script and checked
   below against the inverse table and the standard's known-answer vectors). *)
From Coq Require Import NArith List Bool.
Import ListNotations.
Open Scope N_scope.

Definition sbox : list N := [
   99; 124; 119; 123; 242; 107; 111; 197; 48; 1; 103; 43; 254; 215; 171; 118;
   202; 130; 201; 125; 250; 89; 71; 240; 173; 212; 162; 175; 156; 164; 114; 192;
   183; 253; 147; 38; 54; 63; 247; 204; 52; 165; 229; 241; 113; 216; 49; 21;
   4; 199; 35; 195; 24; 150; 5; 154; 7; 18; 128; 226; 235; 39; 178; 117;
   9; 131; 44; 26; 27; 110; 90; 160; 82; 59; 214; 179; 41; 227; 47; 132;
   83; 209; 0; 237; 32; 252; 177; 91; 106; 203; 190; 57; 74; 76; 88; 207;
   208; 239; 170; 251; 67; 77; 51; 133; 69; 249; 2; 127; 80; 60; 159; 168;
   81; 163; 64; 143; 146; 157; 56; 245; 188; 182; 218; 33; 16; 255; 243; 210;
   205; 12; 19; 236; 95; 151; 68; 23; 196; 167; 126; 61; 100; 93; 25; 115;
   96; 129; 79; 220; 34; 42; 144; 136; 70; 238; 184; 20; 222; 94; 11; 219;
   224; 50; 58; 10; 73; 6; 36; 92; 194; 211; 172; 98; 145; 149; 228; 121;
   231; 200; 55; 109; 141; 213; 78; 169; 108; 86; 244; 234; 101; 122; 174; 8;
   186; 120; 37; 46; 28; 166; 180; 198; 232; 221; 116; 31; 75; 189; 139; 138;
   112; 62; 181; 102; 72; 3; 246; 14; 97; 53; 87; 185; 134; 193; 29; 158;
   225; 248; 152; 17; 105; 217; 142; 148; 155; 30; 135; 233; 206; 85; 40; 223;
   140; 161; 137; 13; 191; 230; 66; 104; 65; 153; 45; 15; 176; 84; 187; 22]%N.

Definition inv_sbox : list N := [
   82; 9; 106; 213; 48; 54; 165; 56; 191; 64; 163; 158; 129; 243; 215; 251;
   124; 227; 57; 130; 155; 47; 255; 135; 52; 142; 67; 68; 196; 222; 233; 203;
   84; 123; 148; 50; 166; 194; 35; 61; 238; 76; 149; 11; 66; 250; 195; 78;
   8; 46; 161; 102; 40; 217; 36; 178; 118; 91; 162; 73; 109; 139; 209; 37;
   114; 248; 246; 100; 134; 104; 152; 22; 212; 164; 92; 204; 93; 101; 182; 146;
   108; 112; 72; 80; 253; 237; 185; 218; 94; 21; 70; 87; 167; 141; 157; 132;
   144; 216; 171; 0; 140; 188; 211; 10; 247; 228; 88; 5; 184; 179; 69; 6;
   208; 44; 30; 143; 202; 63; 15; 2; 193; 175; 189; 3; 1; 19; 138; 107;
   58; 145; 17; 65; 79; 103; 220; 234; 151; 242; 207; 206; 240; 180; 230; 115;
   150; 172; 116; 34; 231; 173; 53; 133; 226; 249; 55; 232; 28; 117; 223; 110;
   71; 241; 26; 113; 29; 41; 197; 137; 111; 183; 98; 14; 170; 24; 190; 27;
   252; 86; 62; 75; 198; 210; 121; 32; 154; 219; 192; 254; 120; 205; 90; 244;
   31; 221; 168; 51; 136; 7; 199; 49; 177; 18; 16; 89; 39; 128; 236; 95;
   96; 81; 127; 169; 25; 181; 74; 13; 45; 229; 122; 159; 147; 201; 156; 239;
   160; 224; 59; 77; 174; 42; 245; 176; 200; 235; 187; 60; 131; 83; 153; 97;
   23; 43; 4; 126; 186; 119; 214; 38; 225; 105; 20; 99; 85; 33; 12; 125]%N.

Definition byte_at (t : list N) (b : N) : N := nth (N.to_nat b) t 0.
Definition sub_byte (b : N) : N := byte_at sbox b.
Definition inv_sub_byte (b : N) : N := byte_at inv_sbox b.

Definition xtime (b : N) : N :=
  let d := N.land (N.shiftl b 1) 255 in
  if N.testbit b 7 then N.lxor d 27 else d.

Definition mul2 := xtime.
Definition mul3 (b : N) := N.lxor (xtime b) b.
Definition mul4 (b : N) := xtime (xtime b).
Definition mul8 (b : N) := xtime (xtime (xtime b)).
Definition mul9 (b : N) := N.lxor (mul8 b) b.
Definition mul11 (b : N) := N.lxor (N.lxor (mul8 b) (mul2 b)) b.
Definition mul13 (b : N) := N.lxor (N.lxor (mul8 b) (mul4 b)) b.
Definition mul14 (b : N) := N.lxor (N.lxor (mul8 b) (mul4 b)) (mul2 b).

Fixpoint xor_list (a b : list N) : list N :=
  match a, b with
  | x :: a', y :: b' => N.lxor x y :: xor_list a' b'
  | _, _ => []
  end.

Definition nthb (l : list N) (i : nat) : N := nth i l 0.

(* ShiftRows on the column-major state: new[r + 4c] = old[r + 4((c + r) mod 4)] *)
Definition shift_rows (s : list N) : list N :=
  map (nthb s) [0; 5; 10; 15; 4; 9; 14; 3; 8; 13; 2; 7; 12; 1; 6; 11]%nat.
Definition inv_shift_rows (s : list N) : list N :=
  map (nthb s) [0; 13; 10; 7; 4; 1; 14; 11; 8; 5; 2; 15; 12; 9; 6; 3]%nat.

Definition mix_column (a0 a1 a2 a3 : N) : list N :=
  [ N.lxor (N.lxor (mul2 a0) (mul3 a1)) (N.lxor a2 a3);
    N.lxor (N.lxor a0 (mul2 a1)) (N.lxor (mul3 a2) a3);
    N.lxor (N.lxor a0 a1) (N.lxor (mul2 a2) (mul3 a3));
    N.lxor (N.lxor (mul3 a0) a1) (N.lxor a2 (mul2 a3)) ].
Definition inv_mix_column (a0 a1 a2 a3 : N) : list N :=
  [ N.lxor (N.lxor (mul14 a0) (mul11 a1)) (N.lxor (mul13 a2) (mul9 a3));
    N.lxor (N.lxor (mul9 a0) (mul14 a1)) (N.lxor (mul11 a2) (mul13 a3));
    N.lxor (N.lxor (mul13 a0) (mul9 a1)) (N.lxor (mul14 a2) (mul11 a3));
    N.lxor (N.lxor (mul11 a0) (mul13 a1)) (N.lxor (mul9 a2) (mul14 a3)) ].

Definition on_columns (f : N -> N -> N -> N -> list N) (s : list N) : list N :=
  f (nthb s 0) (nthb s 1) (nthb s 2) (nthb s 3) ++ f (nthb s 4) (nthb s 5) (nthb s 6) (nthb s 7) ++
  f (nthb s 8) (nthb s 9) (nthb s 10) (nthb s 11) ++ f (nthb s 12) (nthb s 13) (nthb s 14) (nthb s 15).
Definition mix_columns := on_columns mix_column.
Definition inv_mix_columns := on_columns inv_mix_column.

(* key expansion: 44 words; round key r = words 4r .. 4r+3 *)
Definition rcon : list N := [1; 2; 4; 8; 16; 32; 64; 128; 27; 54].

Definition next_round_key (rk : list N) (rc : N) : list N :=
  let t := [ N.lxor (sub_byte (nthb rk 13)) rc; sub_byte (nthb rk 14); sub_byte (nthb rk 15); sub_byte (nthb rk 12) ] in
  let w0 := xor_list (firstn 4 rk) t in
  let w1 := xor_list (firstn 4 (skipn 4 rk)) w0 in
  let w2 := xor_list (firstn 4 (skipn 8 rk)) w1 in
  let w3 := xor_list (firstn 4 (skipn 12 rk)) w2 in
  w0 ++ w1 ++ w2 ++ w3.

Fixpoint expand (rk : list N) (rcs : list N) : list (list N) :=
  match rcs with
  | [] => [rk]
  | rc :: rcs' => rk :: expand (next_round_key rk rc) rcs'
  end.
Definition round_keys (key : list N) : list (list N) := expand key rcon.   (* 11 keys *)

Definition enc_round (s rk : list N) : list N :=
  xor_list (mix_columns (shift_rows (map sub_byte s))) rk.
Definition enc_last (s rk : list N) : list N :=
  xor_list (shift_rows (map sub_byte s)) rk.

Definition aes_encrypt (key block : list N) : list N :=
  match round_keys key with
  | k0 :: ks =>
    let s := xor_list block k0 in
    let mids := removelast ks in
    let s := fold_left enc_round mids s in
    enc_last s (last ks [])
  | [] => []
  end.

Definition dec_round (s rk : list N) : list N :=
  inv_mix_columns (xor_list (map inv_sub_byte (inv_shift_rows s)) rk).

Definition aes_decrypt (key block : list N) : list N :=
  match rev (round_keys key) with
  | k10 :: ks =>
    let s := xor_list block k10 in
    let mids := removelast ks in
    let s := fold_left dec_round mids s in
    xor_list (map inv_sub_byte (inv_shift_rows s)) (last ks [])
  | [] => []
  end.
