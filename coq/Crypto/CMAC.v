(* Crypto/CMAC.v -- AES-CMAC (RFC 4493 / NIST SP 800-38B), parameterised by the block cipher. *)
From Coq Require Import NArith List Bool.
From LoraV Require Import Crypto.AES.
Import ListNotations.
Open Scope N_scope.

Section CMAC.
  Variable E : list N -> list N.          (* block encryption under the fixed key *)

  (* 128-bit left shift by one of a big-endian byte string; returns (shifted, carried-out msb) *)
  Fixpoint shl1 (l : list N) : list N * bool :=
    match l with
    | [] => ([], false)
    | b :: r =>
      let '(r', c) := shl1 r in
      (N.land (N.lor (N.shiftl b 1) (if c then 1 else 0)) 255 :: r', N.testbit b 7)
    end.

  Definition dbl (l : list N) : list N :=
    let '(s, c) := shl1 l in
    if c then firstn 15 s ++ [N.lxor (nth 15 s 0) 135] else s.

  Definition zero16 : list N := repeat 0 16.
  Definition subkey1 : list N := dbl (E zero16).
  Definition subkey2 : list N := dbl subkey1.

  Definition pad (l : list N) : list N := l ++ [128] ++ repeat 0 (15 - length l).

  (* fuel-indexed CBC over the message; fuel = length suffices (each step consumes 16 bytes) *)
  Fixpoint cbc (fuel : nat) (x : list N) (m : list N) : list N :=
    match fuel with
    | O => x
    | S f =>
      if Nat.leb (length m) 16 then
        (* last block *)
        let last := if Nat.eqb (length m) 16 then xor_list m subkey1 else xor_list (pad m) subkey2 in
        E (xor_list x last)
      else cbc f (E (xor_list x (firstn 16 m))) (skipn 16 m)
    end.

  Definition cmac (m : list N) : list N := cbc (S (length m)) zero16 m.
End CMAC.

Definition aes_cmac (key msg : list N) : list N := cmac (aes_encrypt key) msg.

(* total wrappers used for execution: keys are [u8; 16] in the implementation; normalising the key
   to 16 bytes makes the 16-byte output length hold unconditionally (identity on 16-byte keys) *)
Definition key16 (k : list N) : list N := firstn 16 (k ++ repeat 0 16).
Definition aes_enc (k b : list N) : list N := aes_encrypt (key16 k) b.
Definition aes_dec (k b : list N) : list N := aes_decrypt (key16 k) b.
Definition aes_mac (k m : list N) : list N := aes_cmac (key16 k) m.
