(* Model/Ldro.v -- the low-data-rate-optimisation decision of every radio driver
   (lora-phy/src/{sx126x,sx127x,lr1110}/mod.rs :: create_modulation_params) and the
   bit that set_modulation_params programs into the chip.
   chips: 0 = SX126x family (SX1261/SX1262/STM32WL), 1 = SX1276, 2 = SX1272, 3 = LR11xx.
   sf = 5..12, bw index 0..9 as in Model/Toa.v. *)
From LoraV Require Import Base.Prelude Model.Toa.

(* parameter validation: spreading_factor_value / bandwidth_value / the 250/500 kHz-below-400 MHz rule *)
Definition sf_supported (chip sf : Z) : bool :=
  match chip with
  | 1 | 2 => negb (sf =? 5)          (* sx127x: SF5 unavailable *)
  | _ => true
  end.
Definition bw_supported (chip bw : Z) : bool :=
  match chip with
  | 2 => 7 <=? bw                     (* sx1272: 125/250/500 kHz only *)
  | 3 => negb (bw =? 0)               (* lr11xx: no 7.81 kHz *)
  | _ => true
  end.
Definition pair_supported (chip sf bw freq : Z) : bool :=
  sf_supported chip sf && bw_supported chip bw
  && negb ((8 <=? bw) && (freq <? 400000000)).

(* each driver: BaseBandModulationParams::new(sf, bw, cr).ldro as u8 *)
Definition drv_ldro (chip sf bw : Z) : Z := if ldro sf bw then 1 else 0.

(* what reaches the chip:
   sx126x  SetModulationParams byte 4            = low_data_rate_optimize
   lr11xx  SetModulationParam  byte 4            = low_data_rate_optimize
   sx1276  RegModemConfig3 bit 3  := (low_data_rate_optimize != 0)   (other bits: prior & 0xf3, AGC off)
   sx1272  RegModemConfig1 bit 0  := low_data_rate_optimize          (other bits from bw/cr/prior & 0b110) *)
Definition chip_bit (chip sf bw : Z) : Z :=
  match chip with
  | 1 => if negb (drv_ldro chip sf bw =? 0) then 1 else 0
  | _ => drv_ldro chip sf bw
  end.

(* outcome of create_modulation_params + set_modulation_params: None = rejected *)
Definition ldro_outcome (chip sf bw freq : Z) : option (Z * Z) :=
  if pair_supported chip sf bw freq then Some (drv_ldro chip sf bw, chip_bit chip sf bw) else None.
