(* Model/Sx126x.v -- lora-phy/src/sx126x/mod.rs: every RadioKind operation of the SX126x driver as a program of SPI transactions.
   Opcodes, register addresses, parameter codes and PA tables come from Gen/PhyTables.v (regenerated from the source). *)
From Coq Require Import NArith ZArith List Bool.
From LoraV Require Import Base.Bytes Gen.PhyTables Model.PhyCore Model.Toa.
Import ListNotations.
Open Scope N_scope.

Record cfg126 := {
  g_low_power_pa : bool;                     (* DeviceSel::LowPowerPA (SX1261, STM32WL LP) *)
  g_pa_table : Z * list (Z * N * N * Z);
  g_dio2_rfswitch : bool;
  g_tcxo : option N;
  g_dcdc : bool;
  g_rx_boost : bool }.

Definition u8 (n : N) : N := n mod 256.
Definition u8z (z : Z) : N := Z.to_N (z mod 256).
Definition hi8 (r : N) : N := (r / 256) mod 256.
Definition lo8 (r : N) : N := r mod 256.
Definition t1 (t : N) : N := (t / 65536) mod 256.
Definition t2 (t : N) : N := (t / 256) mod 256.
Definition t3 (t : N) : N := t mod 256.

Definition reg_w8 (reg v : N) : prog unit := spi_write [s6_OpCode_WriteRegister; hi8 reg; lo8 reg; v] false.
Definition reg_r8 (reg : N) : prog N := r <- spi_read [s6_OpCode_ReadRegister; hi8 reg; lo8 reg; 0] 1 ;; Ret (nthN r 0).

(* ---- arithmetic *)
(* convert_freq_in_hz_to_pll_step in u32 arithmetic; None = overflow (panic in a checked build) *)
Definition pll_step_126 (f : N) : option N :=
  let scaled := s6c_sx126x_pll_step_scaled in
  let sh := 2 ^ s6c_sx126x_pll_step_shift_amount in
  let steps_int := f / scaled in
  let steps_frac := f - steps_int * scaled in
  let a := steps_int * sh in                      (* << keeps the low 32 bits: wraps silently *)
  let b := ((steps_frac * sh) mod 4294967296 + scaled / 2) / scaled in
  if 4294967295 <? (a mod 4294967296) + b then None else Some ((a mod 4294967296) + b).

(* set_lora_symbol_num_timeout: (byte for SetLoRaSymbTimeout, mantissa, exponent) *)
Fixpoint mant_loop (fuel : nat) (mant exp : N) : N * N :=
  match fuel with
  | O => (mant, exp)
  | S k => if 31 <? mant then mant_loop k ((mant + 3) / 4) (exp + 1) else (mant, exp)
  end.
Definition symb_timeout_126 (n : N) : N * N * N :=
  let m0 := ((N.min n s6c_sx126x_max_lora_symb_num_timeout + 1) / 2) mod 256 in
  let '(mant, exp) := mant_loop 8 m0 0 in
  (u8 (mant * 2 ^ (2 * exp + 1)), mant, exp).

(* PaTable::lookup *)
Definition pa_lookup (t : Z * list (Z * N * N * Z)) (dbm : Z) : option (N * N * N) :=
  let '(mn, rows) := t in
  match rev rows with
  | [] => None                                  (* entries[len - 1]: index panic *)
  | (mx, _, _, _) :: _ =>
    let txp := Z.max mn (Z.min dbm mx) in
    let row := match find (fun r => let '(m, _, _, _) := r in (txp <=? m)%Z) rows with Some r => r | None => hd (0%Z, 0, 0, 0%Z) (rev rows) end in
    let '(m, duty, hp, at_max) := row in
    Some (duty, hp, u8z (at_max - (m - txp)))
  end.

(* ---- operations *)
Definition set_buffer_base (txb rxb : N) : prog unit :=
  if (255 <? txb) || (255 <? rxb) then Fail (EInvalidBaseAddress txb rxb)
  else spi_write [s6_OpCode_SetBufferBaseAddress; txb; rxb] false.

Fixpoint in_retention (buf : list N) (n : nat) (a1 a2 : N) : bool :=
  match n with
  | O => false
  | S k => ((nthN buf (1 + 2 * k) =? a1) && (nthN buf (2 + 2 * k) =? a2)) || in_retention buf k a1 a2
  end.
Definition add_retention (reg : N) : prog unit :=
  buf <- spi_read [s6_OpCode_ReadRegister; hi8 s6_Register_RetentionList; lo8 s6_Register_RetentionList; 0] 9 ;;
  let n := nthN buf 0 in
  (* for i in 0..n: buffer[1 + 2 i] -- an index beyond the 9-byte buffer panics *)
  if (4 <? n) && negb (in_retention buf 4 (hi8 reg) (lo8 reg)) then Fail EPanic else
  if in_retention buf (N.to_nat (N.min n 4)) (hi8 reg) (lo8 reg) then Ret tt else
  if n <? s6c_max_number_regs_in_retention then
    let buf' := set_nthN (set_nthN (set_nthN buf 0 (n + 1)) (1 + 2 * N.to_nat n) (hi8 reg)) (2 + 2 * N.to_nat n) (lo8 reg) in
    spi_write_payload [s6_OpCode_WriteRegister; hi8 s6_Register_RetentionList; lo8 s6_Register_RetentionList] buf' false
  else Fail EInvalidConfiguration.

Definition sync_word_write (sw : N) : prog unit :=
  spi_write_payload [s6_OpCode_WriteRegister; hi8 s6_Register_LoRaSyncword; lo8 s6_Register_LoRaSyncword] [hi8 sw; lo8 sw] false.

Definition init_lora_126 (g : cfg126) (sw : N) : prog unit :=
  (if g_dcdc g then spi_write [s6_OpCode_SetRegulatorMode; s6_RegulatorMode_UseDCDC] false else Ret tt) ;;;
  (if g_dio2_rfswitch g then spi_write [s6_OpCode_SetDIO2AsRfSwitchCtrl; 1] false else Ret tt) ;;;
  (match g_tcxo g with
   | Some v =>
     _ <- spi_read_status [s6_OpCode_ClearDeviceErrors] 2 ;;
     let timeout := s6c_brd_tcxo_wakeup_time * 64 in
     spi_write [s6_OpCode_SetTCXOMode; N.land v 7; t1 timeout; t2 timeout; t3 timeout] false ;;;
     spi_write [s6_OpCode_Calibrate; 0x7F] false ;;;
     iv IvBusy
   | None => Ret tt end) ;;;
  spi_write [s6_OpCode_SetPacketType; s6_PacketType_LoRa] false ;;;
  sync_word_write sw ;;;
  set_buffer_base 0 0 ;;;
  add_retention s6_Register_RxGain ;;;
  add_retention s6_Register_TxModulation.

Definition set_standby_126 : prog unit :=
  spi_write [s6_OpCode_SetStandby; s6_StandbyMode_RC] false ;;; iv IvSwOff.
Definition set_sleep_126 (warm : bool) : prog unit :=
  iv IvSwOff ;;; spi_write [s6_OpCode_SetSleep; if warm then 4 else 0] true ;;; delay 2000000.
Definition ensure_ready_126 (sleep_or_duty : bool) : prog unit :=
  if sleep_or_duty then spi_write [s6_OpCode_GetStatus; 0] false else iv IvBusy.

Definition set_pa_config (duty hp : N) (low_power : bool) : prog unit :=
  spi_write [s6_OpCode_SetPAConfig; duty; hp; if low_power then 1 else 0; 1] false.

(* set_tx_power_and_ramp_time(output_power, Some(freq) | None, is_tx_prep) *)
Definition set_tx_power_126 (g : cfg126) (p : Z) (freq : option N) (is_tx_prep : bool) : prog unit :=
  let ramp := if is_tx_prep then s6_RampTime_Ramp40Us else s6_RampTime_Ramp200Us in
  (if g_low_power_pa g then
     if (15 <=? p)%Z && match freq with Some f => f <? 400000000 | None => false end then Fail EInvalidPowerForFreq else Ret tt
   else v <- reg_r8 s6_Register_TxClampCfg ;; reg_w8 s6_Register_TxClampCfg (N.lor v 0x1E)) ;;;
  match pa_lookup (g_pa_table g) p with
  | None => Fail EPanic
  | Some (duty, hp, txp) => set_pa_config duty hp (g_low_power_pa g) ;;; spi_write [s6_OpCode_SetTxParams; txp; ramp] false
  end.

Definition code (l : list (option N)) (i : N) : option N := nth (N.to_nat i) l None.

(* set_modulation_params(sf idx, bw idx, cr idx, ldro byte) *)
(* the command bytes and the TxModulation erratum value, as pure functions *)
Definition cmd_mod_126 (sf bw cr ldro : N) : option (list N) :=
  match code s6_sf_codes sf, code s6_bw_codes bw, code s6_cr_codes cr with
  | Some s, Some b, Some c => Some [s6_OpCode_SetModulationParams; s; b; c; ldro]
  | _, _, _ => None end.
Definition txmod_value (bw v : N) : N := if bw =? 9 then N.land v 0xFB else N.lor v 4.
Definition set_mod_126 (sf bw cr ldro : N) : prog unit :=
  match code s6_sf_codes sf, code s6_bw_codes bw, code s6_cr_codes cr with
  | Some s, Some b, Some c =>
    spi_write [s6_OpCode_SetModulationParams; s; b; c; ldro] false ;;;
    v <- reg_r8 s6_Register_TxModulation ;;
    reg_w8 s6_Register_TxModulation (txmod_value bw v)
  | None, _, _ => Fail EUnavailableSF
  | _, None, _ => Fail EUnavailableBW
  | _, _, None => Fail EPanic
  end.

(* create_modulation_params: validation + the LDRO flag of the airtime calculator *)
Definition create_mod_126 (sf bw cr freq : N) : option rerr :=
  if ((bw =? 8) || (bw =? 9)) && (freq <? 400000000) then Some EInvalidBwForFreq else None.
(* create_packet_params: SF5/SF6 need at least 12 preamble symbols *)
Definition create_pkt_preamble_126 (sf preamble : N) : N := if ((sf =? 0) || (sf =? 1)) && (preamble <? 12) then 12 else preamble.

Definition b2n (b : bool) : N := if b then 1 else 0.
Definition cmd_pkt_126 (preamble : N) (implicit : bool) (len : N) (crc iq : bool) : list N :=
  [s6_OpCode_SetPacketParams; hi8 preamble; lo8 preamble; b2n implicit; len; b2n crc; b2n iq].
Definition iqpol_value (iq : bool) (v : N) : N := if iq then N.land v 0xFB else N.lor v 4.
Definition set_pkt_126 (preamble : N) (implicit : bool) (len : N) (crc iq : bool) : prog unit :=
  spi_write (cmd_pkt_126 preamble implicit len crc iq) false ;;;
  v <- reg_r8 s6_Register_IQPolarity ;;
  reg_w8 s6_Register_IQPolarity (iqpol_value iq v).

Definition calibrate_image_126 (f : N) : prog unit :=
  let '(a, b) := if 900000000 <? f then (0xE1, 0xE9) else if 850000000 <? f then (0xD7, 0xDB) else if 770000000 <? f then (0xC1, 0xC5)
                 else if 460000000 <? f then (0x75, 0x81) else if 425000000 <? f then (0x6B, 0x6F) else (0, 0) in
  spi_write [s6_OpCode_CalibrateImage; a; b] false.

Definition cmd_rf_126 (s : N) : list N := [s6_OpCode_SetRFFrequency; (s / 16777216) mod 256; (s / 65536) mod 256; (s / 256) mod 256; s mod 256].
Definition set_channel_126 (f : N) : prog unit :=
  match pll_step_126 f with
  | None => Fail EPanic
  | Some s => spi_write (cmd_rf_126 s) false
  end.

Definition set_payload_126 (p : list N) : prog unit := spi_write_payload [s6_OpCode_WriteBuffer; 0] p false.
Definition do_tx_126 : prog unit := iv IvSwTx ;;; spi_write [s6_OpCode_SetTx; 0; 0; 0] false.

Definition set_symb_timeout_126 (n : N) : prog unit :=
  let '(val, mant, exp) := symb_timeout_126 n in
  spi_write [s6_OpCode_SetLoRaSymbTimeout; val] false ;;;
  if 0 <? n then reg_w8 s6_Register_SynchTimeout (u8 (exp + mant * 8)) else Ret tt.

Inductive rxmode := RxSingle (n : N) | RxContinuous | RxDuty (rx sleep : N).
Definition do_rx_126 (g : cfg126) (m : rxmode) : prog unit :=
  iv IvSwRx ;;;
  spi_write [s6_OpCode_SetStopRxTimerOnPreamble; 1] false ;;;
  set_symb_timeout_126 (match m with RxSingle n => n | _ => 0 end) ;;;
  reg_w8 s6_Register_RxGain (if g_rx_boost g then 0x96 else 0x94) ;;;
  match m with
  | RxDuty rx sl => spi_write [s6_OpCode_SetRxDutyCycle; t1 rx; t2 rx; t3 rx; t1 sl; t2 sl; t3 sl] false
  | RxSingle _ => spi_write [s6_OpCode_SetRx; 0; 0; 0] false
  | RxContinuous => spi_write [s6_OpCode_SetRx; t1 s6c_rx_continuous_timeout; t2 s6c_rx_continuous_timeout; t3 s6c_rx_continuous_timeout] false
  end.

Definition op_is_error (status : N) : bool :=
  let f := N.land status 0x0e in (f =? s6_OpStatusErrorMask_Timeout) || (f =? s6_OpStatusErrorMask_ProcessingError) || (f =? s6_OpStatusErrorMask_ExecutionError).

(* get_rx_payload(implicit header?, caller buffer length) -> (length, bytes written at the front of the caller's buffer) *)
Definition get_rx_payload_126 (implicit : bool) (buflen : N) : prog (N * list N) :=
  sr <- spi_read_status [s6_OpCode_GetRxBufferStatus] 2 ;;
  let '(status, b) := sr in
  if op_is_error status then Fail (EOpError status) else
  let rx_len := nthN b 0 in let offset := nthN b 1 in
  len <- (if implicit then reg_r8 s6_Register_PayloadLength else Ret rx_len) ;;
  if buflen <? len then Fail (EPayloadSizeMismatch len buflen) else
  data <- spi_read [s6_OpCode_ReadBuffer; offset; 0] (N.to_nat len) ;;
  Ret (len, data).

Definition as_i8 (b : N) : Z := if 127 <? b then (Z.of_N b - 256)%Z else Z.of_N b.
Definition rssi_126 (raw : N) : Z := Z.shiftr (- Z.of_N raw) 1.          (* ((-(raw as i32)) >> 1) as i16 *)
Definition snr_126 (raw : N) : Z := Z.shiftr (as_i8 raw + 2) 2.            (* ((raw as i8) as i16 + 2) >> 2 *)
(* get_rx_packet_status -> (rssi, snr) *)
Definition pkt_status_126 : prog (Z * Z) :=
  sr <- spi_read_status [s6_OpCode_GetPacketStatus] 3 ;;
  let '(status, b) := sr in
  if op_is_error status then Fail (EOpError status) else
  Ret (rssi_126 (nthN b 0), snr_126 (nthN b 1)).
Definition get_rssi_126 : prog Z :=
  sr <- spi_read_status [s6_OpCode_GetRSSIInst] 1 ;;
  let '(status, b) := sr in
  if op_is_error status then Fail (EOpError status) else Ret (rssi_126 (nthN b 0)).

Definition do_cad_126 (g : cfg126) (sf : N) : prog unit :=
  iv IvSwRx ;;;
  reg_w8 s6_Register_RxGain (if g_rx_boost g then 0x96 else 0x94) ;;;
  match code s6_sf_codes sf with
  | None => Fail EUnavailableSF
  | Some s => spi_write [s6_OpCode_SetCADParams; s6_CADSymbols_8; u8 (s + 13); 10; 0; 0; 0; 0] false ;;; spi_write [s6_OpCode_SetCAD] false
  end.

Inductive irqmode := IqNone | IqStandby | IqTransmit | IqReceive | IqCad | IqOther.
Definition irq_mask_126 (m : irqmode) : N :=
  match m with
  | IqStandby | IqReceive => s6_IrqMask_All
  | IqTransmit => N.lor s6_IrqMask_TxDone s6_IrqMask_RxTxTimeout
  | IqCad => N.lor s6_IrqMask_CADDone s6_IrqMask_CADActivityDetected
  | _ => 0 end.
Definition cmd_irq_126 (mask : N) : list N := [s6_OpCode_CfgDIOIrq; hi8 mask; lo8 mask; hi8 mask; lo8 mask; 0; 0; 0; 0].
Definition set_irq_126 (m : irqmode) : prog unit := spi_write (cmd_irq_126 (irq_mask_126 m)) false.
Definition set_cw_126 : prog unit := iv IvSwTx ;;; spi_write [s6_OpCode_SetTxContinuousWave] false.
Definition clear_irq_126 : prog unit := spi_write [s6_OpCode_ClrIrqStatus; 0xFF; 0xFF] false.

(* get_irq_state: radio mode class -> outcome *)
Inductive irqstate := IrqNoneYet | IrqPreamble | IrqDone (cad_detected : option bool).
Definition is_set (flag mask : N) : bool := N.land flag mask =? flag.
Definition handle_implicit_header_mode : prog unit :=
  reg_w8 s6_Register_RTCCtrl 0 ;;; v <- reg_r8 s6_Register_EvtClr ;; reg_w8 s6_Register_EvtClr (N.lor v 2).

Definition get_irq_state_126 (m : irqmode) : prog irqstate :=
  sr <- spi_read_status [s6_OpCode_GetIrqStatus] 2 ;;
  let '(_, b) := sr in
  let flags := nthN b 0 * 256 + nthN b 1 in
  match m with
  | IqTransmit => if is_set s6_IrqMask_TxDone flags then Ret (IrqDone None)
                  else if is_set s6_IrqMask_RxTxTimeout flags then Fail ETransmitTimeout else Ret IrqNoneYet
  | IqReceive => if is_set s6_IrqMask_RxDone flags then Ret (IrqDone None)
                 else if is_set s6_IrqMask_RxTxTimeout flags then Fail EReceiveTimeout
                 else if is_set s6_IrqMask_PreambleDetected flags || is_set s6_IrqMask_HeaderValid flags then Ret IrqPreamble else Ret IrqNoneYet
  | IqCad => if is_set s6_IrqMask_CADDone flags then Ret (IrqDone (Some (is_set s6_IrqMask_CADActivityDetected flags))) else Ret IrqNoneYet
  | _ => Ret IrqNoneYet
  end.

(* process_irq_event(radio_mode, clear_interrupts); `single` = Receive(Single(_)) *)
Definition process_irq_126 (m : irqmode) (single clear : bool) : prog irqstate :=
  st <- attempt (get_irq_state_126 m) ;;
  (if clear then clear_irq_126 else Ret tt) ;;;
  (match m, single, st with
   | IqReceive, true, inl (IrqDone _) => handle_implicit_header_mode
   | _, _, _ => Ret tt end) ;;;
  match st with inl v => Ret v | inr e => Fail e end.
