(* Model/NbDev.v -- lorawan-device/src/nb_device (mod.rs, state.rs): the non-blocking device front-end as the pure state machine it
   is: State x Mac x event x (what the radio answers) -> State x Mac x response, over the MAC model of Model/Mac.v.  The radio
   (harness/src/nbdev.rs) answers RxRequest with Rxing and CancelRx with Idle; TxRequest and Phy events are answered as scripted;
   any call may fail (fault position). *)
From Coq Require Import NArith ZArith List Bool.
From LoraV Require Import Base.Bytes Model.Frame Model.Region Model.Mac Gen.RegionTables.
Import ListNotations.
Open Scope N_scope.

(* what the radio answers to a TxRequest / Phy event *)
Inductive ranswer := RaIdle | RaTxing | RaRxing | RaTxDone (ms : N) | RaRxDone (packet : list N) | RaErr.
Inductive nrx := NRx1 (t : N) | NRx2 (t : N).
Inductive nstate :=
| NIdle
| NSendingData (join : bool) (rx1 rx2 : rf_config)
| NWaitWindow (join : bool) (rx1 rx2 : rf_config) (w : nrx)
| NWaitRx (join : bool) (rx1 rx2 : rf_config) (w : nrx) (rf : rf_config).
Inductive nevent :=
| NJoin (c : credentials) (draws : list N) | NSend (data : list N) (fport : N) (confirmed : bool) (draws : list N) | NPhy | NTimeout.
Inductive serr := SRadioEventWhileIdle | SRadioEventWhileWaitingForRxWindow | SNewSessionWhileWaitingForRxWindow | SSendDataWhileWaitingForRxWindow
                | STxRequestDuringTx | SNewSessionWhileWaitingForRx | SSendDataWhileWaitingForRx | SBufferTooSmall | SUnexpectedRadioResponse.
Inductive nresp :=
| NrNoUpdate | NrTimeoutRequest (t : N) | NrJoinSuccess | NrNoJoinAccept | NrUplinkSending (cnt : N) | NrDownlinkReceived (f : N) | NrNoAck
| NrSessionExpired | NrRxComplete | NrErrRadio | NrErrState (e : serr) | NrErrMacNotJoined | NrPanic | NrHang.
Inductive ncall := NcTx (c : tx_config) (frame : list N) | NcRxRequest (rf : rf_config) | NcCancelRx | NcPhy | NcFault (c : ncall).

(* n_fault = Some (k, n): the radio calls number k .. k+n-1 of the history fail *)
Record nenv := { n_calls : N; n_fault : option (N * N); n_trace : list ncall (* most recent first *) }.
Definition nfaulty (e : nenv) : bool :=
  match n_fault e with Some (k, n) => (k <=? n_calls e) && (n_calls e <? k + n) | None => false end.
(* a radio call: true = it went through *)
Definition ncall_radio (e : nenv) (what : ncall) : nenv * bool :=
  let n := n_calls e in
  if nfaulty e
  then ({| n_calls := n + 1; n_fault := n_fault e; n_trace := NcFault what :: n_trace e |}, false)
  else ({| n_calls := n + 1; n_fault := n_fault e; n_trace := what :: n_trace e |}, true).

Definition resp_of_mac (r : response) : nresp :=
  match r with
  | RSessionExpired => NrSessionExpired | RDownlinkReceived f => NrDownlinkReceived f | RNoAck => NrNoAck | RNoJoinAccept => NrNoJoinAccept
  | RJoinSuccess => NrJoinSuccess | RNoUpdate => NrNoUpdate | RRxComplete => NrRxComplete
  end.

Definition rx_offset : Z := (-15)%Z.        (* Timings of the scripted radio *)
Definition rx_duration : N := 100.

Section NDev.
  Variable enc : list N -> list N -> list N.
  Variable mac_fn : list N -> list N -> list N.

  (* data_rxwindow1_timeout: (delay as i32 + timestamp as i32 + offset) as u32 *)
  Definition rxwindow1 (m : mac) (join : bool) (rx1 rx2 : rf_config) (ms : N) : nstate * nresp :=
    let t1 := Z.to_N ((Z.of_N (get_rx_delay m join false) + Z.of_N ms + rx_offset) mod 4294967296) in
    (NWaitWindow join rx1 rx2 (NRx1 t1), NrTimeoutRequest t1).

  (* hand a frame to the radio from Idle *)
  Definition idle_tx (m : mac) (e : nenv) (join : bool) (o : tx_out) (ans : ranswer) : nstate * mac * nenv * nresp :=
    let '(e1, ok) := ncall_radio e (NcTx (to_tx o) (to_frame o)) in
    let conclude (dflt : nresp) :=
      (* the frame was handed to the radio: a data uplink is concluded so that its counter is never used again *)
      if join then (NIdle, m, e1, dflt)
      else let '(m', r) := mac_rx2_complete m in
           match r with RSessionExpired => (NIdle, m', e1, NrSessionExpired) | _ => (NIdle, m', e1, dflt) end in
    if negb ok then conclude NrErrRadio else
    match ans with
    | RaTxing => (NSendingData join (to_rx1 o) (to_rx2 o), m, e1, NrUplinkSending (to_counter o))
    | RaTxDone ms => let '(st, r) := rxwindow1 m join (to_rx1 o) (to_rx2 o) ms in (st, m, e1, r)
    | RaErr => conclude NrErrRadio
    | _ => conclude (NrErrState SUnexpectedRadioResponse)
    end.

  Definition handle_event (st : nstate) (m : mac) (e : nenv) (ev : nevent) (ans : ranswer) : nstate * mac * nenv * nresp :=
    match st with
    | NIdle =>
      match ev with
      | NJoin c draws =>
        match join_otaa mac_fn m c draws with
        | Val o => idle_tx (to_mac o) e true o ans
        | Panic => (st, m, e, NrPanic) | OutOfDraws => (st, m, e, NrHang)
        end
      | NTimeout => (st, m, e, NrNoUpdate)
      | NPhy => (st, m, e, NrErrState SRadioEventWhileIdle)
      | NSend data fport confirmed draws =>
        match send enc mac_fn m data fport confirmed draws with
        | Val SendNotJoined => (st, m, e, NrErrMacNotJoined)
        | Val (SendOk o) => idle_tx (to_mac o) e false o ans
        | Panic => (st, m, e, NrPanic) | OutOfDraws => (st, m, e, NrHang)
        end
      end
    | NSendingData join rx1 rx2 =>
      match ev with
      | NPhy =>
        let '(e1, ok) := ncall_radio e NcPhy in
        if negb ok then (st, m, e1, NrErrRadio) else
        match ans with
        | RaTxDone ms => let '(st', r) := rxwindow1 m join rx1 rx2 ms in (st', m, e1, r)
        | RaErr => (st, m, e1, NrErrRadio)
        | _ => (st, m, e1, NrErrState SUnexpectedRadioResponse)
        end
      | NTimeout => (st, m, e, NrNoUpdate)
      | _ => (st, m, e, NrErrState STxRequestDuringTx)
      end
    | NWaitWindow join rx1 rx2 w =>
      match ev with
      | NTimeout =>
        let rf := match w with NRx1 _ => rx1 | NRx2 _ => rx2 end in
        let window_start := get_rx_delay m join (match w with NRx1 _ => false | NRx2 _ => true end) in
        let '(e1, ok) := ncall_radio e (NcRxRequest rf) in
        if negb ok then (st, m, e1, NrErrRadio) else
        match w with
        | NRx1 time =>
          if get_rx_delay m join true <? window_start then (st, m, e1, NrPanic) else       (* u32 subtraction *)
          let between := get_rx_delay m join true - window_start in
          let close := if rx_duration <? between then time + rx_duration else time + between in
          (NWaitRx join rx1 rx2 w rf, m, e1, NrTimeoutRequest close)
        | NRx2 time => (NWaitRx join rx1 rx2 w rf, m, e1, NrTimeoutRequest (time + rx_duration))
        end
      | NPhy => (st, m, e, NrErrState SRadioEventWhileWaitingForRxWindow)
      | NJoin _ _ => (st, m, e, NrErrState SNewSessionWhileWaitingForRxWindow)
      | NSend _ _ _ _ => (st, m, e, NrErrState SSendDataWhileWaitingForRxWindow)
      end
    | NWaitRx join rx1 rx2 w rf =>
      match ev with
      | NPhy =>
        let '(e1, ok) := ncall_radio e NcPhy in
        if negb ok then (st, m, e1, NrErrRadio) else
        match ans with
        | RaRxDone packet =>
          if Nat.leb 256 (length packet) then (st, m, e1, NrErrState SBufferTooSmall) else   (* pos + len < N *)
          match mac_handle_rx enc mac_fn m packet 5 (rf_max_payload rf) false with
          | Val (Some o) =>
            match mo_resp o with
            | RNoUpdate => (st, mo_mac o, e1, NrNoUpdate)
            | r => (NIdle, mo_mac o, e1, resp_of_mac r)
            end
          | Val None => (st, m, e1, NrPanic)
          | Panic => (st, m, e1, NrPanic) | OutOfDraws => (st, m, e1, NrHang)
          end
        | RaErr => (st, m, e1, NrErrRadio)
        | _ => (st, m, e1, NrNoUpdate)
        end
      | NTimeout =>
        let '(e1, ok) := ncall_radio e NcCancelRx in
        if negb ok then (st, m, e1, NrErrRadio) else
        match w with
        | NRx1 t1 =>
          if get_rx_delay m join true <? get_rx_delay m join false then (st, m, e1, NrPanic) else
          let t2 := t1 + (get_rx_delay m join true - get_rx_delay m join false) in
          (NWaitWindow join rx1 rx2 (NRx2 t2), m, e1, NrTimeoutRequest t2)
        | NRx2 _ => let '(m', r) := mac_rx2_complete m in (NIdle, m', e1, resp_of_mac r)
        end
      | NJoin _ _ => (st, m, e, NrErrState SNewSessionWhileWaitingForRx)
      | NSend _ _ _ _ => (st, m, e, NrErrState SSendDataWhileWaitingForRx)
      end
    end.
End NDev.
