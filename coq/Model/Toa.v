(* Model/Toa.v -- transcription of lora-modulation/src/lib.rs
   (Bandwidth::hz, SpreadingFactor::factor, CodingRate::denom,
    BaseBandModulationParams::{new, delay_in_symbols, symbols_to_ms, time_on_air_us}).
   Integers are Z; every Rust operation that would trap in a debug build is
   mirrored by a range test collected in the *_safe booleans.
   Enumerations: bw index 0..9 (declaration order), sf = factor 5..12, cr = denom 5..8. *)
From LoraV Require Import Base.Prelude.

Definition bw_hz (bw : Z) : Z :=
  match bw with
  | 0 => 7810 | 1 => 10420 | 2 => 15630 | 3 => 20830 | 4 => 31250
  | 5 => 41670 | 6 => 62500 | 7 => 125000 | 8 => 250000 | _ => 500000
  end.

(* new(): t_sym_us = 2u32.pow(sf) * 1_000_000 / bw.hz() *)
Definition t_sym_us (sf bw : Z) : Z := Z.quot (2 ^ sf * 1000000) (bw_hz bw).
Definition new_safe (sf bw : Z) : bool := in_u32 (2 ^ sf) && in_u32 (2 ^ sf * 1000000).
Definition ldro (sf bw : Z) : bool := 16384 <=? t_sym_us sf bw.

(* local const fn div_ceil(num: i32, denom: i32) -> i32 *)
Definition div_ceil (num denom : Z) : Z :=
  if 0 <? num then Z.quot (num - 1) denom + 1 else Z.quot num denom.

Definition toa_num (sf len h : Z) : Z := 8 * len - 4 * sf + 28 + 16 - 20 * h.
Definition toa_den (sf de : Z) : Z := 4 * (sf - 2 * de).

Definition payload_symb_nb (sf bw cr len : Z) (explicit_header : bool) : Z :=
  let de := if ldro sf bw then 1 else 0 in
  let h := if explicit_header then 0 else 1 in
  let big_ratio := div_ceil (toa_num sf len h) (toa_den sf de) in
  let big_ratio := if 0 <? big_ratio then big_ratio else 0 in
  8 + big_ratio * cr.

(* preamble : option Z  (None = excluded) *)
Definition toa_us (sf bw cr : Z) (preamble : option Z) (explicit_header : bool) (len : Z) : Z :=
  let n := payload_symb_nb sf bw cr len explicit_header in
  match preamble with
  | None => t_sym_us sf bw * n
  | Some p => Z.quot ((4 * p + 17 + 4 * n) * t_sym_us sf bw) 4
  end.

(* every intermediate the Rust computes stays inside its type *)
Definition toa_safe (sf bw cr : Z) (preamble : option Z) (explicit_header : bool) (len : Z) : bool :=
  let de := if ldro sf bw then 1 else 0 in
  let h := if explicit_header then 0 else 1 in
  let num := toa_num sf len h in
  let den := toa_den sf de in
  let br := div_ceil num den in
  let br := if 0 <? br then br else 0 in
  let n := 8 + br * cr in
  new_safe sf bw
  && in_i32 (8 * len) && in_i32 (4 * sf) && in_i32 (8 * len - 4 * sf)
  && in_i32 (8 * len - 4 * sf + 28) && in_i32 (8 * len - 4 * sf + 28 + 16)
  && in_i32 (20 * h) && in_i32 num
  && in_i32 (2 * de) && in_i32 (sf - 2 * de) && in_i32 den && negb (den =? 0)
  && in_i32 (num - 1) && in_i32 br && in_i32 (br * cr) && in_i32 n && in_u32 n
  && match preamble with
     | None => in_u32 (t_sym_us sf bw * n)
     | Some p => in_u32 (4 * p) && in_u32 (4 * p + 17) && in_u32 (4 * n)
                 && in_u32 (4 * p + 17 + 4 * n)
                 && in_u32 ((4 * p + 17 + 4 * n) * t_sym_us sf bw)
     end.

(* delay_in_symbols: (delay_in_ms * 1000 / t_sym_us) as u16 *)
Definition delay_in_symbols (sf bw ms : Z) : Z := wrap_u16 (Z.quot (ms * 1000) (t_sym_us sf bw)).
Definition delay_in_symbols_safe (sf bw ms : Z) : bool :=
  in_u32 (ms * 1000) && negb (t_sym_us sf bw =? 0).
(* symbols_to_ms: (t_sym_us * symbols) / 1000 *)
Definition symbols_to_ms (sf bw symbols : Z) : Z := Z.quot (t_sym_us sf bw * symbols) 1000.
Definition symbols_to_ms_safe (sf bw symbols : Z) : bool := in_u32 (t_sym_us sf bw * symbols).
