(* Model/Mac.v -- lorawan-device/src/mac: Configuration, Session (handle_rx, rx2_complete, prepare_buffer,
   handle_downlink_macs), Uplink queue, Otaa, Mac (join_otaa, send, handle_rx, handle_rxc, rx2_complete, rx windows).
   Default feature set (all regions, class-c); certification / multicast are not modelled.
   Frames are built and parsed by the codec models of Model/Frame.v; commands by Model/MacCmd.v + generated tables. *)
From Coq Require Import ZArith.
From LoraV Require Import Base.Bytes Crypto.AES Model.Frame Model.MacCmd Gen.CmdTables Gen.RegionTables Model.Region.
Open Scope N_scope.

Record configuration := {
  cf_data_rate : N; cf_rx1_delay : N; cf_tx_power : option N; cf_rx1_dr_offset : N;
  cf_rx2_data_rate : option N; cf_rx2_frequency : option N; cf_adr : bool }.

Record session := {
  ss_pending : list N;          (* uplink.pending *)
  ss_owed_ack : bool;           (* uplink.confirmed: the next uplink must carry ACK *)
  ss_confirmed : bool;          (* last uplink was confirmed *)
  ss_nwkskey : list N; ss_appskey : list N; ss_devaddr : N;
  ss_fcnt_up : N; ss_fcnt_down : option N; ss_adr_ack_cnt : N }.

Record credentials := { cr_deveui : N; cr_appeui : N; cr_appkey : list N }.   (* EUIs as values of the wire types *)

Inductive mstate := Joined (s : session) | Otaa (dev_nonce : N) (c : credentials) | Unjoined.

Record mac := { m_cfg : configuration; m_region : region; m_max_power : N; m_gain : Z; m_state : mstate }.

Inductive response :=
| RNoAck | RSessionExpired | RDownlinkReceived (fcnt : N) | RNoJoinAccept | RJoinSuccess | RNoUpdate | RRxComplete.

Record rf_config := { rf_freq : N; rf_sf : N; rf_bw : N; rf_max_payload : N }.
Record tx_config := { tx_pw : Z; tx_rf : rf_config }.

Definition del_to_delay_ms (del : N) : N := if (2 <=? del) && (del <=? 15) then del * 1000 else c_receive_delay1.

Definition mac_new (r : rid) (max_power : N) (gain : Z) : mac :=
  {| m_cfg := {| cf_data_rate := 0; cf_rx1_delay := c_receive_delay1; cf_tx_power := None; cf_rx1_dr_offset := 0;
                 cf_rx2_data_rate := None; cf_rx2_frequency := None; cf_adr := true |};
     m_region := region_new r; m_max_power := max_power; m_gain := gain; m_state := Unjoined |}.

Definition session_new (nwk app : list N) (addr : N) : session :=
  {| ss_pending := []; ss_owed_ack := false; ss_confirmed := false; ss_nwkskey := nwk; ss_appskey := app;
     ss_devaddr := addr; ss_fcnt_up := 0; ss_fcnt_down := None; ss_adr_ack_cnt := 0 |}.

(* ---- Uplink queue *)
(* add_mac_command: admitted iff pending.len() + payload_len < 15 *)
Definition add_mac_command (pending : list N) (cmd : list N (* cid :: payload *)) : list N :=
  if Nat.ltb (length pending + (length cmd - 1)) 15 then pending ++ cmd else pending.
Definition fits (pending cmd : list N) : bool := Nat.ltb (length pending + (length cmd - 1)) 15.
(* the answer! macro of handle_downlink_macs: (pending, answers_full) *)
Definition push_answer (pf : list N * bool) (cmd : list N) : list N * bool :=
  let '(p, full) := pf in
  if full then (p, true) else if fits p cmd then (p ++ cmd, false) else (p, true).

(* clear_mac_commands(true): re-parse pending as uplink commands, keep DlChannelAns(0x0A) RXParamSetupAns(0x05) RXTimingSetupAns(0x08) *)
Definition retain_acks (pending : list N) : list N :=
  flat_map (fun it => match it with
                      | IOk cid p => if (cid =? 0x0A) || (cid =? 0x05) || (cid =? 0x08) then cid :: p else []
                      | _ => [] end)
           (parse_all ul_mac_table pending).

(* ---- counters *)
(* session.rs :: next_fcnt_down(last, wire) *)
Definition next_fcnt_down (last : option N) (wire : N) : option N :=
  match last with
  | None => Some wire
  | Some l =>
    let high := N.land l 0xFFFF0000 in
    let recon := if (l mod 65536) <=? wire then N.lor high wire
                 else N.lor ((high + 0x10000) mod 4294967296) wire in
    if (l <? recon) && (recon - l <=? c_max_fcnt_gap) then Some recon else None
  end.

Definition next_lower_datarate (r : rid) (current : N) : option N :=
  let cands := rev (seq 0 (N.to_nat current)) in
  match find (fun c => match get_datarate r (N.of_nat c) with Some _ => true | None => false end) cands with
  | Some c => Some (N.of_nat c)
  | None => None
  end.

(* Session::rx2_complete *)
Definition rx2_complete_session (s : session) (cf : configuration) (r : rid) : session * configuration * response :=
  if ss_fcnt_up s =? 0xFFFFFFFF then (s, cf, RSessionExpired) else
  let up := ss_fcnt_up s + 1 in
  let '(cnt, cf') :=
    if cf_adr cf then
      let cnt := N.min 0xFFFFFFFF (ss_adr_ack_cnt s + 1) in
      if (c_adr_ack_limit + c_adr_ack_delay <=? cnt) && ((cnt - c_adr_ack_limit) mod c_adr_ack_delay =? 0) then
        match next_lower_datarate r (cf_data_rate cf) with
        | Some dr => (cnt, {| cf_data_rate := dr; cf_rx1_delay := cf_rx1_delay cf; cf_tx_power := cf_tx_power cf;
                              cf_rx1_dr_offset := cf_rx1_dr_offset cf; cf_rx2_data_rate := cf_rx2_data_rate cf;
                              cf_rx2_frequency := cf_rx2_frequency cf; cf_adr := cf_adr cf |})
        | None => (cnt, cf)
        end
      else (cnt, cf)
    else (ss_adr_ack_cnt s, cf) in
  ({| ss_pending := ss_pending s; ss_owed_ack := ss_owed_ack s; ss_confirmed := ss_confirmed s;
      ss_nwkskey := ss_nwkskey s; ss_appskey := ss_appskey s; ss_devaddr := ss_devaddr s;
      ss_fcnt_up := up; ss_fcnt_down := ss_fcnt_down s; ss_adr_ack_cnt := cnt |},
   cf', if ss_confirmed s then RNoAck else RRxComplete).

Section MacCrypto.
  Variable enc : list N -> list N -> list N.
  Variable mac_fn : list N -> list N -> list N.

  (* ---- MAC command answers (creator bytes) *)
  Definition ans_bits (cid b0 b1 b2 : bool -> N) := 0.
  Definition bitsN (b0 b1 b2 : bool) : N := (if b0 then 1 else 0) + (if b1 then 2 else 0) + (if b2 then 4 else 0).

  Definition set_cfg (cf : configuration) dr pw : configuration :=
    {| cf_data_rate := dr; cf_rx1_delay := cf_rx1_delay cf; cf_tx_power := pw; cf_rx1_dr_offset := cf_rx1_dr_offset cf;
       cf_rx2_data_rate := cf_rx2_data_rate cf; cf_rx2_frequency := cf_rx2_frequency cf; cf_adr := cf_adr cf |}.

  (* state threaded through handle_downlink_macs *)
  Record hstate := { h_cf : configuration; h_rg : region; h_pending : list N; h_full : bool; h_mask : mask; h_nadr : nat; h_known : bool }.
  Definition h_pf (h : hstate) : list N * bool := (h_pending h, h_full h).

  Definition is_linkadr (it : item) : bool := match it with IOk 0x03 _ => true | _ => false end.

  (* one command; `next` is the following well-formed command (peek) *)
  Definition handle_cmd (snr : Z) (h : hstate) (cid : N) (p : list N) (next_is_adr : bool) : outcome hstate :=
    let cf := h_cf h in let rg := h_rg h in let r := rg_id rg in
    let b i := nthN p i in
    let upd_pending cmd := {| h_cf := h_cf h; h_rg := h_rg h; h_pending := fst (push_answer (h_pf h) cmd);
                              h_full := snd (push_answer (h_pf h) cmd);
                              h_mask := h_mask h; h_nadr := h_nadr h; h_known := h_known h |} in
    match cid with
    | 0x06 => (* DevStatusReq: battery 255, margin = snr if -32..=31 else 0 (set_margin error ignored) *)
      let m := if ((snr <? -32) || (31 <? snr))%Z then 0 else N.shiftr (Z.to_N ((snr * 4) mod 256)) 2 in
      Val (upd_pending [0x06; 255; m])
    | 0x0A => (* DlChannelReq *)
      match rg_plan rg with
      | PFix _ => Val h
      | PDyn pl =>
        let '(pl', (af, ac)) := dyn_dl_update r pl (b 0%nat) (le_value (slice p 1 4) * 100) in
        Val {| h_cf := cf; h_rg := {| rg_id := r; rg_plan := PDyn pl' |};
               h_pending := fst (push_answer (h_pf h) [0x0A; bitsN af ac false]);
               h_full := snd (push_answer (h_pf h) [0x0A; bitsN af ac false]);
               h_mask := h_mask h; h_nadr := h_nadr h; h_known := h_known h |}
      end
    | 0x03 => (* LinkADRReq *)
      let nadr := S (h_nadr h) in
      let ctl := N.land (N.shiftr (b 3%nat) 4) 7 in
      match region_mask_update rg (h_mask h) ctl (b 1%nat) (b 2%nat) with
      | Panic => Panic | OutOfDraws => OutOfDraws
      | Val mo =>
        let '(msk, known) := match mo with Some m' => (m', h_known h) | None => (h_mask h, false) end in
        if next_is_adr then
          Val {| h_cf := cf; h_rg := rg; h_pending := h_pending h; h_full := h_full h; h_mask := msk; h_nadr := nadr; h_known := known |}
        else
          let drf := N.shiftr (b 0%nat) 4 in let pwf := N.land (b 0%nat) 0x0f in
          let dr : option N := if drf =? 15 then Some (cf_data_rate cf)
                               else match uplink_dr rg drf with Some _ => Some drf | None => None end in
          let pw : option (option N) := if pwf =? 15 then Some (cf_tx_power cf)
                                        else match tx_power_adjust r pwf with Some x => Some (Some x) | None => None end in
          match region_mask_validate rg msk dr with
          | Panic => Panic | OutOfDraws => OutOfDraws
          | Val vok =>
            let cm_ack := known && vok in
            let '(cf', rg') := match cm_ack, dr, pw with
                               | true, Some d, Some pwv => (set_cfg cf d pwv, region_mask_set rg msk)
                               | _, _, _ => (cf, rg) end in
            let ans := [0x03; bitsN cm_ack (match dr with Some _ => true | None => false end)
                                           (match pw with Some _ => true | None => false end)] in
            let pend := fold_left (fun acc _ => push_answer acc ans) (seq 0 nadr) (h_pf h) in
            Val {| h_cf := cf'; h_rg := rg'; h_pending := fst pend; h_full := snd pend; h_mask := region_mask rg'; h_nadr := 0; h_known := true |}
          end
      end
    | 0x07 => (* NewChannelReq *)
      match rg_plan rg with
      | PFix _ => Val h
      | PDyn pl =>
        let raw := b 4%nat in
        let drr := if N.shiftr raw 4 <? N.land raw 0x0f then None else Some raw in
        match dyn_new_channel r pl (b 0%nat) (le_value (slice p 1 4) * 100) drr with
        | Val (pl', (af, ad)) =>
          Val {| h_cf := cf; h_rg := {| rg_id := r; rg_plan := PDyn pl' |};
                 h_pending := fst (push_answer (h_pf h) [0x07; bitsN af ad false]);
                 h_full := snd (push_answer (h_pf h) [0x07; bitsN af ad false]);
                 h_mask := h_mask h; h_nadr := h_nadr h; h_known := h_known h |}
        | Panic => Panic | OutOfDraws => OutOfDraws
        end
      end
    | 0x05 => (* RXParamSetupReq *)
      let freq := le_value (slice p 1 4) * 100 in
      let fok := frequency_valid r freq in
      let off := rx1_dr_offset_validate r (N.land (N.shiftr (b 0%nat) 4) 7) in
      let d := N.land (b 0%nat) 0x0f in
      let rx2 : option (option N) := if d =? 15 then Some (cf_rx2_data_rate cf)
                                     else match get_datarate r d with Some _ => Some (Some d) | None => None end in
      let cf' := match fok, rx2, off with
                 | true, Some rx2v, Some offv =>
                   {| cf_data_rate := cf_data_rate cf; cf_rx1_delay := cf_rx1_delay cf; cf_tx_power := cf_tx_power cf;
                      cf_rx1_dr_offset := offv; cf_rx2_data_rate := rx2v; cf_rx2_frequency := Some freq; cf_adr := cf_adr cf |}
                 | _, _, _ => cf end in
      let ans := [0x05; bitsN fok (match rx2 with Some _ => true | None => false end)
                              (match off with Some _ => true | None => false end)] in
      Val {| h_cf := cf'; h_rg := rg;
             h_pending := fst (push_answer (h_pf h) ans); h_full := snd (push_answer (h_pf h) ans);
             h_mask := h_mask h; h_nadr := h_nadr h; h_known := h_known h |}
    | 0x08 => (* RXTimingSetupReq *)
      Val {| h_cf := {| cf_data_rate := cf_data_rate cf; cf_rx1_delay := del_to_delay_ms (N.land (b 0%nat) 0x0f);
                        cf_tx_power := cf_tx_power cf; cf_rx1_dr_offset := cf_rx1_dr_offset cf;
                        cf_rx2_data_rate := cf_rx2_data_rate cf; cf_rx2_frequency := cf_rx2_frequency cf; cf_adr := cf_adr cf |};
             h_rg := rg; h_pending := fst (push_answer (h_pf h) [0x08]); h_full := snd (push_answer (h_pf h) [0x08]);
             h_mask := h_mask h; h_nadr := h_nadr h; h_known := h_known h |}
    | _ => Val h
    end.

  Fixpoint handle_cmds (snr : Z) (h : hstate) (items : list item) : outcome hstate :=
    match items with
    | [] => Val h
    | IOk cid p :: rest =>
      match handle_cmd snr h cid p (match rest with it :: _ => is_linkadr it | [] => false end) with
      | Val h' => handle_cmds snr h' rest
      | Panic => Panic | OutOfDraws => OutOfDraws
      end
    | _ :: _ => Val h          (* cmds.filter_map(Result::ok): the fused iterator ends at the first error *)
    end.

  (* handle_downlink_macs over one byte string *)
  Definition handle_downlink_macs (snr : Z) (cf : configuration) (rg : region) (pending : list N) (bytes : list N)
    : outcome (configuration * region * list N) :=
    match handle_cmds snr {| h_cf := cf; h_rg := rg; h_pending := pending; h_full := false; h_mask := region_mask rg; h_nadr := 0; h_known := true |}
                      (parse_all dl_mac_table bytes) with
    | Val h => Val (h_cf h, h_rg h, h_pending h)
    | Panic => Panic | OutOfDraws => OutOfDraws
    end.

  Record rx_out := { ro_session : session; ro_cf : configuration; ro_rg : region; ro_resp : response;
                     ro_downlink : option (N * list N); ro_buf : list N }.

  (* Session::handle_rx *)
  Definition handle_rx_session (s : session) (cf : configuration) (rg : region) (bytes : list N)
             (max_payload_len : N) (snr : Z) (ignore_mac : bool) : outcome rx_out :=
    let same resp := Val {| ro_session := s; ro_cf := cf; ro_rg := rg; ro_resp := resp; ro_downlink := None; ro_buf := bytes |} in
    match validate bytes with
    | Err _ => same RNoUpdate
    | Ok lay =>
      if Nat.ltb (N.to_nat max_payload_len + 1 + 4) (length bytes) then
        if ignore_mac then same RNoUpdate
        else let '(s', cf', resp) := rx2_complete_session s cf (rg_id rg) in
             Val {| ro_session := s'; ro_cf := cf'; ro_rg := rg; ro_resp := resp; ro_downlink := None; ro_buf := bytes |}
      else
      match next_fcnt_down (ss_fcnt_down s) (v_fcnt bytes) with
      | None => same RNoUpdate
      | Some fcnt =>
        if negb (validate_mic mac_fn bytes (ss_nwkskey s) fcnt) then same RNoUpdate else
        match decrypt_in_place enc bytes (Some (ss_nwkskey s)) (Some (ss_appskey s)) fcnt with
        | (Err _, _) => Panic                                  (* .unwrap() *)
        | (Ok lay', buf) =>
          let pending0 := if ignore_mac then ss_pending s else [] in
          let fopts := v_f_opts buf lay' in
          let port := v_f_port buf lay' in
          let frm := v_frm buf lay' in
          let step1 := if ignore_mac then Val (cf, rg, pending0) else handle_downlink_macs snr cf rg pending0 fopts in
          match step1 with
          | Panic => Panic | OutOfDraws => OutOfDraws
          | Val (cf1, rg1, pend1) =>
            let step2 := match ignore_mac, port with
                         | false, Some 0 => handle_downlink_macs snr cf1 rg1 pend1 frm
                         | _, _ => Val (cf1, rg1, pend1) end in
            match step2 with
            | Panic => Panic | OutOfDraws => OutOfDraws
            | Val (cf2, rg2, pend2) =>
              let owed := if is_confirmed (l_type lay') then true else ss_owed_ack s in
              let expired := ss_fcnt_up s =? 0xFFFFFFFF in
              let s' := {| ss_pending := pend2; ss_owed_ack := owed; ss_confirmed := ss_confirmed s;
                           ss_nwkskey := ss_nwkskey s; ss_appskey := ss_appskey s; ss_devaddr := ss_devaddr s;
                           ss_fcnt_up := if expired then ss_fcnt_up s else ss_fcnt_up s + 1;
                           ss_fcnt_down := Some fcnt; ss_adr_ack_cnt := 0 |} in
              Val {| ro_session := s'; ro_cf := cf2; ro_rg := rg2;
                     ro_resp := if expired then RSessionExpired else RDownlinkReceived fcnt;
                     ro_downlink := if expired then None else
                                    match port with
                                    | Some pt => if pt =? 0 then None else Some (pt, frm)
                                    | None => None end;
                     ro_buf := buf |}
            end
          end
        end
      end
    end.

  (* Session::prepare_buffer -> (session', fcnt, frame) ; Panic mirrors the panic!s *)
  Definition prepare_buffer (s : session) (cf : configuration) (r : rid) (data : list N) (fport : N) (confirmed : bool)
    : outcome (session * N * list N) :=
    let fcnt := ss_fcnt_up s in
    let ack := ss_owed_ack s in
    let adr := cf_adr cf in
    let adr_ack_req := adr && (c_adr_ack_limit <=? ss_adr_ack_cnt s)
                       && match next_lower_datarate r (cf_data_rate cf) with Some _ => true | None => false end in
    if (fport =? 0) && negb (Nat.eqb (length data) 0) then Panic else
    let d := {| df_type := if confirmed then ConfirmedUp else UnconfirmedUp; df_addr := ss_devaddr s;
                df_adr := adr; df_adr_ack_req := adr_ack_req; df_ack := ack; df_f_pending := false;
                df_fcnt := fcnt;
                df_f_opts := if fport =? 0 then [] else ss_pending s;
                df_payload := if fport =? 0 then PMac (ss_pending s) else PData fport data |} in
    match build_data enc mac_fn d (ss_nwkskey s) (Some (ss_appskey s)) (repeat 0 256) with
    | Err _ => Panic
    | Ok (buf, len) =>
      if Nat.ltb len 256 then     (* RadioBuffer<256>::extend_from_slice needs pos + len < N *)
        Val ({| ss_pending := retain_acks (ss_pending s); ss_owed_ack := false; ss_confirmed := confirmed;
                ss_nwkskey := ss_nwkskey s; ss_appskey := ss_appskey s; ss_devaddr := ss_devaddr s;
                ss_fcnt_up := ss_fcnt_up s; ss_fcnt_down := ss_fcnt_down s; ss_adr_ack_cnt := ss_adr_ack_cnt s |},
             fcnt, firstn len buf)
      else Panic
    end.

  (* ---- RX windows *)
  Definition mk_rf (r : rid) (freq : N) (d : N * N * N) : rf_config :=
    let '(sf, bw, mx) := d in {| rf_freq := freq; rf_sf := sf; rf_bw := bw; rf_max_payload := mx |}.

  (* Mac::build_rf_config with the fall-back to the RX2 data rate *)
  Definition build_rf_config (m : mac) (freq dr tx_dr : N) : outcome rf_config :=
    let r := rg_id (m_region m) in
    match get_datarate r dr with
    | Some d => Val (mk_rf r freq d)
    | None =>
      match get_rx_datarate r tx_dr (cf_rx1_dr_offset (m_cfg m)) true with
      | Val d2 => match get_datarate r d2 with Some d => Val (mk_rf r freq d) | None => Panic end
      | Panic => Panic | OutOfDraws => OutOfDraws
      end
    end.

  Definition rx2_rf_config (m : mac) (tx_dr : N) : outcome rf_config :=
    let r := rg_id (m_region m) in
    let freq := match cf_rx2_frequency (m_cfg m) with Some f => f | None => r_rx2_freq r end in
    match (match cf_rx2_data_rate (m_cfg m) with
           | Some d => Val d
           | None => get_rx_datarate r tx_dr (cf_rx1_dr_offset (m_cfg m)) true end) with
    | Val dr => build_rf_config m freq dr tx_dr
    | Panic => Panic | OutOfDraws => OutOfDraws
    end.

  Definition rx_windows (m : mac) (tc : tx_channel) : outcome (rf_config * rf_config) :=
    let r := rg_id (m_region m) in
    match get_rx_datarate r (tc_dr tc) (cf_rx1_dr_offset (m_cfg m)) false with
    | Val rx1dr =>
      match build_rf_config m (tc_rx1_freq tc) rx1dr (tc_dr tc), rx2_rf_config m (tc_dr tc) with
      | Val a, Val b => Val (a, b)
      | Panic, _ | _, Panic => Panic
      | _, _ => OutOfDraws
      end
    | Panic => Panic | OutOfDraws => OutOfDraws
    end.

  (* TxConfig::adjust_power: saturating i8 arithmetic; max_power above 127 counts as 127 *)
  Definition as_i8 (n : N) : Z := let z := Z.of_N (n mod 256) in if (127 <? z)%Z then (z - 256)%Z else z.
  Definition adjust_power (pw : Z) (max_power : N) (gain : Z) : outcome Z :=
    let p := Z.max (-128) (Z.min 127 (pw - gain)) in        (* saturating_sub *)
    Val (Z.min p (if 127 <? max_power then 127%Z else Z.of_N max_power)).

  Definition create_tx_config (rg : region) (datarate : N) (join : bool) (draws : list N)
    : outcome (Z * rf_config * tx_channel * region * list N) :=
    match region_select rg datarate join draws with
    | Val (tc, rg', rest) =>
      match tx_power_adjust (rg_id rg) 0 with
      | Some p0 => Val (as_i8 p0, mk_rf (rg_id rg) (tc_freq tc) (tc_datarate tc), tc, rg', rest)
      | None => Panic
      end
    | Panic => Panic | OutOfDraws => OutOfDraws
    end.

  Record tx_out := { to_mac : mac; to_tx : tx_config; to_rx1 : rf_config; to_rx2 : rf_config; to_counter : N;
                     to_frame : list N; to_draws : list N; to_channel : N }.

  Definition with_state (m : mac) (st : mstate) : mac :=
    {| m_cfg := m_cfg m; m_region := m_region m; m_max_power := m_max_power m; m_gain := m_gain m; m_state := st |}.
  Definition with_region (m : mac) (rg : region) : mac :=
    {| m_cfg := m_cfg m; m_region := rg; m_max_power := m_max_power m; m_gain := m_gain m; m_state := m_state m |}.
  Definition with_cfg (m : mac) (cf : configuration) : mac :=
    {| m_cfg := cf; m_region := m_region m; m_max_power := m_max_power m; m_gain := m_gain m; m_state := m_state m |}.

  (* Mac::join_otaa *)
  Definition join_otaa (m : mac) (c : credentials) (draws : list N) : outcome tx_out :=
    match draws with
    | [] => OutOfDraws
    | d :: rest =>
      let nonce := d mod 65536 in
      match build_join_request mac_fn (cr_appeui c) (cr_deveui c) nonce (cr_appkey c) (repeat 0 256) with
      | Err _ => Panic
      | Ok (buf, len) =>
        let m1 := with_state m (Otaa nonce c) in
        match create_tx_config (m_region m1) (cf_data_rate (m_cfg m1)) true rest with
        | Val (pw0, rf, tc, rg', rest') =>
          match adjust_power pw0 (m_max_power m1) (m_gain m1) with
          | Val pw =>
            let m2 := with_region m1 rg' in
            match rx_windows m2 tc with
            | Val (w1, w2) => Val {| to_mac := m2; to_tx := {| tx_pw := pw; tx_rf := rf |}; to_rx1 := w1; to_rx2 := w2;
                                     to_counter := nonce; to_frame := firstn len buf; to_draws := rest'; to_channel := tc_index tc |}
            | Panic => Panic | OutOfDraws => OutOfDraws
            end
          | Panic => Panic | OutOfDraws => OutOfDraws
          end
        | Panic => Panic | OutOfDraws => OutOfDraws
        end
      end
    end.

  Inductive send_res := SendOk (o : tx_out) | SendNotJoined.

  (* Mac::send *)
  Definition send (m : mac) (data : list N) (fport : N) (confirmed : bool) (draws : list N) : outcome send_res :=
    match m_state m with
    | Joined s =>
      match prepare_buffer s (m_cfg m) (rg_id (m_region m)) data fport confirmed with
      | Val (s', fcnt, frame) =>
        let m1 := with_state m (Joined s') in
        match create_tx_config (m_region m1) (cf_data_rate (m_cfg m1)) false draws with
        | Val (pw0, rf, tc, rg', rest') =>
          match adjust_power pw0 (N.min (match cf_tx_power (m_cfg m1) with Some p => p | None => m_max_power m1 end) (m_max_power m1)) (m_gain m1) with
          | Val pw =>
            let m2 := with_region m1 rg' in
            match rx_windows m2 tc with
            | Val (w1, w2) => Val (SendOk {| to_mac := m2; to_tx := {| tx_pw := pw; tx_rf := rf |}; to_rx1 := w1; to_rx2 := w2;
                                             to_counter := fcnt; to_frame := frame; to_draws := rest'; to_channel := tc_index tc |})
            | Panic => Panic | OutOfDraws => OutOfDraws
            end
          | Panic => Panic | OutOfDraws => OutOfDraws
          end
        | Panic => Panic | OutOfDraws => OutOfDraws
        end
      | Panic => Panic | OutOfDraws => OutOfDraws
      end
    | _ => Val SendNotJoined
    end.

  (* Otaa::handle_rx *)
  Definition otaa_handle_rx (m : mac) (nonce : N) (c : credentials) (bytes : list N) : outcome (mac * response * list N) :=
    match ja_check_mic_and_decrypt enc mac_fn bytes (cr_appkey c) with
    | (Err _, buf) => Val (m, RNoUpdate, buf)
    | (Ok _, clear) =>
      let cf := m_cfg m in let r := rg_id (m_region m) in
      let cflist := match ja_c_f_list clear with
                    | None => CflNone
                    | Some (CfDynamic fs) => CflDyn (map (fun f => f * 100) fs)
                    | Some (CfFixed mk) => CflFix mk end in
      match region_join_accept (m_region m) cflist with
      | Val rg' =>
        let dls := ja_dl_settings clear in
        let off := match rx1_dr_offset_validate r (N.land (N.shiftr dls 4) 7) with Some o => o | None => cf_rx1_dr_offset cf end in
        let rx2 := match get_datarate r (N.land dls 0x0f) with Some _ => Some (N.land dls 0x0f) | None => cf_rx2_data_rate cf end in
        let cf' := {| cf_data_rate := cf_data_rate cf; cf_rx1_delay := del_to_delay_ms (ja_rx_delay clear);
                      cf_tx_power := cf_tx_power cf; cf_rx1_dr_offset := off; cf_rx2_data_rate := rx2;
                      cf_rx2_frequency := cf_rx2_frequency cf; cf_adr := cf_adr cf |} in
        let nwk := derive_session_key enc clear 1 nonce (cr_appkey c) in
        let app := derive_session_key enc clear 2 nonce (cr_appkey c) in
        Val ({| m_cfg := cf'; m_region := rg'; m_max_power := m_max_power m; m_gain := m_gain m;
                m_state := Joined (session_new nwk app (ja_dev_addr clear)) |}, RJoinSuccess, clear)
      | Panic => Panic | OutOfDraws => OutOfDraws
      end
    end.

  (* the application's downlink queue `heapless::Vec<Downlink, D>` handed to handle_rx: a delivered downlink is appended when there is
     room (`let _ = dl.push(..)`), nothing else ever touches it *)
  Definition dl_queue_push (depth : nat) (q : list (N * list N)) (d : option (N * list N)) : list (N * list N) :=
    match d with Some x => if Nat.ltb (length q) depth then q ++ [x] else q | None => q end.

  Record mrx_out := { mo_mac : mac; mo_resp : response; mo_downlink : option (N * list N); mo_buf : list N }.

  (* Mac::handle_rx (Class A window) / handle_rxc (class_c = true: Err(NotJoined) unless joined) *)
  Definition mac_handle_rx (m : mac) (bytes : list N) (snr : Z) (max_payload_len : N) (class_c : bool) : outcome (option mrx_out) :=
    match m_state m with
    | Joined s =>
      match handle_rx_session s (m_cfg m) (m_region m) bytes max_payload_len snr class_c with
      | Val o => Val (Some {| mo_mac := {| m_cfg := ro_cf o; m_region := ro_rg o; m_max_power := m_max_power m; m_gain := m_gain m;
                                          m_state := Joined (ro_session o) |};
                              mo_resp := ro_resp o; mo_downlink := ro_downlink o; mo_buf := ro_buf o |})
      | Panic => Panic | OutOfDraws => OutOfDraws
      end
    | Otaa nonce c =>
      if class_c then Val None else
      match otaa_handle_rx m nonce c bytes with
      | Val (m', resp, buf) => Val (Some {| mo_mac := m'; mo_resp := resp; mo_downlink := None; mo_buf := buf |})
      | Panic => Panic | OutOfDraws => OutOfDraws
      end
    | Unjoined => if class_c then Val None else Val (Some {| mo_mac := m; mo_resp := RNoUpdate; mo_downlink := None; mo_buf := bytes |})
    end.

  Definition mac_rx2_complete (m : mac) : mac * response :=
    match m_state m with
    | Joined s => let '(s', cf', resp) := rx2_complete_session s (m_cfg m) (rg_id (m_region m)) in
                  ({| m_cfg := cf'; m_region := m_region m; m_max_power := m_max_power m; m_gain := m_gain m; m_state := Joined s' |}, resp)
    | Otaa _ _ => (m, RNoJoinAccept)
    | Unjoined => (m, RNoUpdate)
    end.

  Definition get_rx_delay (m : mac) (join second : bool) : N :=
    if join then (if second then c_join_accept_delay2 else c_join_accept_delay1)
    else (if second then cf_rx1_delay (m_cfg m) + 1000 else cf_rx1_delay (m_cfg m)).

  Definition rxc_config (m : mac) : outcome rf_config := rx2_rf_config m (cf_data_rate (m_cfg m)).

  Definition set_adr (m : mac) (on : bool) : mac :=
    let cf := m_cfg m in
    let cf' := {| cf_data_rate := cf_data_rate cf; cf_rx1_delay := cf_rx1_delay cf; cf_tx_power := cf_tx_power cf;
                  cf_rx1_dr_offset := cf_rx1_dr_offset cf; cf_rx2_data_rate := cf_rx2_data_rate cf;
                  cf_rx2_frequency := cf_rx2_frequency cf; cf_adr := on |} in
    let st := match m_state m, on with
              | Joined s, false => Joined {| ss_pending := ss_pending s; ss_owed_ack := ss_owed_ack s; ss_confirmed := ss_confirmed s;
                                             ss_nwkskey := ss_nwkskey s; ss_appskey := ss_appskey s; ss_devaddr := ss_devaddr s;
                                             ss_fcnt_up := ss_fcnt_up s; ss_fcnt_down := ss_fcnt_down s; ss_adr_ack_cnt := 0 |}
              | st, _ => st end in
    {| m_cfg := cf'; m_region := m_region m; m_max_power := m_max_power m; m_gain := m_gain m; m_state := st |}.
  Definition set_datarate (m : mac) (dr : N) : mac :=
    let cf := m_cfg m in
    match uplink_dr (m_region m) dr with None => m | Some _ =>
    with_cfg m {| cf_data_rate := dr; cf_rx1_delay := cf_rx1_delay cf; cf_tx_power := cf_tx_power cf;
                  cf_rx1_dr_offset := cf_rx1_dr_offset cf; cf_rx2_data_rate := cf_rx2_data_rate cf;
                  cf_rx2_frequency := cf_rx2_frequency cf; cf_adr := cf_adr cf |} end.
End MacCrypto.
