(* Model/LoraDrv.v -- lora-phy/src/lib.rs: the chip-independent physical layer LoRa<RK, DLY> as programs over a RadioKind (a record of
   driver-operation programs), threading the driver's belief about the chip (radio_mode, cold_start, calibrate_image, sync word).
   A failing step propagates like `?`: the state changes made before it stay. *)
From Coq Require Import NArith ZArith List Bool.
From LoraV Require Import Base.Bytes Model.PhyCore Model.Sx126x Model.Sx127x Model.Toa.
Import ListNotations.
Open Scope N_scope.

Inductive rmode := MSleep | MStandby | MTx | MRx (m : rxmode) | MListen | MCad.
Definition rmode_eqb (a b : rmode) : bool :=
  match a, b with
  | MSleep, MSleep | MStandby, MStandby | MTx, MTx | MListen, MListen | MCad, MCad => true
  | MRx (RxSingle x), MRx (RxSingle y) => x =? y
  | MRx RxContinuous, MRx RxContinuous => true
  | MRx (RxDuty a1 b1), MRx (RxDuty a2 b2) => (a1 =? a2) && (b1 =? b2)
  | _, _ => false end.
Definition irq_of (m : rmode) : irqmode :=
  match m with MStandby => IqStandby | MTx => IqTransmit | MRx _ => IqReceive | MCad => IqCad | MSleep | MListen => IqOther end.

Record lora := { l_mode : rmode; l_cold : bool; l_cal : bool; l_sync : N }.

(* modulation / packet parameters as the API hands them on *)
Record mdl := { md_sf : N; md_bw : N; md_cr : N; md_ldro : N; md_freq : N }.
Record pktp := { pk_preamble : N; pk_implicit : bool; pk_len : N; pk_crc : bool; pk_iq : bool }.

(* the operations of a chip driver (trait RadioKind) *)
Record kind := {
  k_reset : prog unit;
  k_ensure_ready : rmode -> prog unit;
  k_standby : prog unit;
  k_sleep : bool -> prog unit;
  k_init : N -> prog unit;
  k_sync : N -> prog unit;
  k_power : Z -> option mdl -> bool -> prog unit;
  k_irq : option rmode -> prog unit;
  k_calimg : N -> prog unit;
  k_create_mod : N -> N -> N -> N -> mdl + rerr;
  k_create_pkt : N -> bool -> N -> bool -> bool -> mdl -> pktp + rerr;
  k_mod : mdl -> prog unit;
  k_pkt : pktp -> prog unit;
  k_chan : N -> prog unit;
  k_payload : list N -> prog unit;
  k_tx : prog unit;
  k_rx : rxmode -> prog unit;
  k_cad : mdl -> prog unit;
  k_cw : prog unit;
  k_procirq : rmode -> bool -> prog irqstate;
  k_rxpayload : pktp -> N -> prog (N * list N);
  k_status : prog (Z * Z);
  k_rssi : prog Z;
  k_clrirq : prog unit }.

(* ---- the driver object's fields live in the interpreter (actions St / Ld), so they survive a failed or cancelled operation *)
Definition enc_mode (m : rmode) : list N :=
  match m with
  | MSleep => [0] | MStandby => [1] | MTx => [2] | MRx (RxSingle n) => [3; n] | MRx RxContinuous => [4] | MRx (RxDuty a b) => [5; a; b]
  | MListen => [6] | MCad => [7] end.
Definition dec_mode (l : list N) : rmode :=
  match l with
  | [1] => MStandby | [2] => MTx | [3; n] => MRx (RxSingle n) | [4] => MRx RxContinuous | [5; a; b] => MRx (RxDuty a b) | [6] => MListen | [7] => MCad
  | _ => MSleep end.
Definition get_mode : prog rmode := act1 (Ld 0) (fun v => Ret (dec_mode v)).
Definition set_mode (m : rmode) : prog unit := act1 (St 0 (enc_mode m)) (fun _ => Ret tt).
Definition get_flag (tag : nat) : prog bool := act1 (Ld tag) (fun v => Ret (negb (nthN v 0 =? 0))).
Definition set_flag (tag : nat) (b : bool) : prog unit := act1 (St tag [if b then 1 else 0]) (fun _ => Ret tt).
Definition get_sync : prog N := act1 (Ld 3) (fun v => Ret (nthN v 0)).
Definition set_syncw (s : N) : prog unit := act1 (St 3 [s]) (fun _ => Ret tt).
Definition COLD := 1%nat. Definition CAL := 2%nat.
Definition of_res {A} (r : A + rerr) : prog A := match r with inl a => Ret a | inr e => Fail e end.
(* LoRa::new: radio_mode Sleep, cold_start, calibrate_image, then init() *)
Definition initial_fields (sw : N) : list (list N) := [enc_mode MSleep; [1]; [1]; [sw]].

Section WithKind.
  Variable K : kind.

  Definition do_cold_start : prog unit :=
    sw <- get_sync ;; k_init K sw ;;; k_power K 0 None false ;;;
    m <- get_mode ;; k_irq K (Some m) ;;; set_flag COLD false ;;; set_flag CAL true.

  Definition init : prog unit :=
    set_flag COLD true ;;; m <- get_mode ;; set_mode MSleep ;;; k_reset K ;;; k_ensure_ready K m ;;;
    k_standby K ;;; set_mode MStandby ;;; do_cold_start.

  Definition to_standby : prog unit :=
    m <- get_mode ;; if rmode_eqb m MStandby then Ret tt else k_standby K ;;; set_mode MStandby.

  Definition prepare_modem (freq : N) : prog unit :=
    m <- get_mode ;; k_ensure_ready K m ;;; to_standby ;;;
    cold <- get_flag COLD ;; (if cold then do_cold_start else Ret tt) ;;;
    cal <- get_flag CAL ;; (if cal then k_calimg K freq ;;; set_flag CAL false else Ret tt).

  Definition enter_standby : prog unit := k_standby K.

  Definition set_lora_sync_word (sw : N) : prog unit :=
    m <- get_mode ;; k_ensure_ready K m ;;; to_standby ;;; k_sync K sw ;;; set_syncw sw.

  Definition sleep (warm : bool) : prog unit :=
    m <- get_mode ;;
    if rmode_eqb m MSleep then Ret tt else
    k_ensure_ready K m ;;; k_sleep K warm ;;; (if warm then Ret tt else set_flag COLD true) ;;; set_mode MSleep.

  Definition prepare_for_tx (md : mdl) (pk : pktp) (power : Z) (buffer : list N) : prog unit :=
    prepare_modem (md_freq md) ;;; k_mod K md ;;; k_power K power (Some md) true ;;;
    m <- get_mode ;; k_ensure_ready K m ;;; to_standby ;;;
    (if 255 <? N.of_nat (length buffer) then Fail (EPayloadSizeUnexpected (N.of_nat (length buffer))) else Ret tt) ;;;
    k_pkt K {| pk_preamble := pk_preamble pk; pk_implicit := pk_implicit pk; pk_len := N.of_nat (length buffer); pk_crc := pk_crc pk; pk_iq := pk_iq pk |} ;;;
    k_chan K (md_freq md) ;;; k_payload K buffer ;;; set_mode MTx ;;; k_irq K (Some MTx).

  (* the recovery shared by the tx / complete_rx / cad error paths; always ends in an error *)
  Definition recover {A} (err : rerr) : prog A :=
    m <- get_mode ;; k_ensure_ready K m ;;; k_standby K ;;; set_mode MStandby ;;; Fail err.

  (* tx(): loop { wait_for_irq; process_irq } -- fuel bounds the number of interrupts waited for *)
  Fixpoint tx_loop (fuel : nat) : prog unit :=
    match fuel with
    | O => Fail EPanic
    | S k =>
      iv IvIrq ;;; m <- get_mode ;;
      r <- attempt (k_procirq K m true) ;;
      match r with
      | inl (IrqDone _) | inl IrqPreamble => set_mode MStandby
      | inl IrqNoneYet => tx_loop k
      | inr err => recover err
      end
    end.
  Definition tx (fuel : nat) : prog unit :=
    m <- get_mode ;; match m with MTx => k_tx K ;;; tx_loop fuel | _ => Fail EInvalidRadioMode end.

  Definition prepare_for_rx (rm : rxmode) (md : mdl) (pk : pktp) : prog unit :=
    prepare_modem (md_freq md) ;;; k_mod K md ;;; k_pkt K pk ;;; k_chan K (md_freq md) ;;;
    set_mode (MRx rm) ;;; k_irq K (Some (MRx rm)).

  Definition rx_switch_channel (f : N) : prog unit :=
    m <- get_mode ;; match m with MRx rm => k_ensure_ready K m ;;; k_standby K ;;; k_chan K f ;;; k_rx K rm | _ => Fail EInvalidRadioMode end.
  Definition start_rx : prog unit :=
    m <- get_mode ;; match m with MRx rm => k_ensure_ready K m ;;; k_rx K rm | _ => Fail EInvalidRadioMode end.

  Fixpoint complete_rx_loop (fuel : nat) (pk : pktp) (buflen : N) : prog (N * list N * (Z * Z)) :=
    match fuel with
    | O => Fail EPanic
    | S k =>
      m <- get_mode ;;
      r <- attempt (k_procirq K m true) ;;
      match r with
      | inl (IrqDone _) => d <- k_rxpayload K pk buflen ;; s <- k_status K ;; Ret (d, s)
      | inl _ => iv IvIrq ;;; complete_rx_loop k pk buflen
      | inr err => if rmode_eqb m (MRx RxContinuous) then Fail err else recover err
      end
    end.
  Definition complete_rx (fuel : nat) (pk : pktp) (buflen : N) : prog (N * list N * (Z * Z)) :=
    m <- get_mode ;; match m with MRx _ => complete_rx_loop fuel pk buflen | _ => Fail EInvalidRadioMode end.
  Definition rx (fuel : nat) (pk : pktp) (buflen : N) : prog (N * list N * (Z * Z)) := start_rx ;;; complete_rx fuel pk buflen.
  Definition get_rx_result (pk : pktp) (buflen : N) : prog (N * list N * (Z * Z)) :=
    m <- get_mode ;; match m with MRx _ => d <- k_rxpayload K pk buflen ;; s <- k_status K ;; Ret (d, s) | _ => Fail EInvalidRadioMode end.

  Definition listen (f bw : N) : prog unit :=
    prepare_modem f ;;; k_chan K f ;;; md <- of_res (k_create_mod K 2 bw 0 f) ;; k_mod K md ;;; set_mode MListen ;;; k_rx K RxContinuous.

  Definition prepare_for_cad (md : mdl) : prog unit :=
    prepare_modem (md_freq md) ;;; k_mod K md ;;; k_chan K (md_freq md) ;;; set_mode MCad ;;; k_irq K (Some MCad).
  Definition cad (md : mdl) : prog bool :=
    m <- get_mode ;;
    match m with
    | MCad =>
      k_cad K md ;;; iv IvIrq ;;;
      r <- attempt (k_procirq K MCad true) ;;
      match r with
      | inl (IrqDone d) => k_standby K ;;; set_mode MStandby ;;; Ret (match d with Some b => b | None => false end)
      | inr err => recover err
      | inl _ => Fail EPanic                (* unreachable!() *)
      end
    | _ => Fail EInvalidRadioMode
    end.

  Definition process_irq_event : prog irqstate := m <- get_mode ;; k_procirq K m false.
  Definition wait_for_irq : prog unit := iv IvIrq.
End WithKind.

(* ---- the LoRaWAN adapter (lorawan_radio.rs): LorawanRadio's PhyRxTx operations on top of LoRa *)
Definition sat_add16 (a b : N) : N := N.min 65535 (a + b).
(* RxMode::from(Single { ms }, bb): 14 preamble symbols + (ms * 1000 / t_sym_us) as u16; None = u32 overflow of ms * 1000 (panic) *)
Definition adapter_symbols (sf bw ms : N) : option N :=
  if 4294967295 <? ms * 1000 then None
  else Some (sat_add16 14 (Z.to_N (Toa.delay_in_symbols (Z.of_N sf + 5) (Z.of_N bw) (Z.of_N ms)))).

Section Adapter.
  Variable K : kind.
  Definition lw_tx (fuel : nat) (sf bw cr f : N) (pw : Z) (buffer : list N) : prog unit :=
    md <- of_res (k_create_mod K sf bw cr f) ;;
    pk <- of_res (k_create_pkt K 8 false 0 true false md) ;;
    prepare_for_tx K md pk pw buffer ;;; tx K fuel.
  (* setup_rx -> the packet parameters the adapter remembers *)
  Definition lw_setup_rx (sf bw cr f : N) (ms : option N) : prog pktp :=
    md <- of_res (k_create_mod K sf bw cr f) ;;
    pk <- of_res (k_create_pkt K 8 false 255 true true md) ;;
    rm <- (match ms with
           | None => Ret RxContinuous
           | Some v => match adapter_symbols sf bw v with Some n => Ret (RxSingle n) | None => Fail EPanic end end) ;;
    prepare_for_rx K rm md pk ;;; Ret pk.
  Definition lw_low_power : prog unit := sleep K false.
End Adapter.
