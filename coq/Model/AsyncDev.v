(* Model/AsyncDev.v -- lorawan-device/src/async_device/mod.rs (default features: all regions, class-c): the asynchronous device
   front-end Device<R, T, G, N, D> over the MAC model of Model/Mac.v, run against a scripted radio and timer
   (harness/src/asyncdev.rs): every radio call may fail (fault position), receive calls consume a script of events
   (timeout, error, frame, pending), the timer completes at once.  The functions return the new device, the environment
   (with the trace of radio / timer calls) and the outcome the caller sees. *)
From Coq Require Import NArith ZArith List Bool.
From LoraV Require Import Base.Bytes Model.Frame Model.Region Model.Mac Gen.RegionTables.
Import ListNotations.
Open Scope N_scope.

Inductive sev := SvT | SvE | SvX (frame : list N) | SvP.
Inductive atev :=
| ATx (c : tx_config) (frame : list N) | ASetupRx (rf : rf_config) (single : option N) | ARxSingle | ARxCont | ARxContPending | ALowPower
| ATimerReset | ATimerAt (ms : N) | AFault (what : atev) | AScriptErr (continuous : bool).
(* e_fault = Some (k, n): the radio calls number k .. k+n-1 of the line fail (one failing call, or an outage of several calls in a row) *)
Record env := { e_script : list sev; e_calls : N; e_fault : option (N * N); e_trace : list atev (* most recent first *) }.

Definition tr (e : env) (t : atev) : env := {| e_script := e_script e; e_calls := e_calls e; e_fault := e_fault e; e_trace := t :: e_trace e |}.
Definition faulty (e : env) : bool :=
  match e_fault e with Some (k, n) => (k <=? e_calls e) && (e_calls e <? k + n) | None => false end.
(* a radio call: it fails when its number lies in the fault range *)
Definition call (e : env) (what : atev) : env * bool :=
  let n := e_calls e in
  let e1 := {| e_script := e_script e; e_calls := n + 1; e_fault := e_fault e; e_trace := e_trace e |} in
  if faulty e then (tr e1 (AFault what), false) else (tr e1 what, true).
Definition pop (e : env) : option sev * env :=
  match e_script e with
  | [] => (None, e)
  | x :: r => (Some x, {| e_script := r; e_calls := e_calls e; e_fault := e_fault e; e_trace := e_trace e |})
  end.

Inductive aerr := ERadioErr | EMacNotJoined.
(* what the caller of an API future sees: a value, an error, a panic, a loop that does not end (draws exhausted), a future that parks *)
Inductive ares (A : Type) := AOk (a : A) | AErr (e : aerr) | APanic | AHang | AParked.
Arguments AOk {A}. Arguments AErr {A}. Arguments APanic {A}. Arguments AHang {A}. Arguments AParked {A}.

Record adev := { ad_mac : mac; ad_classc : bool; ad_lead : N }.
Definition with_mac (d : adev) (m : mac) : adev := {| ad_mac := m; ad_classc := ad_classc d; ad_lead := ad_lead d |}.

Section ADev.
  Variable enc : list N -> list N -> list N.
  Variable mac_fn : list N -> list N -> list N.

  Definition fcnt_up_of (m : mac) : option N := match m_state m with Joined s => Some (ss_fcnt_up s) | _ => None end.
  Definition hmr (r : response) : option response := match r with RNoUpdate => None | r => Some r end.

  (* window_complete: back to low power, or to the Class C reception *)
  Definition window_complete (d : adev) (e : env) : env * ares unit :=
    if ad_classc d then
      match rxc_config (ad_mac d) with
      | Val rf => let '(e1, ok) := call e (ASetupRx rf None) in (e1, if ok then AOk tt else AErr ERadioErr)
      | Panic => (e, APanic) | OutOfDraws => (e, AHang)
      end
    else let '(e1, ok) := call e ALowPower in (e1, if ok then AOk tt else AErr ERadioErr).

  (* rx_listen: one receive window *)
  Definition rx_listen (d : adev) (e : env) (rf : rf_config) : adev * env * ares (option response) :=
    let '(e1, ok) := call e ARxSingle in
    if negb ok then (d, e1, AErr ERadioErr) else
    let '(ev, e2) := pop e1 in
    match ev with
    | Some SvE => (d, tr e2 (AScriptErr false), AErr ERadioErr)
    | Some (SvX f) =>
      match mac_handle_rx enc mac_fn (ad_mac d) (firstn 256 f) 5 (rf_max_payload rf) false with
      | Val (Some o) =>
        let d1 := with_mac d (mo_mac o) in
        let '(e3, w) := window_complete d1 e2 in
        (d1, e3, match w with AOk _ => AOk (hmr (mo_resp o)) | AErr x => AErr x | APanic => APanic | AHang => AHang | AParked => AParked end)
      | Val None => (d, e2, APanic)               (* not reachable: handle_rx always answers *)
      | Panic => (d, e2, APanic) | OutOfDraws => (d, e2, AHang)
      end
    | _ =>
      let '(e3, w) := window_complete d e2 in
      (d, e3, match w with AOk _ => AOk None | AErr x => AErr x | APanic => APanic | AHang => AHang | AParked => AParked end)
    end.

  (* between_windows: low power and a timer, or (Class C) listening on RXC until the timer fires *)
  Fixpoint rxc_until (fuel : nat) (d : adev) (e : env) (rf : rf_config) (duration : N) (resp : option response)
    : adev * env * ares (option response) :=
    match fuel with
    | O => (d, e, AHang)
    | S k =>
      let '(ev, e1) := pop e in
      match ev with
      | Some (SvX f) =>
        let '(e2, ok) := call e1 ARxCont in
        if negb ok then (d, tr e2 (ATimerAt duration), AOk resp) else         (* errors are ignored: wait for the timer *)
        match mac_handle_rx enc mac_fn (ad_mac d) (firstn 256 f) 5 (rf_max_payload rf) true with
        | Val None => (d, e2, AErr EMacNotJoined)
        | Val (Some o) =>
          let d1 := with_mac d (mo_mac o) in
          rxc_until k d1 e2 rf duration (match hmr (mo_resp o) with Some r => Some r | None => resp end)
        | Panic => (d, e2, APanic) | OutOfDraws => (d, e2, AHang)
        end
      | Some SvE =>
        let '(e2, ok) := call e1 ARxCont in
        let e3 := if ok then tr e2 (AScriptErr true) else e2 in
        (d, tr e3 (ATimerAt duration), AOk resp)
      | _ => (d, tr (tr e1 ARxContPending) (ATimerAt duration), AOk resp)
      end
    end.
  Definition between_windows (d : adev) (e : env) (duration : N) : adev * env * ares (option response) :=
    if ad_classc d then
      match rxc_config (ad_mac d) with
      | Val rf =>
        let '(e1, ok) := call e (ASetupRx rf None) in
        if negb ok then (d, e1, AErr ERadioErr) else rxc_until (S (length (e_script e1))) d e1 rf duration None
      | Panic => (d, e, APanic) | OutOfDraws => (d, e, AHang)
      end
    else
      let '(e1, ok) := call e ALowPower in
      if negb ok then (d, e1, AErr ERadioErr) else (d, tr e1 (ATimerAt duration), AOk None).

  (* rx_downlink: RX1, RX2, then the uplink is concluded *)
  Definition rx_downlink (d : adev) (e : env) (join : bool) (window_delay : N) (rx1 rx2 : rf_config) : adev * env * ares response :=
    let lead := ad_lead d in
    let t1 := get_rx_delay (ad_mac d) join false + window_delay in
    if t1 <? lead then (d, e, APanic) else                  (* u32 subtraction *)
    let '(d1, e1, b1) := between_windows d e (t1 - lead) in
    match b1 with
    | AOk _ =>
      let '(e2, ok) := call e1 (ASetupRx rx1 (Some lead)) in
      if negb ok then (d1, e2, AErr ERadioErr) else
      let '(d2, e3, l1) := rx_listen d1 e2 rx1 in
      match l1 with
      | AOk (Some r) => (d2, e3, AOk r)
      | AOk None =>
        let t2 := get_rx_delay (ad_mac d2) join true + window_delay in
        if t2 <? lead then (d2, e3, APanic) else
        let '(d3, e4, b2) := between_windows d2 e3 (t2 - lead) in
        match b2 with
        | AOk _ =>
          let '(e5, ok2) := call e4 (ASetupRx rx2 (Some lead)) in
          if negb ok2 then (d3, e5, AErr ERadioErr) else
          let '(d4, e6, l2) := rx_listen d3 e5 rx2 in
          match l2 with
          | AOk (Some r) => (d4, e6, AOk r)
          | AOk None => let '(m', r) := mac_rx2_complete (ad_mac d4) in (with_mac d4 m', e6, AOk r)
          | AErr x => (d4, e6, AErr x) | APanic => (d4, e6, APanic) | AHang => (d4, e6, AHang) | AParked => (d4, e6, AParked)
          end
        | AErr x => (d3, e4, AErr x) | APanic => (d3, e4, APanic) | AHang => (d3, e4, AHang) | AParked => (d3, e4, AParked)
        end
      | AErr x => (d2, e3, AErr x) | APanic => (d2, e3, APanic) | AHang => (d2, e3, AHang) | AParked => (d2, e3, AParked)
      end
    | AErr x => (d1, e1, AErr x) | APanic => (d1, e1, APanic) | AHang => (d1, e1, AHang) | AParked => (d1, e1, AParked)
    end.

  (* Device::send; the draws of the channel selection are the caller's RNG *)
  Definition adev_send (d : adev) (e : env) (data : list N) (fport : N) (confirmed : bool) (draws : list N) : adev * env * ares response :=
    match send enc mac_fn (ad_mac d) data fport confirmed draws with
    | Val SendNotJoined => (d, e, AErr EMacNotJoined)
    | Panic => (d, e, APanic) | OutOfDraws => (d, e, AHang)
    | Val (SendOk o) =>
      let d0 := with_mac d (to_mac o) in
      let fcnt0 := fcnt_up_of (to_mac o) in
      let '(e1, ok) := call e (ATx (to_tx o) (to_frame o)) in
      let '(d1, e2, r) := if negb ok then (d0, e1, AErr ERadioErr) else rx_downlink d0 (tr e1 ATimerReset) false 100 (to_rx1 o) (to_rx2 o) in
      match r with
      | AOk resp =>
        match resp with
        | RSessionExpired | RDownlinkReceived _ | RNoAck | RRxComplete => (d1, e2, AOk resp)
        | _ => (d1, e2, APanic)                                  (* SendResponse::from panics *)
        end
      | AErr x =>
        (* whatever failed, the uplink is concluded so that its counter is never used again *)
        if match fcnt_up_of (ad_mac d1), fcnt0 with Some a, Some b => a =? b | None, None => true | _, _ => false end then
          let '(m', r2) := mac_rx2_complete (ad_mac d1) in
          match r2 with RSessionExpired => (with_mac d1 m', e2, AOk RSessionExpired) | _ => (with_mac d1 m', e2, AErr x) end
        else (d1, e2, AErr x)
      | APanic => (d1, e2, APanic) | AHang => (d1, e2, AHang) | AParked => (d1, e2, AParked)
      end
    end.

  (* Device::join (OTAA) *)
  Definition adev_join (d : adev) (e : env) (c : credentials) (draws : list N) : adev * env * ares response :=
    match join_otaa mac_fn (ad_mac d) c draws with
    | Panic => (d, e, APanic) | OutOfDraws => (d, e, AHang)
    | Val o =>
      let d0 := with_mac d (to_mac o) in
      let '(e1, ok) := call e (ATx (to_tx o) (to_frame o)) in
      if negb ok then (d0, e1, AErr ERadioErr) else
      let '(d1, e2, r) := rx_downlink d0 (tr e1 ATimerReset) true 100 (to_rx1 o) (to_rx2 o) in
      match r with
      | AOk RNoJoinAccept | AOk RJoinSuccess => (d1, e2, r)
      | AOk _ => (d1, e2, APanic)                                   (* JoinResponse::from panics *)
      | _ => (d1, e2, r)
      end
    end.

  (* Device::rxc_listen *)
  Fixpoint rxc_listen_loop (fuel : nat) (d : adev) (e : env) (rf : rf_config) : adev * env * ares response :=
    match fuel with
    | O => (d, e, AHang)
    | S k =>
      let '(ev, e1) := pop e in
      match ev with
      | Some (SvX f) =>
        let '(e2, ok) := call e1 ARxCont in
        if negb ok then (d, e2, AErr ERadioErr) else
        match mac_handle_rx enc mac_fn (ad_mac d) (firstn 256 f) 5 (rf_max_payload rf) true with
        | Val None => (d, e2, AErr EMacNotJoined)
        | Val (Some o) =>
          let d1 := with_mac d (mo_mac o) in
          match hmr (mo_resp o) with
          | Some RSessionExpired => (d1, e2, AOk RSessionExpired)
          | Some (RDownlinkReceived f0) => (d1, e2, AOk (RDownlinkReceived f0))
          | Some _ => (d1, e2, APanic)                              (* ListenResponse::from panics *)
          | None => rxc_listen_loop k d1 e2 rf
          end
        | Panic => (d, e2, APanic) | OutOfDraws => (d, e2, AHang)
        end
      | Some SvE =>
        let '(e2, ok) := call e1 ARxCont in
        ((d, if ok then tr e2 (AScriptErr true) else e2), AErr ERadioErr)
      | _ => (d, tr e1 ARxContPending, AParked)
      end
    end.
  Definition adev_listen (d : adev) (e : env) : adev * env * ares response :=
    match rxc_config (ad_mac d) with
    | Val rf => rxc_listen_loop (S (length (e_script e))) d e rf
    | Panic => (d, e, APanic) | OutOfDraws => (d, e, AHang)
    end.
End ADev.
