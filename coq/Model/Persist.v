(* Model/Persist.v -- the serialised form of a Session (serde derive on Session / keys / DevAddr, hand-written Uplink (de)serialiser),
   at the level of JSON VALUES as serde_json presents them to the visitors:
   - derived struct visitors accept an object (unknown keys ignored, duplicate keys rejected, a missing Option field is None, any other
     missing field is an error) or an array of exactly the fields in declaration order;
   - the hand-written Uplink visitor accepts only an object, rejects unknown and duplicate keys, needs all three fields, pending_len <= 15;
   - u8 / u32 accept only integers in range (no floats, no negatives), bool only true/false, [u8; n] only arrays of exactly n u8;
   - the key / address newtypes are transparent. *)
From Coq Require Import ZArith NArith List Bool.
From LoraV Require Import Base.Bytes Gen.RegionTables Model.Region Model.Mac.
Import ListNotations.
Open Scope N_scope.

Inductive jkey := Kuplink | Kconfirmed | Knwkskey | Kappskey | Kdevaddr | Kfcnt_up | Kfcnt_down | Kadr_ack_cnt
                | Kpending_len | Kpending_data | Kother (n : N).
Inductive jv := JNull | JBool (b : bool) | JInt (z : Z) | JOther (* float, string *) | JArr (l : list jv) | JObj (l : list (jkey * jv)).

Definition jkey_eqb (a b : jkey) : bool :=
  match a, b with
  | Kuplink, Kuplink | Kconfirmed, Kconfirmed | Knwkskey, Knwkskey | Kappskey, Kappskey | Kdevaddr, Kdevaddr
  | Kfcnt_up, Kfcnt_up | Kfcnt_down, Kfcnt_down | Kadr_ack_cnt, Kadr_ack_cnt | Kpending_len, Kpending_len | Kpending_data, Kpending_data => true
  | Kother x, Kother y => x =? y
  | _, _ => false
  end.

(* ---- primitives *)
Definition de_uint (bound : Z) (j : jv) : option N :=
  match j with JInt z => if (0 <=? z)%Z && (z <? bound)%Z then Some (Z.to_N z) else None | _ => None end.
Definition de_u8 := de_uint 256.
Definition de_u32 := de_uint 4294967296.
Definition de_bool (j : jv) : option bool := match j with JBool b => Some b | _ => None end.
Fixpoint de_all (f : jv -> option N) (l : list jv) : option (list N) :=
  match l with
  | [] => Some []
  | x :: r => match f x, de_all f r with Some a, Some b => Some (a :: b) | _, _ => None end
  end.
Definition de_bytes (n : nat) (j : jv) : option (list N) :=
  match j with JArr l => if Nat.eqb (length l) n then de_all de_u8 l else None | _ => None end.
Definition de_opt_u32 (j : jv) : option (option N) :=
  match j with JNull => Some None | _ => match de_u32 j with Some v => Some (Some v) | None => None end end.

(* all values bound to key k, in document order *)
Definition lookups (k : jkey) (o : list (jkey * jv)) : list jv := map snd (filter (fun kv => jkey_eqb (fst kv) k) o).
Inductive found := Missing | Dup | One (v : jv).
Definition field (k : jkey) (o : list (jkey * jv)) : found :=
  match lookups k o with [] => Missing | [v] => One v | _ => Dup end.

(* ---- Uplink: hand-written visitor *)
Definition uplink_keys := [Kconfirmed; Kpending_len; Kpending_data].
Definition de_uplink (j : jv) : option (bool * list N) :=
  match j with
  | JObj o =>
    if negb (forallb (fun kv => existsb (jkey_eqb (fst kv)) uplink_keys) o) then None else     (* unknown field *)
    match field Kconfirmed o, field Kpending_len o, field Kpending_data o with
    | One c, One n, One d =>
      match de_bool c, de_u8 n, de_bytes 15 d with
      | Some cb, Some len, Some data => if len <=? 15 then Some (cb, firstn (N.to_nat len) data) else None
      | _, _, _ => None
      end
    | _, _, _ => None
    end
  | _ => None
  end.

(* ---- Session: derived visitor *)
Definition build_session (up : bool * list N) (conf : bool) (nwk app addr : list N) (fu : N) (fd : option N) (cnt : N) : session :=
  {| ss_pending := snd up; ss_owed_ack := fst up; ss_confirmed := conf; ss_nwkskey := nwk; ss_appskey := app;
     ss_devaddr := le_value addr; ss_fcnt_up := fu; ss_fcnt_down := fd; ss_adr_ack_cnt := cnt |}.

Definition de_session_fields (u c n a d fu : jv) (fd : option jv) (cnt : jv) : option session :=
  match de_uplink u, de_bool c, de_bytes 16 n, de_bytes 16 a, de_bytes 4 d, de_u32 fu,
        (match fd with None => Some None | Some j => de_opt_u32 j end), de_u32 cnt with
  | Some up, Some cb, Some nwk, Some app, Some addr, Some fuv, Some fdv, Some cv => Some (build_session up cb nwk app addr fuv fdv cv)
  | _, _, _, _, _, _, _, _ => None
  end.

Definition de_session (j : jv) : option session :=
  match j with
  | JObj o =>
    match field Kuplink o, field Kconfirmed o, field Knwkskey o, field Kappskey o, field Kdevaddr o, field Kfcnt_up o, field Kadr_ack_cnt o with
    | One u, One c, One n, One a, One d, One fu, One cnt =>
      match field Kfcnt_down o with
      | Dup => None
      | Missing => de_session_fields u c n a d fu None cnt
      | One fd => de_session_fields u c n a d fu (Some fd) cnt
      end
    | _, _, _, _, _, _, _ => None
    end
  | JArr [u; c; n; a; d; fu; fd; cnt] => de_session_fields u c n a d fu (Some fd) cnt
  | _ => None
  end.

(* ---- serialisation *)
Definition ser_bytes (l : list N) : jv := JArr (map (fun b => JInt (Z.of_N b)) l).
Definition ser_uplink (owed : bool) (pending : list N) : jv :=
  JObj [(Kconfirmed, JBool owed); (Kpending_len, JInt (Z.of_nat (length pending)));
        (Kpending_data, ser_bytes (pending ++ repeat 0 (15 - length pending)))].
Definition ser_session (s : session) : jv :=
  JObj [(Kuplink, ser_uplink (ss_owed_ack s) (ss_pending s)); (Kconfirmed, JBool (ss_confirmed s));
        (Knwkskey, ser_bytes (ss_nwkskey s)); (Kappskey, ser_bytes (ss_appskey s)); (Kdevaddr, ser_bytes (le_bytes 4 (ss_devaddr s)));
        (Kfcnt_up, JInt (Z.of_N (ss_fcnt_up s)));
        (Kfcnt_down, match ss_fcnt_down s with Some v => JInt (Z.of_N v) | None => JNull end);
        (Kadr_ack_cnt, JInt (Z.of_N (ss_adr_ack_cnt s)))].

(* what a stored session must satisfy to be representable *)
Definition session_wf (s : session) : Prop :=
  (length (ss_pending s) <= 15)%nat /\ bytes_ok (ss_pending s) = true /\
  length (ss_nwkskey s) = 16%nat /\ bytes_ok (ss_nwkskey s) = true /\ length (ss_appskey s) = 16%nat /\ bytes_ok (ss_appskey s) = true /\
  ss_devaddr s < 2 ^ 32 /\ ss_fcnt_up s < 2 ^ 32 /\ ss_adr_ack_cnt s < 2 ^ 32 /\
  match ss_fcnt_down s with Some v => v < 2 ^ 32 | None => True end.

(* persist and restore through the serialised form (the `serde` step of a history) *)
Definition restore (s : session) : option session := de_session (ser_session s).
