(* Model/Frame.v -- transcription of lorawan-encoding/src/{creator.rs, securityhelpers.rs}
   and the data-frame / join parts of parser.rs.  Byte strings are list N.
   The block cipher and the MAC are Section variables (RustCrypto aes/cmac are external):
     enc key block / dec key block : 16 bytes -> 16 bytes,  mac key msg : full 16-byte CMAC.
   Builders return the caller's buffer after the call (frame written at the front, tail untouched)
   together with the length of the returned slice. *)
From LoraV Require Import Base.Bytes Crypto.AES.

Inductive error :=
| TooShort | UnsupportedMajorVersion | UnsupportedMessageType | UnexpectedMessageType | NotADataFrame
| InvalidLength | TruncatedFhdr | MissingKey | InvalidMic | BufferTooShort | FOptsTooLong | FOptsWithFPortZero.

Inductive result (A : Type) := Ok (a : A) | Err (e : error).
Arguments Ok {A} a.
Arguments Err {A} e.

Inductive ftype := UnconfirmedUp | UnconfirmedDown | ConfirmedUp | ConfirmedDown.
Definition is_uplink (t : ftype) : bool :=
  match t with UnconfirmedUp | ConfirmedUp => true | _ => false end.
Definition is_confirmed (t : ftype) : bool :=
  match t with ConfirmedUp | ConfirmedDown => true | _ => false end.
Definition mhdr_of (t : ftype) : N :=
  match t with UnconfirmedUp => 0x40 | UnconfirmedDown => 0x60 | ConfirmedUp => 0x80 | ConfirmedDown => 0xa0 end.

Inductive payload :=
| PNone
| PData (f_port : N) (data : list N)       (* f_port : NonZeroU8 *)
| PMac (cmds : list N).

Record data_frame := {
  df_type : ftype;
  df_addr : N;                 (* DevAddr::from_value *)
  df_adr : bool; df_adr_ack_req : bool; df_ack : bool; df_f_pending : bool;
  df_fcnt : N;                 (* u32 *)
  df_f_opts : list N;
  df_payload : payload }.

Section Codec.
  Variable enc dec : list N -> list N -> list N.
  Variable mac : list N -> list N -> list N.

  (* securityhelpers::generate_helper_block; res[15] set by the caller *)
  Definition helper_block (data : list N) (first fcnt last : N) : list N :=
    [first; 0; 0; 0; 0; N.shiftr (N.land (nthN data 0) 0x20) 5]
    ++ slice data 1 5
    ++ [N.land fcnt 0xff; N.land (N.shiftr fcnt 8) 0xff; N.land (N.shiftr fcnt 16) 0xff; N.land (N.shiftr fcnt 24) 0xff]
    ++ [0; last].

  Definition calculate_data_mic (data key : list N) (fcnt : N) : list N :=
    firstn 4 (mac key (helper_block data 0x49 fcnt (lenN data mod 256) ++ data)).

  Definition calculate_mic (data key : list N) : list N := firstn 4 (mac key data).

  (* encrypt_frm_data_payload: a fresh keystream block at every i & 0x0f == 0, counter byte ctr : u8 from 1 *)
  Fixpoint crypt_blocks (fuel : nat) (key a15 : list N) (ctr : N) (p : list N) : list N :=
    match fuel with
    | O => []
    | S f =>
      match p with
      | [] => []
      | _ => xor_list (firstn 16 p) (enc key (a15 ++ [ctr])) ++ crypt_blocks f key a15 ((ctr + 1) mod 256) (skipn 16 p)
      end
    end.

  Definition encrypt_frm_data_payload (phy : list N) (start stop : nat) (fcnt : N) (key : list N) : list N :=
    let a15 := firstn 15 (helper_block phy 0x01 fcnt 0) in
    let p := slice phy start stop in
    firstn start phy ++ crypt_blocks (length p) key a15 1 p ++ skipn stop phy.

  Definition fctrl_of (d : data_frame) : N :=
    let b := lenN (df_f_opts d) mod 256 in
    let b := if df_adr d then N.lor b 0x80 else b in
    let b := if df_adr_ack_req d && is_uplink (df_type d) then N.lor b 0x40 else b in
    let b := if df_ack d then N.lor b 0x20 else b in
    let b := if df_f_pending d && negb (is_uplink (df_type d)) then N.lor b 0x10 else b in
    b.

  (* DataFrame::build_into *)
  Definition build_data (d : data_frame) (nwk : list N) (app : option (list N)) (buf : list N)
    : result (list N * nat) :=
    if Nat.ltb 15 (length (df_f_opts d)) then Err FOptsTooLong else
    let sel : result (option N * list N * list N) :=
      match df_payload d with
      | PNone => Ok (None, [], nwk)
      | PData port data => match app with None => Err MissingKey | Some k => Ok (Some port, data, k) end
      | PMac cmds => if negb (Nat.eqb (length (df_f_opts d)) 0) then Err FOptsWithFPortZero else Ok (Some 0, cmds, nwk)
      end in
    match sel with
    | Err e => Err e
    | Ok (f_port, frm, enc_key) =>
      let fhdr_len := (7 + length (df_f_opts d))%nat in
      let total := (1 + fhdr_len + (match f_port with Some _ => 1 | None => 0 end) + length frm + 4)%nat in
      if Nat.ltb (length buf) total then Err BufferTooShort else
      let head := [mhdr_of (df_type d)] ++ le_bytes 4 (df_addr d) ++ [fctrl_of d]
                  ++ le_bytes 2 (df_fcnt d mod 65536) ++ df_f_opts d
                  ++ (match f_port with Some p => [p] | None => [] end) in
      let cursor := length head in
      let body := head ++ frm in
      let body := if Nat.eqb (length frm) 0 then body
                  else encrypt_frm_data_payload body cursor (cursor + length frm) (df_fcnt d) enc_key in
      let mic := calculate_data_mic body nwk (df_fcnt d) in
      Ok (body ++ mic ++ skipn total buf, total)
    end.

  (* JoinRequest::build_into; identifiers given as values (from_value = little-endian wire order) *)
  Definition build_join_request (join_eui dev_eui dev_nonce : N) (key buf : list N) : result (list N * nat) :=
    if Nat.ltb (length buf) 23 then Err BufferTooShort else
    let body := [0x00] ++ le_bytes 8 join_eui ++ le_bytes 8 dev_eui ++ le_bytes 2 dev_nonce in
    Ok (body ++ calculate_mic body key ++ skipn 23 buf, 23%nat).

  Inductive cflist := CfDynamic (freqs : list N)        (* five raw 24-bit values *)
                    | CfFixed (mask : list N).          (* nine mask bytes *)

  Fixpoint map_blocks (f : list N -> list N) (fuel : nat) (l : list N) : list N :=
    match fuel with
    | O => l
    | S k => if Nat.ltb (length l) 16 then l else f (firstn 16 l) ++ map_blocks f k (skipn 16 l)
    end.

  (* JoinAccept::build_into *)
  Definition build_join_accept (join_nonce net_id dev_addr dl_settings rx_delay : N) (cfl : option cflist)
             (key buf : list N) : result (list N * nat) :=
    let len := match cfl with Some _ => 33%nat | None => 17%nat end in
    if Nat.ltb (length buf) len then Err BufferTooShort else
    let body := [0x20] ++ le_bytes 3 join_nonce ++ le_bytes 3 net_id ++ le_bytes 4 dev_addr
                ++ [dl_settings; N.land rx_delay 0x0f]
                ++ match cfl with
                   | None => []
                   | Some (CfDynamic freqs) => flat_map (le_bytes 3) freqs ++ [0]
                   | Some (CfFixed mask) => mask ++ repeat 0 6 ++ [1]
                   end in
    let clear := body ++ calculate_mic body key in
    Ok ([nthN clear 0] ++ map_blocks (dec key) 2 (skipn 1 clear) ++ skipn len buf, len).

  (* ------------------------------------------------------------------ parsing *)
  Record layout := {
    l_type : ftype; l_fhdr_len : nat; l_f_port_offset : option nat; l_frm_start : nat; l_frm_end : nat }.

  Definition from_mhdr (mhdr : N) : option ftype :=
    match N.shiftr mhdr 5 with
    | 2 => Some UnconfirmedUp | 3 => Some UnconfirmedDown | 4 => Some ConfirmedUp | 5 => Some ConfirmedDown
    | _ => None
    end.

  (* Layout::validate *)
  Definition validate (bs : list N) : result layout :=
    if Nat.ltb (length bs) 12 then Err TooShort else
    let mhdr := nthN bs 0 in
    if negb (N.land mhdr 3 =? 0) then Err UnsupportedMajorVersion else
    match from_mhdr mhdr with
    | None => Err NotADataFrame
    | Some t =>
      let fhdr_len := (7 + N.to_nat (N.land (nthN bs 5) 0x0f))%nat in
      let mic_offset := (length bs - 4)%nat in
      if Nat.ltb mic_offset (1 + fhdr_len) then Err TruncatedFhdr else
      let after := (1 + fhdr_len)%nat in
      if Nat.ltb after mic_offset
      then Ok {| l_type := t; l_fhdr_len := fhdr_len; l_f_port_offset := Some after;
                 l_frm_start := S after; l_frm_end := mic_offset |}
      else Ok {| l_type := t; l_fhdr_len := fhdr_len; l_f_port_offset := None;
                 l_frm_start := after; l_frm_end := mic_offset |}
    end.

  Definition mic_of (bs : list N) : list N := skipn (length bs - 4) bs.

  (* EncryptedDataPayload::validate_mic (bs already validated) *)
  Definition validate_mic (bs key : list N) (fcnt : N) : bool :=
    list_eqb (mic_of bs) (calculate_data_mic (firstn (length bs - 4) bs) key fcnt).

  (* DecryptedDataPayload::decrypt_in_place : result and the caller's buffer afterwards *)
  Definition decrypt_in_place (bs : list N) (nwk app : option (list N)) (fcnt : N) : result layout * list N :=
    match validate bs with
    | Err e => (Err e, bs)
    | Ok l =>
      if Nat.ltb (l_frm_start l) (l_frm_end l) then
        let uses_app := match l_f_port_offset l with Some off => negb (nthN bs off =? 0) | None => false end in
        match (if uses_app then app else nwk) with
        | None => (Err MissingKey, bs)
        | Some key =>
          let wire := nthN bs 6 + 256 * nthN bs 7 in
          let full := N.lor (N.shiftl (N.shiftr fcnt 16) 16) wire in
          (Ok l, encrypt_frm_data_payload bs (l_frm_start l) (l_frm_end l) full key)
        end
      else (Ok l, bs)
    end.

  Definition check_mic_and_decrypt_in_place (bs nwk : list N) (app : option (list N)) (fcnt : N)
    : result layout * list N :=
    match validate bs with
    | Err e => (Err e, bs)
    | Ok _ => if validate_mic bs nwk fcnt then decrypt_in_place bs (Some nwk) app fcnt else (Err InvalidMic, bs)
    end.

  (* view accessors over a (validated) buffer *)
  Definition v_dev_addr (bs : list N) : N := le_value (slice bs 1 5).
  Definition v_fctrl (bs : list N) : N := nthN bs 5.
  Definition v_fcnt (bs : list N) : N := nthN bs 6 + 256 * nthN bs 7.
  Definition v_f_opts (bs : list N) (l : layout) : list N := slice bs 8 (1 + l_fhdr_len l).
  Definition v_f_port (bs : list N) (l : layout) : option N :=
    match l_f_port_offset l with Some off => Some (nthN bs off) | None => None end.
  Definition v_frm (bs : list N) (l : layout) : list N := slice bs (l_frm_start l) (l_frm_end l).

  (* FCtrl accessors *)
  Definition fc_adr (b : N) : bool := negb (N.land b 0x80 =? 0).
  Definition fc_adr_ack_req (b : N) (uplink : bool) : bool := uplink && negb (N.land b 0x40 =? 0).
  Definition fc_ack (b : N) : bool := negb (N.land b 0x20 =? 0).
  Definition fc_f_pending (b : N) (uplink : bool) : bool := negb uplink && negb (N.land b 0x10 =? 0).
  Definition fc_f_opts_len (b : N) : N := N.land b 0x0f.

  (* join frames *)
  Definition check_mhdr (bs : list N) (mtype : N) : result unit :=
    match bs with
    | [] => Err TooShort
    | mhdr :: _ =>
      if negb (N.land mhdr 3 =? 0) then Err UnsupportedMajorVersion
      else if negb (N.shiftr mhdr 5 =? mtype) then Err UnexpectedMessageType else Ok tt
    end.

  Definition parse_join_request (bs : list N) : result unit :=
    match check_mhdr bs 0 with
    | Err e => Err e
    | Ok _ => if Nat.eqb (length bs) 23 then Ok tt else Err InvalidLength
    end.
  Definition jr_validate_mic (bs key : list N) : bool :=
    list_eqb (mic_of bs) (calculate_mic (firstn 19 bs) key).

  Definition validate_join_accept_structure (bs : list N) : result unit :=
    match check_mhdr bs 1 with
    | Err e => Err e
    | Ok _ => if Nat.eqb (length bs) 17 || Nat.eqb (length bs) 33 then Ok tt else Err InvalidLength
    end.

  (* DecryptedJoinAcceptPayload::decrypt_in_place / check_mic_and_decrypt_in_place *)
  Definition ja_decrypt_in_place (bs key : list N) : result unit * list N :=
    match validate_join_accept_structure bs with
    | Err e => (Err e, bs)
    | Ok _ => (Ok tt, [nthN bs 0] ++ map_blocks (enc key) 2 (skipn 1 bs))
    end.
  Definition ja_validate_mic (clear key : list N) : bool :=
    list_eqb (mic_of clear) (calculate_mic (firstn (length clear - 4) clear) key).
  Definition ja_check_mic_and_decrypt (bs key : list N) : result unit * list N :=
    match ja_decrypt_in_place bs key with
    | (Err e, b) => (Err e, b)
    | (Ok _, clear) => if ja_validate_mic clear key then (Ok tt, clear) else (Err InvalidMic, clear)
    end.

  Definition ja_join_nonce (c : list N) : N := le_value (slice c 1 4).
  Definition ja_net_id (c : list N) : N := le_value (slice c 4 7).
  Definition ja_dev_addr (c : list N) : N := le_value (slice c 7 11).
  Definition ja_dl_settings (c : list N) : N := nthN c 11.
  Definition ja_rx_delay (c : list N) : N := N.land (nthN c 12) 0x0f.
  Definition ja_c_f_list (c : list N) : option cflist :=
    if Nat.eqb (length c) 17 then None else
    let cf := slice c 13 29 in
    match nthN cf 15 with
    | 0 => Some (CfDynamic [le_value (slice cf 0 3); le_value (slice cf 3 6); le_value (slice cf 6 9);
                            le_value (slice cf 9 12); le_value (slice cf 12 15)])
    | 1 => Some (CfFixed (firstn 9 cf))
    | _ => None
    end.

  (* derive_session_key *)
  Definition derive_session_key (c : list N) (first dev_nonce : N) (key : list N) : list N :=
    enc key ([first] ++ slice c 1 4 ++ slice c 4 7 ++ le_bytes 2 dev_nonce ++ repeat 0 7).

  (* parser::parse classification: 0 JoinRequest, 1 JoinAccept, 2 Data *)
  Definition parse_phy (bs : list N) : result N :=
    match bs with
    | [] => Err TooShort
    | mhdr :: _ =>
      if negb (N.land mhdr 3 =? 0) then Err UnsupportedMajorVersion else
      match N.shiftr mhdr 5 with
      | 0 => match parse_join_request bs with Ok _ => Ok 0 | Err e => Err e end
      | 1 => match validate_join_accept_structure bs with Ok _ => Ok 1 | Err e => Err e end
      | 2 | 3 | 4 | 5 => match validate bs with Ok _ => Ok 2 | Err e => Err e end
      | _ => Err UnsupportedMessageType
      end
    end.
End Codec.
