(* Model/MacFields.v -- field setters of the MAC-command creators (maccommandcreator.rs, certification.rs,
   multicast/*.rs) and field accessors of the payload views (maccommands.rs, ...), byte for byte:
   each setter is the statement sequence of the Rust method on the creator's data array (data[0] = CID).
   Creator ids (ours): 1 LinkCheckAns 2 LinkADRReq 3 DutyCycleReq 4 RXParamSetupReq 5 NewChannelReq 6 RXTimingSetupReq
   7 TXParamSetupReq 8 DlChannelReq 9 DeviceTimeAns 10 LinkADRAns 11 RXParamSetupAns 12 DevStatusAns 13 NewChannelAns
   14 DlChannelAns 15 RxAppCntAns 16 DutVersionsAns 17 EchoIncPayloadAns 18 PackageVersionAns 19 McGroupStatusReq
   20 McGroupSetupReq 21 McGroupSetupAns 22 McGroupDeleteReq 23 McGroupDeleteAns 24 McGroupStatusAns
   31 DevStatusReq 32 LinkCheckReq 33 DutyCycleAns 34 RXTimingSetupAns 35 TXParamSetupAns 36 DeviceTimeReq *)
From Coq Require Import ZArith.
From LoraV Require Import Base.Bytes.
Open Scope N_scope.

Fixpoint upd (l : list N) (i : nat) (f : N -> N) : list N :=
  match l, i with
  | [], _ => []
  | x :: r, O => f x :: r
  | x :: r, S k => x :: upd r k f
  end.
Fixpoint write_at (l : list N) (i : nat) (bs : list N) : list N :=
  match bs with
  | [] => l
  | b :: bs' => write_at (upd l i (fun _ => b)) (S i) bs'
  end.

Definition assign (i : nat) (v : N) (d : list N) := upd d i (fun _ => v mod 256).
Definition and_ (i : nat) (m : N) (d : list N) := upd d i (fun b => N.land b m).
Definition or_ (i : nat) (v : N) (d : list N) := upd d i (fun b => N.lor b (v mod 256)).
Definition bit (b : N) : N := if b =? 0 then 0 else 1.

(* (cid, payload length) of each creator; variable ones carry their buffer size *)
Definition creator_shape (c : N) : option (N * nat) :=
  match c with
  | 1 => Some (0x02, 2%nat) | 2 => Some (0x03, 4%nat) | 3 => Some (0x04, 1%nat) | 4 => Some (0x05, 4%nat)
  | 5 => Some (0x07, 5%nat) | 6 => Some (0x08, 1%nat) | 7 => Some (0x09, 1%nat) | 8 => Some (0x0A, 4%nat)
  | 9 => Some (0x0D, 5%nat) | 10 => Some (0x03, 1%nat) | 11 => Some (0x05, 1%nat) | 12 => Some (0x06, 2%nat)
  | 13 => Some (0x07, 1%nat) | 14 => Some (0x0A, 1%nat) | 15 => Some (0x09, 2%nat) | 16 => Some (0x7f, 12%nat)
  | 17 => Some (0x08, 241%nat) | 18 => Some (0x00, 2%nat) | 19 => Some (0x01, 1%nat) | 20 => Some (0x02, 29%nat)
  | 21 => Some (0x02, 1%nat) | 22 => Some (0x03, 1%nat) | 23 => Some (0x03, 1%nat) | 24 => Some (0x01, 21%nat)
  | 31 => Some (0x06, 0%nat) | 32 => Some (0x02, 0%nat) | 33 => Some (0x04, 0%nat) | 34 => Some (0x08, 0%nat)
  | 35 => Some (0x09, 0%nat) | 36 => Some (0x0D, 0%nat)
  | _ => None
  end.

(* creator state: data array and, for the two variable-length creators, payload_len / items *)
Record creator := { cr_data : list N; cr_n : nat }.
Definition cr_new (c : N) : option creator :=
  match creator_shape c with
  | Some (cid, len) => Some {| cr_data := cid :: repeat 0 len; cr_n := 0 |}
  | None => None
  end.
Definition with_data (cr : creator) (d : list N) : creator := {| cr_data := d; cr_n := cr_n cr |}.

Inductive setres := SOk (c : creator) | SErr | SPanic.

(* one setter call: command id, field id, numeric argument v (u8/u16/u32/i8 as Z for the signed one),
   second numeric argument w (only push), raw byte argument *)
Definition mc_set (c f : N) (v : Z) (w : N) (raw : list N) (cr : creator) : setres :=
  let d := cr_data cr in
  let n := Z.to_N v in
  let ok d' := SOk (with_data cr d') in
  match c, f with
  | 1, 0 => ok (assign 1 n d) | 1, 1 => ok (assign 2 n d)
  | 2, 0 => if 0x0f <? n then SErr else ok (or_ 1 (N.shiftl n 4) (and_ 1 0x0f d))
  | 2, 1 => if 0x0f <? n then SErr else ok (or_ 1 (N.land n 0x0f) (and_ 1 0xf0 d))
  | 2, 2 => ok (write_at d 2 (le_bytes 2 n))
  | 2, 3 => ok (assign 4 n d)
  | 3, 0 => if 0x0f <? n then SErr else ok (or_ 1 n (and_ 1 0xf0 d))
  | 4, 0 => ok (assign 1 n d) | 4, 1 => ok (write_at d 2 (le_bytes 3 n))
  | 5, 0 => ok (assign 1 n d) | 5, 1 => ok (write_at d 2 (le_bytes 3 n)) | 5, 2 => ok (assign 5 n d)
  | 6, 0 => if 0x0f <? n then SErr else ok (or_ 1 n (and_ 1 0xf0 d))
  | 7, 0 => ok (or_ 1 (N.shiftl (bit n) 5) (and_ 1 0xdf d))
  | 7, 1 => ok (or_ 1 (N.shiftl (bit n) 4) (and_ 1 0xef d))
  | 7, 2 => if 0x0f <? n then SErr else ok (or_ 1 n (and_ 1 0xf0 d))
  | 8, 0 => ok (assign 1 n d) | 8, 1 => ok (write_at d 2 (le_bytes 3 n))
  | 9, 0 => ok (write_at d 1 (le_bytes 4 n))
  | 9, 1 => if 1000000000 <? n then SErr else ok (assign 5 (n / 3906250) d)
  | 10, 0 | 11, 0 | 13, 0 | 14, 0 => ok (or_ 1 (bit n) (and_ 1 0xfe d))
  | 10, 1 | 11, 1 | 13, 1 | 14, 1 => ok (or_ 1 (N.shiftl (bit n) 1) (and_ 1 0xfd d))
  | 10, 2 | 11, 2 => ok (or_ 1 (N.shiftl (bit n) 2) (and_ 1 0xfb d))
  | 12, 0 => ok (assign 1 n d)
  | 12, 1 => if ((v <? -32) || (31 <? v))%Z then SErr
             else ok (assign 2 (N.shiftr (Z.to_N ((v * 4) mod 256)) 2) d)      (* ((margin << 2) as u8) >> 2 *)
  | 15, 0 => ok (write_at d 1 (le_bytes 2 n))
  | 16, 0 => if Nat.eqb (length raw) 12 then ok (write_at d 1 raw) else SPanic
  | 17, 0 => if Nat.ltb 241 (length raw) then SPanic
             else SOk {| cr_data := write_at d 1 (map (fun b => (b + 1) mod 256) raw); cr_n := length raw |}
  | 18, 0 => ok (assign 1 n d) | 18, 1 => ok (assign 2 n d)
  | 19, 0 => ok (or_ 1 (N.land n 0x0f) (and_ 1 0xf0 d))
  | 19, 1 => ok (or_ 1 (N.shiftl 1 (N.land n 3)) d)
  | 20, 0 => ok (assign 1 (N.land n 3) d) | 20, 1 => ok (write_at d 2 (le_bytes 4 n))
  | 20, 2 => ok (write_at d 22 (le_bytes 4 n)) | 20, 3 => ok (write_at d 26 (le_bytes 4 n))
  | 21, 0 | 22, 0 | 23, 0 => ok (or_ 1 (N.land n 3) (and_ 1 0xfc d))
  | 23, 1 => if n =? 0 then ok (and_ 1 0xfb d) else ok (or_ 1 4 d)
  | 24, 0 => ok (or_ 1 (N.shiftl (N.land n 7) 4) (and_ 1 0x0f d))
  | 24, 1 => (* push(group_id = n, mc_addr = w) *)
    if (4 <=? n) || Nat.leb 4 (cr_n cr) then SErr            (* group_id >= MAX_GROUPS or buffer full *)
    else let off := (2 + cr_n cr * 5)%nat in
         SOk {| cr_data := write_at (assign off n (or_ 1 (N.shiftl 1 n) d)) (S off) (le_bytes 4 w);
                cr_n := S (cr_n cr) |}
  | _, _ => SPanic
  end.

Definition mc_build (c : N) (cr : creator) : list N :=
  match c with
  | 17 => firstn (S (cr_n cr)) (cr_data cr)
  | 24 => firstn (2 + cr_n cr * 5) (cr_data cr)
  | _ => cr_data cr
  end.

(* --------------------------------------------------------------------------- accessors *)
Definition signed6 (b : N) : Z :=
  let x := N.land b 0x3f in if 32 <=? x then (Z.of_N x - 64)%Z else Z.of_N x.
Definition zn (n : N) : Z := Z.of_N n.
Definition max_eirp_tab : list N := [8; 10; 12; 13; 14; 16; 18; 20; 21; 24; 26; 27; 29; 30; 33; 36].

(* accessor values of a parsed command of the given set, in the order the harness prints them.
   sets: 0 dl_mac 1 ul_mac 2 dl_dut 3 ul_dut 4 dl_mc 5 ul_mc ; p = payload bytes *)
Definition mc_get (set cid : N) (p : list N) : list Z :=
  let b i := nthN p i in
  let ack i := zn (bit (N.land (b 0%nat) (N.shiftl 1 i))) in
  match set, cid with
  | 0, 0x02 => [zn (b 0%nat); zn (b 1%nat)]
  | 0, 0x03 => [zn (N.shiftr (b 0%nat) 4); zn (N.land (b 0%nat) 0x0f); zn (le_value (slice p 1 3)); zn (b 3%nat);
                zn (N.land (N.shiftr (b 3%nat) 4) 7); zn (N.land (b 3%nat) 0x0f)]
  | 0, 0x04 => [zn (N.land (b 0%nat) 0x0f)]
  | 0, 0x05 => [zn (b 0%nat); zn (N.land (N.shiftr (b 0%nat) 4) 7); zn (N.land (b 0%nat) 0x0f); zn (le_value (slice p 1 4) * 100)]
  | 0, 0x07 => let r := b 4%nat in
               let mx := N.shiftr r 4 in let mn := N.land r 0x0f in
               [zn (b 0%nat); zn (le_value (slice p 1 4) * 100)] ++
               (if mx <? mn then [(-1)%Z; (-1)%Z] else [zn mn; zn mx])
  | 0, 0x08 => [zn (N.land (b 0%nat) 0x0f)]
  | 0, 0x09 => [zn (bit (N.land (b 0%nat) 32)); zn (bit (N.land (b 0%nat) 16)); zn (nth (N.to_nat (N.land (b 0%nat) 15)) max_eirp_tab 0)]
  | 0, 0x0A => [zn (b 0%nat); zn (le_value (slice p 1 4) * 100)]
  | 0, 0x0D => [zn (be_value (slice p 0 4)); zn (b 4%nat * 3906250)]
  | 1, 0x03 | 1, 0x05 => [ack 0; ack 1; ack 2; zn (if b 0%nat =? 7 then 1 else 0)]
  | 1, 0x06 => [zn (b 0%nat); signed6 (b 1%nat)]
  | 1, 0x07 => [ack 0; ack 1; zn (if b 0%nat =? 3 then 1 else 0)]
  | 1, 0x0A => [ack 0; ack 1; zn (if N.land (b 0%nat) 3 =? 3 then 1 else 0)]
  | 2, 0x04 => [match b 0%nat with 0%N => 0%Z | 1%N => 1%Z | _ => (-1)%Z end]
  | 2, 0x06 => [match b 0%nat with
                | 0%N => (-2)%Z | 1%N => 5%Z | 2%N => 10%Z | 3%N => 20%Z | 4%N => 30%Z | 5%N => 40%Z | 6%N => 50%Z
                | 7%N => 60%Z | 8%N => 120%Z | 9%N => 240%Z | 10%N => 480%Z
                | _ => (-1)%Z end]
  | 2, 0x07 => [match b 0%nat with 0%N => (-2)%Z | 1%N => 0%Z | 2%N => 1%Z | _ => (-1)%Z end]
  | 2, 0x08 | 3, 0x08 => map zn p
  | 4, 0x01 => [zn (N.land (b 0%nat) 0x0f)]
  | 4, 0x02 => [zn (N.land (b 0%nat) 3); zn (le_value (slice p 1 5)); zn (le_value (slice p 21 25)); zn (le_value (slice p 25 29))]
  | 4, 0x03 => [zn (N.land (b 0%nat) 3)]
  | 5, 0x00 => [zn (b 0%nat); zn (b 1%nat)]
  | 5, 0x01 => [zn (N.land (b 0%nat) 0x0f); zn (N.land (N.shiftr (b 0%nat) 4) 7)]
               ++ flat_map (fun k => [zn (nthN p (1 + 5 * k)); zn (le_value (slice p (2 + 5 * k) (6 + 5 * k)))])
                           (seq 0 (Nat.div (length p - 1) 5))
  | 5, 0x02 => [zn (N.land (b 0%nat) 3)]
  | 5, 0x03 => [zn (N.land (b 0%nat) 3); zn (bit (N.land (b 0%nat) 4))]
  | _, _ => []
  end.

(* identifier text forms (parser.rs wire_value_newtype Display/FromStr, string.rs): MSB-first lower-case hex *)
Definition hex_digit (d : N) : N := if d <? 10 then 48 + d else 87 + d.       (* ascii *)
Definition hex_of_byte (b : N) : list N := [hex_digit (b / 16); hex_digit (b mod 16)].
Definition to_hex_msb (nbytes : nat) (v : N) : list N := flat_map hex_of_byte (be_bytes nbytes v).
Definition digit_val (c : N) : option N :=
  if (48 <=? c) && (c <=? 57) then Some (c - 48)
  else if (97 <=? c) && (c <=? 102) then Some (c - 87)
  else if (65 <=? c) && (c <=? 70) then Some (c - 55)
  else None.
Fixpoint parse_hex (acc : N) (s : list N) : option N :=
  match s with
  | [] => Some acc
  | c :: r => match digit_val c with Some d => parse_hex (acc * 16 + d) r | None => None end
  end.
(* <int>::from_str_radix(s, 16) behind the length check: a leading '+' is accepted *)
Definition from_hex_msb (nbytes : nat) (s : list N) : option N :=
  if Nat.eqb (length s) (2 * nbytes) then
    match s with
    | c :: (_ :: _) as tl => if c =? 43 then parse_hex 0 tl else parse_hex 0 s
    | _ => parse_hex 0 s
    end
  else None.
