(* Model/Region.v -- lorawan-device/src/region: regional parameters (from the GENERATED Gen/RegionTables.v),
   the per-region get_rx_datarate functions, the dynamic channel plan (EU868, EU433, IN865, AS923-1..4) and the
   fixed channel plan (US915, AU915) incl. JoinChannels / AvailableChannels.  Random numbers are a list of u32
   draws owned by the caller; a retry loop that runs out of draws yields OutOfDraws (the Rust would keep spinning). *)
From Coq Require Import ZArith.
From LoraV Require Import Base.Bytes Gen.RegionTables.
Open Scope N_scope.

Inductive outcome (A : Type) := Val (a : A) | Panic | OutOfDraws.
Arguments Val {A} a.
Arguments Panic {A}.
Arguments OutOfDraws {A}.

Definition rid := N.      (* 0 AS923_1 .. 8 US915 as in Gen/RegionTables.v *)

Definition rtab (r : rid) := nth (N.to_nat r) region_tables ([], (0, 0, 0, 0, 0, 0, 0, 0), [], [], []).
Definition r_datarates (r : rid) : list (option (N * N * N)) := let '(d, _, _, _, _) := rtab r in d.
Definition r_consts (r : rid) := let '(_, c, _, _, _) := rtab r in c.
Definition r_rx2_freq r := let '(a, _, _, _, _, _, _, _) := r_consts r in a.
Definition r_max_rx1_off r := let '(_, a, _, _, _, _, _, _) := r_consts r in a.
Definition r_freq_lo r := let '(_, _, a, _, _, _, _, _) := r_consts r in a.
Definition r_freq_hi r := let '(_, _, _, a, _, _, _, _) := r_consts r in a.
Definition r_max_eirp r := let '(_, _, _, _, a, _, _, _) := r_consts r in a.
Definition r_pw_max r := let '(_, _, _, _, _, a, _, _) := r_consts r in a.
Definition r_pw_cap r := let '(_, _, _, _, _, _, a, _) := r_consts r in a.
Definition r_join_dr (r : rid) (wide : bool) : N := let '(a, b) := nth (N.to_nat r) join_dr_table (0, 0) in if wide then b else a.
Definition r_num_join r := let '(_, _, _, _, _, _, _, a) := r_consts r in a.
Definition r_join_freqs (r : rid) : list N := let '(_, _, j, _, _) := rtab r in j.
Definition r_uplink (r : rid) : list N := let '(_, _, _, u, _) := rtab r in u.
Definition r_downlink (r : rid) : list N := let '(_, _, _, _, d) := rtab r in d.
Definition r_fixed (r : rid) : bool := (r =? 4) || (r =? 8).

(* get_datarate(dr): table lookup, None outside the 15-entry table *)
Definition get_datarate (r : rid) (dr : N) : option (N * N * N) :=
  match nth_error (r_datarates r) (N.to_nat dr) with Some (Some d) => Some d | _ => None end.
(* R::datarates()[dr as usize]: indexing (panics for dr = 15), then the entry *)
Definition datarate_index (r : rid) (dr : N) : outcome (option (N * N * N)) :=
  match nth_error (r_datarates r) (N.to_nat dr) with Some d => Val d | None => Panic end.

Definition frequency_valid (r : rid) (f : N) : bool := (r_freq_lo r <=? f) && (f <=? r_freq_hi r).
Definition rx1_dr_offset_validate (r : rid) (v : N) : option N := if v <=? r_max_rx1_off r then Some v else None.
(* tx_power_adjust *)
Definition tx_power_adjust (r : rid) (pw : N) : option N :=
  if pw <=? r_pw_max r then
    let p := r_max_eirp r - 2 * pw in
    Some (if r_pw_cap r =? 0 then p else N.min (r_pw_cap r) p)
  else None.

(* DR::offset_sub: saturating subtraction, then DR::from (& 0xf) *)
Definition offset_sub (dr off : N) : N := N.land (dr - off) 0x0f.

(* per-region get_rx_datarate(tx_dr, rx1_dr_offset, window): window 1 or 2.  u8 arithmetic: Panic on overflow / underflow *)
Definition get_rx_datarate (r : rid) (tx_dr off : N) (window2 : bool) : outcome N :=
  match r with
  | 5 => (* EU868 *)
    if window2 then Val 0 else
    let dr := if tx_dr <=? 7 then tx_dr else
              match tx_dr with 8 => 1 | 9 => 2 | 10 => 1 | 11 => 2 | _ => 0 end in
    Val (offset_sub dr off)
  | 6 => (* EU433 *)
    if window2 then Val 0 else
    Val (offset_sub (if tx_dr <=? 7 then tx_dr else 0) off)
  | 7 => (* IN865 *)
    if window2 then Val 2 else
    if (tx_dr <=? 5) || (tx_dr =? 7) then
      if off <? 6 then Val (offset_sub tx_dr off)
      else if tx_dr =? 5 then Val (if off =? 6 then 5 else 7)
      else if tx_dr =? 7 then Val 7
      else if 255 <? tx_dr + off then Panic else Val (N.land (N.min (tx_dr + off - 5) 7) 0x0f)
    else Val 0
  | 4 => (* AU915 *)
    if window2 then Val 8 else
    if tx_dr <=? 6 then
      if 8 + tx_dr <? off then Panic else Val (N.land (N.max 8 (N.min 13 (8 + tx_dr - off))) 0x0f)
    else if tx_dr =? 7 then Val (if off =? 0 then 9 else 8)
    else Val 8
  | 8 => (* US915 *)
    if window2 then Val 8 else
    if tx_dr <=? 4 then
      if 10 + tx_dr <? off then Panic else Val (N.land (N.max 8 (N.min 13 (10 + tx_dr - off))) 0x0f)
    else if tx_dr <=? 6 then
      if 5 + tx_dr <? off then Panic else Val (N.land (N.max 8 (N.min 11 (5 + tx_dr - off))) 0x0f)
    else Val 8
  | _ => (* AS923-1..4 *)
    if window2 then Val 2 else
    if tx_dr <=? 7 then
      if off <? 6 then Val (offset_sub tx_dr off)
      else if 255 <? tx_dr + off then Panic else Val (N.land (N.min (tx_dr + off - 5) 7) 0x0f)
    else Val 0
  end.

(* ------------------------------------------------------------------ channel masks: ChannelMask<9> = 9 bytes *)
Definition mask := list N.
Definition mask_default : mask := repeat 0xFF 9.
Fixpoint set_nth (l : list N) (i : nat) (v : N) : list N :=
  match l, i with
  | [], _ => []
  | _ :: r, O => v :: r
  | x :: r, S k => x :: set_nth r k v
  end.
Definition set_bank (m : mask) (i : nat) (v : N) : outcome mask :=
  if Nat.ltb i (length m) then Val (set_nth m i (v mod 256)) else Panic.
(* is_enabled(index): Err(InvalidIndex) beyond 71; callers .unwrap() *)
Definition is_enabled (m : mask) (ch : N) : outcome bool :=
  if 71 <? ch then Panic else Val (N.testbit (nthN m (N.to_nat (ch / 8))) (ch mod 8)).
Definition mask_bit (m : mask) (ch : N) : bool := N.testbit (nthN m (N.to_nat (ch / 8))) (ch mod 8).
(* set_channel(channel, set): indexes self.0[channel >> 3] (panics beyond the array) *)
Definition set_channel (m : mask) (ch : N) (on : bool) : outcome mask :=
  let i := N.to_nat (ch / 8) in
  if Nat.ltb i (length m) then
    let b := nthN m i in
    let flag := N.shiftl 1 (ch mod 8) in
    Val (set_nth m i (if on then N.lor b flag else N.land b (N.lxor 255 flag)))
  else Panic.

(* ------------------------------------------------------------------ dynamic channel plan *)
Record channel := { ch_freq : N; ch_drs : N; ch_dl : option N }.
Record dyn_plan := { dp_channels : list (option channel); dp_mask : mask }.

Definition rx1_frequency (c : channel) : N := match ch_dl c with Some f => f | None => ch_freq c end.

Definition dyn_new (r : rid) : dyn_plan :=
  let js := map (fun f => Some {| ch_freq := f; ch_drs := (if r <? 4 then 0x52 else 0x50); ch_dl := None |}) (r_join_freqs r) in
  {| dp_channels := js ++ repeat None (16 - length js); dp_mask := mask_default |}.

Fixpoint rposition_some (l : list (option channel)) (i : nat) (acc : option nat) : option nat :=
  match l with
  | [] => acc
  | Some _ :: r => rposition_some r (S i) (Some i)
  | None :: r => rposition_some r (S i) acc
  end.

(* get_random_in_range: consumes one draw *)
Definition dyn_random_in_range (p : dyn_plan) (draw : N) : outcome N :=
  match rposition_some (dp_channels p) 0 None with
  | None => Panic
  | Some hi =>
    let range := S hi in
    let cm := if Nat.ltb 16 range then 31 else if Nat.ltb 8 range then 15 else 7 in
    Val (N.land draw cm)
  end.

Record tx_channel := { tc_dr : N; tc_datarate : N * N * N; tc_freq : N; tc_rx1_freq : N; tc_index : N }.

(* Frame::Join: draw & 3 until < NUM_JOIN_CHANNELS *)
Fixpoint dyn_select_join (r : rid) (p : dyn_plan) (datarate : N) (draws : list N) : outcome (tx_channel * list N) :=
  match draws with
  | [] => OutOfDraws
  | d :: rest =>
    let idx := N.land d 3 in
    if r_num_join r <=? idx then dyn_select_join r p datarate rest
    else match nth (N.to_nat idx) (dp_channels p) None with
         | None => Panic                                             (* self.channels[index].unwrap() *)
         | Some c =>
           match datarate_index r datarate with
           | Val (Some dt) => Val ({| tc_dr := datarate; tc_datarate := dt; tc_freq := ch_freq c;
                                      tc_rx1_freq := rx1_frequency c; tc_index := idx |}, rest)
           | Val None => Panic | Panic => Panic | OutOfDraws => OutOfDraws
           end
         end
  end.

(* Frame::Data: keep drawing until an enabled, defined channel comes up *)
Fixpoint dyn_select_data (r : rid) (p : dyn_plan) (datarate : N) (draws : list N) : outcome (tx_channel * list N) :=
  match draws with
  | [] => OutOfDraws
  | d :: rest =>
    match dyn_random_in_range p d with
    | Val chn =>
      match is_enabled (dp_mask p) chn with
      | Val true =>
        match nth (N.to_nat chn) (dp_channels p) None with
        | Some c =>
          match datarate_index r datarate with
          | Val (Some dt) => Val ({| tc_dr := datarate; tc_datarate := dt; tc_freq := ch_freq c;
                                     tc_rx1_freq := rx1_frequency c; tc_index := chn |}, rest)
          | Val None => Panic | Panic => Panic | OutOfDraws => OutOfDraws
          end
        | None => dyn_select_data r p datarate rest
        end
      | Val false => dyn_select_data r p datarate rest
      | Panic => Panic | OutOfDraws => OutOfDraws
      end
    | Panic => Panic | OutOfDraws => OutOfDraws
    end
  end.

Fixpoint set_nth_opt (l : list (option channel)) (i : nat) (v : option channel) : list (option channel) :=
  match l, i with
  | [], _ => []
  | _ :: r, O => v :: r
  | x :: r, S k => x :: set_nth_opt r k v
  end.

(* process_join_accept, CFList type 0: frequencies given in Hz (raw * 100) *)
Fixpoint dyn_cflist (r : rid) (chs : list (option channel)) (idx : nat) (freqs : list N) : outcome (list (option channel)) :=
  match freqs with
  | [] => Val chs
  | f :: rest =>
    if Nat.ltb idx (length chs) then
      let chs' := if f =? 0 then set_nth_opt chs idx None
                  else if frequency_valid r f then set_nth_opt chs idx (Some {| ch_freq := f; ch_drs := 0x50; ch_dl := None |})
                  else chs in
      dyn_cflist r chs' (S idx) rest
    else Panic
  end.

(* ChMaskCntl of the 16-channel plans (RP002): 0 = channels 0..15, 6 = all channels on, everything else RFU (rejected) *)
Definition dyn_mask_update (m : mask) (ctl : N) (lo hi : N) : outcome (option mask) :=
  if ctl =? 0 then
    match set_bank m 0 lo with
    | Val m1 => match set_bank m1 1 hi with Val m2 => Val (Some m2) | Panic => Panic | OutOfDraws => OutOfDraws end
    | Panic => Panic | OutOfDraws => OutOfDraws
    end
  else if ctl =? 6 then Val (Some (repeat 0xFF 8 ++ [nthN m 8]))
  else Val None.

Definition dyn_mask_validate (p : dyn_plan) (m : mask) : bool :=
  existsb (fun i => mask_bit m (N.of_nat i) && match nth i (dp_channels p) None with Some _ => true | None => false end)
          (seq 0 16).

(* select_tx_channel (Data): when no defined channel is enabled the default (join) channels are re-enabled *)
Definition dyn_fallback (r : rid) (p : dyn_plan) : dyn_plan :=
  if dyn_mask_validate p (dp_mask p) then p else
  {| dp_channels := dp_channels p;
     dp_mask := fold_left (fun m i => match set_channel m (N.of_nat i) true with Val m' => m' | _ => m end)
                          (seq 0 (N.to_nat (r_num_join r))) (dp_mask p) |}.

(* channel_dl_update -> (freq ack, channel ack) *)
Definition dyn_dl_update (r : rid) (p : dyn_plan) (index freq : N) : dyn_plan * (bool * bool) :=
  let fv := frequency_valid r freq in
  if 16 <=? index then (p, (fv, false)) else
  if mask_bit (dp_mask p) index then
    match nth (N.to_nat index) (dp_channels p) None with
    | Some c =>
      if ch_freq c =? 0 then (p, (fv, false)) else
      if fv then
        let c' := {| ch_freq := ch_freq c; ch_drs := ch_drs c; ch_dl := if freq =? ch_freq c then None else Some freq |} in
        ({| dp_channels := set_nth_opt (dp_channels p) (N.to_nat index) (Some c'); dp_mask := dp_mask p |}, (fv, true))
      else (p, (fv, true))
    | None => (p, (fv, false))
    end
  else (p, (fv, false)).

(* handle_new_channel(index, freq, Option<DataRateRange>) -> (freq ack, dr ack); drr = raw byte, None when min > max *)
Definition dyn_new_channel (r : rid) (p : dyn_plan) (index freq : N) (drr : option N) : outcome (dyn_plan * (bool * bool)) :=
  if index <? r_num_join r then Val (p, (false, false)) else
  if 16 <=? index then Val (p, (false, false)) else
  if freq =? 0 then
    match set_channel (dp_mask p) index false with
    | Val m => Val ({| dp_channels := set_nth_opt (dp_channels p) (N.to_nat index) None; dp_mask := m |}, (true, true))
    | Panic => Panic | OutOfDraws => OutOfDraws
    end
  else
    let fv := frequency_valid r freq in
    match drr with
    | None => Val (p, (fv, false))
    | Some raw =>
      let mx := N.shiftr raw 4 in let mn := N.land raw 0x0f in
      let supported := (mx <? 15) &&
                       forallb (fun c => match get_datarate r (N.of_nat c) with Some _ => true | None => false end)
                               (seq (N.to_nat mn) (S (N.to_nat mx) - N.to_nat mn)) in
      if fv && supported then
        match set_channel (dp_mask p) index true with
        | Val m => Val ({| dp_channels := set_nth_opt (dp_channels p) (N.to_nat index)
                                            (Some {| ch_freq := freq; ch_drs := raw; ch_dl := None |});
                           dp_mask := m |}, (fv, supported))
        | Panic => Panic | OutOfDraws => OutOfDraws
        end
      else Val (p, (fv, supported))
    end.

(* ------------------------------------------------------------------ fixed channel plan *)
Record join_channels := {
  jc_max_retries : N; jc_num_retries : N; jc_preferred : option N (* subband 1..8 *);
  jc_avail : mask; jc_avail_prev : option N; jc_previous : N }.
Record fix_plan := { fp_mask : mask; fp_jc : join_channels }.

Definition jc_default : join_channels :=
  {| jc_max_retries := 0; jc_num_retries := 0; jc_preferred := None; jc_avail := mask_default; jc_avail_prev := None; jc_previous := 0 |}.
Definition fix_new : fix_plan := {| fp_mask := mask_default; fp_jc := jc_default |}.

Definition jc_reset (j : join_channels) : join_channels :=
  {| jc_max_retries := jc_max_retries j; jc_num_retries := 0; jc_preferred := jc_preferred j;
     jc_avail := mask_default; jc_avail_prev := None; jc_previous := jc_previous j |}.
Definition jc_clear_bias (j : join_channels) : join_channels :=
  {| jc_max_retries := 0; jc_num_retries := jc_num_retries j; jc_preferred := None;
     jc_avail := jc_avail j; jc_avail_prev := jc_avail_prev j; jc_previous := jc_previous j |}.
Definition jc_has_bias (j : join_channels) : bool :=
  match jc_preferred j with Some _ => (jc_num_retries j <? jc_max_retries j) && negb (jc_num_retries j =? 0) | None => false end.

Definition is_exhausted (m : mask) : bool := forallb (fun b => b =? 0) m.

(* get_next_channel_inner's entropy loop: fuel bounds the number of re-draws *)
Fixpoint avail_scan (m : mask) (bank : N) (entropy : N) (used : nat) (steps : nat) (draws : list N) : outcome (N * list N) :=
  match steps with
  | O => OutOfDraws
  | S k =>
    let chn := N.land entropy 7 + bank * 8 in
    match is_enabled m chn with
    | Val true => Val (chn, draws)
    | Val false =>
      if Nat.eqb used 10 then
        match draws with
        | [] => OutOfDraws
        | d :: rest => avail_scan m bank (N.shiftr d 3) 1 k rest
        end
      else avail_scan m bank (N.shiftr entropy 3) (S used) k draws
    | Panic => Panic | OutOfDraws => OutOfDraws
    end
  end.

(* AvailableChannels::get_next *)
Definition avail_get_next (j : join_channels) (draws : list N) : outcome (N * join_channels * list N) :=
  let '(data, prev) := if is_exhausted (jc_avail j) then (mask_default, None) else (jc_avail j, jc_avail_prev j) in
  let pick : outcome (N * list N) :=
    match prev with
    | Some pv =>
      if 255 <? pv + 8 then Panic else
      let next := (pv + 8) mod 72 in
      match is_enabled data next with
      | Val true => Val (next, draws)
      | Val false =>
        match draws with
        | [] => OutOfDraws
        | d :: rest => avail_scan data (next / 8) d 1 (12 * (1 + length rest)) rest
        end
      | Panic => Panic | OutOfDraws => OutOfDraws
      end
    | None => match draws with [] => OutOfDraws | d :: rest => Val (N.land (d mod 256) 63, rest) end
    end in
  match pick with
  | Val (chn, rest) =>
    match set_channel data chn false with
    | Val data' => Val (chn, {| jc_max_retries := jc_max_retries j; jc_num_retries := jc_num_retries j;
                                jc_preferred := jc_preferred j; jc_avail := data'; jc_avail_prev := Some chn;
                                jc_previous := jc_previous j |}, rest)
    | Panic => Panic | OutOfDraws => OutOfDraws
    end
  | Panic => Panic | OutOfDraws => OutOfDraws
  end.

(* JoinChannels::get_next_channel *)
Definition jc_get_next (j : join_channels) (draws : list N) : outcome (N * join_channels * list N) :=
  match jc_preferred j with
  | Some sb =>
    if jc_num_retries j <? jc_max_retries j then
      match draws with
      | [] => OutOfDraws
      | d :: rest =>
        let nr := jc_num_retries j + 1 in
        let chn := (d mod 8) + (sb - 1) * 8 in
        let last := nr =? jc_max_retries j in
        match (if last then set_channel (jc_avail j) chn false else Val (jc_avail j)) with
        | Val av =>
          Val (chn, {| jc_max_retries := jc_max_retries j; jc_num_retries := nr; jc_preferred := jc_preferred j;
                       jc_avail := av; jc_avail_prev := if last then Some chn else jc_avail_prev j;
                       jc_previous := chn |}, rest)
        | Panic => Panic | OutOfDraws => OutOfDraws
        end
      end
    else
      avail_get_next {| jc_max_retries := jc_max_retries j; jc_num_retries := jc_num_retries j + 1;
                        jc_preferred := jc_preferred j; jc_avail := jc_avail j; jc_avail_prev := jc_avail_prev j;
                        jc_previous := jc_previous j |} draws
  | None =>
    avail_get_next {| jc_max_retries := jc_max_retries j; jc_num_retries := jc_num_retries j + 1;
                      jc_preferred := jc_preferred j; jc_avail := jc_avail j; jc_avail_prev := jc_avail_prev j;
                      jc_previous := jc_previous j |} draws
  end.

(* keep drawing draw & maskbits until an enabled channel (offset by base) comes up *)
Fixpoint fix_draw_enabled (m : mask) (bits base : N) (draws : list N) : outcome (N * list N) :=
  match draws with
  | [] => OutOfDraws
  | d :: rest =>
    let c := N.land d bits in
    match is_enabled m (c + base) with
    | Val true => Val (c + base, rest)
    | Val false => fix_draw_enabled m bits base rest
    | Panic => Panic | OutOfDraws => OutOfDraws
    end
  end.

Definition fix_mk_tx (r : rid) (dr chn : N) (p : fix_plan) (rest : list N) : outcome (tx_channel * fix_plan * list N) :=
  match datarate_index r dr with
  | Val (Some dt) =>
    match nth_error (r_uplink r) (N.to_nat chn), nth_error (r_downlink r) (N.to_nat (chn mod 8)) with
    | Some f, Some f1 => Val ({| tc_dr := dr; tc_datarate := dt; tc_freq := f; tc_rx1_freq := f1; tc_index := chn |}, p, rest)
    | _, _ => Panic
    end
  | Val None => Panic | Panic => Panic | OutOfDraws => OutOfDraws
  end.

(* the default channels of the required kind are re-enabled when the mask has none of them *)
Definition any_enabled (m : mask) (from n : nat) : bool := existsb (fun i => mask_bit m (N.of_nat i)) (seq from n).
Definition fix_fallback_mask (m : mask) (wide : bool) : mask :=
  if wide then (if any_enabled m 64 8 then m else set_nth m 8 0xFF)
  else (if any_enabled m 0 64 then m else repeat 0xFF 8 ++ skipn 8 m).
Definition fix_select_masked (r : rid) (p : fix_plan) (datarate : N) (draws : list N) : outcome (tx_channel * fix_plan * list N) :=
  match datarate_index r datarate with
  | Val (Some (_, bw, _)) =>
    let m := fix_fallback_mask (fp_mask p) (bw =? 9) in
    match (if bw =? 9 then fix_draw_enabled m 7 64 draws else fix_draw_enabled m 63 0 draws) with
    | Val (chn, rest) => fix_mk_tx r datarate chn {| fp_mask := m; fp_jc := fp_jc p |} rest
    | Panic => Panic | OutOfDraws => OutOfDraws
    end
  | Val None => Panic | Panic => Panic | OutOfDraws => OutOfDraws
  end.

Definition fix_select (r : rid) (p : fix_plan) (datarate : N) (join : bool) (draws : list N)
  : outcome (tx_channel * fix_plan * list N) :=
  let via_join :=
    match jc_get_next (fp_jc p) draws with
    | Val (chn, j', rest) => fix_mk_tx r (r_join_dr r (negb (chn <? 64))) chn {| fp_mask := fp_mask p; fp_jc := j' |} rest
    | Panic => Panic | OutOfDraws => OutOfDraws
    end in
  if join then via_join else
  if jc_has_bias (fp_jc p) then via_join else
  match jc_preferred (fp_jc p) with
  | Some _ =>
    if negb (jc_num_retries (fp_jc p) =? 0) then
      (* first_data_channel *)
      match draws with
      | [] => OutOfDraws
      | d :: rest =>
        let j := jc_clear_bias (fp_jc p) in
        let pc := jc_previous j in
        let sb := if pc <? 64 then pc / 8 else pc mod 8 in
        match datarate_index r datarate with
        | Val (Some (_, bw, _)) =>
          let c := N.land d 7 + sb * 8 in
          fix_mk_tx r datarate (if bw =? 9 then 64 + c / 8 else c) {| fp_mask := fp_mask p; fp_jc := j |} rest
        | Val None => Panic | Panic => Panic | OutOfDraws => OutOfDraws
        end
      end
    else
      fix_select_masked r p datarate draws
  | None =>
    fix_select_masked r p datarate draws
  end.

Definition fix_mask_set (p : fix_plan) (m : mask) : fix_plan := {| fp_mask := m; fp_jc := jc_reset (fp_jc p) |}.

Definition fix_mask_update (m : mask) (ctl lo hi : N) : outcome (option mask) :=
  if ctl <=? 3 then
    match set_bank m (N.to_nat (ctl * 2)) lo with
    | Val m1 => match set_bank m1 (S (N.to_nat (ctl * 2))) hi with Val m2 => Val (Some m2) | Panic => Panic | OutOfDraws => OutOfDraws end
    | Panic => Panic | OutOfDraws => OutOfDraws
    end
  else if ctl =? 4 then
    match set_bank m 8 lo with Val m1 => Val (Some m1) | Panic => Panic | OutOfDraws => OutOfDraws end
  else if ctl =? 5 then
    Val (Some (map (fun i => if N.testbit lo (N.of_nat i) then 0xFF else 0) (seq 0 8) ++ [lo]))
  else if ctl =? 6 then Val (Some (repeat 0xFF 8 ++ [lo]))
  else if ctl =? 7 then Val (Some (repeat 0 8 ++ [lo]))
  else Val None.

Definition fix_mask_validate (r : rid) (m : mask) (dr : option N) : outcome bool :=
  match dr with
  | None => Val false
  | Some d =>
    match datarate_index r d with
    | Val (Some (_, bw, _)) =>
      Val (if bw =? 9 then existsb (fun i => mask_bit m (N.of_nat i)) (seq 64 8)
           else if bw =? 7 then Nat.leb 2 (length (filter (fun i => mask_bit m (N.of_nat i)) (seq 0 64)))
           else true)
    | Val None => Val false
    | Panic => Panic | OutOfDraws => OutOfDraws
    end
  end.

(* ------------------------------------------------------------------ region::Configuration *)
Inductive plan := PDyn (p : dyn_plan) | PFix (p : fix_plan).
Record region := { rg_id : rid; rg_plan : plan }.

Definition region_new (r : rid) : region :=
  {| rg_id := r; rg_plan := if r_fixed r then PFix fix_new else PDyn (dyn_new r) |}.
Definition region_mask (g : region) : mask := match rg_plan g with PDyn p => dp_mask p | PFix p => fp_mask p end.
Definition region_mask_set (g : region) (m : mask) : region :=
  {| rg_id := rg_id g; rg_plan := match rg_plan g with
                                  | PDyn p => PDyn {| dp_channels := dp_channels p; dp_mask := m |}
                                  | PFix p => PFix (fix_mask_set p m) end |}.
Definition region_mask_update (g : region) (m : mask) (ctl lo hi : N) : outcome (option mask) :=
  match rg_plan g with PDyn _ => dyn_mask_update m ctl lo hi | PFix _ => fix_mask_update m ctl lo hi end.
Definition region_mask_validate (g : region) (m : mask) (dr : option N) : outcome bool :=
  match rg_plan g with PDyn p => Val (dyn_mask_validate p m) | PFix _ => fix_mask_validate (rg_id g) m dr end.

(* uplink_datarate_valid: fixed plans reserve DR8.. for downlinks *)
Definition uplink_dr (g : region) (d : N) : option (N * N * N) :=
  match rg_plan g with
  | PFix _ => if d <? 8 then get_datarate (rg_id g) d else None
  | PDyn _ => get_datarate (rg_id g) d
  end.

Definition region_select (g : region) (datarate : N) (join : bool) (draws : list N) : outcome (tx_channel * region * list N) :=
  match rg_plan g with
  | PDyn p =>
    if join then
      match dyn_select_join (rg_id g) p datarate draws with
      | Val (tc, rest) => Val (tc, g, rest)
      | Panic => Panic | OutOfDraws => OutOfDraws
      end
    else
      let p1 := dyn_fallback (rg_id g) p in
      match dyn_select_data (rg_id g) p1 datarate draws with
      | Val (tc, rest) => Val (tc, {| rg_id := rg_id g; rg_plan := PDyn p1 |}, rest)
      | Panic => Panic | OutOfDraws => OutOfDraws
      end
  | PFix p =>
    match fix_select (rg_id g) p datarate join draws with
    | Val (tc, p', rest) => Val (tc, {| rg_id := rg_id g; rg_plan := PFix p' |}, rest)
    | Panic => Panic | OutOfDraws => OutOfDraws
    end
  end.

(* CFList as parsed: 0 = none / RFU, 1 = DynamicChannel (5 frequencies in Hz), 2 = FixedChannel (9 mask bytes) *)
Inductive cfl := CflNone | CflDyn (freqs_hz : list N) | CflFix (m : list N).
Definition region_join_accept (g : region) (c : cfl) : outcome region :=
  match rg_plan g, c with
  | PDyn p, CflDyn fs =>
    match dyn_cflist (rg_id g) (dp_channels p) (N.to_nat (r_num_join (rg_id g))) fs with
    | Val chs => Val {| rg_id := rg_id g; rg_plan := PDyn {| dp_channels := chs; dp_mask := dp_mask p |} |}
    | Panic => Panic | OutOfDraws => OutOfDraws
    end
  | PFix p, CflFix m => Val {| rg_id := rg_id g; rg_plan := PFix (fix_mask_set p m) |}
  | PFix p, _ => Val {| rg_id := rg_id g; rg_plan := PFix {| fp_mask := mask_default; fp_jc := fp_jc p |} |}   (* no list: default mask *)
  | _, _ => Val g
  end.
