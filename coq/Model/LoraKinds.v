(* Model/LoraKinds.v -- the SX126x and SX127x drivers as RadioKind records for Model/LoraDrv.v *)
From Coq Require Import NArith ZArith List Bool.
From LoraV Require Import Base.Bytes Gen.PhyTables Model.PhyCore Model.Sx126x Model.Sx127x Model.Toa Model.LoraDrv.
Import ListNotations.
Open Scope N_scope.

Definition ldro_of (sf bw : N) : N := if Toa.ldro (Z.of_N sf + 5) (Z.of_N bw) then 1 else 0.

Definition kind126 (g : cfg126) : kind := {|
  k_reset := iv IvReset;
  k_ensure_ready := fun m => ensure_ready_126 (match m with MSleep | MRx (RxDuty _ _) => true | _ => false end);
  k_standby := set_standby_126;
  k_sleep := set_sleep_126;
  k_init := init_lora_126 g;
  k_sync := sync_word_write;
  k_power := fun p md istx => set_tx_power_126 g p (match md with Some m => Some (md_freq m) | None => None end) istx;
  k_irq := fun m => set_irq_126 (match m with Some x => irq_of x | None => IqNone end);
  k_calimg := calibrate_image_126;
  k_create_mod := fun sf bw cr f =>
    match create_mod_126 sf bw cr f with
    | Some e => inr e
    | None => inl {| md_sf := sf; md_bw := bw; md_cr := cr; md_ldro := ldro_of sf bw; md_freq := f |} end;
  k_create_pkt := fun pre im len crc iq md =>
    inl {| pk_preamble := create_pkt_preamble_126 (md_sf md) pre; pk_implicit := im; pk_len := len; pk_crc := crc; pk_iq := iq |};
  k_mod := fun md => set_mod_126 (md_sf md) (md_bw md) (md_cr md) (md_ldro md);
  k_pkt := fun pk => set_pkt_126 (pk_preamble pk) (pk_implicit pk) (pk_len pk) (pk_crc pk) (pk_iq pk);
  k_chan := set_channel_126;
  k_payload := set_payload_126;
  k_tx := do_tx_126;
  k_rx := do_rx_126 g;
  k_cad := fun md => do_cad_126 g (md_sf md);
  k_cw := set_cw_126;
  k_procirq := fun m clear => process_irq_126 (irq_of m) (match m with MRx (RxSingle _) => true | _ => false end) clear;
  k_rxpayload := fun pk buflen => get_rx_payload_126 (pk_implicit pk) buflen;
  k_status := pkt_status_126;
  k_rssi := get_rssi_126;
  k_clrirq := clear_irq_126 |}.

Definition kind127 (h : cfg127) (quirk : bool) : kind := {|
  k_reset := reset_127;
  k_ensure_ready := fun m => ensure_ready_127 (match m with MSleep => true | _ => false end);
  k_standby := set_standby_127;
  k_sleep := fun _ => set_sleep_127;
  k_init := fun sw => _ <- init_lora_127 h sw ;; Ret tt;
  k_sync := set_sync_127;
  k_power := fun p _ istx => set_tx_power_127 h p istx;
  k_irq := fun m => set_irq_127 (match m with Some x => irq_of x | None => IqNone end);
  k_calimg := fun _ => Ret tt;
  k_create_mod := fun sf bw cr f =>
    match create_mod_127 h sf bw cr f with
    | Some e => inr e
    | None => inl {| md_sf := sf; md_bw := bw; md_cr := cr; md_ldro := ldro_of sf bw; md_freq := f |} end;
  k_create_pkt := fun pre im len crc iq md =>
    match create_pkt_127 (md_sf md) im with
    | Some e => inr e
    | None => inl {| pk_preamble := pre; pk_implicit := im; pk_len := len; pk_crc := crc; pk_iq := iq |} end;
  k_mod := fun md => set_mod_127 h quirk (md_sf md) (md_bw md) (md_cr md) (md_ldro md) (md_freq md);
  k_pkt := fun pk => set_pkt_127 h (pk_preamble pk) (pk_implicit pk) (pk_len pk) (pk_crc pk) (pk_iq pk);
  k_chan := set_channel_127;
  k_payload := set_payload_127;
  k_tx := do_tx_127;
  k_rx := do_rx_127 h;
  k_cad := fun _ => do_cad_127 h;
  k_cw := set_cw_127 h;
  k_procirq := fun m clear =>
    match m with
    | MRx (RxDuty _ _) =>                                                   (* get_irq_state: todo!() after the flags were read *)
      st <- attempt (rreg s7_Register_RegIrqFlags ;;; (Fail EPanic : prog irqstate)) ;;
      (if clear then clear_irq_127 else Ret tt) ;;; match st with inl v => Ret v | inr e => Fail e end
    | _ => process_irq_127 (irq_of m) clear end;
  k_rxpayload := fun pk buflen => get_rx_payload_127 (pk_implicit pk) (pk_len pk) buflen;
  k_status := pkt_status_127 h;
  k_rssi := get_rssi_127 h;
  k_clrirq := clear_irq_127 |}.
