(* Model/Exec.v -- the codec models and specs instantiated with the Gallina AES-128 / AES-CMAC,
   for execution (extraction) -- this is the "independent implementation of LoRaWAN cryptography". *)
From LoraV Require Import Base.Bytes Crypto.AES Crypto.CMAC Model.Frame Spec.L2Frame Model.Region Model.Mac Model.AsyncDev Model.NbDev.

Definition x_build_data := build_data aes_enc aes_mac.
Definition x_build_join_request := build_join_request aes_mac.
Definition x_build_join_accept := build_join_accept aes_dec aes_mac.
Definition x_validate := validate.
Definition x_validate_mic := validate_mic aes_mac.
Definition x_decrypt_in_place := decrypt_in_place aes_enc.
Definition x_check_mic_and_decrypt := check_mic_and_decrypt_in_place aes_enc aes_mac.
Definition x_parse_phy := parse_phy.
Definition x_parse_join_request := parse_join_request.
Definition x_jr_validate_mic := jr_validate_mic aes_mac.
Definition x_ja_decrypt_in_place := ja_decrypt_in_place aes_enc.
Definition x_ja_check_mic_and_decrypt := ja_check_mic_and_decrypt aes_enc aes_mac.
Definition x_ja_validate_mic := ja_validate_mic aes_mac.
Definition x_derive_session_key := derive_session_key aes_enc.

Definition x_spec_data := spec_data aes_enc aes_mac.
Definition x_spec_join_request := spec_join_request aes_mac.
Definition x_spec_join_accept := spec_join_accept aes_dec aes_mac.
Definition x_spec_session_key := spec_session_key aes_enc.
Definition x_spec_mic := spec_mic aes_mac.
Definition x_wf_wire := wf_wire.

Definition x_join_otaa := join_otaa aes_mac.
Definition x_send := send aes_enc aes_mac.
Definition x_mac_handle_rx := mac_handle_rx aes_enc aes_mac.
Definition x_mac_rx2_complete := mac_rx2_complete.
Definition x_rxc_config := rxc_config.
Definition x_next_fcnt_down := next_fcnt_down.

Definition x_adev_send := adev_send aes_enc aes_mac.
Definition x_adev_join := adev_join aes_enc aes_mac.
Definition x_adev_listen := adev_listen aes_enc aes_mac.
Definition x_nb_handle_event := handle_event aes_enc aes_mac.
