(* Model/PhyCore.v -- what a lora-phy driver does at the pins: a program of SPI transactions and interface-variant calls,
   interpreted against an emulated chip (register file, buffer, scripted status bytes) with an optional fault position.
   Mirrors lora-phy/src/interface.rs (SpiInterface::write / write_with_payload / read / read_with_status) and the mocks of
   /verif/harness/src/mock.rs, so that model and implementation can be run on the same scripts. *)
From Coq Require Import NArith ZArith List Bool.
From LoraV Require Import Base.Bytes.
Import ListNotations.
Open Scope N_scope.

Inductive rerr := ESpi | EBusy | EInvalidConfiguration | EInvalidRadioMode | EInvalidSyncWord | EOpError (s : N)
  | EInvalidBaseAddress (a b : N) | EPayloadSizeUnexpected (n : N) | EPayloadSizeMismatch (a b : N)
  | EUnavailableSF | EUnavailableBW | EInvalidBwForFreq | EInvalidSF6Explicit | EInvalidPowerForFreq
  | ETransmitTimeout | EReceiveTimeout | EDutyCycleUnsupported | ERngUnsupported | EPanic
  | ECancelled (* not an error value: the future was dropped at a pending await_irq *).

Inductive seg := W (bytes : list N) | R (n : nat).
Inductive ivcall := IvReset | IvBusy | IvIrq | IvSwRx | IvSwTx | IvSwOff.
(* St / Ld: the driver object's own fields (they survive a failed or cancelled operation) *)
Inductive act := Spi (segs : list seg) | Iv (c : ivcall) | DelayNs (ns : N) | St (tag : nat) (v : list N) | Ld (tag : nat).

(* a driver operation: a tree of actions, each continued with the bytes read by that action (concatenated over its R segments),
   or -- when the action fails at the pins (SPI error, busy/IRQ line error) -- with the error (`?` propagates it by default) *)
Inductive prog (A : Type) :=
| Ret (a : A)
| Fail (e : rerr)
| Do (a : act) (k : list N -> prog A) (h : rerr -> prog A).
Arguments Ret {A}. Arguments Fail {A}. Arguments Do {A}.

Fixpoint bind {A B} (p : prog A) (f : A -> prog B) : prog B :=
  match p with
  | Ret a => f a
  | Fail e => Fail e
  | Do a k h => Do a (fun r => bind (k r) f) (fun e => bind (h e) f)
  end.
Notation "x <- p ;; q" := (bind p (fun x => q)) (at level 61, p at next level, right associativity).
Notation "p ;;; q" := (bind p (fun _ => q)) (at level 61, right associativity).
(* `let r = op.await;` without `?`: the outcome as a value *)
Fixpoint attempt {A} (p : prog A) : prog (A + rerr) :=
  match p with
  | Ret a => Ret (inl a)
  | Fail EPanic => Fail EPanic        (* a panic unwinds through everything *)
  | Fail ECancelled => Fail ECancelled  (* never raised by a program: only a pending await_irq ends a run this way *)
  | Fail e => Ret (inr e)
  | Do a k h => Do a (fun r => attempt (k r)) (fun e => attempt (h e))
  end.
Definition act1 {A} (a : act) (k : list N -> prog A) : prog A := Do a k (fun e => Fail e).

Definition iv (c : ivcall) : prog unit := act1 (Iv c) (fun _ => Ret tt).
Definition delay (ns : N) : prog unit := act1 (DelayNs ns) (fun _ => Ret tt).
(* SpiInterface *)
Definition spi_write (bytes : list N) (is_sleep : bool) : prog unit :=
  act1 (Spi [W bytes]) (fun _ => if is_sleep then Ret tt else iv IvBusy).
Definition spi_write_payload (cmd payload : list N) (is_sleep : bool) : prog unit :=
  act1 (Spi [W cmd; W payload]) (fun _ => if is_sleep then Ret tt else iv IvBusy).
Definition spi_read (cmd : list N) (n : nat) : prog (list N) :=
  act1 (Spi [W cmd; R n]) (fun r => iv IvBusy ;;; Ret r).
Definition spi_read_status (cmd : list N) (n : nat) : prog (N * list N) :=
  act1 (Spi [W cmd; R 1; R n]) (fun r => iv IvBusy ;;; Ret (nthN r 0, skipn 1 r)).

(* ---- the emulated chip (mock.rs) *)
Inductive chipkind := K126 | K127.
Record chip := {
  c_kind : chipkind;
  c_regs : list N;         (* 4096 entries *)
  c_reads : list N;        (* scripted answers for non-register reads *)
  c_fill : N;
  c_buf : list N;          (* 256-byte data buffer / FIFO *)
  c_fifo : N;
  c_events : N;
  c_fault : option N;
  c_drv : list (list N);                 (* driver-object fields by tag *)
  c_irq_calls : N;
  c_irq_budget : N;                      (* interrupt edges the chip still raises *)
  c_pend : option N;                     (* the await_irq call (by index) that never completes *)
  c_on_irq : list (N * list N) }.        (* interrupt outcomes: status flags (+ bytes answered afterwards, SX126x) *)

Fixpoint set_nthN (l : list N) (i : nat) (v : N) : list N :=
  match l, i with
  | [], _ => []
  | _ :: r, O => v :: r
  | x :: r, S k => x :: set_nthN r k v
  end.

Definition next_read (c : chip) : N * chip :=
  match c_reads c with
  | [] => (c_fill c, c)
  | x :: r => (x, {| c_kind := c_kind c; c_regs := c_regs c; c_reads := r; c_fill := c_fill c; c_buf := c_buf c; c_fifo := c_fifo c;
                    c_events := c_events c; c_fault := c_fault c ; c_drv := c_drv c; c_irq_calls := c_irq_calls c; c_irq_budget := c_irq_budget c; c_pend := c_pend c; c_on_irq := c_on_irq c |})
  end.
Definition with_fifo (c : chip) (p : N) : chip :=
  {| c_kind := c_kind c; c_regs := c_regs c; c_reads := c_reads c; c_fill := c_fill c; c_buf := c_buf c; c_fifo := p;
     c_events := c_events c; c_fault := c_fault c ; c_drv := c_drv c; c_irq_calls := c_irq_calls c; c_irq_budget := c_irq_budget c; c_pend := c_pend c; c_on_irq := c_on_irq c |}.
Definition with_regs (c : chip) (r : list N) : chip :=
  {| c_kind := c_kind c; c_regs := r; c_reads := c_reads c; c_fill := c_fill c; c_buf := c_buf c; c_fifo := c_fifo c;
     c_events := c_events c; c_fault := c_fault c ; c_drv := c_drv c; c_irq_calls := c_irq_calls c; c_irq_budget := c_irq_budget c; c_pend := c_pend c; c_on_irq := c_on_irq c |}.
Definition tick (c : chip) : bool * chip :=
  (match c_fault c with Some k => k =? c_events c | None => false end,
   {| c_kind := c_kind c; c_regs := c_regs c; c_reads := c_reads c; c_fill := c_fill c; c_buf := c_buf c; c_fifo := c_fifo c;
      c_events := c_events c + 1; c_fault := c_fault c ; c_drv := c_drv c; c_irq_calls := c_irq_calls c; c_irq_budget := c_irq_budget c; c_pend := c_pend c; c_on_irq := c_on_irq c |}).

(* one byte read inside a transaction: `written` = all bytes written so far in it, idx = bytes read so far *)
Definition read_byte (c : chip) (written : list N) (idx : nat) : N * chip :=
  match c_kind c with
  | K126 =>
    if Nat.leb 3 (length written) && (nthN written 0 =? 0x1D) then
      (nthN (c_regs c) (N.to_nat ((nthN written 1 * 256 + nthN written 2 + N.of_nat idx) mod 4096)), c)
    else if Nat.leb 2 (length written) && (nthN written 0 =? 0x1E) then
      (nthN (c_buf c) (N.to_nat ((nthN written 1 + N.of_nat idx) mod 256)), c)
    else next_read c
  | K127 =>
    let a := N.land (nthN written 0) 0x7f in
    if a =? 0 then (nthN (c_buf c) (N.to_nat (c_fifo c)), with_fifo c ((c_fifo c + 1) mod 256))
    else (nthN (c_regs c) (N.to_nat a + idx), c)
  end.

Fixpoint read_bytes (c : chip) (written : list N) (idx n : nat) : list N * chip :=
  match n with
  | O => ([], c)
  | S k => let '(b, c1) := read_byte c written idx in
           let '(bs, c2) := read_bytes c1 written (S idx) k in (b :: bs, c2)
  end.

Fixpoint write_regs (regs : list N) (a : nat) (vals : list N) (wrap : nat) : list N :=
  match vals with
  | [] => regs
  | v :: r => write_regs (set_nthN regs (Nat.modulo a wrap) v) (S a) r wrap
  end.

(* trace of a transaction as the mock prints it: w<hex>, r<hex of data> joined by ',' -- kept structured here *)
Inductive tseg := TW (bytes : list N) | TR (data : list N).
Inductive tev := TSpi (segs : list tseg) | TSpiFault | TIv (c : ivcall) | TIvFault (c : ivcall) | TDelay (ns : N) | TIrqPending.

Fixpoint run_segs (c : chip) (segs : list seg) (written : list N) (idx : nat) (acc : list tseg) (got : list N)
  : chip * list N * list tseg * list N :=
  match segs with
  | [] => (c, written, rev acc, got)
  | W b :: r => run_segs c r (written ++ b) idx (TW b :: acc) got
  | R n :: r => let '(bs, c1) := read_bytes c written idx n in run_segs c1 r written (idx + n) (TR bs :: acc) (got ++ bs)
  end.

Definition side_effects (c : chip) (written : list N) : chip :=
  match c_kind c with
  | K126 =>
    if Nat.ltb 3 (length written) && (nthN written 0 =? 0x0D) then
      with_regs c (write_regs (c_regs c) (N.to_nat (nthN written 1 * 256 + nthN written 2)) (skipn 3 written) 4096)
    else c
  | K127 =>
    if Nat.leb 2 (length written) && negb (N.land (nthN written 0) 0x80 =? 0) then
      let a := N.land (nthN written 0) 0x7f in
      let c1 := if a =? 0x0d then with_fifo c (nthN written 1) else c in
      if a =? 0 then
        (* FIFO write at the address pointer *)
        let '(buf', ptr') := fold_left (fun bp v => let '(b, p) := bp in (set_nthN b (N.to_nat p) v, (p + 1) mod 256)) (skipn 1 written) (c_buf c1, c_fifo c1) in
        {| c_kind := c_kind c1; c_regs := c_regs c1; c_reads := c_reads c1; c_fill := c_fill c1; c_buf := buf'; c_fifo := ptr';
           c_events := c_events c1; c_fault := c_fault c1 ; c_drv := c_drv c1; c_irq_calls := c_irq_calls c1; c_irq_budget := c_irq_budget c1; c_pend := c_pend c1; c_on_irq := c_on_irq c1 |}
      else if a =? 0x12 then     (* RegIrqFlags: writing a 1 clears the flag *)
        with_regs c1 (set_nthN (c_regs c1) 0x12 (N.land (nthN (c_regs c1) 0x12) (N.lxor 255 (nthN written 1 mod 256))))
      else with_regs c1 (write_regs (c_regs c1) (N.to_nat a) (skipn 1 written) 4096)
    else c
  end.

Fixpoint set_nth_list (l : list (list N)) (i : nat) (v : list N) : list (list N) :=
  match l, i with
  | [], O => [v]
  | [], S k => [] :: set_nth_list [] k v
  | _ :: r, O => v :: r
  | x :: r, S k => x :: set_nth_list r k v
  end.
Definition with_drv (c : chip) (d : list (list N)) : chip :=
  {| c_kind := c_kind c; c_regs := c_regs c; c_reads := c_reads c; c_fill := c_fill c; c_buf := c_buf c; c_fifo := c_fifo c;
     c_events := c_events c; c_fault := c_fault c; c_drv := d; c_irq_calls := c_irq_calls c; c_irq_budget := c_irq_budget c;
     c_pend := c_pend c; c_on_irq := c_on_irq c |}.
Definition with_irq (c : chip) (calls budget : N) : chip :=
  {| c_kind := c_kind c; c_regs := c_regs c; c_reads := c_reads c; c_fill := c_fill c; c_buf := c_buf c; c_fifo := c_fifo c;
     c_events := c_events c; c_fault := c_fault c; c_drv := c_drv c; c_irq_calls := calls; c_irq_budget := budget;
     c_pend := c_pend c; c_on_irq := c_on_irq c |}.
(* the next scripted interrupt outcome becomes the chip's IRQ status *)
Definition apply_on_irq (c : chip) : chip :=
  match c_on_irq c with
  | [] => c
  | (v, extra) :: rest =>
    let c1 := {| c_kind := c_kind c; c_regs := c_regs c; c_reads := c_reads c; c_fill := c_fill c; c_buf := c_buf c; c_fifo := c_fifo c;
                 c_events := c_events c; c_fault := c_fault c; c_drv := c_drv c; c_irq_calls := c_irq_calls c; c_irq_budget := c_irq_budget c;
                 c_pend := c_pend c; c_on_irq := rest |} in
    match c_kind c with
    | K127 => with_regs c1 (set_nthN (c_regs c1) 0x12 (v mod 256))
    | K126 => {| c_kind := c_kind c1; c_regs := c_regs c1; c_reads := [0; (v / 256) mod 256; v mod 256] ++ extra; c_fill := c_fill c1; c_buf := c_buf c1;
                 c_fifo := c_fifo c1; c_events := c_events c1; c_fault := c_fault c1; c_drv := c_drv c1; c_irq_calls := c_irq_calls c1;
                 c_irq_budget := c_irq_budget c1; c_pend := c_pend c1; c_on_irq := c_on_irq c1 |}
    end
  end.

(* run a program; fuel bounds the number of actions (every driver operation is finite) *)
Fixpoint run {A} (fuel : nat) (c : chip) (p : prog A) (tr : list tev) : chip * list tev * option (A + rerr) :=
  match fuel with
  | O => (c, rev tr, None)
  | S f =>
    match p with
    | Ret a => (c, rev tr, Some (inl a))
    | Fail e => (c, rev tr, Some (inr e))
    | Do (Spi segs) k h =>
      let '(flt, c1) := tick c in
      if flt then run f c1 (h ESpi) (TSpiFault :: tr) else
      let '(c2, written, tsegs, got) := run_segs c1 segs [] 0 [] [] in
      run f (side_effects c2 written) (k got) (TSpi tsegs :: tr)
    | Do (Iv IvIrq) k h =>
      (* await_irq: pending (the caller's future is dropped) when this call is the scripted pending one or no edge is left *)
      let n := c_irq_calls c in
      let exhausted := c_irq_budget c =? 0 in
      let c0 := with_irq c (n + 1) (if exhausted then 0 else c_irq_budget c - 1) in
      if (match c_pend c with Some k0 => k0 =? n | None => false end) || exhausted then (c0, rev (TIrqPending :: tr), Some (inr ECancelled)) else
      let c0' := apply_on_irq c0 in
      let '(flt, c1) := tick c0' in
      if flt then run f c1 (h EBusy) (TIvFault IvIrq :: tr) else run f c1 (k []) (TIv IvIrq :: tr)
    | Do (Iv IvBusy) k h =>
      let '(flt, c1) := tick c in
      if flt then run f c1 (h EBusy) (TIvFault IvBusy :: tr) else run f c1 (k []) (TIv IvBusy :: tr)
    | Do (Iv call) k _ => run f c (k []) (TIv call :: tr)      (* reset / RF switch: plain outputs, outside the fault model *)
    | Do (DelayNs ns) k _ => run f c (k []) (TDelay ns :: tr)
    | Do (St tag v) k _ => run f (with_drv c (set_nth_list (c_drv c) tag v)) (k []) tr
    | Do (Ld tag) k _ => run f c (k (nth tag (c_drv c) [])) tr
    end
  end.
