(* Model/Sx127x.v -- lora-phy/src/sx127x/{mod,sx1276,sx1272}.rs: every RadioKind operation of the SX127x driver as a program of
   SPI transactions.  Register addresses and parameter codes come from Gen/PhyTables.v (regenerated from the source). *)
From Coq Require Import NArith ZArith List Bool.
From LoraV Require Import Base.Bytes Gen.PhyTables Model.PhyCore Model.Sx126x Model.Toa.
Import ListNotations.
Open Scope N_scope.

Inductive variant127 := V1276 | V1272.
Record cfg127 := { h_variant : variant127; h_tcxo : bool; h_tx_boost : bool; h_rx_boost : bool }.

Definition wreg (reg v : N) : prog unit := spi_write [N.lor reg 0x80; v] false.
Definition rreg (reg : N) : prog N := r <- spi_read [N.land reg 0x7f] 1 ;; Ret (nthN r 0).

(* ---- arithmetic *)
Definition pll_step_127 (f : N) : N := ((f * 524288 + 16000000) / 32000000) mod 4294967296.
Definition pll_to_freq_127 (s : N) : N := ((s * 32000000) / 524288) mod 4294967296.
Definition linearize_rssi (r : N) : Z := ((Z.of_N r * 16 + 7) / 15)%Z.
(* sync_word_to_legacy *)
Definition sync_legacy (sw : N) : option N :=
  let msb := hi8 sw in let lsb := lo8 sw in
  if (N.land msb 0x0F =? 4) && (N.land lsb 0x0F =? 4) then Some (N.lor (N.land msb 0xF0) (lsb / 16)) else None.

Definition bw_codes (v : variant127) := match v with V1276 => sx1276_bw_codes | V1272 => sx1272_bw_codes end.

(* ---- operations *)
Definition set_buffer_base_127 (txb rxb : N) : prog unit :=
  if (255 <? txb) || (255 <? rxb) then Fail (EInvalidBaseAddress txb rxb)
  else wreg s7_Register_RegFifoTxBaseAddr txb ;;; wreg s7_Register_RegFifoRxBaseAddr rxb.

(* init_lora -> the SX1276 "sensitivity quirk" flag remembered by the driver *)
Definition init_lora_127 (g : cfg127) (sw : N) : prog bool :=
  match sync_legacy sw with
  | None => Fail EInvalidSyncWord
  | Some s =>
    (if h_tcxo g then wreg (match h_variant g with V1276 => s7_Register_RegTcxoSX1276 | V1272 => s7_Register_RegTcxoSX1272 end) s7c_tcxo_for_oscillator
     else Ret tt) ;;;
    wreg s7_Register_RegSyncWord s ;;;
    set_buffer_base_127 0 0 ;;;
    match h_variant g with
    | V1276 => v <- rreg s7_Register_RegVersion ;; Ret (v =? 0x12)
    | V1272 => Ret false
    end
  end.
Definition set_sync_127 (sw : N) : prog unit :=
  match sync_legacy sw with None => Fail EInvalidSyncWord | Some s => wreg s7_Register_RegSyncWord s end.

Definition create_mod_127 (g : cfg127) (sf bw cr freq : N) : option rerr :=
  match code s7_sf_codes sf, code s7_cr_codes cr, code (bw_codes (h_variant g)) bw with
  | None, _, _ => Some EUnavailableSF
  | _, None, _ => Some EPanic
  | _, _, None => Some EUnavailableBW
  | Some _, Some _, Some _ => if ((bw =? 8) || (bw =? 9)) && (freq <? 400000000) then Some EInvalidBwForFreq else None
  end.
Definition create_pkt_127 (sf : N) (implicit : bool) : option rerr := if (sf =? 1) && negb implicit then Some EInvalidSF6Explicit else None.

Definition set_standby_127 : prog unit := wreg s7_Register_RegOpMode (N.lor s7_LoRaMode_Standby 0x80) ;;; iv IvSwOff.
Definition set_sleep_127 : prog unit := iv IvSwOff ;;; spi_write [N.lor s7_Register_RegOpMode 0x80; N.lor s7_LoRaMode_Sleep 0x80] true.
Definition reset_127 : prog unit := iv IvReset ;;; set_sleep_127.
(* ensure_ready(mode): a chip the driver believes asleep is told to sleep in LoRa mode (again) before it is woken: LongRangeMode is only
   writable in sleep mode, and a reset sequence that failed half-way leaves the chip in FSK standby *)
Definition ensure_ready_127 (sleeping : bool) : prog unit :=
  if sleeping then spi_write [N.lor s7_Register_RegOpMode 0x80; N.lor s7_LoRaMode_Sleep 0x80] true else Ret tt.

Definition set_ocp (trim : N) : prog unit := wreg s7_Register_RegOcp (N.lor trim 0x20).
Definition clampz (lo hi x : Z) : Z := Z.max lo (Z.min hi x).

(* register values chosen for a requested output power: (RegPaConfig, RegPaDac, OCP trim) *)
Definition regs_1276 (p : Z) (boost : bool) : Z * Z * N :=
  if boost then
    let txp := clampz 2 20 p in
    if (17 <? txp)%Z then (128 + (txp - 5), 135, s7_OcpTrim_240Ma)%Z else (128 + (txp - 2), 132, s7_OcpTrim_100Ma)%Z
  else
    let txp := clampz (-4) 14 p in
    ((if (0 <? txp) then 112 + txp else txp + 4), 132, s7_OcpTrim_100Ma)%Z.
Definition set_tx_power_1276 (p : Z) (boost : bool) : prog unit :=
  let '(pc, pd, ocp) := regs_1276 p boost in
  wreg s7_Register_RegPaDacSX1276 (Z.to_N pd) ;;; set_ocp ocp ;;; wreg s7_Register_RegPaConfig (Z.to_N pc).

(* (RegPaConfig, RegPaDac) *)
Definition regs_1272 (p : Z) (boost : bool) : Z * Z :=
  if boost then
    if (17 <? p)%Z then (128 + (clampz 5 20 p - 5), 135)%Z else (128 + (clampz 2 17 p - 2), 132)%Z
  else (clampz (-1) 14 p + 1, 132)%Z.
Definition set_tx_power_1272 (p : Z) (boost : bool) : prog unit :=
  let '(pc, pd) := regs_1272 p boost in
  wreg s7_Register_RegPaConfig (Z.to_N pc) ;;; wreg s7_Register_RegPaDacSX1272 (Z.to_N pd).

Definition set_tx_power_127 (g : cfg127) (p : Z) (is_tx_prep : bool) : prog unit :=
  (match h_variant g with V1276 => set_tx_power_1276 p (h_tx_boost g) | V1272 => set_tx_power_1272 p (h_tx_boost g) end) ;;;
  let ramp := if is_tx_prep then s7_RampTime_Ramp40Us else s7_RampTime_Ramp250Us in
  wreg s7_Register_RegPaRamp (match h_variant g with V1276 => ramp | V1272 => N.lor ramp 16 end).

Definition bw_hz_of (bw : N) : Z := Toa.bw_hz (Z.of_N bw).

(* the read-modify-write functions applied to the registers that hold the low-data-rate-optimisation bit
   (SX1272: RegModemConfig1 bit 0, shared with header mode (bit 2) and CRC (bit 1); SX1276: RegModemConfig3 bit 3) *)
Definition mod_c1_1272 (c1 bwv crv ldro : N) : N := N.lor (N.lor (N.lor (N.land c1 6) (u8 (bwv * 64))) (u8 (crv * 8))) ldro.
Definition pkt_c1_1272 (c1 : N) (implicit crc : bool) : N := N.lor (N.lor (N.land c1 0xF9) (b2n implicit * 4)) (b2n crc * 2).
Definition mod_c3_1276 (c3 ldro : N) : N := N.lor (N.land c3 0xf3) (if ldro =? 0 then 0 else 8).

Definition set_mod_1276 (quirk : bool) (sfv bwv crd ldro bw freq : N) : prog unit :=
  c2 <- rreg s7_Register_RegModemConfig2 ;;
  wreg s7_Register_RegModemConfig2 (N.lor (N.land c2 0x0f) (N.land (u8 (sfv * 16)) 0xf0)) ;;;
  c1 <- rreg s7_Register_RegModemConfig1 ;;
  wreg s7_Register_RegModemConfig1 (N.lor (N.land c1 0x0f) (u8 (bwv * 16))) ;;;
  c1' <- rreg s7_Register_RegModemConfig1 ;;
  wreg s7_Register_RegModemConfig1 (N.lor (N.land c1' 0xf1) (u8 ((crd - 4) * 2))) ;;;
  c3 <- rreg s7_Register_RegModemConfig3 ;;
  wreg s7_Register_RegModemConfig3 (mod_c3_1276 c3 ldro) ;;;
  (if quirk then
     if (bw =? 9) && (862000000 <=? freq) && (freq <=? 1020000000) then wreg s7_Register_RegHighBwOptimize1 2 ;;; wreg s7_Register_RegHighBwOptimize2 0x64
     else if (bw =? 9) && (410000000 <=? freq) && (freq <=? 525000000) then wreg s7_Register_RegHighBwOptimize1 2 ;;; wreg s7_Register_RegHighBwOptimize2 0x7f
     else wreg s7_Register_RegHighBwOptimize1 3
   else Ret tt) ;;;
  d <- rreg s7_Register_RegDetectionOptimize ;;
  if bw =? 9 then wreg s7_Register_RegDetectionOptimize (N.lor d 0x80)
  else if (62500 <=? bw_hz_of bw)%Z then
    wreg s7_Register_RegDetectionOptimize (N.land d 0x7f) ;;; wreg s7_Register_RegIfFreq1 0x40 ;;; wreg s7_Register_RegIfFreq2 0
  else Ret tt.

Definition set_mod_1272 (sfv bwv crv ldro : N) : prog unit :=
  c1 <- rreg s7_Register_RegModemConfig1 ;;
  wreg s7_Register_RegModemConfig1 (mod_c1_1272 c1 bwv crv ldro) ;;;
  c2 <- rreg s7_Register_RegModemConfig2 ;;
  wreg s7_Register_RegModemConfig2 (N.lor (N.land c2 15) (u8 (sfv * 16))).

(* set_modulation_params(sf idx, bw idx, cr idx, ldro, freq) *)
Definition set_mod_127 (g : cfg127) (quirk : bool) (sf bw cr ldro freq : N) : prog unit :=
  match code s7_sf_codes sf, code (bw_codes (h_variant g)) bw, code s7_cr_codes cr with
  | None, _, _ => Fail EUnavailableSF
  | _, None, _ => Fail EUnavailableBW
  | _, _, None => Fail EPanic
  | Some sfv, Some bwv, Some crv =>
    let '(opt, thr) := if sf =? 1 then (5, 0x0c) else (3, 0x0a) in
    d <- rreg s7_Register_RegDetectionOptimize ;;
    wreg s7_Register_RegDetectionOptimize (N.lor (N.land d 0xF8) opt) ;;;
    wreg s7_Register_RegDetectionThreshold thr ;;;
    match h_variant g with
    | V1276 => set_mod_1276 quirk sfv bwv (crv + 4) ldro bw freq
    | V1272 => set_mod_1272 sfv bwv crv ldro
    end
  end.

Definition set_pkt_127 (g : cfg127) (preamble : N) (implicit : bool) (len : N) (crc iq : bool) : prog unit :=
  wreg s7_Register_RegPreambleMsb (hi8 preamble) ;;; wreg s7_Register_RegPreambleLsb (lo8 preamble) ;;;
  (match h_variant g with
   | V1276 =>
     c1 <- rreg s7_Register_RegModemConfig1 ;;
     wreg s7_Register_RegModemConfig1 (if implicit then N.lor c1 1 else N.land c1 0xfe) ;;;
     c2 <- rreg s7_Register_RegModemConfig2 ;;
     wreg s7_Register_RegModemConfig2 (if crc then N.lor c2 4 else N.land c2 0xfb)
   | V1272 =>
     c1 <- rreg s7_Register_RegModemConfig1 ;;
     wreg s7_Register_RegModemConfig1 (pkt_c1_1272 c1 implicit crc)
   end) ;;;
  (if implicit then wreg s7_Register_RegPayloadLength len else Ret tt) ;;;
  wreg s7_Register_RegInvertiq (N.lor 0x26 (if iq then 64 else 1)) ;;;
  wreg s7_Register_RegInvertiq2 (if iq then 0x19 else 0x1d).

Definition set_channel_127 (f : N) : prog unit :=
  let frf := pll_step_127 f in
  wreg s7_Register_RegFrfMsb ((frf / 65536) mod 256) ;;; wreg s7_Register_RegFrfMid ((frf / 256) mod 256) ;;; wreg s7_Register_RegFrfLsb (frf mod 256).

Definition set_payload_127 (p : list N) : prog unit :=
  wreg s7_Register_RegFifoAddrPtr 0 ;;; wreg s7_Register_RegPayloadLength 0 ;;;
  spi_write_payload [N.lor s7_Register_RegFifo 0x80] p false ;;;
  wreg s7_Register_RegPayloadLength (u8 (N.of_nat (length p))).

Definition do_tx_127 : prog unit := iv IvSwTx ;;; wreg s7_Register_RegOpMode (N.lor s7_LoRaMode_Tx 0x80).
Definition clear_irq_127 : prog unit := wreg s7_Register_RegIrqFlags 0xff.

Definition set_symb_timeout_127 (n : N) : prog unit :=
  let v := N.min n s7c_sx127x_max_lora_symb_num_timeout in
  c2 <- rreg s7_Register_RegModemConfig2 ;;
  wreg s7_Register_RegModemConfig2 (N.lor (N.land c2 0xfc) ((v / 256) mod 4)) ;;;
  wreg s7_Register_RegSymbTimeoutLsb (v mod 256).

Definition lna (g : cfg127) : N := if h_rx_boost g then N.lor s7_LnaGain_G1 3 else s7_LnaGain_G1.

Definition do_rx_127 (g : cfg127) (m : rxmode) : prog unit :=
  match m with
  | RxDuty _ _ => Fail EDutyCycleUnsupported
  | _ =>
    let '(n, mode) := match m with RxSingle ns => (N.max ns s7c_sx127x_min_lora_symb_num_timeout, s7_LoRaMode_RxSingle) | _ => (0, s7_LoRaMode_RxContinuous) end in
    iv IvSwRx ;;; set_symb_timeout_127 n ;;; wreg s7_Register_RegLna (lna g) ;;; wreg s7_Register_RegFifoAddrPtr 0 ;;;
    clear_irq_127 ;;; wreg s7_Register_RegOpMode (N.lor mode 0x80)
  end.

Definition get_rx_payload_127 (implicit : bool) (cfg_len buflen : N) : prog (N * list N) :=
  len <- (if implicit then Ret cfg_len else rreg s7_Register_RegRxNbBytes) ;;
  if buflen <? len then Fail (EPayloadSizeMismatch len buflen) else
  addr <- rreg s7_Register_RegFifoRxCurrentAddr ;;
  wreg s7_Register_RegFifoAddrPtr addr ;;;
  data <- spi_read [N.land s7_Register_RegFifo 0x7f] (N.to_nat len) ;;
  wreg s7_Register_RegFifoAddrPtr 0 ;;;
  Ret (len, data).

Definition rssi_offset_127 (g : cfg127) : prog Z :=
  match h_variant g with
  | V1272 => Ret s7c_sx1272_rssi_offset
  | V1276 =>
    a <- rreg s7_Register_RegFrfMsb ;; b <- rreg s7_Register_RegFrfMid ;; c <- rreg s7_Register_RegFrfLsb ;;
    Ret (if s7c_sx1276_rf_mid_band_thresh <? pll_to_freq_127 (a * 65536 + b * 256 + c) then s7c_sx1276_rssi_offset_hf else s7c_sx1276_rssi_offset_lf)
  end.

(* get_rx_packet_status -> (rssi, snr); `as i8 as i16 / 4` truncates toward zero *)
Definition snr_127 (raw : N) : Z := Z.quot (as_i8 raw) 4.
Definition rssi_127 (off : Z) (raw_rssi raw_snr : N) : Z :=
  let snr := snr_127 raw_snr in (if (0 <=? snr)%Z then off + linearize_rssi raw_rssi else off + linearize_rssi raw_rssi + snr)%Z.
Definition pkt_status_127 (g : cfg127) : prog (Z * Z) :=
  s <- rreg s7_Register_RegPktSnrValue ;;
  r <- rreg s7_Register_RegPktRssiValue ;;
  off <- rssi_offset_127 g ;;
  Ret (rssi_127 off r s, snr_127 s).
Definition get_rssi_127 (g : cfg127) : prog Z :=
  r <- rreg s7_Register_RegRssiValue ;; off <- rssi_offset_127 g ;; Ret (off + Z.of_N r)%Z.

Definition do_cad_127 (g : cfg127) : prog unit :=
  iv IvSwRx ;;; wreg s7_Register_RegLna (lna g) ;;; wreg s7_Register_RegOpMode (N.lor s7_LoRaMode_Cad 0x80).

Definition set_irq_127 (m : irqmode) : prog unit :=
  clear_irq_127 ;;;
  match m with
  | IqTransmit =>
    wreg s7_Register_RegIrqFlagsMask (N.lxor s7_IrqMask_All s7_IrqMask_TxDone) ;;;
    d <- rreg s7_Register_RegDioMapping1 ;; wreg s7_Register_RegDioMapping1 (N.lor (N.land d s7_DioMapping1Dio0_Mask) s7_DioMapping1Dio0_TxDone)
  | IqReceive =>
    wreg s7_Register_RegIrqFlagsMask (N.lxor s7_IrqMask_All (N.lor (N.lor (N.lor s7_IrqMask_RxDone s7_IrqMask_RxTimeout) s7_IrqMask_CRCError) s7_IrqMask_HeaderValid)) ;;;
    d <- rreg s7_Register_RegDioMapping1 ;;
    wreg s7_Register_RegDioMapping1 (N.lor (N.land (N.land (N.land d s7_DioMapping1Dio0_Mask) s7_DioMapping1Dio1_Mask) s7_DioMapping1Dio3_Mask)
                                           (N.lor (N.lor s7_DioMapping1Dio0_RxDone s7_DioMapping1Dio1_RxTimeOut) s7_DioMapping1Dio3_ValidHeader))
  | IqCad =>
    wreg s7_Register_RegIrqFlagsMask (N.lxor s7_IrqMask_All (N.lor s7_IrqMask_CADDone s7_IrqMask_CADActivityDetected)) ;;;
    d <- rreg s7_Register_RegDioMapping1 ;; wreg s7_Register_RegDioMapping1 (N.lor (N.land d s7_DioMapping1Dio0_Mask) s7_DioMapping1Dio0_CadDone)
  | _ =>
    wreg s7_Register_RegIrqFlagsMask s7_IrqMask_All ;;;
    d <- rreg s7_Register_RegDioMapping1 ;; wreg s7_Register_RegDioMapping1 (N.lor (N.land d s7_DioMapping1Dio0_Mask) s7_DioMapping1Dio0_Other)
  end.

Definition get_irq_state_127 (m : irqmode) : prog irqstate :=
  f <- rreg s7_Register_RegIrqFlags ;;
  match m with
  | IqTransmit => if is_set s7_IrqMask_TxDone f then Ret (IrqDone None) else Ret IrqNoneYet
  | IqReceive => if is_set s7_IrqMask_RxDone f then Ret (IrqDone None) else if is_set s7_IrqMask_RxTimeout f then Fail EReceiveTimeout
                 else if is_set s7_IrqMask_HeaderValid f then Ret IrqPreamble else Ret IrqNoneYet
  | IqCad => if is_set s7_IrqMask_CADDone f then Ret (IrqDone (Some (is_set s7_IrqMask_CADActivityDetected f))) else Ret IrqNoneYet
  | _ => Ret IrqNoneYet
  end.
Definition process_irq_127 (m : irqmode) (clear : bool) : prog irqstate :=
  st <- attempt (get_irq_state_127 m) ;;
  (if clear then clear_irq_127 else Ret tt) ;;;
  match st with inl v => Ret v | inr e => Fail e end.

Definition set_cw_127 (g : cfg127) : prog unit :=
  match h_variant g with
  | V1272 => Fail EPanic                      (* todo!() *)
  | V1276 =>
    iv IvSwTx ;;; p <- rreg s7_Register_RegPaConfig ;; wreg s7_Register_RegPaConfig (N.lor p 0x80) ;;;
    wreg s7_Register_RegOpMode 0x83 ;;; c <- rreg s7_Register_RegModemConfig2 ;; wreg s7_Register_RegModemConfig2 (N.lor c 8)
  end.
