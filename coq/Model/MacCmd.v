(* Model/MacCmd.v -- the framing that #[derive(CommandHandler)] (lorawan-macros/src/lib.rs) generates
   for a command table, and the fused iterator MacCommands<T> (lorawan-encoding/src/maccommands.rs).
   A table row is (cid, Some len | None, helper) as produced by tools/rs2v/cmdtables.py. *)
From LoraV Require Import Base.Bytes.

Definition row := (N * option nat * N)%type.
Definition table := list row.

Inductive perr := UnknownCid (cid : N) | Truncated (cid : N).
Inductive pres :=
| POk (cid : N) (payload : list N) (consumed : nat)
| PErr (e : perr)
| PPanic.                                   (* data[0] on an empty slice *)

Fixpoint popcount4 (n : nat) (b : N) : nat :=
  match n with O => O | S k => ((if N.testbit b (N.of_nat k) then 1 else 0) + popcount4 k b)%nat end.

(* len() of a variable-length payload constructed over the whole rest *)
Definition var_len (helper : N) (rest : list N) : nat :=
  match helper with
  | 0 => Nat.max 1 (length rest)                                 (* TxFramesCtrlReq, EchoIncPayloadReq/Ans *)
  | _ => (1 + popcount4 4 (N.land (nthN rest 0) 0x0f) * 5)%nat      (* McGroupStatusAns: 1 + required_len(rest[0]) *)
  end.

Fixpoint lookup (t : table) (cid : N) : option row :=
  match t with
  | [] => None
  | (c, l, h) :: t' => if c =? cid then Some (c, l, h) else lookup t' cid
  end.

(* <T as MacCommandSet>::parse_one *)
Definition parse_one (t : table) (data : list N) : pres :=
  match data with
  | [] => PPanic
  | cid :: rest =>
    match lookup t cid with
    | None => PErr (UnknownCid cid)
    | Some (_, Some len, _) =>
      if Nat.ltb (length data) (1 + len) then PErr (Truncated cid)
      else POk cid (firstn len rest) (1 + len)
    | Some (_, None, h) =>
      if Nat.eqb (length rest) 0 then PErr (Truncated cid)
      else let len := var_len h rest in
           if Nat.ltb (length rest) len then PErr (Truncated cid)
           else POk cid (firstn len rest) (1 + len)
    end
  end.

(* iterator state: remaining data, errored flag *)
Definition istate := (list N * bool)%type.
Inductive item := IOk (cid : N) (payload : list N) | IErr (e : perr) | IPanic.

(* Iterator::next *)
Definition next (t : table) (s : istate) : option item * istate :=
  let '(data, errored) := s in
  if errored || Nat.eqb (length data) 0 then (None, s)
  else match parse_one t data with
       | POk cid p n => (Some (IOk cid p), (skipn n data, errored))
       | PErr e => (Some (IErr e), (data, true))
       | PPanic => (Some IPanic, s)
       end.

(* collect up to fuel items *)
Fixpoint collect (t : table) (fuel : nat) (s : istate) : list item :=
  match fuel with
  | O => []
  | S f => match next t s with
           | (None, _) => []
           | (Some it, s') => it :: collect t f s'
           end
  end.

Definition parse_all (t : table) (data : list N) : list item := collect t (S (length data)) (data, false).

(* ---- the public payload constructors `XPayload::new(data) -> Result<X, Error>` (a second way to obtain a view, besides the stream
   iterators): fixed-length payloads (macro template: accept exactly len bytes) and the
   variable-length McGroupStatusAnsPayload::new (status byte + 5 bytes per group reported in AnsGroupMask) *)
Definition fixed_new (len : nat) (data : list N) : option (list N) :=
  if Nat.eqb (length data) len then Some data else None.
Definition mcstatus_new (data : list N) : option (list N) :=
  match data with
  | [] => None
  | b0 :: _ => let need := (1 + popcount4 4 (N.land b0 0x0f) * 5)%nat in
               if Nat.ltb (length data) need then None else Some (firstn need data)
  end.
(* accessors of the McGroupStatusAns view: AnsGroupMask, NbTotalGroups, the items (group id, 4 address bytes) *)
Definition mcstatus_mask (v : list N) : N := N.land (nthN v 0) 0x0f.
Definition mcstatus_total (v : list N) : N := N.land (N.shiftr (nthN v 0) 4) 7.
Fixpoint mcstatus_items (fuel : nat) (d : list N) : list (list N) :=
  match fuel with
  | O => []
  | S k => if Nat.ltb (length d) 5 then [] else firstn 5 d :: mcstatus_items k (skipn 5 d)
  end.

(* ChannelMask::<N>::new(data): refuses fewer than N bytes, keeps the first N of anything longer *)
Definition chmask_new (n : nat) (data : list N) : option (list N) :=
  if Nat.ltb (length data) n then None else Some (firstn n data).
