(* Props/C17.v -- property C17: programmed frequency, TX power and RX timeout decode to what was requested. *)
From Coq Require Import ZArith NArith List Bool.
From LoraV Require Import Base.Bytes Gen.PhyTables Model.PhyCore Model.Sx126x Model.Sx127x Model.Toa Spec.PhySpec Proofs.PhyArith.
Import ListNotations.

(* SX126x synthesiser word (the value set_channel_126 sends): nearest step, under half a hertz off, no overflow up to 4.09 GHz *)
Theorem C17_sx126x_frequency : forall f, (f <= 4094967295)%N ->
  exists s, pll_step_126 f = Some s /\ (s < 2 ^ 32)%N /\ (- 7812 <= Z.of_N s * 15625 - Z.of_N f * 16384 <= 7812)%Z.
Proof. exact pll126_nearest. Qed.
Theorem C17_frequency_bytes : forall s, (s < 2 ^ 32)%N ->
  ((s / 16777216) mod 256 * 16777216 + (s / 65536) mod 256 * 65536 + (s / 256) mod 256 * 256 + s mod 256 = s)%N.
Proof. exact be4_recompose. Qed.
(* SX127x synthesiser word: the nearest step, at most 30.52 Hz off, fits the three Frf registers *)
Theorem C17_sx127x_frequency : forall f, (f <= 1020000000)%N ->
  let s := pll_step_127 f in (s < 2 ^ 24)%N /\ (- 16000000 < Z.of_N f * 524288 - Z.of_N s * 32000000 <= 16000000)%Z.
Proof. exact pll127_nearest. Qed.

(* symbol-count timeouts *)
Theorem C17_sx126x_timeout : forall n,
  let '(val, mant, exp) := symb_timeout_126 n in
  let t := sx126x_timeout_symbols (Z.of_N mant) (Z.of_N exp) in
  (Z.of_N (N.min n 248) <= t <= Z.of_N (N.min n 248) + 7)%Z /\ t = Z.of_N val /\ (mant <= 31)%N /\ (exp + mant * 8 < 256)%N.
Proof. exact timeout126_covers. Qed.
Theorem C17_sx127x_timeout : forall n,
  let v := N.min n 1023 in ((v / 256) mod 4 * 256 + v mod 256 = v)%N /\ ((v / 256) mod 4 < 4)%N /\ (v mod 256 < 256)%N.
Proof. exact timeout127_exact. Qed.

(* the LoRaWAN adapter: 14 + floor(ms * 1000 / t_sym) symbols cover the 12.25-symbol preamble plus the requested margin *)
Theorem C17_adapter_window : forall ts ms, (0 < ts)%Z -> (0 <= ms)%Z -> (4 * (14 + (ms * 1000) / ts) * ts >= 49 * ts + 4000 * ms)%Z.
Proof. exact adapter_window_covers. Qed.

(* output power: for EVERY requested value the PA configuration and SetTxParams chosen from the (regenerated) table decode, by the
   datasheet / ST anchors, to the request clamped into the PA's range (hence never above a request inside the range), and the
   SetTxParams byte is legal for the selected PA; v = 0 SX1261 / STM32WL low power, 1 SX1262, 2 STM32WL high power *)
Theorem C17_sx126x_power : forall (v : nat) p,
  let '(lp, anchor, t, lo, hi) := match v with
    | 0%nat => (true, sx126x_anchor true, sx1261_pa_table, -17, 15)
    | 1%nat => (false, sx126x_anchor false, sx1262_pa_table, -9, 22)
    | _ => (false, stm32wl_hp_anchor, stm32wl_hp_pa_table, -9, 22) end%Z in
  pa_ok lp anchor t lo hi p = true.
Proof. exact sx126x_power_decodes. Qed.
Theorem C17_sx1276_power : forall p boost,
  let '(paconfig, padac, _) := regs_1276 p boost in
  let want := if boost then clampz 2 20 p else clampz (-4) 14 p in
  (0 <= paconfig < 256)%Z /\ (10 * want - 2 <= sx1276_out_tenths paconfig padac <= 10 * want)%Z.
Proof. exact sx1276_power_decodes. Qed.
Theorem C17_sx1272_power : forall p boost,
  let '(paconfig, padac) := regs_1272 p boost in
  let want := if boost then clampz 2 20 p else clampz (-1) 14 p in
  (0 <= paconfig < 256)%Z /\ sx1272_out_dbm paconfig padac = want.
Proof. exact sx1272_power_decodes. Qed.

(* RSSI / SNR of every raw status byte *)
Theorem C17_sx126x_status : forall r s, (r < 256)%N -> (s < 256)%N ->
  let rssi := rssi_126 r in let snr := snr_126 s in
  (2 * rssi <= - Z.of_N r < 2 * rssi + 2)%Z /\ (Z.abs (4 * snr - as_i8 s) <= 2)%Z.
Proof. exact status126_within. Qed.
Theorem C17_sx127x_status : forall r s off, (r < 256)%N -> (s < 256)%N ->
  let snr := snr_127 s in let rssi := rssi_127 off r s in
  (Z.abs (4 * snr - as_i8 s) <= 3)%Z /\
  (Z.abs (15 * (rssi - off - (if (0 <=? snr)%Z then 0 else snr)) - 16 * Z.of_N r) <= 7)%Z.
Proof. exact status127_within. Qed.
