(* Props/C12.v -- property C12: uplink header bits and ADR back-off follow the session history (refinement of Spec/AdrSpec.v). *)
From Coq Require Import NArith ZArith List Bool.
From LoraV Require Import Base.Bytes Model.Frame Spec.L2Frame Model.Region Model.Mac Spec.AdrSpec
  Proofs.AdrProofs Proofs.SessionProofs.
Import ListNotations.
Local Open Scope N_scope.

(* "a lower data rate exists" / "next lower region-defined rate": the greatest defined rate below the current one, skipping gaps *)
Theorem C12_next_lower : forall r current, is_next_lower (defined r) current (next_lower_datarate r current).
Proof. exact next_lower_spec. Qed.

(* an uplink concluded without an accepted downlink is the spec's timeout step: the count advances, the data rate steps down
   exactly at 96, 128, ... and never otherwise; nothing else of the configuration changes *)
Theorem C12_timeout_step_refines : forall s cf r, ss_fcnt_up s <> 0xFFFFFFFF ->
  let '(s', cf', _) := rx2_complete_session s cf r in
  abs s' cf' = spec_uplink_timeout (abs s cf) (next_lower_datarate r (cf_data_rate cf)) /\
  cf_rx1_delay cf' = cf_rx1_delay cf /\ cf_tx_power cf' = cf_tx_power cf /\ cf_rx1_dr_offset cf' = cf_rx1_dr_offset cf /\
  cf_rx2_data_rate cf' = cf_rx2_data_rate cf /\ cf_rx2_frequency cf' = cf_rx2_frequency cf.
Proof. exact rx2_complete_refines. Qed.

Theorem C12_backoff_points : forall since, backoff_point since = true <-> exists k, 1 <= k /\ since = 64 + 32 * k.
Proof. exact backoff_point_iff. Qed.

Section C12.
  Variable enc mac_fn : list N -> list N -> list N.
  Hypothesis enc_len : forall k b, length (enc k b) = 16%nat.
  Hypothesis mac_len : forall k m, length (mac_fn k m) = 16%nat.

  (* every data uplink is the byte-exact LoRaWAN frame (C01) of a description with: the session's address, the requested
     message type, the current full counter, and (ADR, ADRACKReq, ACK) = the spec's bits for the abstract state; the owed ACK is consumed *)
  Theorem C12_uplink_header : forall s cf r data fport confirmed s' fcnt frame,
    prepare_buffer enc mac_fn s cf r data fport confirmed = Val (s', fcnt, frame) ->
    exists d,
      spec_data enc mac_fn d (ss_nwkskey s) (Some (ss_appskey s)) = Some frame /\
      df_type d = (if confirmed then ConfirmedUp else UnconfirmedUp) /\
      df_addr d = ss_devaddr s /\ df_fcnt d = ss_fcnt_up s /\
      (df_adr d, df_adr_ack_req d, df_ack d)
      = spec_bits (abs s cf) (match next_lower_datarate r (cf_data_rate cf) with Some _ => true | None => false end) /\
      abs s' cf = {| a_on := cf_adr cf; a_since := ss_adr_ack_cnt s; a_ack := false; a_dr := cf_data_rate cf |}.
  Proof. exact (uplink_header enc mac_fn enc_len mac_len). Qed.

  (* any accepted downlink restarts the count; a confirmed one makes exactly the next uplink carry ACK *)
  Theorem C12_accepted_downlink : forall s cf rg bytes maxp snr ignore_mac n o lay,
    fcnt_ok s -> bytes_ok bytes = true -> spec_accepts mac_fn s bytes maxp n -> validate bytes = Ok lay ->
    handle_rx_session enc mac_fn s cf rg bytes maxp snr ignore_mac = Val o ->
    ss_owed_ack (ro_session o) = (if is_confirmed (l_type lay) then true else ss_owed_ack s) /\
    ss_adr_ack_cnt (ro_session o) = 0 /\ ss_confirmed (ro_session o) = ss_confirmed s.
  Proof. exact (accept_ack_owed enc mac_fn). Qed.
End C12.
