(* Props/C07.v -- property C07: frames that are not accepted change nothing.
   State EQUALITY after a rejected frame (session, configuration, channel plan, caller's buffer), response NoUpdate:
   twin runs differing only by rejected frames are therefore in equal states at every step, for all histories.
   Whether a frame counts as rejected is spec_accepts (Spec/L2Frame.v reference MIC + freshness rule), not the model. *)
From Coq Require Import NArith ZArith List Bool.
From LoraV Require Import Base.Bytes Model.Frame Spec.L2Frame Model.Region Model.Mac Proofs.SessionProofs Model.AsyncDev Model.NbDev Proofs.FrontEndReject Crypto.CMAC Proofs.FrontEndExamples.
Import ListNotations.
Local Open Scope N_scope.

Section C07.
  Variable enc mac_fn : list N -> list N -> list N.

  Theorem C07_reject_is_identity : forall s cf rg bytes maxp snr ignore_mac,
    fcnt_ok s -> bytes_ok bytes = true ->
    (forall n, ~ spec_accepts mac_fn s bytes maxp n) -> ~ oversized bytes maxp ->
    handle_rx_session enc mac_fn s cf rg bytes maxp snr ignore_mac = Val (unchanged s cf rg bytes RNoUpdate).
  Proof. exact (reject_is_identity enc mac_fn). Qed.

  Theorem C07_oversized_only_ends_the_window : forall s cf rg bytes maxp snr ignore_mac,
    oversized bytes maxp ->
    handle_rx_session enc mac_fn s cf rg bytes maxp snr ignore_mac =
    if ignore_mac then Val (unchanged s cf rg bytes RNoUpdate)
    else let '(s', cf', resp) := rx2_complete_session s cf (rg_id rg) in
         Val {| ro_session := s'; ro_cf := cf'; ro_rg := rg; ro_resp := resp; ro_downlink := None; ro_buf := bytes |}.
  Proof. exact (oversized_is_timeout enc mac_fn). Qed.

  (* ... nor does it touch the application's queue of delivered, not yet collected downlinks *)
  Theorem C07_rejected_frame_keeps_the_downlink_queue : forall s cf rg bytes maxp snr ignore_mac depth q o,
    fcnt_ok s -> bytes_ok bytes = true ->
    (forall n, ~ spec_accepts mac_fn s bytes maxp n) ->
    handle_rx_session enc mac_fn s cf rg bytes maxp snr ignore_mac = Val o ->
    dl_queue_push depth q (ro_downlink o) = q.
  Proof. exact (rejected_frame_keeps_the_downlink_queue enc mac_fn). Qed.

  (* join procedure: a frame that is not a JoinAccept authentic under the root key leaves the MAC as it was *)
  Theorem C07_invalid_join_accept_is_identity : forall m nonce c bytes e buf,
    ja_check_mic_and_decrypt enc mac_fn bytes (cr_appkey c) = (Err e, buf) ->
    otaa_handle_rx enc mac_fn m nonce c bytes = Val (m, RNoUpdate, buf).
  Proof. intros m nonce c bytes e buf H. unfold otaa_handle_rx. rewrite H. reflexivity. Qed.

  (* The front-ends (Model/AsyncDev.v, Model/NbDev.v).  "Rejected" is decided by the reference codec per activation state:
     mac_rejects = (joined: not spec_accepts for any counter and not oversized | joining: not an authentic JoinAccept | unjoined: anything) *)

  (* async_device RX1 / RX2: a window that hears a rejected frame is a window that timed out -- same device, same calls, same outcome *)
  Theorem C07_async_window_rejected_frame_is_timeout : forall d e rf f rest,
    mac_rejects enc mac_fn (ad_mac d) (firstn 256 f) (rf_max_payload rf) ->
    faulty e = false ->
    rx_listen enc mac_fn d (with_script e (SvX f :: rest)) rf = rx_listen enc mac_fn d (with_script e (SvT :: rest)) rf.
  Proof. exact (async_window_rejected_frame_is_timeout enc mac_fn). Qed.

  (* async_device Class C reception: a rejected frame costs one rx call; the device continues as the twin whose script lacks it *)
  Theorem C07_async_rxc_rejected_frame_is_skipped : forall k d e rf duration resp f rest s,
    m_state (ad_mac d) = Joined s -> e_fault e = None ->
    mac_rejects enc mac_fn (ad_mac d) (firstn 256 f) (rf_max_payload rf) ->
    rxc_until enc mac_fn (S k) d (with_script e (SvX f :: rest)) rf duration resp =
    rxc_until enc mac_fn k d {| e_script := rest; e_calls := e_calls e + 1; e_fault := None; e_trace := ARxCont :: e_trace e |} rf duration resp.
  Proof. exact (async_rxc_rejected_frame_is_skipped enc mac_fn). Qed.

  (* nb_device: RxDone with a rejected frame = the radio still receiving: state, MAC and response (NoUpdate) identical; the window stays open *)
  Theorem C07_nb_rejected_frame_keeps_the_window_open : forall join rx1 rx2 w rf m e packet,
    (length packet < 256)%nat ->
    mac_rejects enc mac_fn m packet (rf_max_payload rf) ->
    handle_event enc mac_fn (NWaitRx join rx1 rx2 w rf) m e NPhy (RaRxDone packet) =
    handle_event enc mac_fn (NWaitRx join rx1 rx2 w rf) m e NPhy RaRxing /\
    (nfaulty e = false ->
     handle_event enc mac_fn (NWaitRx join rx1 rx2 w rf) m e NPhy (RaRxDone packet) =
     (NWaitRx join rx1 rx2 w rf, m, {| n_calls := n_calls e + 1; n_fault := n_fault e; n_trace := NcPhy :: n_trace e |}, NrNoUpdate)).
  Proof. exact (nb_rejected_frame_keeps_the_window_open enc mac_fn). Qed.
End C07.

(* non-vacuity: a joined device (concrete AES-128 / CMAC) and a frame it rejects in the sense of mac_rejects *)
Example C07_rejection_premise_met : mac_rejects aes_enc aes_mac ex_mac [0x60; 1; 2; 3] 51.
Proof. exact ex_rejects_garbage. Qed.
