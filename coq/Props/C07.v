(* Props/C07.v -- property C07: frames that are not accepted change nothing.
   State EQUALITY after a rejected frame (session, configuration, channel plan, caller's buffer), response NoUpdate:
   twin runs differing only by rejected frames are therefore in equal states at every step, for all histories.
   Whether a frame counts as rejected is spec_accepts (Spec/L2Frame.v reference MIC + freshness rule), not the model. *)
From Coq Require Import NArith ZArith List Bool.
From LoraV Require Import Base.Bytes Model.Frame Spec.L2Frame Model.Region Model.Mac Proofs.SessionProofs.
Import ListNotations.
Local Open Scope N_scope.

Section C07.
  Variable enc mac_fn : list N -> list N -> list N.

  Theorem C07_reject_is_identity : forall s cf rg bytes maxp snr ignore_mac,
    fcnt_ok s -> bytes_ok bytes = true ->
    (forall n, ~ spec_accepts mac_fn s bytes maxp n) -> ~ oversized bytes maxp ->
    handle_rx_session enc mac_fn s cf rg bytes maxp snr ignore_mac = Val (unchanged s cf rg bytes RNoUpdate).
  Proof. exact (reject_is_identity enc mac_fn). Qed.

  Theorem C07_oversized_only_ends_the_window : forall s cf rg bytes maxp snr ignore_mac,
    oversized bytes maxp ->
    handle_rx_session enc mac_fn s cf rg bytes maxp snr ignore_mac =
    if ignore_mac then Val (unchanged s cf rg bytes RNoUpdate)
    else let '(s', cf', resp) := rx2_complete_session s cf (rg_id rg) in
         Val {| ro_session := s'; ro_cf := cf'; ro_rg := rg; ro_resp := resp; ro_downlink := None; ro_buf := bytes |}.
  Proof. exact (oversized_is_timeout enc mac_fn). Qed.

  (* join procedure: a frame that is not a JoinAccept authentic under the root key leaves the MAC as it was *)
  Theorem C07_invalid_join_accept_is_identity : forall m nonce c bytes e buf,
    ja_check_mic_and_decrypt enc mac_fn bytes (cr_appkey c) = (Err e, buf) ->
    otaa_handle_rx enc mac_fn m nonce c bytes = Val (m, RNoUpdate, buf).
  Proof. intros m nonce c bytes e buf H. unfold otaa_handle_rx. rewrite H. reflexivity. Qed.
End C07.
