(* Props/C14.v -- property C14: the PHY driver and the radio chip never disagree about the radio's state. *)
From Coq Require Import ZArith NArith List Bool.
From LoraV Require Import Base.Bytes Gen.PhyTables Model.PhyCore Model.LoraDrv Proofs.LoraProofs.
Import ListNotations.
Local Open Scope nat_scope.

(* clause 1: an operation invoked in the wrong mode is refused without commanding the chip -- for every radio kind, every emulated
   chip state (registers, scripted reads, fault position, interrupt script), every accumulated trace: the result is InvalidRadioMode,
   the chip and the driver's fields are unchanged and nothing is added to the pin-level trace *)
Theorem C14_wrong_mode_refused_without_commanding : forall K c,
  (forall fuel, drv_mode c <> MTx -> refused K (tx K fuel) c) /\
  (is_rx (drv_mode c) = false ->
     refused K (start_rx K) c /\ (forall freq, refused K (rx_switch_channel K freq) c) /\
     (forall fuel pk buflen, refused K (complete_rx K fuel pk buflen) c /\ refused K (rx K fuel pk buflen) c) /\
     (forall pk buflen, refused K (get_rx_result K pk buflen) c)) /\
  (forall md, drv_mode c <> MCad -> refused K (cad K md) c).
Proof.
  intros K c. split; [intros fuel H; apply tx_refused; exact H|]. split.
  - intros H. split; [apply start_rx_refused; exact H|]. split; [intros freq; apply rx_switch_channel_refused; exact H|].
    split; [intros fuel pk buflen; split; [apply complete_rx_refused|apply rx_refused]; exact H|].
    intros pk buflen. apply get_rx_result_refused. exact H.
  - intros md H. apply cad_refused. exact H.
Qed.
