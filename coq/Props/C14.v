(* Props/C14.v -- property C14: the PHY driver and the radio chip never disagree about the radio's state. *)
From Coq Require Import ZArith NArith List Bool.
From LoraV Require Import Base.Bytes Gen.PhyTables Model.PhyCore Model.Sx126x Model.Sx127x Model.LoraDrv Model.LoraKinds Spec.ChipMon
  Proofs.LoraProofs Proofs.PhyHoare Proofs.PlainProgs Proofs.KindSpec Proofs.LoraInv Proofs.Kind126Proofs Proofs.Kind127Proofs Proofs.LoraHistory.
Import ListNotations.
Local Open Scope nat_scope.

(* clause 1: an operation invoked in the wrong mode is refused without commanding the chip -- for every radio kind, every emulated
   chip state (registers, scripted reads, fault position, interrupt script), every accumulated trace: the result is InvalidRadioMode,
   the chip and the driver's fields are unchanged and nothing is added to the pin-level trace *)
Theorem C14_wrong_mode_refused_without_commanding : forall K c,
  (forall fuel, drv_mode c <> MTx -> refused K (tx K fuel) c) /\
  (is_rx (drv_mode c) = false ->
     refused K (start_rx K) c /\ (forall freq, refused K (rx_switch_channel K freq) c) /\
     (forall fuel pk buflen, refused K (complete_rx K fuel pk buflen) c /\ refused K (rx K fuel pk buflen) c) /\
     (forall pk buflen, refused K (get_rx_result K pk buflen) c)) /\
  (forall md, drv_mode c <> MCad -> refused K (cad K md) c).
Proof.
  intros K c. split; [intros fuel H; apply tx_refused; exact H|]. split.
  - intros H. split; [apply start_rx_refused; exact H|]. split; [intros freq; apply rx_switch_channel_refused; exact H|].
    split; [intros fuel pk buflen; split; [apply complete_rx_refused|apply rx_refused]; exact H|].
    intros pk buflen. apply get_rx_result_refused. exact H.
  - intros md H. apply cad_refused. exact H.
Qed.

(* clauses 2-4, SX126x (SX1261 / SX1262 / STM32WL boards g, with or without TCXO / DC-DC): along every history of API operations
     init, sleep(warm/cold), prepare_for_tx, tx, prepare_for_rx(single/continuous/duty), start_rx, complete_rx, rx, rx_switch_channel,
     listen, prepare_for_cad, cad, set_lora_sync_word
   run on the emulated chip with ANY register / read contents, interrupt script, a fault at ANY SPI / BUSY / IRQ position, ANY wait
   that never completes (the caller's future dropped), and with the environment free to change everything of the chip between the
   operations except the driver object, the chip-side monitor (Spec/ChipMon.v: datasheet reading of the pin-level trace) has
     - never seen a command reach a sleeping chip (or one in the sleep phase of RxDutyCycle) that had not been woken   [bad_asleep = false]
     - never seen a transmission / reception / CAD start with something it depends on not programmed since the configuration was
       last lost (packet type, sync word, regulator / TCXO, buffer bases, modulation, packet, IRQ, frequency, PA)      [bad_start = false]
   and the driver's fields agree with the chip: the chip is asleep only if the driver believes Sleep, in an active mode (TX, RX,
   duty-cycled RX, CAD) only if that is the driver's mode, in standby whenever the driver believes Standby, and the cold_start flag
   is set whenever the chip has lost its basic configuration. *)
Theorem C14_sx126x_every_history : forall tc dc lo g (HD : g_dcdc g = dc) (HT : tc = match g_tcxo g with Some _ => true | None => false end)
    fuel rfuel c m,
  hist126 tc dc lo g HD HT fuel rfuel c m ->
  bad_asleep m = false /\ bad_start m = false /\ agree (dmode (c_drv c)) (cm m) /\
  (cold (c_drv c) = false -> valid_all m (it_init126 tc dc ++ [ITxParams; IPaConfig] ++ [IIrq])).
Proof.
  intros tc dc lo g HD HT fuel rfuel c m H. apply hist126_inv in H. destruct H as [[O1 O2] [A [C _]]]. repeat split; assumption.
Qed.

(* clause 4 for one operation: from any state of such a history, an operation that fails for a reason other than the pins (and is not
   refused for the mode, cancelled or a panic) leaves the chip in standby with the driver in standby -- or, for an error found
   before the radio was started / after the reception had ended, still in the prepared state it was in; after a timeout always
   standby on both sides; only a continuous reception goes on *)
Theorem C14_sx126x_failed_operation : forall tc dc lo g (HD : g_dcdc g = dc) (HT : tc = match g_tcxo g with Some _ => true | None => false end)
    fuel rfuel o c m c' tr e,
  valid_op o -> I126 tc dc lo g HD HT (c_drv c) m -> run rfuel c (op_prog (kind126 g) fuel o) [] = (c', tr, Some (inr e)) -> op_err e ->
  (dmode (c_drv c) = MRx RxContinuous /\ dmode (c_drv c') = dmode (c_drv c)) \/
  (cm (mon_op (xl126 tc dc lo (is_listen o)) m tr) = CStby /\
   (dmode (c_drv c') = MStandby \/ (dmode (c_drv c') = dmode (c_drv c) /\ ~ timeout e))).
Proof.
  intros tc dc lo g HD HT fuel rfuel o c m c' tr e VO HI R OE. pose proof (run126_keeps tc dc lo g HD HT fuel rfuel o c m VO HI) as S.
  rewrite R in S. destruct S as [_ C]. apply (C e eq_refl OE).
Qed.

(* the same for the SX127x (SX1276 / SX1272 boards h).  The monitor context has x_lora = true: the selection of the LoRa modem
   (RegOpMode.LongRangeMode, writable in sleep mode only) counts among the things every TX / RX / CAD start depends on, so "bad_start = false"
   includes "never started in FSK mode"; whenever the driver does not believe the chip asleep the LoRa modem is selected.  (This became
   provable with the /repo fix that makes the wake-up path re-assert sleep | LoRa; before it, a reset sequence that failed half-way left
   the chip in FSK mode for good -- see C14_sx127x_failed_reset_history.) *)
Theorem C14_sx127x_every_history : forall tc dc h quirk (HT : h_tcxo h = tc) fuel rfuel c m,
  hist127 tc dc h quirk HT fuel rfuel c m ->
  bad_asleep m = false /\ bad_start m = false /\ agree (dmode (c_drv c)) (cm m) /\
  (cold (c_drv c) = false -> valid_all m (it_init127 tc ++ [IPaConfig] ++ [IIrqMask; IDioMap])) /\
  (dmode (c_drv c) <> MSleep -> valid m ILoraMode = true).
Proof.
  intros tc dc h quirk HT fuel rfuel c m H. apply hist127_inv in H. pose proof H as [[O1 O2] [A [C _]]].
  split; [exact O1|]. split; [exact O2|]. split; [exact A|]. split; [exact C|].
  intros D. exact (Inv_lora _ _ _ _ _ H D eq_refl eq_refl).
Qed.
Theorem C14_sx127x_failed_operation : forall tc dc h quirk (HT : h_tcxo h = tc) fuel rfuel o c m c' tr e,
  valid_op o -> I127 tc dc h quirk HT (c_drv c) m -> run rfuel c (op_prog (kind127 h quirk) fuel o) [] = (c', tr, Some (inr e)) -> op_err e ->
  (dmode (c_drv c) = MRx RxContinuous /\ dmode (c_drv c') = dmode (c_drv c)) \/
  (cm (mon_op (xl127 tc dc (is_listen o)) m tr) = CStby /\
   (dmode (c_drv c') = MStandby \/ (dmode (c_drv c') = dmode (c_drv c) /\ ~ timeout e))).
Proof.
  intros tc dc h quirk HT fuel rfuel o c m c' tr e VO HI R OE. pose proof (run127_keeps tc dc h quirk HT fuel rfuel o c m VO HI) as S.
  rewrite R in S. destruct S as [_ C]. apply (C e eq_refl OE).
Qed.

(* the LoRaWAN adapter (LorawanRadio: tx, setup_rx, low_power; rx_single / rx_continuous are rx): its operations are sequences of the
   LoRa-layer operations above and keep the same invariant, on every emulated chip *)
Theorem C14_adapter_sx126x : forall tc dc lo g (HD : g_dcdc g = dc) (HT : tc = match g_tcxo g with Some _ => true | None => false end) fuel rfuel c m,
  I126 tc dc lo g HD HT (c_drv c) m ->
  (forall sf bw cr f pw buffer, match run rfuel c (lw_tx (kind126 g) fuel sf bw cr f pw buffer) [] with
     | (c', tr, Some _) => I126 tc dc lo g HD HT (c_drv c') (mon_op (xl126 tc dc lo false) m tr) | _ => True end) /\
  (forall sf bw cr f ms, match run rfuel c (lw_setup_rx (kind126 g) sf bw cr f ms) [] with
     | (c', tr, Some _) => I126 tc dc lo g HD HT (c_drv c') (mon_op (xl126 tc dc lo false) m tr) | _ => True end) /\
  (match run rfuel c (lw_low_power (kind126 g)) [] with
     | (c', tr, Some _) => I126 tc dc lo g HD HT (c_drv c') (mon_op (xl126 tc dc lo false) m tr) | _ => True end).
Proof.
  intros tc dc lo g HD HT fuel rfuel c m HI.
  assert (HF : Inv (xl126 tc dc lo false) (kind126 g) (ko126 tc dc lo g HD HT false) (c_drv c) (time_passes m)) by (apply Inv_time; exact HI).
  split; [|split].
  - intros sf bw cr f pw buffer.
    pose proof (wp_sound (xl126 tc dc lo false) unit rfuel (lw_tx (kind126 g) fuel sf bw cr f pw buffer) _ c [] (time_passes m)
                  (lw_tx_keeps (xl126 tc dc lo false) (kind126 g) (ko126 tc dc lo g HD HT false) fuel sf bw cr f pw buffer _ _ (eq_refl false) HF)) as S.
    destruct (run rfuel c (lw_tx (kind126 g) fuel sf bw cr f pw buffer) []) as [[c' tr] [r|]]; exact S.
  - intros sf bw cr f ms.
    pose proof (wp_sound (xl126 tc dc lo false) pktp rfuel (lw_setup_rx (kind126 g) sf bw cr f ms) _ c [] (time_passes m)
                  (lw_setup_rx_keeps _ _ _ sf bw cr f ms _ _ HF)) as S.
    destruct (run rfuel c (lw_setup_rx (kind126 g) sf bw cr f ms) []) as [[c' tr] [r|]]; exact S.
  - pose proof (wp_sound (xl126 tc dc lo false) unit rfuel (lw_low_power (kind126 g)) _ c [] (time_passes m) (lw_low_power_keeps _ _ _ _ _ HF)) as S.
    destruct (run rfuel c (lw_low_power (kind126 g)) []) as [[c' tr] [r|]]; exact S.
Qed.
Theorem C14_adapter_sx127x : forall tc dc h quirk (HT : h_tcxo h = tc) fuel rfuel c m,
  I127 tc dc h quirk HT (c_drv c) m ->
  (forall sf bw cr f pw buffer, match run rfuel c (lw_tx (kind127 h quirk) fuel sf bw cr f pw buffer) [] with
     | (c', tr, Some _) => I127 tc dc h quirk HT (c_drv c') (mon_op (xl127 tc dc false) m tr) | _ => True end) /\
  (forall sf bw cr f ms, match run rfuel c (lw_setup_rx (kind127 h quirk) sf bw cr f ms) [] with
     | (c', tr, Some _) => I127 tc dc h quirk HT (c_drv c') (mon_op (xl127 tc dc false) m tr) | _ => True end) /\
  (match run rfuel c (lw_low_power (kind127 h quirk)) [] with
     | (c', tr, Some _) => I127 tc dc h quirk HT (c_drv c') (mon_op (xl127 tc dc false) m tr) | _ => True end).
Proof.
  intros tc dc h quirk HT fuel rfuel c m HI.
  assert (HF : Inv (xl127 tc dc false) (kind127 h quirk) (ko127 tc dc h quirk HT false) (c_drv c) (time_passes m)) by (apply Inv_time; exact HI).
  split; [|split].
  - intros sf bw cr f pw buffer.
    pose proof (wp_sound (xl127 tc dc false) unit rfuel (lw_tx (kind127 h quirk) fuel sf bw cr f pw buffer) _ c [] (time_passes m)
                  (lw_tx_keeps (xl127 tc dc false) (kind127 h quirk) (ko127 tc dc h quirk HT false) fuel sf bw cr f pw buffer _ _ (eq_refl false) HF)) as S.
    destruct (run rfuel c (lw_tx (kind127 h quirk) fuel sf bw cr f pw buffer) []) as [[c' tr] [r|]]; exact S.
  - intros sf bw cr f ms.
    pose proof (wp_sound (xl127 tc dc false) pktp rfuel (lw_setup_rx (kind127 h quirk) sf bw cr f ms) _ c [] (time_passes m)
                  (lw_setup_rx_keeps _ _ _ sf bw cr f ms _ _ HF)) as S.
    destruct (run rfuel c (lw_setup_rx (kind127 h quirk) sf bw cr f ms) []) as [[c' tr] [r|]]; exact S.
  - pose proof (wp_sound (xl127 tc dc false) unit rfuel (lw_low_power (kind127 h quirk)) _ c [] (time_passes m) (lw_low_power_keeps _ _ _ _ _ HF)) as S.
    destruct (run rfuel c (lw_low_power (kind127 h quirk)) []) as [[c' tr] [r|]]; exact S.
Qed.

(* histories start where LoRa::new starts: a chip just powered on, the driver object freshly built *)
Theorem C14_initial_state : forall x K KO sw, Inv x K KO (initial_fields sw) power_on.
Proof. exact initial_inv. Qed.

(* ---- concrete histories: the premises are satisfiable, and the known finding *)
Definition chip_of (k : chipkind) (fault : option N) (on_irq : list (N * list N)) (d : drv) : chip :=
  {| c_kind := k; c_regs := repeat 0%N (N.to_nat 4096); c_reads := []; c_fill := 0%N; c_buf := repeat 0%N 256; c_fifo := 0%N; c_events := 0%N;
     c_fault := fault; c_drv := d; c_irq_calls := 0%N; c_irq_budget := 6%N; c_pend := None; c_on_irq := on_irq |}.
Definition md0 : mdl := {| md_sf := 2%N; md_bw := 7%N; md_cr := 0%N; md_ldro := 0%N; md_freq := 868100000%N |}.
Definition pk0 : pktp := {| pk_preamble := 8%N; pk_implicit := false; pk_len := 0%N; pk_crc := true; pk_iq := false |}.
(* run a list of (fault position, interrupt script, operation) from the state LoRa::new starts from; the monitor with context x *)
Fixpoint play (x : mctx) (k : chipkind) (K : kind) (steps : list (option N * list (N * list N) * apiop)) (d : drv) (m : mon)
  : drv * mon * list (option (unit + rerr)) :=
  match steps with
  | [] => (d, m, [])
  | (flt, irqs, o) :: rest =>
    let '(c', tr, r) := run 3000 (chip_of k flt irqs d) (op_prog K 40 o) [] in
    let x' := {| x_fam := x_fam x; x_tcxo := x_tcxo x; x_dcdc := x_dcdc x; x_listen := is_listen o; x_lora := x_lora x |} in
    let '(d2, m2, rs) := play x k K rest (c_drv c') (mon_op x' m tr) in (d2, m2, r :: rs)
  end.

Definition g1262 : cfg126 := {| g_low_power_pa := false; g_pa_table := sx1262_pa_table; g_dio2_rfswitch := true; g_tcxo := None; g_dcdc := false; g_rx_boost := false |}.
Definition h1276 : cfg127 := {| h_variant := V1276; h_tcxo := false; h_tx_boost := false; h_rx_boost := false |}.

(* new; prepare_for_tx; tx (TxDone); sleep(cold); prepare_for_rx(single); rx (RxDone) on an SX1262: every step succeeds, nothing is flagged *)
Example C14_sx126x_history_example :
  let '(d, m, rs) := play (x126 false false false true) K126 (kind126 g1262)
      [(None, [], OInit); (None, [], OPrepTx md0 pk0 14%Z [1%N; 2%N]); (None, [(1%N, [])], OTx); (None, [], OSleep false);
       (None, [], OPrepRx (RxSingle 10%N) md0 pk0); (None, [(2%N, [0%N; 5%N; 0%N])], ORx pk0 16%N)] (initial_fields 0x3444%N) power_on in
  rs = [Some (inl tt); Some (inl tt); Some (inl tt); Some (inl tt); Some (inl tt); Some (inl tt)] /\
  bad_asleep m = false /\ bad_start m = false /\ cm m = CStby /\ dmode d = MRx (RxSingle 10%N).
Proof. vm_compute. repeat split; reflexivity. Qed.

(* The history of the former known finding sx127x-failed-reset-leaves-fsk-mode, on the repaired driver: init with a fault at the first SPI
   transaction after the reset pulse (the chip stays in FSK standby); prepare_for_tx; tx -- the wake-up of prepare_for_tx now selects the
   LoRa modem, and the transmission is started with everything it depends on in place *)
Example C14_sx127x_failed_reset_history :
  let '(d, m, rs) := play {| x_fam := K127; x_tcxo := false; x_dcdc := false; x_listen := false; x_lora := true |} K127 (kind127 h1276 false)
      [(Some 0%N, [], OInit); (None, [], OPrepTx md0 pk0 14%Z [1%N; 2%N]); (None, [(8%N, [])], OTx)] (initial_fields 0x3444%N) power_on in
  rs = [Some (inr ESpi); Some (inl tt); Some (inl tt)] /\ bad_start m = false /\ bad_asleep m = false /\ valid m ILoraMode = true.
Proof. vm_compute. repeat split; reflexivity. Qed.
