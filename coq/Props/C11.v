(* Props/C11.v -- property C11: an OTAA join establishes exactly the session the JoinAccept defines. *)
From Coq Require Import NArith ZArith List Bool.
From LoraV Require Import Base.Bytes Model.Frame Spec.L2Frame Gen.RegionTables Model.Region Model.Mac
  Proofs.FrameProofs Proofs.JoinProofs Proofs.OtaaProofs
  Model.AsyncDev Model.NbDev Proofs.TxHistory Proofs.AsyncJoin Proofs.NbJoin Crypto.CMAC Proofs.FrontEndExamples.
Import ListNotations.
Local Open Scope nat_scope.

Section C11.
  Variable enc dec : list N -> list N -> list N.
  Variable mac_fn : list N -> list N -> list N.
  Hypothesis dec_len : forall k b, length (dec k b) = 16.
  Hypothesis mac_len : forall k m, length (mac_fn k m) = 16.
  Hypothesis enc_len : forall k b, length (enc k b) = 16.
  (* AES decryption is inverted by AES encryption (used only where a network-built JoinAccept is decoded) *)
  Hypothesis enc_dec : forall k b, length b = 16 -> enc k (dec k b) = b.

  (* a join attempt transmits the 23-byte JoinRequest of the specification with the configured identifiers, the drawn
     DevNonce and the MIC under the root key, and remembers that DevNonce *)
  Theorem C11_join_request : forall m c d rest o,
    join_otaa mac_fn m c (d :: rest) = Val o ->
    to_frame o = spec_join_request mac_fn (cr_appeui c) (cr_deveui c) (d mod 65536) (cr_appkey c) /\
    length (to_frame o) = 23 /\
    m_state (to_mac o) = Otaa (d mod 65536)%N c /\ m_cfg (to_mac o) = m_cfg m /\ to_counter o = (d mod 65536)%N.
  Proof. exact (join_request_spec enc dec mac_fn dec_len mac_len enc_dec enc_len). Qed.

  (* anything that is not an authentic JoinAccept under the root key leaves the whole MAC state unchanged (still unjoined) *)
  Theorem C11_only_authentic_accept_joins : forall m nonce c bytes snr mp,
    m_state m = Otaa nonce c -> spec_ja_accepts enc mac_fn bytes (cr_appkey c) = false ->
    exists buf, mac_handle_rx enc mac_fn m bytes snr mp false
                = Val (Some {| mo_mac := m; mo_resp := RNoUpdate; mo_downlink := None; mo_buf := buf |}).
  Proof. exact (join_rejects_mac enc dec mac_fn dec_len mac_len enc_dec enc_len). Qed.

  Theorem C11_no_join_accept : forall m nonce c, m_state m = Otaa nonce c -> mac_rx2_complete m = (m, RNoJoinAccept).
  Proof. exact join_window_end. Qed.

  Theorem C11_class_c_before_join : forall m bytes snr mp,
    (forall s, m_state m <> Joined s) -> mac_handle_rx enc mac_fn m bytes snr mp true = Val None.
  Proof. exact (unjoined_ignores enc mac_fn). Qed.

  (* an authentic JoinAccept joins: fresh session (both counters restart, nothing pending), keys derived from the root key,
     the accept's JoinNonce / NetID and the DevNonce just sent, the assigned address; RxDelay applied; RX1 offset and RX2
     data rate applied iff valid in the region, otherwise the previous values stay; CFList handed to the channel plan *)
  Theorem C11_authentic_accept_joins : forall m nonce c bytes rg',
    spec_ja_accepts enc mac_fn bytes (cr_appkey c) = true ->
    let clear := spec_ja_clear enc bytes (cr_appkey c) in
    region_join_accept (m_region m) (join_cflist clear) = Val rg' ->
    otaa_handle_rx enc mac_fn m nonce c bytes
    = Val ({| m_cfg := join_cfg (rg_id (m_region m)) (m_cfg m) (ja_dl_settings clear) (ja_rx_delay clear);
              m_region := rg'; m_max_power := m_max_power m; m_gain := m_gain m;
              m_state := Joined {| ss_pending := []; ss_owed_ack := false; ss_confirmed := false;
                                   ss_nwkskey := enc (cr_appkey c) ([1%N] ++ slice clear 1 4 ++ slice clear 4 7 ++ le_bytes 2 nonce ++ repeat 0%N 7);
                                   ss_appskey := enc (cr_appkey c) ([2%N] ++ slice clear 1 4 ++ slice clear 4 7 ++ le_bytes 2 nonce ++ repeat 0%N 7);
                                   ss_devaddr := ja_dev_addr clear; ss_fcnt_up := 0; ss_fcnt_down := None; ss_adr_ack_cnt := 0 |} |},
           RJoinSuccess, clear).
  Proof. exact (join_accepts enc dec mac_fn dec_len mac_len enc_dec enc_len). Qed.

  (* ... and for the JoinAccept a network builds per the specification from (JoinNonce, NetID, DevAddr, DLSettings, RxDelay, CFList) *)
  Theorem C11_session_of_network_accept : forall m nonce c jn nid da dls rxd cfl0 rg',
    wf_cflist cfl0 -> (jn < 2 ^ 24)%N -> (nid < 2 ^ 24)%N -> (da < 2 ^ 32)%N ->
    let key := cr_appkey c in
    let bytes := spec_join_accept dec mac_fn jn nid da dls rxd cfl0 key in
    let clear := spec_join_accept_clear mac_fn jn nid da dls rxd cfl0 key in
    region_join_accept (m_region m) (join_cflist clear) = Val rg' ->
    exists m', otaa_handle_rx enc mac_fn m nonce c bytes = Val (m', RJoinSuccess, clear) /\
      m_state m' = Joined (session_new (spec_session_key enc 1 jn nid nonce key) (spec_session_key enc 2 jn nid nonce key) da) /\
      m_cfg m' = join_cfg (rg_id (m_region m)) (m_cfg m) dls (rxd mod 16) /\ m_region m' = rg'.
  Proof. exact (join_session_of_spec_accept enc dec mac_fn dec_len mac_len enc_dec). Qed.
  (* ---- through the front-ends: "without such a frame the attempt ends in 'no join accept' and the device remains unjoined" *)

  (* async_device: the join request is built (o); then WHATEVER the radio does -- timeouts, errors, any frames in RX1 / RX2 / Class C
     reception, a fault at any call -- as long as none of the delivered frames is an authentic JoinAccept under the root key, join()
     leaves the device exactly in the joining state of the request: never joined, never JoinSuccess *)
  Theorem C11_async_join_needs_authentic_accept : forall d e c d0 rest o d' e' res,
    join_otaa mac_fn (ad_mac d) c (d0 :: rest) = Val o ->
    (forall f, In (SvX f) (e_script e) -> spec_ja_accepts enc mac_fn (firstn 256 f) (cr_appkey c) = false) ->
    adev_join enc mac_fn d e c (d0 :: rest) = (d', e', res) ->
    d' = with_mac d (to_mac o) /\ res <> AOk RJoinSuccess /\ (forall s, m_state (ad_mac d') <> Joined s).
  Proof.
    intros d e c d0 rest o d' e' res JO NA H.
    destruct (join_request_spec enc dec mac_fn dec_len mac_len enc_dec enc_len _ _ _ _ _ JO) as [_ [_ [J _]]].
    apply (async_join_needs_authentic_accept enc mac_fn d e c (d0 :: rest) o d' e' res JO (ex_intro _ _ J)); [|exact H].
    intros f Hin. specialize (NA f Hin).
    destruct (ja_accept_iff enc dec mac_fn dec_len mac_len enc_dec enc_len (firstn 256 f) (cr_appkey c)) as [[_ T]|[E _]]; [congruence|exact E].
  Qed.

  (* nb_device: once joining (DevNonce n, credentials c), no sequence of radio events, timeouts and send requests in which every received
     packet fails to be an authentic JoinAccept changes the MAC at all *)
  Theorem C11_nb_join_needs_authentic_accept : forall n c evs st m e,
    m_state m = Otaa n c ->
    Forall (fun x => (match fst x with NJoin _ _ => False | _ => True end) /\
                     (match snd x with RaRxDone p => spec_ja_accepts enc mac_fn p (cr_appkey c) = false | _ => True end)) evs ->
    let '(st', m', e') := nb_run enc mac_fn st m e evs in m' = m.
  Proof.
    intros n c evs st m e J Q. apply (nb_join_needs_authentic_accept enc mac_fn n c evs st m e J).
    eapply Forall_impl; [|exact Q]. intros [ev ans] [A B]. split; [exact A|]. cbn [snd] in *. destruct ans; try exact I.
    destruct (ja_accept_iff enc dec mac_fn dec_len mac_len enc_dec enc_len packet (cr_appkey c)) as [[_ T]|[E _]]; [congruence|exact E].
  Qed.
End C11.

(* the channel list: type 0 on a dynamic plan sets channels J..J+4 (0 = remove, in-band = define with DR0..5, out-of-band
   = ignored, everything else untouched, never a panic); type 1 on a fixed plan replaces the mask, without it a fixed plan starts again from the default mask; any other combination is ignored *)
Theorem C11_cflist : forall g c, region_wf g ->
  match rg_plan g, c with
  | PDyn p, CflDyn fs => length fs = 5 ->
      exists chs', region_join_accept g c = Val {| rg_id := rg_id g; rg_plan := PDyn {| dp_channels := chs'; dp_mask := dp_mask p |} |} /\
        length chs' = 16 /\
        forall k, nth_error chs' k =
          let j := N.to_nat (r_num_join (rg_id g)) in
          if Nat.leb j k && Nat.ltb k (j + 5)
          then option_map (fun old => cfl_entry (rg_id g) old (nth (k - j) fs 0%N)) (nth_error (dp_channels p) k)
          else nth_error (dp_channels p) k
  | PFix p, CflFix m => region_join_accept g c = Val {| rg_id := rg_id g; rg_plan := PFix {| fp_mask := m; fp_jc := jc_reset (fp_jc p) |} |}
  | PFix p, _ => region_join_accept g c = Val {| rg_id := rg_id g; rg_plan := PFix {| fp_mask := mask_default; fp_jc := fp_jc p |} |}
  | _, _ => region_join_accept g c = Val g
  end.
Proof. exact cflist_applied. Qed.

Theorem C11_region_wf_initial : forall r, (r < 9)%N -> region_wf (region_new r).
Proof. exact region_new_wf. Qed.
Theorem C11_region_wf_preserved : forall g c g', region_wf g -> (match c with CflDyn fs => length fs = 5 | _ => True end) ->
  region_join_accept g c = Val g' -> region_wf g'.
Proof. exact region_join_accept_wf. Qed.

(* non-vacuity: a join request is built from a fresh device (concrete AES-128 / CMAC) and a frame that is not an authentic JoinAccept exists *)
Example C11_join_premises_met :
  (exists o, join_otaa aes_mac (mac_new 5%N 14%N 0%Z) ex_cred (9%N :: ex_draws) = Val o /\ m_state (to_mac o) = Otaa 9%N ex_cred) /\
  spec_ja_accepts aes_enc aes_mac (firstn 256 (0x20%N :: repeat 7%N 16)) (cr_appkey ex_cred) = false.
Proof. split; [exact ex_join_request_built|vm_compute; reflexivity]. Qed.
