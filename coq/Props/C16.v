(* Props/C16.v -- property C16: time on air equals the Semtech formula exactly,
   never overflows, is monotone in the payload length.  Statements only. *)
From LoraV Require Import Base.Prelude Model.Toa Spec.Airtime Proofs.ToaProofs.

Theorem C16_value : forall sf bw cr pre hdr len,
  toa_dom sf bw cr pre len ->
  toa_us sf bw cr pre hdr len = airtime_us (bw_hz bw) sf cr pre hdr len.
Proof. exact toa_value. Qed.

Theorem C16_never_overflows : forall sf bw cr pre hdr len,
  toa_dom sf bw cr pre len -> toa_safe sf bw cr pre hdr len = true.
Proof. exact toa_never_overflows. Qed.

Theorem C16_monotone : forall sf bw cr pre hdr len len',
  toa_dom sf bw cr pre len -> toa_dom sf bw cr pre len' -> len <= len' ->
  toa_us sf bw cr pre hdr len <= toa_us sf bw cr pre hdr len'.
Proof. exact toa_monotone. Qed.
