(* Props/C03.v -- property C03: parsing arbitrary bytes is total, bounds-safe and terminating.
   The command tables and accessor index sets are GENERATED from /repo's source on every run
   (Gen/CmdTables.v); the iterator theorems hold for every table, hence for the six generated ones. *)
From Coq Require Import NArith List Bool.
From LoraV Require Import Base.Bytes Model.Frame Model.MacCmd Gen.CmdTables Spec.L2Frame Spec.MacCmdSpec
  Proofs.MacCmdProofs Proofs.ParseProofs.
Import ListNotations.
Local Open Scope nat_scope.

(* for every table and every byte string the iterator yields a finite list of items: whole commands whose
   bytes form a prefix of the input, then at most one error, then nothing; never an out-of-bounds access *)
Theorem C03_iterator_total_and_shaped : forall (t : table) (data : list N),
  well_shaped (parse_all t data) data /\ (forall it, In it (parse_all t data) -> it <> IPanic).
Proof. exact parse_all_total_and_shaped. Qed.

Theorem C03_commands_form_prefix : forall (t : table) (data : list N),
  exists rest, data = raw_of (parse_all t data) ++ rest.
Proof. intros t data. apply shaped_prefix. apply parse_all_total_and_shaped. Qed.

Theorem C03_at_most_one_error_last : forall (t : table) (data : list N) pre e post,
  parse_all t data = pre ++ IErr e :: post ->
  post = [] /\ Forall (fun i => exists c p, i = IOk c p) pre.
Proof. intros t data. apply shaped_errors with (data := data). apply parse_all_total_and_shaped. Qed.

(* termination: length data + 1 steps always suffice, more fuel yields nothing more; fused after an error *)
Theorem C03_terminates : forall (t : table) (data : list N) extra,
  collect t (S (length data) + extra) (data, false) = parse_all t data.
Proof. intros. apply collect_fuel_irrelevant. apply PeanoNat.Nat.lt_succ_diag_r. Qed.

Theorem C03_fused : forall (t : table) fuel data, collect t fuel (data, true) = [].
Proof. exact fused. Qed.

(* whole commands: a yielded fixed-length command has exactly its declared length *)
Theorem C03_parse_one_bounds : forall t data cid p n, parse_one t data = POk cid p n ->
  1 <= n <= length data /\ cid :: p = firstn n data /\ length p = n - 1.
Proof. exact parse_one_ok. Qed.

(* the accessor index sets read from the current source lie inside the lengths the framing guarantees *)
Theorem C03_accessor_reads_in_bounds :
  forallb (fun tr : table * list (N * list (nat * nat)) => reads_ok (fst tr) (snd tr)) all_reads = true.
Proof. exact all_accessor_reads_in_bounds. Qed.

Theorem C03_unique_cids : forallb nodup_cids all_tables = true.
Proof. exact tables_have_unique_cids. Qed.

(* frame parsers: a successful parse fixes every offset an accessor uses inside the buffer *)
Theorem C03_frame_layout_in_bounds : forall bs l, validate bs = Ok l ->
  l_frm_start l <= l_frm_end l /\ l_frm_end l + 4 = length bs /\ 1 + l_fhdr_len l <= l_frm_start l /\
  match l_f_port_offset l with Some off => off < l_frm_end l | None => True end.
Proof.
  intros bs l H. destruct (validate_layout bs l H) as (_ & _ & H1 & H2 & H3 & _ & _ & H4).
  repeat split; try assumption. destruct (l_f_port_offset l); [tauto | exact I].
Qed.

Theorem C03_join_lengths : forall bs,
  (parse_join_request bs = Ok tt -> length bs = 23) /\
  (validate_join_accept_structure bs = Ok tt -> length bs = 17 \/ length bs = 33).
Proof.
  intros bs. split.
  - unfold parse_join_request. destruct (check_mhdr bs 0); [|discriminate].
    destruct (Nat.eqb (length bs) 23) eqn:E; [|discriminate]. intros _. now apply PeanoNat.Nat.eqb_eq.
  - unfold validate_join_accept_structure. destruct (check_mhdr bs 1); [|discriminate].
    destruct (Nat.eqb (length bs) 17) eqn:E1; [intros _; left; now apply PeanoNat.Nat.eqb_eq|].
    destruct (Nat.eqb (length bs) 33) eqn:E2; [intros _; right; now apply PeanoNat.Nat.eqb_eq|discriminate].
Qed.

(* the CIDs and payload lengths of the two MAC-command tables regenerated from the code are those of LoRaWAN 1.0.x section 5 (written
   independently in Spec/MacCmdSpec.v): what the iterator treats as "one whole command" is what the specification defines *)
Theorem C03_command_lengths_match_lorawan :
  map (fun e => (fst (fst e), snd (fst e))) dl_mac_table = map (fun c => (fst (fst c), Some (snd (fst c)))) lw_mac_commands /\
  map (fun e => (fst (fst e), snd (fst e))) ul_mac_table = map (fun c => (fst (fst c), Some (snd c))) lw_mac_commands.
Proof. split; reflexivity. Qed.


(* the public payload constructors XPayload::new(bytes): a view they return is exactly as long as its accessors need *)
From LoraV Require Import Proofs.PayloadNew.
Theorem C03_fixed_constructor_view : forall len data v, fixed_new len data = Some v -> length v = len /\ v = data.
Proof. exact fixed_new_view. Qed.
Theorem C03_mcgroupstatus_constructor_view : forall data v, mcstatus_new data = Some v ->
  (1 <= length v)%nat /\ length v = (1 + popcount4 4 (mcstatus_mask v) * 5)%nat /\ nthN v 0 = nthN data 0 /\
  v = firstn (1 + popcount4 4 (mcstatus_mask v) * 5) data /\
  length (mcstatus_items (S (popcount4 4 (mcstatus_mask v))) (skipn 1 v)) = popcount4 4 (mcstatus_mask v) /\
  Forall (fun it => length it = 5%nat) (mcstatus_items (S (popcount4 4 (mcstatus_mask v))) (skipn 1 v)).
Proof. exact mcstatus_new_view. Qed.
Theorem C03_mcgroupstatus_constructor_refuses_short : forall data,
  (length data < 1 + popcount4 4 (N.land (nthN data 0) 0x0f%N) * 5)%nat -> mcstatus_new data = None.
Proof. exact mcstatus_new_refuses_short. Qed.
Theorem C03_constructor_matches_iterator : forall data v, mcstatus_new data = Some v -> length v = var_len 1 data.
Proof. exact mcstatus_new_matches_var_len. Qed.
Theorem C03_channel_mask_constructor : forall n data,
  (forall v, chmask_new n data = Some v -> length v = n /\ v = firstn n data) /\
  ((n <= length data)%nat -> exists v, chmask_new n data = Some v) /\ ((length data < n)%nat -> chmask_new n data = None).
Proof. intros n data. split; [intros v; apply chmask_new_view|apply chmask_new_total]. Qed.
