(* Props/C18.v -- property C18: reading a received packet never overruns the caller's buffer. *)
From Coq Require Import ZArith NArith List Bool.
From LoraV Require Import Base.Bytes Gen.PhyTables Model.PhyCore Model.Sx126x Model.Sx127x Proofs.RxPayloadProofs.
Import ListNotations.
Local Open Scope nat_scope.

(* the decision taken from what the chip reports: accepted lengths never exceed the caller's buffer; implicit-header mode uses the
   configured length (SX126x: the chip's PayloadLength register; SX127x: the packet parameters) *)
Theorem C18_sx126x_length_check : forall implicit buflen status rx_len reg_len len,
  decide_126 implicit buflen status rx_len reg_len = inl len -> (len <= buflen)%N /\ len = (if implicit then reg_len else rx_len).
Proof. exact decide_126_bound. Qed.
Theorem C18_sx127x_length_check : forall implicit buflen cfg_len rx_nb len,
  decide_127 implicit buflen cfg_len rx_nb = inl len -> (len <= buflen)%N /\ len = (if implicit then cfg_len else rx_nb).
Proof. exact decide_127_bound. Qed.

(* running get_rx_payload on ANY emulated chip (any status, length, offset, register and buffer contents), with a fault at any pin
   event or none, for any caller buffer size: the outcome is an error, or a length within the caller's buffer together with exactly
   that many bytes (which the caller finds at the front of its buffer, the rest untouched) -- never a panic in the model *)
Theorem C18_sx126x_never_overruns : forall implicit buflen fuel c tr,
  rx_outcome buflen (snd (run fuel c (get_rx_payload_126 implicit buflen) tr)).
Proof. intros. apply safe_run. apply get_rx_payload_126_safe. Qed.
Theorem C18_sx127x_never_overruns : forall implicit cfg_len buflen fuel c tr,
  rx_outcome buflen (snd (run fuel c (get_rx_payload_127 implicit cfg_len buflen) tr)).
Proof. intros. apply safe_run. apply get_rx_payload_127_safe. Qed.

Theorem C18_rest_of_buffer_untouched : forall caller data, length data <= length caller ->
  length (after caller data) = length caller /\ firstn (length data) (after caller data) = data /\
  skipn (length data) (after caller data) = skipn (length data) caller.
Proof.
  intros caller data H. split; [apply after_length; exact H|]. unfold after. split.
  - rewrite firstn_app, Nat.sub_diag, firstn_O, app_nil_r. apply firstn_all.
  - rewrite skipn_app, Nat.sub_diag. rewrite skipn_all. reflexivity.
Qed.
