(* Props/C19.v -- property C19: MAC-command builders, parsers and identifier text forms round-trip. *)
From Coq Require Import NArith ZArith List Bool.
From LoraV Require Import Base.Bytes Model.MacCmd Model.MacFields Gen.CmdTables Proofs.FieldProofs.
Import ListNotations.
Local Open Scope N_scope.

(* every byte-wide field of every creator: for every prior content of its byte and every argument, the setter
   either refuses (exactly the out-of-range values of fields with a range check) or stores the value (truncated to
   the field width), leaves all other bits of the byte and all other bytes unchanged *)
Theorem C19_byte_fields : forall x b v, In x byte_fields -> b < 256 -> v < 256 -> field_ok x b v = true.
Proof. exact byte_field_law. Qed.

(* the payload accessors read exactly those bits back, for every byte value *)
Theorem C19_getters : getter_ok = true.
Proof. exact getters_sweep. Qed.

Theorem C19_signed_margin : margin_ok = true.
Proof. exact margin_sweep. Qed.

(* fields wider than a byte (frequencies, channel mask, counters, addresses, RxAppCnt): little-endian write, little-endian read *)
Theorem C19_le_fields : forall (k : nat) (v : N) (h m t : list N),
  length m = k -> v < 256 ^ N.of_nat k ->
  let d' := write_at (h ++ m ++ t) (length h) (le_bytes k v) in
  d' = h ++ le_bytes k v ++ t /\ le_value (slice d' (length h) (length h + k)) = v.
Proof. exact le_field_roundtrip. Qed.

Theorem C19_nano_seconds : forall n, n < 1000000000 ->
  let byte := (n / 3906250) mod 256 in
  byte * 3906250 = (n / 3906250) * 3906250 /\ byte * 3906250 <= n /\ n - byte * 3906250 < 3906250.
Proof. exact nano_seconds_law. Qed.

(* a stream built from whole commands parses back to the same sequence, for every table *)
Theorem C19_sequences : forall (t : table) (cmds : list (N * list N)),
  Forall (fun cp => exists h, lookup t (fst cp) = Some (fst cp, Some (length (snd cp)), h)) cmds ->
  parse_all t (flat_map (fun cp => fst cp :: snd cp) cmds) = map (fun cp => IOk (fst cp) (snd cp)) cmds.
Proof. exact build_parse_sequence. Qed.

(* identifiers print MSB-first and parse back to the same value, every width, every value *)
Theorem C19_hex_text : forall n v, (0 < n)%nat -> v < 256 ^ N.of_nat n ->
  from_hex_msb n (to_hex_msb n v) = Some v /\ length (to_hex_msb n v) = (2 * n)%nat.
Proof. exact hex_text_roundtrip. Qed.

(* KNOWN FINDING (recorded in known_findings.txt): DeviceTimeAns.seconds is written little-endian by the creator
   and read big-endian by the payload accessor; both byte orders are pinned by the repository's own tests.
   The faithful model reproduces it: *)
Definition devtime_roundtrip (v : N) : option Z :=
  match cr_new 9 with
  | Some cr => match mc_set 9 0 (Z.of_N v) 0 [] cr with
               | SOk cr' => hd_error (mc_get 0 0x0D (skipn 1 (cr_data cr')))
               | _ => None end
  | None => None
  end.
Theorem C19_device_time_seconds_refuted : exists v, v < 2 ^ 32 /\ devtime_roundtrip v <> Some (Z.of_N v).
Proof. exists 0x01020304. split; [reflexivity|]. vm_compute. discriminate. Qed.
(* ... and exactly characterises it: the accessor returns the byte-swapped value *)
Theorem C19_device_time_seconds_is_byteswap : forall v, v < 2 ^ 32 ->
  devtime_roundtrip v = Some (Z.of_N (be_value (le_bytes 4 v))).
Proof.
  intros v _. unfold devtime_roundtrip, cr_new. cbn [creator_shape]. unfold mc_set. rewrite N2Z.id. reflexivity.
Qed.
