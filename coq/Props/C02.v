(* Props/C02.v -- property C02: received frames are authenticated and decoded exactly per spec, else untouched.
   Cipher and MAC are arbitrary functions with 16-byte outputs; the JoinAccept round trip additionally
   assumes that encryption inverts decryption (named premise enc_dec). *)
From Coq Require Import NArith List.
From LoraV Require Import Base.Bytes Crypto.AES Crypto.CMAC Model.Frame Spec.L2Frame
  Proofs.FrameProofs Proofs.ParseProofs Proofs.JoinProofs Proofs.CryptoProofs.
Import ListNotations.
Local Open Scope nat_scope.

(* structural part: a data frame parses exactly when it is well formed, and every offset is in bounds *)
Theorem C02_parse_iff : forall bs, (exists l, validate bs = Ok l) <-> wf_wire bs = true.
Proof. exact validate_ok_iff. Qed.

Theorem C02_layout_in_bounds : forall bs l, validate bs = Ok l ->
  l_fhdr_len l = 7 + wire_fopts_len bs /\ l_frm_end l = length bs - 4 /\
  l_frm_start l <= l_frm_end l /\ 1 + l_fhdr_len l <= l_frm_start l /\ l_frm_end l + 4 = length bs /\
  12 <= length bs /\ from_mhdr (nthN bs 0) = Some (l_type l) /\
  match l_f_port_offset l with
  | Some off => off = 1 + l_fhdr_len l /\ l_frm_start l = S off /\ off < l_frm_end l
  | None => l_frm_start l = 1 + l_fhdr_len l /\ l_frm_start l = l_frm_end l
  end.
Proof. exact validate_layout. Qed.

Section C02.
  Variable enc dec mac : list N -> list N -> list N.
  Hypothesis enc_len : forall k b, length (enc k b) = 16.
  Hypothesis dec_len : forall k b, length (dec k b) = 16.
  Hypothesis mac_len : forall k m, length (mac k m) = 16.

  (* reported authentic exactly when the reference MIC (given 32-bit counter, frame's own direction) matches *)
  Theorem C02_mic_iff : forall bs key n, 9 <= length bs ->
    (validate_mic mac bs key n = true <-> wire_mic bs = spec_mic mac bs key n).
  Proof. exact (validate_mic_iff mac). Qed.

  (* parsing any built frame returns the description it was built from *)
  Theorem C02_roundtrip : forall d nwk appk f,
    spec_data enc mac d nwk appk = Some f -> length f <= 259 -> port_ok d ->
    check_mic_and_decrypt_in_place enc mac f nwk appk (df_fcnt d)
    = (Ok (built_layout d (pp_plain d)), head_of d [] ++ pp_plain d ++ mic_of f).
  Proof. exact (check_roundtrip enc dec mac enc_len mac_len). Qed.

  (* decryption needs only the upper half of the counter from the caller *)
  Theorem C02_decrypt_any_hint : forall d nwk appk f n,
    spec_data enc mac d nwk appk = Some f -> length f <= 259 -> port_ok d ->
    (n / 65536 = df_fcnt d / 65536)%N ->
    decrypt_in_place enc f (Some nwk) appk n
    = (Ok (built_layout d (pp_plain d)), head_of d [] ++ pp_plain d ++ mic_of f).
  Proof. exact (decrypt_roundtrip enc dec mac enc_len mac_len). Qed.

  Theorem C02_views : forall d mic4, length (df_f_opts d) <= 15 -> (df_addr d < 2 ^ 32)%N ->
    let p := head_of d [] ++ pp_plain d ++ mic4 in
    let l := built_layout d (pp_plain d) in
    l_type l = df_type d /\ v_dev_addr p = df_addr d /\ v_fctrl p = spec_fctrl d /\
    v_fcnt p = (df_fcnt d mod 65536)%N /\ v_f_opts p l = df_f_opts d /\
    v_f_port p l = match df_payload d with PNone => None | PData port _ => Some port | PMac _ => Some 0%N end /\
    v_frm p l = match df_payload d with PNone => [] | PData _ x => x | PMac x => x end.
  Proof. exact (views_of_plain enc dec mac enc_len mac_len). Qed.

  Theorem C02_fctrl_accessors : forall d, length (df_f_opts d) <= 15 ->
    let b := spec_fctrl d in let up := is_uplink (df_type d) in
    fc_adr b = df_adr d /\ fc_ack b = df_ack d /\
    fc_adr_ack_req b up = (df_adr_ack_req d && up)%bool /\
    fc_f_pending b up = (df_f_pending d && negb up)%bool /\
    fc_f_opts_len b = lenN (df_f_opts d).
  Proof. exact fctrl_accessors. Qed.

  (* when checked decoding fails for any reason the caller's buffer is byte-identical *)
  Theorem C02_failed_check_leaves_buffer : forall bs nwk appk n e,
    fst (check_mic_and_decrypt_in_place enc mac bs nwk appk n) = Err e ->
    snd (check_mic_and_decrypt_in_place enc mac bs nwk appk n) = bs.
  Proof. exact (failed_check_leaves_buffer enc mac). Qed.

  (* JoinAccept *)
  Hypothesis enc_dec : forall k b, length b = 16 -> enc k (dec k b) = b.

  Theorem C02_ja_roundtrip : forall jn nid da dls rxd c key, wf_cflist c ->
    ja_check_mic_and_decrypt enc mac (spec_join_accept dec mac jn nid da dls rxd c key) key
    = (Ok tt, spec_join_accept_clear mac jn nid da dls rxd c key).
  Proof. exact (ja_roundtrip enc dec mac dec_len mac_len enc_dec). Qed.

  Theorem C02_ja_fields : forall jn nid da dls rxd c key,
    wf_cflist c -> (jn < 2 ^ 24)%N -> (nid < 2 ^ 24)%N -> (da < 2 ^ 32)%N ->
    let clear := spec_join_accept_clear mac jn nid da dls rxd c key in
    ja_join_nonce clear = jn /\ ja_net_id clear = nid /\ ja_dev_addr clear = da /\
    ja_dl_settings clear = dls /\ ja_rx_delay clear = (rxd mod 16)%N.
  Proof. exact (ja_fields enc dec mac dec_len mac_len enc_dec). Qed.

  Theorem C02_derive_keys : forall jn nid da dls rxd c key first dn,
    derive_session_key enc (spec_join_accept_clear mac jn nid da dls rxd c key) first dn key
    = spec_session_key enc first jn nid dn key.
  Proof. exact (derive_keys_spec enc mac). Qed.
End C02.
