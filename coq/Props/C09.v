(* Props/C09.v -- property C09: every transmission uses an enabled in-band channel, a legal data rate and power; selection terminates
   (on every stream that contains a draw hitting a usable channel -- and a usable channel always exists; see C09_*_refuted for the
   literal "every random stream", which the rejection loops do not satisfy: recorded known finding). *)
From Coq Require Import NArith ZArith List Bool.
From LoraV Require Import Base.Bytes Gen.RegionTables Model.Region Model.Mac Proofs.OtaaProofs Proofs.TxProofs.
Import ListNotations.
Local Open Scope nat_scope.

(* the in-band invariant of dynamic plans: holds initially, kept by every operation that defines channels *)
Theorem C09_plan_invariant_initial : forall r, (r < 9)%N -> r_fixed r = false -> dyn_ok r (dyn_new r).
Proof. exact dyn_new_ok. Qed.
Theorem C09_plan_invariant_cflist : forall r p fs chs', dyn_ok r p -> length fs = 5 -> (r_num_join r <= 3)%N ->
  dyn_cflist r (dp_channels p) (N.to_nat (r_num_join r)) fs = Val chs' -> dyn_ok r {| dp_channels := chs'; dp_mask := dp_mask p |}.
Proof. exact cflist_keeps_ok. Qed.
Theorem C09_plan_invariant_new_channel : forall r p index freq drr p' acks, dyn_ok r p ->
  dyn_new_channel r p index freq drr = Val (p', acks) -> dyn_ok r p'.
Proof. exact new_channel_keeps_ok. Qed.
Theorem C09_plan_invariant_dl_channel : forall r p index freq, dyn_ok r p -> dyn_ok r (fst (dyn_dl_update r p index freq)).
Proof. exact dl_update_keeps_ok. Qed.

(* data uplink, dynamic plan: the channel is defined, enabled in the mask left in force, in band; the data rate is the configured,
   region-defined one; the mask is only touched when no defined channel was enabled *)
Theorem C09_dynamic_data_uplink : forall g p datarate draws tc g' rest,
  rg_plan g = PDyn p -> dyn_ok (rg_id g) p -> length (dp_mask p) = 9 -> (1 <= r_num_join (rg_id g) <= 3)%N ->
  region_select g datarate false draws = Val (tc, g', rest) ->
  exists p1 c, rg_plan g' = PDyn p1 /\ rg_id g' = rg_id g /\ dp_channels p1 = dp_channels p /\
    (dyn_mask_validate p (dp_mask p) = true -> p1 = p) /\
    nth_error (dp_channels p1) (N.to_nat (tc_index tc)) = Some (Some c) /\ tc_freq tc = ch_freq c /\ tc_rx1_freq tc = rx1_frequency c /\
    mask_bit (dp_mask p1) (tc_index tc) = true /\ frequency_valid (rg_id g) (tc_freq tc) = true /\
    tc_dr tc = datarate /\ get_datarate (rg_id g) datarate = Some (tc_datarate tc).
Proof. exact dyn_data_legal. Qed.

Theorem C09_dynamic_join_request : forall g p datarate draws tc g' rest,
  rg_plan g = PDyn p -> dyn_ok (rg_id g) p ->
  region_select g datarate true draws = Val (tc, g', rest) ->
  g' = g /\ In (tc_freq tc) (r_join_freqs (rg_id g)) /\ frequency_valid (rg_id g) (tc_freq tc) = true /\ tc_dr tc = datarate /\
  get_datarate (rg_id g) datarate = Some (tc_datarate tc).
Proof. exact dyn_join_legal. Qed.

(* data uplink, fixed plan, chosen through the mask *)
Theorem C09_fixed_data_uplink : forall r p datarate draws tc p' rest,
  fix_select_masked r p datarate draws = Val (tc, p', rest) ->
  let idx := tc_index tc in
  mask_bit (fp_mask p') idx = true /\ (idx <= 71)%N /\ nth_error (r_uplink r) (N.to_nat idx) = Some (tc_freq tc) /\ tc_dr tc = datarate /\
  fp_jc p' = fp_jc p /\ fp_mask p' = fix_fallback_mask (fp_mask p) (snd (fst (tc_datarate tc)) =? 9)%N /\
  ((snd (fst (tc_datarate tc)) =? 9)%N = (64 <=? idx)%N).
Proof. exact fix_masked_legal. Qed.

Theorem C09_join_data_rates : forall r, In r [4%N; 8%N] ->
  (exists sf mp, get_datarate r (r_join_dr r false) = Some (sf, 7%N, mp)) /\ (exists sf mp, get_datarate r (r_join_dr r true) = Some (sf, 9%N, mp)).
Proof. exact join_dr_bandwidth. Qed.

(* a usable channel always exists once the fall-back has run, and the fall-back changes nothing when one existed *)
Theorem C09_dynamic_usable_channel : forall r p, dyn_ok r p -> length (dp_mask p) = 9 -> (1 <= r_num_join r <= 3)%N ->
  dyn_mask_validate (dyn_fallback r p) (dp_mask (dyn_fallback r p)) = true /\ dp_channels (dyn_fallback r p) = dp_channels p /\
  (dyn_mask_validate p (dp_mask p) = true -> dyn_fallback r p = p).
Proof. exact dyn_fallback_usable. Qed.
Theorem C09_fixed_usable_channel : forall (m : mask) (wide : bool), length m = 9 ->
  (if wide then any_enabled (fix_fallback_mask m true) 64 8 else any_enabled (fix_fallback_mask m false) 0 64) = true /\
  ((if wide then any_enabled m 64 8 else any_enabled m 0 64) = true -> fix_fallback_mask m wide = m).
Proof. exact fix_fallback_usable. Qed.

(* progress: the search ends at the first draw that hits a usable channel *)
Theorem C09_dynamic_selection_progress : forall r p datarate dt, datarate_index r datarate = Val (Some dt) ->
  forall draws, existsb (dyn_hit p) draws = true ->
  (forall d, In d draws -> dyn_random_in_range p d <> Panic /\ forall chn, dyn_random_in_range p d = Val chn -> is_enabled (dp_mask p) chn <> Panic) ->
  exists tc rest, dyn_select_data r p datarate draws = Val (tc, rest).
Proof. exact dyn_select_data_progress. Qed.

(* conducted power: never above the radio's maximum given to adjust_power (send passes min(commanded, board maximum)),
   never above 127, never above EIRP - antenna gain *)
Theorem C09_power_bound : forall pw mp g q, adjust_power pw mp g = Val q ->
  (q <= 127)%Z /\ (q <= Z.of_N mp)%Z /\ ((-128 <= pw - g)%Z -> (q <= pw - g)%Z).
Proof. exact adjust_power_bound. Qed.

(* KNOWN FINDING (rejection-sampling-degenerate-stream): the literal "for every random stream" fails -- a stream none of whose
   draws hits a usable channel keeps the loops running although a usable channel exists *)
Theorem C09_termination_every_stream_refuted_join : forall n, region_select (region_new 5%N) 0%N true (repeat 3%N n) = OutOfDraws.
Proof. exact join_constant_stream_refuted. Qed.
Theorem C09_termination_every_stream_refuted_data :
  let p := {| fp_mask := [3; 0; 0; 0; 0; 0; 0; 0; 0]%N; fp_jc := jc_default |} in
  any_enabled (fp_mask p) 0 64 = true /\ forall n, fix_select_masked 8%N p 0%N (repeat 5%N n) = OutOfDraws.
Proof. exact data_constant_stream_refuted. Qed.
