(* Props/C09.v -- property C09: every transmission uses an enabled in-band channel, a legal data rate and power; selection terminates
   (on every stream that contains a draw hitting a usable channel -- and a usable channel always exists; see C09_*_refuted for the
   literal "every random stream", which the rejection loops do not satisfy: recorded known finding). *)
From Coq Require Import NArith ZArith List Bool Lia.
From LoraV Require Import Spec.RP002 Base.Bytes Gen.RegionTables Model.Region Model.Mac Proofs.OtaaProofs Proofs.TxProofs Proofs.NoPanicProofs Model.Frame Model.NbDev Proofs.TxHistory Model.AsyncDev Proofs.AsyncTxHistory Proofs.SelectProgress.
Import ListNotations.
Local Open Scope nat_scope.

(* the regional constants of the regenerated tables are those of RP002 (written independently in Spec/RP002.v): band limits, maximum EIRP,
   highest TXPower index, largest RX1DROffset, the default join channels (AS923-n: the AS923 frequencies plus the group offset) *)
Theorem C09_regional_constants_match_rp002 : forall r, (r < 9)%N ->
  (r_freq_lo r, r_freq_hi r) = rp_band r /\ r_max_eirp r = rp_max_eirp r /\ r_pw_max r = rp_max_power_index r /\
  r_max_rx1_off r = rp_max_rx1_offset r /\ r_join_freqs r = rp_join_channels r /\ r_num_join r = N.of_nat (length (rp_join_channels r)).
Proof.
  intros r H.
  assert (E : forallb (fun r => (r_freq_lo r =? fst (rp_band r))%N && (r_freq_hi r =? snd (rp_band r))%N && (r_max_eirp r =? rp_max_eirp r)%N &&
                                (r_pw_max r =? rp_max_power_index r)%N && (r_max_rx1_off r =? rp_max_rx1_offset r)%N &&
                                (if list_eq_dec N.eq_dec (r_join_freqs r) (rp_join_channels r) then true else false) &&
                                (r_num_join r =? N.of_nat (length (rp_join_channels r)))%N) (map N.of_nat (seq 0 9)) = true) by (vm_compute; reflexivity).
  rewrite forallb_forall in E. specialize (E r). assert (Hin : In r (map N.of_nat (seq 0 9))).
  { apply in_map_iff. exists (N.to_nat r). split; [apply N2Nat.id|apply in_seq; lia]. }
  specialize (E Hin). repeat (apply andb_true_iff in E; destruct E as [E ?]).
  repeat match goal with X : (_ =? _)%N = true |- _ => apply N.eqb_eq in X end.
  destruct (list_eq_dec N.eq_dec (r_join_freqs r) (rp_join_channels r)) as [EJ|]; [|discriminate].
  destruct (rp_band r) as [lo hi] eqn:EB. cbn [fst snd] in *. repeat split; congruence.
Qed.

Theorem C09_fixed_plan_channel_maps_match_rp002 : forall r, In r [4%N; 8%N] ->
  r_uplink r = rp_uplink_channels r /\ r_downlink r = rp_downlink_channels r /\ (r_join_dr r false, r_join_dr r true) = rp_join_dr r.
Proof. intros r [<-|[<-|[]]]; vm_compute; repeat split; reflexivity. Qed.

(* the in-band invariant of dynamic plans: holds initially, kept by every operation that defines channels *)
Theorem C09_plan_invariant_initial : forall r, (r < 9)%N -> r_fixed r = false -> dyn_ok r (dyn_new r).
Proof. exact dyn_new_ok. Qed.
Theorem C09_plan_invariant_cflist : forall r p fs chs', dyn_ok r p -> length fs = 5 -> (r_num_join r <= 3)%N ->
  dyn_cflist r (dp_channels p) (N.to_nat (r_num_join r)) fs = Val chs' -> dyn_ok r {| dp_channels := chs'; dp_mask := dp_mask p |}.
Proof. exact cflist_keeps_ok. Qed.
Theorem C09_plan_invariant_new_channel : forall r p index freq drr p' acks, dyn_ok r p ->
  dyn_new_channel r p index freq drr = Val (p', acks) -> dyn_ok r p'.
Proof. exact new_channel_keeps_ok. Qed.
Theorem C09_plan_invariant_dl_channel : forall r p index freq, dyn_ok r p -> dyn_ok r (fst (dyn_dl_update r p index freq)).
Proof. exact dl_update_keeps_ok. Qed.

(* data uplink, dynamic plan: the channel is defined, enabled in the mask left in force, in band; the data rate is the configured,
   region-defined one; the mask is only touched when no defined channel was enabled *)
Theorem C09_dynamic_data_uplink : forall g p datarate draws tc g' rest,
  rg_plan g = PDyn p -> dyn_ok (rg_id g) p -> length (dp_mask p) = 9 -> (1 <= r_num_join (rg_id g) <= 3)%N ->
  region_select g datarate false draws = Val (tc, g', rest) ->
  exists p1 c, rg_plan g' = PDyn p1 /\ rg_id g' = rg_id g /\ dp_channels p1 = dp_channels p /\
    (dyn_mask_validate p (dp_mask p) = true -> p1 = p) /\
    nth_error (dp_channels p1) (N.to_nat (tc_index tc)) = Some (Some c) /\ tc_freq tc = ch_freq c /\ tc_rx1_freq tc = rx1_frequency c /\
    mask_bit (dp_mask p1) (tc_index tc) = true /\ frequency_valid (rg_id g) (tc_freq tc) = true /\
    tc_dr tc = datarate /\ get_datarate (rg_id g) datarate = Some (tc_datarate tc).
Proof. exact dyn_data_legal. Qed.

Theorem C09_dynamic_join_request : forall g p datarate draws tc g' rest,
  rg_plan g = PDyn p -> dyn_ok (rg_id g) p ->
  region_select g datarate true draws = Val (tc, g', rest) ->
  g' = g /\ In (tc_freq tc) (r_join_freqs (rg_id g)) /\ frequency_valid (rg_id g) (tc_freq tc) = true /\ tc_dr tc = datarate /\
  get_datarate (rg_id g) datarate = Some (tc_datarate tc).
Proof. exact dyn_join_legal. Qed.

(* data uplink, fixed plan, chosen through the mask *)
Theorem C09_fixed_data_uplink : forall r p datarate draws tc p' rest,
  fix_select_masked r p datarate draws = Val (tc, p', rest) ->
  let idx := tc_index tc in
  mask_bit (fp_mask p') idx = true /\ (idx <= 71)%N /\ nth_error (r_uplink r) (N.to_nat idx) = Some (tc_freq tc) /\ tc_dr tc = datarate /\
  fp_jc p' = fp_jc p /\ fp_mask p' = fix_fallback_mask (fp_mask p) (snd (fst (tc_datarate tc)) =? 9)%N /\
  ((snd (fst (tc_datarate tc)) =? 9)%N = (64 <=? idx)%N).
Proof. exact fix_masked_legal. Qed.

Theorem C09_join_data_rates : forall r, In r [4%N; 8%N] ->
  (exists sf mp, get_datarate r (r_join_dr r false) = Some (sf, 7%N, mp)) /\ (exists sf mp, get_datarate r (r_join_dr r true) = Some (sf, 9%N, mp)).
Proof. exact join_dr_bandwidth. Qed.

(* a usable channel always exists once the fall-back has run, and the fall-back changes nothing when one existed *)
Theorem C09_dynamic_usable_channel : forall r p, dyn_ok r p -> length (dp_mask p) = 9 -> (1 <= r_num_join r <= 3)%N ->
  dyn_mask_validate (dyn_fallback r p) (dp_mask (dyn_fallback r p)) = true /\ dp_channels (dyn_fallback r p) = dp_channels p /\
  (dyn_mask_validate p (dp_mask p) = true -> dyn_fallback r p = p).
Proof. exact dyn_fallback_usable. Qed.
Theorem C09_fixed_usable_channel : forall (m : mask) (wide : bool), length m = 9 ->
  (if wide then any_enabled (fix_fallback_mask m true) 64 8 else any_enabled (fix_fallback_mask m false) 0 64) = true /\
  ((if wide then any_enabled m 64 8 else any_enabled m 0 64) = true -> fix_fallback_mask m wide = m).
Proof. exact fix_fallback_usable. Qed.

(* progress: the search ends at the first draw that hits a usable channel *)
Theorem C09_dynamic_selection_progress : forall r p datarate dt, datarate_index r datarate = Val (Some dt) ->
  forall draws, existsb (dyn_hit p) draws = true ->
  (forall d, In d draws -> dyn_random_in_range p d <> Panic /\ forall chn, dyn_random_in_range p d = Val chn -> is_enabled (dp_mask p) chn <> Panic) ->
  exists tc rest, dyn_select_data r p datarate draws = Val (tc, rest).
Proof. exact dyn_select_data_progress. Qed.

(* ... and so do the other sampling loops: the join request of a dynamic plan (a draw whose two low bits name a join channel: 0 always does)
   and the mask-driven choice of a fixed plan (a draw that names an enabled channel of the required kind; C09_fixed_usable_channel shows one
   is enabled after the fall-back, and every enabled channel of the range is named by some draw value) *)
Theorem C09_dynamic_join_progress : forall r p dr dt, dyn_ok r p -> datarate_index r dr = Val (Some dt) ->
  forall draws, existsb (fun d => N.land d 3 <? r_num_join r)%N draws = true -> exists tc rest, dyn_select_join r p dr draws = Val (tc, rest).
Proof. exact dyn_join_progress. Qed.
Theorem C09_fixed_selection_progress : forall r p dr sf bw mp, r_fixed r = true -> datarate_index r dr = Val (Some (sf, bw, mp)) ->
  forall draws,
  existsb (fun d => if (bw =? 9)%N then mask_bit (fix_fallback_mask (fp_mask p) true) (N.land d 7 + 64)
                    else mask_bit (fix_fallback_mask (fp_mask p) false) (N.land d 63 + 0)) draws = true ->
  exists tc p' rest, fix_select_masked r p dr draws = Val (tc, p', rest).
Proof. exact fix_masked_progress. Qed.
Theorem C09_every_enabled_channel_can_be_drawn : forall m bits base c, bits = N.ones (N.size bits) -> (base <= c <= base + bits)%N -> mask_bit m c = true ->
  mask_bit m (N.land (c - base) bits + base) = true.
Proof. exact fix_hit_exists. Qed.

(* conducted power: never above the radio's maximum given to adjust_power (send passes min(commanded, board maximum)),
   never above 127, never above EIRP - antenna gain *)
Theorem C09_power_bound : forall pw mp g q, adjust_power pw mp g = Val q ->
  (q <= 127)%Z /\ (q <= Z.of_N mp)%Z /\ ((-128 <= pw - g)%Z -> (q <= pw - g)%Z).
Proof. exact adjust_power_bound. Qed.

(* KNOWN FINDING (rejection-sampling-degenerate-stream): the literal "for every random stream" fails -- a stream none of whose
   draws hits a usable channel keeps the loops running although a usable channel exists *)
Theorem C09_termination_every_stream_refuted_join : forall n, region_select (region_new 5%N) 0%N true (repeat 3%N n) = OutOfDraws.
Proof. exact join_constant_stream_refuted. Qed.
Theorem C09_termination_every_stream_refuted_data :
  let p := {| fp_mask := [3; 0; 0; 0; 0; 0; 0; 0; 0]%N; fp_jc := jc_default |} in
  any_enabled (fp_mask p) 0 64 = true /\ forall n, fix_select_masked 8%N p 0%N (repeat 5%N n) = OutOfDraws.
Proof. exact data_constant_stream_refuted. Qed.

(* ------------------------------------------------------------------ along whole histories *)
(* EVERY selection path (dynamic data / join, fixed plan through the mask, through the join-channel bookkeeping incl. the join bias,
   first data channel after a biased join), from every region state satisfying the shape invariant (which every MAC operation keeps:
   C04): a channel of the region -- dynamic plans: in band; fixed plans: on the uplink channel map with index <= 71 and the bandwidth of
   the data rate matching the channel kind (125 kHz <-> 0..63, 500 kHz <-> 64..71) -- at a data rate the region defines *)
Theorem C09_every_selection_path_legal : forall g dr join draws tc g' rest, region_ok g ->
  region_select g dr join draws = Val (tc, g', rest) -> chan_legal (rg_id g) tc.
Proof. exact region_select_legal. Qed.

Section C09_hist.
  Variable enc mac_fn : list N -> list N -> list N.
  Hypothesis enc_len : forall k b, length (enc k b) = 16.
  Hypothesis mac_len : forall k b, length (mac_fn k b) = 16.

  (* what send / join_otaa hand to the radio: a legal channel of the device's region, the rf parameters of its data rate, a power within
     127 and the board's limit; the device (region, limit) is never changed *)
  Theorem C09_send_transmission_legal : forall m data fport confirmed draws o, mac_ok m ->
    send enc mac_fn m data fport confirmed draws = Val (SendOk o) -> tx_ok (dev_of m) (to_tx o) /\ dev_of (to_mac o) = dev_of m.
  Proof. exact (send_tx_ok enc mac_fn). Qed.
  Theorem C09_join_transmission_legal : forall m c draws o, mac_ok m ->
    join_otaa mac_fn m c draws = Val o -> tx_ok (dev_of m) (to_tx o) /\ dev_of (to_mac o) = dev_of m.
  Proof. exact (join_tx_ok mac_fn). Qed.

  (* nb_device: along EVERY sequence of events (join / send requests, radio events with any answer incl. any received bytes, timeouts;
     a fault at any radio call) every frame handed to the radio is legal for the device *)
  Theorem C09_nb_every_transmission_legal : forall evs st m e, mac_ok m -> trace_ok (dev_of m) e ->
    let '(st', m', e') := nb_run enc mac_fn st m e evs in
    trace_ok (dev_of m) e' /\ mac_ok m' /\ dev_of m' = dev_of m.
  Proof. exact (nb_every_transmission_legal enc mac_fn enc_len mac_len). Qed.

  (* ... in particular from a freshly built device of any of the 9 regions *)
  Theorem C09_nb_fresh_device : forall r p g fault evs, (r < 9)%N ->
    let '(st', m', e') := nb_run enc mac_fn NIdle (mac_new r p g) {| n_calls := 0; n_fault := fault; n_trace := [] |} evs in
    Forall (ncall_ok (r, p)) (n_trace e').
  Proof.
    intros r p g fault evs Hr.
    pose proof (nb_every_transmission_legal enc mac_fn enc_len mac_len evs NIdle (mac_new r p g) {| n_calls := 0; n_fault := fault; n_trace := [] |}
                  (mac_new_ok r p g Hr) (Forall_nil _)) as H.
    destruct (nb_run _ _ _ _ _ _) as [[st' m'] e']. exact (proj1 H).
  Qed.

  (* async_device: after ANY sequence of join / send / rxc_listen calls, against any radio script (timeouts, errors, any received bytes,
     pending receptions), a fault at any radio call, whatever each call returned: every frame handed to the radio was legal for the device *)
  Theorem C09_async_every_transmission_legal : forall dv ops d e, G dv d e ->
    let '(d', e') := arun enc mac_fn d e ops in G dv d' e'.
  Proof. exact (async_every_transmission_legal enc mac_fn enc_len). Qed.

  Theorem C09_async_fresh_device : forall r p g classc lead script fault ops, (r < 9)%N ->
    let '(d', e') := arun enc mac_fn {| ad_mac := mac_new r p g; ad_classc := classc; ad_lead := lead |}
                          {| e_script := script; e_calls := 0; e_fault := fault; e_trace := [] |} ops in
    Forall (acall_ok (r, p)) (e_trace e').
  Proof.
    intros r p g classc lead script fault ops Hr.
    pose proof (async_every_transmission_legal enc mac_fn enc_len (r, p) ops {| ad_mac := mac_new r p g; ad_classc := classc; ad_lead := lead |}
                  {| e_script := script; e_calls := 0; e_fault := fault; e_trace := [] |}) as H.
    destruct (arun _ _ _ _ _) as [d' e']. apply H. split; [exact (mac_new_ok r p g Hr)|]. split; [reflexivity|constructor].
  Qed.
End C09_hist.
