(* Props/C10.v -- property C10: receive windows follow the regional parameters in force when the uplink was sent. *)
From Coq Require Import NArith ZArith List Bool Lia.
From LoraV Require Import Base.Bytes Gen.RegionTables Model.Region Model.Mac Spec.RP002 Proofs.WindowProofs Model.AsyncDev Proofs.AsyncWindows Model.NbDev Proofs.NbWindows Crypto.CMAC Proofs.FrontEndExamples.
Import ListNotations.
Local Open Scope N_scope.

(* the RX1 data-rate function of every region equals the RP002 rule on the scope where the rule is unambiguous
   (proved by a computed sweep over all 9 x 16 x 8 inputs of the modelled functions) *)
Theorem C10_rx1_rule : forall r dr off, r < 9 -> dr < 16 -> off < 8 -> rp_in_scope r dr off = true ->
  get_rx_datarate r dr off false = Val (rp_rx1_dr r dr off).
Proof. exact rx1_rule. Qed.

(* for every uplink data rate and offset a window data rate is computed, RX2 defaults to the regional default, which the
   region defines: every window uses a LoRa data rate the region defines (undefined RX1 rates fall back to it) *)
Theorem C10_window_dr_total : forall r dr off, r < 9 -> dr < 16 -> off < 8 ->
  exists d1, get_rx_datarate r dr off false = Val d1 /\ d1 < 16 /\
             get_rx_datarate r dr off true = Val (rp_rx2_dr r) /\ get_datarate r (rp_rx2_dr r) <> None.
Proof. exact window_dr_total. Qed.

(* the RX2 default frequency of every region's regenerated table is the RP002 value (AS923-n: 923.2 MHz + the group offset) *)
Theorem C10_rx2_default_frequency : forall r, r < 9 -> r_rx2_freq r = rp_rx2_freq r.
Proof.
  intros r H. assert (E : forallb (fun r => r_rx2_freq r =? rp_rx2_freq r) (map N.of_nat (seq 0 9)) = true) by (vm_compute; reflexivity).
  rewrite forallb_forall in E. apply N.eqb_eq, E. apply in_map_iff. exists (N.to_nat r). split; [apply N2Nat.id|apply in_seq; lia].
Qed.

(* the protocol constants regenerated from region/constants.rs are those of LoRaWAN 1.0.x / RP002: RECEIVE_DELAY1 1 s, JOIN_ACCEPT_DELAY1/2
   5 s / 6 s (and MAX_FCNT_GAP 16384, ADR_ACK_LIMIT 64, ADR_ACK_DELAY 32, used by C05 / C12) *)
Theorem C10_protocol_constants :
  c_receive_delay1 = 1000 /\ c_join_accept_delay1 = 5000 /\ c_join_accept_delay2 = 6000 /\
  c_max_fcnt_gap = 16384 /\ c_adr_ack_limit = 64 /\ c_adr_ack_delay = 32.
Proof. repeat split; reflexivity. Qed.

Section C10.
  Theorem C10_no_panic_in_window_config : forall m freq dr tx_dr,
    rg_id (m_region m) < 9 -> tx_dr < 16 -> cf_rx1_dr_offset (m_cfg m) < 8 ->
    exists rf, build_rf_config m freq dr tx_dr = Val rf /\ rf_freq rf = freq /\
      (forall d, get_datarate (rg_id (m_region m)) dr = Some d -> rf = mk_rf (rg_id (m_region m)) freq d).
  Proof. exact build_rf_config_total. Qed.

  (* RX1 on the downlink frequency paired with the channel actually used, at the table data rate for the data rate actually
     used; RX2 on the negotiated-or-default frequency and data rate; bound by value at TX time *)
  Theorem C10_windows_from_the_uplink : forall m tc w1 w2,
    rx_windows m tc = Val (w1, w2) ->
    let r := rg_id (m_region m) in
    let rx2_freq := match cf_rx2_frequency (m_cfg m) with Some f => f | None => r_rx2_freq r end in
    exists d1 d2,
      get_rx_datarate r (tc_dr tc) (cf_rx1_dr_offset (m_cfg m)) false = Val d1 /\
      (match cf_rx2_data_rate (m_cfg m) with Some d => Val d
       | None => get_rx_datarate r (tc_dr tc) (cf_rx1_dr_offset (m_cfg m)) true end) = Val d2 /\
      rf_freq w1 = tc_rx1_freq tc /\ rf_freq w2 = rx2_freq /\
      (forall dd, get_datarate r d1 = Some dd -> w1 = mk_rf r (tc_rx1_freq tc) dd) /\
      (forall dd, get_datarate r d2 = Some dd -> w2 = mk_rf r rx2_freq dd).
  Proof. exact rx_windows_spec. Qed.

  Theorem C10_delays : forall m,
    get_rx_delay m false false = cf_rx1_delay (m_cfg m) /\ get_rx_delay m false true = cf_rx1_delay (m_cfg m) + 1000 /\
    get_rx_delay m true false = 5000 /\ get_rx_delay m true true = 6000.
  Proof. exact rx_delays. Qed.

  Theorem C10_class_c_uses_rx2 : forall m, rxc_config m = rx2_rf_config m (cf_data_rate (m_cfg m)).
  Proof. exact rxc_is_rx2. Qed.

  Theorem C10_fixed_plan_pairing : forall r dr chn p rest tc p' rest',
    fix_mk_tx r dr chn p rest = Val (tc, p', rest') ->
    nth_error (r_uplink r) (N.to_nat chn) = Some (tc_freq tc) /\
    nth_error (r_downlink r) (N.to_nat (chn mod 8)) = Some (tc_rx1_freq tc) /\ tc_dr tc = dr /\ tc_index tc = chn.
  Proof. exact fixed_plan_pairing. Qed.

  (* The asynchronous front-end (async_device/mod.rs: send -> rx_downlink -> between_windows/rx_listen/window_complete) on a radio
     that accepts every call and hears nothing: after any successful uplink the device makes exactly these radio and timer calls --
     RX1 opens at RECEIVE_DELAY1 (+ the 100 ms margin - the radio's lead time) after the end of the transmission with the window
     computed when the uplink was built, RX2 one second later with the RX2 window computed then; nothing else is commanded. *)
  Variable enc : list N -> list N -> list N.
  Variable mac_fn : list N -> list N -> list N.
  Theorem C10_async_class_a_window_schedule : forall d e data fport confirmed draws o,
    ad_classc d = false -> quiet e -> ad_lead d <= 100 ->
    send enc mac_fn (ad_mac d) data fport confirmed draws = Val (SendOk o) ->
    let m := to_mac o in
    let lead := ad_lead d in
    let '(d', e', r) := adev_send enc mac_fn d e data fport confirmed draws in
    rev (e_trace e') = rev (e_trace e) ++
      [ATx (to_tx o) (to_frame o); ATimerReset;
       ALowPower; ATimerAt (cf_rx1_delay (m_cfg m) + 100 - lead); ASetupRx (to_rx1 o) (Some lead); ARxSingle; ALowPower;
       ALowPower; ATimerAt (cf_rx1_delay (m_cfg m) + 1000 + 100 - lead); ASetupRx (to_rx2 o) (Some lead); ARxSingle; ALowPower].
  Proof. exact (async_class_a_window_schedule enc mac_fn). Qed.

  (* Class C: the same two windows; before, between and after them the device listens continuously with the RX2 parameters *)
  Theorem C10_async_class_c_window_schedule : forall d e data fport confirmed draws o rfc,
    ad_classc d = true -> quiet e -> ad_lead d <= 100 ->
    send enc mac_fn (ad_mac d) data fport confirmed draws = Val (SendOk o) ->
    rxc_config (to_mac o) = Val rfc ->
    let m := to_mac o in
    let lead := ad_lead d in
    let '(d', e', r) := adev_send enc mac_fn d e data fport confirmed draws in
    rev (e_trace e') = rev (e_trace e) ++
      [ATx (to_tx o) (to_frame o); ATimerReset;
       ASetupRx rfc None; ARxContPending; ATimerAt (cf_rx1_delay (m_cfg m) + 100 - lead); ASetupRx (to_rx1 o) (Some lead); ARxSingle; ASetupRx rfc None;
       ASetupRx rfc None; ARxContPending; ATimerAt (cf_rx1_delay (m_cfg m) + 1000 + 100 - lead); ASetupRx (to_rx2 o) (Some lead); ARxSingle; ASetupRx rfc None].
  Proof. exact (async_class_c_window_schedule enc mac_fn). Qed.

  (* nb_device (nb_device/state.rs): the receive procedure after ANY successful uplink when the radio accepts every request, reports the
     end of the transmission at time ms and the application delivers the timeouts it is asked for: RX1 requested at
     (RECEIVE_DELAY1 + ms + offset) mod 2^32 with the window computed when the uplink was built, closed 100 ms later, RX2 requested
     one second after RX1 with the RX2 window computed then, closed 100 ms later, whereupon the uplink is concluded; the MAC (and so
     the negotiated parameters) is not touched in between. *)
  Theorem C10_nb_class_a_window_schedule : forall m0 e data fport confirmed draws o ms a2 a3 a4 a5,
    nquiet e ->
    send enc mac_fn m0 data fport confirmed draws = Val (SendOk o) ->
    let m := to_mac o in
    let t1 := t_rx1 m ms in
    let '(s1, m1, e1, r1) := handle_event enc mac_fn NIdle m0 e (NSend data fport confirmed draws) (RaTxDone ms) in
    let '(s2, m2, e2, r2) := handle_event enc mac_fn s1 m1 e1 NTimeout a2 in
    let '(s3, m3, e3, r3) := handle_event enc mac_fn s2 m2 e2 NTimeout a3 in
    let '(s4, m4, e4, r4) := handle_event enc mac_fn s3 m3 e3 NTimeout a4 in
    let '(s5, m5, e5, r5) := handle_event enc mac_fn s4 m4 e4 NTimeout a5 in
    [r1; r2; r3; r4] = [NrTimeoutRequest t1; NrTimeoutRequest (t1 + 100); NrTimeoutRequest (t1 + 1000); NrTimeoutRequest (t1 + 1000 + 100)] /\
    rev (n_trace e5) = rev (n_trace e) ++ [NcTx (to_tx o) (to_frame o); NcRxRequest (to_rx1 o); NcCancelRx; NcRxRequest (to_rx2 o); NcCancelRx] /\
    s5 = NIdle /\ (m5, r5) = (let '(m', r) := mac_rx2_complete m in (m', resp_of_mac r)) /\
    m1 = m /\ m4 = m.
  Proof. exact (nb_class_a_window_schedule enc mac_fn). Qed.
End C10.

(* non-vacuity of the schedule theorems' premises, with the concrete AES-128 / CMAC: an ABP-joined EU868 device whose send succeeds and whose
   run is the proved schedule (12 calls; RX1 at 1000 + 100 - 15 ms, RX2 one second later; RxComplete) *)
Example C10_schedule_premises_met :
  (exists o, send aes_enc aes_mac ex_mac [1; 2; 3] 7 false ex_draws = Val (SendOk o) /\ length (to_frame o) = 16%nat) /\
  quiet ex_env /\ ad_lead ex_dev <= 100 /\
  let '(_, e', r) := adev_send aes_enc aes_mac ex_dev ex_env [1; 2; 3] 7 false ex_draws in
  length (e_trace e') = 12%nat /\ r = AOk RRxComplete /\
  nth_error (rev (e_trace e')) 3 = Some (ATimerAt 1085) /\ nth_error (rev (e_trace e')) 8 = Some (ATimerAt 2085).
Proof. split; [exact ex_send_succeeds|]. split; [exact (proj1 ex_quiet)|]. split; [exact (proj2 ex_quiet)|exact ex_schedule]. Qed.
