(* Props/C05.v -- property C05: a downlink is accepted iff it is authentic and fresh. *)
From Coq Require Import NArith ZArith List Bool.
From LoraV Require Import Base.Bytes Model.Frame Spec.L2Frame Model.Region Model.Mac Proofs.FcntProofs Proofs.SessionProofs.
Import ListNotations.
Local Open Scope N_scope.

Theorem C05_first_downlink : forall w, next_fcnt_down None w = Some w.
Proof. exact nfd_first. Qed.

(* the counter arithmetic, for ALL 2^32 x 2^16 inputs: accepted with n iff n is the unique counter congruent to the
   wire value with last < n <= last + 16384 (and below 2^32) *)
Theorem C05_counter_rule : forall last w n, last < 4294967296 -> w < 65536 ->
  (next_fcnt_down (Some last) w = Some n <-> n mod 65536 = w /\ last < n <= last + 16384 /\ n < 4294967296).
Proof. exact nfd_spec. Qed.

Theorem C05_never_backwards : forall last w n, last < 4294967296 -> w < 65536 ->
  next_fcnt_down (Some last) w = Some n -> last < n /\ n < 4294967296.
Proof. exact nfd_strictly_increases. Qed.

Theorem C05_no_replay : forall last w, last < 4294967296 -> w < 65536 -> last mod 65536 = w ->
  next_fcnt_down (Some last) w = None.
Proof. exact nfd_no_replay. Qed.

Section C05.
  Variable enc mac_fn : list N -> list N -> list N.

  (* the session acts on a frame exactly under the reference acceptance rule ... *)
  Theorem C05_rejects_everything_else : forall s cf rg bytes maxp snr ignore_mac,
    fcnt_ok s -> bytes_ok bytes = true ->
    (forall n, ~ spec_accepts mac_fn s bytes maxp n) -> ~ oversized bytes maxp ->
    handle_rx_session enc mac_fn s cf rg bytes maxp snr ignore_mac = Val (unchanged s cf rg bytes RNoUpdate).
  Proof. exact (reject_is_identity enc mac_fn). Qed.

  (* ... and then remembers N, decrypts with that same N, restarts the ADR count and advances its uplink counter *)
  Theorem C05_accept_effects : forall s cf rg bytes maxp snr ignore_mac n o,
    fcnt_ok s -> bytes_ok bytes = true -> spec_accepts mac_fn s bytes maxp n ->
    handle_rx_session enc mac_fn s cf rg bytes maxp snr ignore_mac = Val o ->
    ss_fcnt_down (ro_session o) = Some n /\ ss_adr_ack_cnt (ro_session o) = 0 /\
    ro_buf o = snd (decrypt_in_place enc bytes (Some (ss_nwkskey s)) (Some (ss_appskey s)) n) /\
    (ro_resp o = RDownlinkReceived n /\ ss_fcnt_up (ro_session o) = ss_fcnt_up s + 1
     \/ ro_resp o = RSessionExpired /\ ss_fcnt_up s = 0xFFFFFFFF /\ ss_fcnt_up (ro_session o) = ss_fcnt_up s) /\
    ss_nwkskey (ro_session o) = ss_nwkskey s /\ ss_appskey (ro_session o) = ss_appskey s /\
    ss_devaddr (ro_session o) = ss_devaddr s.
  Proof. exact (accept_effects enc mac_fn). Qed.
End C05.
