(* Props/C05.v -- property C05: a downlink is accepted iff it is authentic and fresh. *)
From Coq Require Import NArith ZArith List Bool Lia.
From LoraV Require Import Spec.RP002 Gen.RegionTables Base.Bytes Model.Frame Spec.L2Frame Model.Region Model.Mac Proofs.FcntProofs Proofs.SessionProofs Model.NbDev Model.AsyncDev Proofs.AsyncProofs Proofs.DownHistory Proofs.AsyncDownHistory.
Import ListNotations.
Local Open Scope N_scope.

(* "the maximum size of the data rate": every data rate the regenerated regional tables define is the RP002 one -- spreading factor,
   bandwidth and maximum MACPayload size (written independently in Spec/RP002.v; the stack may leave optional rates undefined) *)
Theorem C05_max_payload_tables_match_rp002 : forall r dr d, r < 9 -> dr < 15 -> get_datarate r dr = Some d -> rp_datarate r dr = Some d.
Proof.
  intros r dr d Hr Hd H.
  assert (E : forallb (fun r => forallb (fun dr => match get_datarate r dr with
                                                   | Some (a, b, c) => match rp_datarate r dr with Some (a', b', c') => (a =? a') && (b =? b') && (c =? c') | None => false end
                                                   | None => true end) (map N.of_nat (seq 0 15))) (map N.of_nat (seq 0 9)) = true) by (vm_compute; reflexivity).
  rewrite forallb_forall in E. assert (Hin : In r (map N.of_nat (seq 0 9))) by (apply in_map_iff; exists (N.to_nat r); split; [apply N2Nat.id|apply in_seq; lia]).
  specialize (E r Hin). rewrite forallb_forall in E. assert (Hin2 : In dr (map N.of_nat (seq 0 15))) by (apply in_map_iff; exists (N.to_nat dr); split; [apply N2Nat.id|apply in_seq; lia]).
  specialize (E dr Hin2). rewrite H in E. destruct d as [[a b] c]. destruct (rp_datarate r dr) as [[[a' b'] c']|]; [|discriminate].
  apply andb_true_iff in E. destruct E as [E E3]. apply andb_true_iff in E. destruct E as [E1 E2].
  apply N.eqb_eq in E1, E2, E3. subst. reflexivity.
Qed.

Theorem C05_first_downlink : forall w, next_fcnt_down None w = Some w.
Proof. exact nfd_first. Qed.

(* the counter arithmetic, for ALL 2^32 x 2^16 inputs: accepted with n iff n is the unique counter congruent to the
   wire value with last < n <= last + 16384 (and below 2^32) *)
Theorem C05_counter_rule : forall last w n, last < 4294967296 -> w < 65536 ->
  (next_fcnt_down (Some last) w = Some n <-> n mod 65536 = w /\ last < n <= last + 16384 /\ n < 4294967296).
Proof. exact nfd_spec. Qed.

Theorem C05_never_backwards : forall last w n, last < 4294967296 -> w < 65536 ->
  next_fcnt_down (Some last) w = Some n -> last < n /\ n < 4294967296.
Proof. exact nfd_strictly_increases. Qed.

Theorem C05_no_replay : forall last w, last < 4294967296 -> w < 65536 -> last mod 65536 = w ->
  next_fcnt_down (Some last) w = None.
Proof. exact nfd_no_replay. Qed.

Section C05.
  Variable enc mac_fn : list N -> list N -> list N.

  (* the session acts on a frame exactly under the reference acceptance rule ... *)
  Theorem C05_rejects_everything_else : forall s cf rg bytes maxp snr ignore_mac,
    fcnt_ok s -> bytes_ok bytes = true ->
    (forall n, ~ spec_accepts mac_fn s bytes maxp n) -> ~ oversized bytes maxp ->
    handle_rx_session enc mac_fn s cf rg bytes maxp snr ignore_mac = Val (unchanged s cf rg bytes RNoUpdate).
  Proof. exact (reject_is_identity enc mac_fn). Qed.

  (* ... and then remembers N, decrypts with that same N, restarts the ADR count and advances its uplink counter *)
  Theorem C05_accept_effects : forall s cf rg bytes maxp snr ignore_mac n o,
    fcnt_ok s -> bytes_ok bytes = true -> spec_accepts mac_fn s bytes maxp n ->
    handle_rx_session enc mac_fn s cf rg bytes maxp snr ignore_mac = Val o ->
    ss_fcnt_down (ro_session o) = Some n /\ ss_adr_ack_cnt (ro_session o) = 0 /\
    ro_buf o = snd (decrypt_in_place enc bytes (Some (ss_nwkskey s)) (Some (ss_appskey s)) n) /\
    (ro_resp o = RDownlinkReceived n /\ ss_fcnt_up (ro_session o) = ss_fcnt_up s + 1
     \/ ro_resp o = RSessionExpired /\ ss_fcnt_up s = 0xFFFFFFFF /\ ss_fcnt_up (ro_session o) = ss_fcnt_up s) /\
    ss_nwkskey (ro_session o) = ss_nwkskey s /\ ss_appskey (ro_session o) = ss_appskey s /\
    ss_devaddr (ro_session o) = ss_devaddr s.
  Proof. exact (accept_effects enc mac_fn). Qed.

  (* Along whole histories of the nb_device front-end: within a session (joined with the keys of s, last accepted downlink counter a), over
     EVERY sequence of send requests, radio events with any answer and any received byte string, and timeouts, with a fault at any radio
     call, the counters the device reports as DownlinkReceived are strictly increasing, all above a: no frame is ever acted on twice and
     counters never move backwards, across 16-bit roll-overs and whatever is interleaved *)
  Theorem C05_nb_downlinks_strictly_increase : forall s evs a st m e,
    J s a m ->
    Forall (fun x => (match fst x with NJoin _ _ => False | _ => True end) /\
                     (match snd x with RaRxDone p => bytes_ok p = true | _ => True end)) evs ->
    inc_from a (downs (nb_resps enc mac_fn st m e evs)).
  Proof. exact (nb_downlinks_strictly_increase enc mac_fn). Qed.

  (* ... and of the async_device front-end: over EVERY sequence of send / rxc_listen calls against any radio script (timeouts, errors, any
     received byte strings in RX1 / RX2 / Class C reception, pending receptions) with a fault at any radio call, the counters the API reports
     as DownlinkReceived are strictly increasing and above the last accepted one *)
  Theorem C05_async_downlinks_strictly_increase : forall s ops a d e, JD s a d -> script_ok e -> Forall dop_ok ops ->
    inc_from a (adowns (arun_res enc mac_fn d e ops)).
  Proof. exact (async_downlinks_strictly_increase enc mac_fn). Qed.
End C05.

(* non-vacuity / reading aid: what inc_from says *)
Example C05_inc_from_example : inc_from (Some 5) [7; 65536; 65537] /\ ~ inc_from (Some 5) [7; 7].
Proof. split; [cbn; repeat split; lia|cbn; intros [_ [H _]]; lia]. Qed.

