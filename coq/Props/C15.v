(* Props/C15.v -- low-data-rate optimisation is decided identically everywhere. *)
From LoraV Require Import Base.Prelude Model.Toa Model.Ldro Spec.LdroSpec Proofs.LdroProofs.

(* every driver decides like the airtime calculator ... *)
Theorem C15_same_decision_everywhere : forall chip chip' sf bw,
  drv_ldro chip sf bw = drv_ldro chip' sf bw /\ drv_ldro chip sf bw = (if ldro sf bw then 1 else 0).
Proof. exact all_agree. Qed.

(* ... namely 'on' exactly when the symbol time is at least 16.384 ms ... *)
Theorem C15_rule : forall chip sf bw, 5 <= sf <= 12 -> 0 <= bw <= 9 ->
  drv_ldro chip sf bw = (if ldro_required sf (bw_hz bw) then 1 else 0).
Proof. exact drv_ldro_spec. Qed.

(* ... and the bit programmed into the chip is that decision *)
Theorem C15_chip_programmed : forall chip sf bw, 5 <= sf <= 12 -> 0 <= bw <= 9 ->
  chip_bit chip sf bw = (if ldro_required sf (bw_hz bw) then 1 else 0).
Proof. exact chip_bit_spec. Qed.

Theorem C15_lorawan_ends :
  ldro 11 7 = true /\ ldro 12 7 = true /\ ldro 12 8 = true /\ ldro 10 7 = false /\ ldro 11 8 = false /\
  ldro 12 9 = false /\ ldro 10 6 = true /\ ldro 9 4 = true /\ ldro 9 6 = false.
Proof. exact ldro_boundary_pairs. Qed.
