(* Props/C15.v -- low-data-rate optimisation is decided identically everywhere. *)
From LoraV Require Import Base.Prelude Model.Toa Model.Ldro Spec.LdroSpec Proofs.LdroProofs.

(* every driver decides like the airtime calculator ... *)
Theorem C15_same_decision_everywhere : forall chip chip' sf bw,
  drv_ldro chip sf bw = drv_ldro chip' sf bw /\ drv_ldro chip sf bw = (if ldro sf bw then 1 else 0).
Proof. exact all_agree. Qed.

(* ... namely 'on' exactly when the symbol time is at least 16.384 ms ... *)
Theorem C15_rule : forall chip sf bw, 5 <= sf <= 12 -> 0 <= bw <= 9 ->
  drv_ldro chip sf bw = (if ldro_required sf (bw_hz bw) then 1 else 0).
Proof. exact drv_ldro_spec. Qed.

(* ... and the bit programmed into the chip is that decision *)
Theorem C15_chip_programmed : forall chip sf bw, 5 <= sf <= 12 -> 0 <= bw <= 9 ->
  chip_bit chip sf bw = (if ldro_required sf (bw_hz bw) then 1 else 0).
Proof. exact chip_bit_spec. Qed.

Theorem C15_lorawan_ends :
  ldro 11 7 = true /\ ldro 12 7 = true /\ ldro 12 8 = true /\ ldro 10 7 = false /\ ldro 11 8 = false /\
  ldro 12 9 = false /\ ldro 10 6 = true /\ ldro 9 4 = true /\ ldro 9 6 = false.
Proof. exact ldro_boundary_pairs. Qed.

(* ... and the drivers program the chip accordingly: on the SX127x chips the bit shares its register with other fields.
   SX1272 (RegModemConfig1 bit 0): set_modulation_params writes exactly the decision, set_packet_params (header mode, CRC in the
   same register) keeps it, for every register content and flag combination; SX1276 (RegModemConfig3 bit 3) likewise. *)
From Coq Require Import NArith.
From LoraV Require Import Model.Sx127x Proofs.LdroRegs.
Theorem C15_sx1272_modulation_writes_ldro : forall c1 bwv crv l, (c1 < 256 -> bwv < 4 -> crv < 8 -> l < 2 ->
  N.land (mod_c1_1272 c1 bwv crv l) 1 = l)%N.
Proof. exact sx1272_modulation_writes_ldro. Qed.
Theorem C15_sx1272_packet_params_keep_ldro : forall c1 im crc, (c1 < 256 ->
  N.land (pkt_c1_1272 c1 im crc) 1 = N.land c1 1 /\ N.testbit (pkt_c1_1272 c1 im crc) 2 = im /\
  N.testbit (pkt_c1_1272 c1 im crc) 1 = crc /\ N.land (pkt_c1_1272 c1 im crc) 0xF8 = N.land c1 0xF8)%N.
Proof. exact sx1272_packet_params_keep_ldro. Qed.
Theorem C15_sx1272_ldro_survives_prepare : forall c1 bwv crv l im crc, (c1 < 256 -> bwv < 4 -> crv < 8 -> l < 2 ->
  N.land (pkt_c1_1272 (mod_c1_1272 c1 bwv crv l) im crc) 1 = l)%N.
Proof. exact sx1272_ldro_survives_prepare. Qed.
Theorem C15_sx1276_modulation_writes_ldro : forall c3 l, (c3 < 256 ->
  N.testbit (mod_c3_1276 c3 l) 3 = negb (l =? 0) /\ N.land (mod_c3_1276 c3 l) 0xF3 = N.land c3 0xF3)%N.
Proof. exact sx1276_modulation_writes_ldro. Qed.

(* the functions above are what goes over the bus: the SPI transactions of the SX1272 operations as a function of the bytes read *)
From LoraV Require Import Model.PhyCore Proofs.PhySeq Proofs.PhySeq127 Gen.PhyTables Model.Sx126x.
Theorem C15_sx1272_bus_modulation : forall sfv bwv crv l c1 c2 rest,
  spi_seq (set_mod_1272 sfv bwv crv l) ([c1] :: [c2] :: rest) =
  [ds7_read s7_Register_RegModemConfig1; ds7_write s7_Register_RegModemConfig1 (mod_c1_1272 c1 bwv crv l);
   ds7_read s7_Register_RegModemConfig2; ds7_write s7_Register_RegModemConfig2 (N.lor (N.land c2 15) (u8 (sfv * 16)))].
Proof. exact seq_set_mod_1272. Qed.
Theorem C15_sx1272_bus_packet : forall g pre im len crc iq c1 rest, h_variant g = V1272 ->
  spi_seq (set_pkt_127 g pre im len crc iq) ([c1] :: rest) =
  [ds7_write s7_Register_RegPreambleMsb (hi8 pre); ds7_write s7_Register_RegPreambleLsb (lo8 pre);
   ds7_read s7_Register_RegModemConfig1; ds7_write s7_Register_RegModemConfig1 (pkt_c1_1272 c1 im crc)] ++
  (if im then [ds7_write s7_Register_RegPayloadLength len] else []) ++
  [ds7_write s7_Register_RegInvertiq (N.lor 0x26 (if iq then 64 else 1)); ds7_write s7_Register_RegInvertiq2 (if iq then 0x19 else 0x1d)].
Proof. exact seq_set_pkt_1272. Qed.
