(* Props/C01.v -- property C01: every frame the library builds is byte-exact LoRaWAN 1.0.x.
   The cipher and the MAC are arbitrary functions with 16-byte outputs (the only assumption);
   the *_exec corollaries instantiate them with the Gallina AES-128 / AES-CMAC that the
   correspondence check runs against the implementation. *)
From Coq Require Import NArith List.
From LoraV Require Import Base.Bytes Crypto.AES Crypto.CMAC Model.Frame Spec.L2Frame Model.Exec
  Proofs.FrameProofs Proofs.CryptoProofs.
Import ListNotations.
Local Open Scope nat_scope.

(* data frames: whenever the spec allows the description (frame of at most 255+4 bytes, i.e. the one-byte
   length field of B0 is exact) and the buffer is large enough, the builder writes exactly the spec's frame
   at the front of the buffer and leaves the rest untouched *)
Theorem C01_build_data_spec :
  forall (enc mac : list N -> list N -> list N),
  (forall k b, length (enc k b) = 16) -> (forall k m, length (mac k m) = 16) ->
  forall d nwk appk buf f,
  spec_data enc mac d nwk appk = Some f -> length f <= 259 -> length f <= length buf ->
  build_data enc mac d nwk appk buf = Ok (f ++ skipn (length f) buf, length f).
Proof. intros enc mac He Hm. exact (build_data_spec enc enc mac He Hm). Qed.

(* forbidden descriptions and too-small buffers are refused, with the documented error, and yield no frame *)
Theorem C01_build_data_refuses :
  forall (enc mac : list N -> list N -> list N),
  (forall k b, length (enc k b) = 16) -> (forall k m, length (mac k m) = 16) ->
  forall d nwk appk buf,
  (spec_data enc mac d nwk appk = None -> build_data enc mac d nwk appk buf = Err (spec_data_error d appk)) /\
  (forall f, spec_data enc mac d nwk appk = Some f -> length buf < length f ->
             build_data enc mac d nwk appk buf = Err BufferTooShort).
Proof.
  intros enc mac He Hm d nwk appk buf. split.
  - apply build_data_forbidden.
  - intros f. exact (build_data_buffer_too_short enc enc mac He Hm d nwk appk buf f).
Qed.

Theorem C01_build_join_request_spec :
  forall (mac : list N -> list N -> list N) je de dn key buf,
  (23 <= length buf ->
   build_join_request mac je de dn key buf = Ok (spec_join_request mac je de dn key ++ skipn 23 buf, 23)) /\
  (length buf < 23 -> build_join_request mac je de dn key buf = Err BufferTooShort).
Proof.
  intros mac je de dn key buf.
  pose (e0 := fun (_ _ : list N) => repeat 0%N 16).
  assert (He : forall k b, length (e0 k b) = 16) by (intros; apply repeat_length).
  split.
  - intros H. unfold build_join_request, spec_join_request, calculate_mic.
    destruct (Nat.ltb (length buf) 23) eqn:E; [apply PeanoNat.Nat.ltb_lt in E; exfalso; apply (PeanoNat.Nat.lt_irrefl 23); eapply PeanoNat.Nat.le_lt_trans; eassumption|].
    rewrite <- !app_assoc. reflexivity.
  - intros H. unfold build_join_request.
    destruct (Nat.ltb (length buf) 23) eqn:E; [reflexivity|]. apply PeanoNat.Nat.ltb_ge in E.
    exfalso. apply (PeanoNat.Nat.lt_irrefl 23). eapply PeanoNat.Nat.le_lt_trans; eassumption.
Qed.

Theorem C01_build_join_accept_spec :
  forall (dec mac : list N -> list N -> list N),
  (forall k m, length (mac k m) = 16) ->
  forall jn nid da dls rxd c key buf,
  wf_cflist c ->
  let len := match c with None => 17 | Some _ => 33 end in
  (len <= length buf ->
   build_join_accept dec mac jn nid da dls rxd c key buf
   = Ok (spec_join_accept dec mac jn nid da dls rxd c key ++ skipn len buf, len)) /\
  (length buf < len -> build_join_accept dec mac jn nid da dls rxd c key buf = Err BufferTooShort).
Proof.
  intros dec mac Hm jn nid da dls rxd c key buf Hwf len.
  pose (e0 := fun (_ _ : list N) => repeat 0%N 16).
  assert (He : forall k b, length (e0 k b) = 16) by (intros; apply repeat_length).
  split.
  - exact (build_join_accept_spec e0 dec mac He Hm jn nid da dls rxd c key buf Hwf).
  - exact (build_join_accept_refuses e0 dec mac He Hm jn nid da dls rxd c key buf).
Qed.

(* the executable instantiation meets the assumptions: the theorems are not vacuous and
   apply verbatim to the extracted model the correspondence check runs *)
Theorem C01_exec_instance :
  (forall k b, length (aes_enc k b) = 16) /\ (forall k b, length (aes_dec k b) = 16) /\
  (forall k m, length (aes_mac k m) = 16) /\
  (forall k, length k = 16 -> forall b, aes_enc k b = aes_encrypt k b).
Proof.
  repeat split; intros.
  - apply aes_enc_length. - apply aes_dec_length. - apply aes_mac_length.
  - unfold aes_enc. now rewrite key16_id.
Qed.

Theorem C01_build_data_exec : forall d nwk appk buf f,
  x_spec_data d nwk appk = Some f -> length f <= 259 -> length f <= length buf ->
  x_build_data d nwk appk buf = Ok (f ++ skipn (length f) buf, length f).
Proof. exact (build_data_spec aes_enc aes_enc aes_mac aes_enc_length aes_mac_length). Qed.
