(* Props/C08.v -- property C08: MAC command handling is consistent and atomic: the device does what it answers. *)
From Coq Require Import NArith ZArith List Bool.
From LoraV Require Import Base.Bytes Model.MacCmd Gen.CmdTables Gen.RegionTables Model.Region Model.Mac Proofs.CmdProofs Proofs.TxProofs Proofs.ChMaskCntl.
Import ListNotations.
Local Open Scope N_scope.

(* answers are queued as whole commands, never beyond the 15-byte limit *)
Theorem C08_answers_whole : forall pending cmd,
  add_mac_command pending cmd = pending ++ cmd \/ add_mac_command pending cmd = pending.
Proof. exact add_mac_command_whole. Qed.
Theorem C08_answers_bounded : forall pf cmd, (length (fst pf) <= 15)%nat -> (1 <= length cmd)%nat ->
  (length (fst (push_answer pf cmd)) <= 15)%nat.
Proof. exact push_answer_bound. Qed.

(* within one downlink answers are queued in request order as whole commands; once one does not fit, all later ones are dropped *)
Theorem C08_answers_in_order_trailing_dropped : forall pf cmd,
  push_answer pf cmd = (fst pf ++ cmd, false) /\ snd pf = false /\ fits (fst pf) cmd = true
  \/ push_answer pf cmd = (fst pf, true) /\ (snd pf = true \/ fits (fst pf) cmd = false).
Proof. exact push_answer_shape. Qed.

(* RXParamSetupReq: full ACK <=> frequency in band, RX1 offset within the region's table, RX2 data rate defined (or 15 = keep);
   then exactly RX1 offset / RX2 data rate / RX2 frequency are set; otherwise the configuration is unchanged and the answer is not 0b111 *)
Theorem C08_rxparamsetup_atomic : forall snr h p h',
  handle_cmd snr h 0x05 p false = Val h' ->
  let r := rg_id (h_rg h) in let cf := h_cf h in
  let freq := le_value (slice p 1 4) * 100 in let b0 := nthN p 0 in
  h_rg h' = h_rg h /\ h_mask h' = h_mask h /\
  (rxparam_all_valid r cf b0 freq = true ->
     (h_pending h', h_full h') = push_answer (h_pf h) [0x05; 7] /\
     cf_rx1_dr_offset (h_cf h') = N.land (N.shiftr b0 4) 7 /\ cf_rx2_frequency (h_cf h') = Some freq /\
     cf_rx2_data_rate (h_cf h') = (if N.land b0 0x0f =? 15 then cf_rx2_data_rate cf else Some (N.land b0 0x0f)) /\
     cf_data_rate (h_cf h') = cf_data_rate cf /\ cf_rx1_delay (h_cf h') = cf_rx1_delay cf /\
     cf_tx_power (h_cf h') = cf_tx_power cf /\ cf_adr (h_cf h') = cf_adr cf) /\
  (rxparam_all_valid r cf b0 freq = false ->
     h_cf h' = cf /\ exists a, a <> 7 /\ (h_pending h', h_full h') = push_answer (h_pf h) [0x05; a]).
Proof. exact rxparam_atomic. Qed.

Theorem C08_rxtimingsetup_effect : forall snr h p h',
  handle_cmd snr h 0x08 p false = Val h' ->
  (h_pending h', h_full h') = push_answer (h_pf h) [0x08] /\ h_rg h' = h_rg h /\
  cf_rx1_delay (h_cf h') = del_to_delay_ms (N.land (nthN p 0) 0x0f) /\
  cf_data_rate (h_cf h') = cf_data_rate (h_cf h) /\ cf_tx_power (h_cf h') = cf_tx_power (h_cf h) /\
  cf_rx1_dr_offset (h_cf h') = cf_rx1_dr_offset (h_cf h) /\ cf_rx2_data_rate (h_cf h') = cf_rx2_data_rate (h_cf h) /\
  cf_rx2_frequency (h_cf h') = cf_rx2_frequency (h_cf h) /\ cf_adr (h_cf h') = cf_adr (h_cf h).
Proof. exact rxtiming_effect. Qed.

Theorem C08_rx1_delay_values : forall d, d < 16 -> del_to_delay_ms d = (if d <=? 1 then 1000 else d * 1000).
Proof. exact del_to_delay_spec. Qed.

Theorem C08_dlchannel_atomic : forall r p index freq p' af ac,
  dyn_dl_update r p index freq = (p', (af, ac)) ->
  (af && ac = false -> p' = p) /\
  (af && ac = true ->
     frequency_valid r freq = true /\ index < 16 /\ mask_bit (dp_mask p) index = true /\ dp_mask p' = dp_mask p /\
     exists c, nth (N.to_nat index) (dp_channels p) None = Some c /\
               dp_channels p' = set_nth_opt (dp_channels p) (N.to_nat index)
                 (Some {| ch_freq := ch_freq c; ch_drs := ch_drs c; ch_dl := if freq =? ch_freq c then None else Some freq |})).
Proof. exact dl_channel_atomic. Qed.

Theorem C08_newchannel_atomic : forall r p index freq drr p' af ad,
  dyn_new_channel r p index freq drr = Val (p', (af, ad)) ->
  (af && ad = false -> p' = p) /\
  (af && ad = true -> r_num_join r <= index /\ index < 16 /\
     ((freq = 0 /\ exists m, set_channel (dp_mask p) index false = Val m /\
                    p' = {| dp_channels := set_nth_opt (dp_channels p) (N.to_nat index) None; dp_mask := m |})
      \/ (freq <> 0 /\ frequency_valid r freq = true /\
          exists raw m, drr = Some raw /\ set_channel (dp_mask p) index true = Val m /\
            p' = {| dp_channels := set_nth_opt (dp_channels p) (N.to_nat index)
                                     (Some {| ch_freq := freq; ch_drs := raw; ch_dl := None |}); dp_mask := m |}))).
Proof. exact new_channel_atomic. Qed.

(* a LinkADRReq block: one identical answer per request; 0b111 <=> data rate, power and mask applied exactly as commanded
   (15 = keep), anything else => configuration and channel plan untouched; an RFU ChMaskCntl never yields 0b111 *)
Theorem C08_linkadr_atomic : forall snr h p h',
  handle_cmd snr h 0x03 p false = Val h' ->
  exists ans,
  (h_pending h', h_full h') = fold_left (fun acc _ => push_answer acc [0x03; ans]) (seq 0 (S (h_nadr h))) (h_pf h) /\
  (ans <> 7 -> h_cf h' = h_cf h /\ h_rg h' = h_rg h) /\
  (ans = 7 -> exists d pw m,
      h_cf h' = set_cfg (h_cf h) d pw /\ h_rg h' = region_mask_set (h_rg h) m /\
      (N.shiftr (nthN p 0) 4 = 15 /\ d = cf_data_rate (h_cf h) \/ N.shiftr (nthN p 0) 4 <> 15 /\ d = N.shiftr (nthN p 0) 4 /\ uplink_dr (h_rg h) d <> None) /\
      (N.land (nthN p 0) 15 = 15 /\ pw = cf_tx_power (h_cf h) \/
       N.land (nthN p 0) 15 <> 15 /\ pw = tx_power_adjust (rg_id (h_rg h)) (N.land (nthN p 0) 15) /\ pw <> None)) /\
  h_nadr h' = O /\ h_known h' = true.
Proof.
  intros snr h p h' H. destruct (linkadr_atomic snr h p h' H) as (ans & _ & H1 & H2 & H3 & H4).
  exists ans. split; [exact H1|]. split; [exact H2|]. split; [exact H3|]. exact H4.
Qed.

(* sticky answers: after building an uplink exactly the whole DlChannelAns / RXParamSetupAns / RXTimingSetupAns stay queued *)
Theorem C08_sticky_answers : forall (cmds : list (N * list N)),
  Forall (fun cp => exists h, lookup ul_mac_table (fst cp) = Some (fst cp, Some (length (snd cp)), h)) cmds ->
  retain_acks (flat_map (fun cp => fst cp :: snd cp) cmds)
  = flat_map (fun cp => if sticky (fst cp) then fst cp :: snd cp else []) cmds.
Proof. exact retain_acks_spec. Qed.

(* An accepted LinkADRReq shows in the very next data uplink: whatever the region state was (in particular a fixed plan in the middle of a
   join-sub-band bias, whose data frames otherwise go out at the join data rate), once the mask has been set the next data uplink is chosen
   through the mask at the configured data rate *)
Theorem C08_accepted_linkadr_governs_next_uplink : forall g m dr draws tc g' rest,
  region_select (region_mask_set g m) dr false draws = Val (tc, g', rest) ->
  tc_dr tc = dr /\
  match rg_plan g with
  | PFix p => fix_select_masked (rg_id g) (fix_mask_set p m) dr draws = Val (tc, match rg_plan g' with PFix p' => p' | _ => fix_mask_set p m end, rest)
  | PDyn _ => True
  end.
Proof.
  intros g m dr draws tc g' rest. unfold region_select, region_mask_set. cbn [rg_plan rg_id].
  destruct (rg_plan g) as [p|p].
  - destruct (dyn_select_data _ _ _ _) as [[tc0 rest0]| |] eqn:Es; try discriminate.
    intros H. injection H as <- _ _. destruct (dyn_select_data_legal _ _ _ _ _ _ Es) as [c [_ [_ [_ [_ [D _]]]]]]. split; [exact D|exact I].
  - unfold fix_select, fix_mask_set, jc_has_bias, jc_reset. cbn [fp_jc fp_mask jc_preferred jc_num_retries jc_max_retries].
    change (0 =? 0) with true. cbn [negb andb].
    assert (R : (match jc_preferred (fp_jc p) with Some _ => (0 <? jc_max_retries (fp_jc p)) && false | None => false end) = false)
      by (destruct (jc_preferred (fp_jc p)); [apply andb_false_r|reflexivity]).
    rewrite R.
    set (pm := {| fp_mask := m; fp_jc := _ |}).
    assert (E : (match jc_preferred (fp_jc p) with Some _ => fix_select_masked (rg_id g) pm dr draws | None => fix_select_masked (rg_id g) pm dr draws end)
                = fix_select_masked (rg_id g) pm dr draws) by (destruct (jc_preferred (fp_jc p)); reflexivity).
    rewrite E. destruct (fix_select_masked (rg_id g) pm dr draws) as [[[tc0 p'] rest0]| |] eqn:Es; try discriminate.
    intros H. injection H as <- <- <-. cbn [rg_plan]. split; [|reflexivity].
    destruct (fix_masked_legal _ _ _ _ _ _ _ Es) as [_ [_ [_ [D _]]]]. exact D.
Qed.


(* RFU ChMaskCntl: the 16-channel plans (EU868, EU433, IN865, AS923) define 0 and 6 only; any other value -- in a single request
   or as the last request of a block -- is answered without the channel-mask ACK, once per request of the block, and nothing is applied *)
Theorem C08_dynamic_plan_rejects_rfu_chmaskcntl : forall snr h p h' dp,
  rg_plan (h_rg h) = PDyn dp ->
  N.land (N.shiftr (nthN p 3) 4) 7 <> 0 -> N.land (N.shiftr (nthN p 3) 4) 7 <> 6 ->
  handle_cmd snr h 0x03 p false = Val h' ->
  exists ans, N.land ans 1 = 0 /\
    (h_pending h', h_full h') = fold_left (fun acc _ => push_answer acc [0x03; ans]) (seq 0 (S (h_nadr h))) (h_pf h) /\
    h_cf h' = h_cf h /\ h_rg h' = h_rg h.
Proof. exact dynamic_plan_rejects_rfu_chmaskcntl. Qed.

(* ... and anywhere else inside a block it poisons the block: the poison persists to the last request, which then rejects *)
Theorem C08_rfu_chmaskcntl_poisons_the_block : forall snr h p h',
  region_mask_update (h_rg h) (h_mask h) (N.land (N.shiftr (nthN p 3) 4) 7) (nthN p 1) (nthN p 2) = Val None ->
  handle_cmd snr h 0x03 p true = Val h' ->
  h_known h' = false /\ h_cf h' = h_cf h /\ h_rg h' = h_rg h /\ h_pf h' = h_pf h /\ h_nadr h' = S (h_nadr h).
Proof. exact rfu_inside_block_poisons. Qed.

Theorem C08_poisoned_block_is_rejected : forall snr h p h',
  (h_known h = false \/
   region_mask_update (h_rg h) (h_mask h) (N.land (N.shiftr (nthN p 3) 4) 7) (nthN p 1) (nthN p 2) = Val None) ->
  handle_cmd snr h 0x03 p false = Val h' ->
  exists ans, N.land ans 1 = 0 /\
    (h_pending h', h_full h') = fold_left (fun acc _ => push_answer acc [0x03; ans]) (seq 0 (S (h_nadr h))) (h_pf h) /\
    h_cf h' = h_cf h /\ h_rg h' = h_rg h.
Proof. exact poisoned_block_rejected. Qed.

Theorem C08_block_poison_persists : forall snr h p h',
  h_known h = false -> handle_cmd snr h 0x03 p true = Val h' -> h_known h' = false.
Proof. exact poison_persists. Qed.

(* "15 = keep" in a later LinkADRReq of the same downlink means the configuration in force at THAT point of the command sequence (h1 may be
   the result of an earlier accepted block), not the one the downlink started with *)
Theorem C08_linkadr_keep_is_the_live_configuration : forall snr h1 h2 h3 p,
  handle_cmd snr h1 0x06 [] false = Val h2 ->
  handle_cmd snr h2 0x03 p false = Val h3 ->
  (N.shiftr (nthN p 0) 4 = 15 -> cf_data_rate (h_cf h3) = cf_data_rate (h_cf h1)) /\
  (N.land (nthN p 0) 15 = 15 -> cf_tx_power (h_cf h3) = cf_tx_power (h_cf h1)).
Proof. exact linkadr_keep_after_other_request. Qed.
