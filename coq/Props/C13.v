(* Props/C13.v -- property C13: the SX126x / SX127x drivers emit the SPI bytes of the datasheet (and hence of Semtech's reference driver,
   which the correspondence run executes on the same emulated bus).  PARTIAL in Coq: the theorems cover the command / register encodings as
   functions of the parameters (all legal values); the order of transactions and the read-modify-write plumbing of each operation is the
   hand-written program in Model/Sx126x.v / Sx127x.v, tied to the driver and to the reference driver by the correspondence run. *)
From Coq Require Import ZArith NArith List Bool.
From LoraV Require Import Base.Bytes Gen.PhyTables Model.PhyCore Model.Sx126x Model.Sx127x Spec.PhySpec Proofs.PhyBytes Proofs.PhyArith.
Import ListNotations.
Open Scope N_scope.

Theorem C13_modulation_params : forall sf bw cr ldro, cmd_mod_126 sf bw cr ldro = ds_SetModulationParams sf bw cr ldro.
Proof. exact mod_cmd_matches. Qed.
Theorem C13_rf_frequency : forall s, cmd_rf_126 s = ds_SetRfFrequency s.
Proof. exact rf_cmd_matches. Qed.
Theorem C13_packet_params : forall preamble implicit len crc iq, (preamble < 65536) ->
  cmd_pkt_126 preamble implicit len crc iq = ds_SetPacketParams preamble implicit len crc iq.
Proof. exact pkt_cmd_matches. Qed.
Theorem C13_irq_masks : forall m,
  cmd_irq_126 (irq_mask_126 m) =
  ds_SetDioIrqParams (match m with IqStandby | IqReceive => 0xFFFF | IqTransmit => ds_irq_TxDone + ds_irq_Timeout
                                 | IqCad => ds_irq_CadDone + ds_irq_CadDetected | _ => 0 end)
                     (match m with IqStandby | IqReceive => 0xFFFF | IqTransmit => ds_irq_TxDone + ds_irq_Timeout
                                 | IqCad => ds_irq_CadDone + ds_irq_CadDetected | _ => 0 end) 0 0.
Proof. exact irq_cmd_matches. Qed.
Theorem C13_errata_values : forall bw v iq, txmod_value bw v = ds_txmod (bw =? 9) v /\ iqpol_value iq v = ds_iqpol iq v.
Proof. exact errata_values_match. Qed.
Theorem C13_fixed_commands :
  first_write (set_sleep_126 true) = None /\ after_iv (set_sleep_126 true) = Some (ds_SetSleep true) /\ after_iv (set_sleep_126 false) = Some (ds_SetSleep false) /\
  first_write set_standby_126 = Some ds_SetStandbyRC /\
  after_iv do_tx_126 = Some (ds_SetTx 0) /\
  first_write clear_irq_126 = Some (ds_ClearIrqStatus 0xFFFF) /\
  after_iv set_cw_126 = Some ds_SetTxContinuousWave /\
  (forall t r, (t <= 255) -> (r <= 255) -> first_write (set_buffer_base t r) = Some (ds_SetBufferBaseAddress t r)) /\
  (forall p, first_write (set_payload_126 p) = Some (ds_WriteBuffer 0)) /\
  (forall f, first_write (calibrate_image_126 f) = Some (ds_CalibrateImage f)) /\
  (forall d h lp, first_write (set_pa_config d h lp) = Some (ds_SetPaConfig d h (if lp then 1 else 0))).
Proof. exact fixed_commands_match. Qed.
Theorem C13_sx1276_modem_config_fields : forall v, v < 256 -> fields_ok v = true.
Proof. exact sx1276_modem_config_fields. Qed.
Theorem C13_sx1276_frf_bytes : forall f, f <= 1020000000 ->
  let s := pll_step_127 f in ((s / 65536) mod 256) * 65536 + ((s / 256) mod 256) * 256 + s mod 256 = s.
Proof. exact sx1276_frf_bytes. Qed.
