(* Props/C13.v -- property C13: the SX126x / SX127x drivers emit the SPI bytes of the datasheet (and hence of Semtech's reference driver,
   which the correspondence run executes on the same emulated bus).  The theorems cover the command / register encodings as functions of the
   parameters (all legal values) and, for the SX126x, the ORDER of the transactions of each operation (C13_sx126x_seq_*: the SPI
   transactions along the success path = the sequence of datasheet commands and workarounds the reference driver issues, for every parameter
   value and every byte the chip answers to the reads).  For the SX127x the reference driver is compared by register outcome (its access
   pattern differs legitimately), so only field-level theorems are stated; its programs are tied by the correspondence run. *)
From Coq Require Import ZArith NArith List Bool.
From LoraV Require Import Base.Bytes Gen.PhyTables Model.PhyCore Model.Sx126x Model.Sx127x Spec.PhySpec Proofs.PhyBytes Proofs.PhyArith Proofs.PhySeq.
Import ListNotations.
Open Scope N_scope.

Theorem C13_modulation_params : forall sf bw cr ldro, cmd_mod_126 sf bw cr ldro = ds_SetModulationParams sf bw cr ldro.
Proof. exact mod_cmd_matches. Qed.
Theorem C13_rf_frequency : forall s, cmd_rf_126 s = ds_SetRfFrequency s.
Proof. exact rf_cmd_matches. Qed.
Theorem C13_packet_params : forall preamble implicit len crc iq, (preamble < 65536) ->
  cmd_pkt_126 preamble implicit len crc iq = ds_SetPacketParams preamble implicit len crc iq.
Proof. exact pkt_cmd_matches. Qed.
Theorem C13_irq_masks : forall m,
  cmd_irq_126 (irq_mask_126 m) =
  ds_SetDioIrqParams (match m with IqStandby | IqReceive => 0xFFFF | IqTransmit => ds_irq_TxDone + ds_irq_Timeout
                                 | IqCad => ds_irq_CadDone + ds_irq_CadDetected | _ => 0 end)
                     (match m with IqStandby | IqReceive => 0xFFFF | IqTransmit => ds_irq_TxDone + ds_irq_Timeout
                                 | IqCad => ds_irq_CadDone + ds_irq_CadDetected | _ => 0 end) 0 0.
Proof. exact irq_cmd_matches. Qed.
Theorem C13_errata_values : forall bw v iq, txmod_value bw v = ds_txmod (bw =? 9) v /\ iqpol_value iq v = ds_iqpol iq v.
Proof. exact errata_values_match. Qed.
Theorem C13_fixed_commands :
  first_write (set_sleep_126 true) = None /\ after_iv (set_sleep_126 true) = Some (ds_SetSleep true) /\ after_iv (set_sleep_126 false) = Some (ds_SetSleep false) /\
  first_write set_standby_126 = Some ds_SetStandbyRC /\
  after_iv do_tx_126 = Some (ds_SetTx 0) /\
  first_write clear_irq_126 = Some (ds_ClearIrqStatus 0xFFFF) /\
  after_iv set_cw_126 = Some ds_SetTxContinuousWave /\
  (forall t r, (t <= 255) -> (r <= 255) -> first_write (set_buffer_base t r) = Some (ds_SetBufferBaseAddress t r)) /\
  (forall p, first_write (set_payload_126 p) = Some (ds_WriteBuffer 0)) /\
  (forall f, first_write (calibrate_image_126 f) = Some (ds_CalibrateImage f)) /\
  (forall d h lp, first_write (set_pa_config d h lp) = Some (ds_SetPaConfig d h (if lp then 1 else 0))).
Proof. exact fixed_commands_match. Qed.
Theorem C13_sx1276_modem_config_fields : forall v, v < 256 -> fields_ok v = true.
Proof. exact sx1276_modem_config_fields. Qed.
Theorem C13_sx1276_frf_bytes : forall f, f <= 1020000000 ->
  let s := pll_step_127 f in ((s / 65536) mod 256) * 65536 + ((s / 256) mod 256) * 256 + s mod 256 = s.
Proof. exact sx1276_frf_bytes. Qed.

(* ---- SX126x: order of transactions of each operation = the reference sequence (Proofs/PhySeq.v states the sequences in datasheet terms) *)
Theorem C13_sx126x_seq_modulation : forall sf bw cr ldro v rest,
  spi_seq (set_mod_126 sf bw cr ldro) ([v] :: rest) =
  match ds_SetModulationParams sf bw cr ldro with
  | Some cmd => [[W cmd]; ds_ReadRegister ds_reg_TxModulation; ds_WriteRegister ds_reg_TxModulation (ds_txmod (bw =? 9) v)]
  | None => [] end.
Proof. exact seq_set_modulation_params. Qed.
Theorem C13_sx126x_seq_packet : forall preamble implicit len crc iq v rest, preamble < 65536 ->
  spi_seq (set_pkt_126 preamble implicit len crc iq) ([v] :: rest) =
  [[W (ds_SetPacketParams preamble implicit len crc iq)]; ds_ReadRegister ds_reg_IqPolarity; ds_WriteRegister ds_reg_IqPolarity (ds_iqpol iq v)].
Proof. exact seq_set_packet_params. Qed.
Theorem C13_sx126x_seq_channel : forall f reads,
  spi_seq (set_channel_126 f) reads = match pll_step_126 f with Some s => [[W (ds_SetRfFrequency s)]] | None => [] end.
Proof. exact seq_set_channel. Qed.
Theorem C13_sx126x_seq_tx_power : forall g p freq prep v rest duty hp txp,
  pa_lookup (g_pa_table g) p = Some (duty, hp, txp) ->
  (g_low_power_pa g = true -> ((15 <=? p)%Z && match freq with Some f => f <? 400000000 | None => false end) = false) ->
  spi_seq (set_tx_power_126 g p freq prep) ([v] :: rest) =
  (if g_low_power_pa g then [] else [ds_ReadRegister ds_reg_TxClampCfg; ds_WriteRegister ds_reg_TxClampCfg (N.lor v 0x1E)]) ++
  [[W (ds_SetPaConfig duty hp (if g_low_power_pa g then 1 else 0))]; [W (ds_SetTxParams txp (if prep then 2 else 4))]].
Proof. exact seq_set_tx_power. Qed.
Theorem C13_sx126x_seq_rx : forall g m reads,
  spi_seq (do_rx_126 g m) reads =
  let n := match m with RxSingle n => n | _ => 0 end in
  let '(val, mant, exp) := symb_timeout_126 n in
  [[W (ds_StopTimerOnPreamble true)]; [W (ds_SetLoRaSymbNumTimeout val)]] ++
  (if 0 <? n then [ds_WriteRegister ds_reg_SynchTimeout ((exp + mant * 8) mod 256)] else []) ++
  [ds_WriteRegister ds_reg_RxGain (if g_rx_boost g then 0x96 else 0x94);
   [W (match m with RxDuty rx sl => ds_SetRxDutyCycle rx sl | RxSingle _ => ds_SetRx 0 | RxContinuous => ds_SetRx 0xFFFFFF end)]].
Proof. exact seq_rx. Qed.
Theorem C13_sx126x_seq_cad : forall g sf reads,
  spi_seq (do_cad_126 g sf) reads =
  ds_WriteRegister ds_reg_RxGain (if g_rx_boost g then 0x96 else 0x94) ::
  match ds_sf_code sf with Some s => [[W (ds_SetCadParams 3 ((s + 13) mod 256) 10 0 0)]; [W ds_SetCad]] | None => [] end.
Proof. exact seq_cad. Qed.
Theorem C13_sx126x_seq_init : forall g sw reads,
  spi_seq (init_lora_126 g sw) reads =
  init_prefix g sw ++
  spi_seq (add_retention s6_Register_RxGain ;;; add_retention s6_Register_TxModulation) (match g_tcxo g with Some _ => tl reads | None => reads end).
Proof. exact seq_init. Qed.
Theorem C13_sx126x_seq_simple : forall reads p m warm,
  spi_seq do_tx_126 reads = [[W (ds_SetTx 0)]] /\ spi_seq (set_payload_126 p) reads = [[W (ds_WriteBuffer 0); W p]] /\
  spi_seq (set_irq_126 m) reads = [[W (cmd_irq_126 (irq_mask_126 m))]] /\ spi_seq set_standby_126 reads = [[W ds_SetStandbyRC]] /\
  spi_seq (set_sleep_126 warm) reads = [[W (ds_SetSleep warm)]].
Proof. intros. split; [apply seq_tx|]. split; [apply seq_write_payload|]. split; [apply seq_irq|]. split; [apply seq_standby|apply seq_sleep]. Qed.


(* SX127x FIFO discipline (datasheet "Data Transmission Sequence" / reception): the pointer is programmed BEFORE the FIFO burst *)
From LoraV Require Import Model.Sx127x Proofs.PhySeq127.
Theorem C13_sx127x_seq_set_payload : forall p reads,
  spi_seq (set_payload_127 p) reads =
  [ds7_write ds7_reg_FifoAddrPtr 0; ds7_write ds7_reg_PayloadLength 0; [W [N.lor ds7_reg_Fifo 0x80]; W p];
   ds7_write ds7_reg_PayloadLength (N.of_nat (length p) mod 256)].
Proof. exact seq127_set_payload. Qed.
Theorem C13_sx127x_seq_set_buffer_base : forall txb rxb reads, txb <= 255 -> rxb <= 255 ->
  spi_seq (set_buffer_base_127 txb rxb) reads = [ds7_write ds7_reg_FifoTxBaseAddr txb; ds7_write ds7_reg_FifoRxBaseAddr rxb].
Proof. exact seq127_set_buffer_base. Qed.
Theorem C13_sx127x_seq_get_rx_payload : forall cfg_len buflen n a data rest, n <= buflen ->
  spi_seq (get_rx_payload_127 false cfg_len buflen) ([n] :: [a] :: data :: rest) =
  [ds7_read ds7_reg_RxNbBytes; ds7_read ds7_reg_FifoRxCurrentAddr; ds7_write ds7_reg_FifoAddrPtr a;
   [W [ds7_reg_Fifo]; R (N.to_nat n)]; ds7_write ds7_reg_FifoAddrPtr 0].
Proof. exact seq127_get_rx_payload_explicit. Qed.
Theorem C13_sx127x_fifo_registers : 
  s7_Register_RegFifo = ds7_reg_Fifo /\ s7_Register_RegFifoAddrPtr = ds7_reg_FifoAddrPtr /\
  s7_Register_RegFifoTxBaseAddr = ds7_reg_FifoTxBaseAddr /\ s7_Register_RegFifoRxBaseAddr = ds7_reg_FifoRxBaseAddr /\
  s7_Register_RegFifoRxCurrentAddr = ds7_reg_FifoRxCurrentAddr /\ s7_Register_RegRxNbBytes = ds7_reg_RxNbBytes /\
  s7_Register_RegPayloadLength = ds7_reg_PayloadLength.
Proof. exact fifo_registers_match. Qed.
