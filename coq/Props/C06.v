(* Props/C06.v -- property C06: uplink frame counters never repeat within a session (MAC-core part).
   The MAC hands every uplink the current counter and moves it only by +1 on rx2_complete / an accepted downlink,
   reporting SessionExpired instead of wrapping.  That every uplink IS closed by one of the two before the next
   send is a front-end obligation, exercised by the fault-injection histories of the check (partial: see DESIGN). *)
From Coq Require Import NArith ZArith List Bool.
From LoraV Require Import Base.Bytes Model.Frame Model.Region Model.Mac Proofs.SessionProofs.
Import ListNotations.
Local Open Scope N_scope.

Section C06.
  Variable enc mac_fn : list N -> list N -> list N.

  Theorem C06_send_uses_current_counter : forall s cf r data fport confirmed s' fcnt frame,
    prepare_buffer enc mac_fn s cf r data fport confirmed = Val (s', fcnt, frame) ->
    fcnt = ss_fcnt_up s /\ ss_fcnt_up s' = ss_fcnt_up s /\ ss_fcnt_down s' = ss_fcnt_down s /\
    ss_nwkskey s' = ss_nwkskey s /\ ss_appskey s' = ss_appskey s /\ ss_devaddr s' = ss_devaddr s /\
    ss_owed_ack s' = false /\ ss_confirmed s' = confirmed.
  Proof. exact (prepare_buffer_counter enc mac_fn). Qed.

  Theorem C06_window_close_advances_or_expires : forall s cf r,
    let '(s', _, resp) := rx2_complete_session s cf r in
    (ss_fcnt_up s = 0xFFFFFFFF /\ s' = s /\ resp = RSessionExpired) \/
    (ss_fcnt_up s < 0xFFFFFFFF /\ ss_fcnt_up s' = ss_fcnt_up s + 1 /\ resp <> RSessionExpired) \/
    (0xFFFFFFFF < ss_fcnt_up s /\ ss_fcnt_up s' = ss_fcnt_up s + 1).
  Proof. exact rx2_complete_counter. Qed.

  Theorem C06_receive_never_rewinds : forall s cf rg bytes maxp snr ignore_mac o,
    handle_rx_session enc mac_fn s cf rg bytes maxp snr ignore_mac = Val o ->
    ss_fcnt_up s <= ss_fcnt_up (ro_session o) <= ss_fcnt_up s + 1.
  Proof. exact (handle_rx_counter_monotone enc mac_fn). Qed.
End C06.
