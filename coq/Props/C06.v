(* Props/C06.v -- property C06: uplink frame counters never repeat within a session.
   MAC core: every uplink gets the current counter, which moves only by +1 on rx2_complete / an accepted downlink, with
   SessionExpired instead of wrapping.  Asynchronous front-end (Model/AsyncDev.v, tied to async_device/mod.rs by the correspondence
   run): every send that returns has concluded its uplink, whatever the radio did; counters of successive uplinks of a session
   strictly increase.  Non-blocking front-end (Model/NbDev.v, tied to nb_device/state.rs the same way): the same for every sequence of
   events and radio answers. *)
From Coq Require Import NArith ZArith List Bool.
From LoraV Require Import Base.Bytes Model.Frame Model.Region Model.Mac Model.AsyncDev Model.NbDev Proofs.SessionProofs Proofs.AsyncProofs Proofs.NbProofs.
Import ListNotations.
Local Open Scope N_scope.

Section C06.
  Variable enc mac_fn : list N -> list N -> list N.

  Theorem C06_send_uses_current_counter : forall s cf r data fport confirmed s' fcnt frame,
    prepare_buffer enc mac_fn s cf r data fport confirmed = Val (s', fcnt, frame) ->
    fcnt = ss_fcnt_up s /\ ss_fcnt_up s' = ss_fcnt_up s /\ ss_fcnt_down s' = ss_fcnt_down s /\
    ss_nwkskey s' = ss_nwkskey s /\ ss_appskey s' = ss_appskey s /\ ss_devaddr s' = ss_devaddr s /\
    ss_owed_ack s' = false /\ ss_confirmed s' = confirmed.
  Proof. exact (prepare_buffer_counter enc mac_fn). Qed.

  Theorem C06_window_close_advances_or_expires : forall s cf r,
    let '(s', _, resp) := rx2_complete_session s cf r in
    (ss_fcnt_up s = 0xFFFFFFFF /\ s' = s /\ resp = RSessionExpired) \/
    (ss_fcnt_up s < 0xFFFFFFFF /\ ss_fcnt_up s' = ss_fcnt_up s + 1 /\ resp <> RSessionExpired) \/
    (0xFFFFFFFF < ss_fcnt_up s /\ ss_fcnt_up s' = ss_fcnt_up s + 1).
  Proof. exact rx2_complete_counter. Qed.

  Theorem C06_receive_never_rewinds : forall s cf rg bytes maxp snr ignore_mac o,
    handle_rx_session enc mac_fn s cf rg bytes maxp snr ignore_mac = Val o ->
    ss_fcnt_up s <= ss_fcnt_up (ro_session o) <= ss_fcnt_up s + 1.
  Proof. exact (handle_rx_counter_monotone enc mac_fn). Qed.

  (* async_device::Device::send, for EVERY radio behaviour (script of timeouts / errors / frames / pending receptions, a fault at any
     radio call, Class C or not): when send returns -- with a value or with an error -- the uplink it built from counter c has been
     concluded: the session (same keys) has a larger uplink counter, or the device answers SessionExpired with the counter space
     exhausted *)
  Theorem C06_async_send_concludes_the_uplink : forall d e data fport confirmed draws d' e' res s,
    adev_send enc mac_fn d e data fport confirmed draws = (d', e', res) -> m_state (ad_mac d) = Joined s ->
    res <> APanic -> res <> AHang -> res <> AParked ->
    exists o s', send enc mac_fn (ad_mac d) data fport confirmed draws = Val (SendOk o) /\ to_counter o = ss_fcnt_up s /\
      m_state (ad_mac d') = Joined s' /\ keys_eq s s' /\
      (ss_fcnt_up s < ss_fcnt_up s' \/ (res = AOk RSessionExpired /\ ss_fcnt_up s = 0xFFFFFFFF /\ ss_fcnt_up s' = ss_fcnt_up s)).
  Proof. exact (adev_send_concludes enc mac_fn). Qed.

  (* hence: whatever happens between two sends of one session (further sends, Class C listening with any receptions, data-rate and
     ADR changes), the second frame is built from a strictly larger counter -- until session expiry has been reported *)
  Theorem C06_async_counters_strictly_increase : forall d e data fport confirmed draws d1 e1 r1 s o1 d2 data2 fport2 confirmed2 draws2 o2,
    m_state (ad_mac d) = Joined s ->
    adev_send enc mac_fn d e data fport confirmed draws = (d1, e1, r1) -> r1 <> APanic -> r1 <> AHang -> r1 <> AParked -> r1 <> AOk RSessionExpired ->
    send enc mac_fn (ad_mac d) data fport confirmed draws = Val (SendOk o1) ->
    same_session enc mac_fn d1 d2 ->
    send enc mac_fn (ad_mac d2) data2 fport2 confirmed2 draws2 = Val (SendOk o2) ->
    to_counter o1 < to_counter o2.
  Proof. exact (async_counters_strictly_increase enc mac_fn). Qed.

  (* no operation of the front-end on an established session changes its keys or moves the counter backwards *)
  Theorem C06_async_never_rewinds : forall d d', same_session enc mac_fn d d' -> frel d d'.
  Proof. exact (same_session_frel enc mac_fn). Qed.

  (* nb_device: a send from Idle that builds a frame from counter c1, then ANY events (sends, radio events answered by the radio with
     Txing / TxDone / Idle / Rxing / an error / any received packet, timeouts), with a fault at any radio call, none of them reporting
     session expiry (nor a panic / endless loop), then another frame built: its counter is strictly larger *)
  Theorem C06_nb_counters_strictly_increase : forall m e data fport confirmed draws ans st1 m1 e1 r1 s o1 st2 m2 data2 fport2 confirmed2 draws2 o2,
    m_state m = Joined s ->
    handle_event enc mac_fn NIdle m e (NSend data fport confirmed draws) ans = (st1, m1, e1, r1) ->
    r1 <> NrSessionExpired -> r1 <> NrPanic -> r1 <> NrHang ->
    send enc mac_fn m data fport confirmed draws = Val (SendOk o1) ->
    nsteps enc mac_fn st1 m1 st2 m2 ->
    st2 = NIdle -> send enc mac_fn m2 data2 fport2 confirmed2 draws2 = Val (SendOk o2) ->
    to_counter o1 < to_counter o2.
  Proof. exact (nb_counters_strictly_increase enc mac_fn). Qed.
End C06.
