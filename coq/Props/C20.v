(* Props/C20.v -- property C20: a persisted session restores losslessly and never rewinds counters. *)
From Coq Require Import ZArith NArith List Bool.
From LoraV Require Import Base.Bytes Model.Frame Model.Region Model.Mac Model.Persist Proofs.PersistProofs Proofs.ReachProofs.
Import ListNotations.
Local Open Scope nat_scope.

(* lossless: the serialised form of every representable session restores to a session equal in EVERY field (keys, address, both
   counters incl. "no downlink yet", ADR counter, pending answers, owed ACK, confirmed flag) *)
Theorem C20_lossless : forall s, session_wf s -> restore s = Some s.
Proof. exact restore_roundtrip. Qed.

(* hence anything computed from the restored session -- the next uplink, the verdict on a replayed downlink -- is what the original gives *)
Theorem C20_same_behaviour : forall (A : Type) (f : session -> A) s, session_wf s -> option_map f (restore s) = Some (f s).
Proof. exact restored_behaves_identically. Qed.

(* every state a session can reach is representable: a new session is, and every session operation keeps it *)
Theorem C20_new_session_representable : forall nwk app addr,
  length nwk = 16 -> bytes_ok nwk = true -> length app = 16 -> bytes_ok app = true -> (addr < 2 ^ 32)%N -> session_wf (session_new nwk app addr).
Proof. exact session_new_wf. Qed.
Theorem C20_window_end_representable : forall s cf r, session_wf s -> session_wf (fst (fst (rx2_complete_session s cf r))).
Proof. exact rx2_complete_wf. Qed.
Section C20.
  Variable enc : list N -> list N -> list N.
  Variable mac_fn : list N -> list N -> list N.
  Theorem C20_uplink_representable : forall s cf r data fport confirmed s' fcnt frame, session_wf s ->
    prepare_buffer enc mac_fn s cf r data fport confirmed = Val (s', fcnt, frame) -> session_wf s'.
  Proof. exact (prepare_buffer_wf enc mac_fn). Qed.
  Theorem C20_downlink_representable : forall s cf rg bytes mp snr im o, session_wf s -> bytes_ok bytes = true ->
    handle_rx_session enc mac_fn s cf rg bytes mp snr im = Val o -> session_wf (ro_session o).
  Proof. exact (handle_rx_session_wf enc mac_fn). Qed.
End C20.

(* malformed data: whatever document the deserialiser accepts yields a representable session (pending answers within 15 whole bytes,
   16-byte keys, 32-bit counters) -- on which, by C04, no operation panics -- and storing / restoring it again is stable *)
Theorem C20_accepted_document_representable : forall j s, de_session j = Some s -> session_wf s.
Proof. exact accepted_document_is_representable. Qed.
Theorem C20_accepted_document_stable : forall j s, de_session j = Some s -> restore s = Some s.
Proof. exact accepted_then_stable. Qed.

(* non-vacuity: a session with full pending answers and counters at the 32-bit boundary is representable *)
Example C20_example : session_wf {| ss_pending := [5; 7; 8; 10; 3; 5; 7; 8; 10; 3; 5; 7; 8; 10; 3]%N; ss_owed_ack := true; ss_confirmed := true;
  ss_nwkskey := repeat 255%N 16; ss_appskey := repeat 0%N 16; ss_devaddr := 4294967295%N; ss_fcnt_up := 4294967295%N;
  ss_fcnt_down := Some 4294967295%N; ss_adr_ack_cnt := 4294967295%N |}.
Proof. unfold session_wf. cbn. repeat split; try reflexivity; try (apply N.ltb_lt; reflexivity); try (apply Nat.leb_le; reflexivity). Qed.
