(* Props/C04.v -- property C04: no received frame or network command can panic or hang the device.
   The model returns Panic wherever the Rust code indexes, unwraps, overflows (checked build) or calls panic!; the theorems say that
   under the shape invariant mac_ok -- which holds initially and is kept by every operation -- none of these is reached by ANY
   received byte string, and that transmitting panics only in the two deliberate panic!s of prepare_buffer (application misuse). *)
From Coq Require Import NArith ZArith List Bool.
From LoraV Require Import Base.Bytes Model.Frame Model.MacCmd Gen.CmdTables Gen.RegionTables Model.Region Model.Mac Model.AsyncDev Model.NbDev Proofs.NoPanicProofs Proofs.AsyncNoPanic Proofs.NbNoPanic.
Import ListNotations.
Local Open Scope nat_scope.

(* the invariant holds for a freshly constructed MAC of every region *)
Theorem C04_invariant_initial : forall r p g, (r < 9)%N -> mac_ok (mac_new r p g).
Proof. exact mac_new_ok. Qed.

(* one MAC command, every CID, every payload, every state satisfying the invariant: handled without panic, invariant kept *)
Theorem C04_every_command : forall snr h cid p nx, hinv h -> exists h', handle_cmd snr h cid p nx = Val h' /\ hinv h'.
Proof. exact handle_cmd_ok. Qed.

Theorem C04_every_command_stream : forall snr cf rg pending bytes, region_ok rg -> cfg_ok rg cf ->
  exists cf' rg' pend', handle_downlink_macs snr cf rg pending bytes = Val (cf', rg', pend') /\ region_ok rg' /\ cfg_ok rg' cf'.
Proof. exact handle_downlink_macs_ok. Qed.

Section C04.
  Variable enc : list N -> list N -> list N.
  Variable mac_fn : list N -> list N -> list N.
  Hypothesis enc_len : forall k b, length (enc k b) = 16.

  (* every byte string received in a Class A window or in Class C reception, in every activation state (joined, joining, unjoined) *)
  Theorem C04_every_received_frame : forall m bytes snr mp cc, mac_ok m ->
    exists o, mac_handle_rx enc mac_fn m bytes snr mp cc = Val o /\ (forall mo, o = Some mo -> mac_ok (mo_mac mo)).
  Proof. exact (mac_handle_rx_total enc mac_fn enc_len). Qed.

  Theorem C04_window_end : forall m, mac_ok m -> mac_ok (fst (mac_rx2_complete m)).
  Proof. exact mac_rx2_complete_ok. Qed.

  (* the device can still transmit afterwards: from any state satisfying the invariant a send either succeeds (keeping the invariant),
     runs out of random draws (see C09 for progress), reports NotJoined, or hits one of prepare_buffer's two deliberate panic!s *)
  Theorem C04_send_panics_only_on_api_misuse : forall m data fport confirmed draws, mac_ok m ->
    send enc mac_fn m data fport confirmed draws = Panic ->
    exists s, m_state m = Joined s /\ prepare_buffer enc mac_fn s (m_cfg m) (rg_id (m_region m)) data fport confirmed = Panic.
  Proof. exact (send_panics_only_in_prepare_buffer enc mac_fn). Qed.

  Theorem C04_send_keeps_invariant : forall m data fport confirmed draws o, mac_ok m ->
    send enc mac_fn m data fport confirmed draws = Val (SendOk o) -> mac_ok (to_mac o).
  Proof. exact (send_keeps_invariant enc mac_fn). Qed.

  Theorem C04_join_request_never_panics : forall m c draws, mac_ok m -> (forall k b, length (mac_fn k b) = 16) -> join_otaa mac_fn m c draws <> Panic.
  Proof. exact (join_never_panics mac_fn). Qed.

  (* the asynchronous front-end (Model/AsyncDev.v): in an established session, whatever the radio delivers during Device::send -- any
     byte strings in RX1, RX2 or the Class C reception between the windows, timeouts, radio errors at any call, pending receptions --
     send does not panic, except in prepare_buffer's deliberate panic!s (application misuse); the RX-window lead time is assumed not
     longer than the transmission took (the scripted radio reports 100 ms) *)
  Theorem C04_async_send_never_panics_on_radio_input : forall d e data fport confirmed draws d' e' s,
    adev_send enc mac_fn d e data fport confirmed draws = (d', e', APanic) -> mac_ok (ad_mac d) -> (ad_lead d <= 100)%N -> m_state (ad_mac d) = Joined s ->
    prepare_buffer enc mac_fn s (m_cfg (ad_mac d)) (rg_id (m_region (ad_mac d))) data fport confirmed = Panic.
  Proof. exact (adev_send_panics_only_in_prepare_buffer enc mac_fn enc_len). Qed.

  Hypothesis mac_len : forall k b, length (mac_fn k b) = 16.
  (* Device::join (OTAA) and Device::rxc_listen: no radio behaviour makes them panic (the From<Response> conversions are never fed a
     response they reject) *)
  Theorem C04_async_join_never_panics : forall d e c draws d' e' res,
    adev_join enc mac_fn d e c draws = (d', e', res) -> mac_ok (ad_mac d) -> (ad_lead d <= 100)%N -> res <> APanic.
  Proof. exact (adev_join_never_panics enc mac_fn enc_len mac_len). Qed.
  Theorem C04_async_listen_never_panics : forall d e d' e' res, adev_listen enc mac_fn d e = (d', e', res) -> mac_ok (ad_mac d) -> res <> APanic.
  Proof. exact (adev_listen_never_panics enc mac_fn enc_len). Qed.

  (* nb_device: for every state of the machine, every event, every answer of the radio (any received packet), a fault at any radio
     call: no panic except prepare_buffer's on a send request; the MAC invariant is kept, so this holds along every event sequence *)
  Theorem C04_nb_event_never_panics : forall st m e ev ans st' m' e' r, handle_event enc mac_fn st m e ev ans = (st', m', e', r) -> mac_ok m ->
    mac_ok m' /\
    (r = NrPanic -> exists s data fport confirmed draws, ev = NSend data fport confirmed draws /\ st = NIdle /\ m_state m = Joined s /\
                      prepare_buffer enc mac_fn s (m_cfg m) (rg_id (m_region m)) data fport confirmed = Panic).
  Proof. exact (nb_event_never_panics enc mac_fn enc_len mac_len). Qed.
End C04.

(* channel selection: never a panic, the invariant is kept, for every random stream *)
Theorem C04_selection_never_panics : forall g dr dt join draws, region_ok g -> datarate_index (rg_id g) dr = Val (Some dt) ->
  region_select g dr join draws <> Panic /\
  forall tc g' rest, region_select g dr join draws = Val (tc, g', rest) ->
    region_ok g' /\ (forall d, uplink_dr g' d = uplink_dr g d) /\ rg_id g' = rg_id g /\ (tc_dr tc < 16)%N.
Proof. exact region_select_ok. Qed.
