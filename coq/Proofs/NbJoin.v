(* Proofs/NbJoin.v -- C11 through nb_device: once a join request has put the MAC into the joining state (DevNonce n, credentials c), NO sequence
   of radio events, timeouts and send requests during which the radio delivers no authentic JoinAccept changes the MAC at all: the device is
   never joined and never reports JoinSuccess (a new join request starts a new attempt and is excluded here). *)
From Coq Require Import NArith ZArith List Bool Lia.
From LoraV Require Import Base.Bytes Model.Frame Model.Region Model.Mac Model.NbDev Proofs.TxHistory.
Import ListNotations.
Local Open Scope N_scope.

Section NbJoin.
  Variable enc mac_fn : list N -> list N -> list N.

  Definition nb_not_accept (c : credentials) (p : list N) : Prop :=
    exists er buf, ja_check_mic_and_decrypt enc mac_fn p (cr_appkey c) = (Err er, buf).
  Definition quiet_event (c : credentials) (x : nevent * ranswer) : Prop :=
    (match fst x with NJoin _ _ => False | _ => True end) /\
    (match snd x with RaRxDone p => nb_not_accept c p | _ => True end).

  Lemma nb_joining_step n c st m e ev ans st' m' e' r :
    m_state m = Otaa n c -> quiet_event c (ev, ans) ->
    handle_event enc mac_fn st m e ev ans = (st', m', e', r) -> m' = m /\ r <> NrJoinSuccess.
  Proof.
    intros J [QE QA] H. cbn [fst snd] in QE, QA.
    destruct st as [|j rx1 rx2|j rx1 rx2 w|j rx1 rx2 w rf]; cbn [handle_event] in H.
    - destruct ev as [cr dr|data fport confirmed draws| |]; try contradiction; try (injection H as _ <- _ <-; split; [reflexivity|discriminate]).
      unfold send in H. rewrite J in H. injection H as _ <- _ <-. split; [reflexivity|discriminate].
    - destruct ev as [cr dr|data fport confirmed draws| |]; try contradiction; try (injection H as _ <- _ <-; split; [reflexivity|discriminate]).
      destruct (ncall_radio e NcPhy) as [e1 ok]. destruct ok; cbn [negb] in H; [|injection H as _ <- _ <-; split; [reflexivity|discriminate]].
      destruct ans; injection H as _ <- _ <-; split; try reflexivity; discriminate.
    - destruct ev as [cr dr|data fport confirmed draws| |]; try contradiction; try (injection H as _ <- _ <-; split; [reflexivity|discriminate]).
      destruct (ncall_radio e _) as [e1 ok]. destruct ok; cbn [negb] in H; [|injection H as _ <- _ <-; split; [reflexivity|discriminate]].
      destruct w as [t|t]; [destruct (_ <? _)|]; injection H as _ <- _ <-; split; try reflexivity; discriminate.
    - destruct ev as [cr dr|data fport confirmed draws| |]; try contradiction; try (injection H as _ <- _ <-; split; [reflexivity|discriminate]).
      + destruct (ncall_radio e NcPhy) as [e1 ok]. destruct ok; cbn [negb] in H; [|injection H as _ <- _ <-; split; [reflexivity|discriminate]].
        destruct ans; try (injection H as _ <- _ <-; split; [reflexivity|discriminate]).
        destruct (Nat.leb 256 (length packet)); [injection H as _ <- _ <-; split; [reflexivity|discriminate]|].
        destruct QA as [er [buf E]]. unfold mac_handle_rx in H. rewrite J in H. unfold otaa_handle_rx in H. rewrite E in H.
        cbn [mo_resp mo_mac] in H. injection H as _ <- _ <-. split; [reflexivity|discriminate].
      + destruct (ncall_radio e NcCancelRx) as [e1 ok]. destruct ok; cbn [negb] in H; [|injection H as _ <- _ <-; split; [reflexivity|discriminate]].
        destruct w as [t|t]; [destruct (_ <? _); injection H as _ <- _ <-; split; try reflexivity; discriminate|].
        unfold mac_rx2_complete in H. rewrite J in H. cbn [resp_of_mac] in H. injection H as _ <- _ <-. split; [reflexivity|discriminate].
  Qed.

  Theorem nb_join_needs_authentic_accept n c : forall evs st m e,
    m_state m = Otaa n c -> Forall (quiet_event c) evs ->
    let '(st', m', e') := nb_run enc mac_fn st m e evs in m' = m.
  Proof.
    induction evs as [|[ev ans] rest IH]; intros st m e J Q; cbn [nb_run]; [reflexivity|].
    inversion Q as [|x l Q1 Q2]; subst.
    destruct (handle_event enc mac_fn st m e ev ans) as [[[st1 m1] e1] r1] eqn:H.
    destruct (nb_joining_step _ _ _ _ _ _ _ _ _ _ _ J Q1 H) as [-> _].
    exact (IH st1 m e1 J Q2).
  Qed.
End NbJoin.
