(* Proofs/LoraHistory.v -- C14 for whole histories: any sequence of LoRa-layer API operations, each run by the interpreter `run` on an
   emulated chip whose state (registers, scripted reads, interrupt script, fault position, the wait that never completes) the
   environment may have changed arbitrarily since the previous operation -- everything but the driver object's fields. *)
From Coq Require Import ZArith NArith List Bool Lia Arith.
From LoraV Require Import Base.Bytes Model.PhyCore Model.Sx126x Model.Sx127x Model.LoraDrv Model.LoraKinds Spec.ChipMon
  Proofs.PhyHoare Proofs.PlainProgs Proofs.KindSpec Proofs.LoraInv Proofs.Kind126Proofs Proofs.Kind127Proofs.
Import ListNotations.
Local Open Scope nat_scope.

Inductive apiop :=
| OInit | OSleep (warm : bool) | OPrepTx (md : mdl) (pk : pktp) (power : Z) (buffer : list N) | OTx
| OPrepRx (rm : rxmode) (md : mdl) (pk : pktp) | OStartRx | OCompleteRx (pk : pktp) (buflen : N) | ORx (pk : pktp) (buflen : N)
| OSwitch (f : N) | OListen (f bw : N) | OPrepCad (md : mdl) | OCad (md : mdl) | OSync (sw : N).

Definition is_listen (o : apiop) : bool := match o with OListen _ _ => true | _ => false end.
(* modulation parameters come from the API's typed values: the spreading factor is one of the 8 enum values *)
Definition valid_op (o : apiop) : Prop := match o with OCad md => (md_sf md < 8)%N | _ => True end.
Definition drop {A} (p : prog A) : prog unit := p ;;; Ret tt.
Definition op_prog (K : kind) (fuel : nat) (o : apiop) : prog unit :=
  match o with
  | OInit => init K | OSleep w => sleep K w | OPrepTx md pk pw b => prepare_for_tx K md pk pw b | OTx => tx K fuel
  | OPrepRx rm md pk => prepare_for_rx K rm md pk | OStartRx => start_rx K | OCompleteRx pk n => drop (complete_rx K fuel pk n)
  | ORx pk n => drop (rx K fuel pk n) | OSwitch f => rx_switch_channel K f | OListen f bw => listen K f bw
  | OPrepCad md => prepare_for_cad K md | OCad md => drop (cad K md) | OSync sw => set_lora_sync_word K sw
  end.

Section History.
  Variable xl : bool -> mctx.                  (* the monitor context of an operation: listen() or not *)
  Hypothesis XL : forall li, x_listen (xl li) = li.
  Variable K : kind.
  Variable KO : forall li, kind_ok (xl li) K.
  Definition I (d : drv) (m : mon) : Prop := Inv (xl false) K (KO false) d m.
  Hypothesis INV_EQ : forall d m, Inv (xl true) K (KO true) d m <-> I d m.

  Definition P (d0 : drv) (r : unit + rerr) (d' : drv) (m' : mon) : Prop := I d' m' /\ clauseD d0 r d' m'.

  Lemma wp_drop x A (p : prog A) (Q : unit + rerr -> drv -> mon -> Prop) d m :
    wp x p (fun r d' m' => match r with inl _ => Q (inl tt) d' m' | inr e => Q (inr e) d' m' end) d m -> wp x (drop p) Q d m.
  Proof. intros H. unfold drop. apply wp_bind. eapply wp_mono; [|exact H]. intros r d' m' Hr. destruct r; exact Hr. Qed.

  Lemma clauseD_cast A B d0 (r : A + rerr) (r' : B + rerr) d' m' :
    (forall e, r' = inr e -> r = inr e) -> clauseD d0 r d' m' -> clauseD d0 r' d' m'.
  Proof. intros H C e E O. apply (C e (H e E) O). Qed.

  (* one operation, from any state satisfying the invariant, in the monitor context of that operation *)
  Theorem op_keeps fuel o d m : valid_op o -> I d m -> wp (xl (is_listen o)) (op_prog K fuel o) (P d) d (time_passes m).
  Proof.
    intros VO HI.
    assert (HF : Inv (xl false) K (KO false) d (time_passes m)) by (apply Inv_time; exact HI).
    assert (NL : x_listen (xl false) = false) by apply XL.
    assert (SAME : forall (r : unit + rerr) d' m', post (xl false) K (KO false) d r d' m' -> P d r d' m') by (intros r d' m' H; exact H).
    destruct o; cbn [is_listen op_prog].
    - eapply wp_mono; [exact SAME|apply init_keeps; exact HF].
    - eapply wp_mono; [exact SAME|apply sleep_keeps; exact HF].
    - eapply wp_mono; [exact SAME|apply prepare_for_tx_keeps; exact HF].
    - eapply wp_mono; [exact SAME|apply tx_keeps; [exact NL|exact HF]].
    - eapply wp_mono; [exact SAME|apply prepare_for_rx_keeps; exact HF].
    - eapply wp_mono; [exact SAME|apply start_rx_keeps; [exact NL|exact HF]].
    - apply wp_drop. eapply wp_mono; [|apply complete_rx_keeps; exact HF]. intros r d' m' [H C]. destruct r as [a|e]; (split; [exact H|]);
        (eapply clauseD_cast; [|exact C]); intros e0 E; [discriminate E|injection E as <-; reflexivity].
    - apply wp_drop. eapply wp_mono; [|apply rx_keeps; [exact NL|exact HF]]. intros r d' m' [H C]. destruct r as [a|e]; (split; [exact H|]);
        (eapply clauseD_cast; [|exact C]); intros e0 E; [discriminate E|injection E as <-; reflexivity].
    - eapply wp_mono; [exact SAME|apply rx_switch_channel_keeps; [exact NL|exact HF]].
    - (* listen: its own monitor context *)
      assert (HT : Inv (xl true) K (KO true) d (time_passes m)) by (apply Inv_time, INV_EQ; exact HI).
      eapply wp_mono; [|apply listen_keeps; [apply XL|exact HT]]. intros r d' m' [H C]. split; [apply INV_EQ; exact H|exact C].
    - eapply wp_mono; [exact SAME|apply prepare_for_cad_keeps; exact HF].
    - apply wp_drop. eapply wp_mono; [|apply cad_keeps; [exact VO|exact HF]]. intros r d' m' [H C]. destruct r as [a|e]; (split; [exact H|]);
        (eapply clauseD_cast; [|exact C]); intros e0 E; [discriminate E|injection E as <-; reflexivity].
    - eapply wp_mono; [exact SAME|apply sync_keeps; exact HF].
  Qed.

  (* the same for `run`: every emulated chip, every fault position, every interrupt script *)
  Theorem run_op_keeps fuel rfuel o c m : valid_op o -> I (c_drv c) m ->
    match run rfuel c (op_prog K fuel o) [] with
    | (c', tr, Some r) => P (c_drv c) r (c_drv c') (mon_op (xl (is_listen o)) m tr)
    | (_, _, None) => True
    end.
  Proof.
    intros VO HI. pose proof (wp_sound (xl (is_listen o)) unit rfuel (op_prog K fuel o) (P (c_drv c)) c [] (time_passes m)) as S.
    cbn [mon_rev fold_right] in S. specialize (S (op_keeps fuel o (c_drv c) m VO HI)).
    destruct (run rfuel c (op_prog K fuel o) []) as [[c' tr] [r|]]; exact S.
  Qed.

  (* histories: between operations the environment may change anything of the emulated chip except the driver object's fields *)
  Inductive hist (fuel rfuel : nat) : chip -> mon -> Prop :=
  | HStart c m : I (c_drv c) m -> hist fuel rfuel c m
  | HStep c m o c1 c' tr r : hist fuel rfuel c m -> c_drv c1 = c_drv c -> valid_op o ->
      run rfuel c1 (op_prog K fuel o) [] = (c', tr, Some r) -> hist fuel rfuel c' (mon_op (xl (is_listen o)) m tr).

  Theorem hist_inv fuel rfuel c m : hist fuel rfuel c m -> I (c_drv c) m.
  Proof.
    induction 1 as [c m H|c m o c1 c' tr r H IH E VO R]; [exact H|].
    pose proof (run_op_keeps fuel rfuel o c1 m VO) as S. rewrite E in S. specialize (S IH). rewrite R in S. apply S.
  Qed.
End History.

(* ---- the two drivers *)
Section Drivers.
  Variables (tc dc lo : bool).
  Section SX126x.
    Variable g : cfg126.
    Hypothesis HD : g_dcdc g = dc.
    Hypothesis HT : tc = match g_tcxo g with Some _ => true | None => false end.
    Definition xl126 (li : bool) : mctx := x126 tc dc li lo.
    Definition ko126 (li : bool) : kind_ok (xl126 li) (kind126 g) := kind126_ok tc dc li lo g HD HT.
    Definition I126 : drv -> mon -> Prop := I xl126 (kind126 g) ko126.
    Lemma inv_eq_126 d m : Inv (xl126 true) (kind126 g) (ko126 true) d m <-> I126 d m.
    Proof. split; intros H; exact H. Qed.
    Definition hist126 := hist xl126 (kind126 g) ko126.
    Theorem hist126_inv fuel rfuel c m : hist126 fuel rfuel c m -> I126 (c_drv c) m.
    Proof. apply hist_inv; [intros li; reflexivity|exact inv_eq_126]. Qed.
    Theorem run126_keeps fuel rfuel o c m : valid_op o -> I126 (c_drv c) m ->
      match run rfuel c (op_prog (kind126 g) fuel o) [] with
      | (c', tr, Some r) => P xl126 (kind126 g) ko126 (c_drv c) r (c_drv c') (mon_op (xl126 (is_listen o)) m tr)
      | (_, _, None) => True
      end.
    Proof. apply run_op_keeps; [intros li; reflexivity|exact inv_eq_126]. Qed.
  End SX126x.
  Section SX127x.
    Variables (h : cfg127) (quirk : bool).
    Hypothesis HT : h_tcxo h = tc.
    (* x_lora = true: the selection of the LoRa modem counts among what every start depends on *)
    Definition xl127 (li : bool) : mctx := x127 tc dc li true.
    Definition ko127 (li : bool) : kind_ok (xl127 li) (kind127 h quirk) := kind127_ok tc dc li true h quirk HT.
    Definition I127 : drv -> mon -> Prop := I xl127 (kind127 h quirk) ko127.
    Lemma inv_eq_127 d m : Inv (xl127 true) (kind127 h quirk) (ko127 true) d m <-> I127 d m.
    Proof. split; intros H; exact H. Qed.
    Definition hist127 := hist xl127 (kind127 h quirk) ko127.
    Theorem hist127_inv fuel rfuel c m : hist127 fuel rfuel c m -> I127 (c_drv c) m.
    Proof. apply hist_inv; [intros li; reflexivity|exact inv_eq_127]. Qed.
    Theorem run127_keeps fuel rfuel o c m : valid_op o -> I127 (c_drv c) m ->
      match run rfuel c (op_prog (kind127 h quirk) fuel o) [] with
      | (c', tr, Some r) => P xl127 (kind127 h quirk) ko127 (c_drv c) r (c_drv c') (mon_op (xl127 (is_listen o)) m tr)
      | (_, _, None) => True
      end.
    Proof. apply run_op_keeps; [intros li; reflexivity|exact inv_eq_127]. Qed.
  End SX127x.
End Drivers.

(* the state LoRa::new starts from: driver fields (Sleep, cold_start, calibrate_image, sync word), a chip just powered on *)
Lemma initial_inv x K KO sw : Inv x K KO (initial_fields sw) power_on.
Proof.
  split; [split; reflexivity|]. split; [exact Logic.I|]. split; [intros H; discriminate H|]. split; [exact Logic.I|]. intros _. discriminate.
Qed.
