(* Proofs/NbProofs.v -- C06 at the non-blocking front-end (nb_device): for every sequence of events (send requests, radio events with
   any answer of the radio -- Txing, TxDone, Idle, Rxing, an error, any received packet --, timeouts) and a fault at any radio
   call, two data frames of one session are built from strictly increasing counters until session expiry is reported. *)
From Coq Require Import NArith ZArith List Bool Lia.
From LoraV Require Import Base.Bytes Model.Frame Model.Region Model.Mac Model.AsyncDev Model.NbDev Proofs.SessionProofs Proofs.AsyncProofs.
Import ListNotations.
Local Open Scope N_scope.

Definition is_join (ev : nevent) : bool := match ev with NJoin _ _ => true | _ => false end.
(* no join exchange is in flight *)
Definition data_state (st : nstate) : Prop :=
  match st with NIdle => True | NSendingData j _ _ => j = false | NWaitWindow j _ _ _ => j = false | NWaitRx j _ _ _ _ => j = false end.

Section Nb.
  Variable enc mac_fn : list N -> list N -> list N.

  (* the uplink built from counter c of session s: concluded when the machine is idle, in flight otherwise *)
  Definition K (s : session) (c : N) (st : nstate) (m : mac) : Prop :=
    data_state st /\ exists s', m_state m = Joined s' /\ keys_eq s s' /\
      match st with NIdle => c < ss_fcnt_up s' | _ => c <= ss_fcnt_up s' end.

  Lemma adv_lt s s' r : adv s s' r -> r <> RSessionExpired -> ss_fcnt_up s < ss_fcnt_up s'.
  Proof. intros [A|[A _]] NE; [exact A|contradiction]. Qed.

  Lemma rx2_keys m s : m_state m = Joined s -> let '(m', r) := mac_rx2_complete m in exists s', m_state m' = Joined s' /\ keys_eq s s' /\ adv s s' r.
  Proof.
    intros E. pose proof (mac_rx2_rel m) as MR. destruct (mac_rx2_complete m) as [m' r]. destruct MR as [MRel MA].
    destruct (MA s E) as [s' [E' A]]. unfold mrel in MRel. rewrite E in MRel. destruct MRel as [s'' [E'' [KK _]]]. rewrite E' in E''. injection E'' as <-.
    exists s'. repeat split; try apply KK; assumption.
  Qed.

  (* a data frame handed to the radio from Idle: concluded at once (radio error / unexpected answer) or in flight *)
  Lemma idle_send_K s c m e data fport confirmed draws ans st' m' e' r s1 :
    handle_event enc mac_fn NIdle m e (NSend data fport confirmed draws) ans = (st', m', e', r) ->
    m_state m = Joined s1 -> keys_eq s s1 -> c <= ss_fcnt_up s1 -> r <> NrSessionExpired -> r <> NrPanic -> r <> NrHang ->
    K s c st' m'.
  Proof.
    intros H E1 K1 C1 NE NP NH. cbn [handle_event] in H.
    destruct (send enc mac_fn m data fport confirmed draws) as [[o|]| |] eqn:SD; try (injection H as _ _ _ <-; contradiction).
    2:{ exfalso. eapply (send_not_joined enc mac_fn); eassumption. }
    destruct (send_joined enc mac_fn _ _ _ _ _ _ _ SD E1) as [s0 [E0 [_ [F0 K0]]]].
    assert (KS : keys_eq s s0) by (eapply keys_eq_trans; eassumption).
    unfold idle_tx in H. destruct (ncall_radio e (NcTx (to_tx o) (to_frame o))) as [e1 ok].
    assert (CON : forall dflt, dflt <> NrSessionExpired ->
              (let '(m2, r2) := mac_rx2_complete (to_mac o) in
               match r2 with RSessionExpired => (NIdle, m2, e1, NrSessionExpired) | _ => (NIdle, m2, e1, dflt) end) = (st', m', e', r) -> K s c st' m').
    { intros dflt ND HH. pose proof (rx2_keys (to_mac o) s0 E0) as RK. destruct (mac_rx2_complete (to_mac o)) as [m2 r2]. destruct RK as [s2 [E2 [K2 A2]]].
      destruct r2; injection HH as <- <- _ <-; try contradiction; (split; [exact I|]); exists s2; (split; [exact E2|]); (split; [eapply keys_eq_trans; eassumption|]);
        (assert (LT : ss_fcnt_up s0 < ss_fcnt_up s2) by (apply (adv_lt _ _ _ A2); discriminate)); lia. }
    cbn [negb] in H. destruct ok; cbn [negb] in H; [|apply (CON NrErrRadio); [discriminate|exact H]].
    destruct ans; try (apply (CON (NrErrState SUnexpectedRadioResponse)); [discriminate|exact H]); try (apply (CON NrErrRadio); [discriminate|exact H]).
    - injection H as <- <- _ <-. split; [reflexivity|]. exists s0. split; [exact E0|]. split; [exact KS|]. lia.
    - unfold rxwindow1 in H. injection H as <- <- _ <-. split; [reflexivity|]. exists s0. split; [exact E0|]. split; [exact KS|]. lia.
  Qed.

  (* one event keeps the uplink "concluded or in flight"; a conclusion moves the counter strictly past c *)
  Lemma step_K s c st m e ev ans st' m' e' r :
    handle_event enc mac_fn st m e ev ans = (st', m', e', r) -> is_join ev = false -> K s c st m ->
    r <> NrSessionExpired -> r <> NrPanic -> r <> NrHang -> K s c st' m'.
  Proof.
    intros H NJ [DS [s1 [E1 [K1 C1]]]] NE NP NH.
    (* the two ways a frame in flight is concluded *)
    assert (CONCL : forall (mr : mac * response), mac_rx2_complete m = mr -> resp_of_mac (snd mr) <> NrSessionExpired -> c <= ss_fcnt_up s1 ->
              exists s', m_state (fst mr) = Joined s' /\ keys_eq s s' /\ c < ss_fcnt_up s').
    { intros [m2 r2] EQ NE2 LE. pose proof (rx2_keys m s1 E1) as RK. rewrite EQ in RK. destruct RK as [s2 [E2 [K2 A2]]].
      exists s2. split; [exact E2|]. split; [eapply keys_eq_trans; eassumption|]. cbn [snd] in NE2.
      assert (r2 <> RSessionExpired) by (intros ->; apply NE2; reflexivity). pose proof (adv_lt _ _ _ A2 H0). lia. }
    destruct st as [|j rx1 rx2|j rx1 rx2 w|j rx1 rx2 w rf]; cbn [handle_event] in H.
    - (* Idle *)
      assert (SAME : K s c NIdle m) by (split; [exact I|exists s1; split; [exact E1|split; [exact K1|exact C1]]]).
      destruct ev as [cr dr|data fport confirmed draws| |]; try discriminate NJ.
      + eapply idle_send_K; [cbn [handle_event]; exact H|exact E1|exact K1|cbn in C1; lia|exact NE|exact NP|exact NH].
      + injection H as <- <- _ <-. exact SAME.
      + injection H as <- <- _ <-. exact SAME.
    - (* SendingData *)
      assert (SAME : K s c (NSendingData j rx1 rx2) m) by (split; [exact DS|exists s1; split; [exact E1|split; [exact K1|exact C1]]]).
      destruct ev as [cr dr|data fport confirmed draws| |]; try discriminate NJ; try (injection H as <- <- _ <-; exact SAME).
      destruct (ncall_radio e NcPhy) as [e1 ok]. destruct ok; cbn [negb] in H; [|injection H as <- <- _ <-; exact SAME].
      destruct ans; try (injection H as <- <- _ <-; exact SAME).
    - (* WaitingForRxWindow *)
      assert (SAME : K s c (NWaitWindow j rx1 rx2 w) m) by (split; [exact DS|exists s1; split; [exact E1|split; [exact K1|exact C1]]]).
      destruct ev as [cr dr|data fport confirmed draws| |]; try discriminate NJ; try (injection H as <- <- _ <-; exact SAME).
      destruct (ncall_radio e _) as [e1 ok]. destruct ok; cbn [negb] in H; [|injection H as <- <- _ <-; exact SAME].
      destruct w as [t|t].
      + destruct (_ <? _); [injection H as _ _ _ <-; contradiction|]. injection H as <- <- _ <-. split; [exact DS|exists s1; split; [exact E1|split; [exact K1|exact C1]]].
      + injection H as <- <- _ <-. split; [exact DS|exists s1; split; [exact E1|split; [exact K1|exact C1]]].
    - (* WaitingForRx *)
      assert (SAME : K s c (NWaitRx j rx1 rx2 w rf) m) by (split; [exact DS|exists s1; split; [exact E1|split; [exact K1|exact C1]]]).
      destruct ev as [cr dr|data fport confirmed draws| |]; try discriminate NJ; try (injection H as <- <- _ <-; exact SAME).
      + destruct (ncall_radio e NcPhy) as [e1 ok]. destruct ok; cbn [negb] in H; [|injection H as <- <- _ <-; exact SAME].
        destruct ans; try (injection H as <- <- _ <-; exact SAME).
        destruct (Nat.leb 256 (length packet)); [injection H as <- <- _ <-; exact SAME|].
        destruct (mac_handle_rx enc mac_fn m packet 5 (rf_max_payload rf) false) as [[o|]| |] eqn:HM; try (injection H as _ _ _ <-; contradiction).
        apply mac_hrx_rel in HM. destruct HM as [MRel MA]. unfold mrel in MRel. rewrite E1 in MRel. destruct MRel as [s2 [E2 [K2 L2]]].
        assert (KS : keys_eq s s2) by (eapply keys_eq_trans; eassumption). cbn in C1.
        destruct (mo_resp o) eqn:ER; injection H as <- <- _ <-; try contradiction;
          try (split; [exact I|]; exists s2; split; [exact E2|]; split; [exact KS|];
               destruct (MA s1 E1) as [s3 [E3 A3]]; [discriminate|]; rewrite E2 in E3; injection E3 as <-;
               assert (LT : ss_fcnt_up s1 < ss_fcnt_up s2) by (apply (adv_lt _ _ _ A3); discriminate); lia).
        split; [exact DS|]. exists s2. split; [exact E2|]. split; [exact KS|]. lia.
      + destruct (ncall_radio e NcCancelRx) as [e1 ok]. destruct ok; cbn [negb] in H; [|injection H as <- <- _ <-; exact SAME].
        destruct w as [t|t].
        * destruct (_ <? _); [injection H as _ _ _ <-; contradiction|]. injection H as <- <- _ <-. split; [exact DS|exists s1; split; [exact E1|split; [exact K1|exact C1]]].
        * destruct (mac_rx2_complete m) as [m2 r2] eqn:RX. injection H as <- <- _ <-. cbn in C1.
          destruct (CONCL (m2, r2) eq_refl NE C1) as [s2 [E2 [KS LT]]]. split; [exact I|]. exists s2. split; [exact E2|]. split; [exact KS|exact LT].
  Qed.

  (* ---- sequences of events within one session *)
  Definition nitem := (nevent * ranswer * nenv)%type.
  Inductive nsteps : nstate -> mac -> nstate -> mac -> Prop :=
  | NS_refl st m : nsteps st m st m
  | NS_step st m ev ans e st1 m1 e1 r st2 m2 :
      handle_event enc mac_fn st m e ev ans = (st1, m1, e1, r) -> is_join ev = false ->
      r <> NrSessionExpired -> r <> NrPanic -> r <> NrHang -> nsteps st1 m1 st2 m2 -> nsteps st m st2 m2.

  Lemma nsteps_K s c st m st2 m2 : nsteps st m st2 m2 -> K s c st m -> K s c st2 m2.
  Proof.
    induction 1 as [st m|st m ev ans e st1 m1 e1 r st2 m2 H NJ NE NP NH _ IH]; intros HK; [exact HK|].
    apply IH. eapply step_K; eassumption.
  Qed.

  (* two data frames of one session are built from strictly increasing counters: a send from Idle that builds a frame from counter c1,
     then any events (further sends, radio events with any answer, timeouts; a fault at any radio call) none of which reports session
     expiry, then another frame built: its counter is larger *)
  Theorem nb_counters_strictly_increase m e data fport confirmed draws ans st1 m1 e1 r1 s o1 st2 m2 data2 fport2 confirmed2 draws2 o2 :
    m_state m = Joined s ->
    handle_event enc mac_fn NIdle m e (NSend data fport confirmed draws) ans = (st1, m1, e1, r1) ->
    r1 <> NrSessionExpired -> r1 <> NrPanic -> r1 <> NrHang ->
    send enc mac_fn m data fport confirmed draws = Val (SendOk o1) ->
    nsteps st1 m1 st2 m2 ->
    st2 = NIdle -> send enc mac_fn m2 data2 fport2 confirmed2 draws2 = Val (SendOk o2) ->
    to_counter o1 < to_counter o2.
  Proof.
    intros Es H1 NE NP NH S1 ST I2 S2.
    destruct (send_joined enc mac_fn _ _ _ _ _ _ _ S1 Es) as [_ [_ [C1 _]]].
    assert (K1 : K s (ss_fcnt_up s) st1 m1).
    { eapply idle_send_K; [exact H1|exact Es|repeat split|lia|exact NE|exact NP|exact NH]. }
    pose proof (nsteps_K _ _ _ _ _ _ ST K1) as K2. subst st2. destruct K2 as [_ [s2 [E2 [_ L2]]]].
    destruct (send_joined enc mac_fn _ _ _ _ _ _ _ S2 E2) as [_ [_ [C2 _]]]. lia.
  Qed.
End Nb.
