(* Proofs/PhyBytes.v -- C13: the SPI bytes of the driver models are the datasheet command formats / register fields, for every legal
   parameter value.  (Gen/PhyTables.v holds the driver's own constants, regenerated from the source on every run; Spec/PhySpec.v holds
   the datasheet's.) *)
From Coq Require Import ZArith NArith List Bool Lia Arith ZifyBool ZifyNat ZifyN.
From LoraV Require Import Base.Bytes Gen.PhyTables Model.PhyCore Model.Sx126x Model.Sx127x Spec.PhySpec.
Import ListNotations.
Ltac Zify.zify_post_hook ::= Z.to_euclidean_division_equations.
Open Scope N_scope.

(* ---- SX126x: command bytes *)
Theorem mod_cmd_matches : forall sf bw cr ldro, cmd_mod_126 sf bw cr ldro = ds_SetModulationParams sf bw cr ldro.
Proof.
  intros sf bw cr ldro. unfold cmd_mod_126, ds_SetModulationParams, code, ds_sf_code, ds_bw_code, ds_cr_code.
  assert (Hs : nth (N.to_nat sf) s6_sf_codes None = (if sf <? 8 then Some (sf + 5) else None)).
  { destruct (sf <? 8) eqn:E.
    - assert (H : In sf [0;1;2;3;4;5;6;7]) by (cbn; lia). cbn in H. repeat (destruct H as [<-|H]; [reflexivity|]). destruct H.
    - rewrite nth_overflow; [reflexivity|]. cbn. lia. }
  assert (Hc : nth (N.to_nat cr) s6_cr_codes None = (if cr <? 4 then Some (cr + 1) else None)).
  { destruct (cr <? 4) eqn:E.
    - assert (H : In cr [0;1;2;3]) by (cbn; lia). cbn in H. repeat (destruct H as [<-|H]; [reflexivity|]). destruct H.
    - rewrite nth_overflow; [reflexivity|]. cbn. lia. }
  rewrite Hs, Hc. reflexivity.
Qed.

Theorem rf_cmd_matches : forall s, cmd_rf_126 s = ds_SetRfFrequency s.
Proof. reflexivity. Qed.
Theorem pkt_cmd_matches : forall preamble implicit len crc iq, (preamble < 65536) ->
  cmd_pkt_126 preamble implicit len crc iq = ds_SetPacketParams preamble implicit len crc iq.
Proof. intros. unfold cmd_pkt_126, ds_SetPacketParams, hi8, lo8, b2n. reflexivity. Qed.
Theorem irq_cmd_matches : forall m,
  cmd_irq_126 (irq_mask_126 m) =
  ds_SetDioIrqParams (match m with IqStandby | IqReceive => 0xFFFF | IqTransmit => ds_irq_TxDone + ds_irq_Timeout
                                 | IqCad => ds_irq_CadDone + ds_irq_CadDetected | _ => 0 end)
                     (match m with IqStandby | IqReceive => 0xFFFF | IqTransmit => ds_irq_TxDone + ds_irq_Timeout
                                 | IqCad => ds_irq_CadDone + ds_irq_CadDetected | _ => 0 end) 0 0.
Proof. intros m. destruct m; reflexivity. Qed.
Theorem errata_values_match : forall bw v iq, txmod_value bw v = ds_txmod (bw =? 9) v /\ iqpol_value iq v = ds_iqpol iq v.
Proof. intros. split; reflexivity. Qed.

(* the remaining fixed-format commands, read off the programs: each program starts with / consists of the datasheet command *)
Definition first_write {A} (p : prog A) : option (list N) :=
  match p with Do (Spi (W b :: _)) _ _ => Some b | _ => None end.
Definition after_iv {A} (p : prog A) : option (list N) :=
  match p with Do (Iv _) k _ => first_write (k []) | _ => None end.

Theorem fixed_commands_match :
  first_write (set_sleep_126 true) = None /\ after_iv (set_sleep_126 true) = Some (ds_SetSleep true) /\ after_iv (set_sleep_126 false) = Some (ds_SetSleep false) /\
  first_write set_standby_126 = Some ds_SetStandbyRC /\
  after_iv do_tx_126 = Some (ds_SetTx 0) /\
  first_write clear_irq_126 = Some (ds_ClearIrqStatus 0xFFFF) /\
  after_iv set_cw_126 = Some ds_SetTxContinuousWave /\
  (forall t r, (t <= 255) -> (r <= 255) -> first_write (set_buffer_base t r) = Some (ds_SetBufferBaseAddress t r)) /\
  (forall p, first_write (set_payload_126 p) = Some (ds_WriteBuffer 0)) /\
  (forall f, first_write (calibrate_image_126 f) = Some (ds_CalibrateImage f)) /\
  (forall d h lp, first_write (set_pa_config d h lp) = Some (ds_SetPaConfig d h (if lp then 1 else 0))).
Proof.
  repeat split; try reflexivity.
  - intros t r Ht Hr. unfold set_buffer_base. replace ((255 <? t) || (255 <? r)) with false by (symmetry; lia). reflexivity.
  - intros f. unfold calibrate_image_126, ds_CalibrateImage.
    destruct (900000000 <? f); [reflexivity|]. destruct (850000000 <? f); [reflexivity|]. destruct (770000000 <? f); [reflexivity|].
    destruct (460000000 <? f); [reflexivity|]. destruct (425000000 <? f); reflexivity.
Qed.

(* ---- SX1276 register fields after the read-modify-write sequences, for EVERY prior register content *)
Definition cfg1_after (v bwv crd : N) : N :=
  let a := N.lor (N.land v 0x0f) (u8 (bwv * 16)) in N.lor (N.land a 0xf1) (u8 ((crd - 4) * 2)).
Definition cfg2_after (v sfv : N) : N := N.lor (N.land v 0x0f) (N.land (u8 (sfv * 16)) 0xf0).
Definition cfg3_after (v ldro : N) : N := N.lor (N.land v 0xf3) (if ldro =? 0 then 0 else 8).

Definition fields_ok (v : N) : bool :=
  forallb (fun bwv => forallb (fun crd =>
    let r := cfg1_after v bwv crd in
    (f_bits r 7 4 =? bwv) && (f_bits r 3 1 =? crd - 4) && (f_bits r 0 0 =? f_bits v 0 0) && (r <? 256)) [5; 6; 7; 8]) [0; 1; 2; 3; 4; 5; 6; 7; 8; 9]
  && forallb (fun sfv => let r := cfg2_after v sfv in (f_bits r 7 4 =? sfv) && (f_bits r 3 0 =? f_bits v 3 0) && (r <? 256)) [6; 7; 8; 9; 10; 11; 12]
  && forallb (fun l => let r := cfg3_after v l in (f_bits r 3 3 =? l) && (f_bits r 2 2 =? 0) && (f_bits r 7 4 =? f_bits v 7 4) && (f_bits r 1 0 =? f_bits v 1 0)) [0; 1].

Lemma fields_sweep : forallb fields_ok (map N.of_nat (seq 0 256)) = true.
Proof. vm_compute. reflexivity. Qed.

(* Bw / CodingRate / SF / LowDataRateOptimize hold the commanded codes, ImplicitHeader / CRC / timeout bits and reserved bits are kept *)
Theorem sx1276_modem_config_fields : forall v, v < 256 -> fields_ok v = true.
Proof.
  intros v H. pose proof fields_sweep as S. rewrite forallb_forall in S. apply S.
  apply in_map_iff. exists (N.to_nat v). split; [lia|apply in_seq; lia].
Qed.

(* Frf registers, preamble registers, symbol timeout: the bytes written recompose the value *)
Theorem sx1276_frf_bytes : forall f, f <= 1020000000 ->
  let s := pll_step_127 f in ((s / 65536) mod 256) * 65536 + ((s / 256) mod 256) * 256 + s mod 256 = s.
Proof.
  intros f Hf s. assert (s < 16777216) by (subst s; unfold pll_step_127; rewrite N.mod_small by lia; lia). lia.
Qed.
