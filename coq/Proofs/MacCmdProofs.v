(* Proofs/MacCmdProofs.v -- C03 for every command table: total, terminating, whole commands forming a prefix,
   at most one error which is last, fused afterwards; accessor index sets inside the declared lengths. *)
From Coq Require Import NArith List Bool Lia Arith.
From LoraV Require Import Base.Bytes Model.MacCmd Gen.CmdTables.
Import ListNotations.
Local Open Scope nat_scope.

Lemma parse_one_ok t data cid p n : parse_one t data = POk cid p n ->
  1 <= n <= length data /\ cid :: p = firstn n data /\ length p = n - 1.
Proof.
  unfold parse_one. destruct data as [|c rest]; [discriminate|].
  destruct (lookup t c) as [[[c' [len|]] h]|]; [| |discriminate].
  - destruct (Nat.ltb _ _) eqn:E; [discriminate|]. apply Nat.ltb_ge in E. cbn [length] in E.
    intros H. injection H as <- <- <-. repeat split; cbn [length]; try lia.
    rewrite firstn_length. lia.
  - destruct (Nat.eqb _ 0) eqn:E0; [discriminate|]. apply Nat.eqb_neq in E0.
    destruct (Nat.ltb _ _) eqn:E; [discriminate|]. apply Nat.ltb_ge in E.
    intros H. injection H as <- <- <-. repeat split; cbn [length]; try lia.
    rewrite firstn_length. lia.
Qed.

Lemma parse_one_no_panic t data : data <> [] -> parse_one t data <> PPanic.
Proof.
  intros H. unfold parse_one. destruct data as [|c rest]; [contradiction|].
  destruct (lookup t c) as [[[c' [len|]] h]|]; try discriminate.
  - destruct (Nat.ltb _ _); discriminate.
  - destruct (Nat.eqb _ 0); [discriminate|]. destruct (Nat.ltb _ _); discriminate.
Qed.

(* shape of everything the iterator can yield *)
Inductive well_shaped : list item -> list N -> Prop :=
| ws_end : forall rest, well_shaped [] rest                         (* stopped: input exhausted (rest = []) *)
| ws_err : forall e rest, well_shaped [IErr e] rest                 (* one error, and it is last *)
| ws_ok : forall cid p items rest, well_shaped items rest ->
          well_shaped (IOk cid p :: items) (cid :: p ++ rest).

Lemma collect_shape t : forall fuel data, length data < fuel ->
  well_shaped (collect t fuel (data, false)) data /\
  (forall it, In it (collect t fuel (data, false)) -> it <> IPanic).
Proof.
  induction fuel as [|f IH]; intros data Hf; [lia|].
  cbn [collect next orb]. destruct (Nat.eqb (length data) 0) eqn:E0.
  - split; [constructor | intros it []].
  - apply Nat.eqb_neq in E0.
    destruct (parse_one t data) as [cid p n|e|] eqn:Ep.
    + destruct (parse_one_ok _ _ _ _ _ Ep) as (Hn & Hpre & Hlp).
      assert (Hl : length (skipn n data) < f) by (rewrite skipn_length; lia).
      destruct (IH (skipn n data) Hl) as [Hs Hnp].
      split.
      * rewrite <- (firstn_skipn n data) at 2. rewrite <- Hpre. cbn [app]. now constructor.
      * intros it [<-|Hin]; [discriminate | now apply Hnp].
    + split.
      * destruct f; cbn [collect]; [constructor|].
        cbn [next orb]. constructor.
      * destruct f; cbn [collect next orb]; intros it [<-|[]]; discriminate.
    + exfalso. apply (parse_one_no_panic t data); [|exact Ep]. destruct data; [cbn in E0; lia | discriminate].
Qed.

(* the iterator is fused: after an error (or at the end) it yields nothing more, whatever the fuel *)
Lemma fused t fuel data : collect t fuel (data, true) = [].
Proof. destruct fuel; reflexivity. Qed.

(* more fuel than length data + 1 never yields more items: parse_all is the complete iteration *)
Lemma collect_fuel_irrelevant t : forall fuel extra data, length data < fuel ->
  collect t (fuel + extra) (data, false) = collect t fuel (data, false).
Proof.
  induction fuel as [|f IH]; intros extra data Hf; [lia|].
  cbn [Nat.add collect next orb]. destruct (Nat.eqb (length data) 0) eqn:E0; [reflexivity|].
  apply Nat.eqb_neq in E0.
  destruct (parse_one t data) as [cid p n|e|] eqn:Ep.
  - destruct (parse_one_ok _ _ _ _ _ Ep) as (Hn & _ & _). f_equal. apply IH. rewrite skipn_length. lia.
  - f_equal. now rewrite !fused.
  - exfalso. apply (parse_one_no_panic t data); [|exact Ep]. destruct data; [cbn in E0; lia | discriminate].
Qed.

Theorem parse_all_total_and_shaped t data :
  well_shaped (parse_all t data) data /\ (forall it, In it (parse_all t data) -> it <> IPanic).
Proof. unfold parse_all. apply collect_shape. lia. Qed.

(* the bytes of the yielded commands form a prefix of the input *)
Fixpoint raw_of (items : list item) : list N :=
  match items with
  | IOk cid p :: r => cid :: p ++ raw_of r
  | _ => []
  end.

Lemma shaped_prefix items data : well_shaped items data -> exists rest, data = raw_of items ++ rest.
Proof.
  induction 1 as [rest|e rest|cid p items rest H [r IH]].
  - exists rest. reflexivity.
  - exists rest. reflexivity.
  - exists r. cbn [raw_of app]. rewrite IH, app_assoc. reflexivity.
Qed.

Lemma shaped_errors items data : well_shaped items data ->
  forall pre e post, items = pre ++ IErr e :: post -> post = [] /\ Forall (fun i => exists c p, i = IOk c p) pre.
Proof.
  induction 1 as [rest|e0 rest|cid p items rest H IH]; intros pre e post Heq.
  - destruct pre; discriminate.
  - destruct pre as [|x pre]; [injection Heq as _ <-; split; constructor|].
    destruct pre; discriminate.
  - destruct pre as [|x pre]; [discriminate|]. injection Heq as <- Heq.
    destruct (IH _ _ _ Heq) as [Hp HF]. split; [exact Hp|]. constructor; [eauto | exact HF].
Qed.

(* ---------------------------------------------------------------- accessor bounds (generated tables) *)
Definition range_ok (len : nat) (r : nat * nat) : bool :=
  let '(a, b) := r in
  if Nat.eqb b 0 then Nat.leb a len            (* open-ended self.0[a..] needs a <= len *)
  else Nat.leb b len && Nat.leb a b.

(* every index range an accessor reads lies inside the payload length the framing guarantees
   (fixed: the declared len; variable: at least 1 byte, only offset 0 / [1..] / [0..len]) *)
Definition reads_ok (t : table) (reads : list (N * list (nat * nat))) : bool :=
  forallb (fun cr : N * list (nat * nat) =>
             let '(cid, rs) := cr in
             match lookup t cid with
             | Some (_, Some len, _) => forallb (range_ok len) rs
             | Some (_, None, _) => forallb (range_ok 1) rs
             | None => false
             end) reads.

Lemma all_accessor_reads_in_bounds :
  forallb (fun tr : table * list (N * list (nat * nat)) => reads_ok (fst tr) (snd tr)) all_reads = true.
Proof. vm_compute. reflexivity. Qed.

(* every table: CIDs are unique, so lookup is the `match cid` of the generated code *)
Fixpoint nodup_cids (t : table) : bool :=
  match t with
  | [] => true
  | (c, _, _) :: t' => negb (existsb (fun r => N.eqb (fst (fst r)) c) t') && nodup_cids t'
  end.
Lemma tables_have_unique_cids : forallb nodup_cids all_tables = true.
Proof. vm_compute. reflexivity. Qed.
