(* Proofs/PhyHoare.v -- a weakest-precondition calculus for driver programs (Model/PhyCore.v `prog`) over
   (the driver object's fields, the chip-side monitor's state), and its soundness for `run` on EVERY emulated chip:
   whatever the register file, the scripted reads, the buffer, the position of the injected fault, the interrupt script and the
   await_irq that never completes.  The calculus quantifies over all data the chip may return for each read segment, over a fault
   at each pin event and over cancellation at each await_irq. *)
From Coq Require Import ZArith NArith List Bool Lia Arith.
From LoraV Require Import Base.Bytes Model.PhyCore Spec.ChipMon.
Import ListNotations.
Local Open Scope nat_scope.

Definition drv := list (list N).

(* what a transaction's trace looks like for given segments: writes as given, each read answered by some data of that length *)
Inductive segs_match : list seg -> list tseg -> list N -> Prop :=
| sm_nil : segs_match [] [] []
| sm_w b r ts got : segs_match r ts got -> segs_match (W b :: r) (TW b :: ts) got
| sm_r n r ts got bs : length bs = n -> segs_match r ts got -> segs_match (R n :: r) (TR bs :: ts) (bs ++ got).

Section WP.
  Variable x : mctx.

  Fixpoint wp {A} (p : prog A) (Q : A + rerr -> drv -> mon -> Prop) (d : drv) (m : mon) : Prop :=
    match p with
    | Ret a => Q (inl a) d m
    | Fail e => Q (inr e) d m
    | Do (Spi segs) k h =>
      wp (h ESpi) Q d (mon_event x m TSpiFault) /\
      (forall ts got, segs_match segs ts got -> wp (k got) Q d (mon_event x m (TSpi ts)))
    | Do (Iv IvIrq) k h =>
      Q (inr ECancelled) d (mon_event x m TIrqPending) /\
      wp (h EBusy) Q d (mon_event x m (TIvFault IvIrq)) /\
      wp (k []) Q d (mon_event x m (TIv IvIrq))
    | Do (Iv IvBusy) k h =>
      wp (h EBusy) Q d (mon_event x m (TIvFault IvBusy)) /\ wp (k []) Q d (mon_event x m (TIv IvBusy))
    | Do (Iv c) k _ => wp (k []) Q d (mon_event x m (TIv c))     (* reset / RF switch: no fault position *)
    | Do (DelayNs ns) k _ => wp (k []) Q d (mon_event x m (TDelay ns))
    | Do (St tag v) k _ => wp (k []) Q (set_nth_list d tag v) m
    | Do (Ld tag) k _ => wp (k (nth tag d [])) Q d m
    end.

  (* ---- structural rules *)
  Lemma wp_mono A (p : prog A) : forall (Q Q' : A + rerr -> drv -> mon -> Prop) d m,
    (forall r d' m', Q r d' m' -> Q' r d' m') -> wp p Q d m -> wp p Q' d m.
  Proof.
    induction p as [a|e|a k IHk h IHh]; intros Q Q' d m HQ H; cbn [wp] in *; try (apply HQ; exact H).
    destruct a as [segs|c|ns|tag v|tag].
    - destruct H as [H1 H2]. split; [eapply IHh; eauto|]. intros ts got Hm. eapply IHk; eauto.
    - destruct c; try (eapply IHk; eauto; fail); try (destruct H as [H1 H2]; split; [eapply IHh; eauto|eapply IHk; eauto]; fail).
      destruct H as [H0 [H1 H2]]. split; [apply HQ; exact H0|]. split; [eapply IHh; eauto|eapply IHk; eauto].
    - eapply IHk; eauto.
    - eapply IHk; eauto.
    - eapply IHk; eauto.
  Qed.

  Lemma wp_bind A B (p : prog A) (f : A -> prog B) : forall (Q : B + rerr -> drv -> mon -> Prop) d m,
    wp p (fun r d' m' => match r with inl a => wp (f a) Q d' m' | inr e => Q (inr e) d' m' end) d m -> wp (bind p f) Q d m.
  Proof.
    induction p as [a|e|a k IHk h IHh]; intros Q d m H; cbn [wp bind] in *; try exact H.
    destruct a as [segs|c|ns|tag v|tag].
    - destruct H as [H1 H2]. split; [apply IHh; exact H1|]. intros ts got Hm. apply IHk. apply H2. exact Hm.
    - destruct c; try (apply IHk; exact H); try (destruct H as [H1 H2]; split; [apply IHh; exact H1|apply IHk; exact H2]; fail).
      destruct H as [H0 [H1 H2]]. split; [exact H0|]. split; [apply IHh; exact H1|apply IHk; exact H2].
    - apply IHk; exact H.
    - apply IHk; exact H.
    - apply IHk; exact H.
  Qed.

  (* `let r = op.await;` : every outcome but a panic (and a dropped future) becomes a value *)
  Definition attempt_post {A} (Q : (A + rerr) + rerr -> drv -> mon -> Prop) : A + rerr -> drv -> mon -> Prop :=
    fun r d m => match r with
                 | inl a => Q (inl (inl a)) d m
                 | inr EPanic => Q (inr EPanic) d m
                 | inr ECancelled => Q (inr ECancelled) d m
                 | inr e => Q (inl (inr e)) d m
                 end.
  Lemma wp_attempt A (p : prog A) : forall (Q : (A + rerr) + rerr -> drv -> mon -> Prop) d m,
    wp p (attempt_post Q) d m -> wp (attempt p) Q d m.
  Proof.
    induction p as [a|e|a k IHk h IHh]; intros Q d m H; cbn [wp attempt] in *.
    - exact H.
    - destruct e; cbn [wp]; exact H.
    - destruct a as [segs|c|ns|tag v|tag]; cbn [wp].
      + destruct H as [H1 H2]. split; [apply IHh; exact H1|]. intros ts got Hm. apply IHk. apply H2. exact Hm.
      + destruct c; try (apply IHk; exact H);
          try (destruct H as [H1 H2]; split; [apply IHh; exact H1|apply IHk; exact H2]; fail).
        destruct H as [H0 [H1 H2]]. split; [exact H0|]. split; [apply IHh; exact H1|apply IHk; exact H2].
      + apply IHk; exact H.
      + apply IHk; exact H.
      + apply IHk; exact H.
  Qed.

  (* ---- soundness for run *)
  Definition mon_rev (m0 : mon) (tr : list tev) : mon := fold_right (fun e m => mon_event x m e) m0 tr.
  Lemma mon_rev_fold m0 tr : fold_left (mon_event x) (rev tr) m0 = mon_rev m0 tr.
  Proof. unfold mon_rev. rewrite <- fold_left_rev_right. rewrite rev_involutive. reflexivity. Qed.

  Lemma read_byte_drv c w i : c_drv (snd (read_byte c w i)) = c_drv c.
  Proof.
    unfold read_byte, next_read. destruct (c_kind c).
    - destruct (_ && _); [reflexivity|]. destruct (_ && _); [reflexivity|]. destruct (c_reads c); reflexivity.
    - destruct (_ =? _)%N; reflexivity.
  Qed.
  Lemma read_bytes_spec : forall n c w i, c_drv (snd (read_bytes c w i n)) = c_drv c /\ length (fst (read_bytes c w i n)) = n.
  Proof.
    induction n as [|n IH]; intros c w i; [split; reflexivity|]. cbn [read_bytes].
    pose proof (read_byte_drv c w i) as Hb. destruct (read_byte c w i) as [b c1]. cbn [snd] in Hb.
    specialize (IH c1 w (S i)). destruct (read_bytes c1 w (S i) n) as [bs c2]. cbn [fst snd length] in *. destruct IH as [I1 I2]. split; congruence.
  Qed.
  Lemma run_segs_spec : forall segs c w i acc got c2 w2 ts got2,
    run_segs c segs w i acc got = (c2, w2, ts, got2) ->
    c_drv c2 = c_drv c /\ exists ts' got', ts = rev acc ++ ts' /\ got2 = got ++ got' /\ segs_match segs ts' got'.
  Proof.
    induction segs as [|s segs IH]; intros c w i acc got c2 w2 ts got2 H.
    - cbn in H. injection H as <- _ <- <-. split; [reflexivity|]. exists [], []. rewrite !app_nil_r. repeat split. constructor.
    - destruct s as [b|n]; cbn [run_segs] in H.
      + apply IH in H. destruct H as [Hd [ts' [got' [E1 [E2 Hm]]]]]. split; [exact Hd|]. exists (TW b :: ts'), got'.
        cbn [rev] in E1. rewrite <- app_assoc in E1. repeat split; try assumption. constructor. exact Hm.
      + pose proof (read_bytes_spec n c w i) as [Hd Hl]. destruct (read_bytes c w i n) as [bs c1]. cbn [fst snd] in *.
        apply IH in H. destruct H as [Hd2 [ts' [got' [E1 [E2 Hm]]]]]. split; [congruence|]. exists (TR bs :: ts'), (bs ++ got').
        cbn [rev] in E1. rewrite <- app_assoc in E1. rewrite <- app_assoc in E2. repeat split; try assumption. constructor; assumption.
  Qed.
  Lemma side_effects_drv c w : c_drv (side_effects c w) = c_drv c.
  Proof.
    unfold side_effects. destruct (c_kind c).
    - destruct (_ && _); reflexivity.
    - destruct (_ && _); [|reflexivity]. cbv zeta.
      destruct (N.land (nthN w 0) 127 =? 13)%N; destruct (N.land (nthN w 0) 127 =? 0)%N;
        try (destruct (fold_left _ _ _) as [b p]; reflexivity); destruct (N.land (nthN w 0) 127 =? 18)%N; reflexivity.
  Qed.
  Lemma apply_on_irq_drv c : c_drv (apply_on_irq c) = c_drv c.
  Proof. unfold apply_on_irq. destruct (c_on_irq c) as [|[v e] r]; [reflexivity|]. destruct (c_kind c); reflexivity. Qed.

  Theorem wp_sound A : forall fuel (p : prog A) Q c tr m0,
    wp p Q (c_drv c) (mon_rev m0 tr) ->
    match run fuel c p tr with
    | (c', tr', Some r) => Q r (c_drv c') (fold_left (mon_event x) tr' m0)
    | (_, _, None) => True
    end.
  Proof.
    induction fuel as [|f IH]; intros p Q c tr m0 H; [exact I|]. cbn [run].
    destruct p as [a|e|a k h]; cbn [wp] in H; try (rewrite mon_rev_fold; exact H).
    destruct a as [segs|call|ns|tag v|tag].
    - destruct H as [Hf Hk]. unfold tick. destruct (match c_fault c with Some k0 => _ | None => false end).
      + apply IH. exact Hf.
      + match goal with |- context [run_segs ?c1 segs [] 0 [] []] => destruct (run_segs c1 segs [] 0 [] []) as [[[c2 written] tsegs] got] eqn:E end.
        apply run_segs_spec in E. destruct E as [Hd [ts' [got' [E1 [E2 Hm]]]]]. cbn in E1, E2. subst tsegs got.
        apply IH. rewrite side_effects_drv, Hd. cbn [c_drv]. apply Hk. exact Hm.
    - assert (G : forall c0, c_drv c0 = c_drv c -> wp (h EBusy) Q (c_drv c) (mon_event x (mon_rev m0 tr) (TIvFault call)) ->
                  wp (k []) Q (c_drv c) (mon_event x (mon_rev m0 tr) (TIv call)) ->
                  match (let '(flt, c1) := tick c0 in if flt then run f c1 (h EBusy) (TIvFault call :: tr) else run f c1 (k []) (TIv call :: tr)) with
                  | (c', tr', Some r) => Q r (c_drv c') (fold_left (mon_event x) tr' m0) | (_, _, None) => True end).
      { intros c0 Hd Hf Hk. unfold tick. destruct (match c_fault c0 with Some k0 => _ | None => false end); apply IH; cbn [c_drv]; rewrite Hd; assumption. }
      destruct call; try (apply IH; exact H); try (destruct H as [Hf Hk]; apply G; [reflexivity|exact Hf|exact Hk]; fail).
      destruct H as [Hc [Hf Hk]].
      destruct (_ || _).
      + cbv beta iota. rewrite mon_rev_fold. exact Hc.
      + apply G; [rewrite apply_on_irq_drv; reflexivity|exact Hf|exact Hk].
    - apply IH. exact H.
    - apply IH. exact H.
    - apply IH. exact H.
  Qed.
End WP.
