(* Proofs/RxPayloadProofs.v -- C18: reading a received packet never overruns the caller's buffer.
   Statements are about running the get_rx_payload programs of both drivers on ANY emulated chip state (any reported length, offset,
   status byte, register and buffer contents) with ANY caller buffer size. *)
From Coq Require Import ZArith NArith List Bool Lia Arith ZifyBool ZifyNat ZifyN.
From LoraV Require Import Base.Bytes Gen.PhyTables Model.PhyCore Model.Sx126x Model.Sx127x.
Import ListNotations.
Ltac Zify.zify_post_hook ::= Z.to_euclidean_division_equations.
Local Open Scope nat_scope.

(* what the caller's buffer looks like afterwards: the returned bytes at the front, the rest untouched *)
Definition after (caller : list N) (data : list N) : list N := data ++ skipn (length data) caller.

Lemma read_bytes_length : forall n c w i, length (fst (read_bytes c w i n)) = n.
Proof.
  induction n as [|n IH]; intros c w i; [reflexivity|]. cbn [read_bytes].
  destruct (read_byte c w i) as [b c1]. specialize (IH c1 w (S i)). destruct (read_bytes c1 w (S i) n) as [bs c2]. cbn [fst length] in *. lia.
Qed.

(* a transaction [W cmd; R n] returns exactly n bytes *)
Lemma run_segs_read_length c cmd n : forall c2 w t got, run_segs c [W cmd; R n] [] 0 [] [] = (c2, w, t, got) -> length got = n.
Proof.
  intros c2 w t got. cbn [run_segs app]. destruct (read_bytes c cmd 0 n) as [bs c1] eqn:E. cbn [run_segs]. intros H. injection H as _ _ _ <-.
  cbn [app]. pose proof (read_bytes_length n c cmd 0) as L. rewrite E in L. exact L.
Qed.

(* ------------------------------------------------------------------ the result of get_rx_payload, abstractly *)
(* SX126x: for every status / length / offset the chip reports: either an error, or (len, data) with len <= buflen and |data| = len *)
Inductive rx_outcome (buflen : N) : option ((N * list N) + rerr) -> Prop :=
| RxErr e : rx_outcome buflen (Some (inr e))
| RxOk len data : (len <= buflen)%N -> length data = N.to_nat len -> rx_outcome buflen (Some (inl (len, data)))
| RxFuel : rx_outcome buflen None.

(* pure core of the SX126x routine: what is decided from the bytes the chip returned *)
Definition decide_126 (implicit : bool) (buflen status rx_len reg_len : N) : N + rerr :=
  if op_is_error status then inr (EOpError status) else
  let len := if implicit then reg_len else rx_len in
  if (buflen <? len)%N then inr (EPayloadSizeMismatch len buflen) else inl len.

Theorem decide_126_bound implicit buflen status rx_len reg_len len :
  decide_126 implicit buflen status rx_len reg_len = inl len -> (len <= buflen)%N /\ len = (if implicit then reg_len else rx_len).
Proof.
  unfold decide_126. destruct (op_is_error status); [discriminate|].
  destruct (buflen <? (if implicit then reg_len else rx_len))%N eqn:E; [discriminate|]. intros H. injection H as <-. split; [lia|reflexivity].
Qed.

Definition decide_127 (implicit : bool) (buflen cfg_len rx_nb : N) : N + rerr :=
  let len := if implicit then cfg_len else rx_nb in
  if (buflen <? len)%N then inr (EPayloadSizeMismatch len buflen) else inl len.
Theorem decide_127_bound implicit buflen cfg_len rx_nb len :
  decide_127 implicit buflen cfg_len rx_nb = inl len -> (len <= buflen)%N /\ len = (if implicit then cfg_len else rx_nb).
Proof.
  unfold decide_127. destruct (buflen <? (if implicit then cfg_len else rx_nb))%N eqn:E; [discriminate|]. intros H. injection H as <-. split; [lia|reflexivity].
Qed.

(* ------------------------------------------------------------------ run-level statement: every chip state, every fault position *)
(* an inductive characterisation of programs whose successful result respects the caller's buffer *)
Inductive safe_prog (buflen : N) : prog (N * list N) -> Prop :=
| SRet len data : (len <= buflen)%N -> length data = N.to_nat len -> safe_prog buflen (Ret (len, data))
| SFail e : safe_prog buflen (Fail e)
| SDo a k h : (forall r, (forall segs, a = Spi segs -> length r = fold_right (fun s acc => match s with R n => n + acc | W _ => acc end) 0 segs) ->
                     safe_prog buflen (k r)) -> (forall e, safe_prog buflen (h e)) -> safe_prog buflen (Do a k h).

Lemma run_segs_got_length : forall segs c w i acc got c2 w2 t got2,
  run_segs c segs w i acc got = (c2, w2, t, got2) ->
  length got2 = length got + fold_right (fun s a => match s with R n => n + a | W _ => a end) 0 segs.
Proof.
  induction segs as [|s segs IH]; intros c w i acc got c2 w2 t got2 H.
  - cbn in H. injection H as _ _ _ <-. cbn. lia.
  - destruct s as [b|n]; cbn [run_segs fold_right] in *.
    + exact (IH _ _ _ _ _ _ _ _ _ H).
    + destruct (read_bytes c w i n) as [bs c1] eqn:E. pose proof (read_bytes_length n c w i) as L. rewrite E in L. cbn [fst] in L.
      apply IH in H. rewrite app_length in H. lia.
Qed.

Theorem safe_run buflen : forall fuel c p tr, safe_prog buflen p -> rx_outcome buflen (snd (run fuel c p tr)).
Proof.
  induction fuel as [|f IH]; intros c p tr Hs; [constructor|]. cbn [run].
  destruct Hs as [len data Hl Hd|e|a k h Hk Hh]; cbn [snd]; try (constructor; assumption).
  destruct a as [segs|call|ns|tag v|tag].
  - destruct (tick c) as [flt c1]. destruct flt; [apply IH; apply Hh|].
    destruct (run_segs c1 segs [] 0 [] []) as [[[c2 written] tsegs] got] eqn:E. apply IH. apply Hk.
    intros segs' Heq. injection Heq as <-. apply run_segs_got_length in E. cbn [length] in E. lia.
  - assert (G : forall c0 tr0, rx_outcome buflen (snd (let '(flt, c1) := tick c0 in
                 if flt then run f c1 (h EBusy) (TIvFault call :: tr0) else run f c1 (k []) (TIv call :: tr0)))).
    { intros c0 tr0. destruct (tick c0) as [flt c1]. destruct flt; [apply IH; apply Hh|]. apply IH. apply Hk. intros segs Heq. discriminate. }
    destruct call; try apply G; try (apply IH; apply Hk; intros segs Heq; discriminate).
    destruct (_ || _); [cbn [snd]; constructor|]. apply G.
  - apply IH. apply Hk. intros segs Heq. discriminate.
  - apply IH. apply Hk. intros segs Heq. discriminate.
  - apply IH. apply Hk. intros segs Heq. discriminate.
Qed.

Ltac safe_step :=
  match goal with
  | |- safe_prog _ (Ret (_, _)) => apply SRet
  | |- safe_prog _ (Fail _) => apply SFail
  | |- safe_prog _ (Do _ _ _) => apply SDo; [intros ?r ?Hr | intros ?e]
  | |- safe_prog _ (if ?b then _ else _) => destruct b eqn:?
  | |- safe_prog _ (match ?x with _ => _ end) => destruct x eqn:?
  end.

Theorem get_rx_payload_126_safe implicit buflen : safe_prog buflen (get_rx_payload_126 implicit buflen).
Proof.
  unfold get_rx_payload_126, spi_read_status, spi_read, reg_r8, act1, iv. cbn [bind].
  apply SDo; [intros r Hr|intros e; apply SFail]. apply SDo; [intros r1 _|intros e; apply SFail]. cbn [bind].
  destruct (op_is_error (nthN r 0)); [apply SFail|].
  destruct implicit; cbn [bind].
  - apply SDo; [intros r2 Hr2|intros e; apply SFail]. apply SDo; [intros r3 _|intros e; apply SFail]. cbn [bind].
    destruct (buflen <? nthN r2 0)%N eqn:E; [apply SFail|]. cbn [bind].
    apply SDo; [intros r4 Hr4|intros e; apply SFail]. apply SDo; [intros r5 _|intros e; apply SFail]. cbn [bind].
    apply SRet; [lia|]. specialize (Hr4 _ eq_refl). cbn [fold_right] in Hr4. lia.
  - destruct (buflen <? nthN (skipn 1 r) 0)%N eqn:E; [apply SFail|]. cbn [bind].
    apply SDo; [intros r4 Hr4|intros e; apply SFail]. apply SDo; [intros r5 _|intros e; apply SFail]. cbn [bind].
    apply SRet; [lia|]. specialize (Hr4 _ eq_refl). cbn [fold_right] in Hr4. lia.
Qed.

Theorem get_rx_payload_127_safe implicit cfg_len buflen : safe_prog buflen (get_rx_payload_127 implicit cfg_len buflen).
Proof.
  unfold get_rx_payload_127, spi_read, rreg, wreg, spi_write, act1, iv.
  destruct implicit; cbn [bind].
  - destruct (buflen <? cfg_len)%N eqn:E; [apply SFail|]. cbn [bind].
    apply SDo; [intros r1 _|intros e; apply SFail]. apply SDo; [intros r2 _|intros e; apply SFail]. cbn [bind].
    apply SDo; [intros r3 _|intros e; apply SFail]. apply SDo; [intros r4 _|intros e; apply SFail]. cbn [bind].
    apply SDo; [intros r5 Hr5|intros e; apply SFail]. apply SDo; [intros r6 _|intros e; apply SFail]. cbn [bind].
    apply SDo; [intros r7 _|intros e; apply SFail]. apply SDo; [intros r8 _|intros e; apply SFail]. cbn [bind].
    apply SRet; [lia|]. specialize (Hr5 _ eq_refl). cbn [fold_right] in Hr5. lia.
  - apply SDo; [intros r0 _|intros e; apply SFail]. apply SDo; [intros r00 _|intros e; apply SFail]. cbn [bind].
    destruct (buflen <? nthN r0 0)%N eqn:E; [apply SFail|]. cbn [bind].
    apply SDo; [intros r1 _|intros e; apply SFail]. apply SDo; [intros r2 _|intros e; apply SFail]. cbn [bind].
    apply SDo; [intros r3 _|intros e; apply SFail]. apply SDo; [intros r4 _|intros e; apply SFail]. cbn [bind].
    apply SDo; [intros r5 Hr5|intros e; apply SFail]. apply SDo; [intros r6 _|intros e; apply SFail]. cbn [bind].
    apply SDo; [intros r7 _|intros e; apply SFail]. apply SDo; [intros r8 _|intros e; apply SFail]. cbn [bind].
    apply SRet; [lia|]. specialize (Hr5 _ eq_refl). cbn [fold_right] in Hr5. lia.
Qed.

(* the caller's buffer after a successful call: the data at the front, the rest untouched; its length is unchanged *)
Lemma after_length caller data : length data <= length caller -> length (after caller data) = length caller.
Proof. intros H. unfold after. rewrite app_length, skipn_length. lia. Qed.
