(* Proofs/PhySeq.v -- C13, order of transactions: the SPI transactions an SX126x operation issues on its success path, in order, as a
   function of its parameters and of the bytes the chip answers to the reads, equal the sequence of datasheet commands that Semtech's
   reference driver issues for the same request (written below in datasheet terms: opcodes, register addresses, parameter codes of
   Spec/PhySpec.v; sx126x.c: sx126x_set_lora_mod_params + the TX-modulation workaround, sx126x_set_lora_pkt_params + the IQ-polarity
   workaround, sx126x_set_rf_freq, sx126x_set_pa_cfg / set_tx_params with the TX-clamp workaround, sx126x_set_rx / set_rx_duty_cycle after
   stop_timer_on_preamble / set_lora_symb_nb_timeout / the RX gain register, sx126x_set_cad_params + set_cad, sx126x_set_tx). *)
From Coq Require Import ZArith NArith List Bool Lia.
From LoraV Require Import Base.Bytes Gen.PhyTables Model.PhyCore Model.Sx126x Spec.PhySpec Proofs.PhyBytes.
Import ListNotations.
Open Scope N_scope.

Definition has_read (segs : list seg) : bool := existsb (fun s => match s with R _ => true | W _ => false end) segs.

(* the SPI transactions along the success path; `reads` = what the chip answers to the transactions that read, in order *)
Fixpoint spi_seq {A} (p : prog A) (reads : list (list N)) : list (list seg) :=
  match p with
  | Do (Spi segs) k _ =>
    segs :: (if has_read segs then match reads with r :: rs => spi_seq (k r) rs | [] => spi_seq (k []) [] end else spi_seq (k []) reads)
  | Do _ k _ => spi_seq (k []) reads
  | _ => []
  end.

(* datasheet: register access *)
Definition ds_WriteRegister (addr v : N) : list seg := [W [0x0D; (addr / 256) mod 256; addr mod 256; v]].
Definition ds_ReadRegister (addr : N) : list seg := [W [0x1D; (addr / 256) mod 256; addr mod 256; 0]; R 1].
Definition ds_reg_TxModulation := 0x0889. Definition ds_reg_IqPolarity := 0x0736. Definition ds_reg_TxClampCfg := 0x08D8.
Definition ds_reg_RxGain := 0x08AC. Definition ds_reg_SynchTimeout := 0x0706.

(* SetModulationParams, then the TX-modulation workaround (datasheet 15.1): read 0x0889, write it back with bit 2 per bandwidth *)
Theorem seq_set_modulation_params sf bw cr ldro v rest :
  spi_seq (set_mod_126 sf bw cr ldro) ([v] :: rest) =
  match ds_SetModulationParams sf bw cr ldro with
  | Some cmd => [[W cmd]; ds_ReadRegister ds_reg_TxModulation; ds_WriteRegister ds_reg_TxModulation (ds_txmod (bw =? 9) v)]
  | None => []
  end.
Proof.
  rewrite <- mod_cmd_matches. unfold set_mod_126, cmd_mod_126.
  destruct (code s6_sf_codes sf) as [s|]; [|reflexivity].
  destruct (code s6_bw_codes bw) as [b|]; [|reflexivity].
  destruct (code s6_cr_codes cr) as [c|]; reflexivity.
Qed.

(* SetPacketParams, then the IQ-polarity workaround (15.4): read 0x0736, write it back with bit 2 per IQ setting *)
Theorem seq_set_packet_params preamble implicit len crc iq v rest : preamble < 65536 ->
  spi_seq (set_pkt_126 preamble implicit len crc iq) ([v] :: rest) =
  [[W (ds_SetPacketParams preamble implicit len crc iq)]; ds_ReadRegister ds_reg_IqPolarity; ds_WriteRegister ds_reg_IqPolarity (ds_iqpol iq v)].
Proof. intros H. unfold set_pkt_126. rewrite (pkt_cmd_matches _ _ _ _ _ H). reflexivity. Qed.

Theorem seq_set_channel f reads :
  spi_seq (set_channel_126 f) reads = match pll_step_126 f with Some s => [[W (ds_SetRfFrequency s)]] | None => [] end.
Proof. unfold set_channel_126. destruct (pll_step_126 f) as [s|]; [|reflexivity]. reflexivity. Qed.

(* TX power: high-power PA: TX-clamp workaround (15.2: 0x08D8 |= 0x1E) first; then SetPaConfig, SetTxParams *)
Theorem seq_set_tx_power g p freq prep v rest duty hp txp :
  pa_lookup (g_pa_table g) p = Some (duty, hp, txp) ->
  (g_low_power_pa g = true -> ((15 <=? p)%Z && match freq with Some f => f <? 400000000 | None => false end) = false) ->
  spi_seq (set_tx_power_126 g p freq prep) ([v] :: rest) =
  (if g_low_power_pa g then [] else [ds_ReadRegister ds_reg_TxClampCfg; ds_WriteRegister ds_reg_TxClampCfg (N.lor v 0x1E)]) ++
  [[W (ds_SetPaConfig duty hp (if g_low_power_pa g then 1 else 0))]; [W (ds_SetTxParams txp (if prep then 2 else 4))]].
Proof.
  intros PA LP. unfold set_tx_power_126. rewrite PA. destruct (g_low_power_pa g) eqn:E.
  - rewrite (LP eq_refl). destruct prep; reflexivity.
  - destruct prep; reflexivity.
Qed.

Theorem seq_tx reads : spi_seq do_tx_126 reads = [[W (ds_SetTx 0)]].
Proof. reflexivity. Qed.
Theorem seq_write_payload p reads : spi_seq (set_payload_126 p) reads = [[W (ds_WriteBuffer 0); W p]].
Proof. reflexivity. Qed.

(* reception: StopTimerOnPreamble(1), SetLoRaSymbNumTimeout(v) [+ the SynchTimeout register when a timeout is requested], RX gain
   register, then SetRx(0) / SetRx(0xFFFFFF) / SetRxDutyCycle *)
Theorem seq_rx g m reads :
  spi_seq (do_rx_126 g m) reads =
  let n := match m with RxSingle n => n | _ => 0 end in
  let '(val, mant, exp) := symb_timeout_126 n in
  [[W (ds_StopTimerOnPreamble true)]; [W (ds_SetLoRaSymbNumTimeout val)]] ++
  (if 0 <? n then [ds_WriteRegister ds_reg_SynchTimeout ((exp + mant * 8) mod 256)] else []) ++
  [ds_WriteRegister ds_reg_RxGain (if g_rx_boost g then 0x96 else 0x94);
   [W (match m with RxDuty rx sl => ds_SetRxDutyCycle rx sl | RxSingle _ => ds_SetRx 0 | RxContinuous => ds_SetRx 0xFFFFFF end)]].
Proof.
  unfold do_rx_126, set_symb_timeout_126. cbv zeta.
  destruct (symb_timeout_126 (match m with RxSingle n => n | _ => 0 end)) as [[val mant] exp].
  destruct (0 <? match m with RxSingle n => n | _ => 0 end); destruct m; reflexivity.
Qed.

Theorem seq_cad g sf reads :
  spi_seq (do_cad_126 g sf) reads =
  ds_WriteRegister ds_reg_RxGain (if g_rx_boost g then 0x96 else 0x94) ::
  match ds_sf_code sf with Some s => [[W (ds_SetCadParams 3 ((s + 13) mod 256) 10 0 0)]; [W ds_SetCad]] | None => [] end.
Proof.
  unfold do_cad_126.
  assert (E : code s6_sf_codes sf = ds_sf_code sf).
  { unfold ds_sf_code, code. destruct (sf <? 8) eqn:L.
    - apply N.ltb_lt in L. assert (H : forall k, (k < 8)%nat -> nth k s6_sf_codes None = Some (N.of_nat k + 5)).
      { intros k Hk. do 8 (destruct k as [|k]; [reflexivity|]). lia. }
      rewrite (H (N.to_nat sf)) by lia. rewrite N2Nat.id. reflexivity.
    - apply N.ltb_ge in L. apply nth_overflow. change (length s6_sf_codes) with 8%nat. lia. }
  rewrite E. destruct (ds_sf_code sf) as [s|]; reflexivity.
Qed.

Theorem seq_irq m reads : spi_seq (set_irq_126 m) reads = [[W (cmd_irq_126 (irq_mask_126 m))]].
Proof. reflexivity. Qed.
Theorem seq_standby reads : spi_seq set_standby_126 reads = [[W ds_SetStandbyRC]].
Proof. reflexivity. Qed.
Theorem seq_sleep warm reads : spi_seq (set_sleep_126 warm) reads = [[W (ds_SetSleep warm)]].
Proof. destruct warm; reflexivity. Qed.

(* cold start: regulator mode, DIO2 as RF switch, [TCXO: ClearDeviceErrors, SetDIO3AsTcxoCtrl, Calibrate(all)], SetPacketType(LoRa), the
   LoRa sync word register pair, SetBufferBaseAddress(0,0); then the two retention-list updates (RX gain, TX modulation) *)
Definition ds_SetRegulatorMode (dcdc : bool) : list N := [0x96; if dcdc then 1 else 0].
Definition ds_SetDio2AsRfSwitchCtrl : list N := [0x9D; 1].
Definition ds_ClearDeviceErrors : list seg := [W [0x07]; R 1; R 2].
Definition ds_SetDio3AsTcxoCtrl (v t : N) : list N := [0x97; v; (t / 65536) mod 256; (t / 256) mod 256; t mod 256].
Definition ds_Calibrate (mask : N) : list N := [0x89; mask].
Definition ds_SetPacketType (lora : bool) : list N := [0x8A; if lora then 1 else 0].
Definition ds_reg_LoRaSyncWord := 0x0740.

Definition init_prefix (g : cfg126) (sw : N) : list (list seg) :=
  (if g_dcdc g then [[W (ds_SetRegulatorMode true)]] else []) ++
  (if g_dio2_rfswitch g then [[W ds_SetDio2AsRfSwitchCtrl]] else []) ++
  (match g_tcxo g with
   | Some v => [ds_ClearDeviceErrors; [W (ds_SetDio3AsTcxoCtrl (N.land v 7) (s6c_brd_tcxo_wakeup_time * 64))]; [W (ds_Calibrate 0x7F)]]
   | None => [] end) ++
  [[W (ds_SetPacketType true)];
   [W [0x0D; (ds_reg_LoRaSyncWord / 256) mod 256; ds_reg_LoRaSyncWord mod 256]; W [(sw / 256) mod 256; sw mod 256]];
   [W (ds_SetBufferBaseAddress 0 0)]].

Theorem seq_init g sw reads :
  spi_seq (init_lora_126 g sw) reads =
  init_prefix g sw ++
  spi_seq (add_retention s6_Register_RxGain ;;; add_retention s6_Register_TxModulation)
          (match g_tcxo g with Some _ => tl reads | None => reads end).
Proof.
  unfold init_lora_126, init_prefix. destruct (g_dcdc g); destruct (g_dio2_rfswitch g); destruct (g_tcxo g) as [v|];
    try (destruct reads as [|r0 rest]); reflexivity.
Qed.
