(* Proofs/ToaProofs.v -- Model/Toa.v equals Spec/Airtime.v, never overflows, is monotone. *)
From LoraV Require Import Base.Tactics Model.Toa Spec.Airtime.

Definition toa_dom (sf bw cr : Z) (pre : option Z) (len : Z) : Prop :=
  5 <= sf <= 12 /\ 0 <= bw <= 9 /\ 5 <= cr <= 8 /\ 0 <= len <= 255 /\
  match pre with None => True | Some p => 0 <= p <= 255 end.

Lemma bw_hz_bounds bw : 0 <= bw <= 9 -> 7810 <= bw_hz bw <= 500000.
Proof.
  intros H. assert (bw = 0 \/ bw = 1 \/ bw = 2 \/ bw = 3 \/ bw = 4 \/ bw = 5 \/ bw = 6 \/
                    bw = 7 \/ bw = 8 \/ bw = 9) as Hc by lia.
  repeat (destruct Hc as [-> | Hc]); try subst bw; cbn; lia.
Qed.

Lemma pow2_bounds sf : 5 <= sf <= 12 -> 32 <= 2 ^ sf <= 4096.
Proof.
  intros H. assert (sf = 5 \/ sf = 6 \/ sf = 7 \/ sf = 8 \/ sf = 9 \/ sf = 10 \/ sf = 11 \/ sf = 12)
    as Hc by lia.
  repeat (destruct Hc as [-> | Hc]); try subst sf; cbn; lia.
Qed.

Lemma t_sym_spec sf bw : 5 <= sf <= 12 -> 0 <= bw <= 9 ->
  t_sym_us sf bw = tsym (bw_hz bw) sf /\ 64 <= t_sym_us sf bw <= 524456.
Proof.
  intros Hs Hb. pose proof (bw_hz_bounds bw Hb). pose proof (pow2_bounds sf Hs).
  unfold t_sym_us, tsym. rewrite quot_div_nonneg by lia.
  split; [reflexivity|].
  split.
  - apply Z.div_le_lower_bound; nia.
  - apply Z.div_le_upper_bound; nia.
Qed.

Lemma div_ceil_cdiv n d : 0 < d -> div_ceil n d = cdiv n d.
Proof.
  intros Hd. unfold div_ceil, cdiv.
  destruct (0 <? n) eqn:E; nia.
Qed.

Lemma cdiv_mono a b d : 0 < d -> a <= b -> cdiv a d <= cdiv b d.
Proof. intros; unfold cdiv; nia. Qed.

Lemma cdiv_bounds a d : 0 < d -> a <= cdiv a d * d < a + d.
Proof. intros; unfold cdiv; nia. Qed.

Lemma payload_symb_spec sf bw cr len hdr :
  5 <= sf <= 12 -> 0 <= bw <= 9 -> 5 <= cr <= 8 ->
  payload_symb_nb sf bw cr len hdr = n_payload (bw_hz bw) sf cr len hdr.
Proof.
  intros Hs Hb Hc. destruct (t_sym_spec sf bw Hs Hb) as [Ht _].
  unfold payload_symb_nb, n_payload, ldro, de, toa_num, toa_den. rewrite Ht.
  set (d := if 16384 <=? tsym (bw_hz bw) sf then 1 else 0).
  assert (0 <= d <= 1) by (subst d; destruct (_ <=? _); lia).
  rewrite div_ceil_cdiv by lia.
  set (q := cdiv _ _).
  destruct (0 <? q) eqn:E; nia.
Qed.

Lemma payload_symb_bounds sf bw cr len hdr :
  5 <= sf <= 12 -> 0 <= bw <= 9 -> 5 <= cr <= 8 -> 0 <= len <= 255 ->
  8 <= payload_symb_nb sf bw cr len hdr <= 1392.
Proof.
  intros Hs Hb Hc Hl. rewrite payload_symb_spec by assumption.
  unfold n_payload.
  set (d := de _ _). assert (0 <= d <= 1) by (subst d; unfold de; destruct (_ <=? _); lia).
  set (num := 8 * len - _ + _ + _ - _).
  assert (-24 <= num <= 2064) by (subst num; destruct hdr; lia).
  pose proof (cdiv_bounds num (4 * (sf - 2 * d)) ltac:(lia)).
  set (q := cdiv _ _) in *. nia.
Qed.

Theorem toa_value sf bw cr pre hdr len :
  toa_dom sf bw cr pre len ->
  toa_us sf bw cr pre hdr len = airtime_us (bw_hz bw) sf cr pre hdr len.
Proof.
  intros (Hs & Hb & Hc & Hl & Hp).
  destruct (t_sym_spec sf bw Hs Hb) as [Ht Htb].
  pose proof (payload_symb_bounds sf bw cr len hdr Hs Hb Hc Hl) as Hn.
  unfold toa_us, airtime_us. rewrite payload_symb_spec in * by assumption. rewrite Ht in *.
  destruct pre as [p|].
  - rewrite quot_div_nonneg by nia. reflexivity.
  - ring.
Qed.

Theorem toa_never_overflows sf bw cr pre hdr len :
  toa_dom sf bw cr pre len -> toa_safe sf bw cr pre hdr len = true.
Proof.
  intros (Hs & Hb & Hc & Hl & Hp).
  destruct (t_sym_spec sf bw Hs Hb) as [_ Htb].
  pose proof (pow2_bounds sf Hs) as Hpow.
  pose proof (payload_symb_bounds sf bw cr len hdr Hs Hb Hc Hl) as Hn.
  unfold payload_symb_nb in Hn. unfold toa_safe, new_safe.
  set (d := if ldro sf bw then 1 else 0) in *.
  assert (0 <= d <= 1) by (subst d; destruct (ldro _ _); lia).
  set (h := if hdr then 0 else 1) in *.
  assert (0 <= h <= 1) by (subst h; destruct hdr; lia).
  unfold toa_num, toa_den in *.
  set (num := 8 * len - 4 * sf + 28 + 16 - 20 * h) in *.
  assert (-24 <= num <= 2064) by (subst num; lia).
  set (den := 4 * (sf - 2 * d)) in *.
  assert (12 <= den <= 48) by (subst den; lia).
  assert (Hbr : -1 <= div_ceil num den <= 2064).
  { rewrite div_ceil_cdiv by lia. pose proof (cdiv_bounds num den ltac:(lia)). nia. }
  set (br0 := div_ceil num den) in *.
  set (br := if 0 <? br0 then br0 else 0) in *.
  assert (0 <= br <= 2064) by (subst br; destruct (0 <? br0) eqn:E; lia).
  unfold in_u32, in_i32, u32_max, i32_min, i32_max.
  destruct pre as [p|]; split_andb; try lia; try nia.
Qed.

Theorem toa_monotone sf bw cr pre hdr len len' :
  toa_dom sf bw cr pre len -> toa_dom sf bw cr pre len' -> len <= len' ->
  toa_us sf bw cr pre hdr len <= toa_us sf bw cr pre hdr len'.
Proof.
  intros D D' Hle. rewrite !toa_value by assumption.
  destruct D as (Hs & Hb & Hc & Hl & Hp).
  destruct (t_sym_spec sf bw Hs Hb) as [Ht Htb]. rewrite Ht in Htb.
  unfold airtime_us.
  assert (Hm : n_payload (bw_hz bw) sf cr len hdr <= n_payload (bw_hz bw) sf cr len' hdr).
  { unfold n_payload.
    set (d := de _ _). assert (0 <= d <= 1) by (subst d; unfold de; destruct (_ <=? _); lia).
    pose proof (cdiv_mono (8 * len - 4 * sf + 28 + 16 - 20 * (if hdr then 0 else 1))
                          (8 * len' - 4 * sf + 28 + 16 - 20 * (if hdr then 0 else 1))
                          (4 * (sf - 2 * d)) ltac:(lia) ltac:(lia)).
    nia. }
  destruct pre as [p|].
  - apply Z.div_le_mono; nia.
  - nia.
Qed.

(* LDRO rule of the calculator: on exactly when the (exact) symbol time is >= 16.384 ms *)
Lemma ldro_spec sf bw : 5 <= sf <= 12 -> 0 <= bw <= 9 ->
  ldro sf bw = (16384 * bw_hz bw <=? 2 ^ sf * 1000000).
Proof.
  intros Hs Hb. pose proof (bw_hz_bounds bw Hb). pose proof (pow2_bounds sf Hs).
  unfold ldro, t_sym_us. rewrite quot_div_nonneg by lia.
  destruct (16384 <=? _) eqn:E1, (16384 * _ <=? _) eqn:E2; try reflexivity; nia.
Qed.

(* non-vacuity / regression of the repaired defect *)
Example toa_sf12_125_empty : toa_us 12 7 5 None true 0 = 8 * 32768.
Proof. reflexivity. Qed.
Example toa_dom_inhabited : toa_dom 12 7 5 (Some 8) 255.
Proof. unfold toa_dom; lia. Qed.
