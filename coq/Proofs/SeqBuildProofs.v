(* Proofs/SeqBuildProofs.v -- a stream built from whole commands of a table parses back to exactly those commands (used by C08's sticky-answer
   theorem and by C19; kept apart from the exhaustive field sweeps of FieldProofs.v, which are expensive to re-check with coqchk) *)
From Coq Require Import NArith ZArith List Bool Lia Arith ZifyBool ZifyNat ZifyN.
From LoraV Require Import Base.Bytes Model.MacCmd Model.MacFields Gen.CmdTables Proofs.BytesProofs Proofs.MacCmdProofs.
Import ListNotations.
Local Open Scope N_scope.

(* ---- sequences: a stream built from whole commands of a table parses back to exactly those commands *)
Theorem build_parse_sequence (t : table) : forall (cmds : list (N * list N)),
  Forall (fun cp => exists h, lookup t (fst cp) = Some (fst cp, Some (length (snd cp)), h)) cmds ->
  parse_all t (flat_map (fun cp => fst cp :: snd cp) cmds) = map (fun cp => IOk (fst cp) (snd cp)) cmds.
Proof.
  intros cmds HF. unfold parse_all.
  set (data := flat_map (fun cp => fst cp :: snd cp) cmds).
  assert (G : forall cmds fuel, Forall (fun cp => exists h, lookup t (fst cp) = Some (fst cp, Some (length (snd cp)), h)) cmds ->
              (length (flat_map (fun cp : N * list N => fst cp :: snd cp) cmds) < fuel)%nat ->
              collect t fuel (flat_map (fun cp => fst cp :: snd cp) cmds, false) = map (fun cp => IOk (fst cp) (snd cp)) cmds).
  { clear. induction cmds as [|[cid p] cmds IH]; intros fuel HF Hf.
    - destruct fuel; reflexivity.
    - destruct fuel as [|f]; [lia|]. inversion HF as [|? ? [h Hlk] HF']; subst. cbn [fst snd] in *.
      cbn [flat_map app collect next orb length Nat.eqb fst snd].
      unfold parse_one. cbn [length]. rewrite Hlk.
      rewrite app_length. cbn [length].
      destruct (Nat.ltb _ _) eqn:E; [apply Nat.ltb_lt in E; lia|].
      rewrite firstn_app_exact. cbn [map fst snd]. f_equal.
      replace (skipn (1 + length p) (cid :: p ++ flat_map (fun cp : N * list N => fst cp :: snd cp) cmds))
        with (flat_map (fun cp : N * list N => fst cp :: snd cp) cmds) by (cbn [skipn Nat.add]; now rewrite skipn_app_exact).
      apply IH; [exact HF'|]. cbn [flat_map length app] in Hf. rewrite app_length in Hf. lia. }
  subst data. apply G; [exact HF | lia].
Qed.
