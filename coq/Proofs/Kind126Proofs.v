(* Proofs/Kind126Proofs.v -- the SX126x driver's primitives against the chip-side monitor: which are plain (configuration only),
   what they program, and the mode-changing ones. *)
From Coq Require Import ZArith NArith List Bool Lia Arith.
From LoraV Require Import Base.Bytes Gen.PhyTables Model.PhyCore Model.Sx126x Model.Toa Model.LoraDrv Model.LoraKinds
  Spec.ChipMon Proofs.PhyHoare Proofs.PlainProgs.
Import ListNotations.
Local Open Scope nat_scope.

(* expose the Do / Ret / Fail structure of a driver program, leaving byte arithmetic alone *)
Ltac expose :=
  cbv beta iota zeta delta [act1 iv delay spi_write spi_write_payload spi_read spi_read_status reg_w8 reg_r8
    set_buffer_base add_retention sync_word_write init_lora_126 set_standby_126 set_sleep_126 ensure_ready_126 set_pa_config
    set_tx_power_126 set_mod_126 set_pkt_126 calibrate_image_126 set_channel_126 set_payload_126 do_tx_126 set_symb_timeout_126
    do_rx_126 get_rx_payload_126 pkt_status_126 get_rssi_126 do_cad_126 set_irq_126 set_cw_126 clear_irq_126 handle_implicit_header_mode
    get_irq_state_126 process_irq_126 cmd_irq_126 cmd_pkt_126 cmd_rf_126]; cbn [bind attempt].

Ltac pstep :=
  lazymatch goal with
  | |- plainP _ _ _ _ (Ret _) => apply PRet; (let i := fresh "i" in let Hi := fresh "Hi" in intros i Hi; cbn [In] in Hi |- *; tauto)
  | |- plainP _ _ _ _ (Fail _) => apply PFail; first [repeat split; discriminate | left; reflexivity | right; reflexivity]
  | |- plainP _ _ _ _ (Do (Spi _) _ _) =>
    apply PSpi; [cbn [seg_w app]; discriminate | lazy; reflexivity
                | let r := fresh "r" in intros r;
                  lazymatch goal with |- plainP ?x ?E ?w (match ?e with Some i => i :: ?h | None => ?h end) ?p =>
                    let e' := eval lazy in e in change (plainP x E w (match e' with Some i => i :: h | None => h end) p); cbv beta iota end
                | ]
  | |- plainP _ _ _ _ (Do (Iv _) _ _) => apply PIv; [discriminate | discriminate | let r := fresh "r" in intros r | intros _]
  | |- plainP _ _ _ _ (Do (DelayNs _) _ _) => apply PDelay; let r := fresh "r" in intros r
  | |- plainP _ _ _ _ (if ?b then _ else _) => destruct b eqn:?
  | |- plainP _ _ _ _ (match ?v with _ => _ end) => destruct v eqn:?
  | |- plainP _ _ _ _ ?P =>
    match P with
    | context [bind (if ?b then _ else _)] => destruct b eqn:?
    | context [bind (match ?v with _ => _ end)] => destruct v eqn:?
    end
  end.
Ltac plain := expose; repeat (pstep; expose).

Section K126.
  Variables (tc dc li lo : bool).
  Definition x126 : mctx := {| x_fam := K126; x_tcxo := tc; x_dcdc := dc; x_listen := li; x_lora := lo |}.
  Notation x := x126.

  Lemma power_plain g p md istx : plainP x plain_err [ITxParams; IPaConfig] [] (k_power (kind126 g) p md istx).
  Proof. cbn [k_power kind126]. plain. Qed.
  Lemma irq_plain g m : plainP x pin_only [IIrq] [] (k_irq (kind126 g) m).
  Proof. cbn [k_irq kind126]. plain. Qed.
  Lemma calimg_plain g f : plainP x plain_err [] [] (k_calimg (kind126 g) f).
  Proof. cbn [k_calimg kind126]. plain. Qed.
  Lemma mod_plain g md : plainP x plain_err [IMod] [] (k_mod (kind126 g) md).
  Proof. cbn [k_mod kind126]. plain. Qed.
  Lemma pkt_plain g pk : plainP x plain_err [IPkt] [] (k_pkt (kind126 g) pk).
  Proof. cbn [k_pkt kind126]. plain. Qed.
  Lemma chan_plain g f : plainP x plain_err [IFreq] [] (k_chan (kind126 g) f).
  Proof. cbn [k_chan kind126]. plain. Qed.
  Lemma payload_plain g p : plainP x plain_err [] [] (k_payload (kind126 g) p).
  Proof. cbn [k_payload kind126]. plain. Qed.
  Lemma sync_plain g sw : plainP x plain_err [ISync] [] (k_sync (kind126 g) sw).
  Proof. cbn [k_sync kind126]. plain. Qed.
  Lemma rxpayload_plain g pk n : plainP x plain_err [] [] (k_rxpayload (kind126 g) pk n).
  Proof. cbn [k_rxpayload kind126]. plain. Qed.
  Lemma status_plain g : plainP x plain_err [] [] (k_status (kind126 g)).
  Proof. cbn [k_status kind126]. plain. Qed.
End K126.
