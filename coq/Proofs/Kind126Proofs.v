(* Proofs/Kind126Proofs.v -- the SX126x driver's primitives against the chip-side monitor: which are plain (configuration only),
   what they program, and the mode-changing ones. *)
From Coq Require Import ZArith NArith List Bool Lia Arith.
From LoraV Require Import Base.Bytes Gen.PhyTables Model.PhyCore Model.Sx126x Model.Toa Model.LoraDrv Model.LoraKinds
  Spec.ChipMon Proofs.PhyHoare Proofs.PlainProgs Proofs.KindSpec Proofs.LoraInv.
Import ListNotations.
Local Open Scope nat_scope.

(* expose the Do / Ret / Fail structure of a driver program, leaving byte arithmetic alone *)
Ltac expose :=
  cbv beta iota zeta delta [act1 iv delay spi_write spi_write_payload spi_read spi_read_status reg_w8 reg_r8
    set_buffer_base add_retention sync_word_write init_lora_126 set_standby_126 set_sleep_126 ensure_ready_126 set_pa_config
    set_tx_power_126 set_mod_126 set_pkt_126 calibrate_image_126 set_channel_126 set_payload_126 do_tx_126 set_symb_timeout_126
    do_rx_126 get_rx_payload_126 pkt_status_126 get_rssi_126 do_cad_126 set_irq_126 set_cw_126 clear_irq_126 handle_implicit_header_mode
    get_irq_state_126 process_irq_126 cmd_irq_126 cmd_pkt_126 cmd_rf_126]; cbn [bind attempt].

Ltac pstep :=
  lazymatch goal with
  | |- plainP _ _ _ _ (Ret _) => apply PRet; (let i := fresh "i" in let Hi := fresh "Hi" in intros i Hi; cbn [In app] in Hi |- *; tauto)
  | |- plainP _ _ _ _ (Fail _) => apply PFail; first [repeat split; discriminate | left; reflexivity | right; reflexivity]
  | |- plainP _ _ _ _ (Do (Spi _) _ _) =>
    apply PSpi; [cbn [seg_w app]; discriminate | lazy; reflexivity
                | let r := fresh "r" in intros r;
                  lazymatch goal with |- plainP ?x ?E ?w (match ?e with Some i => i :: ?h | None => ?h end) ?p =>
                    let e' := eval lazy in e in change (plainP x E w (match e' with Some i => i :: h | None => h end) p); cbv beta iota end
                | ]
  | |- plainP _ _ _ _ (Do (Iv _) _ _) => apply PIv; [discriminate | discriminate | let r := fresh "r" in intros r | intros _]
  | |- plainP _ _ _ _ (Do (DelayNs _) _ _) => apply PDelay; let r := fresh "r" in intros r
  | |- plainP _ _ _ _ (if ?b then _ else _) => destruct b eqn:?
  | |- plainP _ _ _ _ (match ?v with _ => _ end) => destruct v eqn:?
  | |- plainP _ _ _ _ ?P =>
    match P with
    | context [bind (if ?b then _ else _)] => destruct b eqn:?
    | context [bind (match ?v with _ => _ end)] => destruct v eqn:?
    end
  end.
Ltac plain := expose; repeat (pstep; expose).

Section K126.
  Variables (tc dc li lo : bool).
  Definition x126 : mctx := {| x_fam := K126; x_tcxo := tc; x_dcdc := dc; x_listen := li; x_lora := lo |}.
  Notation x := x126.

  Lemma power_plain g p md istx : plainP x plain_err [ITxParams; IPaConfig] [] (k_power (kind126 g) p md istx).
  Proof. cbn [k_power kind126]. plain. Qed.
  Lemma irq_plain g m : plainP x pin_only [IIrq] [] (k_irq (kind126 g) m).
  Proof. cbn [k_irq kind126]. plain. Qed.
  Lemma calimg_plain g f : plainP x plain_err [] [] (k_calimg (kind126 g) f).
  Proof. cbn [k_calimg kind126]. plain. Qed.
  Lemma mod_plain g md : plainP x plain_err [IMod] [] (k_mod (kind126 g) md).
  Proof. cbn [k_mod kind126]. plain. Qed.
  Lemma pkt_plain g pk : plainP x plain_err [IPkt] [] (k_pkt (kind126 g) pk).
  Proof. cbn [k_pkt kind126]. plain. Qed.
  Lemma chan_plain g f : plainP x plain_err [IFreq] [] (k_chan (kind126 g) f).
  Proof. cbn [k_chan kind126]. plain. Qed.
  Lemma payload_plain g p : plainP x plain_err [] [] (k_payload (kind126 g) p).
  Proof. cbn [k_payload kind126]. plain. Qed.
  Lemma sync_plain g sw : plainP x plain_err [ISync] [] (k_sync (kind126 g) sw).
  Proof. cbn [k_sync kind126]. plain. Qed.
  Lemma rxpayload_plain g pk n : plainP x plain_err [] [] (k_rxpayload (kind126 g) pk n).
  Proof. cbn [k_rxpayload kind126]. plain. Qed.
  Lemma status_plain g : plainP x plain_err [] [] (k_status (kind126 g)).
  Proof. cbn [k_status kind126]. plain. Qed.

  (* ---- single transactions *)
  Lemma segs_match_w1 b ts got : segs_match [W b] ts got -> ts = [TW b] /\ got = [].
  Proof. intros H. inversion H as [|b0 r0 ts0 got0 H1|]; subst. inversion H1; subst. split; reflexivity. Qed.
  Lemma ev_w1 m b : b <> [] -> mon_event x m (TSpi [TW b]) = spi126 x m b [].
  Proof. intros NE. cbn [mon_event seg_written seg_read x_fam x126]. rewrite app_nil_r. destruct b; [contradiction|reflexivity]. Qed.
  Lemma okm_with_mode m c : okm m -> okm (with_mode m c).
  Proof. intros H; exact H. Qed.
  Lemma le_refl m : le_valid m m.
  Proof. intros i Hi; exact Hi. Qed.
  Lemma le_with_mode m c : le_valid m (with_mode m c).
  Proof. intros i Hi; exact Hi. Qed.
  Lemma pin_spi A : pin_err (A := A) (inr ESpi).
  Proof. intros e E. injection E as <-. left; reflexivity. Qed.
  Lemma pin_busy A : pin_err (A := A) (inr EBusy).
  Proof. intros e E. injection E as <-. right; reflexivity. Qed.
  Lemma pin_okr A (a : A) : pin_err (inl a).
  Proof. intros e E. discriminate E. Qed.
  Lemma fam126 : x_fam x = K126.
  Proof. reflexivity. Qed.

  Lemma standby_ok g : forall (Q : unit + rerr -> drv -> mon -> Prop) d m, okm m -> (x_fam x = K126 -> ready m) ->
      (forall r m', okm m' -> le_valid m m' -> (is_ok r -> cm m' = CStby) -> (cm m' = cm m \/ cm m' = CStby) -> pin_err r -> Q r d m') ->
      wp x (k_standby (kind126 g)) Q d m.
  Proof.
    intros Q d m O R HQ. specialize (R fam126). cbn [k_standby kind126]. unfold set_standby_126, spi_write, act1, iv. cbn [bind wp].
    split; [apply HQ; [exact O|apply le_refl|intros []|left; reflexivity|apply pin_spi]|].
    intros ts got Hm. apply segs_match_w1 in Hm. destruct Hm as [-> ->]. rewrite ev_w1 by discriminate. rewrite spi126_ready by exact R.
    change (spi126_cmd x m [s6_OpCode_SetStandby; s6_StandbyMode_RC] []) with (with_mode m CStby).
    split; [apply HQ; [exact O|apply le_with_mode|intros []|right; reflexivity|apply pin_busy]|].
    apply HQ; [exact O|apply le_with_mode|reflexivity|right; reflexivity|apply pin_okr].
  Qed.

  Lemma sleep_ok g : forall warm (Q : unit + rerr -> drv -> mon -> Prop) d m, okm m -> (x_fam x = K126 -> ready m) ->
      (forall r m', (is_ok r -> okm m' /\ cm m' = CSleep /\ (warm = true -> le_valid m m')) -> (~ is_ok r -> m' = m) -> pin_err r -> Q r d m') ->
      wp x (k_sleep (kind126 g) warm) Q d m.
  Proof.
    intros warm Q d m O R HQ. specialize (R fam126). cbn [k_sleep kind126]. unfold set_sleep_126, spi_write, act1, iv, delay. cbn [bind wp].
    split; [apply HQ; [intros []|reflexivity|apply pin_spi]|].
    intros ts got Hm. apply segs_match_w1 in Hm. destruct Hm as [-> ->]. rewrite ev_w1 by discriminate. rewrite spi126_ready by exact R.
    apply HQ; [|intros H; exfalso; apply H; exact I|apply pin_okr]. intros _. destruct warm.
    - change (spi126_cmd x m [s6_OpCode_SetSleep; 4%N] []) with (with_mode m CSleep). split; [exact O|]. split; [reflexivity|]. intros _. apply le_with_mode.
    - change (spi126_cmd x m [s6_OpCode_SetSleep; 0%N] []) with (with_mode (with_valid m none_valid) CSleep). split; [exact O|]. split; [reflexivity|]. intros H; discriminate H.
  Qed.

  Lemma reset_ok g : forall (Q : unit + rerr -> drv -> mon -> Prop) d m, okm m ->
      (forall r m', okm m' -> (cm m' = CStby \/ (cm m' = CSleep /\ x_fam x = K127)) -> (is_ok r -> lora_sel x m') -> pin_err r -> Q r d m') ->
      wp x (k_reset (kind126 g)) Q d m.
  Proof.
    intros Q d m O HQ. cbn [k_reset kind126]. unfold iv, act1. cbn [wp mon_event]. apply HQ; [exact O|left; reflexivity|intros _ F; discriminate F|apply pin_okr].
  Qed.

  Lemma getstatus_effect m : okm m ->
    let m' := spi126 x m [s6_OpCode_GetStatus; 0%N] [] in
    okm m' /\ le_valid m m' /\ ready m' /\ (cm m' = cm m \/ (cm m = CSleep /\ cm m' = CStby)).
  Proof.
    intros O. cbv zeta.
    assert (AW : forall m0, okm m0 -> cm m0 <> CSleep -> (cm m0 = CDuty -> awake m0 = true) -> spi126 x m0 [s6_OpCode_GetStatus; 0%N] [] = m0).
    { intros m0 O0 N0 A0. rewrite spi126_ready by (split; assumption). reflexivity. }
    destruct (cm m) eqn:E.
    - (* asleep: woken *)
      assert (EQ : spi126 x m [s6_OpCode_GetStatus; 0%N] [] = with_mode m CStby) by (unfold spi126; rewrite E; reflexivity).
      rewrite EQ. split; [exact O|]. split; [apply le_with_mode|]. split; [split; cbn; discriminate|]. right. split; reflexivity.
    - rewrite AW; [|exact O|rewrite E; discriminate|rewrite E; discriminate]. split; [exact O|]. split; [apply le_refl|]. split; [split; [rewrite E; discriminate|rewrite E; intros H; discriminate H]|left; congruence].
    - rewrite AW; [|exact O|rewrite E; discriminate|rewrite E; discriminate]. split; [exact O|]. split; [apply le_refl|]. split; [split; [rewrite E; discriminate|rewrite E; intros H; discriminate H]|left; congruence].
    - rewrite AW; [|exact O|rewrite E; discriminate|rewrite E; discriminate]. split; [exact O|]. split; [apply le_refl|]. split; [split; [rewrite E; discriminate|rewrite E; intros H; discriminate H]|left; congruence].
    - rewrite AW; [|exact O|rewrite E; discriminate|rewrite E; discriminate]. split; [exact O|]. split; [apply le_refl|]. split; [split; [rewrite E; discriminate|rewrite E; intros H; discriminate H]|left; congruence].
    - rewrite AW; [|exact O|rewrite E; discriminate|rewrite E; discriminate]. split; [exact O|]. split; [apply le_refl|]. split; [split; [rewrite E; discriminate|rewrite E; intros H; discriminate H]|left; congruence].
    - (* duty-cycled reception *)
      destruct (awake m) eqn:EA.
      + rewrite AW; [|exact O|rewrite E; discriminate|intros _; exact EA]. split; [exact O|]. split; [apply le_refl|]. split; [split; [rewrite E; discriminate|intros _; exact EA]|left; congruence].
      + assert (EQ : spi126 x m [s6_OpCode_GetStatus; 0%N] [] = with_awake m true) by (unfold spi126; rewrite E, EA; reflexivity).
        rewrite EQ. split; [exact O|]. split; [intros i Hi; exact Hi|]. split; [split; cbn; [rewrite E; discriminate|reflexivity]|left; cbn; congruence].
    - rewrite AW; [|exact O|rewrite E; discriminate|rewrite E; discriminate]. split; [exact O|]. split; [apply le_refl|]. split; [split; [rewrite E; discriminate|rewrite E; intros H; discriminate H]|left; congruence].
  Qed.

  Lemma ensure_ok g : forall dm (Q : unit + rerr -> drv -> mon -> Prop) d m, okm m ->
      (cm m = CSleep -> dm = MSleep \/ x_fam x = K127) -> (cm m = CDuty -> awake m = false -> is_duty dm = true) ->
      (forall r m', okm m' -> le_valid m m' -> (cm m' = cm m \/ (cm m = CSleep /\ cm m' = CStby) \/ (dm = MSleep /\ cm m' = CSleep)) ->
                    (is_ok r -> x_fam x = K126 \/ (ready m /\ dm <> MSleep) -> ready m') ->
                    (is_ok r -> x_fam x = K127 -> dm = MSleep -> valid m' ILoraMode = true) -> pin_err r -> Q r d m') ->
      wp x (k_ensure_ready (kind126 g) dm) Q d m.
  Proof.
    intros dm Q d m O H1 H2 HQ. cbn [k_ensure_ready kind126]. unfold ensure_ready_126.
    assert (NL : forall (r : unit + rerr) m', is_ok r -> x_fam x = K127 -> dm = MSleep -> valid m' ILoraMode = true) by (intros r m' _ F; discriminate F).
    destruct (match dm with MSleep | MRx (RxDuty _ _) => true | _ => false end) eqn:SD.
    - unfold spi_write, act1, iv. cbn [wp].
      split; [apply HQ; [exact O|apply le_refl|left; reflexivity|intros []|apply NL|apply pin_spi]|].
      intros ts got Hm. apply segs_match_w1 in Hm. destruct Hm as [-> ->]. rewrite ev_w1 by discriminate.
      destruct (getstatus_effect m O) as [O' [L' [R' M']]].
      assert (M3 : cm (spi126 x m [s6_OpCode_GetStatus; 0%N] []) = cm m \/ (cm m = CSleep /\ cm (spi126 x m [s6_OpCode_GetStatus; 0%N] []) = CStby) \/
                   (dm = MSleep /\ cm (spi126 x m [s6_OpCode_GetStatus; 0%N] []) = CSleep)) by (destruct M' as [M'|M']; [left|right; left]; exact M').
      split; [apply HQ; [exact O'|exact L'|exact M3|intros []|apply NL|apply pin_busy]|].
      apply HQ; [exact O'|exact L'|exact M3|intros _ _; exact R'|apply NL|apply pin_okr].
    - unfold iv, act1. cbn [wp].
      split; [apply HQ; [exact O|apply le_refl|left; reflexivity|intros []|apply NL|apply pin_busy]|].
      change (mon_event x m (TIv IvBusy)) with m.
      apply HQ; [exact O|apply le_refl|left; reflexivity| |apply NL|apply pin_okr]. intros _ _. split.
      + intros E. destruct (H1 E) as [-> |F]; [discriminate SD|discriminate F].
      + intros E. destruct (awake m) eqn:EA; [reflexivity|]. specialize (H2 E eq_refl). destruct dm as [| | |[n| |a b]| |]; try discriminate H2. discriminate SD.
  Qed.

  Lemma tx_ok g : forall (Q : unit + rerr -> drv -> mon -> Prop) d m, okm m -> ready m -> forallb (valid m) (need x StTx) = true ->
      (forall r m', okm m' -> le_valid m m' -> (is_ok r -> cm m' = CTx) -> (cm m' = cm m \/ cm m' = CTx) -> pin_err r -> Q r d m') ->
      wp x (k_tx (kind126 g)) Q d m.
  Proof.
    intros Q d m O R V HQ. cbn [k_tx kind126]. unfold do_tx_126, spi_write, act1, iv. cbn [bind wp]. change (mon_event x m (TIv IvSwTx)) with m.
    split; [apply HQ; [exact O|apply le_refl|intros []|left; reflexivity|apply pin_spi]|].
    intros ts got Hm. apply segs_match_w1 in Hm. destruct Hm as [-> ->]. rewrite ev_w1 by discriminate. rewrite spi126_ready by exact R.
    assert (S : start x m StTx = m) by (unfold start; rewrite V; reflexivity).
    change (mon_event x m (TIv IvSwTx)) with m.
    change (spi126_cmd x m [s6_OpCode_SetTx; 0%N; 0%N; 0%N] []) with (with_mode (start x m StTx) CTx). rewrite S. unfold act1. cbn [wp].
    split; [apply HQ; [exact O|apply le_with_mode|intros []|right; reflexivity|apply pin_busy]|].
    apply HQ; [exact O|apply le_with_mode|reflexivity|right; reflexivity|apply pin_okr].
  Qed.

  (* ---- bit facts: a flag the driver saw set is a flag the chip-side monitor sees set *)
  Lemma is_set_land b f c k : is_set b f = true -> N.testbit b k = true -> N.testbit c k = true -> (N.land f c =? 0)%N = false.
  Proof.
    unfold is_set. intros H Hb Hc. apply N.eqb_eq in H. apply N.eqb_neq. intros Z.
    assert (T : N.testbit (N.land f c) k = true).
    { rewrite N.land_spec, Hc, andb_true_r. rewrite <- H in Hb. rewrite N.land_spec in Hb. apply andb_true_iff in Hb. apply Hb. }
    rewrite Z in T. rewrite N.bits_0 in T. discriminate T.
  Qed.

  (* ---- starting a reception *)
  Lemma iv_plain c : c <> IvReset -> c <> IvIrq -> plainP x pin_only [] [] (iv c).
  Proof. intros N1 N2. unfold iv, act1. apply PIv; [exact N1|exact N2|intros r; apply PRet; intros i []|intros _; apply PFail; right; reflexivity]. Qed.
  Lemma w_plain_pin bytes : bytes <> [] -> plain126 bytes = true -> plainP x pin_only [] [] (spi_write bytes false).
  Proof.
    intros NE P. unfold spi_write, act1, iv. apply PSpi; [cbn [seg_w]; rewrite app_nil_r; exact NE|cbn [pc x_fam x126 seg_w]; rewrite app_nil_r; exact P| |apply PFail; left; reflexivity].
    intros r. apply PIv; [discriminate|discriminate|intros r0; apply PRet; intros i []|intros _; apply PFail; right; reflexivity].
  Qed.
  Lemma symb_plain n : plainP x pin_only [] [] (set_symb_timeout_126 n).
  Proof. plain. Qed.
  Lemma regw_plain reg v : plain126 [s6_OpCode_WriteRegister; hi8 reg; lo8 reg; v] = true -> plainP x pin_only [] [] (reg_w8 reg v).
  Proof. intros P. unfold reg_w8. apply w_plain_pin; [discriminate|exact P]. Qed.

  Lemma final_start (bytes : list N) (k : startkind) (target : cmode) (aw : bool) (Q : unit + rerr -> drv -> mon -> Prop) d m0 m :
    bytes <> [] -> okm m -> ready m -> prog_le m0 m -> forallb (valid m) (need x k) = true ->
    (forall mm, start x mm k = mm -> spi126_cmd x mm bytes [] = (if aw then with_awake (with_mode mm target) true else with_mode mm target)) ->
    (forall r m', okm m' -> le_valid m0 m' -> (is_ok r -> cm m' = target) -> (cm m' = cm m0 \/ cm m' = target) -> pin_err r -> Q r d m') ->
    wp x (spi_write bytes false) Q d m.
  Proof.
    intros NE O R L V EQ HQ. destruct L as [L1 [L2 [L3 L4]]]. unfold spi_write, act1, iv. cbn [wp].
    split; [apply HQ; [exact O|exact L3|intros []|left; exact L1|apply pin_spi]|].
    intros ts got Hm. apply segs_match_w1 in Hm. destruct Hm as [-> ->]. rewrite ev_w1 by exact NE. rewrite spi126_ready by exact R.
    assert (S : start x m k = m) by (unfold start; rewrite V; reflexivity). rewrite (EQ m S).
    destruct aw.
    - split; [apply HQ; [exact O|exact L3|intros []|right; reflexivity|apply pin_busy]|].
      apply HQ; [exact O|exact L3|reflexivity|right; reflexivity|apply pin_okr].
    - split; [apply HQ; [exact O|exact L3|intros []|right; reflexivity|apply pin_busy]|].
      apply HQ; [exact O|exact L3|reflexivity|right; reflexivity|apply pin_okr].
  Qed.

  Lemma rx_ok g : forall rm (Q : unit + rerr -> drv -> mon -> Prop) d m, okm m -> ready m -> forallb (valid m) (need x StRx) = true ->
      (forall r m', okm m' -> le_valid m m' -> (is_ok r -> cm m' = rx_target rm) -> (cm m' = cm m \/ cm m' = rx_target rm) ->
                    (x_fam x = K127 -> cm m' = CDuty -> cm m = CDuty) ->
                    (forall e, r = inr e -> e = ESpi \/ e = EBusy \/ (e = EDutyCycleUnsupported /\ cm m' = cm m /\ x_fam x = K127 /\ is_duty (MRx rm) = true)) -> Q r d m') ->
      wp x (k_rx (kind126 g) rm) Q d m.
  Proof.
    intros rm Q d m O R V HQ. cbn [k_rx kind126]. unfold do_rx_126.
    assert (FAILQ : forall e m', prog_le m m' -> pin_only e -> Q (inr e) d m').
    { intros e m' [L1 [L2 [L3 L4]]] Pe. apply HQ; [exact L4|exact L3|intros []|left; exact L1|intros F; discriminate F|].
      intros e0 E0. injection E0 as <-. destruct Pe as [-> | ->]; [left|right; left]; reflexivity. }
    apply seq_plain with (E := pin_only) (want := []); [apply plain_spec_of, iv_plain; discriminate|exact O|exact R| |exact FAILQ].
    intros [] m1 L1 _. apply seq_plain with (E := pin_only) (want := []); [apply plain_spec_of, w_plain_pin; [discriminate|reflexivity]|apply L1|eapply prog_le_ready; eassumption| |].
    2:{ intros e m' L Pe. apply FAILQ; [eapply prog_le_trans; eassumption|exact Pe]. }
    intros [] m2 L2 _. pose proof (prog_le_trans _ _ _ L1 L2) as L12.
    apply seq_plain with (E := pin_only) (want := []); [apply plain_spec_of, symb_plain|apply L12|eapply prog_le_ready; eassumption| |].
    2:{ intros e m' L Pe. apply FAILQ; [eapply prog_le_trans; eassumption|exact Pe]. }
    intros [] m3 L3 _. pose proof (prog_le_trans _ _ _ L12 L3) as L13.
    apply seq_plain with (E := pin_only) (want := []); [apply plain_spec_of, regw_plain; reflexivity|apply L13|eapply prog_le_ready; eassumption| |].
    2:{ intros e m' L Pe. apply FAILQ; [eapply prog_le_trans; eassumption|exact Pe]. }
    intros [] m4 L4 _. pose proof (prog_le_trans _ _ _ L13 L4) as L14.
    assert (V4 : forallb (valid m4) (need x StRx) = true) by (eapply forallb_le; [apply L14|exact V]).
    assert (HQ' : forall r m', okm m' -> le_valid m m' -> (is_ok r -> cm m' = rx_target rm) -> (cm m' = cm m \/ cm m' = rx_target rm) -> pin_err r -> Q r d m').
    { intros r m' O' L' S' M' P'. apply HQ; try assumption; [intros F; discriminate F|]. intros e E. destruct (P' e E) as [-> | ->]; [left|right; left]; reflexivity. }
    destruct rm as [n| |a b].
    - eapply (final_start _ StRx CRx1 false); [discriminate|apply L14|eapply prog_le_ready; eassumption|exact L14|exact V4| |exact HQ'].
      intros mm S. unfold spi126_cmd. cbn [nthN nth]. change (s6_OpCode_SetRx =? 132)%N with false. change (s6_OpCode_SetRx =? 128)%N with false.
      change (s6_OpCode_SetRx =? 193)%N with false. change (s6_OpCode_SetRx =? 131)%N with false. change (s6_OpCode_SetRx =? 209)%N with false.
      change (s6_OpCode_SetRx =? 130)%N with true. cbn [orb]. rewrite S. reflexivity.
    - eapply (final_start _ StRx CRxc false); [discriminate|apply L14|eapply prog_le_ready; eassumption|exact L14|exact V4| |exact HQ'].
      intros mm S. unfold spi126_cmd. cbn [nthN nth]. change (s6_OpCode_SetRx =? 132)%N with false. change (s6_OpCode_SetRx =? 128)%N with false.
      change (s6_OpCode_SetRx =? 193)%N with false. change (s6_OpCode_SetRx =? 131)%N with false. change (s6_OpCode_SetRx =? 209)%N with false.
      change (s6_OpCode_SetRx =? 130)%N with true. cbn [orb]. rewrite S. reflexivity.
    - eapply (final_start _ StRx CDuty true); [discriminate|apply L14|eapply prog_le_ready; eassumption|exact L14|exact V4| |exact HQ'].
      intros mm S. unfold spi126_cmd. cbn [nthN nth]. change (s6_OpCode_SetRxDutyCycle =? 132)%N with false. change (s6_OpCode_SetRxDutyCycle =? 128)%N with false.
      change (s6_OpCode_SetRxDutyCycle =? 193)%N with false. change (s6_OpCode_SetRxDutyCycle =? 131)%N with false. change (s6_OpCode_SetRxDutyCycle =? 209)%N with false.
      change (s6_OpCode_SetRxDutyCycle =? 130)%N with false. change (s6_OpCode_SetRxDutyCycle =? 148)%N with true. cbn [orb]. rewrite S. reflexivity.
  Qed.

  (* ---- CAD *)
  Definition it_cad126 : list item := [IPktType; ISync; IBases; IMod; IIrq; IFreq] ++ (if dc then [IRegulator] else []) ++ (if tc then [ITcxo] else []).
  Lemma sf_code_some sf : (sf < 8)%N -> exists s, code s6_sf_codes sf = Some s.
  Proof.
    intros H. assert (C : (sf = 0 \/ sf = 1 \/ sf = 2 \/ sf = 3 \/ sf = 4 \/ sf = 5 \/ sf = 6 \/ sf = 7)%N) by lia.
    destruct C as [-> |[-> |[-> |[-> |[-> |[-> |[-> | ->]]]]]]]; eexists; reflexivity.
  Qed.
  Lemma cadparams_plain s : plainP x pin_only [ICadParams] [] (spi_write [s6_OpCode_SetCADParams; s6_CADSymbols_8; u8 (s + 13); 10%N; 0%N; 0%N; 0%N; 0%N] false).
  Proof. plain. Qed.

  Lemma cad_ok g : forall md (Q : unit + rerr -> drv -> mon -> Prop) d m, (md_sf md < 8)%N -> okm m -> ready m -> valid_all m it_cad126 ->
      (forall r m', okm m' -> le_valid m m' -> (is_ok r -> cm m' = CCad) -> (cm m' = cm m \/ cm m' = CCad) -> pin_err r -> Q r d m') ->
      wp x (k_cad (kind126 g) md) Q d m.
  Proof.
    intros md Q d m SF O R V HQ. cbn [k_cad kind126]. unfold do_cad_126. destruct (sf_code_some _ SF) as [s Hs]. rewrite Hs.
    assert (FAILQ : forall e m', prog_le m m' -> pin_only e -> Q (inr e) d m').
    { intros e m' [L1 [L2 [L3 L4]]] Pe. apply HQ; [exact L4|exact L3|intros []|left; exact L1|]. intros e0 E0. injection E0 as <-. exact Pe. }
    apply seq_plain with (E := pin_only) (want := []); [apply plain_spec_of, iv_plain; discriminate|exact O|exact R| |exact FAILQ].
    intros [] m1 L1 _. apply seq_plain with (E := pin_only) (want := []); [apply plain_spec_of, regw_plain; destruct (g_rx_boost g); reflexivity|apply L1|eapply prog_le_ready; eassumption| |].
    2:{ intros e m' L Pe. apply FAILQ; [eapply prog_le_trans; eassumption|exact Pe]. }
    intros [] m2 L2 _. pose proof (prog_le_trans _ _ _ L1 L2) as L12.
    apply seq_plain with (E := pin_only) (want := [ICadParams]); [apply plain_spec_of, cadparams_plain|apply L12|eapply prog_le_ready; eassumption| |].
    2:{ intros e m' L Pe. apply FAILQ; [eapply prog_le_trans; eassumption|exact Pe]. }
    intros [] m3 L3 V3. pose proof (prog_le_trans _ _ _ L12 L3) as L13.
    eapply (final_start _ StCad CCad false); [discriminate|apply L13|eapply prog_le_ready; eassumption|exact L13| | |exact HQ].
    - apply forallb_forall. intros i Hi. assert (VV : valid_all m3 it_cad126) by (eapply valid_all_le; [apply L13|exact V]).
      unfold need in Hi. cbn [x_fam x126 x_dcdc x_tcxo] in Hi. unfold it_cad126 in VV.
      apply in_app_or in Hi. destruct Hi as [Hi|Hi]; [apply in_app_or in Hi; destruct Hi as [Hi|Hi]|].
      + cbn [In] in Hi. destruct Hi as [<-|[<-|[<-|[<-|[<-|[<-|[<-|[]]]]]]]]; try (apply VV; cbn; tauto). apply V3. left; reflexivity.
      + apply VV. apply in_or_app. right. apply in_or_app. left. exact Hi.
      + apply VV. apply in_or_app. right. apply in_or_app. right. exact Hi.
    - intros mm S. unfold spi126_cmd. cbn [nthN nth]. change (s6_OpCode_SetCAD =? 132)%N with false. change (s6_OpCode_SetCAD =? 128)%N with false.
      change (s6_OpCode_SetCAD =? 193)%N with false. change (s6_OpCode_SetCAD =? 131)%N with false. change (s6_OpCode_SetCAD =? 209)%N with false.
      change (s6_OpCode_SetCAD =? 130)%N with false. change (s6_OpCode_SetCAD =? 148)%N with false. change (s6_OpCode_SetCAD =? 197)%N with true. cbn [orb]. rewrite S. reflexivity.
  Qed.

  (* ---- init_lora: regulator, RF switch, TCXO, then the packet type (which resets the modem parameters), sync word, buffer bases, retention *)
  Definition it_init126 : list item := [IPktType; ISync; IBases] ++ (if dc then [IRegulator] else []) ++ (if tc then [ITcxo] else []).
  Lemma regulator_plain g : g_dcdc g = dc ->
    plainP x plain_err (if dc then [IRegulator] else []) [] (if g_dcdc g then spi_write [s6_OpCode_SetRegulatorMode; s6_RegulatorMode_UseDCDC] false else Ret tt).
  Proof. intros ->. destruct (g_dcdc g); plain. Qed.
  Lemma dio2_plain g : plainP x plain_err [] [] (if g_dio2_rfswitch g then spi_write [s6_OpCode_SetDIO2AsRfSwitchCtrl; 1%N] false else Ret tt).
  Proof. destruct (g_dio2_rfswitch g); plain. Qed.
  Lemma tcxo_plain g : tc = (match g_tcxo g with Some _ => true | None => false end) ->
    plainP x plain_err (if tc then [ITcxo] else []) []
      (match g_tcxo g with
       | Some v =>
         _ <- spi_read_status [s6_OpCode_ClearDeviceErrors] 2 ;;
         let timeout := (s6c_brd_tcxo_wakeup_time * 64)%N in
         spi_write [s6_OpCode_SetTCXOMode; N.land v 7; t1 timeout; t2 timeout; t3 timeout] false ;;;
         spi_write [s6_OpCode_Calibrate; 0x7F%N] false ;;;
         iv IvBusy
       | None => Ret tt end).
  Proof. intros ->. destruct (g_tcxo g); plain. Qed.
  Lemma syncw_plain sw : plainP x plain_err [ISync] [] (sync_word_write sw).
  Proof. plain. Qed.
  Lemma bases_plain : plainP x plain_err [IBases] [] (set_buffer_base 0 0).
  Proof. plain. Qed.
  Lemma retention_plain reg : plainP x plain_err [] [] (add_retention reg).
  Proof. plain. Qed.

  Lemma init_ok g sw : g_dcdc g = dc -> tc = (match g_tcxo g with Some _ => true | None => false end) ->
    weak_spec x it_init126 (k_init (kind126 g) sw).
  Proof.
    intros HD HT Q d m O R HQ. cbn [k_init kind126]. unfold init_lora_126.
    assert (NLS : forall m', lora_sel x m -> lora_sel x m') by (intros m' _ F; discriminate F).
    assert (FAILQ : forall e m', prog_le m m' -> plain_err e -> Q (inr e) d m').
    { intros e m' [L1 [L2 [L3 L4]]] Pe. apply HQ; [exact L1|exact L2|exact L4|intros []| |apply NLS]. intros e0 E0. injection E0 as <-. exact Pe. }
    apply seq_plain with (E := plain_err) (want := if dc then [IRegulator] else []); [apply plain_spec_of, regulator_plain, HD|exact O|exact R| |exact FAILQ].
    intros [] m1 L1 V1. apply seq_plain with (E := plain_err) (want := []); [apply plain_spec_of, dio2_plain|apply L1|eapply prog_le_ready; eassumption| |].
    2:{ intros e m' L Pe. apply FAILQ; [eapply prog_le_trans; eassumption|exact Pe]. }
    intros [] m2 L2 _. pose proof (prog_le_trans _ _ _ L1 L2) as L12.
    apply seq_plain with (E := plain_err) (want := if tc then [ITcxo] else []); [apply plain_spec_of, tcxo_plain, HT|apply L12|eapply prog_le_ready; eassumption| |].
    2:{ intros e m' L Pe. apply FAILQ; [eapply prog_le_trans; eassumption|exact Pe]. }
    intros [] m3 L3 V3. pose proof (prog_le_trans _ _ _ L12 L3) as L13.
    assert (R3 : ready m3) by (eapply prog_le_ready; eassumption). assert (O3 : okm m3) by apply L13.
    (* SetPacketType *)
    apply wp_bind. unfold spi_write at 1, act1, iv. cbn [wp].
    split; [apply FAILQ; [exact L13|repeat split; discriminate]|].
    intros ts got Hm. apply segs_match_w1 in Hm. destruct Hm as [-> ->]. rewrite ev_w1 by discriminate. rewrite spi126_ready by exact R3.
    set (m4 := spi126_cmd x m3 [s6_OpCode_SetPacketType; s6_PacketType_LoRa] []).
    assert (E4 : m4 = with_valid m3 (upd (upd (upd (valid m3) IMod false) IPkt false) IPktType true)) by reflexivity.
    assert (C4 : cm m4 = cm m /\ awake m4 = awake m /\ okm m4). { rewrite E4. cbn. destruct L13 as [A [B [_ D]]]. repeat split; try assumption; apply D. }
    destruct C4 as [C4 [A4 O4]].
    assert (R4 : ready m4). { destruct R as [Ra Rb]. split; [rewrite C4; exact Ra|rewrite C4, A4; exact Rb]. }
    assert (FAIL4 : forall e m', prog_le m4 m' -> plain_err e -> Q (inr e) d m').
    { intros e m' [M1 [M2 [M3 M4]]] Pe. apply HQ; [congruence|congruence|exact M4|intros []| |apply NLS]. intros e0 E0. injection E0 as <-. exact Pe. }
    split; [apply FAIL4; [apply prog_le_refl, O4|repeat split; discriminate]|].
    apply seq_plain with (E := plain_err) (want := [ISync]); [apply plain_spec_of, syncw_plain|exact O4|exact R4| |exact FAIL4].
    intros [] m5 L5 V5. apply seq_plain with (E := plain_err) (want := [IBases]); [apply plain_spec_of, bases_plain|apply L5|eapply prog_le_ready; eassumption| |].
    2:{ intros e m' L Pe. apply FAIL4; [eapply prog_le_trans; eassumption|exact Pe]. }
    intros [] m6 L6 V6. pose proof (prog_le_trans _ _ _ L5 L6) as L56.
    apply seq_plain with (E := plain_err) (want := []); [apply plain_spec_of, retention_plain|apply L56|eapply prog_le_ready; eassumption| |].
    2:{ intros e m' L Pe. apply FAIL4; [eapply prog_le_trans; eassumption|exact Pe]. }
    intros [] m7 L7 _. pose proof (prog_le_trans _ _ _ L56 L7) as L57.
    apply (plain_spec_of x _ plain_err [] _ (retention_plain s6_Register_TxModulation)); [apply L57|eapply prog_le_ready; eassumption|].
    intros r m8 L8 _ E8. pose proof (prog_le_trans _ _ _ L57 L8) as L58. destruct L58 as [N1 [N2 [N3 N4]]].
    apply HQ; [rewrite N1; exact C4|rewrite N2; exact A4|exact N4| |exact E8|apply NLS].
    intros _ i Hi. unfold it_init126 in Hi. apply in_app_or in Hi. destruct Hi as [Hi|Hi]; [|apply in_app_or in Hi; destruct Hi as [Hi|Hi]].
    - cbn [In] in Hi. destruct Hi as [<-|[<-|[<-|[]]]].
      + apply N3. rewrite E4. reflexivity.
      + apply L8, L7, L6, V5. left; reflexivity.
      + apply L8, L7, V6. left; reflexivity.
    - apply N3. rewrite E4. destruct dc; [|destruct Hi]. destruct Hi as [<-|[]]. cbn. apply L3, L2, V1. left; reflexivity.
    - apply N3. rewrite E4. destruct tc; [|destruct Hi]. destruct Hi as [<-|[]]. cbn. apply V3. left; reflexivity.
  Qed.

  (* ---- reading the interrupt status *)
  Definition irq_effect (m : mon) (flags : N) : mon :=
    let has b := negb (N.land flags b =? 0)%N in
    match cm m with
    | CTx => if has 0x201%N then with_mode m CStby else m
    | CRx1 | CDuty => if has 0x202%N then with_mode m CStby else m
    | CCad => if has 0x080%N then with_mode m CStby else m
    | _ => m
    end.
  Lemma irq_effect_facts m f : okm m -> let m' := irq_effect m f in
    okm m' /\ le_valid m m' /\ awake m' = awake m /\ (cm m' = cm m \/ cm m' = CStby).
  Proof.
    intros O. unfold irq_effect. destruct (cm m) eqn:E; cbv zeta;
      try match goal with |- context [if ?b then _ else _] => destruct b end;
      (split; [exact O|]); (split; [first [apply le_refl|apply le_with_mode]|]); (split; [reflexivity|]);
      first [left; cbn; congruence|right; reflexivity].
  Qed.
  Lemma segs_match_status b ts got : segs_match [W b; R 1; R 2] ts got -> exists x1 y1 y2, ts = [TW b; TR [x1]; TR [y1; y2]] /\ got = [x1; y1; y2].
  Proof.
    intros H. inversion H as [|b0 r0 ts0 got0 H1|]; subst. inversion H1 as [| |n1 r1 ts1 got1 bs1 Hl1 H2]; subst.
    inversion H2 as [| |n2 r2 ts2 got2 bs2 Hl2 H3]; subst. inversion H3; subst.
    destruct bs1 as [|x1 [|? ?]]; try discriminate Hl1. destruct bs2 as [|y1 [|y2 [|? ?]]]; try discriminate Hl2.
    exists x1, y1, y2. split; reflexivity.
  Qed.

  Lemma clear_step (clear : bool) (Q : unit + rerr -> drv -> mon -> Prop) d m : cm m <> CSleep ->
    (forall r, r = inl tt \/ r = inr ESpi \/ r = inr EBusy -> Q r d m) -> wp x (if clear then clear_irq_126 else Ret tt) Q d m.
  Proof.
    intros NS HQ. destruct clear; [|cbn [wp]; apply HQ; left; reflexivity]. unfold clear_irq_126, spi_write, act1, iv. cbn [wp].
    split; [apply HQ; right; left; reflexivity|]. intros ts got Hm. apply segs_match_w1 in Hm. destruct Hm as [-> ->]. rewrite ev_w1 by discriminate.
    rewrite spi126_readonly; [|exact NS|reflexivity|reflexivity]. change (spi126_cmd x m [s6_OpCode_ClrIrqStatus; 255%N; 255%N] []) with m.
    split; [apply HQ; right; right; reflexivity|apply HQ; left; reflexivity].
  Qed.
  Lemma implicit_plain : plainP x pin_only [] [] handle_implicit_header_mode.
  Proof. plain. Qed.

  Lemma procirq_ok g : forall dm clear (Q : irqstate + rerr -> drv -> mon -> Prop) d m, okm m -> cm m <> CSleep ->
      (cm m = CDuty -> is_single dm = false) ->
      (forall r m', okm m' -> le_valid m m' -> (cm m' = cm m \/ cm m' = CStby) ->
                    (forall c, r = inl (IrqDone c) -> oneshot dm = true -> Some (cm m) = active_of dm -> cm m' = CStby) ->
                    (r = inl IrqPreamble -> exists rm, dm = MRx rm) ->
                    (forall e, r = inr e -> e <> ECancelled) -> Q r d m') ->
      wp x (k_procirq (kind126 g) dm clear) Q d m.
  Proof.
    intros dm clear Q d m O NS SD HQ. cbn [k_procirq kind126]. unfold process_irq_126.
    match goal with |- wp _ (bind _ ?F) _ _ _ => remember F as F0 eqn:EF end.
    (* whatever the status read gives, the rest (clear, implicit-header workaround) leaves the monitor where it is *)
    assert (REST : forall (st : irqstate + rerr) m1, okm m1 -> le_valid m m1 -> (cm m1 = cm m \/ cm m1 = CStby) ->
              (forall c, st = inl (IrqDone c) -> oneshot dm = true -> Some (cm m) = active_of dm -> cm m1 = CStby) ->
              (st = inl IrqPreamble -> exists rm, dm = MRx rm) -> (forall e, st = inr e -> e <> ECancelled) ->
              wp x (F0 st) Q d m1).
    { subst F0. intros st m1 O1 L1 M1 D1 P1 E1. cbv beta.
      assert (NS1 : cm m1 <> CSleep) by (destruct M1 as [-> | ->]; [exact NS|discriminate]).
      assert (OUT : forall r : irqstate + rerr, (r = st \/ r = inr ESpi \/ r = inr EBusy) -> forall m2, prog_le m1 m2 -> Q r d m2).
      { intros r Hr m2 [A1 [A2 [A3 A4]]]. apply HQ; [exact A4|intros i Hi; apply A3, L1, Hi|rewrite A1; exact M1| | |].
        - intros c Ec Os Ac. rewrite A1. destruct Hr as [-> |[-> | ->]]; try discriminate Ec. apply (D1 c Ec Os Ac).
        - intros Ep. destruct Hr as [-> |[-> | ->]]; try discriminate Ep. apply P1, Ep.
        - intros e Ee. destruct Hr as [-> |[-> | ->]]; [apply E1, Ee|injection Ee as <-; discriminate|injection Ee as <-; discriminate]. }
      apply wp_bind. apply clear_step; [exact NS1|]. intros r Hr. destruct Hr as [-> |[-> | ->]];
        try (apply OUT; [right; tauto|apply prog_le_refl, O1]).
      apply wp_bind.
      assert (FIN : forall m2, prog_le m1 m2 -> wp x (match st with inl v => Ret v | inr e => Fail e end) Q d m2).
      { intros m2 L2. destruct st as [v|e]; cbn [wp]; apply OUT; try (left; reflexivity); exact L2. }
      destruct (irq_of dm) eqn:EI; try (cbn [wp]; apply FIN, prog_le_refl, O1).
      destruct dm as [| | |[n| |a b]| |]; try (cbn [wp]; apply FIN, prog_le_refl, O1).
      destruct st as [[| |c]|e]; try (cbn [wp]; apply FIN, prog_le_refl, O1).
      (* single reception completed: the implicit-header workaround writes registers -- the chip is in RX or standby *)
      assert (R1 : ready m1).
      { split; [exact NS1|]. intros E. exfalso. destruct M1 as [M|M]; [|congruence]. rewrite M in E. specialize (SD E). discriminate SD. }
      apply (plain_spec_of x _ pin_only [] _ implicit_plain); [exact O1|exact R1|]. intros r m2 L2 _ E2. destruct r as [[]|e].
      - apply FIN. exact L2.
      - apply OUT; [|exact L2]. destruct (E2 e eq_refl) as [-> | ->]; [right; left|right; right]; reflexivity. }
    clear EF. apply wp_bind. unfold get_irq_state_126, spi_read_status, act1, iv. cbn [bind attempt wp].
    split.
    { apply REST; [exact O|apply le_refl|left; reflexivity|intros c E; discriminate E|intros E; discriminate E|intros e E; injection E as <-; discriminate]. }
    intros ts got Hm. apply segs_match_status in Hm. destruct Hm as [x1 [y1 [y2 [-> ->]]]].
    assert (EV : mon_event x m (TSpi [TW [s6_OpCode_GetIrqStatus]; TR [x1]; TR [y1; y2]]) = irq_effect m (y1 * 256 + y2)%N).
    { cbn [mon_event seg_written seg_read app x_fam x126]. rewrite spi126_readonly; [reflexivity|exact NS|reflexivity|reflexivity]. }
    rewrite EV. destruct (irq_effect_facts m (y1 * 256 + y2)%N O) as [O1 [L1 [A1 M1]]].
    split.
    { apply REST; [exact O1|exact L1|exact M1|intros c E; discriminate E|intros E; discriminate E|intros e E; injection E as <-; discriminate]. }
    change (mon_event x (irq_effect m (y1 * 256 + y2)%N) (TIv IvBusy)) with (irq_effect m (y1 * 256 + y2)%N).
    cbn [bind nthN nth skipn].
    set (flags := (y1 * 256 + y2)%N) in *.
    assert (DONE_TX : is_set s6_IrqMask_TxDone flags = true -> cm m = CTx -> cm (irq_effect m flags) = CStby).
    { intros S E. unfold irq_effect. rewrite E. rewrite (is_set_land _ _ 0x201%N 0%N S); reflexivity. }
    assert (DONE_RX : is_set s6_IrqMask_RxDone flags = true -> cm m = CRx1 \/ cm m = CDuty -> cm (irq_effect m flags) = CStby).
    { intros S [E|E]; unfold irq_effect; rewrite E; rewrite (is_set_land _ _ 0x202%N 1%N S); reflexivity. }
    assert (DONE_CAD : is_set s6_IrqMask_CADDone flags = true -> cm m = CCad -> cm (irq_effect m flags) = CStby).
    { intros S E. unfold irq_effect. rewrite E. rewrite (is_set_land _ _ 0x080%N 7%N S); reflexivity. }
    destruct dm as [| | |rm| |]; cbn [irq_of];
      repeat match goal with |- context [is_set ?a flags] => destruct (is_set a flags) eqn:? end; cbn [orb bind attempt wp];
      apply REST; try exact O1; try exact L1; try exact M1;
      try (intros c E; discriminate E); try (intros E; discriminate E); try (intros e E; injection E as <-; discriminate);
      try (intros E; eexists; reflexivity).
    - intros c _ _ Ac. apply DONE_TX; [first [reflexivity|assumption]|]. cbn in Ac. injection Ac as ->. reflexivity.
    - intros c _ Os Ac. apply DONE_RX; [first [reflexivity|assumption]|]. destruct rm as [n| |a b]; cbn in Ac, Os; try discriminate Os; injection Ac as ->; [left|right]; reflexivity.
    - intros c _ _ Ac. apply DONE_CAD; [first [reflexivity|assumption]|]. cbn in Ac. injection Ac as ->. reflexivity.
    - intros c _ _ Ac. apply DONE_CAD; [first [reflexivity|assumption]|]. cbn in Ac. injection Ac as ->. reflexivity.
  Qed.

  (* ---- what the prepared states rely on *)
  Definition kind126_ok g (HD : g_dcdc g = dc) (HT : tc = match g_tcxo g with Some _ => true | None => false end) : kind_ok x (kind126 g).
  Proof.
    refine {| it_init := it_init126; it_power := [ITxParams; IPaConfig]; it_mod := [IMod]; it_pkt := [IPkt]; it_chan := [IFreq]; it_irq := [IIrq];
              it_payload := []; it_sync := [ISync]; it_cad := it_cad126 |}.
    - intros sw. apply init_ok; assumption.
    - intros p md istx. apply plain_spec_of, power_plain.
    - intros m. apply plain_spec_of, irq_plain.
    - intros f. apply plain_spec_of, calimg_plain.
    - intros md. apply plain_spec_of, mod_plain.
    - intros pk. apply plain_spec_of, pkt_plain.
    - intros f. apply plain_spec_of, chan_plain.
    - intros p. apply plain_spec_of, payload_plain.
    - intros sw. apply plain_spec_of, sync_plain.
    - intros pk n. apply plain_spec_of, rxpayload_plain.
    - apply plain_spec_of, status_plain.
    - apply ensure_ok.
    - apply standby_ok.
    - apply sleep_ok.
    - apply reset_ok.
    - apply tx_ok.
    - apply rx_ok.
    - apply cad_ok.
    - apply procirq_ok.
    - (* cover_tx *) intros m V _. apply forallb_forall. intros i Hi. apply V. unfold need, no_listen in Hi. cbn [x_fam x126 x_dcdc x_tcxo x_listen] in Hi.
      unfold it_init126. destruct dc, tc; cbn [app In] in Hi |- *; tauto.
    - (* cover_rx *) intros m V _. apply forallb_forall. intros i Hi. apply V. unfold need, no_listen in Hi. cbn [x_fam x126 x_dcdc x_tcxo x_listen] in Hi.
      unfold it_init126. destruct dc, tc; cbn [app In] in Hi |- *; tauto.
    - (* cover_cad *) intros m V _ i Hi. apply V. unfold it_cad126 in Hi. unfold it_init126. destruct dc, tc; cbn [app In] in Hi |- *; tauto.
    - (* cover_listen *) intros m LI V _. apply forallb_forall. intros i Hi. apply V. unfold need in Hi. cbn [x_fam x126 x_dcdc x_tcxo x_listen] in Hi, LI.
      rewrite LI in Hi. unfold it_init126. destruct dc, tc; cbn [app In] in Hi |- *; tauto.
    - (* cad_lora *) intros m _ F. discriminate F.
  Defined.
End K126.
