(* Proofs/AsyncProofs.v -- C06 at the front-end: whatever the radio does during Device::send (async_device) -- any script of
   timeouts, errors, frames and pending receptions, a fault at any radio call, Class C or not -- an uplink whose frame has been
   built is concluded before send returns: the session's uplink counter has moved past the counter of that frame, or the device
   reports SessionExpired with the counter space exhausted.  Counters never move backwards in any front-end operation. *)
From Coq Require Import NArith ZArith List Bool Lia.
From LoraV Require Import Base.Bytes Model.Frame Model.Region Model.Mac Model.AsyncDev Proofs.SessionProofs.
Import ListNotations.
Local Open Scope N_scope.

Definition keys_eq (s s' : session) : Prop :=
  ss_nwkskey s' = ss_nwkskey s /\ ss_appskey s' = ss_appskey s /\ ss_devaddr s' = ss_devaddr s.
(* the uplink in flight has been concluded *)
Definition adv (s s' : session) (resp : response) : Prop :=
  ss_fcnt_up s < ss_fcnt_up s' \/ (resp = RSessionExpired /\ ss_fcnt_up s = 0xFFFFFFFF /\ ss_fcnt_up s' = ss_fcnt_up s).
(* same session (keys), counter not moved backwards *)
Definition srel (s s' : session) : Prop := keys_eq s s' /\ ss_fcnt_up s <= ss_fcnt_up s'.
Definition mrel (m m' : mac) : Prop :=
  match m_state m with Joined s => exists s', m_state m' = Joined s' /\ srel s s' | _ => True end.

Lemma srel_refl s : srel s s.
Proof. split; [repeat split|lia]. Qed.
Lemma srel_trans a b c : srel a b -> srel b c -> srel a c.
Proof. intros [[A1 [A2 A3]] A4] [[B1 [B2 B3]] B4]. split; [repeat split; congruence|lia]. Qed.
Lemma mrel_refl m : mrel m m.
Proof. unfold mrel. destruct (m_state m); try exact I. eexists; split; [reflexivity|apply srel_refl]. Qed.
Lemma mrel_trans a b c : mrel a b -> mrel b c -> mrel a c.
Proof.
  unfold mrel. intros H1 H2. destruct (m_state a) as [s| |]; try exact I. destruct H1 as [s1 [E1 R1]]. rewrite E1 in H2.
  destruct H2 as [s2 [E2 R2]]. exists s2. split; [exact E2|eapply srel_trans; eassumption].
Qed.

Section Async.
  Variable enc mac_fn : list N -> list N -> list N.

  (* ---- the MAC transitions a front-end performs *)
  Lemma rx2_session_rel s cf r : let '(s', _, resp) := rx2_complete_session s cf r in srel s s' /\ adv s s' resp.
  Proof.
    pose proof (rx2_complete_counter s cf r) as H. unfold rx2_complete_session in *. destruct (ss_fcnt_up s =? 0xFFFFFFFF) eqn:E.
    - split; [apply srel_refl|]. right. apply N.eqb_eq in E. repeat split; assumption.
    - destruct (if cf_adr cf then _ else _) as [cnt cf']. cbn [ss_fcnt_up ss_nwkskey ss_appskey ss_devaddr] in *.
      split; [split; [repeat split|cbn; lia]|]. left. cbn. lia.
  Qed.

  Lemma hrx_session_rel s cf rg bytes maxp snr ignore_mac o :
    handle_rx_session enc mac_fn s cf rg bytes maxp snr ignore_mac = Val o ->
    srel s (ro_session o) /\ (ro_resp o <> RNoUpdate -> adv s (ro_session o) (ro_resp o)).
  Proof.
    unfold handle_rx_session.
    destruct (validate bytes) as [lay|e]; [|intros H; injection H as <-; cbn; split; [apply srel_refl|intros C; contradiction]].
    destruct (Nat.ltb _ _).
    - destruct ignore_mac; [intros H; injection H as <-; cbn; split; [apply srel_refl|intros C; contradiction]|].
      pose proof (rx2_session_rel s cf (rg_id rg)) as Hc.
      destruct (rx2_complete_session s cf (rg_id rg)) as [[s' cf'] resp].
      intros H; injection H as <-. cbn [ro_session ro_resp]. destruct Hc as [R A]. split; [exact R|intros _; exact A].
    - destruct (next_fcnt_down _ _) as [n|]; [|intros H; injection H as <-; cbn; split; [apply srel_refl|intros C; contradiction]].
      destruct (negb _); [intros H; injection H as <-; cbn; split; [apply srel_refl|intros C; contradiction]|].
      destruct (decrypt_in_place _ _ _ _ _) as [[lay'|e] buf]; [|intros H; discriminate].
      destruct (if ignore_mac then _ else _) as [[[cf1 rg1] pend1]| |]; try (intros H; discriminate).
      destruct (match ignore_mac with true => _ | false => _ end) as [[[cf2 rg2] pend2]| |]; try (intros H; discriminate).
      intros H. injection H as <-. cbn [ro_session ro_resp ss_fcnt_up ss_nwkskey ss_appskey ss_devaddr].
      destruct (ss_fcnt_up s =? 0xFFFFFFFF) eqn:E.
      + apply N.eqb_eq in E. split; [split; [repeat split|cbn; lia]|]. intros _. right. repeat split; cbn; assumption.
      + split; [split; [repeat split|cbn; lia]|]. intros _. left. cbn. lia.
  Qed.

  Lemma mac_rx2_rel m : let '(m', resp) := mac_rx2_complete m in
    mrel m m' /\ (forall s, m_state m = Joined s -> exists s', m_state m' = Joined s' /\ adv s s' resp).
  Proof.
    unfold mac_rx2_complete, mrel. destruct (m_state m) as [s| |] eqn:E.
    - pose proof (rx2_session_rel s (m_cfg m) (rg_id (m_region m))) as H. destruct (rx2_complete_session s (m_cfg m) (rg_id (m_region m))) as [[s' cf'] resp].
      destruct H as [R A]. cbn [m_state]. split; [exists s'; split; [reflexivity|exact R]|].
      intros s0 E0. injection E0 as <-. exists s'. split; [reflexivity|exact A].
    - split; [exact I|intros s0 E0; discriminate E0].
    - split; [exact I|intros s0 E0; discriminate E0].
  Qed.

  Lemma mac_hrx_rel m bytes snr maxp cc o : mac_handle_rx enc mac_fn m bytes snr maxp cc = Val (Some o) ->
    mrel m (mo_mac o) /\ (forall s, m_state m = Joined s -> mo_resp o <> RNoUpdate -> exists s', m_state (mo_mac o) = Joined s' /\ adv s s' (mo_resp o)).
  Proof.
    unfold mac_handle_rx, mrel. destruct (m_state m) as [s|nonce c|] eqn:E.
    - destruct (handle_rx_session enc mac_fn s (m_cfg m) (m_region m) bytes maxp snr cc) as [ro| |] eqn:H; try (intros X; discriminate X).
      intros X. injection X as <-. cbn [mo_mac mo_resp m_state]. apply hrx_session_rel in H. destruct H as [R A].
      split; [exists (ro_session ro); split; [reflexivity|exact R]|]. intros s0 E0 NU. injection E0 as <-. exists (ro_session ro). split; [reflexivity|apply A, NU].
    - destruct cc; [intros X; discriminate X|]. destruct (otaa_handle_rx enc mac_fn m nonce c bytes) as [[[m' resp] buf]| |]; try (intros X; discriminate X).
      intros X. injection X as <-. split; [exact I|intros s0 E0; discriminate E0].
    - destruct cc; [intros X; discriminate X|]. intros X. injection X as <-. split; [exact I|intros s0 E0; discriminate E0].
  Qed.

  (* ---- the front-end's building blocks *)
  Definition frel (d d' : adev) : Prop := mrel (ad_mac d) (ad_mac d') /\ ad_classc d' = ad_classc d /\ ad_lead d' = ad_lead d.
  Lemma frel_refl d : frel d d.
  Proof. split; [apply mrel_refl|split; reflexivity]. Qed.
  Lemma frel_trans a b c : frel a b -> frel b c -> frel a c.
  Proof. intros [A1 [A2 A3]] [B1 [B2 B3]]. split; [eapply mrel_trans; eassumption|split; congruence]. Qed.
  Lemma frel_with_mac d m' : mrel (ad_mac d) m' -> frel d (with_mac d m').
  Proof. intros H. split; [exact H|split; reflexivity]. Qed.

  Lemma adv_mono s s1 s2 r : srel s s1 -> adv s1 s2 r -> adv s s2 r.
  Proof.
    intros [_ L] [A|[A1 [A2 A3]]]; [left; lia|]. destruct (N.ltb_spec (ss_fcnt_up s) (ss_fcnt_up s2)); [left; assumption|].
    right. repeat split; [exact A1|lia|lia].
  Qed.
  (* the uplink built from session s has been concluded in device d' *)
  Definition concluded (s : session) (d' : adev) (r : response) : Prop :=
    exists s', m_state (ad_mac d') = Joined s' /\ adv s s' r.
  Lemma concluded_later s d1 d2 r : concluded s d1 r -> frel d1 d2 -> (forall s1 s2, m_state (ad_mac d1) = Joined s1 -> m_state (ad_mac d2) = Joined s2 -> True) ->
    exists s2, m_state (ad_mac d2) = Joined s2 /\ (ss_fcnt_up s < ss_fcnt_up s2 \/ adv s s2 r).
  Proof.
    intros [s1 [E1 A]] [M _] _. unfold mrel in M. rewrite E1 in M. destruct M as [s2 [E2 [_ L]]]. exists s2. split; [exact E2|].
    destruct A as [A|[A1 [A2 A3]]]; [left; lia|]. destruct (N.ltb_spec (ss_fcnt_up s) (ss_fcnt_up s2)); [left; assumption|].
    right. right. repeat split; [exact A1|exact A2|lia].
  Qed.

  Lemma rx_listen_rel d e rf d' e' res : rx_listen enc mac_fn d e rf = (d', e', res) ->
    frel d d' /\ (forall s r, m_state (ad_mac d) = Joined s -> res = AOk (Some r) -> concluded s d' r).
  Proof.
    unfold rx_listen. destruct (call e ARxSingle) as [e1 ok]. destruct ok; cbn [negb].
    2:{ intros H. injection H as <- _ <-. split; [apply frel_refl|intros s r _ X; discriminate X]. }
    destruct (pop e1) as [[[| |f|]|] e2].
    - destruct (window_complete d e2) as [e3 w]. intros H. injection H as <- _ <-. split; [apply frel_refl|]. intros s r _ X. destruct w; discriminate X.
    - intros H. injection H as <- _ <-. split; [apply frel_refl|intros s r _ X; discriminate X].
    - destruct (mac_handle_rx enc mac_fn (ad_mac d) (firstn 256 f) 5 (rf_max_payload rf) false) as [[o|]| |] eqn:HM;
        try (intros H; injection H as <- _ <-; split; [apply frel_refl|intros s r _ X; discriminate X]).
      apply mac_hrx_rel in HM. destruct HM as [R A]. destruct (window_complete (with_mac d (mo_mac o)) e2) as [e3 w].
      intros H. injection H as <- _ <-. split; [apply frel_with_mac, R|]. intros s r Es X. destruct w; try discriminate X.
      injection X as X. unfold hmr in X. destruct (A s Es) as [s' [E' Ad]].
      { intros C. rewrite C in X. discriminate X. }
      exists s'. split; [exact E'|]. destruct (mo_resp o); try discriminate X; injection X as <-; exact Ad.
    - destruct (window_complete d e2) as [e3 w]. intros H. injection H as <- _ <-. split; [apply frel_refl|]. intros s r _ X. destruct w; discriminate X.
    - destruct (window_complete d e2) as [e3 w]. intros H. injection H as <- _ <-. split; [apply frel_refl|]. intros s r _ X. destruct w; discriminate X.
  Qed.

  Lemma rxc_until_rel rf duration : forall fuel d e resp d' e' res, rxc_until enc mac_fn fuel d e rf duration resp = (d', e', res) -> frel d d'.
  Proof.
    induction fuel as [|k IH]; intros d e resp d' e' res; cbn [rxc_until]; [intros H; injection H as <- _ _; apply frel_refl|].
    destruct (pop e) as [[[| |f|]|] e1]; try (intros H; injection H as <- _ _; apply frel_refl).
    - destruct (call e1 ARxCont) as [e2 ok]. intros H. injection H as <- _ _. apply frel_refl.
    - destruct (call e1 ARxCont) as [e2 ok]. destruct ok; cbn [negb]; [|intros H; injection H as <- _ _; apply frel_refl].
      destruct (mac_handle_rx enc mac_fn (ad_mac d) (firstn 256 f) 5 (rf_max_payload rf) true) as [[o|]| |] eqn:HM;
        try (intros H; injection H as <- _ _; apply frel_refl).
      apply mac_hrx_rel in HM. destruct HM as [R _]. intros H. apply IH in H. eapply frel_trans; [apply frel_with_mac, R|exact H].
  Qed.
  Lemma between_rel d e duration d' e' res : between_windows enc mac_fn d e duration = (d', e', res) -> frel d d'.
  Proof.
    unfold between_windows. destruct (ad_classc d).
    - destruct (rxc_config (ad_mac d)) as [rf| |]; try (intros H; injection H as <- _ _; apply frel_refl).
      destruct (call e (ASetupRx rf None)) as [e1 ok]. destruct ok; cbn [negb]; [|intros H; injection H as <- _ _; apply frel_refl].
      apply rxc_until_rel.
    - destruct (call e ALowPower) as [e1 ok]. destruct ok; cbn [negb]; intros H; injection H as <- _ _; apply frel_refl.
  Qed.

  Lemma joined_of_frel d d' s : frel d d' -> m_state (ad_mac d) = Joined s -> exists s', m_state (ad_mac d') = Joined s' /\ srel s s'.
  Proof. intros [M _] E. unfold mrel in M. rewrite E in M. exact M. Qed.

  Lemma rx_downlink_rel d e join wd rx1 rx2 d' e' res : rx_downlink enc mac_fn d e join wd rx1 rx2 = (d', e', res) ->
    frel d d' /\ (forall s r, m_state (ad_mac d) = Joined s -> res = AOk r -> concluded s d' r).
  Proof.
    unfold rx_downlink. destruct (_ <? _); [intros H; injection H as <- _ <-; split; [apply frel_refl|intros s r _ X; discriminate X]|].
    destruct (between_windows enc mac_fn d e _) as [[d1 e1] b1] eqn:B1. apply between_rel in B1.
    destruct b1; try (intros H; injection H as <- _ <-; split; [exact B1|intros s r _ X; discriminate X]).
    destruct (call e1 (ASetupRx rx1 (Some (ad_lead d)))) as [e2 ok]. destruct ok; cbn [negb];
      [|intros H; injection H as <- _ <-; split; [exact B1|intros s r _ X; discriminate X]].
    destruct (rx_listen enc mac_fn d1 e2 rx1) as [[d2 e3] l1] eqn:L1. apply rx_listen_rel in L1. destruct L1 as [R1 C1].
    pose proof (frel_trans _ _ _ B1 R1) as R02.
    destruct l1 as [[r1|]| | | |]; try (intros H; injection H as <- _ <-; split; [exact R02|intros s r _ X; discriminate X]).
    - intros H. injection H as <- _ <-. split; [exact R02|]. intros s r Es X. injection X as <-.
      destruct (joined_of_frel _ _ _ B1 Es) as [s1 [E1 S1]]. destruct (C1 s1 r1 E1 eq_refl) as [s2 [E2 A2]]. exists s2. split; [exact E2|eapply adv_mono; eassumption].
    - destruct (_ <? _); [intros H; injection H as <- _ <-; split; [exact R02|intros s r _ X; discriminate X]|].
      destruct (between_windows enc mac_fn d2 e3 _) as [[d3 e4] b2] eqn:B2. apply between_rel in B2. pose proof (frel_trans _ _ _ R02 B2) as R03.
      destruct b2; try (intros H; injection H as <- _ <-; split; [exact R03|intros s r _ X; discriminate X]).
      destruct (call e4 (ASetupRx rx2 (Some (ad_lead d)))) as [e5 ok2]. destruct ok2; cbn [negb];
        [|intros H; injection H as <- _ <-; split; [exact R03|intros s r _ X; discriminate X]].
      destruct (rx_listen enc mac_fn d3 e5 rx2) as [[d4 e6] l2] eqn:L2. apply rx_listen_rel in L2. destruct L2 as [R2 C2].
      pose proof (frel_trans _ _ _ R03 R2) as R04.
      destruct l2 as [[r2|]| | | |]; try (intros H; injection H as <- _ <-; split; [exact R04|intros s r _ X; discriminate X]).
      + intros H. injection H as <- _ <-. split; [exact R04|]. intros s r Es X. injection X as <-.
        destruct (joined_of_frel _ _ _ R03 Es) as [s3 [E3 S3]]. destruct (C2 s3 r2 E3 eq_refl) as [s4 [E4 A4]]. exists s4. split; [exact E4|eapply adv_mono; eassumption].
      + pose proof (mac_rx2_rel (ad_mac d4)) as MR. destruct (mac_rx2_complete (ad_mac d4)) as [m' r]. destruct MR as [MR MA].
        intros H. injection H as <- _ <-. split; [eapply frel_trans; [exact R04|apply frel_with_mac, MR]|].
        intros s r0 Es X. injection X as <-. destruct (joined_of_frel _ _ _ R04 Es) as [s4 [E4 S4]]. destruct (MA s4 E4) as [s5 [E5 A5]].
        exists s5. split; [exact E5|eapply adv_mono; eassumption].
  Qed.

  (* ---- Device::send *)
  Lemma send_joined m data fport confirmed draws o s : send enc mac_fn m data fport confirmed draws = Val (SendOk o) -> m_state m = Joined s ->
    exists s0, m_state (to_mac o) = Joined s0 /\ to_counter o = ss_fcnt_up s /\ ss_fcnt_up s0 = ss_fcnt_up s /\ keys_eq s s0.
  Proof.
    unfold send. intros H E. rewrite E in H.
    destruct (prepare_buffer enc mac_fn s (m_cfg m) (rg_id (m_region m)) data fport confirmed) as [[[s0 fcnt] frame]| |] eqn:PB; try discriminate H.
    apply prepare_buffer_counter in PB. destruct PB as [P1 [P2 [_ [P4 [P5 [P6 _]]]]]].
    destruct (create_tx_config _ _ _ _) as [[[[[pw0 rf] tc] rg'] rest']| |]; try discriminate H.
    destruct (adjust_power _ _ _) as [pw| |]; try discriminate H.
    destruct (rx_windows _ _) as [[w1 w2]| |]; try discriminate H.
    injection H as <-. cbn [to_mac to_counter m_state with_region with_state]. exists s0. repeat split; assumption.
  Qed.
  Lemma send_not_joined m data fport confirmed draws s : m_state m = Joined s -> send enc mac_fn m data fport confirmed draws <> Val SendNotJoined.
  Proof.
    unfold send. intros E. rewrite E. destruct (prepare_buffer _ _ _ _ _ _ _ _) as [[[s0 fcnt] frame]| |]; try discriminate.
    destruct (create_tx_config _ _ _ _) as [[[[[pw0 rf] tc] rg'] rest']| |]; try discriminate.
    destruct (adjust_power _ _ _) as [pw| |]; try discriminate. destruct (rx_windows _ _) as [[w1 w2]| |]; discriminate.
  Qed.

  Lemma keys_eq_trans a b c : keys_eq a b -> keys_eq b c -> keys_eq a c.
  Proof. intros [A1 [A2 A3]] [B1 [B2 B3]]. repeat split; congruence. Qed.

  (* the uplink of a send that returns (other than by a panic / a loop without end) has been concluded *)
  Theorem adev_send_concludes d e data fport confirmed draws d' e' res s :
    adev_send enc mac_fn d e data fport confirmed draws = (d', e', res) -> m_state (ad_mac d) = Joined s ->
    res <> APanic -> res <> AHang -> res <> AParked ->
    exists o s', send enc mac_fn (ad_mac d) data fport confirmed draws = Val (SendOk o) /\ to_counter o = ss_fcnt_up s /\
      m_state (ad_mac d') = Joined s' /\ keys_eq s s' /\
      (ss_fcnt_up s < ss_fcnt_up s' \/ (res = AOk RSessionExpired /\ ss_fcnt_up s = 0xFFFFFFFF /\ ss_fcnt_up s' = ss_fcnt_up s)).
  Proof.
    unfold adev_send. intros H Es NP NH NK.
    destruct (send enc mac_fn (ad_mac d) data fport confirmed draws) as [[o|]| |] eqn:SD.
    2:{ exfalso. eapply send_not_joined; eassumption. }
    2:{ injection H as _ _ <-. contradiction. }
    2:{ injection H as _ _ <-. contradiction. }
    destruct (send_joined _ _ _ _ _ _ _ SD Es) as [s0 [E0 [C0 [F0 K0]]]].
    exists o. set (d0 := with_mac d (to_mac o)) in *.
    assert (FC0 : fcnt_up_of (to_mac o) = Some (ss_fcnt_up s0)) by (unfold fcnt_up_of; rewrite E0; reflexivity).
    (* the error path: conclude the uplink if nothing else has *)
    assert (ERR : forall d1 e2 x, frel d0 d1 ->
              (if match fcnt_up_of (ad_mac d1), fcnt_up_of (to_mac o) with Some a, Some b => a =? b | None, None => true | _, _ => false end
               then let '(m', r2) := mac_rx2_complete (ad_mac d1) in
                    match r2 with RSessionExpired => (with_mac d1 m', e2, AOk RSessionExpired) | _ => (with_mac d1 m', e2, AErr x) end
               else (d1, e2, AErr x)) = (d', e', res) ->
              exists s', m_state (ad_mac d') = Joined s' /\ keys_eq s s' /\
                (ss_fcnt_up s < ss_fcnt_up s' \/ (res = AOk RSessionExpired /\ ss_fcnt_up s = 0xFFFFFFFF /\ ss_fcnt_up s' = ss_fcnt_up s))).
    { intros d1 e2 x R1 HH. destruct (joined_of_frel d0 d1 s0 R1 E0) as [s1 [E1 [K1 L1]]].
      rewrite FC0 in HH. unfold fcnt_up_of in HH at 1. rewrite E1 in HH.
      destruct (ss_fcnt_up s1 =? ss_fcnt_up s0) eqn:EQ.
      - apply N.eqb_eq in EQ. pose proof (mac_rx2_rel (ad_mac d1)) as MR. destruct (mac_rx2_complete (ad_mac d1)) as [m' r2]. destruct MR as [MRel MA].
        destruct (MA s1 E1) as [s2 [E2 A2]].
        assert (K2 : keys_eq s1 s2).
        { unfold mrel in MRel. rewrite E1 in MRel. destruct MRel as [s2' [E2' [KK _]]]. rewrite E2 in E2'. injection E2' as <-. exact KK. }
        assert (G : m_state (ad_mac (with_mac d1 m')) = Joined s2) by exact E2.
        destruct r2; injection HH as <- _ <-; exists s2; (split; [exact G|]); (split; [eapply keys_eq_trans; [exact K0|eapply keys_eq_trans; eassumption]|]);
          destruct A2 as [A|[A1 [A2 A3]]]; try (left; lia); try discriminate A1.
        right. repeat split; lia.
      - apply N.eqb_neq in EQ. injection HH as <- _ <-. exists s1. split; [exact E1|]. split; [eapply keys_eq_trans; eassumption|]. left. lia. }
    destruct (call e (ATx (to_tx o) (to_frame o))) as [e1 ok]. destruct ok; cbn [negb] in H.
    - destruct (rx_downlink enc mac_fn d0 (tr e1 ATimerReset) false 100 (to_rx1 o) (to_rx2 o)) as [[d1 e2] r] eqn:RD.
      apply rx_downlink_rel in RD. destruct RD as [R1 C1].
      destruct r as [resp|x| | |].
      + destruct (C1 s0 resp E0 eq_refl) as [s1 [E1 A1]]. destruct (joined_of_frel d0 d1 s0 R1 E0) as [s1' [E1' [K1 _]]]. rewrite E1 in E1'. injection E1' as <-.
        assert (OUT : (d1, e2, AOk resp) = (d', e', res) -> exists s', C0 = C0 /\ m_state (ad_mac d') = Joined s' /\ keys_eq s s' /\
                  (ss_fcnt_up s < ss_fcnt_up s' \/ (res = AOk RSessionExpired /\ ss_fcnt_up s = 0xFFFFFFFF /\ ss_fcnt_up s' = ss_fcnt_up s))).
        { intros HH. injection HH as <- _ <-. exists s1. split; [reflexivity|]. split; [exact E1|]. split; [eapply keys_eq_trans; eassumption|].
          destruct A1 as [A|[A1 [A2 A3]]]; [left; lia|]. right. rewrite A1. repeat split; lia. }
        destruct resp; try (destruct (OUT H) as [s' [_ G]]; exists s'; split; [reflexivity|split; [exact C0|exact G]]); injection H as _ _ <-; contradiction.
      + destruct (ERR d1 e2 x R1 H) as [s' G]. exists s'. split; [reflexivity|split; [exact C0|exact G]].
      + injection H as _ _ <-. contradiction.
      + injection H as _ _ <-. contradiction.
      + injection H as _ _ <-. contradiction.
    - destruct (ERR d0 e1 ERadioErr (frel_refl d0) H) as [s' G]. exists s'. split; [reflexivity|split; [exact C0|exact G]].
  Qed.

  (* ---- no front-end operation on an established session moves its counter backwards or changes its keys *)
  Lemma send_mrel m data fport confirmed draws o : send enc mac_fn m data fport confirmed draws = Val (SendOk o) -> mrel m (to_mac o).
  Proof.
    intros H. unfold mrel. destruct (m_state m) as [s| |] eqn:E; try exact I.
    destruct (send_joined _ _ _ _ _ _ _ H E) as [s0 [E0 [_ [F0 K0]]]]. exists s0. split; [exact E0|]. split; [exact K0|lia].
  Qed.
  Theorem adev_send_frel d e data fport confirmed draws d' e' res :
    adev_send enc mac_fn d e data fport confirmed draws = (d', e', res) -> frel d d'.
  Proof.
    unfold adev_send. destruct (send enc mac_fn (ad_mac d) data fport confirmed draws) as [[o|]| |] eqn:SD;
      try (intros H; injection H as <- _ _; apply frel_refl).
    pose proof (frel_with_mac d (to_mac o) (send_mrel _ _ _ _ _ _ SD)) as R0. set (d0 := with_mac d (to_mac o)) in *.
    assert (ERR : forall d1 e2 x, frel d0 d1 ->
              (if match fcnt_up_of (ad_mac d1), fcnt_up_of (to_mac o) with Some a, Some b => a =? b | None, None => true | _, _ => false end
               then let '(m', r2) := mac_rx2_complete (ad_mac d1) in
                    match r2 with RSessionExpired => (with_mac d1 m', e2, AOk RSessionExpired) | _ => (with_mac d1 m', e2, AErr x) end
               else (d1, e2, AErr x)) = (d', e', res) -> frel d d').
    { intros d1 e2 x R1 HH. destruct (match fcnt_up_of (ad_mac d1), fcnt_up_of (to_mac o) with Some a, Some b => a =? b | None, None => true | _, _ => false end).
      - pose proof (mac_rx2_rel (ad_mac d1)) as MR. destruct (mac_rx2_complete (ad_mac d1)) as [m' r2]. destruct MR as [MRel _].
        assert (R2 : frel d (with_mac d1 m')) by (eapply frel_trans; [exact R0|eapply frel_trans; [exact R1|apply frel_with_mac, MRel]]).
        destruct r2; injection HH as <- _ _; exact R2.
      - injection HH as <- _ _. eapply frel_trans; eassumption. }
    destruct (call e (ATx (to_tx o) (to_frame o))) as [e1 ok]. destruct ok; cbn [negb].
    - destruct (rx_downlink enc mac_fn d0 (tr e1 ATimerReset) false 100 (to_rx1 o) (to_rx2 o)) as [[d1 e2] r] eqn:RD.
      apply rx_downlink_rel in RD. destruct RD as [R1 _]. pose proof (frel_trans _ _ _ R0 R1) as R01.
      destruct r as [resp|x| | |]; try (intros H; injection H as <- _ _; exact R01).
      + destruct resp; intros H; injection H as <- _ _; exact R01.
      + apply ERR. exact R1.
    - apply ERR. apply frel_refl.
  Qed.

  Lemma rxc_listen_loop_rel rf : forall fuel d e d' e' res, rxc_listen_loop enc mac_fn fuel d e rf = (d', e', res) -> frel d d'.
  Proof.
    induction fuel as [|k IH]; intros d e d' e' res; cbn [rxc_listen_loop]; [intros H; injection H as <- _ _; apply frel_refl|].
    destruct (pop e) as [[[| |f|]|] e1]; try (intros H; injection H as <- _ _; apply frel_refl).
    - destruct (call e1 ARxCont) as [e2 ok]. intros H. injection H as <- _ _. apply frel_refl.
    - destruct (call e1 ARxCont) as [e2 ok]. destruct ok; cbn [negb]; [|intros H; injection H as <- _ _; apply frel_refl].
      destruct (mac_handle_rx enc mac_fn (ad_mac d) (firstn 256 f) 5 (rf_max_payload rf) true) as [[o|]| |] eqn:HM;
        try (intros H; injection H as <- _ _; apply frel_refl).
      apply mac_hrx_rel in HM. destruct HM as [R _]. pose proof (frel_with_mac d (mo_mac o) R) as R1.
      destruct (hmr (mo_resp o)) as [[]|]; try (intros H; injection H as <- _ _; exact R1).
      intros H. apply IH in H. eapply frel_trans; eassumption.
  Qed.
  Theorem adev_listen_frel d e d' e' res : adev_listen enc mac_fn d e = (d', e', res) -> frel d d'.
  Proof.
    unfold adev_listen. destruct (rxc_config (ad_mac d)) as [rf| |]; try (intros H; injection H as <- _ _; apply frel_refl). apply rxc_listen_loop_rel.
  Qed.

  (* histories within one session: sends, Class C listening, data-rate / ADR changes, anything else that keeps frel *)
  Inductive same_session : adev -> adev -> Prop :=
  | SS_refl d : same_session d d
  | SS_send d e data fport confirmed draws d1 e1 r d2 : adev_send enc mac_fn d e data fport confirmed draws = (d1, e1, r) -> same_session d1 d2 -> same_session d d2
  | SS_listen d e d1 e1 r d2 : adev_listen enc mac_fn d e = (d1, e1, r) -> same_session d1 d2 -> same_session d d2
  | SS_dr d n d2 : same_session (with_mac d (set_datarate (ad_mac d) n)) d2 -> same_session d d2
  | SS_adr d b d2 : same_session (with_mac d (set_adr (ad_mac d) b)) d2 -> same_session d d2.

  Lemma set_datarate_mrel m n : mrel m (set_datarate m n).
  Proof.
    unfold mrel, set_datarate. destruct (m_state m) as [s| |] eqn:E; try exact I. destruct (uplink_dr (m_region m) n); cbn [m_state with_cfg]; rewrite E;
      exists s; (split; [reflexivity|apply srel_refl]).
  Qed.
  Lemma set_adr_mrel m b : mrel m (set_adr m b).
  Proof.
    unfold mrel, set_adr. destruct (m_state m) as [s| |] eqn:E; try exact I. cbn [m_state]. destruct b.
    - exists s. split; [reflexivity|apply srel_refl].
    - eexists. split; [reflexivity|]. split; [repeat split|cbn; lia].
  Qed.
  Lemma same_session_frel d d' : same_session d d' -> frel d d'.
  Proof.
    induction 1 as [d|d e data fport confirmed draws d1 e1 r d2 H _ IH|d e d1 e1 r d2 H _ IH|d n d2 _ IH|d b d2 _ IH].
    - apply frel_refl.
    - eapply frel_trans; [eapply adev_send_frel; exact H|exact IH].
    - eapply frel_trans; [eapply adev_listen_frel; exact H|exact IH].
    - eapply frel_trans; [apply frel_with_mac, set_datarate_mrel|exact IH].
    - eapply frel_trans; [apply frel_with_mac, set_adr_mrel|exact IH].
  Qed.

  (* two uplinks of one session never carry the same counter: between a send that returned without reporting session expiry and any
     later send of the same session (whatever happened in between), the counter handed to the frame builder has grown *)
  Theorem async_counters_strictly_increase d e data fport confirmed draws d1 e1 r1 s o1 d2 data2 fport2 confirmed2 draws2 o2 :
    m_state (ad_mac d) = Joined s ->
    adev_send enc mac_fn d e data fport confirmed draws = (d1, e1, r1) -> r1 <> APanic -> r1 <> AHang -> r1 <> AParked -> r1 <> AOk RSessionExpired ->
    send enc mac_fn (ad_mac d) data fport confirmed draws = Val (SendOk o1) ->
    same_session d1 d2 ->
    send enc mac_fn (ad_mac d2) data2 fport2 confirmed2 draws2 = Val (SendOk o2) ->
    to_counter o1 < to_counter o2.
  Proof.
    intros Es H1 NP NH NK NE S1 SS S2.
    destruct (adev_send_concludes _ _ _ _ _ _ _ _ _ _ H1 Es NP NH NK) as [o [s1 [SO [C1 [E1 [K1 A1]]]]]].
    rewrite S1 in SO. injection SO as <-.
    destruct A1 as [A1|[A1 _]]; [|contradiction].
    apply same_session_frel in SS. destruct (joined_of_frel _ _ _ SS E1) as [s2 [E2 [_ L2]]].
    destruct (send_joined _ _ _ _ _ _ _ S2 E2) as [_ [_ [C2 _]]]. lia.
  Qed.
End Async.
