(* Proofs/AsyncNoPanic.v -- C04 at the asynchronous front-end: in an established session no radio behaviour -- no received byte string in
   RX1, RX2 or the Class C reception between the windows, no radio error at any call -- makes Device::send panic; the only panics of
   send are the deliberate ones of Session::prepare_buffer (application misuse, known finding send-api-misuse-panics). *)
From Coq Require Import NArith ZArith List Bool Lia.
From LoraV Require Import Base.Bytes Model.Frame Model.Region Model.Mac Model.AsyncDev Gen.RegionTables Spec.RP002
  Proofs.SessionProofs Proofs.WindowProofs Proofs.NoPanicProofs Proofs.AsyncProofs.
Import ListNotations.
Local Open Scope N_scope.

Definition data_resp (r : response) : Prop := match r with RNoJoinAccept | RJoinSuccess => False | _ => True end.

Lemma rx2_rf_config_total m dr : mac_ok m -> dr < 16 -> exists rf, rx2_rf_config m dr = Val rf.
Proof.
  intros [[Hr _] [_ Ho]] Hd. unfold rx2_rf_config. cbv zeta.
  destruct (window_dr_total _ _ _ Hr Hd Ho) as [d1 [E1 [L1 [E2 _]]]]. rewrite E2.
  destruct (cf_rx2_data_rate (m_cfg m)) as [d|].
  - destruct (build_rf_config_total m (match cf_rx2_frequency (m_cfg m) with Some f => f | None => r_rx2_freq (rg_id (m_region m)) end) d dr Hr Hd Ho) as [b [Eb _]].
    exists b. exact Eb.
  - destruct (build_rf_config_total m (match cf_rx2_frequency (m_cfg m) with Some f => f | None => r_rx2_freq (rg_id (m_region m)) end) (rp_rx2_dr (rg_id (m_region m))) dr Hr Hd Ho) as [b [Eb _]].
    exists b. exact Eb.
Qed.
Lemma rxc_config_total m : mac_ok m -> exists rf, rxc_config m = Val rf.
Proof.
  intros Hok. unfold rxc_config. apply rx2_rf_config_total; [exact Hok|]. destruct Hok as [[Hr _] [C1 _]].
  destruct (uplink_dr (m_region m) (cf_data_rate (m_cfg m))) as [x|] eqn:Eu; [|congruence].
  eapply dr_index_lt_16; [exact Hr|]. apply datarate_index_of_get. eapply uplink_dr_defined. exact Eu.
Qed.

Section NoPanic.
  Variable enc mac_fn : list N -> list N -> list N.
  Hypothesis enc_len : forall k b, length (enc k b) = 16%nat.

  (* responses of an established session *)
  Lemma rx2_session_resp s cf r : let '(_, _, resp) := rx2_complete_session s cf r in data_resp resp /\ resp <> RNoUpdate.
  Proof.
    unfold rx2_complete_session. destruct (ss_fcnt_up s =? 0xFFFFFFFF); [split; [exact I|discriminate]|].
    destruct (if cf_adr cf then _ else _) as [cnt cf']. destruct (ss_confirmed s); split; try exact I; discriminate.
  Qed.
  Lemma hrx_session_resp s cf rg bytes maxp snr ignore_mac o :
    handle_rx_session enc mac_fn s cf rg bytes maxp snr ignore_mac = Val o -> data_resp (ro_resp o).
  Proof.
    unfold handle_rx_session.
    destruct (validate bytes) as [lay|e]; [|intros H; injection H as <-; exact I].
    destruct (Nat.ltb _ _).
    - destruct ignore_mac; [intros H; injection H as <-; exact I|].
      pose proof (rx2_session_resp s cf (rg_id rg)) as Hc. destruct (rx2_complete_session s cf (rg_id rg)) as [[s' cf'] resp].
      intros H; injection H as <-. apply Hc.
    - destruct (next_fcnt_down _ _) as [n|]; [|intros H; injection H as <-; exact I].
      destruct (negb _); [intros H; injection H as <-; exact I|].
      destruct (decrypt_in_place _ _ _ _ _) as [[lay'|e] buf]; [|intros H; discriminate].
      destruct (if ignore_mac then _ else _) as [[[cf1 rg1] pend1]| |]; try (intros H; discriminate).
      destruct (match ignore_mac with true => _ | false => _ end) as [[[cf2 rg2] pend2]| |]; try (intros H; discriminate).
      intros H. injection H as <-. cbn [ro_resp]. destruct (ss_fcnt_up s =? 0xFFFFFFFF); exact I.
  Qed.
  Lemma mac_hrx_resp m bytes snr maxp cc o s : mac_handle_rx enc mac_fn m bytes snr maxp cc = Val (Some o) -> m_state m = Joined s -> data_resp (mo_resp o).
  Proof.
    unfold mac_handle_rx. intros H E. rewrite E in H.
    destruct (handle_rx_session enc mac_fn s (m_cfg m) (m_region m) bytes maxp snr cc) as [ro| |] eqn:HS; try discriminate H.
    injection H as <-. cbn [mo_resp]. eapply hrx_session_resp. exact HS.
  Qed.
  Lemma mac_rx2_resp m s : m_state m = Joined s -> data_resp (snd (mac_rx2_complete m)) /\ snd (mac_rx2_complete m) <> RNoUpdate.
  Proof.
    intros E. unfold mac_rx2_complete. rewrite E. pose proof (rx2_session_resp s (m_cfg m) (rg_id (m_region m))) as H.
    destruct (rx2_complete_session s (m_cfg m) (rg_id (m_region m))) as [[s' cf'] resp]. exact H.
  Qed.

  Definition dok (d : adev) : Prop := mac_ok (ad_mac d).
  Lemma dok_with_mac d m : mac_ok m -> dok (with_mac d m).
  Proof. intros H; exact H. Qed.

  Lemma window_complete_np d e : dok d -> snd (window_complete d e) <> APanic.
  Proof.
    intros Hok. unfold window_complete. destruct (ad_classc d).
    - destruct (rxc_config_total _ Hok) as [rf E]. rewrite E. destruct (call e (ASetupRx rf None)) as [e1 ok]. destruct ok; discriminate.
    - destruct (call e ALowPower) as [e1 ok]. destruct ok; discriminate.
  Qed.

  Lemma rx_listen_np d e rf d' e' res : rx_listen enc mac_fn d e rf = (d', e', res) -> dok d ->
    dok d' /\ res <> APanic /\ (forall s r, m_state (ad_mac d) = Joined s -> res = AOk (Some r) -> data_resp r).
  Proof.
    unfold rx_listen. intros H Hok. destruct (call e ARxSingle) as [e1 ok]. destruct ok; cbn [negb] in H.
    2:{ injection H as <- _ <-. split; [exact Hok|]. split; [discriminate|intros s r _ X; discriminate X]. }
    destruct (pop e1) as [[[| |f|]|] e2].
    - pose proof (window_complete_np d e2 Hok) as W. destruct (window_complete d e2) as [e3 w]. injection H as <- _ <-. split; [exact Hok|].
      split; [cbn [snd] in W; destruct w; try discriminate; exfalso; apply W; reflexivity|intros s r _ X; destruct w; discriminate X].
    - injection H as <- _ <-. split; [exact Hok|]. split; [discriminate|intros s r _ X; discriminate X].
    - destruct (mac_handle_rx_total enc mac_fn enc_len (ad_mac d) (firstn 256 f) 5 (rf_max_payload rf) false Hok) as [o [E OK]]. rewrite E in H.
      destruct o as [o|].
      + pose proof (OK o eq_refl) as Hok1. pose proof (window_complete_np (with_mac d (mo_mac o)) e2 Hok1) as W.
        destruct (window_complete (with_mac d (mo_mac o)) e2) as [e3 w]. injection H as <- _ <-. split; [exact Hok1|].
        split; [cbn [snd] in W; destruct w; try discriminate; exfalso; apply W; reflexivity|]. intros s r Es X. destruct w; try discriminate X. injection X as X.
        pose proof (mac_hrx_resp _ _ _ _ _ _ _ E Es) as DR. unfold hmr in X. destruct (mo_resp o); try discriminate X; injection X as <-; exact DR.
      + exfalso. unfold mac_handle_rx in E. destruct (m_state (ad_mac d)); [destruct (handle_rx_session _ _ _ _ _ _ _ _ _); discriminate E| |discriminate E].
        destruct (otaa_handle_rx _ _ _ _ _ _) as [[[? ?] ?]| |]; discriminate E.
    - pose proof (window_complete_np d e2 Hok) as W. destruct (window_complete d e2) as [e3 w]. injection H as <- _ <-. split; [exact Hok|].
      split; [cbn [snd] in W; destruct w; try discriminate; exfalso; apply W; reflexivity|intros s r _ X; destruct w; discriminate X].
    - pose proof (window_complete_np d e2 Hok) as W. destruct (window_complete d e2) as [e3 w]. injection H as <- _ <-. split; [exact Hok|].
      split; [cbn [snd] in W; destruct w; try discriminate; exfalso; apply W; reflexivity|intros s r _ X; destruct w; discriminate X].
  Qed.

  Lemma rxc_until_np rf duration : forall fuel d e resp d' e' res, rxc_until enc mac_fn fuel d e rf duration resp = (d', e', res) -> dok d ->
    dok d' /\ res <> APanic.
  Proof.
    induction fuel as [|k IH]; intros d e resp d' e' res H Hok; cbn [rxc_until] in H; [injection H as <- _ <-; split; [exact Hok|discriminate]|].
    destruct (pop e) as [[[| |f|]|] e1]; try (injection H as <- _ <-; split; [exact Hok|discriminate]).
    - destruct (call e1 ARxCont) as [e2 ok]. injection H as <- _ <-. split; [exact Hok|discriminate].
    - destruct (call e1 ARxCont) as [e2 ok]. destruct ok; cbn [negb] in H; [|injection H as <- _ <-; split; [exact Hok|discriminate]].
      destruct (mac_handle_rx_total enc mac_fn enc_len (ad_mac d) (firstn 256 f) 5 (rf_max_payload rf) true Hok) as [o [E OK]]. rewrite E in H.
      destruct o as [o|]; [|injection H as <- _ <-; split; [exact Hok|discriminate]].
      eapply IH; [exact H|]. apply (OK o eq_refl).
  Qed.
  Lemma between_np d e duration d' e' res : between_windows enc mac_fn d e duration = (d', e', res) -> dok d -> dok d' /\ res <> APanic.
  Proof.
    unfold between_windows. intros H Hok. destruct (ad_classc d).
    - destruct (rxc_config_total _ Hok) as [rf E]. rewrite E in H. destruct (call e (ASetupRx rf None)) as [e1 ok]. destruct ok; cbn [negb] in H;
        [|injection H as <- _ <-; split; [exact Hok|discriminate]]. eapply rxc_until_np; eassumption.
    - destruct (call e ALowPower) as [e1 ok]. destruct ok; cbn [negb] in H; injection H as <- _ <-; (split; [exact Hok|discriminate]).
  Qed.

  Lemma rx_listen_some d e rf d' e' r : rx_listen enc mac_fn d e rf = (d', e', AOk (Some r)) -> r <> RNoUpdate.
  Proof.
    unfold rx_listen. intros L1 ->. destruct (call e ARxSingle) as [e2' ok']. destruct ok'; cbn [negb] in L1; [|discriminate L1].
    destruct (pop e2') as [[[| |f|]|] e2'']; try (destruct (window_complete d e2'') as [? w]; destruct w; discriminate L1); try discriminate L1.
    destruct (mac_handle_rx enc mac_fn (ad_mac d) (firstn 256 f) 5 (rf_max_payload rf) false) as [[o|]| |]; try discriminate L1.
    destruct (window_complete _ e2'') as [? w]. destruct w; try discriminate L1. injection L1 as _ _ X. unfold hmr in X. destruct (mo_resp o); discriminate X.
  Qed.

  (* rx_downlink with a lead time not longer than the time the transmission took plus the RX delay (here: lead <= window_delay) *)
  Lemma rx_downlink_np d e join wd rx1 rx2 d' e' res : rx_downlink enc mac_fn d e join wd rx1 rx2 = (d', e', res) -> dok d -> ad_lead d <= wd ->
    dok d' /\ res <> APanic /\ (forall s r, m_state (ad_mac d) = Joined s -> res = AOk r -> data_resp r /\ r <> RNoUpdate).
  Proof.
    unfold rx_downlink. intros H Hok HL.
    assert (T1 : (get_rx_delay (ad_mac d) join false + wd <? ad_lead d) = false) by (apply N.ltb_ge; lia). rewrite T1 in H.
    destruct (between_windows enc mac_fn d e _) as [[d1 e1] b1] eqn:B1. pose proof (between_rel enc mac_fn _ _ _ _ _ _ B1) as R1.
    destruct (between_np _ _ _ _ _ _ B1 Hok) as [Hok1 NP1].
    destruct b1; try (injection H as <- _ <-; split; [exact Hok1|]; split; [discriminate|intros s r _ X; discriminate X]); try contradiction.
    destruct (call e1 (ASetupRx rx1 (Some (ad_lead d)))) as [e2 ok]. destruct ok; cbn [negb] in H;
      [|injection H as <- _ <-; split; [exact Hok1|]; split; [discriminate|intros s r _ X; discriminate X]].
    destruct (rx_listen enc mac_fn d1 e2 rx1) as [[d2 e3] l1] eqn:L1. pose proof (rx_listen_rel enc mac_fn _ _ _ _ _ _ L1) as [R2 _].
    destruct (rx_listen_np _ _ _ _ _ _ L1 Hok1) as [Hok2 [NP2 DR2]]. pose proof (frel_trans _ _ _ R1 R2) as R02.
    destruct l1 as [[r1|]| | | |]; try (injection H as <- _ <-; split; [exact Hok2|]; split; [discriminate|intros s r _ X; discriminate X]); try contradiction.
    - injection H as <- _ <-. split; [exact Hok2|]. split; [discriminate|]. intros s r Es X. injection X as <-.
      destruct (joined_of_frel _ _ _ R1 Es) as [s1 [E1 _]]. split; [apply (DR2 s1 r1 E1 eq_refl)|eapply rx_listen_some; exact L1].
    - assert (T2 : (get_rx_delay (ad_mac d2) join true + wd <? ad_lead d) = false) by (apply N.ltb_ge; lia). rewrite T2 in H.
      destruct (between_windows enc mac_fn d2 e3 _) as [[d3 e4] b2] eqn:B2. pose proof (between_rel enc mac_fn _ _ _ _ _ _ B2) as R3.
      destruct (between_np _ _ _ _ _ _ B2 Hok2) as [Hok3 NP3]. pose proof (frel_trans _ _ _ R02 R3) as R03.
      destruct b2; try (injection H as <- _ <-; split; [exact Hok3|]; split; [discriminate|intros s r _ X; discriminate X]); try contradiction.
      destruct (call e4 (ASetupRx rx2 (Some (ad_lead d)))) as [e5 ok2]. destruct ok2; cbn [negb] in H;
        [|injection H as <- _ <-; split; [exact Hok3|]; split; [discriminate|intros s r _ X; discriminate X]].
      destruct (rx_listen enc mac_fn d3 e5 rx2) as [[d4 e6] l2] eqn:L2. pose proof (rx_listen_rel enc mac_fn _ _ _ _ _ _ L2) as [R4 _].
      destruct (rx_listen_np _ _ _ _ _ _ L2 Hok3) as [Hok4 [NP4 DR4]]. pose proof (frel_trans _ _ _ R03 R4) as R04.
      destruct l2 as [[r2|]| | | |]; try (injection H as <- _ <-; split; [exact Hok4|]; split; [discriminate|intros s r _ X; discriminate X]); try contradiction.
      + injection H as <- _ <-. split; [exact Hok4|]. split; [discriminate|]. intros s r Es X. injection X as <-.
        destruct (joined_of_frel _ _ _ R03 Es) as [s3 [E3 _]]. split; [apply (DR4 s3 r2 E3 eq_refl)|eapply rx_listen_some; exact L2].
      + pose proof (mac_rx2_complete_ok (ad_mac d4) Hok4) as OK5. destruct (mac_rx2_complete (ad_mac d4)) as [m5 r5] eqn:RX.
        injection H as <- _ <-. split; [exact OK5|]. split; [discriminate|]. intros s r Es X. injection X as <-.
        destruct (joined_of_frel _ _ _ R04 Es) as [s4 [E4 _]]. pose proof (mac_rx2_resp (ad_mac d4) s4 E4) as RR. rewrite RX in RR. exact RR.
  Qed.

  (* Device::send in an established session: the only panics are those of Session::prepare_buffer *)
  Theorem adev_send_panics_only_in_prepare_buffer d e data fport confirmed draws d' e' s :
    adev_send enc mac_fn d e data fport confirmed draws = (d', e', APanic) -> dok d -> ad_lead d <= 100 -> m_state (ad_mac d) = Joined s ->
    prepare_buffer enc mac_fn s (m_cfg (ad_mac d)) (rg_id (m_region (ad_mac d))) data fport confirmed = Panic.
  Proof.
    unfold adev_send. intros H Hok HL Es.
    destruct (send enc mac_fn (ad_mac d) data fport confirmed draws) as [[o|]| |] eqn:SD; try discriminate H.
    2:{ destruct (send_panics_only_in_prepare_buffer enc mac_fn _ _ _ _ _ Hok SD) as [s' [E' P]]. rewrite Es in E'. injection E' as <-. exact P. }
    exfalso. pose proof (send_keeps_invariant enc mac_fn _ _ _ _ _ _ Hok SD) as Hok0.
    destruct (send_joined enc mac_fn _ _ _ _ _ _ _ SD Es) as [s0 [E0 _]]. set (d0 := with_mac d (to_mac o)) in *.
    assert (ERR : forall d1 e2 x, dok d1 ->
              (if match fcnt_up_of (ad_mac d1), fcnt_up_of (to_mac o) with Some a, Some b => a =? b | None, None => true | _, _ => false end
               then let '(m', r2) := mac_rx2_complete (ad_mac d1) in
                    match r2 with RSessionExpired => (with_mac d1 m', e2, AOk RSessionExpired) | _ => (with_mac d1 m', e2, AErr x) end
               else (d1, e2, AErr x)) = (d', e', APanic) -> False).
    { intros d1 e2 x _ HH. destruct (match fcnt_up_of (ad_mac d1), fcnt_up_of (to_mac o) with Some a, Some b => a =? b | None, None => true | _, _ => false end).
      - destruct (mac_rx2_complete (ad_mac d1)) as [m' r2]. destruct r2; discriminate HH.
      - discriminate HH. }
    destruct (call e (ATx (to_tx o) (to_frame o))) as [e1 ok]. destruct ok; cbn [negb] in H; [|eapply (ERR d0 e1 ERadioErr Hok0); exact H].
    destruct (rx_downlink enc mac_fn d0 (tr e1 ATimerReset) false 100 (to_rx1 o) (to_rx2 o)) as [[d1 e2] r] eqn:RD.
    destruct (rx_downlink_np _ _ _ _ _ _ _ _ _ RD Hok0 HL) as [Hok1 [NP DR]].
    destruct r as [resp|x| | |]; try discriminate H; try contradiction.
    - destruct (DR s0 resp E0 eq_refl) as [D1 D2]. destruct resp; try discriminate H; try contradiction.
    - eapply (ERR d1 e2 x Hok1); exact H.
  Qed.

  (* ---- rxc_listen: Class C reception never produces a response ListenResponse::from panics on *)
  Lemma hrx_session_resp_classc s cf rg bytes maxp snr o :
    handle_rx_session enc mac_fn s cf rg bytes maxp snr true = Val o ->
    ro_resp o = RNoUpdate \/ ro_resp o = RSessionExpired \/ exists f, ro_resp o = RDownlinkReceived f.
  Proof.
    unfold handle_rx_session.
    destruct (validate bytes) as [lay|e]; [|intros H; injection H as <-; left; reflexivity].
    destruct (Nat.ltb _ _); [intros H; injection H as <-; left; reflexivity|].
    destruct (next_fcnt_down _ _) as [n|]; [|intros H; injection H as <-; left; reflexivity].
    destruct (negb _); [intros H; injection H as <-; left; reflexivity|].
    destruct (decrypt_in_place _ _ _ _ _) as [[lay'|e] buf]; [|intros H; discriminate].
    cbn [andb]. intros H. injection H as <-. cbn [ro_resp]. destruct (ss_fcnt_up s =? 0xFFFFFFFF); [right; left; reflexivity|right; right; eexists; reflexivity].
  Qed.

  Lemma rxc_listen_loop_np rf : forall fuel d e d' e' res, rxc_listen_loop enc mac_fn fuel d e rf = (d', e', res) -> dok d -> res <> APanic.
  Proof.
    induction fuel as [|k IH]; intros d e d' e' res H Hok; cbn [rxc_listen_loop] in H; [injection H as _ _ <-; discriminate|].
    destruct (pop e) as [[[| |f|]|] e1]; try (injection H as _ _ <-; discriminate).
    - destruct (call e1 ARxCont) as [e2 ok]. injection H as _ _ <-. discriminate.
    - destruct (call e1 ARxCont) as [e2 ok]. destruct ok; cbn [negb] in H; [|injection H as _ _ <-; discriminate].
      destruct (mac_handle_rx_total enc mac_fn enc_len (ad_mac d) (firstn 256 f) 5 (rf_max_payload rf) true Hok) as [o [E OK]]. rewrite E in H.
      destruct o as [o|]; [|injection H as _ _ <-; discriminate].
      assert (RC : mo_resp o = RNoUpdate \/ mo_resp o = RSessionExpired \/ exists f0, mo_resp o = RDownlinkReceived f0).
      { unfold mac_handle_rx in E. destruct (m_state (ad_mac d)) as [s| |]; try discriminate E.
        destruct (handle_rx_session enc mac_fn s (m_cfg (ad_mac d)) (m_region (ad_mac d)) (firstn 256 f) (rf_max_payload rf) 5 true) as [ro| |] eqn:HS; try discriminate E.
        injection E as <-. cbn [mo_resp]. eapply hrx_session_resp_classc. exact HS. }
      destruct RC as [R|[R|[f0 R]]]; rewrite R in H; cbn [hmr] in H.
      + eapply IH; [exact H|apply (OK o eq_refl)].
      + injection H as _ _ <-. discriminate.
      + injection H as _ _ <-. discriminate.
  Qed.
  Theorem adev_listen_never_panics d e d' e' res : adev_listen enc mac_fn d e = (d', e', res) -> dok d -> res <> APanic.
  Proof.
    unfold adev_listen. intros H Hok. destruct (rxc_config_total _ Hok) as [rf E]. rewrite E in H. eapply rxc_listen_loop_np; eassumption.
  Qed.

  (* ---- join: while the join exchange is in flight the MAC answers NoUpdate, JoinSuccess or (window end) NoJoinAccept only *)
  Hypothesis mac_len : forall k b, length (mac_fn k b) = 16%nat.
  Definition joining (d : adev) : Prop := exists n c, m_state (ad_mac d) = Otaa n c.

  Lemma join_keeps_invariant m c draws o : mac_ok m -> join_otaa mac_fn m c draws = Val o -> mac_ok (to_mac o) /\ exists n, m_state (to_mac o) = Otaa n c.
  Proof.
    intros Hok JO. unfold join_otaa in JO. destruct draws as [|d0 rest]; [discriminate JO|].
    destruct (build_join_request _ _ _ _ _ _) as [[buf len]|er]; [|discriminate JO].
    set (m1 := with_state m (Otaa (d0 mod 65536) c)) in *. assert (Hok1 : mac_ok m1) by exact Hok.
    destruct Hok as [Hrg [C1 C2]]. destruct (uplink_dr (m_region m) (cf_data_rate (m_cfg m))) as [xx|] eqn:Eu; [|congruence].
    pose proof (tx_tail_ok m1 (cf_data_rate (m_cfg m1)) true rest Hok1 (ex_intro _ xx (datarate_index_of_get _ _ _ (uplink_dr_defined _ _ _ Eu))) (m_max_power m1)) as T.
    destruct (create_tx_config (m_region m1) (cf_data_rate (m_cfg m1)) true rest) as [[[[[pw0 rf0] tc] rg'] rest']| |]; try discriminate JO.
    destruct (adjust_power pw0 (m_max_power m1) (m_gain m1)) as [pw| |]; try discriminate JO.
    destruct T as [ww [Ew Hm]]. rewrite Ew in JO. destruct ww. injection JO as <-. split; [exact Hm|]. eexists. reflexivity.
  Qed.

  Lemma rx_listen_joining d e rf d' e' res : rx_listen enc mac_fn d e rf = (d', e', res) -> joining d ->
    (res = AOk None -> joining d') /\ (forall r, res = AOk (Some r) -> r = RJoinSuccess).
  Proof.
    unfold rx_listen. intros H [n [c J]]. destruct (call e ARxSingle) as [e1 ok]. destruct ok; cbn [negb] in H.
    2:{ injection H as _ _ <-. split; [intros X; discriminate X|intros r X; discriminate X]. }
    destruct (pop e1) as [[[| |f|]|] e2]; try (destruct (window_complete d e2) as [e3 w]; injection H as <- _ <-; split; [intros _; exists n, c; exact J|intros r X; destruct w; discriminate X]).
    - unfold mac_handle_rx in H. rewrite J in H. unfold otaa_handle_rx in H.
      destruct (ja_check_mic_and_decrypt enc mac_fn (firstn 256 f) (cr_appkey c)) as [[u|er] clear].
      + destruct (region_join_accept _ _) as [rg'| |]; try (injection H as _ _ <-; split; [intros X; discriminate X|intros r X; discriminate X]).
        destruct (window_complete _ e2) as [e3 w]. injection H as _ _ <-. split; [intros X; destruct w; discriminate X|].
        intros r X. destruct w; try discriminate X. injection X as <-. reflexivity.
      + destruct (window_complete _ e2) as [e3 w]. injection H as <- _ <-. split; [intros _; exists n, c; exact J|intros r X; destruct w; discriminate X].
  Qed.

  Lemma rxc_until_joining rf duration : forall fuel d e resp d' e' res, rxc_until enc mac_fn fuel d e rf duration resp = (d', e', res) -> joining d ->
    forall x, res = AOk x -> d' = d.
  Proof.
    induction fuel as [|k IH]; intros d e resp d' e' res H J x X; cbn [rxc_until] in H; [injection H as _ _ <-; discriminate X|].
    destruct (pop e) as [[[| |f|]|] e1]; try (injection H as <- _ _; reflexivity).
    - destruct (call e1 ARxCont) as [e2 ok]. injection H as <- _ _. reflexivity.
    - destruct (call e1 ARxCont) as [e2 ok]. destruct ok; cbn [negb] in H; [|injection H as <- _ _; reflexivity].
      destruct J as [n [c J]]. unfold mac_handle_rx in H. rewrite J in H. injection H as _ _ <-. discriminate X.
  Qed.
  Lemma between_joining d e duration d' e' res x : between_windows enc mac_fn d e duration = (d', e', res) -> joining d -> res = AOk x -> d' = d.
  Proof.
    unfold between_windows. intros H J X. destruct (ad_classc d).
    - destruct (rxc_config (ad_mac d)) as [rf| |]; try (injection H as <- _ _; reflexivity).
      destruct (call e (ASetupRx rf None)) as [e1 ok]. destruct ok; cbn [negb] in H; [|injection H as <- _ _; reflexivity].
      eapply rxc_until_joining; eassumption.
    - destruct (call e ALowPower) as [e1 ok]. destruct ok; cbn [negb] in H; injection H as <- _ _; reflexivity.
  Qed.

  Lemma rx_downlink_joining d e wd rx1 rx2 d' e' r : rx_downlink enc mac_fn d e true wd rx1 rx2 = (d', e', AOk r) -> joining d ->
    r = RJoinSuccess \/ r = RNoJoinAccept.
  Proof.
    unfold rx_downlink. intros H J. destruct (_ <? _); [discriminate H|].
    destruct (between_windows enc mac_fn d e _) as [[d1 e1] b1] eqn:B1. destruct b1; try discriminate H.
    pose proof (between_joining _ _ _ _ _ _ _ B1 J eq_refl) as ->.
    destruct (call e1 (ASetupRx rx1 (Some (ad_lead d)))) as [e2 ok]. destruct ok; cbn [negb] in H; [|discriminate H].
    destruct (rx_listen enc mac_fn d e2 rx1) as [[d2 e3] l1] eqn:L1. destruct (rx_listen_joining _ _ _ _ _ _ L1 J) as [J2 S2].
    destruct l1 as [[r1|]| | | |]; try discriminate H.
    - injection H as _ _ <-. left. apply S2. reflexivity.
    - specialize (J2 eq_refl). destruct (_ <? _); [discriminate H|].
      destruct (between_windows enc mac_fn d2 e3 _) as [[d3 e4] b2] eqn:B2. destruct b2; try discriminate H.
      pose proof (between_joining _ _ _ _ _ _ _ B2 J2 eq_refl) as ->.
      destruct (call e4 (ASetupRx rx2 (Some (ad_lead d)))) as [e5 ok2]. destruct ok2; cbn [negb] in H; [|discriminate H].
      destruct (rx_listen enc mac_fn d2 e5 rx2) as [[d4 e6] l2] eqn:L2. destruct (rx_listen_joining _ _ _ _ _ _ L2 J2) as [J4 S4].
      destruct l2 as [[r2|]| | | |]; try discriminate H.
      + injection H as _ _ <-. left. apply S4. reflexivity.
      + destruct (J4 eq_refl) as [n [c J5]]. unfold mac_rx2_complete in H. rewrite J5 in H. injection H as _ _ <-. right. reflexivity.
  Qed.

  Theorem adev_join_never_panics d e c draws d' e' res : adev_join enc mac_fn d e c draws = (d', e', res) -> dok d -> ad_lead d <= 100 -> res <> APanic.
  Proof.
    unfold adev_join. intros H Hok HL. pose proof (join_never_panics mac_fn (ad_mac d) c draws Hok mac_len) as NJ.
    destruct (join_otaa mac_fn (ad_mac d) c draws) as [o| |] eqn:JO; try contradiction; [|injection H as _ _ <-; discriminate].
    destruct (join_keeps_invariant _ _ _ _ Hok JO) as [Hok0 [n J0]].
    destruct (call e (ATx (to_tx o) (to_frame o))) as [e1 ok]. destruct ok; cbn [negb] in H; [|injection H as _ _ <-; discriminate].
    destruct (rx_downlink enc mac_fn (with_mac d (to_mac o)) (tr e1 ATimerReset) true 100 (to_rx1 o) (to_rx2 o)) as [[d1 e2] r] eqn:RD.
    destruct (rx_downlink_np _ _ _ _ _ _ _ _ _ RD Hok0 HL) as [_ [NP _]].
    destruct r as [resp|x| | |]; try (injection H as _ _ <-; discriminate); try contradiction.
    destruct (rx_downlink_joining _ _ _ _ _ _ _ _ RD (ex_intro _ n (ex_intro _ c J0))) as [-> | ->]; injection H as _ _ <-; discriminate.
  Qed.
End NoPanic.
