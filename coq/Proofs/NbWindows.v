(* Proofs/NbWindows.v -- C10 through nb_device: the receive procedure after any successful uplink, when the radio accepts every request
   and the application delivers the timeouts it is asked for: RX1 is requested with the window computed when the uplink was built at
   RECEIVE_DELAY1 + (end of TX) + offset, closed after the window duration, RX2 requested one second after RX1 with the RX2 window computed
   then, and the uplink concluded when RX2 closes. *)
From Coq Require Import NArith ZArith List Bool Lia.
From LoraV Require Import Base.Bytes Model.Frame Model.Region Model.Mac Model.NbDev.
Import ListNotations.
Local Open Scope N_scope.

Section NbWindows.
  Variable enc mac_fn : list N -> list N -> list N.

  Definition nquiet (e : nenv) : Prop := n_fault e = None.
  Lemma ncall_quiet e what : n_fault e = None ->
    ncall_radio e what = ({| n_calls := n_calls e + 1; n_fault := None; n_trace := what :: n_trace e |}, true).
  Proof. intros H. unfold ncall_radio, nfaulty. rewrite H. reflexivity. Qed.

  Definition t_rx1 (m : mac) (ms : N) : N := Z.to_N ((Z.of_N (cf_rx1_delay (m_cfg m)) + Z.of_N ms + rx_offset) mod 4294967296).

  Theorem nb_class_a_window_schedule m0 e data fport confirmed draws o ms a2 a3 a4 a5 :
    nquiet e ->
    send enc mac_fn m0 data fport confirmed draws = Val (SendOk o) ->
    let m := to_mac o in
    let t1 := t_rx1 m ms in
    let '(s1, m1, e1, r1) := handle_event enc mac_fn NIdle m0 e (NSend data fport confirmed draws) (RaTxDone ms) in
    let '(s2, m2, e2, r2) := handle_event enc mac_fn s1 m1 e1 NTimeout a2 in
    let '(s3, m3, e3, r3) := handle_event enc mac_fn s2 m2 e2 NTimeout a3 in
    let '(s4, m4, e4, r4) := handle_event enc mac_fn s3 m3 e3 NTimeout a4 in
    let '(s5, m5, e5, r5) := handle_event enc mac_fn s4 m4 e4 NTimeout a5 in
    [r1; r2; r3; r4] = [NrTimeoutRequest t1; NrTimeoutRequest (t1 + 100); NrTimeoutRequest (t1 + 1000); NrTimeoutRequest (t1 + 1000 + 100)] /\
    rev (n_trace e5) = rev (n_trace e) ++ [NcTx (to_tx o) (to_frame o); NcRxRequest (to_rx1 o); NcCancelRx; NcRxRequest (to_rx2 o); NcCancelRx] /\
    s5 = NIdle /\ (m5, r5) = (let '(m', r) := mac_rx2_complete m in (m', resp_of_mac r)) /\
    m1 = m /\ m4 = m.
  Proof.
    intros Q SD. cbv zeta. cbn [handle_event]. rewrite SD. unfold idle_tx.
    rewrite (ncall_quiet _ _ Q). cbn [negb]. unfold rxwindow1.
    cbn [handle_event]. rewrite ncall_quiet by reflexivity. cbn [negb].
    unfold get_rx_delay.
    assert (L1 : (cf_rx1_delay (m_cfg (to_mac o)) + 1000 <? cf_rx1_delay (m_cfg (to_mac o))) = false) by (apply N.ltb_ge; lia).
    rewrite L1.
    replace (cf_rx1_delay (m_cfg (to_mac o)) + 1000 - cf_rx1_delay (m_cfg (to_mac o))) with 1000 by lia.
    change (rx_duration <? 1000) with true. cbn iota.
    cbn [handle_event]. rewrite ncall_quiet by reflexivity. cbn [negb]. unfold get_rx_delay. rewrite L1.
    replace (cf_rx1_delay (m_cfg (to_mac o)) + 1000 - cf_rx1_delay (m_cfg (to_mac o))) with 1000 by lia.
    cbn [handle_event]. rewrite ncall_quiet by reflexivity. cbn [negb].
    cbn [handle_event]. rewrite ncall_quiet by reflexivity. cbn [negb].
    destruct (mac_rx2_complete (to_mac o)) as [m' r].
    cbn [n_trace rev app]. rewrite <- !app_assoc. cbn [app]. unfold t_rx1, rx_duration.
    repeat split; reflexivity.
  Qed.
End NbWindows.
