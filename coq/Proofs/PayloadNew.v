(* C03: the public payload constructors.  A view returned by `new` is exactly as long as the accessors need: every accessor index
   is inside it (no accessor of a successfully constructed view can panic), and the McGroupStatusAns view carries exactly one
   whole item per bit of AnsGroupMask. *)
From Coq Require Import List NArith Arith Lia Bool.
From LoraV Require Import Base.Bytes Model.MacCmd.
Import ListNotations.
Local Open Scope nat_scope.

Theorem fixed_new_view len data v : fixed_new len data = Some v -> length v = len /\ v = data.
Proof.
  unfold fixed_new. destruct (Nat.eqb (length data) len) eqn:E; [|discriminate]. intros H. injection H as <-.
  apply Nat.eqb_eq in E. split; [exact E|reflexivity].
Qed.
Theorem fixed_new_refuses_other_lengths len data : length data <> len -> fixed_new len data = None.
Proof. intros H. unfold fixed_new. apply Nat.eqb_neq in H. rewrite H. reflexivity. Qed.

Lemma items_count_fuel : forall k fuel d, length d = k * 5 -> k < fuel ->
  length (mcstatus_items fuel d) = k /\ Forall (fun it => length it = 5) (mcstatus_items fuel d).
Proof.
  induction k as [|k IH]; intros fuel d H Hf; (destruct fuel as [|f]; [lia|]); cbn [mcstatus_items].
  - destruct d; [|discriminate]. cbn. split; [reflexivity|constructor].
  - destruct (Nat.ltb (length d) 5) eqn:E; [apply Nat.ltb_lt in E; lia|].
    destruct (IH f (skipn 5 d)) as [A B]; [rewrite skipn_length; lia|lia|].
    cbn [length]. split; [rewrite A; reflexivity|]. constructor; [apply firstn_length_le; lia|exact B].
Qed.
Lemma items_count k d : length d = k * 5 -> length (mcstatus_items (S k) d) = k /\ Forall (fun it => length it = 5) (mcstatus_items (S k) d).
Proof. intros H. apply items_count_fuel; [exact H|lia]. Qed.

Theorem mcstatus_new_view data v : mcstatus_new data = Some v ->
  (1 <= length v) /\ length v = 1 + popcount4 4 (mcstatus_mask v) * 5 /\ nthN v 0 = nthN data 0 /\
  v = firstn (1 + popcount4 4 (mcstatus_mask v) * 5) data /\
  length (mcstatus_items (S (popcount4 4 (mcstatus_mask v))) (skipn 1 v)) = popcount4 4 (mcstatus_mask v) /\
  Forall (fun it => length it = 5) (mcstatus_items (S (popcount4 4 (mcstatus_mask v))) (skipn 1 v)).
Proof.
  unfold mcstatus_new. destruct data as [|b0 rest]; [discriminate|].
  remember (1 + popcount4 4 (N.land b0 15%N) * 5) as need eqn:Hn.
  destruct (Nat.ltb (length (b0 :: rest)) need) eqn:E; [discriminate|]. intros H. injection H as <-.
  apply Nat.ltb_ge in E.
  assert (P : 1 <= need) by lia.
  destruct need as [|n]; [lia|].
  assert (M : mcstatus_mask (firstn (S n) (b0 :: rest)) = N.land b0 15%N) by reflexivity.
  rewrite M, <- Hn.
  assert (L : length (firstn (S n) (b0 :: rest)) = S n) by (apply firstn_length_le; exact E).
  split; [rewrite L; lia|]. split; [exact L|]. split; [reflexivity|]. split; [reflexivity|].
  apply items_count. rewrite skipn_length, L. lia.
Qed.

Theorem mcstatus_new_refuses_short data : (length data < 1 + popcount4 4 (N.land (nthN data 0) 0x0f%N) * 5)%nat -> mcstatus_new data = None.
Proof.
  intros H. unfold mcstatus_new. destruct data as [|b0 rest]; [reflexivity|].
  change (nthN (b0 :: rest) 0) with b0 in H. apply Nat.ltb_lt in H. rewrite H. reflexivity.
Qed.

(* the constructor and the stream iterator agree on how long the command is *)
Theorem mcstatus_new_matches_var_len data v : mcstatus_new data = Some v -> length v = var_len 1 data.
Proof.
  intros H. destruct (mcstatus_new_view data v H) as (_ & L & E0 & _). rewrite L. unfold var_len, mcstatus_mask. rewrite E0. reflexivity.
Qed.

Theorem chmask_new_view n data v : chmask_new n data = Some v -> length v = n /\ v = firstn n data.
Proof.
  unfold chmask_new. destruct (Nat.ltb (length data) n) eqn:E; [discriminate|]. intros H. injection H as <-.
  apply Nat.ltb_ge in E. split; [apply firstn_length_le; exact E|reflexivity].
Qed.
Theorem chmask_new_total n data : (n <= length data -> exists v, chmask_new n data = Some v) /\ (length data < n -> chmask_new n data = None).
Proof.
  unfold chmask_new. split; intros H.
  - destruct (Nat.ltb (length data) n) eqn:E; [apply Nat.ltb_lt in E; lia|eexists; reflexivity].
  - apply Nat.ltb_lt in H. rewrite H. reflexivity.
Qed.
