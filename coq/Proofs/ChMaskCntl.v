(* LinkADRReq with an RFU ChMaskCntl: the 16-channel (dynamic) plans define 0 and 6 only (RP002); every other value is
   answered without the channel-mask ACK and changes nothing -- alone, or anywhere inside a block of LinkADRReqs. *)
From Coq Require Import List NArith ZArith Lia Bool.
From LoraV Require Import Base.Bytes Model.Frame Model.Region Model.Mac.
Import ListNotations.
Open Scope N_scope.

Lemma dyn_rfu_ctl g m ctl lo hi dp : rg_plan g = PDyn dp -> ctl <> 0 -> ctl <> 6 ->
  region_mask_update g m ctl lo hi = Val None.
Proof.
  intros Hp H0 H6. unfold region_mask_update. rewrite Hp. unfold dyn_mask_update.
  destruct (ctl =? 0) eqn:E0; [apply N.eqb_eq in E0; contradiction|].
  destruct (ctl =? 6) eqn:E6; [apply N.eqb_eq in E6; contradiction|]. reflexivity.
Qed.

Lemma bits_no_mask_ack b1 b2 : N.land (bitsN false b1 b2) 1 = 0.
Proof. destruct b1, b2; reflexivity. Qed.

Section Rfu.
  Variable snr : Z.

  (* the last request of a block: if the block is already poisoned (h_known = false) or this request's ChMaskCntl is RFU,
     every request of the block gets the same answer without the channel-mask ACK, and nothing is applied *)
  Theorem poisoned_block_rejected h p h' :
    (h_known h = false \/
     region_mask_update (h_rg h) (h_mask h) (N.land (N.shiftr (nthN p 3) 4) 7) (nthN p 1) (nthN p 2) = Val None) ->
    handle_cmd snr h 0x03 p false = Val h' ->
    exists ans, N.land ans 1 = 0 /\
      (h_pending h', h_full h') = fold_left (fun acc _ => push_answer acc [0x03; ans]) (seq 0 (S (h_nadr h))) (h_pf h) /\
      h_cf h' = h_cf h /\ h_rg h' = h_rg h.
  Proof.
    intros Hbad. unfold handle_cmd. cbv beta iota zeta.
    destruct (region_mask_update (h_rg h) (h_mask h) (N.land (N.shiftr (nthN p 3) 4) 7) (nthN p 1) (nthN p 2)) as [mo| |] eqn:Eu;
      try (intros H; discriminate).
    assert (Hk : (let '(_, known) := match mo with Some m' => (m', h_known h) | None => (h_mask h, false) end in known) = false).
    { destruct mo as [m'|]; [|reflexivity]. destruct Hbad as [Hb|Hb]; [exact Hb|discriminate]. }
    destruct (match mo with Some m' => (m', h_known h) | None => (h_mask h, false) end) as [msk known]. cbv beta iota in Hk. subst known.
    remember (if N.shiftr (nthN p 0) 4 =? 15 then Some (cf_data_rate (h_cf h)) else match uplink_dr (h_rg h) (N.shiftr (nthN p 0) 4) with Some _ => Some (N.shiftr (nthN p 0) 4) | None => None end) as dr eqn:Hdr.
    remember (if N.land (nthN p 0) 15 =? 15 then Some (cf_tx_power (h_cf h)) else match tx_power_adjust (rg_id (h_rg h)) (N.land (nthN p 0) 15) with Some x => Some (Some x) | None => None end) as pw eqn:Hpw.
    destruct (region_mask_validate (h_rg h) msk dr) as [vok| |]; try (intros H; discriminate).
    cbn [andb].
    intros H; injection H as <-; cbn [h_pending h_full h_cf h_rg h_nadr h_known].
    rewrite <- surjective_pairing.
    eexists. split; [apply bits_no_mask_ack|]. split; [reflexivity|]. destruct dr, pw; split; reflexivity.
  Qed.

  (* a request inside a block (another LinkADRReq follows) with an RFU ChMaskCntl poisons the block *)
  Theorem rfu_inside_block_poisons h p h' :
    region_mask_update (h_rg h) (h_mask h) (N.land (N.shiftr (nthN p 3) 4) 7) (nthN p 1) (nthN p 2) = Val None ->
    handle_cmd snr h 0x03 p true = Val h' ->
    h_known h' = false /\ h_cf h' = h_cf h /\ h_rg h' = h_rg h /\ h_pf h' = h_pf h /\ h_nadr h' = S (h_nadr h).
  Proof.
    intros Hu. unfold handle_cmd. cbv beta iota zeta. rewrite Hu. intros H. injection H as <-. repeat split; reflexivity.
  Qed.

  (* poison persists through the block *)
  Theorem poison_persists h p h' :
    h_known h = false -> handle_cmd snr h 0x03 p true = Val h' -> h_known h' = false.
  Proof.
    intros Hk. unfold handle_cmd. cbv beta iota zeta.
    destruct (region_mask_update (h_rg h) (h_mask h) (N.land (N.shiftr (nthN p 3) 4) 7) (nthN p 1) (nthN p 2)) as [mo| |];
      try (intros H; discriminate).
    destruct mo as [m'|]; intros H; injection H as <-; cbn [h_known]; [exact Hk|reflexivity].
  Qed.

  (* the 16-channel plans: everything but ChMaskCntl 0 and 6 is RFU *)
  Theorem dynamic_plan_rejects_rfu_chmaskcntl h p h' dp :
    rg_plan (h_rg h) = PDyn dp ->
    N.land (N.shiftr (nthN p 3) 4) 7 <> 0 -> N.land (N.shiftr (nthN p 3) 4) 7 <> 6 ->
    handle_cmd snr h 0x03 p false = Val h' ->
    exists ans, N.land ans 1 = 0 /\
      (h_pending h', h_full h') = fold_left (fun acc _ => push_answer acc [0x03; ans]) (seq 0 (S (h_nadr h))) (h_pf h) /\
      h_cf h' = h_cf h /\ h_rg h' = h_rg h.
  Proof.
    intros Hp H0 H6. apply poisoned_block_rejected. right. exact (dyn_rfu_ctl _ _ _ _ _ dp Hp H0 H6).
  Qed.
End Rfu.

(* "15 = keep" in a later LinkADRReq refers to the configuration in force at that point of the command sequence: whatever request h1 was
   reached by (an earlier accepted block, say), a DevStatusReq in between, and a fully acknowledged LinkADRReq with DataRate = 15 /
   TXPower = 15 leave the data rate / power of h1 in force *)
From LoraV Require Import Proofs.CmdProofs.
Theorem linkadr_keep_after_other_request snr h1 h2 h3 p :
  handle_cmd snr h1 0x06 [] false = Val h2 ->
  handle_cmd snr h2 0x03 p false = Val h3 ->
  (N.shiftr (nthN p 0) 4 = 15 -> cf_data_rate (h_cf h3) = cf_data_rate (h_cf h1)) /\
  (N.land (nthN p 0) 15 = 15 -> cf_tx_power (h_cf h3) = cf_tx_power (h_cf h1)).
Proof.
  intros H1 H2.
  assert (E : h_cf h2 = h_cf h1) by (unfold handle_cmd in H1; cbv beta iota zeta in H1; injection H1 as <-; reflexivity).
  destruct (linkadr_atomic snr h2 p h3 H2) as (ans & _ & _ & Hn & Hy & _).
  destruct (N.eq_dec ans 7) as [->|Hne].
  - destruct (Hy eq_refl) as (d & pw & m & Hcf & _ & Hd & Hp). rewrite Hcf. cbn [set_cfg cf_data_rate cf_tx_power]. split.
    + intros K. destruct Hd as [[_ ->]|[Hx _]]; [rewrite E; reflexivity|contradiction].
    + intros K. destruct Hp as [[_ ->]|[Hx _]]; [rewrite E; reflexivity|contradiction].
  - destruct (Hn Hne) as [Hcf _]. rewrite Hcf, E. split; reflexivity.
Qed.
