From LoraV Require Import Base.Tactics Model.Toa Model.Ldro Spec.LdroSpec Proofs.ToaProofs.

Lemma drv_ldro_spec chip sf bw : 5 <= sf <= 12 -> 0 <= bw <= 9 ->
  drv_ldro chip sf bw = (if ldro_required sf (bw_hz bw) then 1 else 0).
Proof. intros Hs Hb. unfold drv_ldro, ldro_required. rewrite ldro_spec by assumption. reflexivity. Qed.

Lemma chip_bit_spec chip sf bw : 5 <= sf <= 12 -> 0 <= bw <= 9 ->
  chip_bit chip sf bw = (if ldro_required sf (bw_hz bw) then 1 else 0).
Proof.
  intros Hs Hb. unfold chip_bit. rewrite drv_ldro_spec by assumption.
  destruct (ldro_required _ _), chip as [|[|[]|]|]; reflexivity.
Qed.

Lemma all_agree chip chip' sf bw :
  drv_ldro chip sf bw = drv_ldro chip' sf bw /\ drv_ldro chip sf bw = (if ldro sf bw then 1 else 0).
Proof. split; reflexivity. Qed.

(* the LoRaWAN data-rate ends and the narrow-band boundary pairs *)
Lemma ldro_boundary_pairs :
  ldro 11 7 = true /\ ldro 12 7 = true /\ ldro 12 8 = true /\ ldro 10 7 = false /\ ldro 11 8 = false /\
  ldro 12 9 = false /\ ldro 10 6 = true /\ ldro 9 4 = true /\ ldro 9 6 = false.
Proof. vm_compute. repeat split. Qed.
