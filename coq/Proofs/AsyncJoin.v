(* Proofs/AsyncJoin.v -- C11 through async_device: a join attempt during which the radio delivers no authentic JoinAccept (whatever else it
   delivers: timeouts, errors, arbitrary frames in RX1 / RX2 / Class C reception, a fault at any call) leaves the device exactly in the
   "joining" state the request put it in -- never joined -- and never reports JoinSuccess. *)
From Coq Require Import NArith ZArith List Bool Lia.
From LoraV Require Import Base.Bytes Model.Frame Model.Region Model.Mac Model.AsyncDev.
Import ListNotations.
Local Open Scope N_scope.

Section AJoin.
  Variable enc mac_fn : list N -> list N -> list N.

  Definition not_accept (c : credentials) (f : list N) : Prop :=
    exists er buf, ja_check_mic_and_decrypt enc mac_fn (firstn 256 f) (cr_appkey c) = (Err er, buf).
  Definition no_accept (c : credentials) (e : env) : Prop := forall f, In (SvX f) (e_script e) -> not_accept c f.
  Definition joining_as (n : N) (c : credentials) (d : adev) : Prop := m_state (ad_mac d) = Otaa n c.

  Lemma na_call c e w e1 ok : call e w = (e1, ok) -> no_accept c e -> no_accept c e1.
  Proof. unfold call, tr, no_accept. destruct (faulty e); intros H; injection H as <- _; cbn [e_script]; auto. Qed.
  Lemma na_tr c e t : no_accept c e -> no_accept c (tr e t).
  Proof. unfold tr, no_accept. cbn [e_script]. auto. Qed.
  Lemma na_pop c e ev e1 : pop e = (ev, e1) -> no_accept c e ->
    no_accept c e1 /\ (forall f, ev = Some (SvX f) -> not_accept c f).
  Proof.
    unfold pop, no_accept. destruct (e_script e) as [|x r] eqn:Es; intros H; injection H as <- <-.
    - rewrite Es. split; [auto|discriminate].
    - cbn [e_script]. intros Hn. split; [intros f Hin; apply Hn; right; exact Hin|]. intros f Hx. injection Hx as ->. apply Hn. left. reflexivity.
  Qed.
  Lemma with_mac_same d : with_mac d (ad_mac d) = d.
  Proof. destruct d; reflexivity. Qed.

  Lemma window_complete_na c d e e1 w : window_complete d e = (e1, w) -> no_accept c e -> no_accept c e1.
  Proof.
    unfold window_complete. intros H Hn. destruct (ad_classc d).
    - destruct (rxc_config (ad_mac d)) as [rf| |]; try (injection H as <- _; exact Hn).
      destruct (call e (ASetupRx rf None)) as [e2 ok] eqn:Ec. injection H as <- _. exact (na_call _ _ _ _ _ Ec Hn).
    - destruct (call e ALowPower) as [e2 ok] eqn:Ec. injection H as <- _. exact (na_call _ _ _ _ _ Ec Hn).
  Qed.

  Lemma rx_listen_rej n c d e rf d' e' res : rx_listen enc mac_fn d e rf = (d', e', res) -> joining_as n c d -> no_accept c e ->
    d' = d /\ no_accept c e' /\ (forall r, res <> AOk (Some r)).
  Proof.
    unfold rx_listen. intros H J Hn. destruct (call e ARxSingle) as [e1 ok] eqn:Ec. pose proof (na_call _ _ _ _ _ Ec Hn) as N1.
    destruct ok; cbn [negb] in H; [|injection H as <- <- <-; split; [reflexivity|split; [exact N1|discriminate]]].
    destruct (pop e1) as [ev e2] eqn:Ep. destruct (na_pop _ _ _ _ Ep N1) as [N2 NF].
    assert (DFLT : forall (x : adev * env * ares (option response)),
               x = (let '(e3, w) := window_complete d e2 in
                    (d, e3, match w with AOk _ => AOk None | AErr x => AErr x | APanic => APanic | AHang => AHang | AParked => AParked end)) ->
               x = (d', e', res) -> d' = d /\ no_accept c e' /\ (forall r, res <> AOk (Some r))).
    { intros x -> HH. destruct (window_complete d e2) as [e3 w] eqn:Ew. injection HH as <- <- <-.
      split; [reflexivity|]. split; [exact (window_complete_na _ _ _ _ _ Ew N2)|]. intros r. destruct w; discriminate. }
    destruct ev as [[| |f|]|]; try exact (DFLT _ eq_refl H).
    - injection H as <- <- <-. split; [reflexivity|]. split; [apply na_tr; exact N2|discriminate].
    - destruct (NF f eq_refl) as [er [buf E]]. unfold mac_handle_rx in H. unfold joining_as in J. rewrite J in H.
      unfold otaa_handle_rx in H. rewrite E in H. cbn [mo_mac mo_resp hmr] in H. rewrite with_mac_same in H.
      destruct (window_complete d e2) as [e3 w] eqn:Ew. injection H as <- <- <-.
      split; [reflexivity|]. split; [exact (window_complete_na _ _ _ _ _ Ew N2)|]. intros r. destruct w; discriminate.
  Qed.

  Lemma rxc_until_rej n c rf duration : forall fuel d e resp d' e' res, rxc_until enc mac_fn fuel d e rf duration resp = (d', e', res) ->
    joining_as n c d -> no_accept c e -> d' = d /\ no_accept c e'.
  Proof.
    induction fuel as [|k IH]; intros d e resp d' e' res H J Hn; cbn [rxc_until] in H; [injection H as <- <- _; split; [reflexivity|exact Hn]|].
    destruct (pop e) as [ev e1] eqn:Ep. destruct (na_pop _ _ _ _ Ep Hn) as [N1 _].
    destruct ev as [[| |f|]|]; try (injection H as <- <- _; split; [reflexivity|apply na_tr, na_tr; exact N1]).
    - destruct (call e1 ARxCont) as [e2 ok] eqn:Ec. pose proof (na_call _ _ _ _ _ Ec N1) as N2.
      injection H as <- <- _. split; [reflexivity|]. apply na_tr. destruct ok; [apply na_tr; exact N2|exact N2].
    - destruct (call e1 ARxCont) as [e2 ok] eqn:Ec. pose proof (na_call _ _ _ _ _ Ec N1) as N2.
      destruct ok; cbn [negb] in H; [|injection H as <- <- _; split; [reflexivity|apply na_tr; exact N2]].
      unfold mac_handle_rx in H. unfold joining_as in J. rewrite J in H. injection H as <- <- _. split; [reflexivity|exact N2].
  Qed.

  Lemma between_rej n c d e duration d' e' res : between_windows enc mac_fn d e duration = (d', e', res) ->
    joining_as n c d -> no_accept c e -> d' = d /\ no_accept c e'.
  Proof.
    unfold between_windows. intros H J Hn. destruct (ad_classc d).
    - destruct (rxc_config (ad_mac d)) as [rf| |]; try (injection H as <- <- _; split; [reflexivity|exact Hn]).
      destruct (call e (ASetupRx rf None)) as [e1 ok] eqn:Ec. pose proof (na_call _ _ _ _ _ Ec Hn) as N1.
      destruct ok; cbn [negb] in H; [|injection H as <- <- _; split; [reflexivity|exact N1]].
      exact (rxc_until_rej _ _ _ _ _ _ _ _ _ _ _ H J N1).
    - destruct (call e ALowPower) as [e1 ok] eqn:Ec. pose proof (na_call _ _ _ _ _ Ec Hn) as N1.
      destruct ok; cbn [negb] in H; injection H as <- <- _; (split; [reflexivity|]); [apply na_tr; exact N1|exact N1].
  Qed.

  Lemma rx_downlink_rej n c d e join wd rx1 rx2 d' e' res : rx_downlink enc mac_fn d e join wd rx1 rx2 = (d', e', res) ->
    joining_as n c d -> no_accept c e -> d' = d /\ no_accept c e' /\ res <> AOk RJoinSuccess.
  Proof.
    unfold rx_downlink. intros H J Hn.
    destruct (_ <? ad_lead d); [injection H as <- <- <-; split; [reflexivity|split; [exact Hn|discriminate]]|].
    destruct (between_windows enc mac_fn d e _) as [[d1 e1] b1] eqn:B1. destruct (between_rej _ _ _ _ _ _ _ _ B1 J Hn) as [-> N1].
    destruct b1 as [x1| | | |]; try (injection H as <- <- <-; split; [reflexivity|split; [exact N1|discriminate]]).
    destruct (call e1 (ASetupRx rx1 (Some (ad_lead d)))) as [e2 ok] eqn:Ec. pose proof (na_call _ _ _ _ _ Ec N1) as N2.
    destruct ok; cbn [negb] in H; [|injection H as <- <- <-; split; [reflexivity|split; [exact N2|discriminate]]].
    destruct (rx_listen enc mac_fn d e2 rx1) as [[d2 e3] l1] eqn:L1. destruct (rx_listen_rej _ _ _ _ _ _ _ _ L1 J N2) as [-> [N3 S3]].
    destruct l1 as [[r|]| | | |]; try (injection H as <- <- <-; split; [reflexivity|split; [exact N3|discriminate]]).
    { exfalso. exact (S3 r eq_refl). }
    destruct (_ <? ad_lead d); [injection H as <- <- <-; split; [reflexivity|split; [exact N3|discriminate]]|].
    destruct (between_windows enc mac_fn d e3 _) as [[d3 e4] b2] eqn:B2. destruct (between_rej _ _ _ _ _ _ _ _ B2 J N3) as [-> N4].
    destruct b2 as [x2| | | |]; try (injection H as <- <- <-; split; [reflexivity|split; [exact N4|discriminate]]).
    destruct (call e4 (ASetupRx rx2 (Some (ad_lead d)))) as [e5 ok2] eqn:Ec2. pose proof (na_call _ _ _ _ _ Ec2 N4) as N5.
    destruct ok2; cbn [negb] in H; [|injection H as <- <- <-; split; [reflexivity|split; [exact N5|discriminate]]].
    destruct (rx_listen enc mac_fn d e5 rx2) as [[d4 e6] l2] eqn:L2. destruct (rx_listen_rej _ _ _ _ _ _ _ _ L2 J N5) as [-> [N6 S6]].
    destruct l2 as [[r|]| | | |]; try (injection H as <- <- <-; split; [reflexivity|split; [exact N6|discriminate]]).
    { exfalso. exact (S6 r eq_refl). }
    unfold mac_rx2_complete in H. unfold joining_as in J. rewrite J in H. rewrite with_mac_same in H.
    injection H as <- <- <-. split; [reflexivity|split; [exact N6|discriminate]].
  Qed.

  (* THE THEOREM: the request is built (o), then whatever happens on the air, without an authentic JoinAccept the device stays "joining" *)
  Theorem async_join_needs_authentic_accept d e c draws o d' e' res :
    join_otaa mac_fn (ad_mac d) c draws = Val o ->
    (exists n, m_state (to_mac o) = Otaa n c) ->
    no_accept c e ->
    adev_join enc mac_fn d e c draws = (d', e', res) ->
    d' = with_mac d (to_mac o) /\ res <> AOk RJoinSuccess /\ (forall s, m_state (ad_mac d') <> Joined s).
  Proof.
    intros JO [n J0] Hn H. unfold adev_join in H. rewrite JO in H.
    assert (NJ : forall s, m_state (ad_mac (with_mac d (to_mac o))) <> Joined s) by (intros s; cbn [with_mac ad_mac]; rewrite J0; discriminate).
    destruct (call e (ATx (to_tx o) (to_frame o))) as [e1 ok] eqn:Ec. pose proof (na_call _ _ _ _ _ Ec Hn) as N1.
    destruct ok; cbn [negb] in H; [|injection H as <- <- <-; split; [reflexivity|split; [discriminate|exact NJ]]].
    destruct (rx_downlink enc mac_fn (with_mac d (to_mac o)) (tr e1 ATimerReset) true 100 (to_rx1 o) (to_rx2 o)) as [[d1 e2] r] eqn:RD.
    destruct (rx_downlink_rej n c _ _ _ _ _ _ _ _ _ RD J0 (na_tr _ _ _ N1)) as [-> [_ NS]].
    destruct r as [resp|x| | |]; try (injection H as <- <- <-; split; [reflexivity|split; [discriminate|exact NJ]]).
    destruct resp; injection H as <- <- <-; (split; [reflexivity|split; [|exact NJ]]); try discriminate. exact NS.
  Qed.
End AJoin.
