(* Proofs/CryptoProofs.v -- length facts of the Gallina AES / CMAC (the only facts about the
   ciphers that the frame theorems assume), so those theorems apply to the executable instantiation. *)
From Coq Require Import NArith List Bool Lia Arith.
From LoraV Require Import Base.Bytes Crypto.AES Crypto.CMAC Proofs.BytesProofs.
Import ListNotations.
Local Open Scope nat_scope.

Lemma key16_length k : length (key16 k) = 16.
Proof. unfold key16. rewrite firstn_length, app_length, repeat_length. lia. Qed.

Lemma key16_id k : length k = 16 -> key16 k = k.
Proof.
  intros H. unfold key16. rewrite firstn_app, H, Nat.sub_diag, firstn_O, app_nil_r.
  apply firstn_all2. lia.
Qed.

Lemma next_round_key_length rk rc : length rk = 16 -> length (next_round_key rk rc) = 16.
Proof.
  intros H. unfold next_round_key. rewrite !app_length, !xor_list_length, !firstn_length, !skipn_length.
  cbn [length]. lia.
Qed.

Lemma expand_lengths rcs : forall rk, length rk = 16 -> Forall (fun k => length k = 16) (expand rk rcs).
Proof.
  induction rcs as [|rc rcs IH]; intros rk H; cbn [expand].
  - constructor; [exact H | constructor].
  - constructor; [exact H|]. apply IH. apply next_round_key_length. exact H.
Qed.

Lemma expand_length_count rcs rk : length (expand rk rcs) = S (length rcs).
Proof. revert rk; induction rcs as [|rc rcs IH]; intros rk; cbn [expand length]; [reflexivity | now rewrite IH]. Qed.

Lemma shift_rows_length s : length (shift_rows s) = 16.
Proof. unfold shift_rows. now rewrite map_length. Qed.
Lemma inv_shift_rows_length s : length (inv_shift_rows s) = 16.
Proof. unfold inv_shift_rows. now rewrite map_length. Qed.

Lemma last_in_forall (P : list N -> Prop) ks : ks <> [] -> Forall P ks -> P (last ks []).
Proof.
  intros Hne HF. induction ks as [|k ks IH]; [contradiction|].
  destruct ks as [|k' ks'].
  - cbn. now inversion HF.
  - change (last (k :: k' :: ks') []) with (last (k' :: ks') []). apply IH; [discriminate | now inversion HF].
Qed.

Lemma aes_encrypt_length k b : length k = 16 -> length (aes_encrypt k b) = 16.
Proof.
  intros Hk. unfold aes_encrypt, round_keys.
  pose proof (expand_lengths rcon k Hk) as HF. pose proof (expand_length_count rcon k) as Hc.
  destruct (expand k rcon) as [|k0 ks]; [cbn in Hc; discriminate|].
  unfold enc_last. rewrite xor_list_length, shift_rows_length.
  assert (Hl : length (last ks []) = 16).
  { apply (last_in_forall (fun x => length x = 16)).
    - destruct ks; [cbn in Hc; discriminate | discriminate].
    - now inversion HF. }
  rewrite Hl. reflexivity.
Qed.

Lemma rev_forall (P : list N -> Prop) l : Forall P l -> Forall P (rev l).
Proof. intros H. apply Forall_forall. intros x Hx. rewrite <- in_rev in Hx. rewrite Forall_forall in H. now apply H. Qed.

Lemma aes_decrypt_length k b : length k = 16 -> length (aes_decrypt k b) = 16.
Proof.
  intros Hk. unfold aes_decrypt, round_keys.
  pose proof (rev_forall _ _ (expand_lengths rcon k Hk)) as HF.
  pose proof (expand_length_count rcon k) as Hc. rewrite <- rev_length in Hc.
  destruct (rev (expand k rcon)) as [|k10 ks]; [cbn in Hc; discriminate|].
  rewrite xor_list_length, map_length, inv_shift_rows_length.
  assert (Hl : length (last ks []) = 16).
  { apply (last_in_forall (fun x => length x = 16)).
    - destruct ks; [cbn in Hc; discriminate | discriminate].
    - now inversion HF. }
  rewrite Hl. reflexivity.
Qed.

Lemma cbc_length (E : list N -> list N) : (forall b, length (E b) = 16) ->
  forall fuel x m, length x = 16 -> length (cbc E fuel x m) = 16.
Proof.
  intros HE. induction fuel as [|f IH]; intros x m Hx; cbn [cbc]; [exact Hx|].
  destruct (Nat.leb (length m) 16); [apply HE | apply IH, HE].
Qed.

Lemma aes_cmac_length k m : length k = 16 -> length (aes_cmac k m) = 16.
Proof.
  intros Hk. unfold aes_cmac, cmac. apply cbc_length.
  - intros b. now apply aes_encrypt_length.
  - unfold zero16. apply repeat_length.
Qed.

Lemma aes_enc_length k b : length (aes_enc k b) = 16.
Proof. apply aes_encrypt_length, key16_length. Qed.
Lemma aes_dec_length k b : length (aes_dec k b) = 16.
Proof. apply aes_decrypt_length, key16_length. Qed.
Lemma aes_mac_length k m : length (aes_mac k m) = 16.
Proof. apply aes_cmac_length, key16_length. Qed.
