(* Proofs/TxProofs.v -- C09: transmissions use a defined, enabled, in-band channel, a matching data rate, bounded power;
   channel selection makes progress on every draw that hits a usable channel and a usable channel always exists. *)
From Coq Require Import NArith ZArith List Bool Lia Arith ZifyBool ZifyNat ZifyN.
From LoraV Require Import Base.Bytes Gen.RegionTables Model.Region Model.Mac Proofs.OtaaProofs.
Import ListNotations.
Ltac Zify.zify_post_hook ::= Z.to_euclidean_division_equations.
Local Open Scope nat_scope.

(* ------------------------------------------------------------------ dynamic plans: the in-band invariant *)
Definition chans_inband (r : rid) (chs : list (option channel)) : Prop :=
  forall i c, nth_error chs i = Some (Some c) -> frequency_valid r (ch_freq c) = true.
Definition joins_defined (r : rid) (chs : list (option channel)) : Prop :=
  forall i, i < N.to_nat (r_num_join r) -> exists c, nth_error chs i = Some (Some c) /\ Some (ch_freq c) = nth_error (r_join_freqs r) i.
Definition dyn_ok (r : rid) (p : dyn_plan) : Prop :=
  length (dp_channels p) = 16 /\ chans_inband r (dp_channels p) /\ joins_defined r (dp_channels p).

Lemma set_nth_opt_other l i v k : k <> i -> nth_error (set_nth_opt l i v) k = nth_error l k.
Proof.
  revert i k; induction l as [|x l IH]; intros i k Hne; [destruct i; reflexivity|].
  destruct i as [|i], k as [|k]; cbn [set_nth_opt nth_error]; try reflexivity; [lia | apply IH; lia].
Qed.

Lemma set_nth_opt_same l i v : i < length l -> nth_error (set_nth_opt l i v) i = Some v.
Proof. intros H. rewrite set_nth_opt_nth by exact H. rewrite Nat.eqb_refl. reflexivity. Qed.

(* the initial plans *)
Lemma dyn_new_ok r : (r < 9)%N -> r_fixed r = false -> dyn_ok r (dyn_new r).
Proof.
  intros Hr Hf.
  assert (E : forallb (fun r => r_fixed r ||
      (Nat.eqb (length (dp_channels (dyn_new r))) 16
       && forallb (fun oc => match oc with Some c => frequency_valid r (ch_freq c) | None => true end) (dp_channels (dyn_new r))
       && forallb (fun i => match nth_error (dp_channels (dyn_new r)) i with
                            | Some (Some c) => match nth_error (r_join_freqs r) i with Some f => (ch_freq c =? f)%N | None => false end
                            | _ => false end) (seq 0 (N.to_nat (r_num_join r)))))
      (map N.of_nat (seq 0 9)) = true) by (vm_compute; reflexivity).
  rewrite forallb_forall in E. specialize (E r).
  assert (Hin : In r (map N.of_nat (seq 0 9))) by (apply in_map_iff; exists (N.to_nat r); split; [lia|apply in_seq; lia]).
  specialize (E Hin). rewrite Hf in E. cbn [orb] in E.
  apply andb_true_iff in E. destruct E as [E E3]. apply andb_true_iff in E. destruct E as [E1 E2].
  split; [apply Nat.eqb_eq, E1|]. split.
  - intros i c Hn. rewrite forallb_forall in E2. apply nth_error_In in Hn. exact (E2 _ Hn).
  - intros i Hi. rewrite forallb_forall in E3. specialize (E3 i). rewrite in_seq in E3.
    specialize (E3 ltac:(lia)). destruct (nth_error (dp_channels (dyn_new r)) i) as [[c|]|]; try discriminate.
    destruct (nth_error (r_join_freqs r) i) as [f|]; try discriminate. apply N.eqb_eq in E3. subst f. eauto.
Qed.

(* a JoinAccept's CFList keeps it (out-of-band entries are ignored) *)
Lemma cflist_keeps_ok r p fs chs' : dyn_ok r p -> length fs = 5 -> (r_num_join r <= 3)%N ->
  dyn_cflist r (dp_channels p) (N.to_nat (r_num_join r)) fs = Val chs' -> dyn_ok r {| dp_channels := chs'; dp_mask := dp_mask p |}.
Proof.
  intros [H16 [Hin Hj]] H5 HJ H.
  destruct (dyn_cflist_spec r fs (dp_channels p) (N.to_nat (r_num_join r))) as [c2 [S1 [S2 S3]]]; [lia|].
  rewrite S1 in H. injection H as <-. unfold dyn_ok. cbn [dp_channels]. split; [lia|]. split.
  - intros i c Hn. rewrite S3 in Hn.
    destruct (Nat.leb (N.to_nat (r_num_join r)) i && Nat.ltb i (N.to_nat (r_num_join r) + length fs)) eqn:E.
    + destruct (nth_error (dp_channels p) i) as [old|] eqn:Eo; [|discriminate]. cbn [option_map] in Hn.
      injection Hn as Hn. unfold cfl_entry in Hn.
      destruct (nth (i - N.to_nat (r_num_join r)) fs 0%N =? 0)%N; [discriminate|].
      destruct (frequency_valid r (nth (i - N.to_nat (r_num_join r)) fs 0%N)) eqn:Ev.
      * injection Hn as <-. exact Ev.
      * subst old. exact (Hin i c Eo).
    + exact (Hin i c Hn).
  - intros i Hi. rewrite S3.
    replace (Nat.leb (N.to_nat (r_num_join r)) i && Nat.ltb i (N.to_nat (r_num_join r) + length fs)) with false by (symmetry; lia).
    exact (Hj i Hi).
Qed.

(* NewChannelReq keeps it: join channels are read-only, a created channel is in band *)
Lemma new_channel_keeps_ok r p index freq drr p' acks : dyn_ok r p ->
  dyn_new_channel r p index freq drr = Val (p', acks) -> dyn_ok r p'.
Proof.
  intros [H16 [Hin Hj]] H. unfold dyn_new_channel in H.
  destruct (index <? r_num_join r)%N eqn:E1; [injection H as <- _; repeat split; assumption|].
  destruct (16 <=? index)%N eqn:E2; [injection H as <- _; repeat split; assumption|].
  assert (Hi : N.to_nat index < length (dp_channels p)) by lia.
  destruct (freq =? 0)%N eqn:E3.
  - destruct (set_channel (dp_mask p) index false) as [m| |]; try discriminate. injection H as <- _.
    unfold dyn_ok. cbn [dp_channels]. rewrite set_nth_opt_length. split; [exact H16|]. split.
    + intros i c Hn. destruct (Nat.eq_dec i (N.to_nat index)) as [->|Hne].
      * rewrite set_nth_opt_same in Hn by exact Hi. discriminate.
      * rewrite set_nth_opt_other in Hn by exact Hne. exact (Hin i c Hn).
    + intros i Hlt. rewrite set_nth_opt_other by lia. exact (Hj i Hlt).
  - destruct drr as [raw|]; [|injection H as <- _; repeat split; assumption].
    destruct (frequency_valid r freq && _) eqn:E4; [|injection H as <- _; repeat split; assumption].
    destruct (set_channel (dp_mask p) index true) as [m| |]; try discriminate. injection H as <- _.
    apply andb_true_iff in E4. destruct E4 as [Ev _].
    unfold dyn_ok. cbn [dp_channels]. rewrite set_nth_opt_length. split; [exact H16|]. split.
    + intros i c Hn. destruct (Nat.eq_dec i (N.to_nat index)) as [->|Hne].
      * rewrite set_nth_opt_same in Hn by exact Hi. injection Hn as <-. exact Ev.
      * rewrite set_nth_opt_other in Hn by exact Hne. exact (Hin i c Hn).
    + intros i Hlt. rewrite set_nth_opt_other by lia. exact (Hj i Hlt).
Qed.

(* DlChannelReq keeps it: only the downlink frequency of a channel changes *)
Lemma dl_update_keeps_ok r p index freq : dyn_ok r p -> dyn_ok r (fst (dyn_dl_update r p index freq)).
Proof.
  intros [H16 [Hin Hj]]. unfold dyn_dl_update.
  destruct (16 <=? index)%N eqn:E2; [repeat split; assumption|].
  destruct (mask_bit (dp_mask p) index); [|repeat split; assumption].
  destruct (nth (N.to_nat index) (dp_channels p) None) as [c|] eqn:Ec; [|repeat split; assumption].
  destruct (ch_freq c =? 0)%N; [repeat split; assumption|].
  destruct (frequency_valid r freq); [|repeat split; assumption].
  cbn [fst]. assert (Hi : N.to_nat index < length (dp_channels p)) by lia.
  assert (Hc : nth_error (dp_channels p) (N.to_nat index) = Some (Some c)).
  { rewrite (nth_error_nth' _ None Hi), Ec. reflexivity. }
  unfold dyn_ok. cbn [dp_channels]. rewrite set_nth_opt_length. split; [exact H16|]. split.
  - intros i c0 Hn. destruct (Nat.eq_dec i (N.to_nat index)) as [->|Hne].
    + rewrite set_nth_opt_same in Hn by exact Hi. injection Hn as <-. cbn [ch_freq]. exact (Hin _ c Hc).
    + rewrite set_nth_opt_other in Hn by exact Hne. exact (Hin i c0 Hn).
  - intros i Hlt. destruct (Nat.eq_dec i (N.to_nat index)) as [->|Hne].
    + rewrite set_nth_opt_same by exact Hi. destruct (Hj _ Hlt) as [c1 [A B]]. rewrite Hc in A. injection A as <-.
      eexists. split; [reflexivity|]. exact B.
    + rewrite set_nth_opt_other by exact Hne. exact (Hj i Hlt).
Qed.

(* ------------------------------------------------------------------ dynamic plans: selection *)
Lemma dyn_select_data_legal r p datarate : forall draws tc rest,
  dyn_select_data r p datarate draws = Val (tc, rest) ->
  exists c, nth (N.to_nat (tc_index tc)) (dp_channels p) None = Some c /\ tc_freq tc = ch_freq c /\ tc_rx1_freq tc = rx1_frequency c /\
            is_enabled (dp_mask p) (tc_index tc) = Val true /\ tc_dr tc = datarate /\ datarate_index r datarate = Val (Some (tc_datarate tc)) /\
            exists k, rest = skipn (S k) draws.
Proof.
  induction draws as [|d ds IH]; intros tc rest H; [discriminate|]. cbn [dyn_select_data] in H.
  assert (Hrec : dyn_select_data r p datarate ds = Val (tc, rest) -> exists c,
            nth (N.to_nat (tc_index tc)) (dp_channels p) None = Some c /\ tc_freq tc = ch_freq c /\ tc_rx1_freq tc = rx1_frequency c /\
            is_enabled (dp_mask p) (tc_index tc) = Val true /\ tc_dr tc = datarate /\ datarate_index r datarate = Val (Some (tc_datarate tc)) /\
            exists k, rest = skipn (S k) (d :: ds)).
  { intros H'. destruct (IH _ _ H') as [c [A [B [B' [C [D [E [k F]]]]]]]]. exists c. repeat split; auto. exists (S k). exact F. }
  destruct (dyn_random_in_range p d) as [chn| |]; try discriminate.
  destruct (is_enabled (dp_mask p) chn) as [[|]| |] eqn:Een; try discriminate; [|exact (Hrec H)].
  destruct (nth (N.to_nat chn) (dp_channels p) None) as [c|] eqn:Ec; [|exact (Hrec H)].
  destruct (datarate_index r datarate) as [[dt|]| |] eqn:Ed; try discriminate.
  injection H as <- <-. cbn [tc_index tc_freq tc_dr tc_datarate tc_rx1_freq]. exists c. repeat split; auto. exists 0. reflexivity.
Qed.

(* a draw that hits an enabled, defined channel ends the search: the loop consumes draws only up to the first hit *)
Definition dyn_hit (p : dyn_plan) (d : N) : bool :=
  match dyn_random_in_range p d with
  | Val chn => match is_enabled (dp_mask p) chn with
               | Val true => match nth (N.to_nat chn) (dp_channels p) None with Some _ => true | None => false end
               | _ => false end
  | _ => false end.

Lemma dyn_select_data_progress r p datarate dt : datarate_index r datarate = Val (Some dt) ->
  forall draws, existsb (dyn_hit p) draws = true -> (forall d, In d draws -> dyn_random_in_range p d <> Panic /\ forall chn, dyn_random_in_range p d = Val chn -> is_enabled (dp_mask p) chn <> Panic) ->
  exists tc rest, dyn_select_data r p datarate draws = Val (tc, rest).
Proof.
  intros Hd. induction draws as [|d ds IH]; intros Hex Hsafe; [discriminate|].
  cbn [existsb] in Hex. cbn [dyn_select_data].
  destruct (Hsafe d (or_introl eq_refl)) as [Hnp Hen].
  unfold dyn_hit in Hex.
  destruct (dyn_random_in_range p d) as [chn| |] eqn:Er; [| congruence |].
  - specialize (Hen chn eq_refl).
    destruct (is_enabled (dp_mask p) chn) as [[|]| |] eqn:Ee; try congruence.
    + destruct (nth (N.to_nat chn) (dp_channels p) None) as [c|] eqn:Ec.
      * rewrite Hd. eexists; eexists; reflexivity.
      * cbn [orb] in Hex. apply IH; [exact Hex|]. intros d' Hin. apply Hsafe. right. exact Hin.
    + cbn [orb] in Hex. apply IH; [exact Hex|]. intros d' Hin. apply Hsafe. right. exact Hin.
    + exfalso. unfold is_enabled in Ee. destruct (71 <? chn)%N; discriminate.
  - cbn [orb] in Hex. exfalso. (* OutOfDraws is never produced by dyn_random_in_range *)
    unfold dyn_random_in_range in Er. destruct (rposition_some _ _ _); discriminate.
Qed.

(* ------------------------------------------------------------------ a usable channel always exists after the fall-back *)
Lemma set_nth_length l i v : length (set_nth l i v) = length l.
Proof. revert i; induction l as [|x l IH]; intros [|i]; cbn [set_nth length]; auto. Qed.
Lemma nth_set_nth l i v : i < length l -> nth i (set_nth l i v) 0%N = v.
Proof. revert i; induction l as [|x l IH]; intros [|i] H; cbn [set_nth nth length] in *; try lia; auto. apply IH. lia. Qed.

Lemma set_channel_on m ch : N.to_nat (ch / 8) < length m ->
  exists m', set_channel m ch true = Val m' /\ length m' = length m /\ mask_bit m' ch = true.
Proof.
  intros H. unfold set_channel. destruct (Nat.ltb (N.to_nat (ch / 8)) (length m)) eqn:E; [|apply Nat.ltb_ge in E; lia].
  eexists. split; [reflexivity|]. split; [apply set_nth_length|].
  unfold mask_bit, nthN. rewrite nth_set_nth by exact H.
  rewrite N.lor_spec, N.shiftl_spec_high' by lia. rewrite N.sub_diag. cbn. apply orb_true_r.
Qed.

Lemma dyn_fallback_usable r p : dyn_ok r p -> length (dp_mask p) = 9 -> (1 <= r_num_join r <= 3)%N ->
  dyn_mask_validate (dyn_fallback r p) (dp_mask (dyn_fallback r p)) = true /\ dp_channels (dyn_fallback r p) = dp_channels p /\
  (dyn_mask_validate p (dp_mask p) = true -> dyn_fallback r p = p).
Proof.
  intros [H16 [Hin Hj]] H9 HJ. unfold dyn_fallback.
  destruct (dyn_mask_validate p (dp_mask p)) eqn:Ev; [auto|].
  cbn [dp_channels dp_mask]. split; [|split; [reflexivity|discriminate]].
  set (f := fun (m : mask) (i : nat) => match set_channel m (N.of_nat i) true with Val m' => m' | _ => m end).
  set (J := N.to_nat (r_num_join r)).
  assert (HJ' : J = S (J - 1)) by lia. rewrite HJ', seq_S, fold_left_app. cbn [fold_left Nat.add].
  assert (Hlen : forall l m, length m = 9 -> (forall i, In i l -> i < 16) -> length (fold_left f l m) = 9).
  { induction l as [|i l IH]; intros m Hm Hl; [exact Hm|]. cbn [fold_left]. apply IH.
    - unfold f. destruct (set_channel_on m (N.of_nat i)) as [m' [A [B _]]]; [rewrite Hm; specialize (Hl i (or_introl eq_refl)); lia|].
      rewrite A. lia.
    - intros j Hj'. apply Hl. right. exact Hj'. }
  set (m1 := fold_left f (seq 0 (J - 1)) (dp_mask p)).
  assert (Hm1 : length m1 = 9) by (apply Hlen; [exact H9|intros i Hi; apply in_seq in Hi; lia]).
  destruct (set_channel_on m1 (N.of_nat (J - 1))) as [m' [A [B C]]]; [rewrite Hm1; lia|].
  assert (Hf : f m1 (J - 1) = m') by (unfold f; rewrite A; reflexivity). rewrite Hf.
  unfold dyn_mask_validate. cbn [dp_channels]. apply existsb_exists. exists (J - 1). split; [apply in_seq; lia|].
  cbv beta. rewrite C. cbn [andb]. destruct (Hj (J - 1) ltac:(lia)) as [c [Hc _]].
  rewrite (nth_error_nth _ _ _ Hc). reflexivity.
Qed.

(* ------------------------------------------------------------------ fixed plans: the mask-driven choice *)
Lemma fix_draw_enabled_spec m bits base : forall draws chn rest,
  fix_draw_enabled m bits base draws = Val (chn, rest) ->
  is_enabled m chn = Val true /\ exists d, chn = (N.land d bits + base)%N.
Proof.
  induction draws as [|d ds IH]; intros chn rest H; [discriminate|]. cbn [fix_draw_enabled] in H.
  destruct (is_enabled m (N.land d bits + base)) as [[|]| |] eqn:E; try discriminate.
  - injection H as <- <-. split; [exact E|]. exists d. reflexivity.
  - exact (IH _ _ H).
Qed.

Lemma fix_mk_tx_spec r dr chn p rest tc p' rest' :
  fix_mk_tx r dr chn p rest = Val (tc, p', rest') ->
  nth_error (r_uplink r) (N.to_nat chn) = Some (tc_freq tc) /\ tc_dr tc = dr /\ tc_index tc = chn /\ p' = p /\
  datarate_index r dr = Val (Some (tc_datarate tc)).
Proof.
  unfold fix_mk_tx. destruct (datarate_index r dr) as [[dt|]| |]; try (intros H; discriminate).
  destruct (nth_error (r_uplink r) (N.to_nat chn)) as [f|]; try (intros H; discriminate).
  destruct (nth_error (r_downlink r) (N.to_nat (chn mod 8))) as [f1|]; try (intros H; discriminate).
  intros H. injection H as <- <- <-. cbn. repeat split.
Qed.

Lemma is_enabled_bit m c : is_enabled m c = Val true -> mask_bit m c = true /\ (c <= 71)%N.
Proof. unfold is_enabled, mask_bit. destruct (71 <? c)%N eqn:E; [discriminate|]. intros H. injection H as ->. split; [reflexivity|lia]. Qed.

(* data uplink chosen through the mask: enabled in the mask left in force, on the channel map, bandwidth matches the channel kind *)
Theorem fix_masked_legal r p datarate draws tc p' rest :
  fix_select_masked r p datarate draws = Val (tc, p', rest) ->
  let idx := tc_index tc in
  mask_bit (fp_mask p') idx = true /\ (idx <= 71)%N /\ nth_error (r_uplink r) (N.to_nat idx) = Some (tc_freq tc) /\ tc_dr tc = datarate /\
  fp_jc p' = fp_jc p /\ fp_mask p' = fix_fallback_mask (fp_mask p) (snd (fst (tc_datarate tc)) =? 9)%N /\
  ((snd (fst (tc_datarate tc)) =? 9)%N = (64 <=? idx)%N).
Proof.
  unfold fix_select_masked. destruct (datarate_index r datarate) as [[[[sf bw] mp]|]| |] eqn:Ed; try (intros H; discriminate).
  set (m := fix_fallback_mask (fp_mask p) (bw =? 9)%N).
  destruct (bw =? 9)%N eqn:Ebw.
  - destruct (fix_draw_enabled m 7 64 draws) as [[chn rest0]| |] eqn:Edraw; try (intros H; discriminate).
    intros H. apply fix_mk_tx_spec in H. destruct H as [A [B [C [D E]]]]. rewrite Ed in E. injection E as E.
    destruct (fix_draw_enabled_spec _ _ _ _ _ _ Edraw) as [En [d Hd]]. apply is_enabled_bit in En. destruct En as [En1 En2].
    cbv zeta. rewrite C, D, <- E. cbn [fp_mask fp_jc fst snd]. rewrite Ebw. repeat split; auto.
    symmetry. apply N.leb_le. lia.
  - destruct (fix_draw_enabled m 63 0 draws) as [[chn rest0]| |] eqn:Edraw; try (intros H; discriminate).
    intros H. apply fix_mk_tx_spec in H. destruct H as [A [B [C [D E]]]]. rewrite Ed in E. injection E as E.
    destruct (fix_draw_enabled_spec _ _ _ _ _ _ Edraw) as [En [d Hd]]. apply is_enabled_bit in En. destruct En as [En1 En2].
    cbv zeta. rewrite C, D, <- E. cbn [fp_mask fp_jc fst snd]. rewrite Ebw. repeat split; auto.
    symmetry. apply N.leb_gt. rewrite Hd, N.add_0_r. change 63%N with (N.ones 6). rewrite N.land_ones. assert (d mod 2 ^ 6 < 2 ^ 6)%N by (apply N.mod_lt; discriminate). lia.
Qed.

(* after the fall-back the mask has a channel of the required kind *)
Lemma fix_fallback_usable (m : mask) (wide : bool) : length m = 9 ->
  (if wide then any_enabled (fix_fallback_mask m true) 64 8 else any_enabled (fix_fallback_mask m false) 0 64) = true /\
  ((if wide then any_enabled m 64 8 else any_enabled m 0 64) = true -> fix_fallback_mask m wide = m).
Proof.
  intros H9. destruct m as [|b0 [|b1 [|b2 [|b3 [|b4 [|b5 [|b6 [|b7 [|b8 [|b9 m]]]]]]]]]]; try discriminate H9.
  set (m := [b0; b1; b2; b3; b4; b5; b6; b7; b8]). destruct wide; unfold fix_fallback_mask.
  - destruct (any_enabled m 64 8) eqn:E; [split; [exact E|reflexivity]|]. split; [|discriminate]. reflexivity.
  - destruct (any_enabled m 0 64) eqn:E; [split; [exact E|reflexivity]|]. split; [|discriminate]. reflexivity.
Qed.

(* join requests of a fixed plan: the data rate is the one the join channel mandates, its bandwidth matches the channel kind *)
Lemma join_dr_bandwidth : forall r, In r [4%N; 8%N] ->
  (exists sf mp, get_datarate r (r_join_dr r false) = Some (sf, 7%N, mp)) /\ (exists sf mp, get_datarate r (r_join_dr r true) = Some (sf, 9%N, mp)).
Proof. intros r [<-|[<-|[]]]; split; vm_compute; eauto. Qed.

(* ------------------------------------------------------------------ power *)
Lemma adjust_power_bound pw mp g q : adjust_power pw mp g = Val q ->
  (q <= 127)%Z /\ (q <= Z.of_N mp)%Z /\ ((-128 <= pw - g)%Z -> (q <= pw - g)%Z).
Proof.
  unfold adjust_power. intros H. injection H as <-. destruct (127 <? mp)%N eqn:E; lia.
Qed.

(* ------------------------------------------------------------------ the rejection loops do not terminate on every stream (known finding) *)
Lemma join_constant_stream_refuted : forall n, region_select (region_new 5%N) 0%N true (repeat 3%N n) = OutOfDraws.
Proof. induction n as [|n IH]; [reflexivity|]. cbn [repeat]. exact IH. Qed.

Lemma data_constant_stream_refuted :
  let p := {| fp_mask := [3; 0; 0; 0; 0; 0; 0; 0; 0]%N; fp_jc := jc_default |} in
  any_enabled (fp_mask p) 0 64 = true /\ forall n, fix_select_masked 8%N p 0%N (repeat 5%N n) = OutOfDraws.
Proof.
  split; [reflexivity|]. induction n as [|n IH]; [reflexivity|]. cbn [repeat].
  unfold fix_select_masked in *. change (datarate_index 8%N 0%N) with (Val (Some (10, 7, 19)%N)) in *. cbv beta iota zeta in *.
  change ((7 =? 9)%N) with false in *. cbv iota in *.
  change (fix_fallback_mask [3; 0; 0; 0; 0; 0; 0; 0; 0]%N false) with [3; 0; 0; 0; 0; 0; 0; 0; 0]%N in *.
  cbn [fix_draw_enabled]. change (is_enabled [3; 0; 0; 0; 0; 0; 0; 0; 0]%N (N.land 5 63 + 0)) with (Val false). exact IH.
Qed.

(* ------------------------------------------------------------------ region level: a data uplink of a dynamic plan *)
Theorem dyn_data_legal g p datarate draws tc g' rest :
  rg_plan g = PDyn p -> dyn_ok (rg_id g) p -> length (dp_mask p) = 9 -> (1 <= r_num_join (rg_id g) <= 3)%N ->
  region_select g datarate false draws = Val (tc, g', rest) ->
  exists p1 c, rg_plan g' = PDyn p1 /\ rg_id g' = rg_id g /\ dp_channels p1 = dp_channels p /\
    (dyn_mask_validate p (dp_mask p) = true -> p1 = p) /\
    nth_error (dp_channels p1) (N.to_nat (tc_index tc)) = Some (Some c) /\ tc_freq tc = ch_freq c /\ tc_rx1_freq tc = rx1_frequency c /\
    mask_bit (dp_mask p1) (tc_index tc) = true /\ frequency_valid (rg_id g) (tc_freq tc) = true /\
    tc_dr tc = datarate /\ get_datarate (rg_id g) datarate = Some (tc_datarate tc).
Proof.
  intros Hp Hok H9 HJ. unfold region_select. rewrite Hp.
  destruct (dyn_fallback_usable _ _ Hok H9 HJ) as [U1 [U2 U3]].
  destruct (dyn_select_data (rg_id g) (dyn_fallback (rg_id g) p) datarate draws) as [[tc0 rest0]| |] eqn:Es; try (intros H; discriminate).
  intros H. injection H as <- <- <-.
  destruct (dyn_select_data_legal _ _ _ _ _ _ Es) as [c [A [B [B' [C [D [E _]]]]]]].
  exists (dyn_fallback (rg_id g) p), c. cbn [rg_plan rg_id]. split; [reflexivity|]. split; [reflexivity|]. split; [exact U2|]. split; [exact U3|].
  assert (Hn : nth_error (dp_channels (dyn_fallback (rg_id g) p)) (N.to_nat (tc_index tc0)) = Some (Some c)).
  { destruct (nth_error (dp_channels (dyn_fallback (rg_id g) p)) (N.to_nat (tc_index tc0))) as [x|] eqn:En.
    - rewrite (nth_error_nth _ _ None En) in A. subst x. reflexivity.
    - apply nth_error_None in En. rewrite nth_overflow in A by exact En. discriminate. }
  split; [exact Hn|]. split; [exact B|]. split; [exact B'|]. apply is_enabled_bit in C. destruct C as [C _].
  split; [exact C|]. split.
  - rewrite B. destruct Hok as [_ [Hin _]]. rewrite U2 in Hn. exact (Hin _ _ Hn).
  - split; [exact D|]. unfold datarate_index in E. unfold get_datarate.
    destruct (nth_error (r_datarates (rg_id g)) (N.to_nat datarate)) as [[d|]|]; try discriminate. injection E as <-. reflexivity.
Qed.

(* join requests of a dynamic plan go out on one of the region's default join channels *)
Theorem dyn_join_legal g p datarate draws tc g' rest :
  rg_plan g = PDyn p -> dyn_ok (rg_id g) p ->
  region_select g datarate true draws = Val (tc, g', rest) ->
  g' = g /\ In (tc_freq tc) (r_join_freqs (rg_id g)) /\ frequency_valid (rg_id g) (tc_freq tc) = true /\ tc_dr tc = datarate /\
  get_datarate (rg_id g) datarate = Some (tc_datarate tc).
Proof.
  intros Hp [H16 [Hin Hj]]. unfold region_select. rewrite Hp.
  destruct (dyn_select_join (rg_id g) p datarate draws) as [[tc0 rest0]| |] eqn:Es; try (intros H; discriminate).
  intros H. injection H as <- <- <-. split; [reflexivity|].
  revert Es. induction draws as [|d ds IH]; [discriminate|]. cbn [dyn_select_join].
  destruct (r_num_join (rg_id g) <=? N.land d 3)%N eqn:E; [exact IH|]. apply N.leb_gt in E.
  destruct (Hj (N.to_nat (N.land d 3)) ltac:(lia)) as [c [Hc Hf]].
  rewrite (nth_error_nth _ _ None Hc).
  destruct (datarate_index (rg_id g) datarate) as [[dt|]| |] eqn:Ed; try discriminate.
  intros H. injection H as <- _. cbn [tc_freq tc_dr tc_datarate]. split; [|split; [exact (Hin _ _ Hc)|split; [reflexivity|]]].
  - symmetry in Hf. exact (nth_error_In _ _ Hf).
  - unfold datarate_index in Ed. unfold get_datarate.
    destruct (nth_error (r_datarates (rg_id g)) (N.to_nat datarate)) as [[d0|]|]; try discriminate. injection Ed as <-. reflexivity.
Qed.
