(* Proofs/CmdProofs.v -- C08: per-command atomicity of handle_downlink_macs: a full ACK means exactly the commanded
   effect, any NAK means nothing changed; region-invalid requests are rejected; answers are whole commands. *)
From Coq Require Import NArith ZArith List Bool Lia Arith ZifyBool ZifyNat ZifyN.
From LoraV Require Import Base.Bytes Model.MacCmd Gen.CmdTables Gen.RegionTables Model.Region Model.Mac.
Import ListNotations.
Local Open Scope N_scope.
Local Opaque N.shiftr N.land N.shiftl N.lor.

(* ---- the answer queue only ever grows by whole commands and never beyond 15 bytes *)
Lemma add_mac_command_whole pending cmd :
  add_mac_command pending cmd = pending ++ cmd \/ add_mac_command pending cmd = pending.
Proof. unfold add_mac_command. destruct (Nat.ltb _ _); auto. Qed.

(* the answer queue within one downlink: whole commands, in order, and once one is dropped every later one is dropped too *)
Lemma push_answer_shape pf cmd :
  push_answer pf cmd = (fst pf ++ cmd, false) /\ snd pf = false /\ fits (fst pf) cmd = true
  \/ push_answer pf cmd = (fst pf, true) /\ (snd pf = true \/ fits (fst pf) cmd = false).
Proof.
  destruct pf as [p full]. unfold push_answer. cbn [fst snd].
  destruct full; [right; auto|]. destruct (fits p cmd) eqn:E; [left; auto | right; auto].
Qed.

Lemma push_answer_full_absorbs p cmd : push_answer (p, true) cmd = (p, true).
Proof. reflexivity. Qed.

Lemma push_answer_bound pf cmd : (length (fst pf) <= 15)%nat -> (1 <= length cmd)%nat ->
  (length (fst (push_answer pf cmd)) <= 15)%nat.
Proof.
  intros Hp Hc. destruct pf as [p full]. unfold push_answer, fits. cbn [fst] in *.
  destruct full; [exact Hp|]. destruct (Nat.ltb _ _) eqn:E; [|exact Hp].
  apply Nat.ltb_lt in E. cbn [fst]. rewrite app_length. lia.
Qed.

Lemma add_mac_command_bound pending cmd : (length pending <= 15)%nat -> (1 <= length cmd)%nat ->
  (length (add_mac_command pending cmd) <= 15)%nat.
Proof.
  intros Hp Hc. unfold add_mac_command. destruct (Nat.ltb _ _) eqn:E; [|exact Hp].
  apply Nat.ltb_lt in E. rewrite app_length. lia.
Qed.

(* ---- RXParamSetupReq *)
Section Cmd.
  Variable snr : Z.

  Definition rxparam_all_valid (r : rid) (cf : configuration) (b0 : N) (freq : N) : bool :=
    frequency_valid r freq
    && (match rx1_dr_offset_validate r (N.land (N.shiftr b0 4) 7) with Some _ => true | None => false end)
    && ((N.land b0 0x0f =? 15) || match get_datarate r (N.land b0 0x0f) with Some _ => true | None => false end).

  Theorem rxparam_atomic h p h' :
    handle_cmd snr h 0x05 p false = Val h' ->
    let r := rg_id (h_rg h) in let cf := h_cf h in
    let freq := le_value (slice p 1 4) * 100 in
    let b0 := nthN p 0 in
    h_rg h' = h_rg h /\ h_mask h' = h_mask h /\
    (rxparam_all_valid r cf b0 freq = true ->
       (h_pending h', h_full h') = push_answer (h_pf h) [0x05; 7] /\
       cf_rx1_dr_offset (h_cf h') = N.land (N.shiftr b0 4) 7 /\
       cf_rx2_frequency (h_cf h') = Some freq /\
       cf_rx2_data_rate (h_cf h') = (if N.land b0 0x0f =? 15 then cf_rx2_data_rate cf else Some (N.land b0 0x0f)) /\
       cf_data_rate (h_cf h') = cf_data_rate cf /\ cf_rx1_delay (h_cf h') = cf_rx1_delay cf /\
       cf_tx_power (h_cf h') = cf_tx_power cf /\ cf_adr (h_cf h') = cf_adr cf) /\
    (rxparam_all_valid r cf b0 freq = false ->
       h_cf h' = cf /\ exists a, a <> 7 /\ (h_pending h', h_full h') = push_answer (h_pf h) [0x05; a]).
  Proof.
    unfold handle_cmd, rxparam_all_valid, rx1_dr_offset_validate. cbv zeta. intros H. injection H as <-.
    cbn [h_rg h_mask h_cf h_pending h_full].
    rewrite <- !surjective_pairing.
    split; [reflexivity|]. split; [reflexivity|].
    destruct (frequency_valid (rg_id (h_rg h)) (le_value (slice p 1 4) * 100)) eqn:Ef;
    destruct (N.land (N.shiftr (nthN p 0) 4) 7 <=? r_max_rx1_off (rg_id (h_rg h))) eqn:Eo;
    destruct (N.land (nthN p 0) 15 =? 15) eqn:E15;
    try destruct (get_datarate (rg_id (h_rg h)) (N.land (nthN p 0) 15)) as [dd|] eqn:Eg;
    (split; intros Hv; try discriminate Hv);
    cbn [cf_rx1_dr_offset cf_rx2_frequency cf_rx2_data_rate cf_data_rate cf_rx1_delay cf_tx_power cf_adr andb orb];
    try (repeat split; reflexivity);
    try (split; [reflexivity|]; eexists; split; [|reflexivity]; discriminate).
  Qed.

  (* ---- RXTimingSetupReq: always acknowledged, sets exactly the RX1 delay *)
  Theorem rxtiming_effect h p h' :
    handle_cmd snr h 0x08 p false = Val h' ->
    (h_pending h', h_full h') = push_answer (h_pf h) [0x08] /\ h_rg h' = h_rg h /\
    cf_rx1_delay (h_cf h') = del_to_delay_ms (N.land (nthN p 0) 0x0f) /\
    cf_data_rate (h_cf h') = cf_data_rate (h_cf h) /\ cf_tx_power (h_cf h') = cf_tx_power (h_cf h) /\
    cf_rx1_dr_offset (h_cf h') = cf_rx1_dr_offset (h_cf h) /\ cf_rx2_data_rate (h_cf h') = cf_rx2_data_rate (h_cf h) /\
    cf_rx2_frequency (h_cf h') = cf_rx2_frequency (h_cf h) /\ cf_adr (h_cf h') = cf_adr (h_cf h).
  Proof. unfold handle_cmd. intros H. injection H as <-. cbn [h_pending h_full h_rg h_cf cf_rx1_delay cf_data_rate cf_tx_power cf_rx1_dr_offset cf_rx2_data_rate cf_rx2_frequency cf_adr]. rewrite <- surjective_pairing. repeat split. Qed.

  Lemma del_to_delay_spec d : d < 16 -> del_to_delay_ms d = (if d <=? 1 then 1000 else d * 1000).
  Proof.
    intros H. unfold del_to_delay_ms. change c_receive_delay1 with 1000.
    destruct (d <=? 1) eqn:E; destruct ((2 <=? d) && (d <=? 15)) eqn:E2; lia.
  Qed.

  (* ---- DlChannelReq *)
  Theorem dl_channel_atomic r p index freq p' af ac :
    dyn_dl_update r p index freq = (p', (af, ac)) ->
    (af && ac = false -> p' = p) /\
    (af && ac = true ->
       frequency_valid r freq = true /\ index < 16 /\ mask_bit (dp_mask p) index = true /\
       dp_mask p' = dp_mask p /\
       exists c, nth (N.to_nat index) (dp_channels p) None = Some c /\
                 dp_channels p' = set_nth_opt (dp_channels p) (N.to_nat index)
                   (Some {| ch_freq := ch_freq c; ch_drs := ch_drs c; ch_dl := if freq =? ch_freq c then None else Some freq |})).
  Proof.
    unfold dyn_dl_update.
    destruct (16 <=? index) eqn:E16; [intros H; injection H as <- <- <-; rewrite andb_false_r; split; [reflexivity|discriminate]|].
    destruct (mask_bit (dp_mask p) index) eqn:Em;
      [|intros H; injection H as <- <- <-; rewrite andb_false_r; split; [reflexivity|discriminate]].
    destruct (nth (N.to_nat index) (dp_channels p) None) as [c|] eqn:Ec;
      [|intros H; injection H as <- <- <-; rewrite andb_false_r; split; [reflexivity|discriminate]].
    destruct (ch_freq c =? 0); [intros H; injection H as <- <- <-; rewrite andb_false_r; split; [reflexivity|discriminate]|].
    destruct (frequency_valid r freq) eqn:Ef; intros H; injection H as <- <- <-.
    - split; [discriminate|]. intros _. repeat split; try reflexivity; [lia|]. exists c. split; reflexivity.
    - split; [reflexivity | discriminate].
  Qed.

  (* ---- NewChannelReq *)
  Theorem new_channel_atomic r p index freq drr p' af ad :
    dyn_new_channel r p index freq drr = Val (p', (af, ad)) ->
    (af && ad = false -> p' = p) /\
    (af && ad = true -> r_num_join r <= index /\ index < 16 /\
       ((freq = 0 /\ exists m, set_channel (dp_mask p) index false = Val m /\
                      p' = {| dp_channels := set_nth_opt (dp_channels p) (N.to_nat index) None; dp_mask := m |})
        \/ (freq <> 0 /\ frequency_valid r freq = true /\
            exists raw m, drr = Some raw /\ set_channel (dp_mask p) index true = Val m /\
              p' = {| dp_channels := set_nth_opt (dp_channels p) (N.to_nat index)
                                       (Some {| ch_freq := freq; ch_drs := raw; ch_dl := None |}); dp_mask := m |}))).
  Proof.
    unfold dyn_new_channel.
    destruct (index <? r_num_join r) eqn:E1; [intros H; injection H as <- <- <-; split; [reflexivity|discriminate]|].
    destruct (16 <=? index) eqn:E2; [intros H; injection H as <- <- <-; split; [reflexivity|discriminate]|].
    destruct (freq =? 0) eqn:E0.
    - destruct (set_channel (dp_mask p) index false) as [m| |] eqn:Es; try (intros H; discriminate).
      intros H. injection H as <- <- <-.
      split; [discriminate|]. intros _. apply N.eqb_eq in E0.
      split; [lia|]. split; [lia|]. left. split; [exact E0|]. exists m. split; reflexivity.
    - destruct drr as [raw|]; [|intros H; injection H as <- <- <-; rewrite andb_false_r; split; [reflexivity|discriminate]].
      set (sup := (N.shiftr raw 4 <? 15) && _).
      destruct (frequency_valid r freq) eqn:Ef; destruct sup eqn:Esup; cbn [andb].
      + destruct (set_channel (dp_mask p) index true) as [m| |] eqn:Es; try (intros H; discriminate).
        intros H. injection H as <- <- <-. split; [discriminate|]. intros _.
        apply N.eqb_neq in E0. split; [lia|]. split; [lia|]. right. split; [exact E0|]. split; [reflexivity|].
        exists raw, m. repeat split; reflexivity.
      + intros H. injection H as <- <- <-. split; [reflexivity | discriminate].
      + intros H. injection H as <- <- <-. split; [reflexivity | discriminate].
      + intros H. injection H as <- <- <-. split; [reflexivity | discriminate].
  Qed.

  (* ---- LinkADRReq: the last command of a block decides; full ACK = exactly applied, anything else = nothing applied,
     and one identical answer per request of the block *)
  Theorem linkadr_atomic h p h' :
    handle_cmd snr h 0x03 p false = Val h' ->
    exists ans, True /\
    (h_pending h', h_full h') = fold_left (fun acc _ => push_answer acc [0x03; ans]) (seq 0 (S (h_nadr h))) (h_pf h) /\
    (ans <> 7 -> h_cf h' = h_cf h /\ h_rg h' = h_rg h) /\
    (ans = 7 -> exists d pw m,
        h_cf h' = set_cfg (h_cf h) d pw /\ h_rg h' = region_mask_set (h_rg h) m /\
        (N.shiftr (nthN p 0) 4 = 15 /\ d = cf_data_rate (h_cf h) \/ N.shiftr (nthN p 0) 4 <> 15 /\ d = N.shiftr (nthN p 0) 4 /\ uplink_dr (h_rg h) d <> None) /\
        (N.land (nthN p 0) 15 = 15 /\ pw = cf_tx_power (h_cf h) \/
         N.land (nthN p 0) 15 <> 15 /\ pw = tx_power_adjust (rg_id (h_rg h)) (N.land (nthN p 0) 15) /\ pw <> None)) /\
    h_nadr h' = O /\ h_known h' = true.
  Proof.
    unfold handle_cmd. cbv beta iota zeta.
    destruct (region_mask_update (h_rg h) (h_mask h) (N.land (N.shiftr (nthN p 3) 4) 7) (nthN p 1) (nthN p 2)) as [mo| |];
      try (intros H; discriminate).
    destruct mo as [m'|].
    - (* known ChMaskCntl *)
      remember (N.shiftr (nthN p 0) 4) as drf eqn:Hdrf. remember (N.land (nthN p 0) 15) as pwf eqn:Hpwf.
      remember (if drf =? 15 then Some (cf_data_rate (h_cf h)) else match uplink_dr (h_rg h) drf with Some _ => Some drf | None => None end) as dr eqn:Hdr.
      remember (if pwf =? 15 then Some (cf_tx_power (h_cf h)) else match tx_power_adjust (rg_id (h_rg h)) pwf with Some x => Some (Some x) | None => None end) as pw eqn:Hpw.
      destruct (region_mask_validate (h_rg h) m' dr) as [vok| |]; try (intros H; discriminate).
      destruct (h_known h && vok) eqn:Ek; destruct dr as [d|]; destruct pw as [pwv|];
        intros H; injection H as <-; cbn [h_pending h_full h_cf h_rg h_nadr h_known];
        rewrite <- surjective_pairing;
        eexists; (split; [exact I|]); (split; [reflexivity|]);
        (split; [intros Hne; try (exfalso; apply Hne; reflexivity); split; reflexivity|]);
        (split; [intros Heq; try discriminate Heq | split; reflexivity]).
      exists d, pwv, m'. split; [reflexivity|]. split; [reflexivity|].
      split.
      + destruct (drf =? 15) eqn:E15; [left | right].
        * apply N.eqb_eq in E15. injection Hdr as ->. auto.
        * apply N.eqb_neq in E15. destruct (uplink_dr (h_rg h) drf) eqn:Eg; [|discriminate].
          injection Hdr as ->. repeat split; auto. rewrite Eg. discriminate.
      + destruct (pwf =? 15) eqn:E15; [left | right].
        * apply N.eqb_eq in E15. injection Hpw as ->. auto.
        * apply N.eqb_neq in E15. destruct (tx_power_adjust (rg_id (h_rg h)) pwf) eqn:Eg; [|discriminate].
          injection Hpw as ->. repeat split; auto. discriminate.
    - (* RFU ChMaskCntl: never a channel-mask ACK *)
      remember (if N.shiftr (nthN p 0) 4 =? 15 then Some (cf_data_rate (h_cf h)) else match uplink_dr (h_rg h) (N.shiftr (nthN p 0) 4) with Some _ => Some (N.shiftr (nthN p 0) 4) | None => None end) as dr eqn:Hdr.
      remember (if N.land (nthN p 0) 15 =? 15 then Some (cf_tx_power (h_cf h)) else match tx_power_adjust (rg_id (h_rg h)) (N.land (nthN p 0) 15) with Some x => Some (Some x) | None => None end) as pw eqn:Hpw.
      destruct (region_mask_validate (h_rg h) (h_mask h) dr) as [vok| |]; try (intros H; discriminate).
      cbn [andb].
      destruct dr as [d|]; destruct pw as [pwv|];
        intros H; injection H as <-; cbn [h_pending h_full h_cf h_rg h_nadr h_known];
        rewrite <- surjective_pairing;
        eexists; (split; [exact I|]); (split; [reflexivity|]);
        (split; [intros _; split; reflexivity|]);
        (split; [intros Heq; discriminate Heq | split; reflexivity]).
  Qed.
End Cmd.

(* ---- sticky answers: clear_mac_commands(true) keeps exactly the whole DlChannelAns / RXParamSetupAns / RXTimingSetupAns *)
From LoraV Require Import Proofs.SeqBuildProofs.
Definition sticky (cid : N) : bool := (cid =? 0x0A) || (cid =? 0x05) || (cid =? 0x08).

Theorem retain_acks_spec (cmds : list (N * list N)) :
  Forall (fun cp => exists h, lookup ul_mac_table (fst cp) = Some (fst cp, Some (length (snd cp)), h)) cmds ->
  retain_acks (flat_map (fun cp => fst cp :: snd cp) cmds)
  = flat_map (fun cp => if sticky (fst cp) then fst cp :: snd cp else []) cmds.
Proof.
  intros HF. unfold retain_acks. rewrite build_parse_sequence by exact HF.
  induction cmds as [|[cid p] cmds IH]; [reflexivity|].
  inversion HF as [|? ? _ HF']; subst. cbn [map flat_map fst snd]. rewrite IH by exact HF'. reflexivity.
Qed.
