(* Proofs/NoPanicProofs.v -- C04: under the shape invariant of the MAC state, handling ANY downlink command bytes never panics and
   keeps the invariant; consequently no received frame can panic the receive path. *)
From Coq Require Import NArith ZArith List Bool Lia Arith ZifyBool ZifyNat ZifyN.
From LoraV Require Import Base.Bytes Crypto.AES Model.Frame Model.MacCmd Gen.CmdTables Gen.RegionTables Model.Region Model.Mac
  Spec.RP002 Proofs.WindowProofs Proofs.OtaaProofs Proofs.TxProofs.
Import ListNotations.
Ltac Zify.zify_post_hook ::= Z.to_euclidean_division_equations.
Local Open Scope nat_scope.

(* ------------------------------------------------------------------ masks *)
Lemma land_le_r a b : (N.land a b <= b)%N.
Proof.
  apply N.ldiff_le. apply N.bits_inj_0. intros n. rewrite N.ldiff_spec, N.land_spec.
  destruct (N.testbit a n), (N.testbit b n); reflexivity.
Qed.

Ltac len9 := cbn; rewrite ?app_length, ?map_length, ?seq_length, ?repeat_length; reflexivity.

Lemma set_bank_total m i v : i < length m -> exists m', set_bank m i v = Val m' /\ length m' = length m.
Proof.
  intros H. unfold set_bank. destruct (Nat.ltb i (length m)) eqn:E; [|apply Nat.ltb_ge in E; lia].
  eexists. split; [reflexivity|apply set_nth_length].
Qed.

Lemma mask_update_total (fixedp : bool) m ctl lo hi : length m = 9 -> (ctl < 8)%N ->
  exists mo, (if fixedp then fix_mask_update m ctl lo hi else dyn_mask_update m ctl lo hi) = Val mo /\
             match mo with Some m' => length m' = 9 | None => True end.
Proof.
  intros H9 Hc.
  assert (Hlow : (ctl <=? 3)%N = true -> exists mo,
     match set_bank m (N.to_nat (ctl * 2)) lo with
     | Val m1 => match set_bank m1 (S (N.to_nat (ctl * 2))) hi with Val m2 => Val (Some m2) | Panic => Panic | OutOfDraws => OutOfDraws end
     | Panic => Panic | OutOfDraws => OutOfDraws end = Val mo /\ match mo with Some m' => length m' = 9 | None => True end).
  { intros E. destruct (set_bank_total m (N.to_nat (ctl * 2)) lo) as [m1 [A B]]; [lia|]. rewrite A.
    destruct (set_bank_total m1 (S (N.to_nat (ctl * 2))) hi) as [m2 [A2 B2]]; [lia|]. rewrite A2.
    eexists. split; [reflexivity|]. cbn. lia. }
  assert (H4 : exists mo, match set_bank m 8 lo with Val m1 => Val (Some m1) | Panic => Panic | OutOfDraws => OutOfDraws end = Val mo /\
                          match mo with Some m' => length m' = 9 | None => True end).
  { destruct (set_bank_total m 8 lo) as [m1 [A B]]; [lia|]. rewrite A. eexists. split; [reflexivity|]. cbn. lia. }
  destruct fixedp.
  - unfold fix_mask_update.
    (destruct (ctl <=? 3)%N eqn:E3; [exact (Hlow eq_refl)|]); (destruct (ctl =? 4)%N eqn:E4; [exact H4|]);
      destruct (ctl =? 5)%N eqn:E5.
    + eexists. split; [reflexivity|]. len9.
    + destruct (ctl =? 6)%N; [eexists; split; [reflexivity|]; len9|].
      destruct (ctl =? 7)%N; [eexists; split; [reflexivity|]; len9|].
      eexists. split; [reflexivity|exact I].
  - unfold dyn_mask_update. destruct (ctl =? 0)%N eqn:E0.
    + destruct (set_bank_total m 0 lo) as [m1 [A B]]; [lia|]. rewrite A.
      destruct (set_bank_total m1 1 hi) as [m2 [A2 B2]]; [lia|]. rewrite A2.
      eexists. split; [reflexivity|]. cbn. lia.
    + destruct (ctl =? 6)%N; [eexists; split; [reflexivity|]; len9|].
      eexists. split; [reflexivity|exact I].
Qed.

(* ------------------------------------------------------------------ the shape invariant of a region and of the configuration *)
Definition jc_ok (j : join_channels) : Prop :=
  length (jc_avail j) = 9 /\
  match jc_preferred j with Some sb => (sb <= 8)%N | None => True end /\
  match jc_avail_prev j with Some pv => (pv <= 71)%N | None => True end /\ (jc_previous j <= 71)%N.
Definition plan_shape (g : region) : Prop :=
  match rg_plan g with
  | PDyn p => dyn_ok (rg_id g) p /\ length (dp_mask p) = 9 /\ (1 <= r_num_join (rg_id g) <= 3)%N
  | PFix p => length (fp_mask p) = 9 /\ jc_ok (fp_jc p)
  end.
Definition plan_kind (g : region) : Prop := r_fixed (rg_id g) = match rg_plan g with PFix _ => true | PDyn _ => false end.
Definition region_ok (g : region) : Prop := (rg_id g < 9)%N /\ plan_shape g /\ plan_kind g.
Definition cfg_ok (g : region) (cf : configuration) : Prop :=
  uplink_dr g (cf_data_rate cf) <> None /\ (cf_rx1_dr_offset cf < 8)%N.

Lemma uplink_dr_defined g d x : uplink_dr g d = Some x -> get_datarate (rg_id g) d = Some x.
Proof. unfold uplink_dr. destruct (rg_plan g); [auto|]. destruct (d <? 8)%N; [auto|discriminate]. Qed.

Lemma datarate_index_of_get r d x : get_datarate r d = Some x -> datarate_index r d = Val (Some x).
Proof.
  unfold get_datarate, datarate_index. destruct (nth_error (r_datarates r) (N.to_nat d)) as [[y|]|]; try discriminate.
  intros H. injection H as ->. reflexivity.
Qed.

Lemma region_mask_set_ok g m : region_ok g -> length m = 9 -> region_ok (region_mask_set g m).
Proof.
  intros [Hr [Hp Hk]] H9. unfold region_ok, plan_shape, plan_kind, region_mask_set in *. cbn [rg_id rg_plan]. split; [exact Hr|].
  destruct (rg_plan g) as [p|p].
  - split; [|exact Hk]. destruct Hp as [Hd [_ HJ]]. cbn [dp_mask]. split; [|split; [exact H9|exact HJ]].
    destruct Hd as [A [B C]]. repeat split; assumption.
  - split; [|exact Hk]. destruct Hp as [_ Hj]. unfold fix_mask_set. cbn [fp_mask fp_jc]. split; [exact H9|].
    unfold jc_ok, jc_reset in *. cbn [jc_avail jc_preferred jc_avail_prev jc_previous]. tauto.
Qed.

Lemma uplink_dr_mask_set g m d : uplink_dr (region_mask_set g m) d = uplink_dr g d.
Proof. unfold uplink_dr, region_mask_set. cbn [rg_plan rg_id]. destruct (rg_plan g); reflexivity. Qed.

Lemma region_mask_len g : region_ok g -> length (region_mask g) = 9.
Proof. intros [_ [Hp _]]. unfold region_mask, plan_shape in *. destruct (rg_plan g); tauto. Qed.

Lemma set_channel_total m ch on : N.to_nat (ch / 8) < length m -> exists m', set_channel m ch on = Val m' /\ length m' = length m.
Proof.
  intros H. unfold set_channel. destruct (Nat.ltb (N.to_nat (ch / 8)) (length m)) eqn:E; [|apply Nat.ltb_ge in E; lia].
  eexists. split; [reflexivity|apply set_nth_length].
Qed.

(* ------------------------------------------------------------------ one MAC command *)
Definition hinv (h : hstate) : Prop := region_ok (h_rg h) /\ cfg_ok (h_rg h) (h_cf h) /\ length (h_mask h) = 9.

Lemma max_off_lt_8 : forall r, (r < 9)%N -> (r_max_rx1_off r < 8)%N.
Proof.
  intros r H. assert (E : forallb (fun r => (r_max_rx1_off r <? 8)%N) (map N.of_nat (seq 0 9)) = true) by (vm_compute; reflexivity).
  rewrite forallb_forall in E. specialize (E r). apply N.ltb_lt. apply E. apply in_map_iff. exists (N.to_nat r). split; [lia|apply in_seq; lia].
Qed.

Theorem handle_cmd_ok snr h cid p nx : hinv h -> exists h', handle_cmd snr h cid p nx = Val h' /\ hinv h'.
Proof.
  intros [Hrg [Hcf Hm]]. unfold handle_cmd. cbv zeta.
  destruct (N.eq_dec cid 6) as [->|N6].
  { eexists. split; [reflexivity|]. unfold hinv. cbn [h_rg h_cf h_mask]. tauto. }
  destruct (N.eq_dec cid 10) as [->|N10].
  { destruct (rg_plan (h_rg h)) as [pl|pl] eqn:Ep.
    - destruct (dyn_dl_update (rg_id (h_rg h)) pl (nthN p 0) (le_value (slice p 1 4) * 100)) as [pl' [af ac]] eqn:Ed.
      eexists. split; [reflexivity|]. unfold hinv. cbn [h_rg h_cf h_mask].
      assert (Hpl' : pl' = fst (dyn_dl_update (rg_id (h_rg h)) pl (nthN p 0) (le_value (slice p 1 4) * 100))) by (rewrite Ed; reflexivity).
      destruct Hrg as [Hr [Hp Hk]]. unfold plan_shape, plan_kind in Hp, Hk. rewrite Ep in Hp, Hk. destruct Hp as [Hd [H9 HJ]].
      assert (Hm' : dp_mask pl' = dp_mask pl).
      { rewrite Hpl'. unfold dyn_dl_update. destruct (16 <=? nthN p 0)%N; [reflexivity|]. destruct (mask_bit _ _); [|reflexivity].
        destruct (nth _ _ _); [|reflexivity]. destruct (ch_freq c =? 0)%N; [reflexivity|]. destruct (frequency_valid _ _); reflexivity. }
      split; [|split; [|exact Hm]].
      + unfold region_ok, plan_shape, plan_kind. cbn [rg_id rg_plan]. split; [exact Hr|]. split; [|exact Hk].
        split; [rewrite Hpl'; apply dl_update_keeps_ok; exact Hd|]. rewrite Hm'. tauto.
      + destruct Hcf as [C1 C2]. split; [|exact C2]. unfold uplink_dr in *. cbn [rg_plan rg_id]. rewrite Ep in C1. exact C1.
    - eexists. split; [reflexivity|]. unfold hinv. tauto. }
  destruct (N.eq_dec cid 8) as [->|N8].
  { eexists. split; [reflexivity|]. unfold hinv. cbn [h_rg h_cf h_mask]. split; [exact Hrg|]. split; [|exact Hm].
    destruct Hcf as [C1 C2]. split; cbn [cf_data_rate cf_rx1_dr_offset]; assumption. }
  destruct (N.eq_dec cid 5) as [->|N5].
  { eexists. split; [reflexivity|]. unfold hinv. cbn [h_rg h_cf h_mask]. split; [exact Hrg|]. split; [|exact Hm].
    destruct Hcf as [C1 C2].
    destruct (frequency_valid _ _); [|split; assumption].
    destruct (if N.land (nthN p 0) 15 =? 15 then _ else _)%N as [rx2v|]; [|split; assumption].
    unfold rx1_dr_offset_validate.
    destruct (N.land (N.shiftr (nthN p 0) 4) 7 <=? r_max_rx1_off (rg_id (h_rg h)))%N eqn:Eo; [|split; assumption].
    split; cbn [cf_data_rate cf_rx1_dr_offset]; [exact C1|]. pose proof (max_off_lt_8 _ (proj1 Hrg)). lia. }
  destruct (N.eq_dec cid 7) as [->|N7].
  { destruct (rg_plan (h_rg h)) as [pl|pl] eqn:Ep; [|eexists; split; [reflexivity|]; unfold hinv; tauto].
    destruct Hrg as [Hr [Hp Hk]]. unfold plan_shape, plan_kind in Hp, Hk. rewrite Ep in Hp, Hk. destruct Hp as [Hd [H9 HJ]].
    set (drr := if (N.shiftr (nthN p 4) 4 <? N.land (nthN p 4) 15)%N then None else Some (nthN p 4)).
    destruct (dyn_new_channel (rg_id (h_rg h)) pl (nthN p 0) (le_value (slice p 1 4) * 100) drr) as [[pl' [af ad]]| |] eqn:En.
    - eexists. split; [reflexivity|]. unfold hinv. cbn [h_rg h_cf h_mask].
      assert (Hm' : length (dp_mask pl') = 9).
      { revert En. unfold dyn_new_channel. destruct (nthN p 0 <? r_num_join _)%N; [intros H; injection H as <- _; exact H9|].
        destruct (16 <=? nthN p 0)%N eqn:E16; [intros H; injection H as <- _; exact H9|].
        destruct (le_value (slice p 1 4) * 100 =? 0)%N.
        - destruct (set_channel_total (dp_mask pl) (nthN p 0) false) as [m' [A B]]; [lia|]. rewrite A. intros H; injection H as <- _. cbn [dp_mask]. lia.
        - destruct drr as [raw|]; [|intros H; injection H as <- _; exact H9].
          destruct (frequency_valid _ _ && _); [|intros H; injection H as <- _; exact H9].
          destruct (set_channel_total (dp_mask pl) (nthN p 0) true) as [m' [A B]]; [lia|]. rewrite A. intros H; injection H as <- _. cbn [dp_mask]. lia. }
      split; [|split; [|exact Hm]].
      + unfold region_ok, plan_shape, plan_kind. cbn [rg_id rg_plan]. split; [exact Hr|]. split; [|exact Hk].
        split; [exact (new_channel_keeps_ok _ _ _ _ _ _ _ Hd En)|]. tauto.
      + destruct Hcf as [C1 C2]. split; [|exact C2]. unfold uplink_dr in *. cbn [rg_plan rg_id]. rewrite Ep in C1. exact C1.
    - exfalso. revert En. unfold dyn_new_channel. destruct (nthN p 0 <? r_num_join _)%N; [discriminate|].
      destruct (16 <=? nthN p 0)%N eqn:E16; [discriminate|].
      destruct (le_value (slice p 1 4) * 100 =? 0)%N.
      + destruct (set_channel_total (dp_mask pl) (nthN p 0) false) as [m' [A B]]; [lia|]. rewrite A. discriminate.
      + destruct drr as [raw|]; [|discriminate]. destruct (frequency_valid _ _ && _); [|discriminate].
        destruct (set_channel_total (dp_mask pl) (nthN p 0) true) as [m' [A B]]; [lia|]. rewrite A. discriminate.
    - exfalso. revert En. unfold dyn_new_channel. destruct (nthN p 0 <? r_num_join _)%N; [discriminate|].
      destruct (16 <=? nthN p 0)%N eqn:E16; [discriminate|].
      destruct (le_value (slice p 1 4) * 100 =? 0)%N.
      + destruct (set_channel_total (dp_mask pl) (nthN p 0) false) as [m' [A B]]; [lia|]. rewrite A. discriminate.
      + destruct drr as [raw|]; [|discriminate]. destruct (frequency_valid _ _ && _); [|discriminate].
        destruct (set_channel_total (dp_mask pl) (nthN p 0) true) as [m' [A B]]; [lia|]. rewrite A. discriminate. }
  destruct (N.eq_dec cid 3) as [->|N3].
  2: { (* every other CID: ignored *)
       assert (Hd : handle_cmd snr h cid p nx = Val h).
       { unfold handle_cmd. cbv zeta.
         destruct cid as [|[[[[|[]|]|[[]|[]|]|]|[[[]|[]|]|[[]|[]|]|]|]|[[[|[]|]|[[]|[]|]|]|[[[]|[]|]|[[]|[]|]|]|]|]]; try reflexivity; exfalso; lia. }
       unfold handle_cmd in Hd. cbv zeta in Hd. rewrite Hd. exists h. split; [reflexivity|]. unfold hinv. tauto. }
  (* LinkADRReq *)
  set (ctl := N.land (N.shiftr (nthN p 3) 4) 7).
  assert (Hctl : (ctl < 8)%N) by (subst ctl; change 7%N with (N.ones 3); rewrite N.land_ones; apply N.mod_lt; discriminate).
  assert (Hupd : exists mo, region_mask_update (h_rg h) (h_mask h) ctl (nthN p 1) (nthN p 2) = Val mo /\ match mo with Some m' => length m' = 9 | None => True end).
  { unfold region_mask_update. destruct (rg_plan (h_rg h)).
    - exact (mask_update_total false _ _ _ _ Hm Hctl).
    - exact (mask_update_total true _ _ _ _ Hm Hctl). }
  destruct Hupd as [mo [Hu Hlen]]. rewrite Hu.
  set (mk := match mo with Some m' => (m', h_known h) | None => (h_mask h, false) end).
  assert (Hmk : length (fst mk) = 9) by (subst mk; destruct mo; cbn [fst]; assumption).
  destruct mk as [msk known] eqn:Emk. cbn [fst] in Hmk.
  destruct nx.
  { eexists. split; [reflexivity|]. unfold hinv. cbn [h_rg h_cf h_mask]. tauto. }
  set (drf := N.shiftr (nthN p 0) 4). set (pwf := N.land (nthN p 0) 15).
  set (dr := if (drf =? 15)%N then Some (cf_data_rate (h_cf h)) else match uplink_dr (h_rg h) drf with Some _ => Some drf | None => None end).
  assert (Hdr : forall d, dr = Some d -> uplink_dr (h_rg h) d <> None).
  { intros d. subst dr. destruct (drf =? 15)%N; [intros H; injection H as <-; exact (proj1 Hcf)|].
    destruct (uplink_dr (h_rg h) drf) eqn:Eu; [intros H; injection H as <-; rewrite Eu; discriminate|discriminate]. }
  assert (Hval : exists vok, region_mask_validate (h_rg h) msk dr = Val vok).
  { unfold region_mask_validate. destruct (rg_plan (h_rg h)) eqn:Ep; [eexists; reflexivity|].
    unfold fix_mask_validate. destruct dr as [d|]; [|eexists; reflexivity].
    specialize (Hdr d eq_refl). destruct (uplink_dr (h_rg h) d) as [x|] eqn:Eu; [|congruence].
    rewrite (datarate_index_of_get _ _ _ (uplink_dr_defined _ _ _ Eu)). destruct x as [[sf bw] mp]. eexists. reflexivity. }
  destruct Hval as [vok Hv]. rewrite Hv.
  set (pw := if (pwf =? 15)%N then Some (cf_tx_power (h_cf h)) else match tx_power_adjust (rg_id (h_rg h)) pwf with Some x => Some (Some x) | None => None end).
  destruct (known && vok) eqn:Eack; destruct dr as [d|] eqn:Edr; destruct pw as [pwv|] eqn:Epw;
    (eexists; split; [reflexivity|]); unfold hinv; cbn [h_rg h_cf h_mask];
    try (split; [exact Hrg|split; [exact Hcf|exact (region_mask_len _ Hrg)]]).
  split; [apply region_mask_set_ok; assumption|]. split; [|apply region_mask_len, region_mask_set_ok; assumption].
  split; cbn [set_cfg cf_data_rate cf_rx1_dr_offset]; [rewrite uplink_dr_mask_set; exact (Hdr d eq_refl)|exact (proj2 Hcf)].
Qed.

(* ------------------------------------------------------------------ a whole command stream, a whole frame *)
Theorem handle_cmds_ok snr : forall items h, hinv h -> exists h', handle_cmds snr h items = Val h' /\ hinv h'.
Proof.
  induction items as [|it rest IH]; intros h Hh; [exists h; split; [reflexivity|exact Hh]|].
  destruct it as [cid p| |]; cbn [handle_cmds]; try (exists h; split; [reflexivity|exact Hh]).
  destruct (handle_cmd_ok snr h cid p (match rest with it :: _ => is_linkadr it | [] => false end) Hh) as [h1 [E1 H1]].
  rewrite E1. exact (IH h1 H1).
Qed.

Theorem handle_downlink_macs_ok snr cf rg pending bytes : region_ok rg -> cfg_ok rg cf ->
  exists cf' rg' pend', handle_downlink_macs snr cf rg pending bytes = Val (cf', rg', pend') /\ region_ok rg' /\ cfg_ok rg' cf'.
Proof.
  intros Hrg Hcf. unfold handle_downlink_macs.
  destruct (handle_cmds_ok snr (parse_all dl_mac_table bytes)
              {| h_cf := cf; h_rg := rg; h_pending := pending; h_full := false; h_mask := region_mask rg; h_nadr := 0; h_known := true |})
    as [h' [E [A [B _]]]].
  { unfold hinv. cbn [h_rg h_cf h_mask]. split; [exact Hrg|]. split; [exact Hcf|apply region_mask_len; exact Hrg]. }
  rewrite E. eexists; eexists; eexists. split; [reflexivity|]. split; assumption.
Qed.

Section NoPanic.
  Variable enc : list N -> list N -> list N.
  Variable mac_fn : list N -> list N -> list N.

  Lemma decrypt_after_validate bs nwk app fcnt lay : validate bs = Ok lay ->
    exists buf, decrypt_in_place enc bs (Some nwk) (Some app) fcnt = (Ok lay, buf).
  Proof.
    intros H. unfold decrypt_in_place. rewrite H. destruct (Nat.ltb (l_frm_start lay) (l_frm_end lay)); [|eexists; reflexivity].
    destruct (match l_f_port_offset lay with Some off => negb (nthN bs off =? 0)%N | None => false end); eexists; reflexivity.
  Qed.

  Lemma next_lower_defined r d d' : next_lower_datarate r d = Some d' -> get_datarate r d' <> None /\ (d' < d)%N.
  Proof.
    unfold next_lower_datarate.
    destruct (find _ _) as [c|] eqn:Ef; [|discriminate]. intros H. injection H as <-.
    apply find_some in Ef. destruct Ef as [Hin Hc]. apply in_rev, in_seq in Hin.
    split; [|lia]. destruct (get_datarate r (N.of_nat c)); [discriminate|discriminate Hc].
  Qed.

  (* ADR back-off keeps the configured data rate an uplink data rate *)
  Lemma rx2_complete_cfg_ok s cf rg : region_ok rg -> cfg_ok rg cf ->
    cfg_ok rg (snd (fst (rx2_complete_session s cf (rg_id rg)))).
  Proof.
    intros Hrg [C1 C2]. unfold rx2_complete_session.
    destruct (ss_fcnt_up s =? 4294967295)%N; [split; assumption|].
    destruct (cf_adr cf); [|split; assumption].
    destruct ((c_adr_ack_limit + c_adr_ack_delay <=? _)%N && _); [|split; assumption].
    destruct (next_lower_datarate (rg_id rg) (cf_data_rate cf)) as [d'|] eqn:En; [|split; assumption].
    cbn [fst snd]. split; [|exact C2]. cbn [cf_data_rate].
    destruct (next_lower_defined _ _ _ En) as [Hd Hlt].
    unfold uplink_dr in *. destruct (rg_plan rg); [exact Hd|].
    destruct (cf_data_rate cf <? 8)%N eqn:E8; [|congruence].
    replace (d' <? 8)%N with true by (symmetry; apply N.ltb_lt; apply N.ltb_lt in E8; lia). exact Hd.
  Qed.

  (* NO RECEIVED FRAME PANICS THE SESSION: for every byte string, in Class A windows and in Class C reception *)
  Theorem handle_rx_session_total s cf rg bytes mp snr ignore_mac : region_ok rg -> cfg_ok rg cf ->
    exists o, handle_rx_session enc mac_fn s cf rg bytes mp snr ignore_mac = Val o /\ region_ok (ro_rg o) /\ cfg_ok (ro_rg o) (ro_cf o).
  Proof.
    intros Hrg Hcf. unfold handle_rx_session. cbv zeta.
    destruct (validate bytes) as [lay|e] eqn:Ev; [|eexists; split; [reflexivity|split; assumption]].
    destruct (Nat.ltb _ (length bytes)).
    { destruct ignore_mac; [eexists; split; [reflexivity|split; assumption]|].
      pose proof (rx2_complete_cfg_ok s cf rg Hrg Hcf) as Hc.
      destruct (rx2_complete_session s cf (rg_id rg)) as [[s' cf'] resp]. cbn [fst snd] in Hc.
      eexists. split; [reflexivity|]. cbn [ro_rg ro_cf]. split; assumption. }
    destruct (next_fcnt_down (ss_fcnt_down s) (v_fcnt bytes)) as [fcnt|]; [|eexists; split; [reflexivity|split; assumption]].
    destruct (negb (validate_mic mac_fn bytes (ss_nwkskey s) fcnt)); [eexists; split; [reflexivity|split; assumption]|].
    destruct (decrypt_after_validate bytes (ss_nwkskey s) (ss_appskey s) fcnt lay Ev) as [buf Ed]. rewrite Ed.
    destruct ignore_mac.
    - (* Class C reception: MAC commands ignored *)
      destruct (v_f_port buf lay) as [pt|]; eexists; (split; [reflexivity|]); cbn [ro_rg ro_cf]; split; assumption.
    - destruct (handle_downlink_macs_ok snr cf rg [] (v_f_opts buf lay) Hrg Hcf) as [cf1 [rg1 [p1 [E1 [R1 C1]]]]]. rewrite E1.
      destruct (v_f_port buf lay) as [[|pt]|] eqn:Ep.
      + destruct (handle_downlink_macs_ok snr cf1 rg1 p1 (v_frm buf lay) R1 C1) as [cf2 [rg2 [p2 [E2 [R2 C2]]]]]. rewrite E2.
        eexists. split; [reflexivity|]. cbn [ro_rg ro_cf]. split; assumption.
      + eexists. split; [reflexivity|]. cbn [ro_rg ro_cf]. split; assumption.
      + eexists. split; [reflexivity|]. cbn [ro_rg ro_cf]. split; assumption.
  Qed.
End NoPanic.

(* ------------------------------------------------------------------ MAC level *)
Definition mac_ok (m : mac) : Prop := region_ok (m_region m) /\ cfg_ok (m_region m) (m_cfg m).

Lemma mac_new_ok r p g : (r < 9)%N -> mac_ok (mac_new r p g).
Proof.
  intros Hr. unfold mac_ok, mac_new. cbn [m_region m_cfg].
  assert (E : forallb (fun r => match rg_plan (region_new r) with
                                | PDyn pl => negb (r_fixed r) && Nat.eqb (length (dp_mask pl)) 9 && (1 <=? r_num_join r)%N && (r_num_join r <=? 3)%N
                                | PFix pl => r_fixed r && Nat.eqb (length (fp_mask pl)) 9 && Nat.eqb (length (jc_avail (fp_jc pl))) 9 end
                                && match uplink_dr (region_new r) 0 with Some _ => true | None => false end)
                      (map N.of_nat (seq 0 9)) = true) by (vm_compute; reflexivity).
  rewrite forallb_forall in E. specialize (E r).
  assert (Hin : In r (map N.of_nat (seq 0 9))) by (apply in_map_iff; exists (N.to_nat r); split; [lia|apply in_seq; lia]).
  specialize (E Hin). apply andb_true_iff in E. destruct E as [E1 E2].
  split.
  - unfold region_ok, plan_shape, plan_kind. split; [exact Hr|]. unfold region_new in *. cbn [rg_plan rg_id] in *.
    destruct (r_fixed r) eqn:Ef.
    + apply andb_true_iff in E1. destruct E1 as [E1 B]. apply andb_true_iff in E1. destruct E1 as [_ A].
      split; [|reflexivity]. split; [apply Nat.eqb_eq, A|]. unfold jc_ok, fix_new, jc_default. cbn. repeat split; lia.
    + apply andb_true_iff in E1. destruct E1 as [E1 D]. apply andb_true_iff in E1. destruct E1 as [E1 C].
      apply andb_true_iff in E1. destruct E1 as [_ B]. split; [|reflexivity].
      split; [apply dyn_new_ok; assumption|]. split; [apply Nat.eqb_eq, B|]. lia.
  - unfold cfg_ok. cbn [cf_data_rate cf_rx1_dr_offset]. split; [|lia].
    destruct (uplink_dr (region_new r) 0); [discriminate|discriminate E2].
Qed.

Lemma ecb_len (f : list N -> list N) x : (forall b, length (f b) = 16) -> length x = 16 \/ length x = 32 -> length (L2Frame.ecb f x) = length x.
Proof. intros Hf [H|H]; unfold L2Frame.ecb; rewrite H; cbn [Nat.div Nat.divmod fst]; rewrite ?app_length, !Hf; lia. Qed.

Lemma ja_clear_length enc mac_fn bs key clear : (forall k b, length (enc k b) = 16) ->
  ja_check_mic_and_decrypt enc mac_fn bs key = (Ok tt, clear) -> length clear = 17 \/ length clear = 33.
Proof.
  intros Hl. unfold ja_check_mic_and_decrypt, ja_decrypt_in_place, validate_join_accept_structure.
  destruct (check_mhdr bs 1) as [u|e]; [|intros H; discriminate].
  destruct (Nat.eqb (length bs) 17 || Nat.eqb (length bs) 33) eqn:E; [|intros H; discriminate].
  destruct bs as [|b0 tl]; [discriminate|]. cbn [length] in E.
  assert (Hx : length tl = 16 \/ length tl = 32) by lia.
  cbn [skipn]. rewrite (Proofs.FrameProofs.map_blocks_ecb (enc key) tl Hx).
  destruct (ja_validate_mic _ _ _); intros H; [|discriminate]. injection H as <-.
  cbn [length]. rewrite (ecb_len (enc key) tl (Hl key) Hx). lia.
Qed.

Lemma cfl_of_clear_shape clear : length clear = 17 \/ length clear = 33 ->
  match join_cflist clear with CflDyn fs => length fs = 5 | CflFix mk => length mk = 9 | CflNone => True end.
Proof.
  intros Hl. unfold join_cflist, ja_c_f_list. destruct (Nat.eqb (length clear) 17) eqn:E; [exact I|].
  assert (H33 : length clear = 33) by lia.
  destruct (nthN (slice clear 13 29) 15) as [|[[]|[]|]]; try exact I; [reflexivity|].
  unfold slice. rewrite firstn_length, firstn_length, skipn_length, H33. reflexivity.
Qed.

Lemma region_ok_wf g : region_ok g -> region_wf g.
Proof. intros [_ [H _]]. unfold region_wf, plan_shape in *. destruct (rg_plan g); [|exact I]. destruct H as [[H16 _] [_ HJ]]. split; [exact H16|lia]. Qed.

Lemma region_join_accept_total g c : region_ok g ->
  match c with CflDyn fs => length fs = 5 | CflFix mk => length mk = 9 | CflNone => True end ->
  exists g', region_join_accept g c = Val g' /\ region_ok g' /\ (forall d, uplink_dr g' d = uplink_dr g d).
Proof.
  intros Hok Hc. pose proof (cflist_applied g c (region_ok_wf g Hok)) as S.
  destruct Hok as [Hr [Hp Hk]]. unfold region_ok, plan_shape, plan_kind, uplink_dr in *.
  destruct (rg_plan g) as [p|p] eqn:Ep; destruct c as [|fs|mk].
  - exists g. split; [exact S|]. rewrite Ep. split; [split; [exact Hr|split; assumption]|reflexivity].
  - destruct (S Hc) as [chs' [S1 [S2 _]]]. eexists. split; [exact S1|]. cbn [rg_id rg_plan dp_mask]. split; [|reflexivity].
    split; [exact Hr|]. split; [|exact Hk]. destruct Hp as [Hd [H9 HJ]]. split; [|split; assumption].
    pose proof S1 as S1'. unfold region_join_accept in S1'. rewrite Ep in S1'.
    destruct (dyn_cflist (rg_id g) (dp_channels p) (N.to_nat (r_num_join (rg_id g))) fs) as [c2| |] eqn:Ec; try discriminate.
    injection S1' as ->. apply (cflist_keeps_ok (rg_id g) p fs chs' Hd Hc); [lia|exact Ec].
  - exists g. split; [exact S|]. rewrite Ep. split; [split; [exact Hr|split; assumption]|reflexivity].
  - eexists. split; [exact S|]. cbn [rg_id rg_plan fp_mask fp_jc]. split; [|reflexivity]. split; [exact Hr|]. split; [|exact Hk]. split; [reflexivity|tauto].
  - eexists. split; [exact S|]. cbn [rg_id rg_plan fp_mask fp_jc]. split; [|reflexivity]. split; [exact Hr|]. split; [|exact Hk]. split; [reflexivity|tauto].
  - eexists. split; [exact S|]. cbn [rg_id rg_plan fp_mask fp_jc]. split; [|reflexivity]. split; [exact Hr|]. split; [|exact Hk]. split; [exact Hc|].
    destruct Hp as [_ Hj]. unfold jc_ok, jc_reset in *. cbn [jc_avail jc_preferred jc_avail_prev jc_previous]. tauto.
Qed.

Section MacNoPanic.
  Variable enc : list N -> list N -> list N.
  Variable mac_fn : list N -> list N -> list N.
  Hypothesis enc_len : forall k b, length (enc k b) = 16.

  (* NO RECEIVED BYTE STRING PANICS THE MAC, in any activation state, in Class A windows or Class C reception; the invariant is kept *)
  Theorem mac_handle_rx_total m bytes snr mp cc : mac_ok m ->
    exists o, mac_handle_rx enc mac_fn m bytes snr mp cc = Val o /\ (forall mo, o = Some mo -> mac_ok (mo_mac mo)).
  Proof.
    intros [Hrg Hcf]. unfold mac_handle_rx. destruct (m_state m) as [s|nonce c|] eqn:Es.
    - destruct (handle_rx_session_total enc mac_fn s (m_cfg m) (m_region m) bytes mp snr cc Hrg Hcf) as [o [E [R C]]].
      rewrite E. eexists. split; [reflexivity|]. intros mo H. injection H as <-. split; assumption.
    - destruct cc; [eexists; split; [reflexivity|]; intros mo H; discriminate|].
      unfold otaa_handle_rx.
      destruct (ja_check_mic_and_decrypt enc mac_fn bytes (cr_appkey c)) as [[u|e] clear] eqn:Ej.
      + destruct u. pose proof (ja_clear_length enc mac_fn bytes (cr_appkey c) clear enc_len Ej) as Hl.
        pose proof (cfl_of_clear_shape clear Hl) as Hsh. unfold join_cflist in Hsh.
        destruct (region_join_accept_total (m_region m) _ Hrg Hsh) as [g' [Eg [Rg Ug]]]. rewrite Eg.
        eexists. split; [reflexivity|]. intros mo H. injection H as <-. cbn [mo_mac]. split; cbn [m_region m_cfg]; [exact Rg|].
        destruct Hcf as [C1 C2]. split; cbn [cf_data_rate cf_rx1_dr_offset]; [rewrite Ug; exact C1|].
        unfold rx1_dr_offset_validate. destruct (_ <=? r_max_rx1_off _)%N eqn:Eo; [|exact C2].
        pose proof (max_off_lt_8 _ (proj1 Hrg)). lia.
      + eexists. split; [reflexivity|]. intros mo H. injection H as <-. split; assumption.
    - destruct cc; eexists; (split; [reflexivity|]); intros mo H; [discriminate|]. injection H as <-. split; assumption.
  Qed.

  Theorem mac_rx2_complete_ok m : mac_ok m -> mac_ok (fst (mac_rx2_complete m)).
  Proof.
    intros [Hrg Hcf]. unfold mac_rx2_complete. destruct (m_state m) as [s|nonce c|]; [|split; assumption|split; assumption].
    pose proof (rx2_complete_cfg_ok s (m_cfg m) (m_region m) Hrg Hcf) as Hc.
    destruct (rx2_complete_session s (m_cfg m) (rg_id (m_region m))) as [[s' cf'] resp]. cbn [fst snd] in *. split; assumption.
  Qed.
End MacNoPanic.

(* ------------------------------------------------------------------ transmit path: channel selection never panics *)
Lemma rposition_acc l : forall k a, rposition_some l k (Some a) <> None.
Proof. induction l as [|[c|] l IH]; intros k a; cbn [rposition_some]; [discriminate|apply IH|apply IH]. Qed.

Lemma rposition_defined l : forall i c k acc, nth_error l i = Some (Some c) -> rposition_some l k acc <> None.
Proof.
  induction l as [|x l IH]; intros i c k acc H; [destruct i; discriminate|].
  destruct i as [|i]; cbn [nth_error] in H.
  - injection H as ->. cbn [rposition_some]. apply rposition_acc.
  - destruct x; cbn [rposition_some]; [apply rposition_acc|exact (IH i c _ _ H)].
Qed.

Lemma dyn_random_total r p d : dyn_ok r p -> (1 <= r_num_join r)%N -> exists chn, dyn_random_in_range p d = Val chn /\ (chn <= 31)%N.
Proof.
  intros [_ [_ Hj]] HJ. destruct (Hj 0 ltac:(lia)) as [c [Hc _]]. unfold dyn_random_in_range.
  destruct (rposition_some (dp_channels p) 0 None) as [hi|] eqn:E; [|exfalso; exact (rposition_defined _ _ _ _ _ Hc E)].
  eexists. split; [reflexivity|].
  pose proof (land_le_r d 31). pose proof (land_le_r d 15). pose proof (land_le_r d 7).
  destruct (Nat.ltb 16 (S hi)); [lia|]. destruct (Nat.ltb 8 (S hi)); lia.
Qed.

Lemma is_enabled_total m c : (c <= 71)%N -> exists b, is_enabled m c = Val b.
Proof. intros H. unfold is_enabled. destruct (71 <? c)%N eqn:E; [lia|]. eexists; reflexivity. Qed.

Lemma dyn_select_data_no_panic r p dr dt : dyn_ok r p -> (1 <= r_num_join r)%N -> datarate_index r dr = Val (Some dt) ->
  forall draws, dyn_select_data r p dr draws <> Panic.
Proof.
  intros Hok HJ Hd. induction draws as [|d ds IH]; [discriminate|]. cbn [dyn_select_data].
  destruct (dyn_random_total r p d Hok HJ) as [chn [Ec Hle]]. rewrite Ec.
  destruct (is_enabled_total (dp_mask p) chn ltac:(lia)) as [b Eb]. rewrite Eb.
  destruct b; [|exact IH]. destruct (nth _ _ _); [rewrite Hd; discriminate|exact IH].
Qed.

Lemma dyn_select_join_no_panic r p dr dt : dyn_ok r p -> datarate_index r dr = Val (Some dt) ->
  forall draws, dyn_select_join r p dr draws <> Panic.
Proof.
  intros [_ [_ Hj]] Hd. induction draws as [|d ds IH]; [discriminate|]. cbn [dyn_select_join].
  destruct (r_num_join r <=? N.land d 3)%N eqn:E; [exact IH|]. apply N.leb_gt in E.
  destruct (Hj (N.to_nat (N.land d 3)) ltac:(lia)) as [c [Hc _]]. rewrite (nth_error_nth _ _ None Hc), Hd. discriminate.
Qed.

(* fixed plans *)
Lemma fixed_tables : forall r, r_fixed r = true -> length (r_uplink r) = 72 /\ length (r_downlink r) = 8 /\
  get_datarate r (r_join_dr r false) <> None /\ get_datarate r (r_join_dr r true) <> None.
Proof.
  intros r H. unfold r_fixed in H. apply orb_true_iff in H. destruct H as [H|H]; apply N.eqb_eq in H; subst r; vm_compute; repeat split; discriminate.
Qed.

Lemma fix_mk_tx_total r dr chn p rest dt : r_fixed r = true -> (chn <= 71)%N -> datarate_index r dr = Val (Some dt) ->
  exists tc, fix_mk_tx r dr chn p rest = Val (tc, p, rest) /\ tc_dr tc = dr.
Proof.
  intros Hf Hc Hd. destruct (fixed_tables r Hf) as [L1 [L2 _]]. unfold fix_mk_tx. rewrite Hd.
  destruct (nth_error (r_uplink r) (N.to_nat chn)) as [f|] eqn:E1; [|apply nth_error_None in E1; lia].
  destruct (nth_error (r_downlink r) (N.to_nat (chn mod 8))) as [f1|] eqn:E2; [|apply nth_error_None in E2; lia].
  eexists. split; reflexivity.
Qed.

Lemma avail_scan_ok m bank : (bank <= 8)%N -> forall steps entropy used draws,
  avail_scan m bank entropy used steps draws <> Panic /\
  forall chn rest, avail_scan m bank entropy used steps draws = Val (chn, rest) -> (chn <= 71)%N.
Proof.
  intros Hb. induction steps as [|k IH]; intros entropy used draws; [split; [discriminate|intros; discriminate]|].
  cbn [avail_scan].
  assert (Hc : (N.land entropy 7 + bank * 8 <= 71)%N).
  { pose proof (land_le_r entropy 7). lia. }
  destruct (is_enabled_total m _ Hc) as [b Eb]. rewrite Eb. destruct b.
  - split; [discriminate|]. intros chn rest H. injection H as <- _. exact Hc.
  - destruct (Nat.eqb used 10); [destruct draws as [|d rest]; [split; [discriminate|intros; discriminate]|apply IH]|apply IH].
Qed.

Lemma jc_pick_ok j draws : jc_ok j ->
  avail_get_next j draws <> Panic /\
  forall chn j' rest, avail_get_next j draws = Val (chn, j', rest) -> (chn <= 71)%N /\ jc_ok j'.
Proof.
  intros [H9 [Hp [Hv Hpr]]]. unfold avail_get_next.
  set (dp := if is_exhausted (jc_avail j) then (mask_default, None) else (jc_avail j, jc_avail_prev j)).
  assert (Hdp : length (fst dp) = 9 /\ match snd dp with Some pv => (pv <= 71)%N | None => True end).
  { subst dp. destruct (is_exhausted (jc_avail j)); cbn [fst snd]; [split; [reflexivity|exact I]|split; assumption]. }
  destruct dp as [data prev]. cbn [fst snd] in Hdp. destruct Hdp as [Hl Hpv].
  set (pick := match prev with
               | Some pv => if (255 <? pv + 8)%N then Panic else
                   match is_enabled data ((pv + 8) mod 72) with
                   | Val true => Val ((pv + 8) mod 72, draws)%N
                   | Val false => match draws with [] => OutOfDraws | d :: rest => avail_scan data ((pv + 8) mod 72 / 8) d 1 (12 * (1 + length rest)) rest end
                   | Panic => Panic | OutOfDraws => OutOfDraws end
               | None => match draws with [] => OutOfDraws | d :: rest => Val (N.land (d mod 256) 63, rest) end end).
  assert (Hpick : pick <> Panic /\ forall chn rest, pick = Val (chn, rest) -> (chn <= 71)%N).
  { subst pick. destruct prev as [pv|].
    - destruct (255 <? pv + 8)%N eqn:E; [lia|].
      assert (Hn : ((pv + 8) mod 72 <= 71)%N) by (assert ((pv + 8) mod 72 < 72)%N by (apply N.mod_lt; discriminate); lia).
      destruct (is_enabled_total data _ Hn) as [b Eb]. rewrite Eb. destruct b.
      + split; [discriminate|]. intros chn rest H. injection H as <- _. exact Hn.
      + destruct draws as [|d rest]; [split; [discriminate|intros; discriminate]|].
        apply avail_scan_ok. assert ((pv + 8) mod 72 < 72)%N by (apply N.mod_lt; discriminate). lia.
    - destruct draws as [|d rest]; [split; [discriminate|intros; discriminate]|]. split; [discriminate|].
      intros chn r0 H. injection H as <- _. pose proof (land_le_r (d mod 256) 63). lia. }
  fold pick. destruct Hpick as [P1 P2]. destruct pick as [[chn rest]| |]; [|congruence|split; [discriminate|intros; discriminate]].
  specialize (P2 chn rest eq_refl).
  destruct (set_channel_total data chn false) as [d' [A B]]; [rewrite Hl; lia|]. rewrite A.
  split; [discriminate|]. intros c j' r0 H. injection H as <- <- _. split; [exact P2|].
  unfold jc_ok. cbn [jc_avail jc_preferred jc_avail_prev jc_previous]. repeat split; try assumption; lia.
Qed.

Lemma jc_get_next_ok j draws : jc_ok j ->
  jc_get_next j draws <> Panic /\
  forall chn j' rest, jc_get_next j draws = Val (chn, j', rest) -> (chn <= 71)%N /\ jc_ok j'.
Proof.
  intros Hj. pose proof Hj as [H9 [Hp [Hv Hpr]]]. unfold jc_get_next.
  assert (Hbump : jc_ok {| jc_max_retries := jc_max_retries j; jc_num_retries := jc_num_retries j + 1; jc_preferred := jc_preferred j;
                           jc_avail := jc_avail j; jc_avail_prev := jc_avail_prev j; jc_previous := jc_previous j |}).
  { unfold jc_ok. cbn [jc_avail jc_preferred jc_avail_prev jc_previous]. tauto. }
  destruct (jc_preferred j) as [sb|] eqn:Ep; [|exact (jc_pick_ok _ draws Hbump)]. cbv iota in Hp.
  destruct (jc_num_retries j <? jc_max_retries j)%N; [|exact (jc_pick_ok _ draws Hbump)].
  destruct draws as [|d rest]; [split; [discriminate|intros; discriminate]|].
  assert (Hc : (d mod 8 + (sb - 1) * 8 <= 63)%N) by (assert (d mod 8 < 8)%N by (apply N.mod_lt; discriminate); lia).
  destruct (jc_num_retries j + 1 =? jc_max_retries j)%N.
  - destruct (set_channel_total (jc_avail j) (d mod 8 + (sb - 1) * 8) false) as [av [A B]]; [rewrite H9; lia|]. rewrite A.
    split; [discriminate|]. intros chn j' r0 H. injection H as <- <- _. split; [lia|].
    unfold jc_ok. cbn [jc_avail jc_preferred jc_avail_prev jc_previous]. repeat split; try assumption; lia.
  - split; [discriminate|]. intros chn j' r0 H. injection H as <- <- _. split; [lia|].
    unfold jc_ok. cbn [jc_avail jc_preferred jc_avail_prev jc_previous]. repeat split; try assumption; lia.
Qed.

Lemma fix_draw_ok m bits base : (bits + base <= 71)%N -> forall draws,
  fix_draw_enabled m bits base draws <> Panic /\ forall chn rest, fix_draw_enabled m bits base draws = Val (chn, rest) -> (chn <= 71)%N.
Proof.
  intros Hb. induction draws as [|d ds IH]; [split; [discriminate|intros; discriminate]|]. cbn [fix_draw_enabled].
  assert (Hc : (N.land d bits + base <= 71)%N) by (pose proof (land_le_r d bits); lia).
  destruct (is_enabled_total m _ Hc) as [b Eb]. rewrite Eb. destruct b; [|exact IH].
  split; [discriminate|]. intros chn rest H. injection H as <- _. exact Hc.
Qed.

Lemma fallback_mask_len m wide : length m = 9 -> length (fix_fallback_mask m wide) = 9.
Proof.
  intros H. unfold fix_fallback_mask. destruct wide.
  - destruct (any_enabled m 64 8); [exact H|]. rewrite set_nth_length. exact H.
  - destruct (any_enabled m 0 64); [exact H|]. rewrite app_length, repeat_length, skipn_length, H. reflexivity.
Qed.

Lemma dr_table_len : forall r, (r < 9)%N -> length (r_datarates r) <= 16.
Proof.
  intros r H. assert (E : forallb (fun r => Nat.leb (length (r_datarates r)) 16) (map N.of_nat (seq 0 9)) = true) by (vm_compute; reflexivity).
  rewrite forallb_forall in E. apply Nat.leb_le. apply E. apply in_map_iff. exists (N.to_nat r). split; [lia|apply in_seq; lia].
Qed.
Lemma dr_index_lt_16 r d x : (r < 9)%N -> datarate_index r d = Val (Some x) -> (d < 16)%N.
Proof.
  intros Hr H. unfold datarate_index in H. destruct (nth_error (r_datarates r) (N.to_nat d)) eqn:E; [|discriminate].
  assert (N.to_nat d < length (r_datarates r)) by (apply nth_error_Some; congruence). pose proof (dr_table_len r Hr). lia.
Qed.

Theorem fix_select_ok r p dr dt join draws : (r < 9)%N -> r_fixed r = true -> length (fp_mask p) = 9 -> jc_ok (fp_jc p) ->
  datarate_index r dr = Val (Some dt) ->
  fix_select r p dr join draws <> Panic /\
  forall tc p' rest, fix_select r p dr join draws = Val (tc, p', rest) -> length (fp_mask p') = 9 /\ jc_ok (fp_jc p') /\ (tc_dr tc < 16)%N.
Proof.
  intros Hr Hf H9 Hj Hd. destruct (fixed_tables r Hf) as [_ [_ [J1 J2]]].
  assert (Hvia : forall via, via = match jc_get_next (fp_jc p) draws with
      | Val (chn, j', rest) => fix_mk_tx r (r_join_dr r (negb (chn <? 64)%N)) chn {| fp_mask := fp_mask p; fp_jc := j' |} rest
      | Panic => Panic | OutOfDraws => OutOfDraws end ->
      via <> Panic /\ forall tc p' rest, via = Val (tc, p', rest) -> length (fp_mask p') = 9 /\ jc_ok (fp_jc p') /\ (tc_dr tc < 16)%N).
  { intros via ->. destruct (jc_get_next_ok (fp_jc p) draws Hj) as [N1 N2].
    destruct (jc_get_next (fp_jc p) draws) as [[[chn j'] rest]| |]; [|congruence|split; [discriminate|intros; discriminate]].
    destruct (N2 chn j' rest eq_refl) as [Hc Hj'].
    assert (Hjd : exists x, datarate_index r (r_join_dr r (negb (chn <? 64)%N)) = Val (Some x)).
    { destruct (negb (chn <? 64)%N).
      - destruct (get_datarate r (r_join_dr r true)) as [x|] eqn:E; [|congruence]. exists x. exact (datarate_index_of_get _ _ _ E).
      - destruct (get_datarate r (r_join_dr r false)) as [x|] eqn:E; [|congruence]. exists x. exact (datarate_index_of_get _ _ _ E). }
    destruct Hjd as [x Hx].
    destruct (fix_mk_tx_total r _ chn {| fp_mask := fp_mask p; fp_jc := j' |} rest x Hf Hc Hx) as [tc [E Edr]]. rewrite E.
    split; [discriminate|]. intros tc0 p' r0 H. injection H as <- <- _. cbn [fp_mask fp_jc]. split; [exact H9|]. split; [exact Hj'|].
    rewrite Edr. exact (dr_index_lt_16 r _ x Hr Hx). }
  assert (Hmasked : fix_select_masked r p dr draws <> Panic /\
      forall tc p' rest, fix_select_masked r p dr draws = Val (tc, p', rest) -> length (fp_mask p') = 9 /\ jc_ok (fp_jc p') /\ (tc_dr tc < 16)%N).
  { unfold fix_select_masked. rewrite Hd. destruct dt as [[sf bw] mp].
    set (m := fix_fallback_mask (fp_mask p) (bw =? 9)%N).
    assert (Hm : length m = 9) by (apply fallback_mask_len; exact H9).
    assert (Hdraw : forall dd, dd = (if (bw =? 9)%N then fix_draw_enabled m 7 64 draws else fix_draw_enabled m 63 0 draws) ->
                    dd <> Panic /\ forall chn rest, dd = Val (chn, rest) -> (chn <= 71)%N).
    { intros dd ->. destruct (bw =? 9)%N; apply fix_draw_ok; lia. }
    destruct (Hdraw _ eq_refl) as [D1 D2].
    destruct (if (bw =? 9)%N then fix_draw_enabled m 7 64 draws else fix_draw_enabled m 63 0 draws) as [[chn rest]| |];
      [|congruence|split; [discriminate|intros; discriminate]].
    destruct (fix_mk_tx_total r dr chn {| fp_mask := m; fp_jc := fp_jc p |} rest _ Hf (D2 chn rest eq_refl) Hd) as [tc [E Edr]]. rewrite E.
    split; [discriminate|]. intros tc0 p' r0 H. injection H as <- <- _. cbn [fp_mask fp_jc]. split; [exact Hm|]. split; [exact Hj|].
    rewrite Edr. exact (dr_index_lt_16 r _ _ Hr Hd). }
  unfold fix_select. cbv zeta.
  destruct join; [apply Hvia; reflexivity|].
  destruct (jc_has_bias (fp_jc p)); [apply Hvia; reflexivity|].
  destruct (jc_preferred (fp_jc p)) as [sb|]; [|exact Hmasked].
  destruct (negb (jc_num_retries (fp_jc p) =? 0)%N); [|exact Hmasked].
  destruct draws as [|d rest]; [split; [discriminate|intros; discriminate]|].
  rewrite Hd. destruct dt as [[sf bw] mp].
  pose proof Hj as [A9 [Ap [Av Apr]]].
  set (pc := jc_previous (jc_clear_bias (fp_jc p))). assert (Hpc : (pc <= 71)%N) by exact Apr.
  set (sb' := if (pc <? 64)%N then (pc / 8)%N else (pc mod 8)%N).
  assert (Hsb : (sb' <= 7)%N).
  { subst sb'. destruct (pc <? 64)%N eqn:E; [apply N.ltb_lt in E; lia|]. assert (pc mod 8 < 8)%N by (apply N.mod_lt; discriminate). lia. }
  set (c := (N.land d 7 + sb' * 8)%N). assert (Hc : (c <= 63)%N) by (subst c; pose proof (land_le_r d 7); lia).
  assert (Hch : ((if (bw =? 9)%N then 64 + c / 8 else c) <= 71)%N) by (destruct (bw =? 9)%N; lia).
  destruct (fix_mk_tx_total r dr _ {| fp_mask := fp_mask p; fp_jc := jc_clear_bias (fp_jc p) |} rest _ Hf Hch Hd) as [tc [E Edr]].
  fold pc. fold sb'. fold c. rewrite E.
  split; [discriminate|]. intros tc0 p' r0 H. injection H as <- <- _. cbn [fp_mask fp_jc]. split; [exact H9|]. split.
  - unfold jc_ok, jc_clear_bias. cbn [jc_avail jc_preferred jc_avail_prev jc_previous]. tauto.
  - rewrite Edr. exact (dr_index_lt_16 r _ _ Hr Hd).
Qed.

(* region level: selection never panics, keeps the shape invariant, and uses a data rate below 16 *)
Theorem region_select_ok g dr dt join draws : region_ok g -> datarate_index (rg_id g) dr = Val (Some dt) ->
  region_select g dr join draws <> Panic /\
  forall tc g' rest, region_select g dr join draws = Val (tc, g', rest) ->
    region_ok g' /\ (forall d, uplink_dr g' d = uplink_dr g d) /\ rg_id g' = rg_id g /\ (tc_dr tc < 16)%N.
Proof.
  intros [Hr [Hp Hk]] Hd. unfold region_select, plan_shape, plan_kind in *.
  destruct (rg_plan g) as [p|p] eqn:Ep.
  - destruct Hp as [Hok [H9 HJ]]. destruct join.
    + pose proof (dyn_select_join_no_panic _ _ _ _ Hok Hd draws) as NP.
      destruct (dyn_select_join (rg_id g) p dr draws) as [[tc rest]| |] eqn:Es; [|congruence|split; [discriminate|intros; discriminate]].
      split; [discriminate|]. intros tc0 g' r0 H. injection H as <- <- _.
      split; [unfold region_ok, plan_shape, plan_kind; rewrite Ep; tauto|]. split; [reflexivity|]. split; [reflexivity|].
      destruct (dyn_join_legal g p dr draws tc g rest Ep Hok) as [_ [_ [_ [Edr _]]]].
      { unfold region_select. rewrite Ep, Es. reflexivity. }
      rewrite Edr. exact (dr_index_lt_16 _ _ _ Hr Hd).
    + destruct (dyn_fallback_usable _ _ Hok H9 HJ) as [U1 [U2 U3]].
      assert (Hok1 : dyn_ok (rg_id g) (dyn_fallback (rg_id g) p)).
      { destruct Hok as [A [B C]]. unfold dyn_ok. rewrite U2. tauto. }
      assert (H91 : length (dp_mask (dyn_fallback (rg_id g) p)) = 9).
      { unfold dyn_fallback. destruct (dyn_mask_validate p (dp_mask p)); [exact H9|]. cbn [dp_mask].
        generalize (seq 0 (N.to_nat (r_num_join (rg_id g)))). intros l.
        assert (Hl : forall i, In i l -> i < 16 -> True) by auto.
        revert H9. generalize (dp_mask p). induction l as [|i l IH]; intros m Hm; [exact Hm|]. cbn [fold_left]. apply IH.
        - intros; exact I.
        - unfold set_channel. destruct (Nat.ltb (N.to_nat (N.of_nat i / 8)) (length m)); [rewrite set_nth_length; exact Hm|exact Hm]. }
      pose proof (dyn_select_data_no_panic _ _ _ _ Hok1 ltac:(lia) Hd draws) as NP.
      destruct (dyn_select_data (rg_id g) (dyn_fallback (rg_id g) p) dr draws) as [[tc rest]| |] eqn:Es; [|congruence|split; [discriminate|intros; discriminate]].
      split; [discriminate|]. intros tc0 g' r0 H. injection H as <- <- _.
      split; [unfold region_ok, plan_shape, plan_kind; cbn [rg_id rg_plan]; tauto|]. split; [unfold uplink_dr; cbn [rg_plan rg_id]; rewrite Ep; reflexivity|].
      split; [reflexivity|].
      destruct (dyn_select_data_legal _ _ _ _ _ _ Es) as [c [_ [_ [_ [_ [Edr _]]]]]]. rewrite Edr. exact (dr_index_lt_16 _ _ _ Hr Hd).
  - destruct Hp as [H9 Hj]. destruct (fix_select_ok (rg_id g) p dr dt join draws Hr Hk H9 Hj Hd) as [NP R].
    destruct (fix_select (rg_id g) p dr join draws) as [[[tc p'] rest]| |]; [|congruence|split; [discriminate|intros; discriminate]].
    split; [discriminate|]. intros tc0 g' r0 H. injection H as <- <- _. destruct (R tc p' rest eq_refl) as [A [B C]].
    split; [unfold region_ok, plan_shape, plan_kind; cbn [rg_id rg_plan]; tauto|]. split; [unfold uplink_dr; cbn [rg_plan rg_id]; rewrite Ep; reflexivity|].
    split; [reflexivity|exact C].
Qed.

Lemma default_power : forall r, (r < 9)%N -> tx_power_adjust r 0 <> None.
Proof.
  intros r H. assert (E : forallb (fun r => match tx_power_adjust r 0 with Some _ => true | None => false end) (map N.of_nat (seq 0 9)) = true) by (vm_compute; reflexivity).
  rewrite forallb_forall in E. specialize (E r). destruct (tx_power_adjust r 0); [discriminate|].
  discriminate E. apply in_map_iff. exists (N.to_nat r). split; [lia|apply in_seq; lia].
Qed.

Theorem rx_windows_total m tc : (rg_id (m_region m) < 9)%N -> (tc_dr tc < 16)%N -> (cf_rx1_dr_offset (m_cfg m) < 8)%N ->
  exists w, rx_windows m tc = Val w.
Proof.
  intros Hr Hd Ho. unfold rx_windows. cbv zeta.
  destruct (window_dr_total _ _ _ Hr Hd Ho) as [d1 [E1 [L1 [E2 _]]]]. rewrite E1.
  destruct (build_rf_config_total m (tc_rx1_freq tc) d1 (tc_dr tc) Hr Hd Ho) as [a [Ea _]]. rewrite Ea.
  unfold rx2_rf_config. cbv zeta. rewrite E2.
  destruct (cf_rx2_data_rate (m_cfg m)) as [d|].
  - destruct (build_rf_config_total m (match cf_rx2_frequency (m_cfg m) with Some f => f | None => r_rx2_freq (rg_id (m_region m)) end) d (tc_dr tc) Hr Hd Ho) as [b [Eb _]].
    rewrite Eb. eexists; reflexivity.
  - destruct (build_rf_config_total m (match cf_rx2_frequency (m_cfg m) with Some f => f | None => r_rx2_freq (rg_id (m_region m)) end) (rp_rx2_dr (rg_id (m_region m))) (tc_dr tc) Hr Hd Ho) as [b [Eb _]].
    rewrite Eb. eexists; reflexivity.
Qed.

Section SendNoPanic.
  Variable enc : list N -> list N -> list N.
  Variable mac_fn : list N -> list N -> list N.

  (* the part of send / join_otaa after the frame has been built: never panics, keeps the invariant *)
  Lemma tx_tail_ok m1 dr join draws : mac_ok m1 -> (exists dt, datarate_index (rg_id (m_region m1)) dr = Val (Some dt)) ->
    forall mp,
    match create_tx_config (m_region m1) dr join draws with
    | Val (pw0, rf, tc, rg', rest') =>
      match adjust_power pw0 mp (m_gain m1) with
      | Val pw => exists w, rx_windows (with_region m1 rg') tc = Val w /\ mac_ok (with_region m1 rg')
      | _ => False end
    | Panic => False
    | OutOfDraws => True
    end.
  Proof.
    intros [Hrg Hcf] [dt Hd] mp. unfold create_tx_config.
    destruct (region_select_ok (m_region m1) dr dt join draws Hrg Hd) as [NP R].
    destruct (region_select (m_region m1) dr join draws) as [[[tc rg'] rest]| |]; [|congruence|exact I].
    destruct (R tc rg' rest eq_refl) as [R1 [R2 [R3 R4]]].
    destruct (tx_power_adjust (rg_id (m_region m1)) 0) as [p0|] eqn:Ep; [|exfalso; exact (default_power _ (proj1 Hrg) Ep)].
    unfold adjust_power.
    assert (Hok : mac_ok (with_region m1 rg')).
    { unfold mac_ok, with_region. cbn [m_region m_cfg]. split; [exact R1|]. destruct Hcf as [C1 C2]. split; [rewrite R2; exact C1|exact C2]. }
    destruct (rx_windows_total (with_region m1 rg') tc) as [w Ew]; [cbn [with_region m_region]; rewrite R3; exact (proj1 Hrg)|exact R4|exact (proj2 Hcf)|].
    exists w. split; [exact Ew|exact Hok].
  Qed.

  (* SEND: the only panics are the two deliberate panic!s of prepare_buffer (application misuse: data on port 0; a payload that
     does not fit the frame together with the queued MAC answers) *)
  Theorem send_panics_only_in_prepare_buffer m data fport confirmed draws : mac_ok m ->
    send enc mac_fn m data fport confirmed draws = Panic ->
    exists s, m_state m = Joined s /\ prepare_buffer enc mac_fn s (m_cfg m) (rg_id (m_region m)) data fport confirmed = Panic.
  Proof.
    intros Hok H. unfold send in H. destruct (m_state m) as [s|n c|] eqn:Es; try discriminate.
    exists s. split; [reflexivity|].
    destruct (prepare_buffer enc mac_fn s (m_cfg m) (rg_id (m_region m)) data fport confirmed) as [[[s' fcnt] frame]| |]; [|reflexivity|discriminate].
    exfalso. set (m1 := with_state m (Joined s')) in *.
    assert (Hok1 : mac_ok m1) by exact Hok.
    destruct Hok as [Hrg [C1 C2]].
    destruct (uplink_dr (m_region m) (cf_data_rate (m_cfg m))) as [x|] eqn:Eu; [|congruence].
    pose proof (tx_tail_ok m1 (cf_data_rate (m_cfg m1)) false draws Hok1
                  (ex_intro _ x (datarate_index_of_get _ _ _ (uplink_dr_defined _ _ _ Eu)))
                  (N.min (match cf_tx_power (m_cfg m1) with Some p => p | None => m_max_power m1 end) (m_max_power m1))) as T.
    destruct (create_tx_config (m_region m1) (cf_data_rate (m_cfg m1)) false draws) as [[[[[pw0 rf] tc] rg'] rest']| |]; [|exact T|discriminate].
    destruct (adjust_power pw0 _ (m_gain m1)) as [pw| |]; [|exact T|exact T].
    destruct T as [w [Ew _]]. rewrite Ew in H. destruct w. discriminate.
  Qed.

  Theorem send_keeps_invariant m data fport confirmed draws o : mac_ok m ->
    send enc mac_fn m data fport confirmed draws = Val (SendOk o) -> mac_ok (to_mac o).
  Proof.
    intros Hok H. unfold send in H. destruct (m_state m) as [s|n c|] eqn:Es; try discriminate.
    destruct (prepare_buffer enc mac_fn s (m_cfg m) (rg_id (m_region m)) data fport confirmed) as [[[s' fcnt] frame]| |]; try discriminate.
    set (m1 := with_state m (Joined s')) in *.
    assert (Hok1 : mac_ok m1) by exact Hok.
    destruct Hok as [Hrg [C1 C2]].
    destruct (uplink_dr (m_region m) (cf_data_rate (m_cfg m))) as [x|] eqn:Eu; [|congruence].
    pose proof (tx_tail_ok m1 (cf_data_rate (m_cfg m1)) false draws Hok1
                  (ex_intro _ x (datarate_index_of_get _ _ _ (uplink_dr_defined _ _ _ Eu)))
                  (N.min (match cf_tx_power (m_cfg m1) with Some p => p | None => m_max_power m1 end) (m_max_power m1))) as T.
    destruct (create_tx_config (m_region m1) (cf_data_rate (m_cfg m1)) false draws) as [[[[[pw0 rf] tc] rg'] rest']| |]; try discriminate.
    destruct (adjust_power pw0 _ (m_gain m1)) as [pw| |]; try discriminate.
    destruct T as [w [Ew Hm]]. rewrite Ew in H. destruct w. injection H as <-. exact Hm.
  Qed.

  (* JOIN REQUEST: never panics *)
  Theorem join_never_panics m c draws : mac_ok m -> (forall k b, length (mac_fn k b) = 16) -> join_otaa mac_fn m c draws <> Panic.
  Proof.
    intros Hok Hml. unfold join_otaa. destruct draws as [|d rest]; [discriminate|].
    unfold build_join_request. rewrite repeat_length. cbn [Nat.ltb Nat.leb].
    set (m1 := with_state m (Otaa (d mod 65536) c)).
    assert (Hok1 : mac_ok m1) by exact Hok.
    destruct Hok as [Hrg [C1 C2]].
    destruct (uplink_dr (m_region m) (cf_data_rate (m_cfg m))) as [x|] eqn:Eu; [|congruence].
    pose proof (tx_tail_ok m1 (cf_data_rate (m_cfg m1)) true rest Hok1
                  (ex_intro _ x (datarate_index_of_get _ _ _ (uplink_dr_defined _ _ _ Eu))) (m_max_power m1)) as T.
    destruct (create_tx_config (m_region m1) (cf_data_rate (m_cfg m1)) true rest) as [[[[[pw0 rf] tc] rg'] rest']| |]; [|destruct T|discriminate].
    destruct (adjust_power pw0 _ (m_gain m1)) as [pw| |]; [|destruct T|destruct T].
    destruct T as [w [Ew _]]. rewrite Ew. destruct w. discriminate.
  Qed.
End SendNoPanic.
