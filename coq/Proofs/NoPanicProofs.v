(* Proofs/NoPanicProofs.v -- C04: under the shape invariant of the MAC state, handling ANY downlink command bytes never panics and
   keeps the invariant; consequently no received frame can panic the receive path. *)
From Coq Require Import NArith ZArith List Bool Lia Arith ZifyBool ZifyNat ZifyN.
From LoraV Require Import Base.Bytes Crypto.AES Model.Frame Model.MacCmd Gen.CmdTables Gen.RegionTables Model.Region Model.Mac
  Proofs.OtaaProofs Proofs.TxProofs.
Import ListNotations.
Ltac Zify.zify_post_hook ::= Z.to_euclidean_division_equations.
Local Open Scope nat_scope.

(* ------------------------------------------------------------------ masks *)
Lemma land_le_r a b : (N.land a b <= b)%N.
Proof.
  apply N.ldiff_le. apply N.bits_inj_0. intros n. rewrite N.ldiff_spec, N.land_spec.
  destruct (N.testbit a n), (N.testbit b n); reflexivity.
Qed.

Ltac len9 := cbn; rewrite ?app_length, ?map_length, ?seq_length, ?repeat_length; reflexivity.

Lemma set_bank_total m i v : i < length m -> exists m', set_bank m i v = Val m' /\ length m' = length m.
Proof.
  intros H. unfold set_bank. destruct (Nat.ltb i (length m)) eqn:E; [|apply Nat.ltb_ge in E; lia].
  eexists. split; [reflexivity|apply set_nth_length].
Qed.

Lemma mask_update_total (fixedp : bool) m ctl lo hi : length m = 9 -> (ctl < 8)%N ->
  exists mo, (if fixedp then fix_mask_update m ctl lo hi else dyn_mask_update m ctl lo hi) = Val mo /\
             match mo with Some m' => length m' = 9 | None => True end.
Proof.
  intros H9 Hc.
  assert (Hlow : (ctl <=? 3)%N = true -> exists mo,
     match set_bank m (N.to_nat (ctl * 2)) lo with
     | Val m1 => match set_bank m1 (S (N.to_nat (ctl * 2))) hi with Val m2 => Val (Some m2) | Panic => Panic | OutOfDraws => OutOfDraws end
     | Panic => Panic | OutOfDraws => OutOfDraws end = Val mo /\ match mo with Some m' => length m' = 9 | None => True end).
  { intros E. destruct (set_bank_total m (N.to_nat (ctl * 2)) lo) as [m1 [A B]]; [lia|]. rewrite A.
    destruct (set_bank_total m1 (S (N.to_nat (ctl * 2))) hi) as [m2 [A2 B2]]; [lia|]. rewrite A2.
    eexists. split; [reflexivity|]. cbn. lia. }
  assert (H4 : exists mo, match set_bank m 8 lo with Val m1 => Val (Some m1) | Panic => Panic | OutOfDraws => OutOfDraws end = Val mo /\
                          match mo with Some m' => length m' = 9 | None => True end).
  { destruct (set_bank_total m 8 lo) as [m1 [A B]]; [lia|]. rewrite A. eexists. split; [reflexivity|]. cbn. lia. }
  destruct fixedp; [unfold fix_mask_update | unfold dyn_mask_update];
    (destruct (ctl <=? 3)%N eqn:E3; [exact (Hlow eq_refl)|]); (destruct (ctl =? 4)%N eqn:E4; [exact H4|]);
    destruct (ctl =? 5)%N eqn:E5.
  - eexists. split; [reflexivity|]. len9.
  - destruct (ctl =? 6)%N; [eexists; split; [reflexivity|]; len9|].
    destruct (ctl =? 7)%N; [eexists; split; [reflexivity|]; len9|].
    eexists. split; [reflexivity|exact I].
  - cbv zeta. assert (Hb : (N.land (lo + 256 * hi) (N.shiftl 1 8) * 255 <= 65535)%N).
    { pose proof (land_le_r (lo + 256 * hi) (N.shiftl 1 8)) as L. change (N.shiftl 1 8) with 256%N in *. lia. }
    destruct (65535 <? N.land (lo + 256 * hi) (N.shiftl 1 8) * 255)%N eqn:Eo; [lia|].
    eexists. split; [reflexivity|]. cbn. reflexivity.
  - destruct (ctl =? 6)%N; [eexists; split; [reflexivity|]; len9|].
    eexists. split; [reflexivity|exact I].
Qed.

(* ------------------------------------------------------------------ the shape invariant of a region and of the configuration *)
Definition jc_ok (j : join_channels) : Prop := length (jc_avail j) = 9.
Definition region_ok (g : region) : Prop :=
  (rg_id g < 9)%N /\
  match rg_plan g with
  | PDyn p => dyn_ok (rg_id g) p /\ length (dp_mask p) = 9 /\ (1 <= r_num_join (rg_id g) <= 3)%N
  | PFix p => length (fp_mask p) = 9 /\ jc_ok (fp_jc p)
  end.
Definition cfg_ok (g : region) (cf : configuration) : Prop :=
  uplink_dr g (cf_data_rate cf) <> None /\ (cf_rx1_dr_offset cf < 8)%N.

Lemma uplink_dr_defined g d x : uplink_dr g d = Some x -> get_datarate (rg_id g) d = Some x.
Proof. unfold uplink_dr. destruct (rg_plan g); [auto|]. destruct (d <? 8)%N; [auto|discriminate]. Qed.

Lemma datarate_index_of_get r d x : get_datarate r d = Some x -> datarate_index r d = Val (Some x).
Proof.
  unfold get_datarate, datarate_index. destruct (nth_error (r_datarates r) (N.to_nat d)) as [[y|]|]; try discriminate.
  intros H. injection H as ->. reflexivity.
Qed.

Lemma region_mask_set_ok g m : region_ok g -> length m = 9 -> region_ok (region_mask_set g m).
Proof.
  intros [Hr Hp] H9. unfold region_ok, region_mask_set. cbn [rg_id rg_plan]. split; [exact Hr|].
  destruct (rg_plan g) as [p|p].
  - destruct Hp as [Hd [_ HJ]]. cbn [dp_mask]. split; [|split; [exact H9|exact HJ]].
    destruct Hd as [A [B C]]. repeat split; assumption.
  - destruct Hp as [_ Hj]. unfold fix_mask_set. cbn [fp_mask fp_jc]. split; [exact H9|]. unfold jc_ok, jc_reset. cbn [jc_avail]. reflexivity.
Qed.

Lemma uplink_dr_mask_set g m d : uplink_dr (region_mask_set g m) d = uplink_dr g d.
Proof. unfold uplink_dr, region_mask_set. cbn [rg_plan rg_id]. destruct (rg_plan g); reflexivity. Qed.

Lemma region_mask_len g : region_ok g -> length (region_mask g) = 9.
Proof. intros [_ Hp]. unfold region_mask. destruct (rg_plan g); tauto. Qed.

Lemma set_channel_total m ch on : N.to_nat (ch / 8) < length m -> exists m', set_channel m ch on = Val m' /\ length m' = length m.
Proof.
  intros H. unfold set_channel. destruct (Nat.ltb (N.to_nat (ch / 8)) (length m)) eqn:E; [|apply Nat.ltb_ge in E; lia].
  eexists. split; [reflexivity|apply set_nth_length].
Qed.

(* ------------------------------------------------------------------ one MAC command *)
Definition hinv (h : hstate) : Prop := region_ok (h_rg h) /\ cfg_ok (h_rg h) (h_cf h) /\ length (h_mask h) = 9.

Lemma max_off_lt_8 : forall r, (r < 9)%N -> (r_max_rx1_off r < 8)%N.
Proof.
  intros r H. assert (E : forallb (fun r => (r_max_rx1_off r <? 8)%N) (map N.of_nat (seq 0 9)) = true) by (vm_compute; reflexivity).
  rewrite forallb_forall in E. specialize (E r). apply N.ltb_lt. apply E. apply in_map_iff. exists (N.to_nat r). split; [lia|apply in_seq; lia].
Qed.

Theorem handle_cmd_ok snr h cid p nx : hinv h -> exists h', handle_cmd snr h cid p nx = Val h' /\ hinv h'.
Proof.
  intros [Hrg [Hcf Hm]]. unfold handle_cmd. cbv zeta.
  destruct (N.eq_dec cid 6) as [->|N6].
  { eexists. split; [reflexivity|]. unfold hinv. cbn [h_rg h_cf h_mask]. tauto. }
  destruct (N.eq_dec cid 10) as [->|N10].
  { destruct (rg_plan (h_rg h)) as [pl|pl] eqn:Ep.
    - destruct (dyn_dl_update (rg_id (h_rg h)) pl (nthN p 0) (le_value (slice p 1 4) * 100)) as [pl' [af ac]] eqn:Ed.
      eexists. split; [reflexivity|]. unfold hinv. cbn [h_rg h_cf h_mask].
      assert (Hpl' : pl' = fst (dyn_dl_update (rg_id (h_rg h)) pl (nthN p 0) (le_value (slice p 1 4) * 100))) by (rewrite Ed; reflexivity).
      destruct Hrg as [Hr Hp]. rewrite Ep in Hp. destruct Hp as [Hd [H9 HJ]].
      assert (Hm' : dp_mask pl' = dp_mask pl).
      { rewrite Hpl'. unfold dyn_dl_update. destruct (16 <=? nthN p 0)%N; [reflexivity|]. destruct (mask_bit _ _); [|reflexivity].
        destruct (nth _ _ _); [|reflexivity]. destruct (ch_freq c =? 0)%N; [reflexivity|]. destruct (frequency_valid _ _); reflexivity. }
      split; [|split; [|exact Hm]].
      + unfold region_ok. cbn [rg_id rg_plan]. split; [exact Hr|]. split; [rewrite Hpl'; apply dl_update_keeps_ok; exact Hd|]. rewrite Hm'. tauto.
      + destruct Hcf as [C1 C2]. split; [|exact C2]. unfold uplink_dr in *. cbn [rg_plan rg_id]. rewrite Ep in C1. exact C1.
    - eexists. split; [reflexivity|]. unfold hinv. tauto. }
  destruct (N.eq_dec cid 8) as [->|N8].
  { eexists. split; [reflexivity|]. unfold hinv. cbn [h_rg h_cf h_mask]. split; [exact Hrg|]. split; [|exact Hm].
    destruct Hcf as [C1 C2]. split; cbn [cf_data_rate cf_rx1_dr_offset]; assumption. }
  destruct (N.eq_dec cid 5) as [->|N5].
  { eexists. split; [reflexivity|]. unfold hinv. cbn [h_rg h_cf h_mask]. split; [exact Hrg|]. split; [|exact Hm].
    destruct Hcf as [C1 C2].
    destruct (frequency_valid _ _); [|split; assumption].
    destruct (if N.land (nthN p 0) 15 =? 15 then _ else _)%N as [rx2v|]; [|split; assumption].
    unfold rx1_dr_offset_validate.
    destruct (N.land (N.shiftr (nthN p 0) 4) 7 <=? r_max_rx1_off (rg_id (h_rg h)))%N eqn:Eo; [|split; assumption].
    split; cbn [cf_data_rate cf_rx1_dr_offset]; [exact C1|]. pose proof (max_off_lt_8 _ (proj1 Hrg)). lia. }
  destruct (N.eq_dec cid 7) as [->|N7].
  { destruct (rg_plan (h_rg h)) as [pl|pl] eqn:Ep; [|eexists; split; [reflexivity|]; unfold hinv; tauto].
    destruct Hrg as [Hr Hp]. rewrite Ep in Hp. destruct Hp as [Hd [H9 HJ]].
    set (drr := if (N.shiftr (nthN p 4) 4 <? N.land (nthN p 4) 15)%N then None else Some (nthN p 4)).
    destruct (dyn_new_channel (rg_id (h_rg h)) pl (nthN p 0) (le_value (slice p 1 4) * 100) drr) as [[pl' [af ad]]| |] eqn:En.
    - eexists. split; [reflexivity|]. unfold hinv. cbn [h_rg h_cf h_mask].
      assert (Hm' : length (dp_mask pl') = 9).
      { revert En. unfold dyn_new_channel. destruct (nthN p 0 <? r_num_join _)%N; [intros H; injection H as <- _; exact H9|].
        destruct (16 <=? nthN p 0)%N eqn:E16; [intros H; injection H as <- _; exact H9|].
        destruct (le_value (slice p 1 4) * 100 =? 0)%N.
        - destruct (set_channel_total (dp_mask pl) (nthN p 0) false) as [m' [A B]]; [lia|]. rewrite A. intros H; injection H as <- _. cbn [dp_mask]. lia.
        - destruct drr as [raw|]; [|intros H; injection H as <- _; exact H9].
          destruct (frequency_valid _ _ && _); [|intros H; injection H as <- _; exact H9].
          destruct (set_channel_total (dp_mask pl) (nthN p 0) true) as [m' [A B]]; [lia|]. rewrite A. intros H; injection H as <- _. cbn [dp_mask]. lia. }
      split; [|split; [|exact Hm]].
      + unfold region_ok. cbn [rg_id rg_plan]. split; [exact Hr|]. split; [exact (new_channel_keeps_ok _ _ _ _ _ _ _ Hd En)|]. tauto.
      + destruct Hcf as [C1 C2]. split; [|exact C2]. unfold uplink_dr in *. cbn [rg_plan rg_id]. rewrite Ep in C1. exact C1.
    - exfalso. revert En. unfold dyn_new_channel. destruct (nthN p 0 <? r_num_join _)%N; [discriminate|].
      destruct (16 <=? nthN p 0)%N eqn:E16; [discriminate|].
      destruct (le_value (slice p 1 4) * 100 =? 0)%N.
      + destruct (set_channel_total (dp_mask pl) (nthN p 0) false) as [m' [A B]]; [lia|]. rewrite A. discriminate.
      + destruct drr as [raw|]; [|discriminate]. destruct (frequency_valid _ _ && _); [|discriminate].
        destruct (set_channel_total (dp_mask pl) (nthN p 0) true) as [m' [A B]]; [lia|]. rewrite A. discriminate.
    - exfalso. revert En. unfold dyn_new_channel. destruct (nthN p 0 <? r_num_join _)%N; [discriminate|].
      destruct (16 <=? nthN p 0)%N eqn:E16; [discriminate|].
      destruct (le_value (slice p 1 4) * 100 =? 0)%N.
      + destruct (set_channel_total (dp_mask pl) (nthN p 0) false) as [m' [A B]]; [lia|]. rewrite A. discriminate.
      + destruct drr as [raw|]; [|discriminate]. destruct (frequency_valid _ _ && _); [|discriminate].
        destruct (set_channel_total (dp_mask pl) (nthN p 0) true) as [m' [A B]]; [lia|]. rewrite A. discriminate. }
  destruct (N.eq_dec cid 3) as [->|N3].
  2: { (* every other CID: ignored *)
       assert (Hd : handle_cmd snr h cid p nx = Val h).
       { unfold handle_cmd. cbv zeta.
         destruct cid as [|[[[[|[]|]|[[]|[]|]|]|[[[]|[]|]|[[]|[]|]|]|]|[[[|[]|]|[[]|[]|]|]|[[[]|[]|]|[[]|[]|]|]|]|]]; try reflexivity; exfalso; lia. }
       unfold handle_cmd in Hd. cbv zeta in Hd. rewrite Hd. exists h. split; [reflexivity|]. unfold hinv. tauto. }
  (* LinkADRReq *)
  set (ctl := N.land (N.shiftr (nthN p 3) 4) 7).
  assert (Hctl : (ctl < 8)%N) by (subst ctl; change 7%N with (N.ones 3); rewrite N.land_ones; apply N.mod_lt; discriminate).
  assert (Hupd : exists mo, region_mask_update (h_rg h) (h_mask h) ctl (nthN p 1) (nthN p 2) = Val mo /\ match mo with Some m' => length m' = 9 | None => True end).
  { unfold region_mask_update. destruct (rg_plan (h_rg h)).
    - exact (mask_update_total false _ _ _ _ Hm Hctl).
    - exact (mask_update_total true _ _ _ _ Hm Hctl). }
  destruct Hupd as [mo [Hu Hlen]]. rewrite Hu.
  set (mk := match mo with Some m' => (m', h_known h) | None => (h_mask h, false) end).
  assert (Hmk : length (fst mk) = 9) by (subst mk; destruct mo; cbn [fst]; assumption).
  destruct mk as [msk known] eqn:Emk. cbn [fst] in Hmk.
  destruct nx.
  { eexists. split; [reflexivity|]. unfold hinv. cbn [h_rg h_cf h_mask]. tauto. }
  set (drf := N.shiftr (nthN p 0) 4). set (pwf := N.land (nthN p 0) 15).
  set (dr := if (drf =? 15)%N then Some (cf_data_rate (h_cf h)) else match uplink_dr (h_rg h) drf with Some _ => Some drf | None => None end).
  assert (Hdr : forall d, dr = Some d -> uplink_dr (h_rg h) d <> None).
  { intros d. subst dr. destruct (drf =? 15)%N; [intros H; injection H as <-; exact (proj1 Hcf)|].
    destruct (uplink_dr (h_rg h) drf) eqn:Eu; [intros H; injection H as <-; rewrite Eu; discriminate|discriminate]. }
  assert (Hval : exists vok, region_mask_validate (h_rg h) msk dr = Val vok).
  { unfold region_mask_validate. destruct (rg_plan (h_rg h)) eqn:Ep; [eexists; reflexivity|].
    unfold fix_mask_validate. destruct dr as [d|]; [|eexists; reflexivity].
    specialize (Hdr d eq_refl). destruct (uplink_dr (h_rg h) d) as [x|] eqn:Eu; [|congruence].
    rewrite (datarate_index_of_get _ _ _ (uplink_dr_defined _ _ _ Eu)). destruct x as [[sf bw] mp]. eexists. reflexivity. }
  destruct Hval as [vok Hv]. rewrite Hv.
  set (pw := if (pwf =? 15)%N then Some (cf_tx_power (h_cf h)) else match tx_power_adjust (rg_id (h_rg h)) pwf with Some x => Some (Some x) | None => None end).
  destruct (known && vok) eqn:Eack; destruct dr as [d|] eqn:Edr; destruct pw as [pwv|] eqn:Epw;
    (eexists; split; [reflexivity|]); unfold hinv; cbn [h_rg h_cf h_mask];
    try (split; [exact Hrg|split; [exact Hcf|exact (region_mask_len _ Hrg)]]).
  split; [apply region_mask_set_ok; assumption|]. split; [|apply region_mask_len, region_mask_set_ok; assumption].
  split; cbn [set_cfg cf_data_rate cf_rx1_dr_offset]; [rewrite uplink_dr_mask_set; exact (Hdr d eq_refl)|exact (proj2 Hcf)].
Qed.

(* ------------------------------------------------------------------ a whole command stream, a whole frame *)
Theorem handle_cmds_ok snr : forall items h, hinv h -> exists h', handle_cmds snr h items = Val h' /\ hinv h'.
Proof.
  induction items as [|it rest IH]; intros h Hh; [exists h; split; [reflexivity|exact Hh]|].
  destruct it as [cid p| |]; cbn [handle_cmds]; try (exists h; split; [reflexivity|exact Hh]).
  destruct (handle_cmd_ok snr h cid p (match rest with it :: _ => is_linkadr it | [] => false end) Hh) as [h1 [E1 H1]].
  rewrite E1. exact (IH h1 H1).
Qed.

Theorem handle_downlink_macs_ok snr cf rg pending bytes : region_ok rg -> cfg_ok rg cf ->
  exists cf' rg' pend', handle_downlink_macs snr cf rg pending bytes = Val (cf', rg', pend') /\ region_ok rg' /\ cfg_ok rg' cf'.
Proof.
  intros Hrg Hcf. unfold handle_downlink_macs.
  destruct (handle_cmds_ok snr (parse_all dl_mac_table bytes)
              {| h_cf := cf; h_rg := rg; h_pending := pending; h_full := false; h_mask := region_mask rg; h_nadr := 0; h_known := true |})
    as [h' [E [A [B _]]]].
  { unfold hinv. cbn [h_rg h_cf h_mask]. split; [exact Hrg|]. split; [exact Hcf|apply region_mask_len; exact Hrg]. }
  rewrite E. eexists; eexists; eexists. split; [reflexivity|]. split; assumption.
Qed.

Section NoPanic.
  Variable enc : list N -> list N -> list N.
  Variable mac_fn : list N -> list N -> list N.

  Lemma decrypt_after_validate bs nwk app fcnt lay : validate bs = Ok lay ->
    exists buf, decrypt_in_place enc bs (Some nwk) (Some app) fcnt = (Ok lay, buf).
  Proof.
    intros H. unfold decrypt_in_place. rewrite H. destruct (Nat.ltb (l_frm_start lay) (l_frm_end lay)); [|eexists; reflexivity].
    destruct (match l_f_port_offset lay with Some off => negb (nthN bs off =? 0)%N | None => false end); eexists; reflexivity.
  Qed.

  Lemma next_lower_defined r d d' : next_lower_datarate r d = Some d' -> get_datarate r d' <> None /\ (d' < d)%N.
  Proof.
    unfold next_lower_datarate.
    destruct (find _ _) as [c|] eqn:Ef; [|discriminate]. intros H. injection H as <-.
    apply find_some in Ef. destruct Ef as [Hin Hc]. apply in_rev, in_seq in Hin.
    split; [|lia]. destruct (get_datarate r (N.of_nat c)); [discriminate|discriminate Hc].
  Qed.

  (* ADR back-off keeps the configured data rate an uplink data rate *)
  Lemma rx2_complete_cfg_ok s cf rg : region_ok rg -> cfg_ok rg cf ->
    cfg_ok rg (snd (fst (rx2_complete_session s cf (rg_id rg)))).
  Proof.
    intros Hrg [C1 C2]. unfold rx2_complete_session.
    destruct (ss_fcnt_up s =? 4294967295)%N; [split; assumption|].
    destruct (cf_adr cf); [|split; assumption].
    destruct ((c_adr_ack_limit + c_adr_ack_delay <=? _)%N && _); [|split; assumption].
    destruct (next_lower_datarate (rg_id rg) (cf_data_rate cf)) as [d'|] eqn:En; [|split; assumption].
    cbn [fst snd]. split; [|exact C2]. cbn [cf_data_rate].
    destruct (next_lower_defined _ _ _ En) as [Hd Hlt].
    unfold uplink_dr in *. destruct (rg_plan rg); [exact Hd|].
    destruct (cf_data_rate cf <? 8)%N eqn:E8; [|congruence].
    replace (d' <? 8)%N with true by (symmetry; apply N.ltb_lt; apply N.ltb_lt in E8; lia). exact Hd.
  Qed.

  (* NO RECEIVED FRAME PANICS THE SESSION: for every byte string, in Class A windows and in Class C reception *)
  Theorem handle_rx_session_total s cf rg bytes mp snr ignore_mac : region_ok rg -> cfg_ok rg cf ->
    exists o, handle_rx_session enc mac_fn s cf rg bytes mp snr ignore_mac = Val o /\ region_ok (ro_rg o) /\ cfg_ok (ro_rg o) (ro_cf o).
  Proof.
    intros Hrg Hcf. unfold handle_rx_session. cbv zeta.
    destruct (validate bytes) as [lay|e] eqn:Ev; [|eexists; split; [reflexivity|split; assumption]].
    destruct (Nat.ltb _ (length bytes)).
    { destruct ignore_mac; [eexists; split; [reflexivity|split; assumption]|].
      pose proof (rx2_complete_cfg_ok s cf rg Hrg Hcf) as Hc.
      destruct (rx2_complete_session s cf (rg_id rg)) as [[s' cf'] resp]. cbn [fst snd] in Hc.
      eexists. split; [reflexivity|]. cbn [ro_rg ro_cf]. split; assumption. }
    destruct (next_fcnt_down (ss_fcnt_down s) (v_fcnt bytes)) as [fcnt|]; [|eexists; split; [reflexivity|split; assumption]].
    destruct (negb (validate_mic mac_fn bytes (ss_nwkskey s) fcnt)); [eexists; split; [reflexivity|split; assumption]|].
    destruct (decrypt_after_validate bytes (ss_nwkskey s) (ss_appskey s) fcnt lay Ev) as [buf Ed]. rewrite Ed.
    destruct ignore_mac.
    - (* Class C reception: MAC commands ignored *)
      destruct (v_f_port buf lay) as [pt|]; eexists; (split; [reflexivity|]); cbn [ro_rg ro_cf]; split; assumption.
    - destruct (handle_downlink_macs_ok snr cf rg [] (v_f_opts buf lay) Hrg Hcf) as [cf1 [rg1 [p1 [E1 [R1 C1]]]]]. rewrite E1.
      destruct (v_f_port buf lay) as [[|pt]|] eqn:Ep.
      + destruct (handle_downlink_macs_ok snr cf1 rg1 p1 (v_frm buf lay) R1 C1) as [cf2 [rg2 [p2 [E2 [R2 C2]]]]]. rewrite E2.
        eexists. split; [reflexivity|]. cbn [ro_rg ro_cf]. split; assumption.
      + eexists. split; [reflexivity|]. cbn [ro_rg ro_cf]. split; assumption.
      + eexists. split; [reflexivity|]. cbn [ro_rg ro_cf]. split; assumption.
  Qed.
End NoPanic.
