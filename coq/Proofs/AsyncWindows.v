(* Proofs/AsyncWindows.v -- C10 at the asynchronous front-end: when and with what the receive windows are opened.  For a send whose
   windows see nothing (no fault, every reception times out) the sequence of radio / timer calls is exactly: transmit, timer reset,
   [wait for RX1: low power, or the Class C reception with the RX2 parameters], timer at RX1 delay + time on air - lead, RX1 with the
   window computed at transmit time, ..., timer at RX1 delay + 1 s + time on air - lead, RX2 with the window computed at transmit time. *)
From Coq Require Import NArith ZArith List Bool Lia.
From LoraV Require Import Base.Bytes Model.Frame Model.Region Model.Mac Model.AsyncDev.
Import ListNotations.
Local Open Scope N_scope.

Section Windows.
  Variable enc mac_fn : list N -> list N -> list N.

  Definition quiet (e : env) : Prop := e_fault e = None /\ e_script e = [].
  Lemma call_quiet e what : e_fault e = None -> call e what = ({| e_script := e_script e; e_calls := e_calls e + 1; e_fault := None; e_trace := what :: e_trace e |}, true).
  Proof. intros H. unfold call, tr, faulty. cbn. rewrite H. reflexivity. Qed.

  (* Class A *)
  Theorem async_class_a_window_schedule d e data fport confirmed draws o :
    ad_classc d = false -> quiet e -> ad_lead d <= 100 ->
    send enc mac_fn (ad_mac d) data fport confirmed draws = Val (SendOk o) ->
    let m := to_mac o in
    let lead := ad_lead d in
    let '(d', e', r) := adev_send enc mac_fn d e data fport confirmed draws in
    rev (e_trace e') = rev (e_trace e) ++
      [ATx (to_tx o) (to_frame o); ATimerReset;
       ALowPower; ATimerAt (cf_rx1_delay (m_cfg m) + 100 - lead); ASetupRx (to_rx1 o) (Some lead); ARxSingle; ALowPower;
       ALowPower; ATimerAt (cf_rx1_delay (m_cfg m) + 1000 + 100 - lead); ASetupRx (to_rx2 o) (Some lead); ARxSingle; ALowPower].
  Proof.
    intros NC [QF QS] HL SD. cbv zeta. unfold adev_send. rewrite SD.
    rewrite call_quiet by exact QF. cbn [negb]. unfold rx_downlink, between_windows, rx_listen, window_complete, with_mac, tr, get_rx_delay.
    cbn [ad_mac ad_classc ad_lead e_script e_calls e_fault e_trace]. rewrite NC, QS.
    assert (T1 : (cf_rx1_delay (m_cfg (to_mac o)) + 100 <? ad_lead d) = false) by (apply N.ltb_ge; lia). rewrite T1.
    assert (T2 : (cf_rx1_delay (m_cfg (to_mac o)) + 1000 + 100 <? ad_lead d) = false) by (apply N.ltb_ge; lia).
    repeat (rewrite ?call_quiet by reflexivity; cbn [ad_mac ad_classc ad_lead negb e_script e_calls e_fault e_trace pop]; rewrite ?T2).
    destruct (mac_rx2_complete (to_mac o)) as [m' r2].
    destruct r2; cbn [e_trace rev app]; rewrite <- ?app_assoc; reflexivity.
  Qed.

  (* Class C: between the windows (and after them) the device listens with the RX2 parameters (rxc_config = the RX2 window of the
     configured data rate) *)
  Theorem async_class_c_window_schedule d e data fport confirmed draws o rfc :
    ad_classc d = true -> quiet e -> ad_lead d <= 100 ->
    send enc mac_fn (ad_mac d) data fport confirmed draws = Val (SendOk o) ->
    rxc_config (to_mac o) = Val rfc ->
    let m := to_mac o in
    let lead := ad_lead d in
    let '(d', e', r) := adev_send enc mac_fn d e data fport confirmed draws in
    rev (e_trace e') = rev (e_trace e) ++
      [ATx (to_tx o) (to_frame o); ATimerReset;
       ASetupRx rfc None; ARxContPending; ATimerAt (cf_rx1_delay (m_cfg m) + 100 - lead); ASetupRx (to_rx1 o) (Some lead); ARxSingle; ASetupRx rfc None;
       ASetupRx rfc None; ARxContPending; ATimerAt (cf_rx1_delay (m_cfg m) + 1000 + 100 - lead); ASetupRx (to_rx2 o) (Some lead); ARxSingle; ASetupRx rfc None].
  Proof.
    intros NC [QF QS] HL SD RC. cbv zeta. unfold adev_send. rewrite SD.
    rewrite call_quiet by exact QF. cbn [negb]. unfold rx_downlink, between_windows, rx_listen, window_complete, with_mac, tr, get_rx_delay.
    cbn [ad_mac ad_classc ad_lead e_script e_calls e_fault e_trace]. rewrite NC, QS, RC.
    assert (T1 : (cf_rx1_delay (m_cfg (to_mac o)) + 100 <? ad_lead d) = false) by (apply N.ltb_ge; lia). rewrite T1.
    assert (T2 : (cf_rx1_delay (m_cfg (to_mac o)) + 1000 + 100 <? ad_lead d) = false) by (apply N.ltb_ge; lia).
    repeat (rewrite ?call_quiet by reflexivity; cbn [ad_mac ad_classc ad_lead negb e_script e_calls e_fault e_trace pop length rxc_until tr]; rewrite ?T2, ?RC).
    destruct (mac_rx2_complete (to_mac o)) as [m' r2].
    destruct r2; cbn [e_trace rev app]; rewrite <- ?app_assoc; reflexivity.
  Qed.
End Windows.
