(* Proofs/WindowProofs.v -- C10: receive windows follow the regional parameters in force when the uplink was sent. *)
From Coq Require Import NArith ZArith List Bool Lia.
From LoraV Require Import Base.Bytes Gen.RegionTables Model.Region Model.Mac Spec.RP002.
Import ListNotations.
Local Open Scope N_scope.

Definition rng (n : nat) : list N := map N.of_nat (seq 0 n).
Lemma in_rng n x : x < N.of_nat n -> In x (rng n).
Proof. intros H. unfold rng. apply in_map_iff. exists (N.to_nat x). split; [apply N2Nat.id | apply in_seq; lia]. Qed.

(* RX1 data-rate rule: exhaustive over 9 regions x 16 uplink data rates x 8 offsets (the generated code's whole domain) *)
Definition rx1_table_ok : bool :=
  forallb (fun r => forallb (fun dr => forallb (fun off =>
    negb (rp_in_scope r dr off) ||
    match get_rx_datarate r dr off false with Val d => d =? rp_rx1_dr r dr off | _ => false end)
    (rng 8)) (rng 16)) (rng 9).
Lemma rx1_table_sweep : rx1_table_ok = true.
Proof. vm_compute. reflexivity. Qed.

Theorem rx1_rule r dr off : r < 9 -> dr < 16 -> off < 8 -> rp_in_scope r dr off = true ->
  get_rx_datarate r dr off false = Val (rp_rx1_dr r dr off).
Proof.
  intros Hr Hd Ho Hs. pose proof rx1_table_sweep as H. unfold rx1_table_ok in H.
  rewrite forallb_forall in H. specialize (H r (in_rng 9 r Hr)).
  rewrite forallb_forall in H. specialize (H dr (in_rng 16 dr Hd)).
  rewrite forallb_forall in H. specialize (H off (in_rng 8 off Ho)).
  rewrite Hs in H. cbn [negb orb] in H.
  destruct (get_rx_datarate r dr off false) as [d| |]; try discriminate. apply N.eqb_eq in H. now subst.
Qed.

(* every window data rate the code can compute is a LoRa data rate the region defines, or falls back to the RX2 default
   which is defined: no panic, for ALL 16 uplink data rates (also undefined ones) and all 8 offsets *)
Definition windows_total_ok : bool :=
  forallb (fun r => forallb (fun dr => forallb (fun off =>
    match get_rx_datarate r dr off false, get_rx_datarate r dr off true with
    | Val d1, Val d2 => (d2 =? rp_rx2_dr r) && (match get_datarate r d2 with Some _ => true | None => false end) && (d1 <? 16)
    | _, _ => false
    end) (rng 8)) (rng 16)) (rng 9).
Lemma windows_total_sweep : windows_total_ok = true.
Proof. vm_compute. reflexivity. Qed.

Theorem window_dr_total r dr off : r < 9 -> dr < 16 -> off < 8 ->
  exists d1, get_rx_datarate r dr off false = Val d1 /\ d1 < 16 /\
             get_rx_datarate r dr off true = Val (rp_rx2_dr r) /\ get_datarate r (rp_rx2_dr r) <> None.
Proof.
  intros Hr Hd Ho. pose proof windows_total_sweep as H. unfold windows_total_ok in H.
  rewrite forallb_forall in H. specialize (H r (in_rng 9 r Hr)).
  rewrite forallb_forall in H. specialize (H dr (in_rng 16 dr Hd)).
  rewrite forallb_forall in H. specialize (H off (in_rng 8 off Ho)).
  destruct (get_rx_datarate r dr off false) as [d1| |]; try discriminate.
  destruct (get_rx_datarate r dr off true) as [d2| |]; try discriminate.
  apply andb_true_iff in H. destruct H as [H H3]. apply andb_true_iff in H. destruct H as [H1 H2].
  apply N.eqb_eq in H1. subst d2. apply N.ltb_lt in H3. exists d1. split; [reflexivity|]. split; [exact H3|]. split; [reflexivity|].
  destruct (get_datarate r (rp_rx2_dr r)); [discriminate | discriminate].
Qed.

(* build_rf_config never panics for a region below 9 and a 4-bit data rate: undefined rates fall back to the RX2 default *)
Theorem build_rf_config_total m freq dr tx_dr :
  rg_id (m_region m) < 9 -> tx_dr < 16 -> cf_rx1_dr_offset (m_cfg m) < 8 ->
  exists rf, build_rf_config m freq dr tx_dr = Val rf /\ rf_freq rf = freq /\
    (forall d, get_datarate (rg_id (m_region m)) dr = Some d -> rf = mk_rf (rg_id (m_region m)) freq d).
Proof.
  intros Hr Hd Ho. unfold build_rf_config.
  destruct (get_datarate (rg_id (m_region m)) dr) as [d|] eqn:E.
  - exists (mk_rf (rg_id (m_region m)) freq d). repeat split.
    + unfold mk_rf. destruct d as [[sf bw] mx]. reflexivity.
    + intros d' H. now injection H as <-.
  - destruct (window_dr_total _ tx_dr _ Hr Hd Ho) as (d1 & _ & _ & H2 & H3).
    rewrite H2. destruct (get_datarate (rg_id (m_region m)) (rp_rx2_dr (rg_id (m_region m)))) as [d|] eqn:E2; [|contradiction].
    exists (mk_rf (rg_id (m_region m)) freq d). repeat split.
    + unfold mk_rf. destruct d as [[sf bw] mx]. reflexivity.
    + intros d' H. discriminate.
Qed.

(* the windows of an uplink are a function of the channel and data rate ACTUALLY used for it (tc) and of the configuration
   at TX time: RX1 on the channel's paired downlink frequency at the table data rate, RX2 on the negotiated-or-default
   frequency and data rate.  They are returned by value: nothing processed later can change them. *)
Lemma build_rf_config_spec m freq dr tx_dr rf :
  build_rf_config m freq dr tx_dr = Val rf ->
  rf_freq rf = freq /\ (forall dd, get_datarate (rg_id (m_region m)) dr = Some dd -> rf = mk_rf (rg_id (m_region m)) freq dd).
Proof.
  unfold build_rf_config. destruct (get_datarate (rg_id (m_region m)) dr) as [d|].
  - intros H. injection H as <-. split; [destruct d as [[? ?] ?]; reflexivity|]. intros dd H. now injection H as <-.
  - destruct (get_rx_datarate _ _ _ true) as [d2| |]; try (intros H; discriminate).
    destruct (get_datarate (rg_id (m_region m)) d2) as [d|]; try (intros H; discriminate).
    intros H. injection H as <-. split; [destruct d as [[? ?] ?]; reflexivity|]. intros dd H. discriminate.
Qed.

Theorem rx_windows_spec m tc w1 w2 :
  rx_windows m tc = Val (w1, w2) ->
  let r := rg_id (m_region m) in
  let rx2_freq := match cf_rx2_frequency (m_cfg m) with Some f => f | None => r_rx2_freq r end in
  exists d1 d2,
    get_rx_datarate r (tc_dr tc) (cf_rx1_dr_offset (m_cfg m)) false = Val d1 /\
    (match cf_rx2_data_rate (m_cfg m) with Some d => Val d
     | None => get_rx_datarate r (tc_dr tc) (cf_rx1_dr_offset (m_cfg m)) true end) = Val d2 /\
    rf_freq w1 = tc_rx1_freq tc /\ rf_freq w2 = rx2_freq /\
    (forall dd, get_datarate r d1 = Some dd -> w1 = mk_rf r (tc_rx1_freq tc) dd) /\
    (forall dd, get_datarate r d2 = Some dd -> w2 = mk_rf r rx2_freq dd).
Proof.
  unfold rx_windows, rx2_rf_config. cbv zeta.
  destruct (get_rx_datarate (rg_id (m_region m)) (tc_dr tc) (cf_rx1_dr_offset (m_cfg m)) false) as [d1| |] eqn:E1; try (intros H; discriminate).
  destruct (build_rf_config m (tc_rx1_freq tc) d1 (tc_dr tc)) as [a| |] eqn:Ea;
  destruct (match cf_rx2_data_rate (m_cfg m) with Some d => Val d | None => _ end) as [d2| |] eqn:E2;
  try (intros H; discriminate);
  try (destruct (build_rf_config m _ d2 (tc_dr tc)) as [b| |] eqn:Eb; try (intros H; discriminate)).
  intros H. injection H as <- <-. exists d1, d2.
  destruct (build_rf_config_spec _ _ _ _ _ Ea) as [Ha1 Ha2]. destruct (build_rf_config_spec _ _ _ _ _ Eb) as [Hb1 Hb2].
  repeat split; assumption.
Qed.

(* timing: RX1 = negotiated delay (join: 5 s), RX2 = RX1 + 1 s *)
Theorem rx_delays m :
  get_rx_delay m false false = cf_rx1_delay (m_cfg m) /\ get_rx_delay m false true = cf_rx1_delay (m_cfg m) + 1000 /\
  get_rx_delay m true false = 5000 /\ get_rx_delay m true true = 6000.
Proof. repeat split. Qed.

(* Class C listening uses the RX2 parameters *)
Theorem rxc_is_rx2 m : rxc_config m = rx2_rf_config m (cf_data_rate (m_cfg m)).
Proof. reflexivity. Qed.

(* fixed plans: RX1 frequency = downlink channel (uplink channel mod 8), uplink on the channel map *)
Theorem fixed_plan_pairing r dr chn p rest tc p' rest' :
  fix_mk_tx r dr chn p rest = Val (tc, p', rest') ->
  nth_error (r_uplink r) (N.to_nat chn) = Some (tc_freq tc) /\
  nth_error (r_downlink r) (N.to_nat (chn mod 8)) = Some (tc_rx1_freq tc) /\ tc_dr tc = dr /\ tc_index tc = chn.
Proof.
  unfold fix_mk_tx. destruct (datarate_index r dr) as [[dt|]| |]; try (intros H; discriminate).
  destruct (nth_error (r_uplink r) (N.to_nat chn)) as [f|]; try (intros H; discriminate).
  destruct (nth_error (r_downlink r) (N.to_nat (chn mod 8))) as [f1|]; try (intros H; discriminate).
  intros H. injection H as <- <- <-. cbn. repeat split.
Qed.
