(* Proofs/SessionProofs.v -- Session::handle_rx against the independent acceptance rule (C05, C07),
   and the uplink counter discipline at MAC level (C06). *)
From Coq Require Import NArith ZArith List Bool Lia ZifyBool ZifyNat ZifyN.
From LoraV Require Import Base.Bytes Crypto.AES Model.Frame Spec.L2Frame Model.MacCmd Gen.CmdTables Gen.RegionTables
  Model.Region Model.Mac Proofs.BytesProofs Proofs.ParseProofs Proofs.FcntProofs.
Import ListNotations.
Ltac Zify.zify_post_hook ::= Z.to_euclidean_division_equations.
Local Open Scope N_scope.

(* LoRaWAN freshness: the unique 32-bit counter for a 16-bit wire value *)
Definition fresh (last : option N) (w n : N) : Prop :=
  match last with
  | None => n = w
  | Some l => n mod 65536 = w /\ l < n <= l + 16384 /\ n < 4294967296
  end.

Lemma fresh_iff last w n : (match last with Some l => l < 4294967296 | None => True end) -> w < 65536 ->
  (next_fcnt_down last w = Some n <-> fresh last w n).
Proof.
  intros Hl Hw. destruct last as [l|]; cbn [fresh].
  - apply nfd_spec; assumption.
  - rewrite nfd_first. split; [intros H; now injection H | intros ->; reflexivity].
Qed.

Lemma wire_cnt_bound bs : bytes_ok bs = true -> v_fcnt bs < 65536.
Proof.
  intros H. unfold v_fcnt, nthN.
  assert (G : forall i, nth i bs 0 < 256).
  { intros i. destruct (nth_in_or_default i bs 0) as [Hin|Hd]; [|rewrite Hd; lia].
    unfold bytes_ok in H. rewrite forallb_forall in H. specialize (H _ Hin). unfold byte_ok in H. lia. }
  pose proof (G 6%nat). pose proof (G 7%nat). lia.
Qed.

Section SessionProofs.
  Variable enc : list N -> list N -> list N.
  Variable mac_fn : list N -> list N -> list N.

  (* acceptance as the independent reference defines it: well-formed, fits the data rate, authentic for the fresh counter *)
  Definition spec_accepts (s : session) (bytes : list N) (maxp : N) (n : N) : Prop :=
    wf_wire bytes = true /\ (length bytes <= N.to_nat maxp + 5)%nat /\
    fresh (ss_fcnt_down s) (v_fcnt bytes) n /\ wire_mic bytes = spec_mic mac_fn bytes (ss_nwkskey s) n.

  Definition oversized (bytes : list N) (maxp : N) : Prop :=
    wf_wire bytes = true /\ (N.to_nat maxp + 5 < length bytes)%nat.

  Definition fcnt_ok (s : session) : Prop :=
    match ss_fcnt_down s with Some l => l < 4294967296 | None => True end.

  Definition unchanged (s : session) (cf : configuration) (rg : region) (bytes : list N) (resp : response) : rx_out :=
    {| ro_session := s; ro_cf := cf; ro_rg := rg; ro_resp := resp; ro_downlink := None; ro_buf := bytes |}.

  (* C07: a frame that is not accepted (and not oversized) changes NOTHING: same session, configuration, region,
     buffer; response NoUpdate (the window stays open) *)
  Theorem reject_is_identity s cf rg bytes maxp snr ignore_mac :
    fcnt_ok s -> bytes_ok bytes = true ->
    (forall n, ~ spec_accepts s bytes maxp n) -> ~ oversized bytes maxp ->
    handle_rx_session enc mac_fn s cf rg bytes maxp snr ignore_mac = Val (unchanged s cf rg bytes RNoUpdate).
  Proof.
    intros Hf Hb Hna Hno. unfold handle_rx_session, unchanged.
    destruct (validate bytes) as [lay|e] eqn:Ev; [|reflexivity].
    assert (Hwf : wf_wire bytes = true) by (apply validate_ok_iff; eauto).
    destruct (Nat.ltb (N.to_nat maxp + 1 + 4) (length bytes)) eqn:Es.
    { exfalso. apply Hno. split; [exact Hwf|]. apply PeanoNat.Nat.ltb_lt in Es. lia. }
    apply PeanoNat.Nat.ltb_ge in Es.
    destruct (next_fcnt_down (ss_fcnt_down s) (v_fcnt bytes)) as [n|] eqn:En; [|reflexivity].
    destruct (validate_mic mac_fn bytes (ss_nwkskey s) n) eqn:Em; [|reflexivity].
    exfalso. apply (Hna n). split; [exact Hwf|]. split; [lia|]. split.
    - apply fresh_iff; [exact Hf | now apply wire_cnt_bound | exact En].
    - destruct (validate_layout bytes lay Ev) as (_ & _ & _ & _ & _ & H12 & _).
      apply (validate_mic_iff mac_fn); [lia | exact Em].
  Qed.

  (* an oversized (but parseable) frame: Class A window = as if it had timed out; Class C = ignored *)
  Theorem oversized_is_timeout s cf rg bytes maxp snr ignore_mac :
    oversized bytes maxp ->
    handle_rx_session enc mac_fn s cf rg bytes maxp snr ignore_mac =
    if ignore_mac then Val (unchanged s cf rg bytes RNoUpdate)
    else let '(s', cf', resp) := rx2_complete_session s cf (rg_id rg) in
         Val {| ro_session := s'; ro_cf := cf'; ro_rg := rg; ro_resp := resp; ro_downlink := None; ro_buf := bytes |}.
  Proof.
    intros [Hwf Hs]. unfold handle_rx_session, unchanged.
    destruct (proj2 (validate_ok_iff bytes) Hwf) as [lay Ev]. rewrite Ev.
    destruct (Nat.ltb (N.to_nat maxp + 1 + 4) (length bytes)) eqn:Es; [reflexivity|].
    apply PeanoNat.Nat.ltb_ge in Es. lia.
  Qed.

  (* C05: an accepted frame is accepted with exactly the fresh counter n: the session remembers n, the ADR count restarts,
     the buffer is the decryption under n, the frame counts as an uplink acknowledgement (fcnt_up + 1 unless exhausted) *)
  Theorem accept_effects s cf rg bytes maxp snr ignore_mac n o :
    fcnt_ok s -> bytes_ok bytes = true -> spec_accepts s bytes maxp n ->
    handle_rx_session enc mac_fn s cf rg bytes maxp snr ignore_mac = Val o ->
    ss_fcnt_down (ro_session o) = Some n /\ ss_adr_ack_cnt (ro_session o) = 0 /\
    ro_buf o = snd (decrypt_in_place enc bytes (Some (ss_nwkskey s)) (Some (ss_appskey s)) n) /\
    (ro_resp o = RDownlinkReceived n /\ ss_fcnt_up (ro_session o) = ss_fcnt_up s + 1
     \/ ro_resp o = RSessionExpired /\ ss_fcnt_up s = 0xFFFFFFFF /\ ss_fcnt_up (ro_session o) = ss_fcnt_up s) /\
    ss_nwkskey (ro_session o) = ss_nwkskey s /\ ss_appskey (ro_session o) = ss_appskey s /\
    ss_devaddr (ro_session o) = ss_devaddr s.
  Proof.
    intros Hf Hb (Hwf & Hsz & Hfr & Hmic). unfold handle_rx_session.
    destruct (proj2 (validate_ok_iff bytes) Hwf) as [lay Ev]. rewrite Ev.
    destruct (Nat.ltb (N.to_nat maxp + 1 + 4) (length bytes)) eqn:Es; [apply PeanoNat.Nat.ltb_lt in Es; lia|].
    assert (En : next_fcnt_down (ss_fcnt_down s) (v_fcnt bytes) = Some n)
      by (apply fresh_iff; [exact Hf | now apply wire_cnt_bound | exact Hfr]).
    rewrite En.
    assert (Em : validate_mic mac_fn bytes (ss_nwkskey s) n = true).
    { destruct (validate_layout bytes lay Ev) as (_ & _ & _ & _ & _ & H12 & _).
      apply (validate_mic_iff mac_fn); [lia | exact Hmic]. }
    rewrite Em. cbn [negb].
    destruct (decrypt_in_place enc bytes (Some (ss_nwkskey s)) (Some (ss_appskey s)) n) as [[lay'|e] buf] eqn:Ed;
      [|intros H; discriminate].
    destruct (if ignore_mac then _ else _) as [[[cf1 rg1] pend1]| |]; try (intros H; discriminate).
    destruct (match ignore_mac with true => _ | false => _ end) as [[[cf2 rg2] pend2]| |]; try (intros H; discriminate).
    intros H. injection H as <-. cbn [ro_session ro_buf ro_resp ss_fcnt_down ss_adr_ack_cnt ss_fcnt_up ss_nwkskey ss_appskey ss_devaddr snd].
    repeat split.
    destruct (ss_fcnt_up s =? 0xFFFFFFFF) eqn:E; [right | left]; repeat split; try reflexivity.
    now apply N.eqb_eq in E.
  Qed.

  (* an accepted downlink restarts the ADR count and, when confirmed, makes the next uplink owe an ACK *)
  Theorem accept_ack_owed s cf rg bytes maxp snr ignore_mac n o lay :
    fcnt_ok s -> bytes_ok bytes = true -> spec_accepts s bytes maxp n -> validate bytes = Ok lay ->
    handle_rx_session enc mac_fn s cf rg bytes maxp snr ignore_mac = Val o ->
    ss_owed_ack (ro_session o) = (if is_confirmed (l_type lay) then true else ss_owed_ack s) /\
    ss_adr_ack_cnt (ro_session o) = 0 /\ ss_confirmed (ro_session o) = ss_confirmed s.
  Proof.
    intros Hf Hb (Hwf & Hsz & Hfr & Hmic) Ev. unfold handle_rx_session. rewrite Ev.
    destruct (Nat.ltb (N.to_nat maxp + 1 + 4) (length bytes)) eqn:Es; [apply PeanoNat.Nat.ltb_lt in Es; lia|].
    assert (En : next_fcnt_down (ss_fcnt_down s) (v_fcnt bytes) = Some n)
      by (apply fresh_iff; [exact Hf | now apply wire_cnt_bound | exact Hfr]).
    rewrite En.
    assert (Em : validate_mic mac_fn bytes (ss_nwkskey s) n = true).
    { destruct (validate_layout bytes lay Ev) as (_ & _ & _ & _ & _ & H12 & _).
      apply (validate_mic_iff mac_fn); [lia | exact Hmic]. }
    rewrite Em. cbn [negb].
    unfold decrypt_in_place. rewrite Ev.
    destruct (Nat.ltb (l_frm_start lay) (l_frm_end lay)).
    - destruct (if match l_f_port_offset lay with Some off => negb (nthN bytes off =? 0) | None => false end
                then Some (ss_appskey s) else Some (ss_nwkskey s)) as [key|]; [|intros H; discriminate].
      destruct (if ignore_mac then _ else _) as [[[cf1 rg1] pend1]| |]; try (intros H; discriminate).
      destruct (match ignore_mac with true => _ | false => _ end) as [[[cf2 rg2] pend2]| |]; try (intros H; discriminate).
      intros H. injection H as <-. cbn. repeat split.
    - destruct (if ignore_mac then _ else _) as [[[cf1 rg1] pend1]| |]; try (intros H; discriminate).
      destruct (match ignore_mac with true => _ | false => _ end) as [[[cf2 rg2] pend2]| |]; try (intros H; discriminate).
      intros H. injection H as <-. cbn. repeat split.
  Qed.

  (* accepted counters strictly increase: no (key, counter) is accepted twice; never backwards across roll-overs *)
  Corollary accepted_counter_increases s n l :
    ss_fcnt_down s = Some l -> fresh (ss_fcnt_down s) (n mod 65536) n -> l < n.
  Proof. intros -> H. cbn [fresh] in H. lia. Qed.

  (* C06 at MAC level: whatever a receive does, the uplink counter never decreases, and only the documented events move it *)
  Theorem rx2_complete_counter s cf r :
    let '(s', _, resp) := rx2_complete_session s cf r in
    (ss_fcnt_up s = 0xFFFFFFFF /\ s' = s /\ resp = RSessionExpired) \/
    (ss_fcnt_up s < 0xFFFFFFFF /\ ss_fcnt_up s' = ss_fcnt_up s + 1 /\ resp <> RSessionExpired) \/
    (0xFFFFFFFF < ss_fcnt_up s /\ ss_fcnt_up s' = ss_fcnt_up s + 1).
  Proof.
    unfold rx2_complete_session. destruct (ss_fcnt_up s =? 0xFFFFFFFF) eqn:E.
    - left. apply N.eqb_eq in E. auto.
    - apply N.eqb_neq in E.
      destruct (if cf_adr cf then _ else _) as [cnt cf'].
      cbn [ss_fcnt_up].
      destruct (N.ltb_spec (ss_fcnt_up s) 0xFFFFFFFF); [right; left | right; right]; repeat split; try lia.
      destruct (ss_confirmed s); discriminate.
  Qed.

  Theorem handle_rx_counter_monotone s cf rg bytes maxp snr ignore_mac o :
    handle_rx_session enc mac_fn s cf rg bytes maxp snr ignore_mac = Val o ->
    ss_fcnt_up s <= ss_fcnt_up (ro_session o) <= ss_fcnt_up s + 1.
  Proof.
    unfold handle_rx_session.
    destruct (validate bytes) as [lay|e]; [|intros H; injection H as <-; cbn; lia].
    destruct (Nat.ltb _ _).
    - destruct ignore_mac; [intros H; injection H as <-; cbn; lia|].
      pose proof (rx2_complete_counter s cf (rg_id rg)) as Hc.
      destruct (rx2_complete_session s cf (rg_id rg)) as [[s' cf'] resp].
      intros H; injection H as <-. cbn [ro_session].
      destruct Hc as [(? & -> & ?) | [(? & ? & ?) | (? & ?)]]; lia.
    - destruct (next_fcnt_down _ _) as [n|]; [|intros H; injection H as <-; cbn; lia].
      destruct (negb _); [intros H; injection H as <-; cbn; lia|].
      destruct (decrypt_in_place _ _ _ _ _) as [[lay'|e] buf]; [|intros H; discriminate].
      destruct (if ignore_mac then _ else _) as [[[cf1 rg1] pend1]| |]; try (intros H; discriminate).
      destruct (match ignore_mac with true => _ | false => _ end) as [[[cf2 rg2] pend2]| |]; try (intros H; discriminate).
      intros H. injection H as <-. cbn [ro_session ss_fcnt_up].
      destruct (ss_fcnt_up s =? 0xFFFFFFFF); lia.
  Qed.

  (* prepare_buffer hands out exactly the current counter and does not move it: the counter of the next frame is
     decided only by rx2_complete / an accepted downlink (front-ends must close every uplink with one of them) *)
  Theorem prepare_buffer_counter s cf r data fport confirmed s' fcnt frame :
    prepare_buffer enc mac_fn s cf r data fport confirmed = Val (s', fcnt, frame) ->
    fcnt = ss_fcnt_up s /\ ss_fcnt_up s' = ss_fcnt_up s /\ ss_fcnt_down s' = ss_fcnt_down s /\
    ss_nwkskey s' = ss_nwkskey s /\ ss_appskey s' = ss_appskey s /\ ss_devaddr s' = ss_devaddr s /\
    ss_owed_ack s' = false /\ ss_confirmed s' = confirmed.
  Proof.
    unfold prepare_buffer.
    destruct ((fport =? 0) && negb (Nat.eqb (length data) 0)); [intros H; discriminate|].
    destruct (build_data _ _ _ _ _ _) as [[buf len]|e]; [|intros H; discriminate].
    destruct (Nat.ltb len 256); [|intros H; discriminate].
    intros H. injection H as <- <- <-. cbn. repeat split.
  Qed.
  (* ... and the application's queue of delivered, not yet collected downlinks is not touched by a frame that is not accepted
     (rejected, or oversized) *)
  Theorem rejected_frame_keeps_the_downlink_queue s cf rg bytes maxp snr ignore_mac depth q o :
    fcnt_ok s -> bytes_ok bytes = true ->
    (forall n, ~ spec_accepts s bytes maxp n) ->
    handle_rx_session enc mac_fn s cf rg bytes maxp snr ignore_mac = Val o ->
    dl_queue_push depth q (ro_downlink o) = q.
  Proof.
    intros Hf Hb Hna H.
    assert (D : oversized bytes maxp \/ ~ oversized bytes maxp).
    { unfold oversized. destruct (wf_wire bytes) eqn:W; [|right; intros [A _]; discriminate].
      destruct (Compare_dec.lt_dec (N.to_nat maxp + 5) (length bytes)) as [L|L]; [left; split; [reflexivity|exact L]|right; intros [_ B]; exact (L B)]. }
    destruct D as [Ho|Hno].
    - rewrite (oversized_is_timeout s cf rg bytes maxp snr ignore_mac Ho) in H. destruct ignore_mac.
      + injection H as <-. reflexivity.
      + destruct (rx2_complete_session s cf (rg_id rg)) as [[s' cf'] resp]. injection H as <-. reflexivity.
    - rewrite (reject_is_identity s cf rg bytes maxp snr ignore_mac Hf Hb Hna Hno) in H. injection H as <-. reflexivity.
  Qed.
End SessionProofs.
