(* Proofs/NbNoPanic.v -- C04 at the non-blocking front-end: no event, no answer of the radio, no received packet makes the nb_device
   state machine panic; the only panics are the deliberate ones of Session::prepare_buffer on a send request (application misuse). *)
From Coq Require Import NArith ZArith List Bool Lia.
From LoraV Require Import Base.Bytes Model.Frame Model.Region Model.Mac Model.NbDev Gen.RegionTables
  Proofs.NoPanicProofs.
Import ListNotations.
Local Open Scope N_scope.

Section NbNP.
  Variable enc mac_fn : list N -> list N -> list N.
  Hypothesis enc_len : forall k b, length (enc k b) = 16%nat.
  Hypothesis mac_len : forall k b, length (mac_fn k b) = 16%nat.

  Lemma delays_ordered m join : (get_rx_delay m join true <? get_rx_delay m join false) = false.
  Proof. apply N.ltb_ge. unfold get_rx_delay. destruct join; [vm_compute; discriminate|lia]. Qed.

  Lemma idle_tx_np m e join o ans st' m' e' r : idle_tx m e join o ans = (st', m', e', r) -> mac_ok m -> r <> NrPanic /\ mac_ok m'.
  Proof.
    unfold idle_tx. intros H Hok. destruct (ncall_radio e (NcTx (to_tx o) (to_frame o))) as [e1 ok].
    assert (CON : forall dflt, dflt <> NrPanic ->
              (if join then (NIdle, m, e1, dflt)
               else let '(m2, r2) := mac_rx2_complete m in
                    match r2 with RSessionExpired => (NIdle, m2, e1, NrSessionExpired) | _ => (NIdle, m2, e1, dflt) end) = (st', m', e', r) -> r <> NrPanic /\ mac_ok m').
    { intros dflt ND HH. destruct join; [injection HH as _ <- _ <-; split; assumption|].
      pose proof (mac_rx2_complete_ok m Hok) as OK2. destruct (mac_rx2_complete m) as [m2 r2]. cbn [fst] in OK2.
      destruct r2; injection HH as _ <- _ <-; split; try assumption; discriminate. }
    destruct ok; cbn [negb] in H; [|apply (CON NrErrRadio); [discriminate|exact H]].
    destruct ans; try (apply (CON (NrErrState SUnexpectedRadioResponse)); [discriminate|exact H]); try (apply (CON NrErrRadio); [discriminate|exact H]).
    - injection H as _ <- _ <-. split; [discriminate|exact Hok].
    - unfold rxwindow1 in H. injection H as _ <- _ <-. split; [discriminate|exact Hok].
  Qed.

  (* one event: no panic except prepare_buffer's, the invariant of the MAC is kept *)
  Theorem nb_event_never_panics st m e ev ans st' m' e' r : handle_event enc mac_fn st m e ev ans = (st', m', e', r) -> mac_ok m ->
    mac_ok m' /\
    (r = NrPanic -> exists s data fport confirmed draws, ev = NSend data fport confirmed draws /\ st = NIdle /\ m_state m = Joined s /\
                      prepare_buffer enc mac_fn s (m_cfg m) (rg_id (m_region m)) data fport confirmed = Panic).
  Proof.
    intros H Hok. destruct st as [|j rx1 rx2|j rx1 rx2 w|j rx1 rx2 w rf]; cbn [handle_event] in H.
    - destruct ev as [cr dr|data fport confirmed draws| |]; try (injection H as _ <- _ <-; split; [exact Hok|intros X; discriminate X]).
      + pose proof (join_never_panics mac_fn m cr dr Hok mac_len) as NJ. destruct (join_otaa mac_fn m cr dr) as [o| |] eqn:JO; try contradiction.
        * assert (Hok0 : mac_ok (to_mac o)).
          { unfold join_otaa in JO. destruct dr as [|d0 rest]; [discriminate JO|].
            destruct (build_join_request _ _ _ _ _ _) as [[buf len]|er]; [|discriminate JO].
            set (m1 := with_state m (Otaa (d0 mod 65536) cr)) in *. assert (Hok1 : mac_ok m1) by exact Hok.
            destruct Hok as [Hrg [C1 C2]]. destruct (uplink_dr (m_region m) (cf_data_rate (m_cfg m))) as [xx|] eqn:Eu; [|congruence].
            pose proof (tx_tail_ok m1 (cf_data_rate (m_cfg m1)) true rest Hok1 (ex_intro _ xx (datarate_index_of_get _ _ _ (uplink_dr_defined _ _ _ Eu))) (m_max_power m1)) as T.
            destruct (create_tx_config (m_region m1) (cf_data_rate (m_cfg m1)) true rest) as [[[[[pw0 rf0] tc] rg'] rest']| |]; try discriminate JO.
            destruct (adjust_power pw0 (m_max_power m1) (m_gain m1)) as [pw| |]; try discriminate JO.
            destruct T as [ww [Ew Hm]]. rewrite Ew in JO. destruct ww. injection JO as <-. exact Hm. }
          destruct (idle_tx_np _ _ _ _ _ _ _ _ _ H Hok0) as [NP OK']. split; [exact OK'|intros X; contradiction].
        * injection H as _ <- _ <-. split; [exact Hok|intros X; discriminate X].
      + destruct (send enc mac_fn m data fport confirmed draws) as [[o|]| |] eqn:SD.
        * pose proof (send_keeps_invariant enc mac_fn _ _ _ _ _ _ Hok SD) as Hok0.
          destruct (idle_tx_np _ _ _ _ _ _ _ _ _ H Hok0) as [NP OK']. split; [exact OK'|intros X; contradiction].
        * injection H as _ <- _ <-. split; [exact Hok|intros X; discriminate X].
        * injection H as _ <- _ <-. split; [exact Hok|]. intros _.
          destruct (send_panics_only_in_prepare_buffer enc mac_fn _ _ _ _ _ Hok SD) as [s [Es P]]. exists s, data, fport, confirmed, draws. repeat split; assumption.
        * injection H as _ <- _ <-. split; [exact Hok|intros X; discriminate X].
    - destruct ev as [cr dr|data fport confirmed draws| |]; try (injection H as _ <- _ <-; split; [exact Hok|intros X; discriminate X]).
      destruct (ncall_radio e NcPhy) as [e1 ok]. destruct ok; cbn [negb] in H; [|injection H as _ <- _ <-; split; [exact Hok|intros X; discriminate X]].
      destruct ans; try (injection H as _ <- _ <-; split; [exact Hok|intros X; discriminate X]).
    - destruct ev as [cr dr|data fport confirmed draws| |]; try (injection H as _ <- _ <-; split; [exact Hok|intros X; discriminate X]).
      destruct (ncall_radio e _) as [e1 ok]. destruct ok; cbn [negb] in H; [|injection H as _ <- _ <-; split; [exact Hok|intros X; discriminate X]].
      destruct w as [t|t].
      + rewrite delays_ordered in H. injection H as _ <- _ <-. split; [exact Hok|intros X; discriminate X].
      + injection H as _ <- _ <-. split; [exact Hok|intros X; discriminate X].
    - destruct ev as [cr dr|data fport confirmed draws| |]; try (injection H as _ <- _ <-; split; [exact Hok|intros X; discriminate X]).
      + destruct (ncall_radio e NcPhy) as [e1 ok]. destruct ok; cbn [negb] in H; [|injection H as _ <- _ <-; split; [exact Hok|intros X; discriminate X]].
        destruct ans; try (injection H as _ <- _ <-; split; [exact Hok|intros X; discriminate X]).
        destruct (Nat.leb 256 (length packet)); [injection H as _ <- _ <-; split; [exact Hok|intros X; discriminate X]|].
        destruct (mac_handle_rx_total enc mac_fn enc_len m packet 5 (rf_max_payload rf) false Hok) as [o [E OK]]. rewrite E in H.
        destruct o as [o|].
        * pose proof (OK o eq_refl) as Hok1. destruct (mo_resp o); injection H as _ <- _ <-; (split; [exact Hok1|intros X; discriminate X]).
        * exfalso. unfold mac_handle_rx in E. destruct (m_state m); [destruct (handle_rx_session _ _ _ _ _ _ _ _ _); discriminate E| |discriminate E].
          destruct (otaa_handle_rx _ _ _ _ _ _) as [[[? ?] ?]| |]; discriminate E.
      + destruct (ncall_radio e NcCancelRx) as [e1 ok]. destruct ok; cbn [negb] in H; [|injection H as _ <- _ <-; split; [exact Hok|intros X; discriminate X]].
        destruct w as [t|t].
        * rewrite delays_ordered in H. injection H as _ <- _ <-. split; [exact Hok|intros X; discriminate X].
        * pose proof (mac_rx2_complete_ok m Hok) as OK2. destruct (mac_rx2_complete m) as [m2 r2]. cbn [fst] in OK2. injection H as _ <- _ <-.
          split; [exact OK2|]. intros X. destruct r2; discriminate X.
  Qed.
End NbNP.
