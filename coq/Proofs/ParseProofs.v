(* Proofs/ParseProofs.v -- the data-frame parser / MIC check / decryption of Model/Frame.v against Spec/L2Frame.v. *)
From Coq Require Import NArith List Bool Lia Arith ZArith ZifyBool ZifyNat ZifyN.
From LoraV Require Import Base.Bytes Crypto.AES Model.Frame Spec.L2Frame Proofs.BytesProofs Proofs.FrameProofs.
Import ListNotations.
Ltac Zify.zify_post_hook ::= Z.to_euclidean_division_equations.
Local Open Scope nat_scope.

Lemma land3_mod m : N.land m 3 = (m mod 4)%N.
Proof. change 3%N with (N.ones 2). now rewrite N.land_ones. Qed.

Lemma shiftr5_div m : N.shiftr m 5 = (m / 32)%N.
Proof. now rewrite N.shiftr_div_pow2. Qed.

Lemma dir_bit m : N.shiftr (N.land m 0x20) 5 = ((m / 32) mod 2)%N.
Proof.
  rewrite N.shiftr_land. change (N.shiftr 0x20 5) with (N.ones 1).
  rewrite N.land_ones, N.shiftr_div_pow2. reflexivity.
Qed.

Lemma from_mhdr_some m : (exists t, from_mhdr m = Some t) <-> (2 <= m / 32 <= 5)%N.
Proof.
  unfold from_mhdr. rewrite shiftr5_div. set (q := (m / 32)%N). split.
  - intros [t H]. destruct q as [|[[|[]|]|[[]|[]|]|]]; try discriminate; lia.
  - intros H.
    assert (Hc : q = 2%N \/ q = 3%N \/ q = 4%N \/ q = 5%N) by lia.
    destruct Hc as [-> | [-> | [-> | ->]]]; eexists; reflexivity.
Qed.

(* parsing succeeds exactly on structurally well-formed frames *)
Theorem validate_ok_iff bs : (exists l, validate bs = Ok l) <-> wf_wire bs = true.
Proof.
  unfold validate, wf_wire. rewrite land3_mod, land15_mod.
  destruct (Nat.ltb (length bs) 12) eqn:E1.
  - apply Nat.ltb_lt in E1. split; [intros [l H]; discriminate|].
    intros H. apply andb_true_iff in H. destruct H as [H _].
    repeat (apply andb_true_iff in H; destruct H as [H ?]). apply Nat.leb_le in H. lia.
  - apply Nat.ltb_ge in E1.
    destruct (nthN bs 0 mod 4 =? 0)%N eqn:E2; cbn [negb].
    + pose proof (from_mhdr_some (nthN bs 0)) as Hm.
      destruct (from_mhdr (nthN bs 0)) as [t|] eqn:E3.
      * assert (Hq : (2 <= nthN bs 0 / 32 <= 5)%N) by (apply Hm; eauto).
        set (fl := N.to_nat (nthN bs 5 mod 16)).
        destruct (Nat.ltb (length bs - 4) (1 + (7 + fl))) eqn:E4.
        -- apply Nat.ltb_lt in E4. split; [intros [l H]; discriminate|].
           intros H. repeat (apply andb_true_iff in H; destruct H as [H ?]).
           match goal with X : Nat.leb (8 + fl + 4) _ = true |- _ => apply Nat.leb_le in X end. lia.
        -- apply Nat.ltb_ge in E4. split; [intros _ | intros _; destruct (Nat.ltb _ _); eauto].
           repeat (apply andb_true_iff; split); try assumption; try reflexivity; try (apply Nat.leb_le; lia); try (apply N.leb_le; lia).
      * split; [intros [l H]; discriminate|]. intros H.
        repeat (apply andb_true_iff in H; destruct H as [H ?]).
        assert (exists t, @None ftype = Some t) as [t Ht]; [|discriminate].
        apply Hm. split; apply N.leb_le; assumption.
    + split; [intros [l H]; discriminate|]. intros H.
      repeat (apply andb_true_iff in H; destruct H as [H ?]). discriminate.
Qed.

(* the layout a successful parse computes: all offsets inside the frame *)
Theorem validate_layout bs l : validate bs = Ok l ->
  l_fhdr_len l = 7 + wire_fopts_len bs /\
  l_frm_end l = length bs - 4 /\
  l_frm_start l <= l_frm_end l /\ 1 + l_fhdr_len l <= l_frm_start l /\ l_frm_end l + 4 = length bs /\
  12 <= length bs /\
  from_mhdr (nthN bs 0) = Some (l_type l) /\
  match l_f_port_offset l with
  | Some off => off = 1 + l_fhdr_len l /\ l_frm_start l = S off /\ off < l_frm_end l
  | None => l_frm_start l = 1 + l_fhdr_len l /\ l_frm_start l = l_frm_end l
  end.
Proof.
  unfold validate, wire_fopts_len. rewrite land15_mod.
  destruct (Nat.ltb (length bs) 12) eqn:E1; [discriminate|]. apply Nat.ltb_ge in E1.
  destruct (negb _); [discriminate|].
  destruct (from_mhdr (nthN bs 0)) as [t|]; [|discriminate].
  set (fl := N.to_nat (nthN bs 5 mod 16)).
  destruct (Nat.ltb (length bs - 4) (1 + (7 + fl))) eqn:E4; [discriminate|]. apply Nat.ltb_ge in E4.
  destruct (Nat.ltb (1 + (7 + fl)) (length bs - 4)) eqn:E5; intros H; injection H as <-; cbn.
  - apply Nat.ltb_lt in E5. repeat split; lia.
  - apply Nat.ltb_ge in E5. repeat split; lia.
Qed.

  (* authenticity: the MIC check accepts exactly when the frame's MIC equals the reference MIC
     for the given 32-bit counter and the frame's own direction bit *)
  Theorem validate_mic_iff (mac : list N -> list N -> list N) bs key n : 9 <= length bs ->
    (validate_mic mac bs key n = true <-> wire_mic bs = spec_mic mac bs key n).
  Proof.
    intros Hlen.
    unfold validate_mic, mic_of, wire_mic, spec_mic, calculate_data_mic, helper_block, wire_body,
      wire_addr_bytes, wire_dir.
    rewrite list_eqb_eq, le_bytes4_land.
    assert (Hd : nthN (firstn (length bs - 4) bs) 0 = nthN bs 0).
    { destruct (length bs - 4) eqn:E; [lia|]. destruct bs; reflexivity. }
    assert (Hs : slice (firstn (length bs - 4) bs) 1 5 = slice bs 1 5).
    { unfold slice. rewrite skipn_firstn_comm, firstn_firstn. f_equal. lia. }
    rewrite Hd, Hs, dir_bit. repeat rewrite <- app_assoc. cbn [app]. reflexivity.
  Qed.


Section ParseProofs.
  Variable enc dec : list N -> list N -> list N.
  Variable mac : list N -> list N -> list N.
  Hypothesis enc_len : forall k b, length (enc k b) = 16.
  Hypothesis mac_len : forall k m, length (mac k m) = 16.

  (* a failing checked decode leaves the caller's buffer byte-identical *)
  Theorem failed_check_leaves_buffer bs nwk appk n e :
    fst (check_mic_and_decrypt_in_place enc mac bs nwk appk n) = Err e ->
    snd (check_mic_and_decrypt_in_place enc mac bs nwk appk n) = bs.
  Proof.
    unfold check_mic_and_decrypt_in_place, decrypt_in_place.
    destruct (validate bs) as [l|e0]; [|reflexivity].
    destruct (validate_mic mac bs nwk n); [|reflexivity].
    destruct (Nat.ltb (l_frm_start l) (l_frm_end l)); [|intros H; discriminate].
    destruct (if match l_f_port_offset l with Some off => negb (nthN bs off =? 0)%N | None => false end
              then appk else Some nwk); [intros H; discriminate | reflexivity].
  Qed.

  Theorem failed_decrypt_leaves_buffer bs nwk appk n e :
    fst (decrypt_in_place enc bs nwk appk n) = Err e -> snd (decrypt_in_place enc bs nwk appk n) = bs.
  Proof.
    unfold decrypt_in_place.
    destruct (validate bs) as [l|e0]; [|reflexivity].
    destruct (Nat.ltb (l_frm_start l) (l_frm_end l)); [|intros H; discriminate].
    destruct (if match l_f_port_offset l with Some off => negb (nthN bs off =? 0)%N | None => false end
              then appk else nwk); [intros H; discriminate | reflexivity].
  Qed.

  (* ------------------------------------------------------------ round trip: parse (build d) = d *)
  Definition pp_plain (d : data_frame) : list N :=
    match df_payload d with PNone => [] | PData port data => port :: data | PMac cmds => 0%N :: cmds end.

  Definition built_layout (d : data_frame) (pp : list N) : layout :=
    let fl := length (df_f_opts d) in
    match pp with
    | [] => {| l_type := df_type d; l_fhdr_len := 7 + fl; l_f_port_offset := None;
               l_frm_start := 8 + fl; l_frm_end := 8 + fl |}
    | _ => {| l_type := df_type d; l_fhdr_len := 7 + fl; l_f_port_offset := Some (8 + fl);
              l_frm_start := 9 + fl; l_frm_end := 8 + fl + length pp |}
    end.

  Lemma fctrl_low_nibble d : length (df_f_opts d) <= 15 ->
    N.to_nat (N.land (fctrl_of d) 0x0f) = length (df_f_opts d).
  Proof.
    intros H. rewrite fctrl_spec by exact H. rewrite land15_mod. unfold spec_fctrl, lenN.
    destruct (df_adr d), (df_adr_ack_req d && is_uplink (df_type d))%bool, (df_ack d),
      (df_f_pending d && negb (is_uplink (df_type d)))%bool; lia.
  Qed.

  Lemma head_nth5 d rest : nthN (head_of d [] ++ rest) 5 = fctrl_of d.
  Proof. reflexivity. Qed.
  Lemma head_nth0 d rest : nthN (head_of d [] ++ rest) 0 = mhdr_of (df_type d).
  Proof. reflexivity. Qed.

  Lemma validate_built d pp mic4 : length (df_f_opts d) <= 15 -> length mic4 = 4 ->
    validate (head_of d [] ++ pp ++ mic4) = Ok (built_layout d pp).
  Proof.
    intros Hfo Hm. unfold validate.
    assert (Hl : length (head_of d [] ++ pp ++ mic4) = 8 + length (df_f_opts d) + length pp + 4).
    { rewrite !app_length, head_length, Hm. cbn [length]. lia. }
    rewrite Hl, head_nth0, head_nth5, fctrl_low_nibble by exact Hfo.
    destruct (Nat.ltb _ 12) eqn:E1; [apply Nat.ltb_lt in E1; lia|].
    assert (H3 : N.land (mhdr_of (df_type d)) 3 = 0%N) by (destruct (df_type d); reflexivity).
    rewrite H3. cbn [N.eqb negb].
    assert (Hf : from_mhdr (mhdr_of (df_type d)) = Some (df_type d)) by (destruct (df_type d); reflexivity).
    rewrite Hf.
    match goal with |- (if ?c then Err TruncatedFhdr else _) = _ => destruct c eqn:E2 end;
      [apply Nat.ltb_lt in E2; lia|].
    unfold built_layout. destruct pp as [|p pp'].
    - match goal with |- (if ?c then _ else _) = _ => destruct c eqn:E3 end;
        [apply Nat.ltb_lt in E3; cbn [length] in E3; lia|].
      f_equal. f_equal; cbn [length]; try lia; f_equal; lia.
    - match goal with |- (if ?c then _ else _) = _ => destruct c eqn:E3 end;
        [|apply Nat.ltb_ge in E3; cbn [length] in E3; lia].
      f_equal. f_equal; cbn [length]; try lia; f_equal; lia.
  Qed.

  Lemma encrypt_payload_spec_tl t addr tl frm rest fcnt key :
    let head := mhdr_of t :: le_bytes 4 addr ++ tl in
    length frm <= 255 * 16 ->
    encrypt_frm_data_payload enc (head ++ frm ++ rest) (length head) (length head + length frm) fcnt key
    = head ++ frm_crypt enc key (dir_of t) addr fcnt frm ++ rest.
  Proof.
    intros head Hl. unfold encrypt_frm_data_payload.
    rewrite firstn_app_exact, slice_app_mid.
    replace (skipn (length head + length frm) (head ++ frm ++ rest)) with rest
      by (rewrite app_assoc, <- app_length, skipn_app_exact; reflexivity).
    f_equal. f_equal.
    change 1%N with (N.of_nat 1).
    rewrite (crypt_blocks_spec enc dec mac enc_len mac_len); [| lia | unfold nblocks; lia].
    unfold frm_crypt, keystream. f_equal.
    apply flat_map_ext. intros i.
    subst head. cbn [app]. rewrite <- app_assoc.
    rewrite block_A_of_helper. reflexivity.
  Qed.

  Lemma frm_crypt_involutive key dir addr fcnt p :
    frm_crypt enc key dir addr fcnt (frm_crypt enc key dir addr fcnt p) = p.
  Proof.
    unfold frm_crypt at 1. rewrite (frm_crypt_length enc dec mac enc_len mac_len).
    unfold frm_crypt. apply xor_list_involutive.
    rewrite (keystream_length enc dec mac enc_len mac_len). unfold nblocks. lia.
  Qed.

  Lemma full_counter n fcnt : (n / 65536 = fcnt / 65536)%N ->
    N.lor (N.shiftl (N.shiftr n 16) 16) (fcnt mod 65536)%N = fcnt.
  Proof.
    intros H.
    replace (N.shiftr n 16) with (N.shiftr fcnt 16)
      by (rewrite !N.shiftr_div_pow2; change (2 ^ 16)%N with 65536%N; symmetry; exact H).
    rewrite <- N.ldiff_ones_r.
    change 65536%N with (2 ^ 16)%N. rewrite <- N.land_ones.
    apply N.lor_ldiff_and.
  Qed.

  Lemma head_snoc d port : head_of d port = head_of d [] ++ port.
  Proof. unfold head_of. repeat rewrite <- app_assoc. rewrite app_nil_l. reflexivity. Qed.

  Definition port_ok (d : data_frame) : Prop :=
    match df_payload d with PData port _ => port <> 0%N | _ => True end.

  (* shape of every frame the spec produces *)
  Lemma spec_data_shape d nwk appk f : spec_data enc mac d nwk appk = Some f ->
    length (df_f_opts d) <= 15 /\
    exists pp_enc,
      f = head_of d [] ++ pp_enc ++ firstn 4 (mac nwk (block_B0 (dir_of (df_type d)) (df_addr d) (df_fcnt d)
                                                   (lenN (head_of d [] ++ pp_enc)) ++ head_of d [] ++ pp_enc)) /\
      match df_payload d with
      | PNone => pp_enc = []
      | PData port data => exists k, appk = Some k /\
                           pp_enc = port :: frm_crypt enc k (dir_of (df_type d)) (df_addr d) (df_fcnt d) data
      | PMac cmds => pp_enc = 0%N :: frm_crypt enc nwk (dir_of (df_type d)) (df_addr d) (df_fcnt d) cmds
      end.
  Proof.
    unfold spec_data. destruct (Nat.ltb 15 (length (df_f_opts d))) eqn:Efo; [discriminate|].
    apply Nat.ltb_ge in Efo. unfold spec_port_payload. intros H. split; [exact Efo|].
    destruct (df_payload d) as [|port data|cmds].
    - apply Some_inj in H. subst f. exists []. split; [|reflexivity].
      change (spec_msg d []) with (spec_msg d ([] ++ [])). rewrite spec_msg_head by exact Efo.
      rewrite !app_nil_r. reflexivity.
    - destruct appk as [k|]; [|discriminate]. apply Some_inj in H. subst f.
      eexists. split; [|exists k; split; reflexivity].
      change (port :: frm_crypt enc k (dir_of (df_type d)) (df_addr d) (df_fcnt d) data)
        with ([port] ++ frm_crypt enc k (dir_of (df_type d)) (df_addr d) (df_fcnt d) data).
      rewrite spec_msg_head by exact Efo. rewrite head_snoc. repeat rewrite <- app_assoc. reflexivity.
    - destruct (df_f_opts d) as [|o os] eqn:E; [|discriminate]. apply Some_inj in H. subst f.
      eexists. split; [|reflexivity].
      change (0%N :: frm_crypt enc nwk (dir_of (df_type d)) (df_addr d) (df_fcnt d) cmds)
        with ([0%N] ++ frm_crypt enc nwk (dir_of (df_type d)) (df_addr d) (df_fcnt d) cmds).
      rewrite spec_msg_head by (rewrite E; cbn; lia). rewrite head_snoc. repeat rewrite <- app_assoc. reflexivity.
  Qed.

  Lemma built_layout_same d a b : length a = length b -> built_layout d a = built_layout d b.
  Proof. intros H. unfold built_layout. destruct a, b; cbn [length] in *; try discriminate; try reflexivity. now rewrite H. Qed.

  Lemma head_wire_fcnt d rest :
    (nthN (head_of d [] ++ rest) 6 + 256 * nthN (head_of d [] ++ rest) 7 = df_fcnt d mod 65536)%N.
  Proof.
    replace (nthN (head_of d [] ++ rest) 6) with ((df_fcnt d mod 65536) mod 256)%N by reflexivity.
    replace (nthN (head_of d [] ++ rest) 7) with ((df_fcnt d mod 65536 / 256) mod 256)%N by reflexivity.
    lia.
  Qed.

  Lemma nth_after_head d p rest : nthN (head_of d [] ++ p :: rest) (8 + length (df_f_opts d)) = p.
  Proof.
    unfold nthN. replace (8 + length (df_f_opts d)) with (length (head_of d [])) by (rewrite head_length; cbn; lia).
    apply nth_middle.
  Qed.

  (* decrypting a spec frame restores the plaintext, for every counter hint with the right upper half *)
  Theorem decrypt_roundtrip d nwk appk f n :
    spec_data enc mac d nwk appk = Some f -> length f <= 259 -> port_ok d ->
    (n / 65536 = df_fcnt d / 65536)%N ->
    decrypt_in_place enc f (Some nwk) appk n
    = (Ok (built_layout d (pp_plain d)), head_of d [] ++ pp_plain d ++ mic_of f).
  Proof.
    intros Hs Hlen Hport Hn.
    destruct (spec_data_shape d nwk appk f Hs) as (Hfo & pp_enc & Hf & Hpp).
    set (mic4 := firstn 4 (mac nwk (block_B0 (dir_of (df_type d)) (df_addr d) (df_fcnt d)
                                     (lenN (head_of d [] ++ pp_enc)) ++ head_of d [] ++ pp_enc))) in *.
    assert (Hm4 : length mic4 = 4) by (subst mic4; apply (mic4_length mac mac_len)).
    assert (Hmic : mic_of f = mic4).
    { unfold mic_of. rewrite Hf. rewrite !app_length, Hm4.
      replace (length (head_of d []) + (length pp_enc + 4) - 4) with (length (head_of d [] ++ pp_enc))
        by (rewrite app_length; lia).
      rewrite app_assoc. apply skipn_app_exact. }
    rewrite Hmic.
    assert (Hlen' : 8 + length (df_f_opts d) + length pp_enc + 4 <= 259).
    { rewrite Hf, !app_length, Hm4, head_length in Hlen. cbn [length] in Hlen. lia. }
    unfold decrypt_in_place. rewrite Hf, validate_built by assumption.
    unfold pp_plain, port_ok in *.
    destruct (df_payload d) as [|port data|cmds].
    - subst pp_enc. cbn [built_layout l_frm_start l_frm_end]. rewrite Nat.ltb_irrefl. reflexivity.
    - destruct Hpp as (k & -> & ->).
      set (ct := frm_crypt enc k (dir_of (df_type d)) (df_addr d) (df_fcnt d) data).
      assert (Hct : length ct = length data) by apply (frm_crypt_length enc dec mac enc_len mac_len).
      rewrite (built_layout_same d (port :: ct) (port :: data)) by (cbn [length]; lia).
      cbn [built_layout l_frm_start l_frm_end l_f_port_offset length].
      destruct (Nat.ltb _ _) eqn:E.
      + apply Nat.ltb_lt in E.
        change ((port :: ct) ++ mic4) with (port :: (ct ++ mic4)). rewrite nth_after_head.
        change (port :: (ct ++ mic4)) with ((port :: ct) ++ mic4).
        destruct (port =? 0)%N eqn:Ep; [apply N.eqb_eq in Ep; contradiction|]. cbn [negb].
        rewrite head_wire_fcnt, full_counter by exact Hn.
        f_equal.
        replace (head_of d [] ++ (port :: ct) ++ mic4) with (head_of d [port] ++ ct ++ mic4)
          by (rewrite head_snoc; repeat rewrite <- app_assoc; reflexivity).
        replace (9 + length (df_f_opts d)) with (length (head_of d [port])) by (rewrite head_length; cbn; lia).
        replace (8 + length (df_f_opts d) + S (length data)) with (length (head_of d [port]) + length ct)
          by (rewrite head_length, Hct; cbn; lia).
        rewrite head_shape. rewrite encrypt_payload_spec_tl by (cbn [length] in Hlen'; fold ct in Hlen'; lia).
        rewrite <- head_shape. subst ct. rewrite frm_crypt_involutive.
        rewrite head_snoc. repeat rewrite <- app_assoc. reflexivity.
      + apply Nat.ltb_ge in E. destruct data; [|cbn [length] in E; lia]. reflexivity.
    - subst pp_enc.
      set (ct := frm_crypt enc nwk (dir_of (df_type d)) (df_addr d) (df_fcnt d) cmds).
      assert (Hct : length ct = length cmds) by apply (frm_crypt_length enc dec mac enc_len mac_len).
      rewrite (built_layout_same d (0%N :: ct) (0%N :: cmds)) by (cbn [length]; lia).
      cbn [built_layout l_frm_start l_frm_end l_f_port_offset length].
      destruct (Nat.ltb _ _) eqn:E.
      + apply Nat.ltb_lt in E.
        change ((0%N :: ct) ++ mic4) with (0%N :: (ct ++ mic4)). rewrite nth_after_head.
        change (0%N :: (ct ++ mic4)) with ((0%N :: ct) ++ mic4). cbn [N.eqb negb].
        rewrite head_wire_fcnt, full_counter by exact Hn.
        f_equal.
        replace (head_of d [] ++ (0%N :: ct) ++ mic4) with (head_of d [0%N] ++ ct ++ mic4)
          by (rewrite head_snoc; repeat rewrite <- app_assoc; reflexivity).
        replace (9 + length (df_f_opts d)) with (length (head_of d [0%N])) by (rewrite head_length; cbn; lia).
        replace (8 + length (df_f_opts d) + S (length cmds)) with (length (head_of d [0%N]) + length ct)
          by (rewrite head_length, Hct; cbn; lia).
        rewrite head_shape. rewrite encrypt_payload_spec_tl by (cbn [length] in Hlen'; fold ct in Hlen'; lia).
        rewrite <- head_shape. subst ct. rewrite frm_crypt_involutive.
        rewrite head_snoc. repeat rewrite <- app_assoc. reflexivity.
      + apply Nat.ltb_ge in E. destruct cmds; [|cbn [length] in E; lia]. reflexivity.
  Qed.

  (* the MIC of a spec frame verifies under its own 32-bit counter ... *)
  Lemma built_mic_valid d nwk appk f :
    spec_data enc mac d nwk appk = Some f -> length f <= 259 ->
    validate_mic mac f nwk (df_fcnt d) = true.
  Proof.
    intros Hs Hlen.
    destruct (spec_data_shape d nwk appk f Hs) as (Hfo & pp_enc & Hf & _).
    set (mic4 := firstn 4 (mac nwk (block_B0 (dir_of (df_type d)) (df_addr d) (df_fcnt d)
                                     (lenN (head_of d [] ++ pp_enc)) ++ head_of d [] ++ pp_enc))) in *.
    assert (Hm4 : length mic4 = 4) by (subst mic4; apply (mic4_length mac mac_len)).
    assert (Hbody : firstn (length f - 4) f = head_of d [] ++ pp_enc).
    { rewrite Hf, !app_length, Hm4.
      replace (length (head_of d []) + (length pp_enc + 4) - 4) with (length (head_of d [] ++ pp_enc))
        by (rewrite app_length; lia).
      rewrite app_assoc. apply firstn_app_exact. }
    assert (Hmic : mic_of f = mic4).
    { unfold mic_of. rewrite Hf at 2. rewrite Hf, !app_length, Hm4.
      replace (length (head_of d []) + (length pp_enc + 4) - 4) with (length (head_of d [] ++ pp_enc))
        by (rewrite app_length; lia).
      rewrite app_assoc. apply skipn_app_exact. }
    unfold validate_mic. rewrite Hmic, Hbody. apply list_eqb_eq.
    assert (Hshape : head_of d [] ++ pp_enc = mhdr_of (df_type d) :: le_bytes 4 (df_addr d) ++
                     (([fctrl_of d] ++ le_bytes 2 (df_fcnt d mod 65536) ++ df_f_opts d ++ []) ++ pp_enc)).
    { rewrite head_shape. cbn [app]. rewrite <- app_assoc. reflexivity. }
    rewrite Hshape at 1. rewrite data_mic_spec.
    - rewrite <- Hshape. reflexivity.
    - rewrite <- Hshape. rewrite Hf, !app_length, Hm4 in Hlen. rewrite app_length. lia.
  Qed.

  (* ... so checked decoding of a built frame returns the description it was built from *)
  Theorem check_roundtrip d nwk appk f :
    spec_data enc mac d nwk appk = Some f -> length f <= 259 -> port_ok d ->
    check_mic_and_decrypt_in_place enc mac f nwk appk (df_fcnt d)
    = (Ok (built_layout d (pp_plain d)), head_of d [] ++ pp_plain d ++ mic_of f).
  Proof.
    intros Hs Hlen Hport. unfold check_mic_and_decrypt_in_place.
    destruct (spec_data_shape d nwk appk f Hs) as (Hfo & pp_enc & Hf & _).
    assert (Hv : validate f = Ok (built_layout d pp_enc)).
    { rewrite Hf. apply validate_built; [exact Hfo | apply (mic4_length mac mac_len)]. }
    rewrite Hv, (built_mic_valid d nwk appk f Hs Hlen).
    apply decrypt_roundtrip; auto.
  Qed.

  (* what the accessors read from the decoded buffer *)
  Theorem views_of_plain d mic4 : length (df_f_opts d) <= 15 -> (df_addr d < 2 ^ 32)%N ->
    let p := head_of d [] ++ pp_plain d ++ mic4 in
    let l := built_layout d (pp_plain d) in
    l_type l = df_type d /\
    v_dev_addr p = df_addr d /\
    v_fctrl p = spec_fctrl d /\
    v_fcnt p = (df_fcnt d mod 65536)%N /\
    v_f_opts p l = df_f_opts d /\
    v_f_port p l = match df_payload d with PNone => None | PData port _ => Some port | PMac _ => Some 0%N end /\
    v_frm p l = match df_payload d with PNone => [] | PData _ x => x | PMac x => x end.
  Proof.
    intros Hfo Haddr p l. subst p l.
    assert (Ht : l_type (built_layout d (pp_plain d)) = df_type d) by (unfold built_layout; destruct (pp_plain d); reflexivity).
    assert (Hfl : l_fhdr_len (built_layout d (pp_plain d)) = 7 + length (df_f_opts d))
      by (unfold built_layout; destruct (pp_plain d); reflexivity).
    split; [exact Ht|]. split.
    { unfold v_dev_addr. replace (slice (head_of d [] ++ pp_plain d ++ mic4) 1 5) with (le_bytes 4 (df_addr d)) by reflexivity.
      apply le_value_le_bytes. exact Haddr. }
    split. { unfold v_fctrl. rewrite head_nth5. apply fctrl_spec. exact Hfo. }
    split. { unfold v_fcnt. apply head_wire_fcnt. }
    split.
    { unfold v_f_opts. rewrite Hfl.
      assert (Hh : head_of d [] = (mhdr_of (df_type d) :: le_bytes 4 (df_addr d) ++ [fctrl_of d] ++ le_bytes 2 (df_fcnt d mod 65536)) ++ df_f_opts d)
        by (unfold head_of; rewrite app_nil_r; cbn [app]; repeat rewrite <- app_assoc; reflexivity).
      rewrite Hh. rewrite <- app_assoc.
      replace 8 with (length (mhdr_of (df_type d) :: le_bytes 4 (df_addr d) ++ [fctrl_of d] ++ le_bytes 2 (df_fcnt d mod 65536)))
        by (cbn [length]; rewrite !app_length, !le_bytes_length; reflexivity).
      replace (1 + (7 + length (df_f_opts d)))
        with (length (mhdr_of (df_type d) :: le_bytes 4 (df_addr d) ++ [fctrl_of d] ++ le_bytes 2 (df_fcnt d mod 65536)) + length (df_f_opts d))
        by (cbn [length]; rewrite !app_length, !le_bytes_length; cbn [length]; lia).
      apply slice_app_mid. }
    unfold pp_plain, built_layout, v_f_port, v_frm.
    destruct (df_payload d) as [|port data|cmds]; cbn [l_f_port_offset l_frm_start l_frm_end length].
    - split; [reflexivity|]. unfold slice. rewrite Nat.sub_diag. reflexivity.
    - split.
      + change ((port :: data) ++ mic4) with (port :: (data ++ mic4)). rewrite nth_after_head. reflexivity.
      + replace (head_of d [] ++ (port :: data) ++ mic4) with (head_of d [port] ++ data ++ mic4)
          by (rewrite head_snoc; repeat rewrite <- app_assoc; reflexivity).
        replace (9 + length (df_f_opts d)) with (length (head_of d [port])) by (rewrite head_length; cbn; lia).
        replace (8 + length (df_f_opts d) + S (length data)) with (length (head_of d [port]) + length data)
          by (rewrite head_length; cbn; lia).
        apply slice_app_mid.
    - split.
      + change ((0%N :: cmds) ++ mic4) with (0%N :: (cmds ++ mic4)). rewrite nth_after_head. reflexivity.
      + replace (head_of d [] ++ (0%N :: cmds) ++ mic4) with (head_of d [0%N] ++ cmds ++ mic4)
          by (rewrite head_snoc; repeat rewrite <- app_assoc; reflexivity).
        replace (9 + length (df_f_opts d)) with (length (head_of d [0%N])) by (rewrite head_length; cbn; lia).
        replace (8 + length (df_f_opts d) + S (length cmds)) with (length (head_of d [0%N]) + length cmds)
          by (rewrite head_length; cbn; lia).
        apply slice_app_mid.
  Qed.

  (* FCtrl accessors give back the flags (direction-inapplicable bits are not representable) *)
  Theorem fctrl_accessors d : length (df_f_opts d) <= 15 ->
    let b := spec_fctrl d in let up := is_uplink (df_type d) in
    fc_adr b = df_adr d /\ fc_ack b = df_ack d /\
    fc_adr_ack_req b up = (df_adr_ack_req d && up)%bool /\
    fc_f_pending b up = (df_f_pending d && negb up)%bool /\
    fc_f_opts_len b = lenN (df_f_opts d).
  Proof.
    intros H b up. subst b up. unfold spec_fctrl, fc_adr, fc_ack, fc_adr_ack_req, fc_f_pending, fc_f_opts_len, lenN.
    set (n := N.of_nat (length (df_f_opts d))).
    assert (Hc : (n = 0 \/ n = 1 \/ n = 2 \/ n = 3 \/ n = 4 \/ n = 5 \/ n = 6 \/ n = 7 \/ n = 8 \/ n = 9 \/
                 n = 10 \/ n = 11 \/ n = 12 \/ n = 13 \/ n = 14 \/ n = 15)%N) by (subst n; lia).
    clearbody n.
    destruct (df_adr d), (df_adr_ack_req d), (df_ack d), (df_f_pending d), (is_uplink (df_type d));
      repeat (destruct Hc as [-> | Hc]); try subst n; repeat split; reflexivity.
  Qed.
End ParseProofs.
