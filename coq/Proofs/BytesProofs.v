(* Proofs/BytesProofs.v -- list / byte lemmas used by the codec proofs. *)
From Coq Require Import NArith List Bool Lia Arith ZArith ZifyBool ZifyNat ZifyN.
From LoraV Require Import Base.Bytes Crypto.AES.
Import ListNotations.
Ltac Zify.zify_post_hook ::= Z.to_euclidean_division_equations.
Local Open Scope nat_scope.

Lemma le_bytes_length n v : length (le_bytes n v) = n.
Proof. revert v; induction n as [|n IH]; intros v; cbn; [reflexivity | now rewrite IH]. Qed.

Lemma le_value_le_bytes n v : (v < 256 ^ N.of_nat n)%N -> le_value (le_bytes n v) = v.
Proof.
  revert v; induction n as [|n IH]; intros v Hv.
  - cbn in *. lia.
  - cbn [le_bytes le_value]. rewrite IH.
    + pose proof (N.div_mod v 256%N ltac:(lia)). lia.
    + rewrite Nat2N.inj_succ, N.pow_succ_r' in Hv.
      apply N.div_lt_upper_bound; lia.
Qed.

Lemma le_bytes4_land (f : N) :
  [N.land f 0xff; N.land (N.shiftr f 8) 0xff; N.land (N.shiftr f 16) 0xff; N.land (N.shiftr f 24) 0xff]
  = le_bytes 4 f.
Proof.
  change 0xff%N with (N.ones 8). rewrite !N.land_ones, !N.shiftr_div_pow2.
  cbn [le_bytes]. change (2 ^ 8)%N with 256%N.
  rewrite !N.div_div by lia. reflexivity.
Qed.

Lemma land15_mod b : N.land b 0x0f = (b mod 16)%N.
Proof. change 0x0f%N with (N.ones 4). now rewrite N.land_ones. Qed.

Lemma xor_list_length a b : length (xor_list a b) = Nat.min (length a) (length b).
Proof. revert b; induction a as [|x a IH]; intros [|y b]; cbn; auto. Qed.

Lemma xor_list_nil_r a : xor_list a [] = [].
Proof. destruct a; reflexivity. Qed.

Lemma xor_list_app a1 a2 b1 b2 : length a1 = length b1 ->
  xor_list (a1 ++ a2) (b1 ++ b2) = xor_list a1 b1 ++ xor_list a2 b2.
Proof.
  revert b1; induction a1 as [|x a1 IH]; intros [|y b1] H; cbn in *; try discriminate; auto.
  now rewrite IH by lia.
Qed.

Lemma xor_list_prefix : forall (p b t : list N), length p <= length b -> xor_list p (b ++ t) = xor_list p b.
Proof. induction p as [|x p IH]; intros [|y b] t H; cbn in *; try lia; auto. f_equal. apply IH. lia. Qed.

Lemma xor_list_split16 p blk ks : length blk = 16 ->
  xor_list p (blk ++ ks) = xor_list (firstn 16 p) blk ++ xor_list (skipn 16 p) ks.
Proof.
  intros Hb. destruct (Nat.le_gt_cases 16 (length p)) as [Hl|Hl].
  - rewrite <- (firstn_skipn 16 p) at 1. apply xor_list_app. rewrite firstn_length. lia.
  - rewrite (firstn_all2 (n:=16)) by lia. rewrite (skipn_all2 (n:=16)) by lia. cbn. rewrite app_nil_r.
    apply xor_list_prefix. lia.
Qed.

Lemma xor_list_involutive : forall (p k : list N), length p <= length k -> xor_list (xor_list p k) k = p.
Proof.
  induction p as [|x p IH]; intros [|y k] H; cbn in *; try lia; auto.
  rewrite IH by lia. f_equal. rewrite N.lxor_assoc, N.lxor_nilpotent, N.lxor_0_r. reflexivity.
Qed.

Lemma list_eqb_eq a b : list_eqb a b = true <-> a = b.
Proof.
  revert b; induction a as [|x a IH]; intros [|y b]; cbn; split; intro H; try discriminate; auto.
  - apply andb_true_iff in H. destruct H as [H1 H2]. apply N.eqb_eq in H1. apply IH in H2. congruence.
  - injection H as -> ->. rewrite N.eqb_refl. cbn. now apply IH.
Qed.

Lemma slice_app_mid (h m t : list N) : slice (h ++ m ++ t) (length h) (length h + length m) = m.
Proof.
  unfold slice. rewrite skipn_app, skipn_all, Nat.sub_diag. cbn.
  replace (length h + length m - length h) with (length m) by lia.
  rewrite firstn_app, firstn_all, Nat.sub_diag. cbn. now rewrite app_nil_r.
Qed.

Lemma firstn_app_exact (h t : list N) : firstn (length h) (h ++ t) = h.
Proof. rewrite firstn_app, firstn_all, Nat.sub_diag. cbn. now rewrite app_nil_r. Qed.

Lemma skipn_app_exact (h t : list N) : skipn (length h) (h ++ t) = t.
Proof. rewrite skipn_app, skipn_all, Nat.sub_diag. reflexivity. Qed.

Lemma slice_app_tail (h m : list N) : slice (h ++ m) (length h) (length h + length m) = m.
Proof.
  unfold slice. rewrite skipn_app_exact.
  replace (length h + length m - length h) with (length m) by lia. apply firstn_all.
Qed.

Lemma lenN_small_mod l : length l <= 255 -> (lenN l mod 256 = lenN l)%N.
Proof. intros H. unfold lenN. apply N.mod_small. lia. Qed.

Lemma flat_map_le3_length (l : list N) : length (flat_map (le_bytes 3) l) = 3 * length l.
Proof. induction l as [|x l IH]; cbn [flat_map length]; [reflexivity|]. rewrite app_length, le_bytes_length, IH. lia. Qed.
