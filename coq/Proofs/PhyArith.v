(* Proofs/PhyArith.v -- C17: programmed frequency, TX power and RX timeout decode to what was requested. *)
From Coq Require Import ZArith NArith List Bool Lia Arith ZifyBool ZifyNat ZifyN.
From LoraV Require Import Base.Bytes Gen.PhyTables Model.PhyCore Model.Sx126x Model.Sx127x Model.Toa Spec.PhySpec.
Import ListNotations.
Ltac Zify.zify_post_hook ::= Z.to_euclidean_division_equations.

(* ---------------------------------------------------------------- frequency *)
(* SX126x: rounded to the nearest synthesiser step: |steps * 32e6/2^25 - f| <= 7812/16384 Hz < 0.48 Hz; no overflow below 4.09 GHz *)
Theorem pll126_nearest f : (f <= 4094967295)%N ->
  exists s, pll_step_126 f = Some s /\ (s < 2 ^ 32)%N /\
    (- 7812 <= Z.of_N s * 15625 - Z.of_N f * 16384 <= 7812)%Z.
Proof.
  intros Hf. unfold pll_step_126.
  change s6c_sx126x_pll_step_scaled with 15625%N. change (2 ^ s6c_sx126x_pll_step_shift_amount)%N with 16384%N.
  set (fi := (f / 15625)%N). set (fr := (f - fi * 15625)%N).
  assert (Hfr : (fr < 15625)%N) by (subst fr fi; lia).
  assert (Hfi : (fi * 16384 < 4294967296)%N) by (subst fi; lia).
  rewrite (N.mod_small (fi * 16384)) by exact Hfi. rewrite (N.mod_small (fr * 16384)) by lia.
  set (q := ((fr * 16384 + 15625 / 2) / 15625)%N).
  assert (Hq : (q <= 16384)%N) by (subst q; lia).
  destruct (4294967295 <? fi * 16384 + q)%N eqn:E.
  - exfalso. subst fi q fr. lia.
  - eexists. split; [reflexivity|]. split; [change (2 ^ 32)%N with 4294967296%N; lia|].
    subst q fr fi. lia.
Qed.

(* the four bytes of SetRfFrequency recompose the synthesiser word *)
Lemma be4_recompose s : (s < 2 ^ 32)%N ->
  ((s / 16777216) mod 256 * 16777216 + (s / 65536) mod 256 * 65536 + (s / 256) mod 256 * 256 + s mod 256 = s)%N.
Proof. intros H. change (2 ^ 32)%N with 4294967296%N in H. lia. Qed.

(* SX127x: rounded to the nearest synthesiser step: |f - Frf * 32e6/2^19| <= 30.52 Hz, three bytes suffice over the chip range (up to 1020 MHz) *)
Theorem pll127_nearest f : (f <= 1020000000)%N ->
  let s := pll_step_127 f in
  (s < 2 ^ 24)%N /\ (- 16000000 < Z.of_N f * 524288 - Z.of_N s * 32000000 <= 16000000)%Z.
Proof.
  intros Hf s. subst s. unfold pll_step_127. rewrite N.mod_small by lia.
  change (2 ^ 24)%N with 16777216%N. split; lia.
Qed.

(* ---------------------------------------------------------------- symbol-count timeouts *)
Definition timeout126_ok (n : N) : bool :=
  let '(val, mant, exp) := symb_timeout_126 n in
  let t := sx126x_timeout_symbols (Z.of_N mant) (Z.of_N exp) in
  (Z.of_N (N.min n 248) <=? t)%Z && (t =? Z.of_N val)%Z && (mant <=? 31)%N && (exp <=? 7)%N && (exp + mant * 8 <? 256)%N
  && (t <=? Z.of_N (N.min n 248) + 7)%Z.

Lemma timeout126_sweep : forallb timeout126_ok (map N.of_nat (seq 0 250)) = true.
Proof. vm_compute. reflexivity. Qed.

(* SX126x: the programmed timeout is never shorter than requested (up to the chip maximum of 248 symbols), at most 7 symbols longer,
   and the byte sent with SetLoRaSymbNumTimeout equals mant * 2^(2 exp + 1) *)
Theorem timeout126_covers n :
  let '(val, mant, exp) := symb_timeout_126 n in
  let t := sx126x_timeout_symbols (Z.of_N mant) (Z.of_N exp) in
  (Z.of_N (N.min n 248) <= t <= Z.of_N (N.min n 248) + 7)%Z /\ t = Z.of_N val /\ (mant <= 31)%N /\ (exp + mant * 8 < 256)%N.
Proof.
  assert (Hred : symb_timeout_126 n = symb_timeout_126 (N.min n 249)).
  { unfold symb_timeout_126. change s6c_sx126x_max_lora_symb_num_timeout with 248%N.
    replace (N.min (N.min n 249) 248) with (N.min n 248) by lia. reflexivity. }
  rewrite Hred. replace (N.min n 248) with (N.min (N.min n 249) 248) by lia.
  set (m := N.min n 249). assert (Hm : (m <= 249)%N) by (subst m; lia). clearbody m.
  pose proof timeout126_sweep as S. rewrite forallb_forall in S. specialize (S m).
  assert (Hin : In m (map N.of_nat (seq 0 250))) by (apply in_map_iff; exists (N.to_nat m); split; [lia|apply in_seq; lia]).
  specialize (S Hin). unfold timeout126_ok in S.
  destruct (symb_timeout_126 m) as [[val mant] exp]. cbv zeta in *.
  repeat (apply andb_true_iff in S; destruct S as [S ?]). repeat split; lia.
Qed.

(* SX127x: the 10-bit register holds exactly min(n, 1023) *)
Theorem timeout127_exact n :
  let v := N.min n 1023 in ((v / 256) mod 4 * 256 + v mod 256 = v)%N /\ ((v / 256) mod 4 < 4)%N /\ (v mod 256 < 256)%N.
Proof. cbv zeta. lia. Qed.

(* ---------------------------------------------------------------- LoRaWAN adapter: milliseconds -> symbols *)
(* 14 + floor(ms * 1000 / t_sym) symbols last at least 12.25 symbols (preamble) + ms *)
Theorem adapter_window_covers ts ms : (0 < ts)%Z -> (0 <= ms)%Z ->
  (4 * (14 + (ms * 1000) / ts) * ts >= 49 * ts + 4000 * ms)%Z.
Proof. intros Ht Hm. nia. Qed.

(* ---------------------------------------------------------------- output power *)
Definition pa_ok (low_power : bool) (anchor : Z -> Z -> option (Z * Z)) (t : Z * list (Z * N * N * Z)) (lo hi p : Z) : bool :=
  match pa_lookup t p with
  | None => false
  | Some (duty, hp, txp) =>
    let signed := if (127 <? Z.of_N txp)%Z then (Z.of_N txp - 256)%Z else Z.of_N txp in
    txparam_legal low_power signed &&
    match out_dbm (anchor (Z.of_N duty) (Z.of_N hp)) signed with
    | Some o => (o =? Z.max lo (Z.min hi p))%Z
    | None => false end
  end.

Definition zrange (lo : Z) (n : nat) : list Z := map (fun k => (lo + Z.of_nat k)%Z) (seq 0 n).

Lemma pa_sweep :
  forallb (pa_ok true (sx126x_anchor true) sx1261_pa_table (-17) 15) (zrange (-40) 80) = true /\
  forallb (pa_ok false (sx126x_anchor false) sx1262_pa_table (-9) 22) (zrange (-40) 80) = true /\
  forallb (pa_ok false stm32wl_hp_anchor stm32wl_hp_pa_table (-9) 22) (zrange (-40) 80) = true.
Proof. vm_compute. repeat split. Qed.

(* requests outside the swept window behave like its ends (clamping) *)
Lemma pa_lookup_clamp t p lo hi : fst t = lo -> (match rev (snd t) with (mx, _, _, _) :: _ => mx = hi | [] => True end) ->
  pa_lookup t p = pa_lookup t (Z.max lo (Z.min hi p)).
Proof.
  intros Hlo Hhi. destruct t as [mn rows]. cbn [fst snd] in *. subst mn. unfold pa_lookup.
  destruct (rev rows) as [|[[[mx d] h] a] r] eqn:E; [reflexivity|]. subst hi.
  replace (Z.max lo (Z.min (Z.max lo (Z.min mx p)) mx)) with (Z.max lo (Z.min p mx)) by lia. reflexivity.
Qed.

Theorem sx126x_power_decodes (v : nat) p :
  let '(lp, anchor, t, lo, hi) := match v with
    | 0%nat => (true, sx126x_anchor true, sx1261_pa_table, -17, 15)
    | 1%nat => (false, sx126x_anchor false, sx1262_pa_table, -9, 22)
    | _ => (false, stm32wl_hp_anchor, stm32wl_hp_pa_table, -9, 22) end%Z in
  pa_ok lp anchor t lo hi p = true.
Proof.
  destruct pa_sweep as [S1 [S2 S3]].
  assert (G : forall lp anchor t lo hi, (-40 <= lo <= hi)%Z -> (hi < 40)%Z -> fst t = lo ->
             (match rev (snd t) with (mx, _, _, _) :: _ => mx = hi | [] => True end) ->
             forallb (pa_ok lp anchor t lo hi) (zrange (-40) 80) = true -> pa_ok lp anchor t lo hi p = true).
  { intros lp anchor t lo hi H1 H2 Hlo Hhi S. rewrite forallb_forall in S.
    set (q := Z.max lo (Z.min hi p)).
    assert (Hqb : (-40 <= q < 40)%Z) by (subst q; lia).
    assert (Hqq : Z.max lo (Z.min hi q) = q) by (subst q; lia).
    assert (Hq : pa_ok lp anchor t lo hi q = true).
    { apply S. unfold zrange. apply in_map_iff. exists (Z.to_nat (q + 40)). split; [lia|apply in_seq; lia]. }
    unfold pa_ok in *. rewrite (pa_lookup_clamp t p lo hi Hlo Hhi). fold q.
    destruct (pa_lookup t q) as [[[d h] x]|]; [|exact Hq].
    rewrite Hqq in Hq. exact Hq. }
  destruct v as [|[|v]]; (apply G; [lia|lia|reflexivity|reflexivity|assumption]).
Qed.

(* SX1276 / SX1272: what RegPaConfig / RegPaDac (Model.Sx127x.regs_1276 / regs_1272, the values the driver model writes) mean *)
Lemma clampz_idem lo hi p : clampz lo hi (clampz lo hi p) = clampz lo hi p.
Proof. unfold clampz. lia. Qed.

Definition ok_1276 (boost : bool) (q : Z) : bool :=
  let '(paconfig, padac, _) := regs_1276 q boost in
  let want := if boost then clampz 2 20 q else clampz (-4) 14 q in
  (0 <=? paconfig)%Z && (paconfig <? 256)%Z && (10 * want - 2 <=? sx1276_out_tenths paconfig padac)%Z && (sx1276_out_tenths paconfig padac <=? 10 * want)%Z.
Lemma sweep_1276 : forallb (ok_1276 true) (zrange (-10) 40) && forallb (ok_1276 false) (zrange (-10) 40) = true.
Proof. vm_compute. reflexivity. Qed.

(* SX1276: the output the registers select is the request clamped into the PA's range, never above it (RFO at and below 0 dBm: 0.2 dB under) *)
Theorem sx1276_power_decodes p boost :
  let '(paconfig, padac, _) := regs_1276 p boost in
  let want := if boost then clampz 2 20 p else clampz (-4) 14 p in
  (0 <= paconfig < 256)%Z /\ (10 * want - 2 <= sx1276_out_tenths paconfig padac <= 10 * want)%Z.
Proof.
  pose proof sweep_1276 as S. apply andb_true_iff in S. destruct S as [S1 S2]. rewrite forallb_forall in S1, S2.
  set (q := if boost then clampz 2 20 p else clampz (-4) 14 p).
  assert (Hq : (-10 <= q < 30)%Z) by (subst q; unfold clampz; destruct boost; lia).
  assert (Hin : In q (zrange (-10) 40)) by (unfold zrange; apply in_map_iff; exists (Z.to_nat (q + 10)); split; [lia|apply in_seq; lia]).
  assert (Hr : regs_1276 p boost = regs_1276 q boost).
  { subst q. unfold regs_1276. destruct boost; rewrite clampz_idem; reflexivity. }
  assert (Hw : (if boost then clampz 2 20 q else clampz (-4) 14 q) = q).
  { subst q. destruct boost; rewrite clampz_idem; reflexivity. }
  rewrite Hr. pose proof (if boost as b return (ok_1276 b q = true) then S1 q Hin else S2 q Hin) as K.
  unfold ok_1276 in K. rewrite Hw in K. destruct (regs_1276 q boost) as [[pc pd] oc]. cbv zeta in *. lia.
Qed.

Definition ok_1272 (boost : bool) (q : Z) : bool :=
  let '(paconfig, padac) := regs_1272 q boost in
  let want := if boost then clampz 2 20 q else clampz (-1) 14 q in
  (0 <=? paconfig)%Z && (paconfig <? 256)%Z && (sx1272_out_dbm paconfig padac =? want)%Z.
Lemma sweep_1272 : forallb (ok_1272 true) (zrange (-10) 40) && forallb (ok_1272 false) (zrange (-10) 40) = true.
Proof. vm_compute. reflexivity. Qed.

(* SX1272: exactly the request clamped into the PA's range *)
Theorem sx1272_power_decodes p boost :
  let '(paconfig, padac) := regs_1272 p boost in
  let want := if boost then clampz 2 20 p else clampz (-1) 14 p in
  (0 <= paconfig < 256)%Z /\ sx1272_out_dbm paconfig padac = want.
Proof.
  pose proof sweep_1272 as S. apply andb_true_iff in S. destruct S as [S1 S2]. rewrite forallb_forall in S1, S2.
  set (q := Z.max (-10) (Z.min 29 p)).
  assert (Hin : In q (zrange (-10) 40)) by (unfold zrange; apply in_map_iff; exists (Z.to_nat (q + 10)); split; [lia|apply in_seq; lia]).
  assert (Hr : regs_1272 p boost = regs_1272 q boost).
  { subst q. unfold regs_1272, clampz. destruct boost; [|f_equal; lia].
    destruct (17 <? p)%Z eqn:E1; destruct (17 <? Z.max (-10) (Z.min 29 p))%Z eqn:E2; try lia; f_equal; lia. }
  assert (Hw : (if boost then clampz 2 20 p else clampz (-1) 14 p) = (if boost then clampz 2 20 q else clampz (-1) 14 q)).
  { subst q. unfold clampz. destruct boost; lia. }
  rewrite Hr, Hw. pose proof (if boost as b return (ok_1272 b q = true) then S1 q Hin else S2 q Hin) as K.
  unfold ok_1272 in K. destruct (regs_1272 q boost) as [pc pd]. cbv zeta in *. lia.
Qed.

(* ---------------------------------------------------------------- RSSI / SNR *)
Definition status126_ok (raw_rssi raw_snr : N) : bool :=
  let rssi := Z.shiftr (- Z.of_N raw_rssi) 1 in
  let snr := Z.shiftr (as_i8 raw_snr + 2) 2 in
  (2 * rssi <=? - Z.of_N raw_rssi)%Z && (- Z.of_N raw_rssi <? 2 * rssi + 2)%Z
  && (Z.abs (4 * snr - as_i8 raw_snr) <=? 2)%Z && (-32768 <=? rssi)%Z && (-128 <=? snr)%Z && (snr <=? 127)%Z.
Lemma status126_sweep : forallb (fun r => status126_ok r r) (map N.of_nat (seq 0 256)) = true.
Proof. vm_compute. reflexivity. Qed.

(* SX126x: RSSI within half a dB (floor of -raw/2), SNR rounded to the nearest dB, for every raw byte; nothing overflows *)
Theorem status126_within r s : (r < 256)%N -> (s < 256)%N ->
  let rssi := rssi_126 r in let snr := snr_126 s in
  (2 * rssi <= - Z.of_N r < 2 * rssi + 2)%Z /\ (Z.abs (4 * snr - as_i8 s) <= 2)%Z.
Proof.
  unfold rssi_126, snr_126.
  intros Hr Hs. pose proof status126_sweep as S. rewrite forallb_forall in S.
  assert (In r (map N.of_nat (seq 0 256))) by (apply in_map_iff; exists (N.to_nat r); split; [lia|apply in_seq; lia]).
  assert (In s (map N.of_nat (seq 0 256))) by (apply in_map_iff; exists (N.to_nat s); split; [lia|apply in_seq; lia]).
  pose proof (S r H) as A. pose proof (S s H0) as B. unfold status126_ok in *. cbv zeta in *. lia.
Qed.

(* SX127x: SNR = raw/4 truncated (within 0.75 dB); packet RSSI = offset + round(16/15 raw) (+ SNR when negative): within 0.5 dB of
   offset + 16/15 raw + [snr < 0] snr *)
Theorem status127_within r s off : (r < 256)%N -> (s < 256)%N ->
  let snr := snr_127 s in
  let rssi := rssi_127 off r s in
  (Z.abs (4 * snr - as_i8 s) <= 3)%Z /\
  (Z.abs (15 * (rssi - off - (if (0 <=? snr)%Z then 0 else snr)) - 16 * Z.of_N r) <= 7)%Z.
Proof.
  intros Hr Hs. cbv zeta. unfold rssi_127, snr_127, linearize_rssi, as_i8. cbv zeta. split.
  - destruct (127 <? s)%N; lia.
  - destruct (0 <=? Z.quot (if (127 <? s)%N then Z.of_N s - 256 else Z.of_N s) 4)%Z; lia.
Qed.
