(* C15, register level: the low-data-rate-optimisation bit of the SX127x chips shares its register with other fields; the
   read-modify-write functions of the drivers (Model/Sx127x.v: mod_c1_1272, pkt_c1_1272, mod_c3_1276 -- the very terms the
   modelled set_modulation_params / set_packet_params write) put exactly the decision into the bit and never disturb it
   afterwards.  Bytes are a finite domain: the statements are checked for all 256 register contents and lifted. *)
From Coq Require Import NArith List Bool Lia.
From LoraV Require Import Base.Bytes Model.PhyCore Model.Sx126x Model.Sx127x.
Import ListNotations.
Open Scope N_scope.

Definition bytes256 : list N := map N.of_nat (seq 0 256).
Lemma in_bytes256 c : c < 256 -> In c bytes256.
Proof. intros H. unfold bytes256. apply in_map_iff. exists (N.to_nat c). split; [lia|]. apply in_seq. lia. Qed.

(* SX1272 set_modulation_params: RegModemConfig1 bit 0 := the LDRO decision, whatever the register held *)
Definition chk_mod1272 : bool :=
  forallb (fun c1 => forallb (fun bwv => forallb (fun crv => forallb (fun l => N.land (mod_c1_1272 c1 bwv crv l) 1 =? l) [0; 1])
                                                     [0; 1; 2; 3; 4; 5; 6; 7]) [0; 1; 2; 3]) bytes256.
Lemma chk_mod1272_ok : chk_mod1272 = true. Proof. vm_compute. reflexivity. Qed.
Theorem sx1272_modulation_writes_ldro c1 bwv crv l : c1 < 256 -> bwv < 4 -> crv < 8 -> l < 2 ->
  N.land (mod_c1_1272 c1 bwv crv l) 1 = l.
Proof.
  intros Hc Hb Hr Hl. pose proof chk_mod1272_ok as H. unfold chk_mod1272 in H.
  rewrite forallb_forall in H. specialize (H c1 (in_bytes256 c1 Hc)).
  rewrite forallb_forall in H. assert (Ib : In bwv [0; 1; 2; 3]) by (cbn; lia). specialize (H bwv Ib).
  rewrite forallb_forall in H. assert (Ir : In crv [0; 1; 2; 3; 4; 5; 6; 7]) by (cbn; lia). specialize (H crv Ir).
  rewrite forallb_forall in H. assert (Il : In l [0; 1]) by (cbn; lia). specialize (H l Il).
  apply N.eqb_eq. exact H.
Qed.

(* SX1272 set_packet_params rewrites header mode (bit 2) and CRC (bit 1) of the same register: bit 0 survives, for every
   register content and every flag combination *)
Definition chk_pkt1272 : bool :=
  forallb (fun c1 => forallb (fun im => forallb (fun crc =>
     (N.land (pkt_c1_1272 c1 im crc) 1 =? N.land c1 1) && Bool.eqb (N.testbit (pkt_c1_1272 c1 im crc) 2) im
     && Bool.eqb (N.testbit (pkt_c1_1272 c1 im crc) 1) crc && (N.land (pkt_c1_1272 c1 im crc) 0xF8 =? N.land c1 0xF8))
     [false; true]) [false; true]) bytes256.
Lemma chk_pkt1272_ok : chk_pkt1272 = true. Proof. vm_compute. reflexivity. Qed.
Theorem sx1272_packet_params_keep_ldro c1 im crc : c1 < 256 ->
  N.land (pkt_c1_1272 c1 im crc) 1 = N.land c1 1 /\ N.testbit (pkt_c1_1272 c1 im crc) 2 = im /\
  N.testbit (pkt_c1_1272 c1 im crc) 1 = crc /\ N.land (pkt_c1_1272 c1 im crc) 0xF8 = N.land c1 0xF8.
Proof.
  intros Hc. pose proof chk_pkt1272_ok as H. unfold chk_pkt1272 in H.
  rewrite forallb_forall in H. specialize (H c1 (in_bytes256 c1 Hc)).
  rewrite forallb_forall in H. assert (Ii : In im [false; true]) by (destruct im; cbn; auto). specialize (H im Ii).
  rewrite forallb_forall in H. assert (Ic : In crc [false; true]) by (destruct crc; cbn; auto). specialize (H crc Ic).
  apply andb_prop in H. destruct H as [H H4]. apply andb_prop in H. destruct H as [H H3]. apply andb_prop in H. destruct H as [H1 H2].
  apply N.eqb_eq in H1, H4. apply eqb_prop in H2, H3. auto.
Qed.

(* the two together: modulation then packet parameters (the order of prepare_for_tx / prepare_for_rx) leave the decision in bit 0 *)
Definition chk_prep1272 : bool :=
  forallb (fun c1 => forallb (fun bwv => forallb (fun crv => forallb (fun l => forallb (fun im => forallb (fun crc =>
     N.land (pkt_c1_1272 (mod_c1_1272 c1 bwv crv l) im crc) 1 =? l) [false; true]) [false; true]) [0; 1])
     [0; 1; 2; 3; 4; 5; 6; 7]) [0; 1; 2; 3]) bytes256.
Lemma chk_prep1272_ok : chk_prep1272 = true. Proof. vm_compute. reflexivity. Qed.
Theorem sx1272_ldro_survives_prepare c1 bwv crv l im crc : c1 < 256 -> bwv < 4 -> crv < 8 -> l < 2 ->
  N.land (pkt_c1_1272 (mod_c1_1272 c1 bwv crv l) im crc) 1 = l.
Proof.
  intros Hc Hb Hr Hl. pose proof chk_prep1272_ok as H. unfold chk_prep1272 in H.
  rewrite forallb_forall in H. specialize (H c1 (in_bytes256 c1 Hc)).
  rewrite forallb_forall in H. assert (Ib : In bwv [0; 1; 2; 3]) by (cbn; lia). specialize (H bwv Ib).
  rewrite forallb_forall in H. assert (Ir : In crv [0; 1; 2; 3; 4; 5; 6; 7]) by (cbn; lia). specialize (H crv Ir).
  rewrite forallb_forall in H. assert (Il : In l [0; 1]) by (cbn; lia). specialize (H l Il).
  rewrite forallb_forall in H. assert (Ii : In im [false; true]) by (destruct im; cbn; auto). specialize (H im Ii).
  rewrite forallb_forall in H. assert (Ic : In crc [false; true]) by (destruct crc; cbn; auto). specialize (H crc Ic).
  apply N.eqb_eq. exact H.
Qed.

(* SX1276: RegModemConfig3 bit 3 := (decision <> 0), AGC bit cleared, the rest kept; set_packet_params does not touch this register
   (Model/Sx127x.v set_pkt_127 writes RegModemConfig1 / RegModemConfig2 only for this chip) *)
Definition chk_mod1276 : bool :=
  forallb (fun c3 => forallb (fun l => Bool.eqb (N.testbit (mod_c3_1276 c3 l) 3) (negb (l =? 0))
                                        && (N.land (mod_c3_1276 c3 l) 0xF3 =? N.land c3 0xF3)) [0; 1; 2; 255]) bytes256.
Lemma chk_mod1276_ok : chk_mod1276 = true. Proof. vm_compute. reflexivity. Qed.
Theorem sx1276_modulation_writes_ldro c3 l : c3 < 256 ->
  N.testbit (mod_c3_1276 c3 l) 3 = negb (l =? 0) /\ N.land (mod_c3_1276 c3 l) 0xF3 = N.land c3 0xF3.
Proof.
  intros Hc. unfold mod_c3_1276. destruct (l =? 0) eqn:E.
  - pose proof chk_mod1276_ok as H. unfold chk_mod1276 in H. rewrite forallb_forall in H. specialize (H c3 (in_bytes256 c3 Hc)).
    rewrite forallb_forall in H. specialize (H 0 (or_introl eq_refl)). apply andb_prop in H. destruct H as [H1 H2].
    apply eqb_prop in H1. apply N.eqb_eq in H2. unfold mod_c3_1276 in H1, H2. cbn [N.eqb] in H1, H2. auto.
  - pose proof chk_mod1276_ok as H. unfold chk_mod1276 in H. rewrite forallb_forall in H. specialize (H c3 (in_bytes256 c3 Hc)).
    rewrite forallb_forall in H. specialize (H 1 (or_intror (or_introl eq_refl))). apply andb_prop in H. destruct H as [H1 H2].
    apply eqb_prop in H1. apply N.eqb_eq in H2. unfold mod_c3_1276 in H1, H2. cbn [N.eqb Pos.eqb] in H1, H2. auto.
Qed.

(* ---- the named functions are what goes over the bus: the transactions of the SX1272 operations, in order, as a function of the
   bytes the chip answers to the reads (so with a chip whose registers read back what was written, bit 0 after modulation then
   packet parameters is the decision: sx1272_ldro_survives_prepare) *)
From LoraV Require Import Proofs.PhySeq Proofs.PhySeq127 Gen.PhyTables.
Theorem seq_set_mod_1272 sfv bwv crv l c1 c2 rest :
  spi_seq (set_mod_1272 sfv bwv crv l) ([c1] :: [c2] :: rest) =
  [ds7_read s7_Register_RegModemConfig1; ds7_write s7_Register_RegModemConfig1 (mod_c1_1272 c1 bwv crv l);
   ds7_read s7_Register_RegModemConfig2; ds7_write s7_Register_RegModemConfig2 (N.lor (N.land c2 15) (u8 (sfv * 16)))].
Proof. reflexivity. Qed.

Theorem seq_set_pkt_1272 g pre im len crc iq c1 rest : h_variant g = V1272 ->
  spi_seq (set_pkt_127 g pre im len crc iq) ([c1] :: rest) =
  [ds7_write s7_Register_RegPreambleMsb (hi8 pre); ds7_write s7_Register_RegPreambleLsb (lo8 pre);
   ds7_read s7_Register_RegModemConfig1; ds7_write s7_Register_RegModemConfig1 (pkt_c1_1272 c1 im crc)] ++
  (if im then [ds7_write s7_Register_RegPayloadLength len] else []) ++
  [ds7_write s7_Register_RegInvertiq (N.lor 0x26 (if iq then 64 else 1)); ds7_write s7_Register_RegInvertiq2 (if iq then 0x19 else 0x1d)].
Proof. intros H. unfold set_pkt_127. rewrite H. destruct im; reflexivity. Qed.

Theorem seq_set_mod_1276_config3 sfv bwv crd l bw freq c2 c1 c1' c3 rest :
  exists tail, spi_seq (set_mod_1276 false sfv bwv crd l bw freq) ([c2] :: [c1] :: [c1'] :: [c3] :: rest) =
  [ds7_read s7_Register_RegModemConfig2; ds7_write s7_Register_RegModemConfig2 (N.lor (N.land c2 0x0f) (N.land (u8 (sfv * 16)) 0xf0));
   ds7_read s7_Register_RegModemConfig1; ds7_write s7_Register_RegModemConfig1 (N.lor (N.land c1 0x0f) (u8 (bwv * 16)));
   ds7_read s7_Register_RegModemConfig1; ds7_write s7_Register_RegModemConfig1 (N.lor (N.land c1' 0xf1) (u8 ((crd - 4) * 2)));
   ds7_read s7_Register_RegModemConfig3; ds7_write s7_Register_RegModemConfig3 (mod_c3_1276 c3 l)] ++ tail.
Proof. eexists. reflexivity. Qed.
