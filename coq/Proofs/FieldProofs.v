(* Proofs/FieldProofs.v -- C19: creator setters vs payload accessors. Byte-wide fields by exhaustive sweep over
   (prior byte, argument), wider fields by little-endian round-trip lemmas, text forms by induction on bytes. *)
From Coq Require Import NArith ZArith List Bool Lia Arith ZifyBool ZifyNat ZifyN.
From LoraV Require Import Base.Bytes Model.MacCmd Model.MacFields Gen.CmdTables Proofs.BytesProofs Proofs.MacCmdProofs.
From LoraV Require Export Proofs.SeqBuildProofs.
Import ListNotations.
Ltac Zify.zify_post_hook ::= Z.to_euclidean_division_equations.
Local Open Scope N_scope.

Definition bytes256 : list N := map N.of_nat (seq 0 256).
Lemma in_bytes256 b : b < 256 -> In b bytes256.
Proof.
  intros H. unfold bytes256. apply in_map_iff. exists (N.to_nat b). split; [apply N2Nat.id|].
  apply in_seq. lia.
Qed.

(* a byte-wide bit field of creator c: setter field f writes bits (mask) of data[idx]; admissible values <= maxv;
   stored value = v mod 2^width when it is not refused *)
Record bfield := { bf_c : N; bf_f : N; bf_idx : nat; bf_mask : N; bf_shift : N; bf_max : N; bf_refuse : bool;
                   bf_bool : bool; bf_vmask : N }.

Definition with_byte (c : N) (idx : nat) (b : N) : option creator :=
  match cr_new c with Some cr => Some (with_data cr (upd (cr_data cr) idx (fun _ => b))) | None => None end.

Definition field_ok (x : bfield) (b v : N) : bool :=
  match with_byte (bf_c x) (bf_idx x) b with
  | None => false
  | Some cr =>
    match mc_set (bf_c x) (bf_f x) (Z.of_N v) 0 [] cr with
    | SOk cr' =>
      let nb := nthN (cr_data cr') (bf_idx x) in
      let want := if bf_bool x then (if v =? 0 then 0 else 1) else N.land v (bf_vmask x) in
      negb (bf_refuse x && (bf_max x <? v))                                          (* out of range must be refused *)
      && (N.shiftr (N.land nb (bf_mask x)) (bf_shift x) =? want)                      (* the field holds the value / its truncation *)
      && (N.land nb (N.lxor 255 (bf_mask x)) =? N.land b (N.lxor 255 (bf_mask x)))  (* neighbouring bits undisturbed *)
      && list_eqb (upd (cr_data cr') (bf_idx x) (fun _ => 0)) (upd (cr_data cr) (bf_idx x) (fun _ => 0))  (* other bytes too *)
      && (nb <? 256)
    | SErr => bf_refuse x && (bf_max x <? v)
    | SPanic => false
    end
  end.

Definition mkv c f i m s mx r bl vm := {| bf_c := c; bf_f := f; bf_idx := i; bf_mask := m; bf_shift := s; bf_max := mx;
                                           bf_refuse := r; bf_bool := bl; bf_vmask := vm |}.
Definition mk c f i m s mx r bl := mkv c f i m s mx r bl (N.shiftr m s).
Definition byte_fields : list bfield :=
  [ mk 1 0 1 255 0 255 false false; mk 1 1 2 255 0 255 false false;
    mk 2 0 1 0xf0 4 15 true false; mk 2 1 1 0x0f 0 15 true false; mk 2 3 4 255 0 255 false false;
    mk 3 0 1 0x0f 0 15 true false;
    mk 4 0 1 255 0 255 false false;
    mk 5 0 1 255 0 255 false false; mk 5 2 5 255 0 255 false false;
    mk 6 0 1 0x0f 0 15 true false;
    mk 7 0 1 0x20 5 1 false true; mk 7 1 1 0x10 4 1 false true; mk 7 2 1 0x0f 0 15 true false;
    mk 8 0 1 255 0 255 false false;
    mk 10 0 1 1 0 1 false true; mk 10 1 1 2 1 1 false true; mk 10 2 1 4 2 1 false true;
    mk 11 0 1 1 0 1 false true; mk 11 1 1 2 1 1 false true; mk 11 2 1 4 2 1 false true;
    mk 12 0 1 255 0 255 false false;
    mk 13 0 1 1 0 1 false true; mk 13 1 1 2 1 1 false true;
    mk 14 0 1 1 0 1 false true; mk 14 1 1 2 1 1 false true;
    mk 18 0 1 255 0 255 false false; mk 18 1 2 255 0 255 false false;
    mk 19 0 1 0x0f 0 15 false false;
    mkv 20 0 1 255 0 3 false false 3;   (* whole header byte written: id in bits 1..0, RFU bits zero *)
    mk 21 0 1 3 0 3 false false; mk 22 0 1 3 0 3 false false;
    mk 23 0 1 3 0 3 false false; mk 23 1 1 4 2 1 false true;
    mkv 24 0 1 0xf0 4 7 false false 7 ].  (* NbTotalGroups in bits 6..4, RFU bit 7 cleared *)

Definition all_byte_fields_ok : bool :=
  forallb (fun x => forallb (fun b => forallb (fun v => field_ok x b v) bytes256) bytes256) byte_fields.

Lemma byte_fields_sweep : all_byte_fields_ok = true.
Proof. vm_compute. reflexivity. Qed.

Theorem byte_field_law x b v : In x byte_fields -> b < 256 -> v < 256 -> field_ok x b v = true.
Proof.
  intros Hx Hb Hv. pose proof byte_fields_sweep as H. unfold all_byte_fields_ok in H.
  rewrite forallb_forall in H. specialize (H x Hx). rewrite forallb_forall in H.
  specialize (H b (in_bytes256 b Hb)). rewrite forallb_forall in H. exact (H v (in_bytes256 v Hv)).
Qed.

(* the getters read back exactly those bits: accessor = (byte & mask) >> shift, per generated accessor of mc_get
   -- checked for every byte value of the fields that have a payload accessor *)
Definition getter_ok : bool :=
  forallb (fun b =>
    (* LinkADRReq data_rate / tx_power / redundancy *)
    (match mc_get 0 0x03 [b; 0; 0; 0] with dr :: pw :: _ => (dr =? Z.of_N (N.shiftr b 4))%Z && (pw =? Z.of_N (N.land b 15))%Z | _ => false end)
    && (match mc_get 0 0x04 [b] with [x] => (x =? Z.of_N (N.land b 15))%Z | _ => false end)
    && (match mc_get 0 0x08 [b] with [x] => (x =? Z.of_N (N.land b 15))%Z | _ => false end)
    && (match mc_get 0 0x09 [b] with [dl; ul; _] => (dl =? Z.of_N (N.shiftr (N.land b 32) 5))%Z && (ul =? Z.of_N (N.shiftr (N.land b 16) 4))%Z | _ => false end)
    && (match mc_get 1 0x03 [b] with [a0; a1; a2; _] => (a0 =? Z.of_N (N.land b 1))%Z && (a1 =? Z.of_N (N.shiftr (N.land b 2) 1))%Z && (a2 =? Z.of_N (N.shiftr (N.land b 4) 2))%Z | _ => false end)
    && (match mc_get 1 0x07 [b] with [a0; a1; _] => (a0 =? Z.of_N (N.land b 1))%Z && (a1 =? Z.of_N (N.shiftr (N.land b 2) 1))%Z | _ => false end)
    && (match mc_get 4 0x02 (b :: repeat 0 28) with x :: _ => (x =? Z.of_N (N.land b 3))%Z | _ => false end)
    && (match mc_get 5 0x03 [b] with [x; u] => (x =? Z.of_N (N.land b 3))%Z && (u =? Z.of_N (N.shiftr (N.land b 4) 2))%Z | _ => false end)
    && (match mc_get 5 0x01 [b] with m :: t :: _ => (m =? Z.of_N (N.land b 15))%Z && (t =? Z.of_N (N.shiftr (N.land b 0x70) 4))%Z | _ => false end))
  bytes256.
Lemma getters_sweep : getter_ok = true.
Proof. vm_compute. reflexivity. Qed.

(* DevStatusAns margin: a signed 6-bit field; every admissible margin round-trips, others are refused *)
Definition margin_ok : bool :=
  forallb (fun k =>
    let v := (Z.of_nat k - 128)%Z in
    match with_byte 12 2 0 with
    | None => false
    | Some cr =>
      match mc_set 12 1 v 0 [] cr with
      | SOk cr' => (-32 <=? v)%Z && (v <=? 31)%Z
                   && (match mc_get 1 0x06 (skipn 1 (cr_data cr')) with [_; m] => (m =? v)%Z | _ => false end)
                   && (nthN (cr_data cr') 2 <? 64)
      | SErr => (v <? -32)%Z || (31 <? v)%Z
      | SPanic => false
      end
    end) (seq 0 256).
Lemma margin_sweep : margin_ok = true.
Proof. vm_compute. reflexivity. Qed.

(* ---- wider fields: little-endian writes read back by the little-endian accessors *)
Lemma upd_length l i f : length (upd l i f) = length l.
Proof. revert i; induction l as [|x l IH]; intros [|i]; cbn; auto. Qed.
Lemma write_at_length bs : forall l i, length (write_at l i bs) = length l.
Proof. induction bs as [|b bs IH]; intros l i; cbn [write_at]; [reflexivity|]. now rewrite IH, upd_length. Qed.

Lemma upd_app_mid (h : list N) x t f : upd (h ++ x :: t) (length h) f = h ++ f x :: t.
Proof. induction h as [|a h IH]; cbn; [reflexivity | now rewrite IH]. Qed.

Lemma write_at_mid bs : forall (h m t : list N), length m = length bs ->
  write_at (h ++ m ++ t) (length h) bs = h ++ bs ++ t.
Proof.
  induction bs as [|b bs IH]; intros h m t Hl.
  - destruct m; [reflexivity | discriminate].
  - destruct m as [|x m]; [discriminate|]. cbn [write_at app].
    rewrite upd_app_mid.
    replace (h ++ b :: m ++ t) with ((h ++ [b]) ++ m ++ t) by (rewrite <- app_assoc; reflexivity).
    replace (S (length h)) with (length (h ++ [b])) by (rewrite app_length; cbn; lia).
    rewrite IH by (cbn in Hl; lia). rewrite <- app_assoc. reflexivity.
Qed.

(* a k-byte little-endian field written at offset off of a creator and read back from the payload at off-1 *)
Theorem le_field_roundtrip (k : nat) (v : N) (h m t : list N) :
  length m = k -> v < 256 ^ N.of_nat k ->
  let d' := write_at (h ++ m ++ t) (length h) (le_bytes k v) in
  d' = h ++ le_bytes k v ++ t /\
  le_value (slice d' (length h) (length h + k)) = v.
Proof.
  intros Hm Hv d'. subst d'.
  rewrite write_at_mid by (rewrite le_bytes_length; exact Hm).
  split; [reflexivity|].
  replace (length h + k)%nat with (length h + length (le_bytes k v))%nat by (rewrite le_bytes_length; reflexivity).
  rewrite slice_app_mid. now apply le_value_le_bytes.
Qed.

(* DeviceTimeAns.nano_seconds: the stored 1/256 s fraction reads back as the value truncated to the field *)
Theorem nano_seconds_law n : n < 1000000000 ->
  let byte := (n / 3906250) mod 256 in
  byte * 3906250 = (n / 3906250) * 3906250 /\ byte * 3906250 <= n /\ n - byte * 3906250 < 3906250.
Proof. intros H byte. subst byte. lia. Qed.

(* ---- identifier text forms *)
Lemma digit_val_hex_digit d : d < 16 -> digit_val (hex_digit d) = Some d.
Proof.
  intros H. assert (Hc : d = 0 \/ d = 1 \/ d = 2 \/ d = 3 \/ d = 4 \/ d = 5 \/ d = 6 \/ d = 7 \/ d = 8 \/ d = 9 \/
                        d = 10 \/ d = 11 \/ d = 12 \/ d = 13 \/ d = 14 \/ d = 15) by lia.
  repeat (destruct Hc as [-> | Hc]); try subst d; reflexivity.
Qed.

Lemma parse_hex_bytes : forall (bs : list N) acc, Forall (fun b => b < 256) bs ->
  parse_hex acc (flat_map hex_of_byte bs) = Some (acc * 256 ^ N.of_nat (length bs) + be_value bs).
Proof.
  induction bs as [|b bs IH]; intros acc HF.
  - unfold be_value. cbn [flat_map parse_hex length rev le_value]. change (N.of_nat 0) with 0. rewrite N.pow_0_r. f_equal. lia.
  - inversion HF as [|? ? Hb HF']; subst. cbn [flat_map hex_of_byte app parse_hex].
    rewrite !digit_val_hex_digit by (try apply N.mod_lt; try apply N.div_lt_upper_bound; lia).
    rewrite IH by exact HF'.
    f_equal. unfold be_value. cbn [rev length]. 
    assert (Hle : forall l x, le_value (l ++ [x]) = le_value l + 256 ^ N.of_nat (length l) * x).
    { clear. induction l as [|y l IHl]; intros x; cbn [app le_value length].
      - change (N.of_nat 0) with 0. rewrite N.pow_0_r. lia.
      - rewrite IHl. rewrite Nat2N.inj_succ, N.pow_succ_r'. lia. }
    rewrite Hle, rev_length. rewrite Nat2N.inj_succ, N.pow_succ_r'.
    pose proof (N.div_mod b 16 ltac:(lia)). lia.
Qed.

Lemma le_bytes_bounded n : forall v, Forall (fun b => b < 256) (le_bytes n v).
Proof. induction n as [|n IH]; intros v; cbn [le_bytes]; constructor; [apply N.mod_lt; lia | apply IH]. Qed.

Lemma hex_len (bs : list N) : length (flat_map hex_of_byte bs) = (2 * length bs)%nat.
Proof. induction bs as [|b bs IH]; cbn [flat_map length app]; [reflexivity|]. cbn. rewrite IH. lia. Qed.

Lemma hex_digit_not_plus d : d < 16 -> hex_digit d <> 43.
Proof. intros H. unfold hex_digit. destruct (d <? 10) eqn:E; lia. Qed.

(* printing MSB-first and parsing back gives the same value, for every width and every value *)
Theorem hex_text_roundtrip n v : (0 < n)%nat -> v < 256 ^ N.of_nat n ->
  from_hex_msb n (to_hex_msb n v) = Some v /\ length (to_hex_msb n v) = (2 * n)%nat.
Proof.
  intros Hn Hv. unfold from_hex_msb, to_hex_msb, be_bytes.
  assert (Hl : length (flat_map hex_of_byte (rev (le_bytes n v))) = (2 * n)%nat)
    by (rewrite hex_len, rev_length, le_bytes_length; reflexivity).
  split; [|exact Hl]. rewrite Hl, Nat.eqb_refl.
  assert (Hp : parse_hex 0 (flat_map hex_of_byte (rev (le_bytes n v))) = Some v).
  { rewrite parse_hex_bytes.
    - unfold be_value. rewrite rev_involutive, le_value_le_bytes by exact Hv. f_equal.
    - apply Forall_rev. apply le_bytes_bounded. }
  destruct (rev (le_bytes n v)) as [|b r] eqn:E.
  - exfalso. apply (f_equal (@length N)) in E. rewrite rev_length, le_bytes_length in E. cbn in E. lia.
  - cbn [flat_map hex_of_byte app] in *.
    assert (Hb : b < 256).
    { assert (HF : Forall (fun b => b < 256) (rev (le_bytes n v))) by (apply Forall_rev, le_bytes_bounded).
      rewrite E in HF. now inversion HF. }
    destruct (hex_digit (b / 16) =? 43) eqn:E43; [|exact Hp].
    apply N.eqb_eq in E43. exfalso.
    apply (hex_digit_not_plus (b / 16)); [apply N.div_lt_upper_bound; lia | exact E43].
Qed.
