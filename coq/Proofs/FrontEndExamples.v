(* Proofs/FrontEndExamples.v -- non-vacuity: the premises of the front-end theorems (C07, C09, C10, C11) are met by concrete, non-trivial
   devices running the concrete AES-128 / CMAC of Crypto/: an ABP-joined EU868 device whose send succeeds, the whole schedule it then follows,
   a frame it rejects, a joining device and a frame that is not an authentic JoinAccept. *)
From Coq Require Import NArith ZArith List Bool Lia.
From LoraV Require Import Base.Bytes Crypto.AES Crypto.CMAC Model.Frame Spec.L2Frame Model.Region Model.Mac Model.AsyncDev Model.NbDev
  Proofs.SessionProofs Proofs.NoPanicProofs Proofs.FrontEndReject Proofs.AsyncWindows Proofs.NbWindows Proofs.AsyncJoin.
Import ListNotations.
Local Open Scope N_scope.

Definition ex_key1 := repeat 2 16. Definition ex_key2 := repeat 1 16.
Definition ex_mac : mac :=
  let m := mac_new 5 14 0 in
  {| m_cfg := m_cfg m; m_region := m_region m; m_max_power := m_max_power m; m_gain := m_gain m; m_state := Joined (session_new ex_key1 ex_key2 5) |}.
Definition ex_dev : adev := {| ad_mac := ex_mac; ad_classc := false; ad_lead := 15 |}.
Definition ex_env : env := {| e_script := []; e_calls := 0; e_fault := None; e_trace := [] |}.
Definition ex_draws : list N := [7; 1; 2; 3; 4; 5; 6; 8; 9; 10; 11; 12].

(* the device satisfies the MAC invariant, its send succeeds (premise of the C10 / C09 / C06 front-end theorems) *)
Example ex_mac_ok : mac_ok ex_mac.
Proof. exact (mac_new_ok 5 14 0 ltac:(lia)). Qed.
Example ex_send_succeeds : exists o, send aes_enc aes_mac ex_mac [1; 2; 3] 7 false ex_draws = Val (SendOk o) /\ length (to_frame o) = 16%nat.
Proof. vm_compute. eexists. split; reflexivity. Qed.
Example ex_quiet : quiet ex_env /\ ad_lead ex_dev <= 100.
Proof. split; [split; reflexivity|vm_compute; discriminate]. Qed.
(* ... and follows the proved schedule: 12 radio / timer calls, RX1 at 1000 + 100 - 15 ms, RX2 one second later *)
Example ex_schedule :
  let '(_, e', r) := adev_send aes_enc aes_mac ex_dev ex_env [1; 2; 3] 7 false ex_draws in
  length (e_trace e') = 12%nat /\ r = AOk RRxComplete /\
  nth_error (rev (e_trace e')) 3 = Some (ATimerAt 1085) /\ nth_error (rev (e_trace e')) 8 = Some (ATimerAt 2085).
Proof. vm_compute. repeat split. Qed.

(* a frame the joined device rejects (premise mac_rejects of the C07 front-end theorems): not even well-formed, and a well-formed forgery *)
Example ex_rejects_garbage : mac_rejects aes_enc aes_mac ex_mac [0x60; 1; 2; 3] 51.
Proof.
  unfold mac_rejects. cbn [ex_mac m_state]. split; [exact I|]. split; [reflexivity|]. split.
  - intros n [W _]. vm_compute in W. discriminate.
  - intros [W _]. vm_compute in W. discriminate.
Qed.

(* a joining device and something that is not an authentic JoinAccept (premise of the C11 front-end theorems) *)
Definition ex_cred : credentials := {| cr_appeui := 1; cr_deveui := 2; cr_appkey := map N.of_nat (seq 0 16) |}.
Example ex_not_accept : not_accept aes_enc aes_mac ex_cred (0x20 :: repeat 7 16).
Proof. unfold not_accept. vm_compute. eexists. eexists. reflexivity. Qed.
Example ex_join_request_built : exists o, join_otaa aes_mac (mac_new 5 14 0) ex_cred (9 :: ex_draws) = Val o /\ m_state (to_mac o) = Otaa 9 ex_cred.
Proof. vm_compute. eexists. split; reflexivity. Qed.
