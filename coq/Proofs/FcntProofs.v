(* Proofs/FcntProofs.v -- C05: downlink counter reconstruction (session.rs :: next_fcnt_down) is exactly the
   LoRaWAN freshness rule; consequences for histories of accepted frames. *)
From Coq Require Import NArith ZArith List Bool Lia ZifyBool ZifyNat ZifyN.
From LoraV Require Import Base.Bytes Gen.RegionTables Model.Mac.
Import ListNotations.
Ltac Zify.zify_post_hook ::= Z.to_euclidean_division_equations.
Local Open Scope N_scope.

Lemma land_high16 l : l < 4294967296 -> N.land l 0xFFFF0000 = l - l mod 65536.
Proof.
  intros H.
  assert (E : N.land l 0xFFFF0000 = N.ldiff l (N.ones 16)).
  { apply N.bits_inj. intros i. rewrite N.land_spec, N.ldiff_spec.
    destruct (N.ltb_spec i 16) as [Hi|Hi].
    - rewrite N.ones_spec_low by exact Hi. cbn [negb]. rewrite andb_false_r.
      assert (Hb : N.testbit 0xFFFF0000 i = false).
      { assert (Hc : i = 0 \/ i = 1 \/ i = 2 \/ i = 3 \/ i = 4 \/ i = 5 \/ i = 6 \/ i = 7 \/ i = 8 \/ i = 9 \/
                     i = 10 \/ i = 11 \/ i = 12 \/ i = 13 \/ i = 14 \/ i = 15) by lia.
        repeat (destruct Hc as [-> | Hc]); try subst i; reflexivity. }
      rewrite Hb. apply andb_false_r.
    - rewrite N.ones_spec_high by exact Hi. cbn [negb]. rewrite andb_true_r.
      destruct (N.ltb_spec i 32) as [Hj|Hj].
      + assert (Hb : N.testbit 0xFFFF0000 i = true).
        { assert (Hc : i = 16 \/ i = 17 \/ i = 18 \/ i = 19 \/ i = 20 \/ i = 21 \/ i = 22 \/ i = 23 \/ i = 24 \/ i = 25 \/
                       i = 26 \/ i = 27 \/ i = 28 \/ i = 29 \/ i = 30 \/ i = 31) by lia.
          repeat (destruct Hc as [-> | Hc]); try subst i; reflexivity. }
        rewrite Hb. apply andb_true_r.
      + assert (Hl : N.testbit l i = false).
        { destruct (N.eq_dec l 0) as [->|Hn]; [apply N.bits_0|].
          apply N.bits_above_log2. apply N.log2_lt_pow2; [lia|].
          apply N.lt_le_trans with (2 ^ 32); [exact H | apply N.pow_le_mono_r; lia]. }
        rewrite Hl. reflexivity. }
  rewrite E, N.ldiff_ones_r, N.shiftl_mul_pow2, N.shiftr_div_pow2. change (2 ^ 16) with 65536. lia.
Qed.

Lemma lor_high_low h w : h mod 65536 = 0 -> w < 65536 -> N.lor h w = h + w.
Proof.
  intros Hh Hw.
  assert (Hz : N.land h w = 0).
  { apply N.bits_inj. intros i. rewrite N.land_spec, N.bits_0.
    destruct (N.ltb_spec i 16) as [Hi|Hi].
    - assert (Hs : h = N.shiftl (N.shiftr h 16) 16).
      { rewrite N.shiftl_mul_pow2, N.shiftr_div_pow2. change (2 ^ 16) with 65536. lia. }
      rewrite Hs, N.shiftl_spec_low by exact Hi. reflexivity.
    - assert (Hl : N.testbit w i = false).
      { destruct (N.eq_dec w 0) as [->|Hn]; [apply N.bits_0|].
        apply N.bits_above_log2. apply N.log2_lt_pow2; [lia|].
        apply N.lt_le_trans with (2 ^ 16); [exact Hw | apply N.pow_le_mono_r; lia]. }
      rewrite Hl. apply andb_false_r. }
  rewrite <- N.lxor_lor by exact Hz. symmetry. apply N.add_nocarry_lxor. exact Hz.
Qed.

(* first downlink of a session: any wire value is taken at face value *)
Theorem nfd_first w : next_fcnt_down None w = Some w.
Proof. reflexivity. Qed.

(* the freshness rule: accepted with counter n exactly when n is THE 32-bit value congruent to the wire counter
   with last < n <= last + MAX_FCNT_GAP (and representable) *)
Theorem nfd_spec last w n : last < 4294967296 -> w < 65536 ->
  (next_fcnt_down (Some last) w = Some n <-> n mod 65536 = w /\ last < n <= last + 16384 /\ n < 4294967296).
Proof.
  intros Hl Hw. unfold next_fcnt_down. rewrite land_high16 by exact Hl.
  set (l16 := last mod 65536). set (high := last - l16).
  assert (Hh : high mod 65536 = 0) by (subst high l16; lia).
  assert (Hhb : high + l16 = last) by (subst high l16; lia).
  change c_max_fcnt_gap with 16384.
  destruct (l16 <=? w) eqn:E.
  - rewrite lor_high_low by assumption.
    destruct ((last <? high + w) && (high + w - last <=? 16384)) eqn:E2; split.
    + intros H. injection H as <-. lia.
    + intros (H1 & H2 & H3). f_equal. lia.
    + intros H; discriminate.
    + intros (H1 & H2 & H3). exfalso. lia.
  - assert (Hm : ((high + 65536) mod 4294967296) mod 65536 = 0) by lia.
    rewrite lor_high_low by assumption.
    destruct (N.ltb_spec (high + 65536) 4294967296) as [Hlt|Hge].
    + rewrite (N.mod_small (high + 65536)) by exact Hlt.
      destruct ((last <? high + 65536 + w) && (high + 65536 + w - last <=? 16384)) eqn:E2; split.
      * intros H. injection H as <-. lia.
      * intros (H1 & H2 & H3). f_equal. lia.
      * intros H; discriminate.
      * intros (H1 & H2 & H3). exfalso. lia.
    + assert (Hw0 : (high + 65536) mod 4294967296 = 0) by lia.
      rewrite Hw0. cbn [N.add].
      destruct ((last <? w) && (w - last <=? 16384)) eqn:E2; split.
      * intros H. exfalso. lia.
      * intros (H1 & H2 & H3). exfalso. lia.
      * intros H; discriminate.
      * intros (H1 & H2 & H3). exfalso. lia.
Qed.

Theorem nfd_unique last w n n' :
  next_fcnt_down (Some last) w = Some n -> next_fcnt_down (Some last) w = Some n' -> n = n'.
Proof. congruence. Qed.

(* consequences used by the history theorems *)
Corollary nfd_strictly_increases last w n : last < 4294967296 -> w < 65536 ->
  next_fcnt_down (Some last) w = Some n -> last < n /\ n < 4294967296.
Proof. intros Hl Hw H. apply nfd_spec in H; [lia | assumption | assumption]. Qed.

(* a frame once accepted (its counter n became `last`) can never be accepted again later: any later accepted
   counter for the same wire value would have to be >= n + 65536, beyond the gap *)
Corollary nfd_no_replay last w : last < 4294967296 -> w < 65536 -> last mod 65536 = w ->
  next_fcnt_down (Some last) w = None.
Proof.
  intros Hl Hw Hm. destruct (next_fcnt_down (Some last) w) as [n|] eqn:E; [|reflexivity].
  apply nfd_spec in E; [|assumption|assumption]. exfalso. lia.
Qed.

Corollary nfd_no_replay_later last last' w : last < 4294967296 -> w < 65536 ->
  last mod 65536 = w -> last <= last' -> last' < last + 49152 -> last' < 4294967296 ->
  next_fcnt_down (Some last') w = None.
Proof.
  intros Hl Hw Hm Hle Hlt Hl'. destruct (next_fcnt_down (Some last') w) as [n|] eqn:E; [|reflexivity].
  apply nfd_spec in E; [|assumption|assumption]. exfalso. lia.
Qed.
