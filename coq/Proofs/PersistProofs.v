(* Proofs/PersistProofs.v -- C20: a representable session restores from its serialised form unchanged; whatever document is
   accepted yields a representable session. *)
From Coq Require Import ZArith NArith List Bool Lia Arith ZifyBool ZifyNat ZifyN.
From LoraV Require Import Base.Bytes Gen.RegionTables Model.Region Model.Mac Model.Persist Proofs.BytesProofs.
Import ListNotations.
Ltac Zify.zify_post_hook ::= Z.to_euclidean_division_equations.
Local Open Scope nat_scope.

Lemma de_u8_int b : (b < 256)%N -> de_u8 (JInt (Z.of_N b)) = Some b.
Proof.
  intros H. unfold de_u8, de_uint. replace ((0 <=? Z.of_N b)%Z && (Z.of_N b <? 256)%Z) with true by (symmetry; lia).
  rewrite N2Z.id. reflexivity.
Qed.
Lemma de_u32_int b : (b < 2 ^ 32)%N -> de_u32 (JInt (Z.of_N b)) = Some b.
Proof.
  intros H. unfold de_u32, de_uint. change (2 ^ 32)%N with 4294967296%N in H.
  replace ((0 <=? Z.of_N b)%Z && (Z.of_N b <? 4294967296)%Z) with true by (symmetry; lia).
  rewrite N2Z.id. reflexivity.
Qed.

Lemma de_all_ser l : bytes_ok l = true -> de_all de_u8 (map (fun b => JInt (Z.of_N b)) l) = Some l.
Proof.
  induction l as [|b l IH]; intros H; [reflexivity|]. cbn [bytes_ok forallb] in H. apply andb_true_iff in H. destruct H as [Hb Hl].
  cbn [map de_all]. rewrite de_u8_int by (unfold byte_ok in Hb; lia). rewrite (IH Hl). reflexivity.
Qed.

Lemma de_bytes_ser n l : length l = n -> bytes_ok l = true -> de_bytes n (ser_bytes l) = Some l.
Proof. intros Hn Hb. unfold de_bytes, ser_bytes. rewrite map_length, Hn, Nat.eqb_refl. exact (de_all_ser l Hb). Qed.

Lemma bytes_ok_app a b : bytes_ok (a ++ b) = bytes_ok a && bytes_ok b.
Proof. unfold bytes_ok. apply forallb_app. Qed.
Lemma bytes_ok_zeros n : bytes_ok (repeat 0%N n) = true.
Proof. induction n; [reflexivity|exact IHn]. Qed.
Lemma bytes_ok_le_bytes n v : bytes_ok (le_bytes n v) = true.
Proof.
  revert v; induction n as [|n IH]; intros v; [reflexivity|]. cbn [le_bytes bytes_ok forallb]. apply andb_true_iff. split; [|apply IH].
  unfold byte_ok. assert (v mod 256 < 256)%N by (apply N.mod_lt; discriminate). lia.
Qed.

Lemma de_uplink_ser owed pending : length pending <= 15 -> bytes_ok pending = true ->
  de_uplink (ser_uplink owed pending) = Some (owed, pending).
Proof.
  intros Hl Hb. unfold de_uplink, ser_uplink. cbn [forallb existsb uplink_keys jkey_eqb fst orb negb field lookups filter map snd andb].
  cbn [de_bool]. replace (Z.of_nat (length pending)) with (Z.of_N (N.of_nat (length pending))) by lia.
  rewrite de_u8_int by lia.
  rewrite de_bytes_ser; [| rewrite app_length, repeat_length; lia | rewrite bytes_ok_app, Hb, bytes_ok_zeros; reflexivity].
  replace (N.of_nat (length pending) <=? 15)%N with true by (symmetry; lia).
  rewrite Nat2N.id, firstn_app_exact. reflexivity.
Qed.

(* C20, lossless: every representable session comes back equal in every field *)
Theorem restore_roundtrip s : session_wf s -> restore s = Some s.
Proof.
  intros [P1 [P2 [K1 [K2 [A1 [A2 [D [U [C F]]]]]]]]]. unfold restore, ser_session, de_session.
  cbn [field lookups filter map snd fst jkey_eqb].
  unfold de_session_fields. rewrite (de_uplink_ser _ _ P1 P2). cbn [de_bool].
  rewrite (de_bytes_ser 16 _ K1 K2), (de_bytes_ser 16 _ A1 A2).
  rewrite (de_bytes_ser 4 (le_bytes 4 (ss_devaddr s)) (le_bytes_length 4 _) (bytes_ok_le_bytes 4 _)).
  rewrite (de_u32_int _ U), (de_u32_int _ C).
  assert (Hfd : de_opt_u32 (match ss_fcnt_down s with Some v => JInt (Z.of_N v) | None => JNull end) = Some (ss_fcnt_down s)).
  { destruct (ss_fcnt_down s) as [v|]; [|reflexivity]. unfold de_opt_u32. rewrite (de_u32_int _ F). reflexivity. }
  rewrite Hfd. unfold build_session. cbn [fst snd].
  rewrite le_value_le_bytes by (change (256 ^ N.of_nat 4)%N with (2 ^ 32)%N; exact D).
  destruct s; reflexivity.
Qed.

(* whatever the restored session is used for gives what the original would have given *)
Corollary restored_behaves_identically (A : Type) (f : session -> A) s : session_wf s ->
  option_map f (restore s) = Some (f s).
Proof. intros H. rewrite (restore_roundtrip s H). reflexivity. Qed.

(* ---- any accepted document yields a representable session *)
Lemma de_uint_bound bound j v : de_uint bound j = Some v -> (Z.of_N v < bound)%Z.
Proof. unfold de_uint. destruct j; try discriminate. destruct ((0 <=? z)%Z && (z <? bound)%Z) eqn:E; [|discriminate]. intros H. injection H as <-. lia. Qed.

Lemma de_all_ok l : forall out, de_all de_u8 l = Some out -> length out = length l /\ bytes_ok out = true.
Proof.
  induction l as [|x l IH]; intros out H; [injection H as <-; split; reflexivity|]. cbn [de_all] in H.
  destruct (de_u8 x) as [a|] eqn:Ea; [|discriminate]. destruct (de_all de_u8 l) as [b|] eqn:Eb; [|discriminate]. injection H as <-.
  destruct (IH b eq_refl) as [L B]. cbn [length bytes_ok forallb]. split; [lia|]. apply andb_true_iff. split; [|exact B].
  apply de_uint_bound in Ea. unfold byte_ok. lia.
Qed.

Lemma de_bytes_ok n j out : de_bytes n j = Some out -> length out = n /\ bytes_ok out = true.
Proof.
  unfold de_bytes. destruct j; try discriminate. destruct (Nat.eqb (length l) n) eqn:E; [|discriminate]. intros H.
  destruct (de_all_ok l out H) as [L B]. apply Nat.eqb_eq in E. split; [lia|exact B].
Qed.

Lemma bytes_ok_firstn k l : bytes_ok l = true -> bytes_ok (firstn k l) = true.
Proof.
  revert k; induction l as [|x l IH]; intros [|k] H; try reflexivity. cbn [firstn bytes_ok forallb] in *.
  apply andb_true_iff in H. destruct H as [A B]. apply andb_true_iff. split; [exact A|exact (IH k B)].
Qed.

Lemma le_value_bound l : bytes_ok l = true -> (le_value l < 256 ^ N.of_nat (length l))%N.
Proof.
  induction l as [|b l IH]; intros H; [cbn; lia|]. cbn [bytes_ok forallb] in H. apply andb_true_iff in H. destruct H as [Hb Hl].
  specialize (IH Hl). cbn [le_value length]. rewrite Nat2N.inj_succ, N.pow_succ_r'. unfold byte_ok in Hb. lia.
Qed.

Lemma de_uplink_ok j c p : de_uplink j = Some (c, p) -> length p <= 15 /\ bytes_ok p = true.
Proof.
  unfold de_uplink. destruct j as [| | | | |o]; try discriminate. destruct (negb _); [discriminate|].
  destruct (field Kconfirmed o) as [| |cv]; try discriminate. destruct (field Kpending_len o) as [| |nv]; try discriminate.
  destruct (field Kpending_data o) as [| |dv]; try discriminate.
  destruct (de_bool cv); [|discriminate]. destruct (de_u8 nv) as [len|]; [|discriminate].
  destruct (de_bytes 15 dv) as [data|] eqn:Ed; [|discriminate]. destruct (len <=? 15)%N eqn:El; [|discriminate].
  intros H. injection H as _ <-. destruct (de_bytes_ok _ _ _ Ed) as [L B]. split; [rewrite firstn_length; lia|apply bytes_ok_firstn; exact B].
Qed.

Lemma de_fields_ok u c n a d fu fd cnt s : de_session_fields u c n a d fu fd cnt = Some s -> session_wf s.
Proof.
  unfold de_session_fields. destruct (de_uplink u) as [[cb p]|] eqn:Eu; [|discriminate]. destruct (de_bool c); [|discriminate].
  destruct (de_bytes 16 n) as [nwk|] eqn:En; [|discriminate]. destruct (de_bytes 16 a) as [app|] eqn:Ea; [|discriminate].
  destruct (de_bytes 4 d) as [addr|] eqn:Ed; [|discriminate]. destruct (de_u32 fu) as [fuv|] eqn:Ef; [|discriminate].
  destruct (match fd with None => Some None | Some j => de_opt_u32 j end) as [fdv|] eqn:Efd; [|discriminate].
  destruct (de_u32 cnt) as [cv|] eqn:Ec; [|discriminate]. intros H. injection H as <-.
  destruct (de_uplink_ok _ _ _ Eu) as [P1 P2]. destruct (de_bytes_ok _ _ _ En) as [K1 K2]. destruct (de_bytes_ok _ _ _ Ea) as [A1 A2].
  destruct (de_bytes_ok _ _ _ Ed) as [D1 D2]. apply de_uint_bound in Ef. apply de_uint_bound in Ec.
  unfold session_wf, build_session. cbn [ss_pending ss_nwkskey ss_appskey ss_devaddr ss_fcnt_up ss_adr_ack_cnt ss_fcnt_down snd].
  repeat split; try assumption; try (change (2 ^ 32)%N with 4294967296%N; lia).
  - pose proof (le_value_bound addr D2) as B. rewrite D1 in B. exact B.
  - destruct fdv as [v|]; [|exact I]. destruct fd as [j|]; [|discriminate]. unfold de_opt_u32 in Efd. destruct j; try discriminate;
      try (destruct (de_u32 _) as [w|] eqn:Ew; [|discriminate]; injection Efd as <-; apply de_uint_bound in Ew; change (2 ^ 32)%N with 4294967296%N; lia).
Qed.

Theorem accepted_document_is_representable j s : de_session j = Some s -> session_wf s.
Proof.
  unfold de_session. destruct j as [| | | |l|o]; try discriminate.
  - destruct l as [|u [|c [|n [|a [|d [|fu [|fd [|cnt [|x l]]]]]]]]]; try discriminate. apply de_fields_ok.
  - destruct (field Kuplink o) as [| |u]; try discriminate. destruct (field Kconfirmed o) as [| |c]; try discriminate.
    destruct (field Knwkskey o) as [| |n]; try discriminate. destruct (field Kappskey o) as [| |a]; try discriminate.
    destruct (field Kdevaddr o) as [| |d]; try discriminate. destruct (field Kfcnt_up o) as [| |fu]; try discriminate.
    destruct (field Kadr_ack_cnt o) as [| |cnt]; try discriminate.
    destruct (field Kfcnt_down o) as [| |fd]; [apply de_fields_ok|discriminate|apply de_fields_ok].
Qed.

(* restoring is idempotent on every accepted document: serialise what was accepted, restore again, get the same session *)
Corollary accepted_then_stable j s : de_session j = Some s -> restore s = Some s.
Proof. intros H. apply restore_roundtrip. exact (accepted_document_is_representable j s H). Qed.
