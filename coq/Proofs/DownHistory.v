(* Proofs/DownHistory.v -- C05 along whole nb_device histories: within a session, over EVERY sequence of send requests, radio events (any
   answer, any received byte string) and timeouts with a fault at any radio call, the counters of the downlinks the device reports as
   received are strictly increasing and above the last counter accepted before: no frame is acted on twice, counters never move backwards. *)
From Coq Require Import NArith ZArith List Bool Lia.
From LoraV Require Import Base.Bytes Model.Frame Model.Region Model.Mac Model.NbDev Proofs.FcntProofs Proofs.SessionProofs Proofs.AsyncProofs.
Import ListNotations.
Local Open Scope N_scope.

Definition down_lt (a : option N) (n : N) : Prop := match a with Some l => l < n | None => True end.
Fixpoint inc_from (a : option N) (l : list N) : Prop :=
  match l with [] => True | n :: t => down_lt a n /\ inc_from (Some n) t end.
Definition downs (rs : list nresp) : list N := flat_map (fun r => match r with NrDownlinkReceived n => [n] | _ => [] end) rs.

Lemma inc_from_weaken a b l : match b with Some n => down_lt a n | None => a = None end -> inc_from b l -> inc_from a l.
Proof.
  destruct l as [|x t]; [intros; exact I|]. cbn [inc_from]. intros H [A B]. split; [|exact B].
  destruct b as [n|]; [|subst a; exact I]. unfold down_lt in *. destruct a as [l0|]; [lia|exact I].
Qed.

Section Down.
  Variable enc mac_fn : list N -> list N -> list N.

  (* one received byte string: the remembered counter is unchanged and nothing is reported as received, or it moved strictly forward to n
     and the report (if any) names n *)
  Lemma hrx_down s cf rg bytes maxp snr ig o : fcnt_ok s -> bytes_ok bytes = true ->
    handle_rx_session enc mac_fn s cf rg bytes maxp snr ig = Val o ->
    keys_eq s (ro_session o) /\ fcnt_ok (ro_session o) /\
    ((ss_fcnt_down (ro_session o) = ss_fcnt_down s /\ forall n, ro_resp o <> RDownlinkReceived n) \/
     exists n, ss_fcnt_down (ro_session o) = Some n /\ down_lt (ss_fcnt_down s) n /\ forall n', ro_resp o = RDownlinkReceived n' -> n' = n).
  Proof.
    intros F B. unfold handle_rx_session.
    assert (SAME : forall resp, (forall n, resp <> RDownlinkReceived n) ->
              forall o, Val {| ro_session := s; ro_cf := cf; ro_rg := rg; ro_resp := resp; ro_downlink := None; ro_buf := bytes |} = Val o ->
              keys_eq s (ro_session o) /\ fcnt_ok (ro_session o) /\
              ((ss_fcnt_down (ro_session o) = ss_fcnt_down s /\ forall n, ro_resp o <> RDownlinkReceived n) \/
               exists n, ss_fcnt_down (ro_session o) = Some n /\ down_lt (ss_fcnt_down s) n /\ forall n', ro_resp o = RDownlinkReceived n' -> n' = n)).
    { intros resp NR o0 H. injection H as <-. cbn [ro_session ro_resp]. split; [repeat split|]. split; [exact F|]. left. split; [reflexivity|exact NR]. }
    destruct (validate bytes) as [lay|e]; [|apply SAME; discriminate].
    destruct (Nat.ltb _ _).
    - destruct ig; [apply SAME; discriminate|].
      pose proof (rx2_complete_counter s cf (rg_id rg)) as RC. unfold rx2_complete_session in *.
      destruct (ss_fcnt_up s =? 0xFFFFFFFF).
      + intros H. injection H as <-. cbn [ro_session ro_resp]. split; [repeat split|]. split; [exact F|]. left. split; [reflexivity|discriminate].
      + destruct (if cf_adr cf then _ else _) as [cnt cf']. intros H. injection H as <-. cbn [ro_session ro_resp ss_fcnt_down ss_nwkskey ss_appskey ss_devaddr].
        split; [repeat split|]. split; [exact F|]. left. split; [reflexivity|]. intros n. destruct (ss_confirmed s); discriminate.
    - destruct (next_fcnt_down (ss_fcnt_down s) (v_fcnt bytes)) as [n|] eqn:NF; [|apply SAME; discriminate].
      destruct (negb _); [apply SAME; discriminate|].
      destruct (decrypt_in_place _ _ _ _ _) as [[lay'|e] buf]; [|intros H; discriminate].
      destruct (if ig then _ else _) as [[[cf1 rg1] pend1]| |]; try (intros H; discriminate).
      destruct (match ig with true => _ | false => _ end) as [[[cf2 rg2] pend2]| |]; try (intros H; discriminate).
      intros H. injection H as <-. cbn [ro_session ro_resp ss_fcnt_down ss_nwkskey ss_appskey ss_devaddr].
      assert (W : v_fcnt bytes < 65536) by (apply wire_cnt_bound; exact B).
      assert (P : down_lt (ss_fcnt_down s) n /\ n < 4294967296).
      { unfold fcnt_ok in F. destruct (ss_fcnt_down s) as [l|].
        - destruct (nfd_strictly_increases l (v_fcnt bytes) n F W NF) as [A C]. split; [exact A|exact C].
        - rewrite nfd_first in NF. injection NF as <-. split; [exact I|lia]. }
      split; [repeat split|]. split; [unfold fcnt_ok; cbn [ss_fcnt_down]; exact (proj2 P)|].
      right. exists n. split; [reflexivity|]. split; [exact (proj1 P)|]. intros n'. destruct (ss_fcnt_up s =? 0xFFFFFFFF); [discriminate|]. intros H. injection H as <-. reflexivity.
  Qed.

  Lemma rx2_down s cf r : let '(s', _, resp) := rx2_complete_session s cf r in
    keys_eq s s' /\ ss_fcnt_down s' = ss_fcnt_down s /\ forall n, resp <> RDownlinkReceived n.
  Proof.
    unfold rx2_complete_session. destruct (ss_fcnt_up s =? 0xFFFFFFFF); [split; [repeat split|split; [reflexivity|discriminate]]|].
    destruct (if cf_adr cf then _ else _) as [cnt cf']. cbn [ss_fcnt_down ss_nwkskey ss_appskey ss_devaddr].
    split; [repeat split|]. split; [reflexivity|]. intros n. destruct (ss_confirmed s); discriminate.
  Qed.

  Lemma send_down m data fport confirmed draws o s : send enc mac_fn m data fport confirmed draws = Val (SendOk o) -> m_state m = Joined s ->
    exists s0, m_state (to_mac o) = Joined s0 /\ keys_eq s s0 /\ ss_fcnt_down s0 = ss_fcnt_down s.
  Proof.
    unfold send. intros H E. rewrite E in H.
    destruct (prepare_buffer enc mac_fn s (m_cfg m) (rg_id (m_region m)) data fport confirmed) as [[[s0 fcnt] frame]| |] eqn:PB; try discriminate H.
    assert (D : keys_eq s s0 /\ ss_fcnt_down s0 = ss_fcnt_down s).
    { revert PB. unfold prepare_buffer. cbv zeta. destruct (_ && _); [discriminate|]. destruct (build_data _ _ _ _ _ _) as [[buf len]|er]; [|discriminate].
      destruct (Nat.ltb len 256); [|discriminate]. intros X. injection X as <- _ _. cbn. split; [repeat split|reflexivity]. }
    destruct (create_tx_config _ _ _ _) as [[[[[pw0 rf] tc] rg'] rest']| |]; try discriminate H.
    destruct (adjust_power _ _ _) as [pw| |]; try discriminate H.
    destruct (rx_windows _ _) as [[w1 w2]| |]; try discriminate H.
    injection H as <-. cbn [to_mac m_state with_region with_state]. exists s0. split; [reflexivity|exact D].
  Qed.

  (* the invariant of a session in progress: joined with the keys of s, remembered downlink counter a *)
  Definition J (s : session) (a : option N) (m : mac) : Prop :=
    exists s1, m_state m = Joined s1 /\ keys_eq s s1 /\ fcnt_ok s1 /\ ss_fcnt_down s1 = a.

  Definition good_event (x : nevent * ranswer) : Prop :=
    (match fst x with NJoin _ _ => False | _ => True end) /\ (match snd x with RaRxDone p => bytes_ok p = true | _ => True end).

  Lemma nb_step_down s a st m e ev ans st' m' e' r : J s a m -> good_event (ev, ans) ->
    handle_event enc mac_fn st m e ev ans = (st', m', e', r) ->
    (J s a m' /\ forall n, r <> NrDownlinkReceived n) \/
    (exists n, J s (Some n) m' /\ down_lt a n /\ forall n', r = NrDownlinkReceived n' -> n' = n).
  Proof.
    intros [s1 [E1 [K1 [F1 D1]]]] [GE GA] H. cbn [fst snd] in GE, GA.
    assert (SAME : forall r0, (forall n, r0 <> NrDownlinkReceived n) -> (J s a m /\ forall n, r0 <> NrDownlinkReceived n) \/
                    (exists n, J s (Some n) m /\ down_lt a n /\ forall n', r0 = NrDownlinkReceived n' -> n' = n)).
    { intros r0 NR. left. split; [exists s1; repeat split; try apply K1; assumption|exact NR]. }
    assert (RX2 : forall m2 r2, mac_rx2_complete m = (m2, r2) -> J s a m2 /\ forall n, r2 <> RDownlinkReceived n).
    { intros m2 r2. unfold mac_rx2_complete. rewrite E1. pose proof (rx2_down s1 (m_cfg m) (rg_id (m_region m))) as R.
      destruct (rx2_complete_session s1 (m_cfg m) (rg_id (m_region m))) as [[s2 cf2] resp]. destruct R as [KK [DD NR]].
      intros X. injection X as <- <-. split; [|exact NR]. exists s2. cbn [m_state]. split; [reflexivity|]. split; [eapply keys_eq_trans; eassumption|].
      split; [unfold fcnt_ok in *; rewrite DD; exact F1|congruence]. }
    destruct st as [|j rx1 rx2|j rx1 rx2 w|j rx1 rx2 w rf]; cbn [handle_event] in H.
    - destruct ev as [cr dr|data fport confirmed draws| |]; try contradiction; try (injection H as _ <- _ <-; apply SAME; discriminate).
      destruct (send enc mac_fn m data fport confirmed draws) as [[o|]| |] eqn:SD; try (injection H as _ <- _ <-; apply SAME; discriminate).
      destruct (send_down _ _ _ _ _ _ _ SD E1) as [s0 [E0 [K0 D0]]].
      assert (J0 : J s a (to_mac o)).
      { exists s0. split; [exact E0|]. split; [eapply keys_eq_trans; eassumption|]. split; [unfold fcnt_ok in *; rewrite D0; exact F1|congruence]. }
      unfold idle_tx in H. destruct (ncall_radio e _) as [e1 ok].
      assert (CON : forall dflt, (forall n, dflt <> NrDownlinkReceived n) ->
                (let '(m2, r2) := mac_rx2_complete (to_mac o) in
                 match r2 with RSessionExpired => (NIdle, m2, e1, NrSessionExpired) | _ => (NIdle, m2, e1, dflt) end) = (st', m', e', r) ->
                (J s a m' /\ forall n, r <> NrDownlinkReceived n)).
      { intros dflt ND HH. destruct J0 as [s0' [E0' [K0' [F0' D0']]]].
        unfold mac_rx2_complete in HH. rewrite E0' in HH. pose proof (rx2_down s0' (m_cfg (to_mac o)) (rg_id (m_region (to_mac o)))) as R.
        destruct (rx2_complete_session s0' (m_cfg (to_mac o)) (rg_id (m_region (to_mac o)))) as [[s2 cf2] resp]. destruct R as [KK [DD NR]].
        assert (J2 : forall mm, m_state mm = Joined s2 -> J s a mm).
        { intros mm EE. exists s2. split; [exact EE|]. split; [eapply keys_eq_trans; eassumption|]. split; [unfold fcnt_ok in *; rewrite DD; exact F0'|congruence]. }
        destruct resp; injection HH as _ <- _ <-; (split; [apply J2; reflexivity|]); try exact ND; discriminate. }
      destruct ok; cbn [negb] in H; [|left; apply (CON NrErrRadio); [discriminate|exact H]].
      destruct ans; try (left; apply (CON (NrErrState SUnexpectedRadioResponse)); [discriminate|exact H]); try (left; apply (CON NrErrRadio); [discriminate|exact H]).
      + injection H as _ <- _ <-. left. split; [exact J0|discriminate].
      + unfold rxwindow1 in H. injection H as _ <- _ <-. left. split; [exact J0|discriminate].
    - destruct ev as [cr dr|data fport confirmed draws| |]; try contradiction; try (injection H as _ <- _ <-; apply SAME; discriminate).
      destruct (ncall_radio e NcPhy) as [e1 ok]. destruct ok; cbn [negb] in H; [|injection H as _ <- _ <-; apply SAME; discriminate].
      destruct ans; injection H as _ <- _ <-; apply SAME; discriminate.
    - destruct ev as [cr dr|data fport confirmed draws| |]; try contradiction; try (injection H as _ <- _ <-; apply SAME; discriminate).
      destruct (ncall_radio e _) as [e1 ok]. destruct ok; cbn [negb] in H; [|injection H as _ <- _ <-; apply SAME; discriminate].
      destruct w as [t|t]; [destruct (_ <? _)|]; injection H as _ <- _ <-; apply SAME; discriminate.
    - destruct ev as [cr dr|data fport confirmed draws| |]; try contradiction; try (injection H as _ <- _ <-; apply SAME; discriminate).
      + destruct (ncall_radio e NcPhy) as [e1 ok]. destruct ok; cbn [negb] in H; [|injection H as _ <- _ <-; apply SAME; discriminate].
        destruct ans; try (injection H as _ <- _ <-; apply SAME; discriminate).
        destruct (Nat.leb 256 (length packet)); [injection H as _ <- _ <-; apply SAME; discriminate|].
        unfold mac_handle_rx in H. rewrite E1 in H.
        destruct (handle_rx_session enc mac_fn s1 (m_cfg m) (m_region m) packet (rf_max_payload rf) 5 false) as [o| |] eqn:HR;
          try (injection H as _ <- _ <-; apply SAME; discriminate).
        destruct (hrx_down _ _ _ _ _ _ _ _ F1 GA HR) as [KK [FF [[DD NR]|[n [DD [LT RN]]]]]].
        * left. cbn [mo_resp mo_mac] in H.
          assert (J2 : J s a {| m_cfg := ro_cf o; m_region := ro_rg o; m_max_power := m_max_power m; m_gain := m_gain m; m_state := Joined (ro_session o) |}).
          { exists (ro_session o). cbn [m_state]. split; [reflexivity|]. split; [eapply keys_eq_trans; eassumption|]. split; [exact FF|congruence]. }
          destruct (ro_resp o) eqn:ER; injection H as _ <- _ <-; (split; [exact J2|]); try discriminate. exfalso. exact (NR fcnt eq_refl).
        * right. exists n. cbn [mo_resp mo_mac] in H. rewrite D1 in LT.
          assert (J2 : J s (Some n) {| m_cfg := ro_cf o; m_region := ro_rg o; m_max_power := m_max_power m; m_gain := m_gain m; m_state := Joined (ro_session o) |}).
          { exists (ro_session o). cbn [m_state]. split; [reflexivity|]. split; [eapply keys_eq_trans; eassumption|]. split; [exact FF|exact DD]. }
          destruct (ro_resp o) eqn:ER; injection H as _ <- _ <-; (split; [exact J2|]); (split; [exact LT|]); intros n' X; try discriminate X.
          injection X as <-. apply RN. reflexivity.
      + destruct (ncall_radio e NcCancelRx) as [e1 ok]. destruct ok; cbn [negb] in H; [|injection H as _ <- _ <-; apply SAME; discriminate].
        destruct w as [t|t]; [destruct (_ <? _); injection H as _ <- _ <-; apply SAME; discriminate|].
        destruct (mac_rx2_complete m) as [m2 r2] eqn:RX. destruct (RX2 _ _ eq_refl) as [J2 NR]. injection H as _ <- _ <-. left. split; [exact J2|].
        intros n. destruct r2; try discriminate. exfalso. exact (NR fcnt eq_refl).
  Qed.

  (* the responses of a run *)
  Fixpoint nb_resps (st : nstate) (m : mac) (e : nenv) (evs : list (nevent * ranswer)) : list nresp :=
    match evs with
    | [] => []
    | (ev, ans) :: rest => let '(st', m', e', r) := handle_event enc mac_fn st m e ev ans in r :: nb_resps st' m' e' rest
    end.

  Theorem nb_downlinks_strictly_increase s : forall evs a st m e, J s a m -> Forall good_event evs ->
    inc_from a (downs (nb_resps st m e evs)).
  Proof.
    induction evs as [|[ev ans] rest IH]; intros a st m e HJ G; cbn [nb_resps]; [exact I|].
    inversion G as [|x l G1 G2]; subst.
    destruct (handle_event enc mac_fn st m e ev ans) as [[[st1 m1] e1] r1] eqn:H.
    destruct (nb_step_down _ _ _ _ _ _ _ _ _ _ _ HJ G1 H) as [[J1 NR]|[n [J1 [LT RN]]]].
    - unfold downs. cbn [flat_map]. destruct r1; try exact (IH a st1 m1 e1 J1 G2). exfalso. exact (NR f eq_refl).
    - unfold downs. cbn [flat_map]. destruct r1 as [| | | | |f| | | | | | | |].
      6: { rewrite (RN f eq_refl). cbn [app inc_from]. split; [exact LT|exact (IH (Some n) st1 m1 e1 J1 G2)]. }
      all: cbn [app]; apply (inc_from_weaken a (Some n)); [exact LT|exact (IH (Some n) st1 m1 e1 J1 G2)].
  Qed.
End Down.
