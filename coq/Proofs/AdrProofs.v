(* Proofs/AdrProofs.v -- C12: the session model refines Spec/AdrSpec.v; uplink frames carry exactly the spec's bits. *)
From Coq Require Import NArith ZArith List Bool Lia Arith ZifyBool ZifyNat ZifyN.
From LoraV Require Import Base.Bytes Crypto.AES Model.Frame Spec.L2Frame Gen.RegionTables Model.Region Model.Mac Spec.AdrSpec
  Proofs.BytesProofs Proofs.FrameProofs.
Import ListNotations.
Ltac Zify.zify_post_hook ::= Z.to_euclidean_division_equations.
Local Open Scope N_scope.

Definition defined (r : rid) (d : N) : bool := match get_datarate r d with Some _ => true | None => false end.

Definition abs (s : session) (cf : configuration) : adr_state :=
  {| a_on := cf_adr cf; a_since := ss_adr_ack_cnt s; a_ack := ss_owed_ack s; a_dr := cf_data_rate cf |}.

(* next_lower_datarate is the greatest defined data rate below the current one *)
Lemma find_rev_seq (P : nat -> bool) : forall n,
  match find P (rev (seq 0 n)) with
  | Some d => (d < n)%nat /\ P d = true /\ forall e, (d < e)%nat -> (e < n)%nat -> P e = false
  | None => forall e, (e < n)%nat -> P e = false
  end.
Proof.
  induction n as [|n IH].
  - cbn. intros e H. lia.
  - rewrite seq_S, rev_app_distr. cbn [rev app find Nat.add].
    destruct (P n) eqn:En.
    + repeat split; [lia | exact En | intros e H1 H2; lia].
    + destruct (find P (rev (seq 0 n))) as [d|].
      * destruct IH as (H1 & H2 & H3). repeat split; [lia | exact H2|].
        intros e Hd He. destruct (Nat.eq_dec e n) as [->|Hne]; [exact En | apply H3; lia].
      * intros e He. destruct (Nat.eq_dec e n) as [->|Hne]; [exact En | apply IH; lia].
Qed.

Theorem next_lower_spec r current : is_next_lower (defined r) current (next_lower_datarate r current).
Proof.
  unfold next_lower_datarate, is_next_lower.
  pose proof (find_rev_seq (fun c => defined r (N.of_nat c)) (N.to_nat current)) as H.
  unfold defined in H at 1.
  destruct (find _ (rev (seq 0 (N.to_nat current)))) as [d|].
  - destruct H as (H1 & H2 & H3). repeat split; [lia | exact H2|].
    intros e Hd He. specialize (H3 (N.to_nat e) ltac:(lia) ltac:(lia)). now rewrite N2Nat.id in H3.
  - intros e He. specialize (H (N.to_nat e) ltac:(lia)). now rewrite N2Nat.id in H.
Qed.

(* concluding an uplink without a downlink = the spec's timeout step (ADR count, back-off at 96, 128, ..., never otherwise) *)
Theorem rx2_complete_refines s cf r : ss_fcnt_up s <> 0xFFFFFFFF ->
  let '(s', cf', _) := rx2_complete_session s cf r in
  abs s' cf' = spec_uplink_timeout (abs s cf) (next_lower_datarate r (cf_data_rate cf)) /\
  cf_rx1_delay cf' = cf_rx1_delay cf /\ cf_tx_power cf' = cf_tx_power cf /\ cf_rx1_dr_offset cf' = cf_rx1_dr_offset cf /\
  cf_rx2_data_rate cf' = cf_rx2_data_rate cf /\ cf_rx2_frequency cf' = cf_rx2_frequency cf.
Proof.
  intros Hne. unfold rx2_complete_session, spec_uplink_timeout, abs, backoff_point.
  destruct (ss_fcnt_up s =? 0xFFFFFFFF) eqn:E; [apply N.eqb_eq in E; contradiction|].
  change c_adr_ack_limit with 64. change c_adr_ack_delay with 32. cbn [a_on a_since a_ack a_dr].
  destruct (cf_adr cf) eqn:Ea.
  - set (cnt := N.min 0xFFFFFFFF (ss_adr_ack_cnt s + 1)).
    change (64 + 32) with 96.
    destruct ((96 <=? cnt) && ((cnt - 64) mod 32 =? 0)) eqn:Eb.
    + destruct (next_lower_datarate r (cf_data_rate cf)) as [d|]; cbn; rewrite ?Ea; repeat split; reflexivity.
    + cbn. rewrite Ea. repeat split; reflexivity.
  - cbn. rewrite Ea. repeat split; reflexivity.
Qed.

(* back-off happens exactly at since_dl = 64 + 32 k, k >= 1 *)
Lemma backoff_point_iff since : backoff_point since = true <-> exists k, 1 <= k /\ since = 64 + 32 * k.
Proof.
  unfold backoff_point. split.
  - intros H. apply andb_true_iff in H. destruct H as [H1 H2]. exists ((since - 64) / 32). lia.
  - intros (k & Hk & ->). apply andb_true_iff. split; lia.
Qed.

Section AdrFrames.
  Variable enc mac_fn : list N -> list N -> list N.
  Hypothesis enc_len : forall k b, length (enc k b) = 16%nat.
  Hypothesis mac_len : forall k m, length (mac_fn k m) = 16%nat.

  (* every data uplink is the spec frame of a description whose header fields follow the session history *)
  Theorem uplink_header s cf r data fport confirmed s' fcnt frame :
    prepare_buffer enc mac_fn s cf r data fport confirmed = Val (s', fcnt, frame) ->
    exists d,
      spec_data enc mac_fn d (ss_nwkskey s) (Some (ss_appskey s)) = Some frame /\
      df_type d = (if confirmed then ConfirmedUp else UnconfirmedUp) /\
      df_addr d = ss_devaddr s /\ df_fcnt d = ss_fcnt_up s /\
      (df_adr d, df_adr_ack_req d, df_ack d)
      = spec_bits (abs s cf) (match next_lower_datarate r (cf_data_rate cf) with Some _ => true | None => false end) /\
      abs s' cf = {| a_on := cf_adr cf; a_since := ss_adr_ack_cnt s; a_ack := false; a_dr := cf_data_rate cf |}.
  Proof.
    unfold prepare_buffer.
    destruct ((fport =? 0) && negb (Nat.eqb (length data) 0)); [intros H; discriminate|].
    set (d := {| df_type := if confirmed then ConfirmedUp else UnconfirmedUp; df_addr := ss_devaddr s; df_adr := cf_adr cf;
                 df_adr_ack_req := cf_adr cf && (c_adr_ack_limit <=? ss_adr_ack_cnt s) &&
                                   match next_lower_datarate r (cf_data_rate cf) with Some _ => true | None => false end;
                 df_ack := ss_owed_ack s; df_f_pending := false; df_fcnt := ss_fcnt_up s;
                 df_f_opts := if fport =? 0 then [] else ss_pending s;
                 df_payload := if fport =? 0 then PMac (ss_pending s) else PData fport data |}).
    destruct (build_data enc mac_fn d (ss_nwkskey s) (Some (ss_appskey s)) (repeat 0 256)) as [[buf len]|e] eqn:Eb;
      [|intros H; discriminate].
    destruct (Nat.ltb len 256) eqn:El; [|intros H; discriminate].
    apply Nat.ltb_lt in El.
    intros H. injection H as <- <- <-.
    exists d. 
    destruct (spec_data enc mac_fn d (ss_nwkskey s) (Some (ss_appskey s))) as [f|] eqn:Es.
    - destruct (Nat.le_gt_cases (length f) 256) as [Hf|Hf].
      + pose proof (build_data_spec enc enc mac_fn enc_len mac_len d (ss_nwkskey s) (Some (ss_appskey s)) (repeat 0 256) f Es
                      ltac:(lia) ltac:(rewrite repeat_length; lia)) as Hb.
        rewrite Hb in Eb. injection Eb as <- <-.
        rewrite firstn_app_exact. repeat split; reflexivity.
      + pose proof (build_data_buffer_too_short enc enc mac_fn enc_len mac_len d (ss_nwkskey s) (Some (ss_appskey s)) (repeat 0 256) f Es
                      ltac:(rewrite repeat_length; lia)) as Hb.
        rewrite Hb in Eb. discriminate.
    - pose proof (build_data_forbidden enc mac_fn d (ss_nwkskey s) (Some (ss_appskey s)) (repeat 0 256) Es) as Hb.
      rewrite Hb in Eb. discriminate.
  Qed.
End AdrFrames.
