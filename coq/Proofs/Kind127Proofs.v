(* Proofs/Kind127Proofs.v -- the SX127x driver's primitives against the chip-side monitor, for both readings of the context flag x_lora
   (x_lora = true: the selection of the LoRa modem, item ILoraMode, counts among the things every TX / RX / CAD start depends on; this holds
   since the wake-up path re-asserts sleep | LoRa, /repo fix "SX127x ensure_ready selects the LoRa modem"). *)
From Coq Require Import ZArith NArith List Bool Lia Arith.
From LoraV Require Import Base.Bytes Gen.PhyTables Model.PhyCore Model.Sx126x Model.Sx127x Model.Toa Model.LoraDrv Model.LoraKinds
  Spec.ChipMon Proofs.PhyHoare Proofs.PlainProgs Proofs.KindSpec Proofs.LoraInv Proofs.Kind126Proofs.
Import ListNotations.
Local Open Scope nat_scope.

Ltac expose7 :=
  cbv beta iota zeta delta [act1 iv delay spi_write spi_write_payload spi_read spi_read_status wreg rreg
    set_buffer_base_127 init_lora_127 set_sync_127 set_standby_127 set_sleep_127 reset_127 set_ocp set_tx_power_1276 set_tx_power_1272
    set_tx_power_127 set_mod_1276 set_mod_1272 set_mod_127 set_pkt_127 set_channel_127 set_payload_127 do_tx_127 clear_irq_127
    set_symb_timeout_127 do_rx_127 get_rx_payload_127 rssi_offset_127 pkt_status_127 get_rssi_127 do_cad_127 set_irq_127
    get_irq_state_127 process_irq_127]; cbn [bind attempt].
Ltac plain7 := expose7; repeat (pstep; expose7).

Section K127.
  Variables (tc dc li lo : bool).
  Definition x127 : mctx := {| x_fam := K127; x_tcxo := tc; x_dcdc := dc; x_listen := li; x_lora := lo |}.
  Notation x := x127.

  Lemma power_plain7 h q p md istx : plainP x plain_err [IPaConfig] [] (k_power (kind127 h q) p md istx).
  Proof. cbn [k_power kind127]. plain7. Qed.
  Lemma irq_plain7 h q m : plainP x pin_only [IIrqMask; IDioMap] [] (k_irq (kind127 h q) m).
  Proof. cbn [k_irq kind127]. plain7. Qed.
  Lemma calimg_plain7 h q f : plainP x plain_err [] [] (k_calimg (kind127 h q) f).
  Proof. cbn [k_calimg kind127]. plain7. Qed.
  Lemma mod_plain7 h q md : plainP x plain_err [IMod; IMod2] [] (k_mod (kind127 h q) md).
  Proof. cbn [k_mod kind127]. plain7. Qed.
  Lemma pkt_plain7 h q pk : plainP x plain_err [IPre; IInvIq] [] (k_pkt (kind127 h q) pk).
  Proof. cbn [k_pkt kind127]. plain7. Qed.
  Lemma chan_plain7 h q f : plainP x plain_err [IFreq; IFreqMid; IFreqLsb] [] (k_chan (kind127 h q) f).
  Proof. cbn [k_chan kind127]. plain7. Qed.
  Lemma payload_plain7 h q p : plainP x plain_err [IPayLen] [] (k_payload (kind127 h q) p).
  Proof. cbn [k_payload kind127]. plain7. Qed.
  Lemma sync_plain7 h q sw : plainP x plain_err [ISync] [] (k_sync (kind127 h q) sw).
  Proof. cbn [k_sync kind127]. plain7. Qed.
  Lemma rxpayload_plain7 h q pk n : plainP x plain_err [] [] (k_rxpayload (kind127 h q) pk n).
  Proof. cbn [k_rxpayload kind127]. plain7. Qed.
  Lemma status_plain7 h q : plainP x plain_err [] [] (k_status (kind127 h q)).
  Proof. cbn [k_status kind127]. plain7. Qed.
  Definition it_init127 : list item := [ISync; ITxBase; IRxBase] ++ (if tc then [ITcxo] else []).
  Lemma init_plain7 h q sw : h_tcxo h = tc -> plainP x plain_err it_init127 [] (k_init (kind127 h q) sw).
  Proof. intros HT. cbn [k_init kind127]. unfold it_init127, init_lora_127. rewrite HT. destruct (h_variant h) eqn:HV, tc; plain7. Qed.

  (* ---- RegOpMode writes *)
  Lemma ev7_w1 m b : b <> [] -> mon_event x m (TSpi [TW b]) = spi127 x m b [].
  Proof. intros NE. cbn [mon_event seg_written seg_read x_fam x127]. rewrite app_nil_r. destruct b; [contradiction|reflexivity]. Qed.
  Definition lora_upd (m : mon) (from_or_to_sleep : bool) : mon :=
    if from_or_to_sleep then with_valid m (upd (valid m) ILoraMode true) else m.
  Lemma lora_upd_facts m b : okm m -> okm (lora_upd m b) /\ le_valid m (lora_upd m b) /\ cm (lora_upd m b) = cm m /\ awake (lora_upd m b) = awake m.
  Proof.
    intros O. destruct b; cbn [lora_upd]; [|repeat split; try apply O; intros i Hi; exact Hi].
    split; [exact O|]. split; [|split; reflexivity]. intros i Hi. cbn. unfold upd. destruct (item_eqb i ILoraMode); [reflexivity|exact Hi].
  Qed.
  (* RegOpMode <- LoRa | mode, for the modes the driver uses *)
  Lemma opmode_write m (v : N) (new : cmode) : opmode127 v = new -> (N.land v 128 =? 0)%N = false ->
    spi127 x m [N.lor s7_Register_RegOpMode 128; v] [] =
    with_mode (match new with
               | CTx => start x (lora_upd m (cmode_eqb (cm m) CSleep || cmode_eqb new CSleep)) StTx
               | CRxc | CRx1 => start x (lora_upd m (cmode_eqb (cm m) CSleep || cmode_eqb new CSleep)) StRx
               | CCad => start x (lora_upd m (cmode_eqb (cm m) CSleep || cmode_eqb new CSleep)) StCad
               | _ => lora_upd m (cmode_eqb (cm m) CSleep || cmode_eqb new CSleep) end) new.
  Proof.
    intros EN EL. unfold spi127. change (N.land (nthN [N.lor s7_Register_RegOpMode 128; v] 0) 127 =? 0)%N with false.
    change (negb (N.land (nthN [N.lor s7_Register_RegOpMode 128; v] 0) 128 =? 0)%N) with true. cbn [andb negb tl wrs127].
    unfold wr127. change (N.land (nthN [N.lor s7_Register_RegOpMode 128; v] 0) 127 =? 1)%N with true. cbv iota. rewrite EN, EL. cbn [negb]. unfold lora_upd.
    destruct (cmode_eqb (cm m) CSleep || cmode_eqb new CSleep); reflexivity.
  Qed.

  Lemma standby_ok7 h q : forall (Q : unit + rerr -> drv -> mon -> Prop) d m, okm m -> (x_fam x = K126 -> ready m) ->
      (forall r m', okm m' -> le_valid m m' -> (is_ok r -> cm m' = CStby) -> (cm m' = cm m \/ cm m' = CStby) -> pin_err r -> Q r d m') ->
      wp x (k_standby (kind127 h q)) Q d m.
  Proof.
    intros Q d m O _ HQ. cbn [k_standby kind127]. unfold set_standby_127, wreg, spi_write, act1, iv. cbn [bind wp].
    split; [apply HQ; [exact O|apply le_refl|intros []|left; reflexivity|apply pin_spi]|].
    intros ts got Hm. apply segs_match_w1 in Hm. destruct Hm as [-> ->]. rewrite ev7_w1 by discriminate.
    rewrite (opmode_write m _ CStby) by reflexivity. cbv iota.
    destruct (lora_upd_facts m (cmode_eqb (cm m) CSleep || cmode_eqb CStby CSleep) O) as [O1 [L1 [C1 A1]]].
    split; [apply HQ; [exact O1|exact L1|intros []|right; reflexivity|apply pin_busy]|].
    apply HQ; [exact O1|exact L1|reflexivity|right; reflexivity|apply pin_okr].
  Qed.

  Lemma sleep_ok7 h q : forall warm (Q : unit + rerr -> drv -> mon -> Prop) d m, okm m -> (x_fam x = K126 -> ready m) ->
      (forall r m', (is_ok r -> okm m' /\ cm m' = CSleep /\ (warm = true -> le_valid m m')) -> (~ is_ok r -> m' = m) -> pin_err r -> Q r d m') ->
      wp x (k_sleep (kind127 h q) warm) Q d m.
  Proof.
    intros warm Q d m O _ HQ. cbn [k_sleep kind127]. unfold set_sleep_127, spi_write, act1, iv. cbn [bind wp].
    split; [apply HQ; [intros []|reflexivity|apply pin_spi]|].
    intros ts got Hm. apply segs_match_w1 in Hm. destruct Hm as [-> ->]. rewrite ev7_w1 by discriminate.
    change (mon_event x m (TIv IvSwOff)) with m. rewrite (opmode_write m _ CSleep) by reflexivity. cbv iota.
    destruct (lora_upd_facts m (cmode_eqb (cm m) CSleep || cmode_eqb CSleep CSleep) O) as [O1 [L1 [C1 A1]]].
    apply HQ; [|intros H; exfalso; apply H; exact I|apply pin_okr]. intros _. split; [exact O1|]. split; [reflexivity|intros _; exact L1].
  Qed.

  Lemma reset_ok7 h q : forall (Q : unit + rerr -> drv -> mon -> Prop) d m, okm m ->
      (forall r m', okm m' -> (cm m' = CStby \/ (cm m' = CSleep /\ x_fam x = K127)) -> (is_ok r -> lora_sel x m') -> pin_err r -> Q r d m') ->
      wp x (k_reset (kind127 h q)) Q d m.
  Proof.
    intros Q d m O HQ. cbn [k_reset kind127]. unfold reset_127, set_sleep_127, spi_write, act1, iv. cbn [bind wp].
    set (m0 := mon_event x (mon_event x m (TIv IvReset)) (TIv IvSwOff)).
    assert (O0 : okm m0) by exact O. assert (C0 : cm m0 = CStby) by reflexivity.
    split; [apply HQ; [exact O0|left; exact C0|intros []|apply pin_spi]|].
    intros ts got Hm. apply segs_match_w1 in Hm. destruct Hm as [-> ->]. rewrite ev7_w1 by discriminate.
    rewrite (opmode_write m0 _ CSleep) by reflexivity. cbv iota.
    replace (cmode_eqb (cm m0) CSleep || cmode_eqb CSleep CSleep) with true by (destruct (cmode_eqb (cm m0) CSleep); reflexivity).
    destruct (lora_upd_facts m0 true O0) as [O1 [L1 [C1 A1]]].
    apply HQ; [exact O1|right; split; reflexivity|intros _ _ _; cbn; unfold upd; reflexivity|apply pin_okr].
  Qed.

  Lemma ensure_ok7 h q : forall dm (Q : unit + rerr -> drv -> mon -> Prop) d m, okm m ->
      (cm m = CSleep -> dm = MSleep \/ x_fam x = K127) -> (cm m = CDuty -> awake m = false -> is_duty dm = true) ->
      (forall r m', okm m' -> le_valid m m' -> (cm m' = cm m \/ (cm m = CSleep /\ cm m' = CStby) \/ (dm = MSleep /\ cm m' = CSleep)) ->
                    (is_ok r -> x_fam x = K126 \/ (ready m /\ dm <> MSleep) -> ready m') ->
                    (is_ok r -> x_fam x = K127 -> dm = MSleep -> valid m' ILoraMode = true) -> pin_err r -> Q r d m') ->
      wp x (k_ensure_ready (kind127 h q) dm) Q d m.
  Proof.
    intros dm Q d m O _ _ HQ. cbn [k_ensure_ready kind127]. unfold ensure_ready_127.
    destruct (rmode_eqb dm MSleep) eqn:ES.
    - (* the driver believes the chip asleep: sleep | LoRa is written (again) *)
      assert (D : dm = MSleep) by (destruct dm as [| | |[n| |a b]| |]; try discriminate ES; reflexivity). subst dm.
      unfold spi_write, act1. cbn [wp].
      split; [apply HQ; [exact O|apply le_refl|left; reflexivity|intros []|intros []|apply pin_spi]|].
      intros ts got Hm. apply segs_match_w1 in Hm. destruct Hm as [-> ->]. rewrite ev7_w1 by discriminate.
      rewrite (opmode_write m _ CSleep) by reflexivity. cbv iota.
      replace (cmode_eqb (cm m) CSleep || cmode_eqb CSleep CSleep) with true by (destruct (cmode_eqb (cm m) CSleep); reflexivity).
      destruct (lora_upd_facts m true O) as [O1 [L1 [C1 A1]]].
      apply HQ; [exact O1|exact L1|right; right; split; reflexivity| | |apply pin_okr].
      + intros _ [F|[_ X]]; [discriminate F|exfalso; apply X; reflexivity].
      + intros _ _ _. cbn. unfold upd. reflexivity.
    - assert (D : dm <> MSleep) by (intros ->; discriminate ES).
      replace (match dm with MSleep => true | _ => false end) with false by (destruct dm as [| | |[n| |a b]| |]; try reflexivity; discriminate ES).
      cbn [wp]. apply HQ; [exact O|apply le_refl|left; reflexivity| |intros _ _ X; contradiction|apply pin_okr].
      intros _ [F|[R _]]; [discriminate F|exact R].
  Qed.

  Lemma start_same m k : forallb (valid m) (need x k) = true -> start x m k = m.
  Proof. intros V. unfold start. rewrite V. reflexivity. Qed.
  Lemma not_sleep_eqb m : cm m <> CSleep -> cmode_eqb (cm m) CSleep = false.
  Proof. intros H. destruct (cm m); try reflexivity. contradiction. Qed.

  Lemma tx_ok7 h q : forall (Q : unit + rerr -> drv -> mon -> Prop) d m, okm m -> ready m -> forallb (valid m) (need x StTx) = true ->
      (forall r m', okm m' -> le_valid m m' -> (is_ok r -> cm m' = CTx) -> (cm m' = cm m \/ cm m' = CTx) -> pin_err r -> Q r d m') ->
      wp x (k_tx (kind127 h q)) Q d m.
  Proof.
    intros Q d m O [R _] V HQ. cbn [k_tx kind127]. unfold do_tx_127, wreg, spi_write, act1, iv. cbn [bind wp]. change (mon_event x m (TIv IvSwTx)) with m.
    split; [apply HQ; [exact O|apply le_refl|intros []|left; reflexivity|apply pin_spi]|].
    intros ts got Hm. apply segs_match_w1 in Hm. destruct Hm as [-> ->]. rewrite ev7_w1 by discriminate.
    rewrite (opmode_write m _ CTx) by reflexivity. cbv iota. rewrite (not_sleep_eqb m R). cbn [cmode_eqb orb lora_upd]. rewrite (start_same m StTx V).
    split; [apply HQ; [exact O|apply le_with_mode|intros []|right; reflexivity|apply pin_busy]|].
    apply HQ; [exact O|apply le_with_mode|reflexivity|right; reflexivity|apply pin_okr].
  Qed.

  (* ---- starting a reception / CAD *)
  Lemma iv_plain7 c : c <> IvReset -> c <> IvIrq -> plainP x pin_only [] [] (iv c).
  Proof. intros N1 N2. unfold iv, act1. apply PIv; [exact N1|exact N2|intros r; apply PRet; intros i []|intros _; apply PFail; right; reflexivity]. Qed.
  Lemma symb_plain7 n : plainP x pin_only [] [] (set_symb_timeout_127 n).
  Proof. plain7. Qed.
  Lemma wreg_plain7 reg v : plain127 [N.lor reg 128; v] = true -> plainP x pin_only [] [] (wreg reg v).
  Proof.
    intros P. unfold wreg, spi_write, act1, iv. apply PSpi; [discriminate|exact P| |apply PFail; left; reflexivity].
    intros r. destruct (io x _); (apply PIv; [discriminate|discriminate|intros r0; apply PRet; intros j []|intros _; apply PFail; right; reflexivity]).
  Qed.

  Lemma final_start7 (v : N) (k : startkind) (target : cmode) (Q : unit + rerr -> drv -> mon -> Prop) d m0 m :
    opmode127 v = target -> (N.land v 128 =? 0)%N = false -> target <> CSleep ->
    (forall mm, match target with CTx => start x mm StTx | CRxc | CRx1 => start x mm StRx | CCad => start x mm StCad | _ => mm end = start x mm k) ->
    okm m -> ready m -> prog_le m0 m -> forallb (valid m) (need x k) = true ->
    (forall r m', okm m' -> le_valid m0 m' -> (is_ok r -> cm m' = target) -> (cm m' = cm m0 \/ cm m' = target) -> pin_err r -> Q r d m') ->
    wp x (wreg s7_Register_RegOpMode v) Q d m.
  Proof.
    intros ET EL NT EK O [R _] L V HQ. destruct L as [L1 [L2 [L3 L4]]]. unfold wreg, spi_write, act1, iv. cbn [wp].
    split; [apply HQ; [exact O|exact L3|intros []|left; exact L1|apply pin_spi]|].
    intros ts got Hm. apply segs_match_w1 in Hm. destruct Hm as [-> ->]. rewrite ev7_w1 by discriminate.
    rewrite (opmode_write m v target ET EL). rewrite (not_sleep_eqb m R).
    assert (NS : cmode_eqb target CSleep = false) by (destruct target; try reflexivity; contradiction). rewrite NS. cbn [orb lora_upd].
    rewrite EK. rewrite (start_same m k V).
    split; [apply HQ; [exact O|exact L3|intros []|right; reflexivity|apply pin_busy]|].
    apply HQ; [exact O|exact L3|reflexivity|right; reflexivity|apply pin_okr].
  Qed.

  Lemma rx_ok7 h q : forall rm (Q : unit + rerr -> drv -> mon -> Prop) d m, okm m -> ready m -> forallb (valid m) (need x StRx) = true ->
      (forall r m', okm m' -> le_valid m m' -> (is_ok r -> cm m' = rx_target rm) -> (cm m' = cm m \/ cm m' = rx_target rm) ->
                    (x_fam x = K127 -> cm m' = CDuty -> cm m = CDuty) ->
                    (forall e, r = inr e -> e = ESpi \/ e = EBusy \/ (e = EDutyCycleUnsupported /\ cm m' = cm m /\ x_fam x = K127 /\ is_duty (MRx rm) = true)) -> Q r d m') ->
      wp x (k_rx (kind127 h q) rm) Q d m.
  Proof.
    intros rm Q d m O R V HQ. cbn [k_rx kind127]. unfold do_rx_127.
    destruct rm as [n| |a b]; [| |cbn [wp]; apply HQ; [exact O|apply le_refl|intros []|left; reflexivity|intros _ E; exact E|]].
    3:{ intros e E. injection E as <-. right. right. repeat split; reflexivity. }
    all: cbv iota beta.
    all: assert (FAILQ : forall e m', prog_le m m' -> pin_only e -> Q (inr e) d m')
      by (intros e m' [L1 [L2 [L3 L4]]] Pe; apply HQ; [exact L4|exact L3|intros []|left; exact L1|intros _ E; rewrite L1 in E; exact E|];
          intros e0 E0; injection E0 as <-; destruct Pe as [-> | ->]; [left|right; left]; reflexivity).
    all: apply seq_plain with (E := pin_only) (want := []); [apply plain_spec_of, iv_plain7; discriminate|exact O|exact R| |exact FAILQ].
    all: intros [] m1 L1 _; apply seq_plain with (E := pin_only) (want := []); [apply plain_spec_of, symb_plain7|apply L1|eapply prog_le_ready; eassumption| |
           intros e m' L Pe; apply FAILQ; [eapply prog_le_trans; eassumption|exact Pe]].
    all: intros [] m2 L2 _; pose proof (prog_le_trans _ _ _ L1 L2) as L12;
         apply seq_plain with (E := pin_only) (want := []); [apply plain_spec_of, wreg_plain7; destruct (h_rx_boost h); reflexivity|apply L12|eapply prog_le_ready; eassumption| |
           intros e m' L Pe; apply FAILQ; [eapply prog_le_trans; eassumption|exact Pe]].
    all: intros [] m3 L3 _; pose proof (prog_le_trans _ _ _ L12 L3) as L13;
         apply seq_plain with (E := pin_only) (want := []); [apply plain_spec_of, wreg_plain7; reflexivity|apply L13|eapply prog_le_ready; eassumption| |
           intros e m' L Pe; apply FAILQ; [eapply prog_le_trans; eassumption|exact Pe]].
    all: intros [] m4 L4 _; pose proof (prog_le_trans _ _ _ L13 L4) as L14;
         apply seq_plain with (E := pin_only) (want := []); [apply plain_spec_of, wreg_plain7; reflexivity|apply L14|eapply prog_le_ready; eassumption| |
           intros e m' L Pe; apply FAILQ; [eapply prog_le_trans; eassumption|exact Pe]].
    all: intros [] m5 L5 _; pose proof (prog_le_trans _ _ _ L14 L5) as L15;
         assert (V5 : forallb (valid m5) (need x StRx) = true) by (eapply forallb_le; [apply L15|exact V]).
    - eapply (final_start7 _ StRx CRx1); [reflexivity|reflexivity|discriminate|intros mm; reflexivity|apply L15|eapply prog_le_ready; eassumption|exact L15|exact V5|].
      intros r m' O' L' S' M' P'. apply HQ; try assumption; [intros _ E; destruct M' as [M|M]; [rewrite M in E; exact E|rewrite M in E; discriminate E]|].
      intros e E. destruct (P' e E) as [-> | ->]; [left|right; left]; reflexivity.
    - eapply (final_start7 _ StRx CRxc); [reflexivity|reflexivity|discriminate|intros mm; reflexivity|apply L15|eapply prog_le_ready; eassumption|exact L15|exact V5|].
      intros r m' O' L' S' M' P'. apply HQ; try assumption; [intros _ E; destruct M' as [M|M]; [rewrite M in E; exact E|rewrite M in E; discriminate E]|].
      intros e E. destruct (P' e E) as [-> | ->]; [left|right; left]; reflexivity.
  Qed.

  Definition it_cad127 : list item := ([ISync; IMod; IMod2; IIrqMask; IDioMap; IFreq; IFreqMid; IFreqLsb] ++ (if lo then [ILoraMode] else [])) ++ (if tc then [ITcxo] else []).
  Lemma cad_ok7 h q : forall md (Q : unit + rerr -> drv -> mon -> Prop) d m, (md_sf md < 8)%N -> okm m -> ready m -> valid_all m it_cad127 ->
      (forall r m', okm m' -> le_valid m m' -> (is_ok r -> cm m' = CCad) -> (cm m' = cm m \/ cm m' = CCad) -> pin_err r -> Q r d m') ->
      wp x (k_cad (kind127 h q) md) Q d m.
  Proof.
    intros md Q d m _ O R V HQ. cbn [k_cad kind127]. unfold do_cad_127.
    assert (FAILQ : forall e m', prog_le m m' -> pin_only e -> Q (inr e) d m').
    { intros e m' [L1 [L2 [L3 L4]]] Pe. apply HQ; [exact L4|exact L3|intros []|left; exact L1|]. intros e0 E0. injection E0 as <-. exact Pe. }
    apply seq_plain with (E := pin_only) (want := []); [apply plain_spec_of, iv_plain7; discriminate|exact O|exact R| |exact FAILQ].
    intros [] m1 L1 _. apply seq_plain with (E := pin_only) (want := []); [apply plain_spec_of, wreg_plain7; destruct (h_rx_boost h); reflexivity|apply L1|eapply prog_le_ready; eassumption| |].
    2:{ intros e m' L Pe. apply FAILQ; [eapply prog_le_trans; eassumption|exact Pe]. }
    intros [] m2 L2 _. pose proof (prog_le_trans _ _ _ L1 L2) as L12.
    eapply (final_start7 _ StCad CCad); [reflexivity|reflexivity|discriminate|intros mm; reflexivity|apply L12|eapply prog_le_ready; eassumption|exact L12| |exact HQ].
    apply forallb_forall. intros i Hi. assert (VV : valid_all m2 it_cad127) by (eapply valid_all_le; [apply L12|exact V]). apply VV.
    unfold need in Hi. cbn [x_fam x127 x_tcxo x_lora] in Hi. unfold it_cad127. exact Hi.
  Qed.

  (* ---- reading the interrupt flags *)
  Definition irq_effect7 (m : mon) (f : N) : mon :=
    let has b := negb (N.land f b =? 0)%N in
    match cm m with
    | CTx => if has 0x08%N then with_mode m CStby else m
    | CRx1 => if has 0xC0%N then with_mode m CStby else m
    | CCad => if has 0x04%N then with_mode m CStby else m
    | _ => m
    end.
  Lemma irq_effect7_facts m f : okm m -> let m' := irq_effect7 m f in
    okm m' /\ le_valid m m' /\ awake m' = awake m /\ (cm m' = cm m \/ cm m' = CStby).
  Proof.
    intros O. unfold irq_effect7. destruct (cm m) eqn:E; cbv zeta;
      try match goal with |- context [if ?b then _ else _] => destruct b end;
      (split; [exact O|]); (split; [first [apply le_refl|apply le_with_mode]|]); (split; [reflexivity|]);
      first [left; cbn; congruence|right; reflexivity].
  Qed.
  Lemma segs_match_r1 b ts got : segs_match [W b; R 1] ts got -> exists f, ts = [TW b; TR [f]] /\ got = [f].
  Proof.
    intros H. inversion H as [|b0 r0 ts0 got0 H1|]; subst. inversion H1 as [| |n1 r1 ts1 got1 bs1 Hl1 H2]; subst. inversion H2; subst.
    destruct bs1 as [|f [|? ?]]; try discriminate Hl1. exists f. split; reflexivity.
  Qed.
  Lemma clear_step7 (clear : bool) (Q : unit + rerr -> drv -> mon -> Prop) d m :
    (forall r, r = inl tt \/ r = inr ESpi \/ r = inr EBusy -> Q r d m) -> wp x (if clear then clear_irq_127 else Ret tt) Q d m.
  Proof.
    intros HQ. destruct clear; [|cbn [wp]; apply HQ; left; reflexivity]. unfold clear_irq_127, wreg, spi_write, act1, iv. cbn [wp].
    split; [apply HQ; right; left; reflexivity|]. intros ts got Hm. apply segs_match_w1 in Hm. destruct Hm as [-> ->]. rewrite ev7_w1 by discriminate.
    change (spi127 x m [N.lor s7_Register_RegIrqFlags 128; 255%N] []) with m.
    split; [apply HQ; right; right; reflexivity|apply HQ; left; reflexivity].
  Qed.

  Lemma procirq_ok7 h q : forall dm clear (Q : irqstate + rerr -> drv -> mon -> Prop) d m, okm m -> cm m <> CSleep ->
      (cm m = CDuty -> is_single dm = false) ->
      (forall r m', okm m' -> le_valid m m' -> (cm m' = cm m \/ cm m' = CStby) ->
                    (forall c, r = inl (IrqDone c) -> oneshot dm = true -> Some (cm m) = active_of dm -> cm m' = CStby) ->
                    (r = inl IrqPreamble -> exists rm, dm = MRx rm) ->
                    (forall e, r = inr e -> e <> ECancelled) -> Q r d m') ->
      wp x (k_procirq (kind127 h q) dm clear) Q d m.
  Proof.
    intros dm clear Q d m O NS SD HQ. cbn [k_procirq kind127].
    set (F0 := fun st : irqstate + rerr => (if clear then clear_irq_127 else Ret tt) ;;; match st with inl v => Ret v | inr e => Fail e end).
    assert (REST : forall (st : irqstate + rerr) m1, okm m1 -> le_valid m m1 -> (cm m1 = cm m \/ cm m1 = CStby) ->
              (forall c, st = inl (IrqDone c) -> oneshot dm = true -> Some (cm m) = active_of dm -> cm m1 = CStby) ->
              (st = inl IrqPreamble -> exists rm, dm = MRx rm) -> (forall e, st = inr e -> e <> ECancelled) ->
              wp x (F0 st) Q d m1).
    { intros st m1 O1 L1 M1 D1 P1 E1. unfold F0. apply wp_bind. apply clear_step7. intros r Hr.
      destruct Hr as [-> |[-> | ->]].
      - destruct st as [v|e]; cbn [wp]; apply HQ; assumption.
      - apply HQ; [exact O1|exact L1|exact M1|intros c E; discriminate E|intros E; discriminate E|intros e E; injection E as <-; discriminate].
      - apply HQ; [exact O1|exact L1|exact M1|intros c E; discriminate E|intros E; discriminate E|intros e E; injection E as <-; discriminate]. }
    assert (READ : forall (A : Type) (k : N -> prog A) (QQ : A + rerr -> drv -> mon -> Prop),
              QQ (inr ESpi) d m -> (forall f, QQ (inr EBusy) d (irq_effect7 m f)) -> (forall f, wp x (k f) QQ d (irq_effect7 m f)) ->
              wp x (f <- rreg s7_Register_RegIrqFlags ;; k f) QQ d m).
    { intros A k QQ H1 H2 H3. unfold rreg, spi_read, act1, iv. cbn [bind wp]. split; [exact H1|].
      intros ts got Hm. apply segs_match_r1 in Hm. destruct Hm as [f [-> ->]].
      assert (EV : mon_event x m (TSpi [TW [N.land s7_Register_RegIrqFlags 127]; TR [f]]) = irq_effect7 m f) by reflexivity.
      rewrite EV. split; [apply H2|]. cbn [nthN nth]. apply H3. }
    destruct dm as [| | |[n| |a b]| |].
    6:{ (* duty-cycled reception: the driver's get_irq_state is unimplemented (todo!()) once the flags are read *)
        change (wp x (bind (attempt (rreg s7_Register_RegIrqFlags ;;; (Fail EPanic : prog irqstate))) F0) Q d m). clearbody F0.
        apply wp_bind. apply wp_attempt. apply READ.
        - cbn [attempt_post]. apply (REST (inr ESpi) m); [exact O|apply le_refl|left; reflexivity|intros c E; discriminate E|intros E; discriminate E|intros e E; injection E as <-; discriminate].
        - intros f. destruct (irq_effect7_facts m f O) as [O1 [L1 [A1 M1]]]. cbn [attempt_post].
          apply (REST (inr EBusy)); [exact O1|exact L1|exact M1|intros c E; discriminate E|intros E; discriminate E|intros e E; injection E as <-; discriminate].
        - intros f. destruct (irq_effect7_facts m f O) as [O1 [L1 [A1 M1]]]. cbn [wp attempt_post].
          apply HQ; [exact O1|exact L1|exact M1|intros c E; discriminate E|intros E; discriminate E|intros e E; injection E as <-; discriminate]. }
    all: match goal with |- wp _ (process_irq_127 ?im _) _ _ _ => change (wp x (bind (attempt (get_irq_state_127 im)) F0) Q d m) end; clearbody F0;
      unfold get_irq_state_127; apply wp_bind; apply wp_attempt; apply READ;
      [ cbn [attempt_post]; apply (REST (inr ESpi) m); [exact O|apply le_refl|left; reflexivity|intros c E; discriminate E|intros E; discriminate E|intros e E; injection E as <-; discriminate]
      | intros f; destruct (irq_effect7_facts m f O) as [O1 [L1 [A1 M1]]]; cbn [attempt_post];
        apply (REST (inr EBusy)); [exact O1|exact L1|exact M1|intros c E; discriminate E|intros E; discriminate E|intros e E; injection E as <-; discriminate]
      | intros f; destruct (irq_effect7_facts m f O) as [O1 [L1 [A1 M1]]]; cbn [irq_of];
        repeat match goal with |- context [is_set ?a f] => destruct (is_set a f) eqn:? end; cbn [wp attempt_post];
        apply REST; try exact O1; try exact L1; try exact M1;
        try (intros c E; discriminate E); try (intros E; discriminate E); try (intros e E; injection E as <-; discriminate);
        try (intros E; eexists; reflexivity) ].
    all: intros c _ _ Ac; cbn in Ac; injection Ac as Ac; unfold irq_effect7; rewrite Ac;
      match goal with H : is_set _ _ = true |- _ =>
        first [rewrite (is_set_land _ _ 0x08%N 3%N H) by reflexivity|rewrite (is_set_land _ _ 0xC0%N 6%N H) by reflexivity|rewrite (is_set_land _ _ 0x04%N 2%N H) by reflexivity] end;
      reflexivity.
  Qed.

  Lemma plain_weak A want (p : prog A) : plain_spec x plain_err want p -> weak_spec x want p.
  Proof.
    intros HP Q d m O R HQ. apply HP; [exact O|exact R|]. intros r m' [L1 [L2 [L3 L4]]] V E. apply HQ; try assumption.
    intros LS F E'. apply L3, LS; assumption.
  Qed.

  Definition kind127_ok h q (HT : h_tcxo h = tc) : kind_ok x (kind127 h q).
  Proof.
    refine {| it_init := it_init127; it_power := [IPaConfig]; it_mod := [IMod; IMod2]; it_pkt := [IPre; IInvIq]; it_chan := [IFreq; IFreqMid; IFreqLsb];
              it_irq := [IIrqMask; IDioMap]; it_payload := [IPayLen]; it_sync := [ISync]; it_cad := it_cad127 |}.
    - intros sw. apply plain_weak, plain_spec_of, init_plain7, HT.
    - intros p md istx. apply plain_spec_of, power_plain7.
    - intros m. apply plain_spec_of, irq_plain7.
    - intros f. apply plain_spec_of, calimg_plain7.
    - intros md. apply plain_spec_of, mod_plain7.
    - intros pk. apply plain_spec_of, pkt_plain7.
    - intros f. apply plain_spec_of, chan_plain7.
    - intros p. apply plain_spec_of, payload_plain7.
    - intros sw. apply plain_spec_of, sync_plain7.
    - intros pk n. apply plain_spec_of, rxpayload_plain7.
    - apply plain_spec_of, status_plain7.
    - apply ensure_ok7.
    - apply standby_ok7.
    - apply sleep_ok7.
    - apply reset_ok7.
    - apply tx_ok7.
    - apply rx_ok7.
    - apply cad_ok7.
    - apply procirq_ok7.
    - (* cover_tx *) intros m V LS. apply forallb_forall. intros i Hi. unfold need, no_listen in Hi. cbn [x_fam x127 x_dcdc x_tcxo x_listen x_lora] in Hi.
      apply in_app_or in Hi. destruct Hi as [Hi|Hi]; [apply in_app_or in Hi; destruct Hi as [Hi|Hi]|].
      + apply V. unfold it_init127. destruct tc; cbn [app In] in Hi |- *; tauto.
      + destruct lo eqn:EL; [|destruct Hi]. destruct Hi as [<-|[]]. apply LS; [reflexivity|exact EL].
      + apply V. unfold it_init127. destruct tc; cbn [app In] in Hi |- *; tauto.
    - (* cover_rx *) intros m V LS. apply forallb_forall. intros i Hi. unfold need, no_listen in Hi. cbn [x_fam x127 x_dcdc x_tcxo x_listen x_lora] in Hi.
      apply in_app_or in Hi. destruct Hi as [Hi|Hi]; [apply in_app_or in Hi; destruct Hi as [Hi|Hi]|].
      + apply V. unfold it_init127. destruct tc; cbn [app In] in Hi |- *; tauto.
      + destruct lo eqn:EL; [|destruct Hi]. destruct Hi as [<-|[]]. apply LS; [reflexivity|exact EL].
      + apply V. unfold it_init127. destruct tc; cbn [app In] in Hi |- *; tauto.
    - (* cover_cad *) intros m V LS i Hi. unfold it_cad127 in Hi.
      apply in_app_or in Hi. destruct Hi as [Hi|Hi]; [apply in_app_or in Hi; destruct Hi as [Hi|Hi]|].
      + apply V. unfold it_init127. destruct tc; cbn [app In] in Hi |- *; tauto.
      + destruct lo eqn:EL; [|destruct Hi]. destruct Hi as [<-|[]]. apply LS; [reflexivity|exact EL].
      + apply V. unfold it_init127. destruct tc; cbn [app In] in Hi |- *; tauto.
    - (* cover_listen *) intros m LI V LS. apply forallb_forall. intros i Hi. unfold need in Hi. cbn [x_fam x127 x_dcdc x_tcxo x_listen x_lora] in Hi, LI.
      rewrite LI in Hi.
      apply in_app_or in Hi. destruct Hi as [Hi|Hi]; [apply in_app_or in Hi; destruct Hi as [Hi|Hi]|].
      + apply V. unfold it_init127. destruct tc; cbn [app In] in Hi |- *; tauto.
      + destruct lo eqn:EL; [|destruct Hi]. destruct Hi as [<-|[]]. apply LS; [reflexivity|exact EL].
      + apply V. unfold it_init127. destruct tc; cbn [app In] in Hi |- *; tauto.
    - (* cad_lora *) intros m V _ EL. cbn [x_lora x127] in EL. apply V. unfold it_cad127. rewrite EL. apply in_or_app. left. apply in_or_app. right. left. reflexivity.
  Defined.
End K127.
