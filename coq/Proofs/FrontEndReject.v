(* Proofs/FrontEndReject.v -- C07 through the device front-ends: a frame the reference codec rejects, handed to async_device in a
   receive window or in Class C reception, or to nb_device as the radio's RxDone, leaves the device exactly where a twin is that
   heard nothing at that moment (same MAC, same front-end state, same outcome; only the radio-call trace shows the reception). *)
From Coq Require Import NArith ZArith List Bool Lia.
From LoraV Require Import Base.Bytes Model.Frame Spec.L2Frame Model.Region Model.Mac Proofs.SessionProofs Model.AsyncDev Model.NbDev.
Import ListNotations.
Local Open Scope N_scope.

Section Reject.
  Variable enc mac_fn : list N -> list N -> list N.

  (* what "the MAC does not accept these bytes" means, decided by the reference codec (spec_accepts), per activation state *)
  Definition mac_rejects (m : mac) (bytes : list N) (maxp : N) : Prop :=
    match m_state m with
    | Joined s => fcnt_ok s /\ bytes_ok bytes = true /\ (forall n, ~ spec_accepts mac_fn s bytes maxp n) /\ ~ oversized bytes maxp
    | Otaa nonce c => exists e buf, ja_check_mic_and_decrypt enc mac_fn bytes (cr_appkey c) = (Err e, buf)
    | Unjoined => True
    end.

  Lemma mac_reject_window m bytes maxp snr :
    mac_rejects m bytes maxp ->
    exists buf, mac_handle_rx enc mac_fn m bytes snr maxp false =
                Val (Some {| mo_mac := m; mo_resp := RNoUpdate; mo_downlink := None; mo_buf := buf |}).
  Proof.
    unfold mac_rejects, mac_handle_rx. destruct m as [cf rg mp g st]. cbn [m_state m_cfg m_region m_max_power m_gain].
    destruct st as [s|nonce c|].
    - intros (Hf & Hb & Hn & Ho). rewrite (reject_is_identity enc mac_fn s cf rg bytes maxp snr false Hf Hb Hn Ho).
      unfold unchanged. cbn. eexists. reflexivity.
    - intros (e & buf & H). unfold otaa_handle_rx. rewrite H. eexists. reflexivity.
    - intros _. eexists. reflexivity.
  Qed.

  Lemma mac_reject_class_c m s bytes maxp snr :
    m_state m = Joined s -> mac_rejects m bytes maxp ->
    exists buf, mac_handle_rx enc mac_fn m bytes snr maxp true =
                Val (Some {| mo_mac := m; mo_resp := RNoUpdate; mo_downlink := None; mo_buf := buf |}).
  Proof.
    unfold mac_rejects, mac_handle_rx. destruct m as [cf rg mp g st]. cbn [m_state m_cfg m_region m_max_power m_gain].
    intros ->. intros (Hf & Hb & Hn & Ho). rewrite (reject_is_identity enc mac_fn s cf rg bytes maxp snr true Hf Hb Hn Ho).
    unfold unchanged. cbn. eexists. reflexivity.
  Qed.

  Lemma with_mac_same d : with_mac d (ad_mac d) = d.
  Proof. destruct d; reflexivity. Qed.

  Definition with_script (e : env) (s : list sev) : env :=
    {| e_script := s; e_calls := e_calls e; e_fault := e_fault e; e_trace := e_trace e |}.

  (* async_device, RX1 or RX2: a rejected frame is a window in which nothing arrived *)
  Theorem async_window_rejected_frame_is_timeout d e rf f rest :
    mac_rejects (ad_mac d) (firstn 256 f) (rf_max_payload rf) ->
    faulty e = false ->        (* the rx_single call itself goes through (otherwise nothing is received at all) *)
    rx_listen enc mac_fn d (with_script e (SvX f :: rest)) rf = rx_listen enc mac_fn d (with_script e (SvT :: rest)) rf.
  Proof.
    intros R NFa. destruct (mac_reject_window _ _ _ 5%Z R) as [buf H].
    unfold rx_listen. unfold call, with_script, tr. cbn [e_script e_calls e_fault e_trace].
    assert (F : faulty {| e_script := SvX f :: rest; e_calls := e_calls e; e_fault := e_fault e; e_trace := e_trace e |} = false) by exact NFa.
    assert (F' : faulty {| e_script := SvT :: rest; e_calls := e_calls e; e_fault := e_fault e; e_trace := e_trace e |} = false) by exact NFa.
    rewrite F, F'. cbn [negb pop e_script e_calls e_fault e_trace].
    rewrite H. cbn [mo_mac mo_resp hmr]. rewrite with_mac_same. reflexivity.
  Qed.

  (* async_device, Class C reception between the windows: a rejected frame costs one reception and nothing else --
     the device goes on exactly as the twin whose script lacks the frame, one radio call later *)
  Theorem async_rxc_rejected_frame_is_skipped k d e rf duration resp f rest s :
    m_state (ad_mac d) = Joined s -> e_fault e = None ->
    mac_rejects (ad_mac d) (firstn 256 f) (rf_max_payload rf) ->
    rxc_until enc mac_fn (S k) d (with_script e (SvX f :: rest)) rf duration resp =
    rxc_until enc mac_fn k d {| e_script := rest; e_calls := e_calls e + 1; e_fault := None; e_trace := ARxCont :: e_trace e |} rf duration resp.
  Proof.
    intros J NF R. destruct (mac_reject_class_c _ _ _ _ 5%Z J R) as [buf H].
    cbn [rxc_until]. unfold pop, with_script, call, tr, faulty. cbn [e_script e_calls e_fault e_trace]. rewrite NF. cbn [negb].
    rewrite H. cbn [mo_mac mo_resp hmr]. rewrite with_mac_same. reflexivity.
  Qed.

  (* nb_device, waiting in a window: RxDone with a rejected frame = the radio reporting that it is still receiving *)
  Theorem nb_rejected_frame_keeps_the_window_open join rx1 rx2 w rf m e packet :
    (length packet < 256)%nat ->
    mac_rejects m packet (rf_max_payload rf) ->
    handle_event enc mac_fn (NWaitRx join rx1 rx2 w rf) m e NPhy (RaRxDone packet) =
    handle_event enc mac_fn (NWaitRx join rx1 rx2 w rf) m e NPhy RaRxing /\
    (nfaulty e = false ->
     handle_event enc mac_fn (NWaitRx join rx1 rx2 w rf) m e NPhy (RaRxDone packet) =
     (NWaitRx join rx1 rx2 w rf, m, {| n_calls := n_calls e + 1; n_fault := n_fault e; n_trace := NcPhy :: n_trace e |}, NrNoUpdate)).
  Proof.
    intros L R. destruct (mac_reject_window _ _ _ 5%Z R) as [buf H].
    assert (LB : Nat.leb 256 (length packet) = false) by (apply Nat.leb_gt; exact L).
    split.
    - cbn [handle_event]. destruct (ncall_radio e NcPhy) as [e1 ok]. destruct ok; cbn [negb]; [|reflexivity].
      rewrite LB, H. reflexivity.
    - intros NFa. cbn [handle_event]. unfold ncall_radio.
      rewrite NFa. cbn [negb]. rewrite LB, H. reflexivity.
  Qed.
End Reject.
