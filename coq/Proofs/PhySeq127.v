(* Proofs/PhySeq127.v -- C13 (buffer base and FIFO writes, SX127x): the FIFO discipline of the SX1272/76 datasheet ("Data
   Transmission Sequence": set FifoAddrPtr to FifoTxBaseAddr, then write PayloadLength bytes to the FIFO; reception: set
   FifoAddrPtr to FifoRxCurrentAddr, then read RxNbBytes bytes) as the order of SPI transactions the driver issues.  The reference
   driver legitimately accesses other registers in another pattern (C13 compares those by register outcome); the position of the
   pointer write relative to the FIFO burst is not a matter of pattern: the burst goes wherever the pointer stands. *)
From Coq Require Import ZArith NArith List Bool Lia.
From LoraV Require Import Base.Bytes Gen.PhyTables Model.PhyCore Model.Sx126x Model.Sx127x Proofs.PhySeq.
Import ListNotations.
Open Scope N_scope.

(* datasheet: single register access = address byte (bit 7 = write) then the value; FIFO burst = address 0x00 then the bytes *)
Definition ds7_write (reg v : N) : list seg := [W [N.lor reg 0x80; v]].
Definition ds7_read (reg : N) : list seg := [W [N.land reg 0x7f]; R 1].
Definition ds7_reg_Fifo := 0x00. Definition ds7_reg_FifoAddrPtr := 0x0D. Definition ds7_reg_FifoTxBaseAddr := 0x0E.
Definition ds7_reg_FifoRxBaseAddr := 0x0F. Definition ds7_reg_FifoRxCurrentAddr := 0x10. Definition ds7_reg_RxNbBytes := 0x13.
Definition ds7_reg_PayloadLength := 0x22.

(* the register addresses regenerated from the driver source are the datasheet's *)
Lemma fifo_registers_match :
  s7_Register_RegFifo = ds7_reg_Fifo /\ s7_Register_RegFifoAddrPtr = ds7_reg_FifoAddrPtr /\
  s7_Register_RegFifoTxBaseAddr = ds7_reg_FifoTxBaseAddr /\ s7_Register_RegFifoRxBaseAddr = ds7_reg_FifoRxBaseAddr /\
  s7_Register_RegFifoRxCurrentAddr = ds7_reg_FifoRxCurrentAddr /\ s7_Register_RegRxNbBytes = ds7_reg_RxNbBytes /\
  s7_Register_RegPayloadLength = ds7_reg_PayloadLength.
Proof. repeat split; reflexivity. Qed.

(* transmission: the pointer goes to the TX base (0, as set_buffer_base programs it) BEFORE the FIFO burst; the length register
   is written after the burst *)
Theorem seq127_set_payload p reads :
  spi_seq (set_payload_127 p) reads =
  [ds7_write ds7_reg_FifoAddrPtr 0; ds7_write ds7_reg_PayloadLength 0; [W [N.lor ds7_reg_Fifo 0x80]; W p];
   ds7_write ds7_reg_PayloadLength (N.of_nat (length p) mod 256)].
Proof. reflexivity. Qed.

Theorem seq127_set_buffer_base txb rxb reads : txb <= 255 -> rxb <= 255 ->
  spi_seq (set_buffer_base_127 txb rxb) reads = [ds7_write ds7_reg_FifoTxBaseAddr txb; ds7_write ds7_reg_FifoRxBaseAddr rxb].
Proof.
  intros H1 H2. unfold set_buffer_base_127.
  destruct (255 <? txb) eqn:E1; [apply N.ltb_lt in E1; lia|]. destruct (255 <? rxb) eqn:E2; [apply N.ltb_lt in E2; lia|]. reflexivity.
Qed.

(* reception (explicit header): RxNbBytes, FifoRxCurrentAddr, pointer := that address, the FIFO burst of exactly RxNbBytes bytes,
   pointer back to 0 *)
Theorem seq127_get_rx_payload_explicit cfg_len buflen n a data rest :
  n <= buflen ->
  spi_seq (get_rx_payload_127 false cfg_len buflen) ([n] :: [a] :: data :: rest) =
  [ds7_read ds7_reg_RxNbBytes; ds7_read ds7_reg_FifoRxCurrentAddr; ds7_write ds7_reg_FifoAddrPtr a;
   [W [ds7_reg_Fifo]; R (N.to_nat n)]; ds7_write ds7_reg_FifoAddrPtr 0].
Proof.
  intros H. unfold get_rx_payload_127. cbn -[N.ltb N.to_nat].
  destruct (buflen <? n) eqn:E; [apply N.ltb_lt in E; lia|]. reflexivity.
Qed.

(* reception (implicit header): the configured length, no RxNbBytes read *)
Theorem seq127_get_rx_payload_implicit cfg_len buflen a data rest :
  cfg_len <= buflen ->
  spi_seq (get_rx_payload_127 true cfg_len buflen) ([a] :: data :: rest) =
  [ds7_read ds7_reg_FifoRxCurrentAddr; ds7_write ds7_reg_FifoAddrPtr a; [W [ds7_reg_Fifo]; R (N.to_nat cfg_len)]; ds7_write ds7_reg_FifoAddrPtr 0].
Proof.
  intros H. unfold get_rx_payload_127. cbn -[N.ltb N.to_nat].
  destruct (buflen <? cfg_len) eqn:E; [apply N.ltb_lt in E; lia|]. reflexivity.
Qed.
