(* Proofs/FrameProofs.v -- the frame builders of Model/Frame.v produce exactly Spec/L2Frame.v. *)
From Coq Require Import NArith List Bool Lia Arith ZArith ZifyBool ZifyNat ZifyN.
From LoraV Require Import Base.Bytes Crypto.AES Model.Frame Spec.L2Frame Proofs.BytesProofs.
Import ListNotations.
Ltac Zify.zify_post_hook ::= Z.to_euclidean_division_equations.
Local Open Scope nat_scope.


  Lemma mhdr_spec t : mhdr_of t = spec_mhdr t.
  Proof. destruct t; reflexivity. Qed.

  Lemma mhdr_dir t : N.shiftr (N.land (mhdr_of t) 0x20) 5 = dir_of t.
  Proof. destruct t; reflexivity. Qed.

  Lemma fctrl_spec d : length (df_f_opts d) <= 15 -> fctrl_of d = spec_fctrl d.
  Proof.
    intros H. unfold fctrl_of, spec_fctrl, lenN.
    set (n := N.of_nat (length (df_f_opts d))).
    assert (Hn : (n < 16)%N) by (subst n; lia).
    rewrite (N.mod_small n 256) by lia.
    assert (Hc : (n = 0 \/ n = 1 \/ n = 2 \/ n = 3 \/ n = 4 \/ n = 5 \/ n = 6 \/ n = 7 \/ n = 8 \/ n = 9 \/
                 n = 10 \/ n = 11 \/ n = 12 \/ n = 13 \/ n = 14 \/ n = 15)%N) by lia.
    clearbody n.
    destruct (df_adr d), (df_adr_ack_req d), (df_ack d), (df_f_pending d), (is_uplink (df_type d));
      repeat (destruct Hc as [-> | Hc]); try subst n; reflexivity.
  Qed.

  (* the helper block of a frame that starts MHDR | DevAddr(LE) is the spec's A / B0 block *)
  Lemma helper_block_spec t addr rest first fcnt last :
    helper_block (mhdr_of t :: le_bytes 4 addr ++ rest) first fcnt last
    = [first; 0; 0; 0; 0; dir_of t]%N ++ le_bytes 4 addr ++ le_bytes 4 fcnt ++ [0%N; last].
  Proof.
    unfold helper_block. rewrite le_bytes4_land.
    replace (nthN (mhdr_of t :: le_bytes 4 addr ++ rest) 0) with (mhdr_of t) by reflexivity.
    rewrite mhdr_dir.
    replace (slice (mhdr_of t :: le_bytes 4 addr ++ rest) 1 5) with (le_bytes 4 addr) by reflexivity.
    reflexivity.
  Qed.

  Lemma block_A_of_helper t addr rest fcnt c :
    firstn 15 (helper_block (mhdr_of t :: le_bytes 4 addr ++ rest) 1 fcnt 0) ++ [c]
    = block_A (dir_of t) addr fcnt c.
  Proof. rewrite helper_block_spec. reflexivity. Qed.

  Lemma nblocks_succ n : 0 < n -> nblocks n = S (nblocks (n - 16)).
  Proof. unfold nblocks. intros. lia. Qed.

  (* ------------------------------------------------------------------ data frames *)
  Definition head_of (d : data_frame) (port : list N) : list N :=
    [mhdr_of (df_type d)] ++ le_bytes 4 (df_addr d) ++ [fctrl_of d]
    ++ le_bytes 2 (df_fcnt d mod 65536) ++ df_f_opts d ++ port.

  Lemma head_shape d port : head_of d port
    = mhdr_of (df_type d) :: le_bytes 4 (df_addr d) ++ ([fctrl_of d] ++ le_bytes 2 (df_fcnt d mod 65536) ++ df_f_opts d ++ port).
  Proof. reflexivity. Qed.

  Lemma head_length d port : length (head_of d port) = 8 + length (df_f_opts d) + length port.
  Proof. unfold head_of. rewrite !app_length, !le_bytes_length. cbn. lia. Qed.

  Lemma spec_msg_head d port rest : length (df_f_opts d) <= 15 ->
    spec_msg d (port ++ rest) = head_of d port ++ rest.
  Proof.
    intros H. unfold spec_msg, head_of. rewrite <- mhdr_spec, <- fctrl_spec by exact H.
    repeat rewrite <- app_assoc. reflexivity.
  Qed.


  Lemma map_blocks_ecb f (l : list N) : length l = 16 \/ length l = 32 -> map_blocks f 2 l = ecb f l.
  Proof.
    intros [H|H]; unfold ecb; rewrite H; cbn [Nat.div Nat.divmod fst map_blocks].
    - rewrite H. cbn [Nat.ltb Nat.leb]. rewrite skipn_length, H. cbn [Nat.sub Nat.ltb Nat.leb].
      rewrite (skipn_all2 l) by lia. apply app_nil_r.
    - rewrite H. cbn [Nat.ltb Nat.leb]. rewrite skipn_length, H. cbn [Nat.sub Nat.ltb Nat.leb].
      rewrite (skipn_all2 (skipn 16 l)) by (rewrite skipn_length; lia). rewrite app_nil_r. reflexivity.
  Qed.

Section FrameProofs.
  Variable enc dec : list N -> list N -> list N.
  Variable mac : list N -> list N -> list N.
  Hypothesis enc_len : forall k b, length (enc k b) = 16.
  Hypothesis mac_len : forall k m, length (mac k m) = 16.

  Lemma flat_map_enc_length key (g : nat -> list N) s k :
    length (flat_map (fun i => enc key (g i)) (seq s k)) = 16 * k.
  Proof.
    revert s. induction k as [|k IH]; intros s; cbn [seq flat_map]; [reflexivity|].
    rewrite app_length, enc_len, IH. lia.
  Qed.

  Lemma keystream_length key dir addr fcnt k : length (keystream enc key dir addr fcnt k) = 16 * k.
  Proof. unfold keystream. apply flat_map_enc_length. Qed.

  (* the block-refreshing loop equals XOR with S_1 | S_2 | ... *)
  Lemma crypt_blocks_spec key a15 : forall fuel p c,
    length p <= fuel -> c + nblocks (length p) <= 256 ->
    crypt_blocks enc fuel key a15 (N.of_nat c) p
    = xor_list p (flat_map (fun i => enc key (a15 ++ [N.of_nat i])) (seq c (nblocks (length p)))).
  Proof.
    induction fuel as [|f IH]; intros p c Hl Hc.
    - destruct p; [reflexivity | cbn in Hl; lia].
    - destruct p as [|x p]; [reflexivity|].
      cbn [crypt_blocks].
      rewrite (nblocks_succ (length (x :: p))) by (cbn; lia).
      cbn [seq flat_map].
      rewrite xor_list_split16 by apply enc_len.
      f_equal.
      assert (Hrest : length (skipn 16 (x :: p)) = length (x :: p) - 16) by apply skipn_length.
      destruct (skipn 16 (x :: p)) as [|y r] eqn:E.
      + destruct f; reflexivity.
      + rewrite <- E in *. rewrite <- Hrest.
        rewrite (nblocks_succ (length (x :: p))) in Hc by (cbn; lia). rewrite <- Hrest in Hc.
        assert (0 < nblocks (length (skipn 16 (x :: p)))) by (rewrite E; unfold nblocks; cbn [length]; lia).
        replace ((N.of_nat c + 1) mod 256)%N with (N.of_nat (S c)) by (rewrite N.mod_small; lia).
        apply IH; [cbn [length] in *; lia | lia].
  Qed.

  Lemma encrypt_payload_spec t addr tl frm fcnt key :
    let head := mhdr_of t :: le_bytes 4 addr ++ tl in
    length frm <= 255 * 16 ->
    encrypt_frm_data_payload enc (head ++ frm) (length head) (length head + length frm) fcnt key
    = head ++ frm_crypt enc key (dir_of t) addr fcnt frm.
  Proof.
    intros head Hl. unfold encrypt_frm_data_payload.
    rewrite firstn_app_exact.
    rewrite slice_app_tail.
    replace (length head + length frm) with (length (head ++ frm)) by (rewrite app_length; reflexivity).
    rewrite skipn_all, app_nil_r. f_equal.
    change 1%N with (N.of_nat 1).
    rewrite crypt_blocks_spec; [| lia | unfold nblocks; lia].
    unfold frm_crypt, keystream. f_equal.
    apply flat_map_ext. intros i.
    subst head. cbn [app]. rewrite <- app_assoc.
    rewrite block_A_of_helper. reflexivity.
  Qed.

  Lemma frm_crypt_length key dir addr fcnt p : length (frm_crypt enc key dir addr fcnt p) = length p.
  Proof.
    unfold frm_crypt. rewrite xor_list_length, keystream_length. unfold nblocks. lia.
  Qed.

  Lemma data_mic_spec t addr tl key fcnt :
    let msg := mhdr_of t :: le_bytes 4 addr ++ tl in
    length msg <= 255 ->
    calculate_data_mic mac msg key fcnt
    = firstn 4 (mac key (block_B0 (dir_of t) addr fcnt (lenN msg) ++ msg)).
  Proof.
    intros msg Hl. unfold calculate_data_mic. rewrite lenN_small_mod by exact Hl.
    subst msg. rewrite helper_block_spec. reflexivity.
  Qed.

  (* body and MIC for a given port byte / payload / encryption key *)
  Lemma build_core d nwk key port frm :
    length (df_f_opts d) <= 15 -> 8 + length (df_f_opts d) + length port + length frm <= 255 ->
    let head := head_of d port in
    let body := if Nat.eqb (length frm) 0 then head ++ frm
                else encrypt_frm_data_payload enc (head ++ frm) (length head) (length head + length frm) (df_fcnt d) key in
    let msg := spec_msg d (port ++ frm_crypt enc key (dir_of (df_type d)) (df_addr d) (df_fcnt d) frm) in
    body = msg /\
    calculate_data_mic mac body nwk (df_fcnt d)
    = firstn 4 (mac nwk (block_B0 (dir_of (df_type d)) (df_addr d) (df_fcnt d) (lenN msg) ++ msg)) /\
    length msg = 8 + length (df_f_opts d) + length port + length frm.
  Proof.
    intros Hfo Hlen head body msg.
    set (ct := frm_crypt enc key (dir_of (df_type d)) (df_addr d) (df_fcnt d) frm) in *.
    assert (Hct : length ct = length frm) by apply frm_crypt_length.
    assert (Hmsg : msg = head ++ ct) by (subst msg head; apply spec_msg_head; exact Hfo).
    assert (Hbody : body = head ++ ct).
    { subst body. destruct (Nat.eqb (length frm) 0) eqn:E0.
      - apply Nat.eqb_eq in E0. destruct frm; [|discriminate]. subst ct. reflexivity.
      - subst head. rewrite head_shape. rewrite encrypt_payload_spec by lia. reflexivity. }
    assert (Hl : length msg = 8 + length (df_f_opts d) + length port + length frm).
    { rewrite Hmsg, app_length, Hct. subst head. rewrite head_length. lia. }
    split; [congruence|]. split; [|exact Hl].
    rewrite Hbody, <- Hmsg.
    assert (Hshape : msg = mhdr_of (df_type d) :: le_bytes 4 (df_addr d) ++
                     (([fctrl_of d] ++ le_bytes 2 (df_fcnt d mod 65536) ++ df_f_opts d ++ port) ++ ct)).
    { rewrite Hmsg. subst head. rewrite head_shape. cbn [app]. rewrite <- app_assoc. reflexivity. }
    rewrite Hshape at 1. rewrite data_mic_spec.
    - rewrite <- Hshape. reflexivity.
    - rewrite <- Hshape. lia.
  Qed.

  Lemma Some_inj (A : Type) (x y : A) : Some x = Some y -> x = y.
  Proof. congruence. Qed.

  Lemma mic4_length k m : length (firstn 4 (mac k m)) = 4.
  Proof. rewrite firstn_length, mac_len. reflexivity. Qed.

  Ltac finish_build Hc total :=
    destruct Hc as (Hb & Hm & Hl);
    match goal with |- context [Nat.ltb (length ?buf) ?t] =>
      replace t with total by (rewrite app_length, mic4_length, Hl; cbn [length]; lia) end;
    match goal with |- context [Nat.ltb ?a ?b] => destruct (Nat.ltb a b) eqn:Eb; [apply Nat.ltb_lt in Eb; lia|] end.

  Theorem build_data_spec d nwk appk buf f :
    spec_data enc mac d nwk appk = Some f ->
    length f <= 259 -> length f <= length buf ->
    build_data enc mac d nwk appk buf = Ok (f ++ skipn (length f) buf, length f).
  Proof.
    unfold spec_data, build_data.
    destruct (Nat.ltb 15 (length (df_f_opts d))) eqn:Efo; [discriminate|].
    apply Nat.ltb_ge in Efo.
    unfold spec_port_payload.
    destruct (df_payload d) as [|port data|cmds] eqn:Epl.
    - intros Hs Hlen Hbuf. apply Some_inj in Hs. subst f.
      pose proof (build_core d nwk nwk [] []) as Hc. cbv zeta in Hc.
      rewrite app_length, mic4_length in Hlen, Hbuf.
      assert (Hl0 : length (spec_msg d []) = 8 + length (df_f_opts d)).
      { change (spec_msg d []) with (spec_msg d ([] ++ [])). rewrite spec_msg_head by exact Efo.
        rewrite app_nil_r, head_length. cbn [length]. lia. }
      specialize (Hc Efo ltac:(cbn [length]; lia)).
      cbn [length Nat.eqb app] in Hc. unfold frm_crypt in Hc. cbn [xor_list app] in Hc.
      destruct Hc as (Hb & Hm & Hl).
      match goal with |- context [Nat.ltb (length buf) ?t] =>
        replace t with (length (spec_msg d []) + 4) by (rewrite Hl0; cbn [length]; lia) end.
      destruct (Nat.ltb _ _) eqn:Eb; [apply Nat.ltb_lt in Eb; lia|].
      cbn [length Nat.eqb]. fold (head_of d []). rewrite Hm, Hb.
      rewrite !app_length, mic4_length, <- app_assoc. reflexivity.
    - destruct appk as [k|]; [|discriminate].
      intros Hs Hlen Hbuf. apply Some_inj in Hs. subst f.
      pose proof (build_core d nwk k [port] data) as Hc. cbv zeta in Hc.
      rewrite app_length, mic4_length in Hlen, Hbuf.
      change (port :: frm_crypt enc k (dir_of (df_type d)) (df_addr d) (df_fcnt d) data)
        with ([port] ++ frm_crypt enc k (dir_of (df_type d)) (df_addr d) (df_fcnt d) data) in *.
      set (msg := spec_msg d ([port] ++ frm_crypt enc k (dir_of (df_type d)) (df_addr d) (df_fcnt d) data)) in *.
      assert (Hl0 : length msg = 8 + length (df_f_opts d) + 1 + length data).
      { subst msg. rewrite spec_msg_head by exact Efo. rewrite app_length, head_length, frm_crypt_length. reflexivity. }
      specialize (Hc Efo ltac:(cbn [length]; lia)). cbn [length] in Hc.
      destruct Hc as (Hb & Hm & Hl).
      match goal with |- context [Nat.ltb (length buf) ?t] =>
        replace t with (length msg + 4) by (rewrite Hl0; cbn [length]; lia) end.
      destruct (Nat.ltb _ _) eqn:Eb; [apply Nat.ltb_lt in Eb; lia|].
      fold (head_of d [port]). rewrite Hm, Hb.
      change (port :: frm_crypt enc k (dir_of (df_type d)) (df_addr d) (df_fcnt d) data)
        with ([port] ++ frm_crypt enc k (dir_of (df_type d)) (df_addr d) (df_fcnt d) data).
      fold msg. rewrite !app_length, mic4_length, <- app_assoc. reflexivity.
    - destruct (df_f_opts d) as [|o os] eqn:Efopts; [|discriminate].
      intros Hs Hlen Hbuf. apply Some_inj in Hs. subst f.
      pose proof (build_core d nwk nwk [0%N] cmds) as Hc. cbv zeta in Hc.
      rewrite app_length, mic4_length in Hlen, Hbuf.
      change (0%N :: frm_crypt enc nwk (dir_of (df_type d)) (df_addr d) (df_fcnt d) cmds)
        with ([0%N] ++ frm_crypt enc nwk (dir_of (df_type d)) (df_addr d) (df_fcnt d) cmds) in *.
      set (msg := spec_msg d ([0%N] ++ frm_crypt enc nwk (dir_of (df_type d)) (df_addr d) (df_fcnt d) cmds)) in *.
      assert (Efo' : length (df_f_opts d) <= 15) by (rewrite Efopts; cbn; lia).
      assert (Hl0 : length msg = 8 + 0 + 1 + length cmds).
      { subst msg. rewrite spec_msg_head by exact Efo'. rewrite app_length, head_length, frm_crypt_length, Efopts. reflexivity. }
      specialize (Hc Efo' ltac:(rewrite Efopts; cbn [length]; lia)). cbn [length] in Hc.
      destruct Hc as (Hb & Hm & Hl).
      cbn [length Nat.eqb negb].
      match goal with |- context [Nat.ltb (length buf) ?t] =>
        replace t with (length msg + 4) by (rewrite Hl0; cbn [length]; lia) end.
      destruct (Nat.ltb _ _) eqn:Eb; [apply Nat.ltb_lt in Eb; lia|].
      assert (Hh : [mhdr_of (df_type d)] ++ le_bytes 4 (df_addr d) ++ [fctrl_of d] ++
                   le_bytes 2 (df_fcnt d mod 65536) ++ [] ++ [0%N] = head_of d [0%N])
        by (unfold head_of; rewrite Efopts; reflexivity).
      rewrite Hh, Hm, Hb.
      change (0%N :: frm_crypt enc nwk (dir_of (df_type d)) (df_addr d) (df_fcnt d) cmds)
        with ([0%N] ++ frm_crypt enc nwk (dir_of (df_type d)) (df_addr d) (df_fcnt d) cmds).
      fold msg. rewrite !app_length, mic4_length, <- app_assoc. reflexivity.
  Qed.

  Theorem build_data_forbidden d nwk appk buf :
    spec_data enc mac d nwk appk = None ->
    build_data enc mac d nwk appk buf = Err (spec_data_error d appk).
  Proof.
    unfold spec_data, build_data, spec_data_error.
    destruct (Nat.ltb 15 (length (df_f_opts d))) eqn:Efo; [reflexivity|].
    unfold spec_port_payload.
    destruct (df_payload d) as [|port data|cmds]; [discriminate| |].
    - destruct appk; [discriminate|reflexivity].
    - destruct (df_f_opts d); [discriminate|reflexivity].
  Qed.

  Lemma spec_data_length d nwk appk f :
    spec_data enc mac d nwk appk = Some f ->
    length f = 12 + length (df_f_opts d)
               + match df_payload d with PNone => 0 | PData _ x => 1 + length x | PMac x => 1 + length x end.
  Proof.
    unfold spec_data. destruct (Nat.ltb 15 (length (df_f_opts d))) eqn:Efo; [discriminate|].
    apply Nat.ltb_ge in Efo. unfold spec_port_payload.
    destruct (df_payload d) as [|port data|cmds].
    - intros H. apply Some_inj in H. subst f. rewrite app_length, mic4_length.
      change (spec_msg d []) with (spec_msg d ([] ++ [])). rewrite spec_msg_head by exact Efo.
      rewrite app_nil_r, head_length. cbn [length]. lia.
    - destruct appk as [k|]; [|discriminate]. intros H. apply Some_inj in H. subst f.
      rewrite app_length, mic4_length.
      change (port :: frm_crypt enc k (dir_of (df_type d)) (df_addr d) (df_fcnt d) data)
        with ([port] ++ frm_crypt enc k (dir_of (df_type d)) (df_addr d) (df_fcnt d) data).
      rewrite spec_msg_head by exact Efo. rewrite app_length, head_length, frm_crypt_length. cbn [length]. lia.
    - destruct (df_f_opts d) as [|o os] eqn:E; [|discriminate]. intros H. apply Some_inj in H. subst f.
      rewrite app_length, mic4_length.
      change (0%N :: frm_crypt enc nwk (dir_of (df_type d)) (df_addr d) (df_fcnt d) cmds)
        with ([0%N] ++ frm_crypt enc nwk (dir_of (df_type d)) (df_addr d) (df_fcnt d) cmds).
      rewrite spec_msg_head by (rewrite E; cbn; lia).
      rewrite app_length, head_length, frm_crypt_length, E. cbn [length]. lia.
  Qed.

  Theorem build_data_buffer_too_short d nwk appk buf f :
    spec_data enc mac d nwk appk = Some f -> length buf < length f ->
    build_data enc mac d nwk appk buf = Err BufferTooShort.
  Proof.
    intros Hs Hb. pose proof (spec_data_length d nwk appk f Hs) as Hl.
    revert Hs. unfold spec_data, build_data.
    destruct (Nat.ltb 15 (length (df_f_opts d))) eqn:Efo; [discriminate|].
    unfold spec_port_payload.
    destruct (df_payload d) as [|port data|cmds].
    - intros _. cbn [length] in *.
      match goal with |- context [Nat.ltb (length buf) ?t] => destruct (Nat.ltb (length buf) t) eqn:E end;
        [reflexivity|]. apply Nat.ltb_ge in E. lia.
    - destruct appk as [k|]; [|discriminate]. intros _.
      match goal with |- context [Nat.ltb (length buf) ?t] => destruct (Nat.ltb (length buf) t) eqn:E end;
        [reflexivity|]. apply Nat.ltb_ge in E. lia.
    - destruct (df_f_opts d) as [|o os] eqn:E0; [|discriminate]. intros _. cbn [length Nat.eqb negb] in *.
      match goal with |- context [Nat.ltb (length buf) ?t] => destruct (Nat.ltb (length buf) t) eqn:E end;
        [reflexivity|]. apply Nat.ltb_ge in E. lia.
  Qed.

  (* ------------------------------------------------------------------ join frames *)
  Theorem build_join_request_spec je de dn key buf :
    23 <= length buf ->
    build_join_request mac je de dn key buf
    = Ok (spec_join_request mac je de dn key ++ skipn 23 buf, 23).
  Proof.
    intros H. unfold build_join_request, spec_join_request, calculate_mic.
    destruct (Nat.ltb (length buf) 23) eqn:E; [apply Nat.ltb_lt in E; lia|].
    rewrite <- !app_assoc. reflexivity.
  Qed.

  Theorem build_join_request_refuses je de dn key buf :
    length buf < 23 -> build_join_request mac je de dn key buf = Err BufferTooShort.
  Proof.
    intros H. unfold build_join_request.
    destruct (Nat.ltb (length buf) 23) eqn:E; [reflexivity|]. apply Nat.ltb_ge in E. lia.
  Qed.

  Definition wf_cflist (c : option cflist) : Prop :=
    match c with
    | None => True
    | Some (CfDynamic freqs) => length freqs = 5
    | Some (CfFixed mask) => length mask = 9
    end.





  Theorem build_join_accept_spec jn nid da dls rxd c key buf :
    wf_cflist c ->
    (match c with None => 17 | Some _ => 33 end) <= length buf ->
    build_join_accept dec mac jn nid da dls rxd c key buf
    = Ok (spec_join_accept dec mac jn nid da dls rxd c key
          ++ skipn (match c with None => 17 | Some _ => 33 end) buf,
          match c with None => 17 | Some _ => 33 end).
  Proof.
    intros Hwf Hbuf. unfold build_join_accept, spec_join_accept, spec_join_accept_clear, calculate_mic.
    rewrite land15_mod.
    set (len := match c with None => 17 | Some _ => 33 end) in *.
    destruct (Nat.ltb (length buf) len) eqn:E; [apply Nat.ltb_lt in E; lia|].
    assert (Hcf : (match c with
                   | None => []
                   | Some (CfDynamic freqs) => flat_map (le_bytes 3) freqs ++ [0%N]
                   | Some (CfFixed mask) => mask ++ repeat 0%N 6 ++ [1%N]
                   end) = spec_cflist c) by (destruct c as [[|]|]; reflexivity).
    rewrite Hcf.
    set (msg := [32%N] ++ le_bytes 3 jn ++ le_bytes 3 nid ++ le_bytes 4 da ++ [dls; (rxd mod 16)%N] ++ spec_cflist c).
    change ([0x20%N] ++ le_bytes 3 jn ++ le_bytes 3 nid ++ le_bytes 4 da ++ [dls; (rxd mod 16)%N] ++ spec_cflist c) with msg.
    assert (Hml : length msg + 4 = len).
    { subst msg len. rewrite !app_length, !le_bytes_length. cbn [length].
      destruct c as [[fr|mk]|]; cbn [spec_cflist wf_cflist] in *; rewrite ?app_length, ?flat_map_le3_length, ?Hwf; cbn [length]; lia. }
    replace (nthN (msg ++ firstn 4 (mac key msg)) 0) with 32%N by reflexivity.
    rewrite map_blocks_ecb.
    - rewrite <- app_assoc. reflexivity.
    - assert (length (skipn 1 (msg ++ firstn 4 (mac key msg))) = len - 1)
        by (rewrite skipn_length, app_length, mic4_length; lia).
      subst len. destruct c; lia.
  Qed.

  Theorem build_join_accept_refuses jn nid da dls rxd c key buf :
    length buf < (match c with None => 17 | Some _ => 33 end) ->
    build_join_accept dec mac jn nid da dls rxd c key buf = Err BufferTooShort.
  Proof.
    intros H. unfold build_join_accept.
    destruct (Nat.ltb _ _) eqn:E; [reflexivity|]. apply Nat.ltb_ge in E. destruct c; lia.
  Qed.
End FrameProofs.
