(* Proofs/SelectProgress.v -- C09, termination: each of the rejection-sampling loops of select_tx_channel ends at the FIRST draw that hits
   what it is looking for, and such a draw value always exists (after the fall-back a usable channel exists): the dynamic-plan join and data
   loops and the fixed-plan 125 kHz / 500 kHz loops.  (On a stream none of whose draws ever hits, the loops do not end: the known finding
   rejection-sampling-degenerate-stream, witnessed by C09_termination_every_stream_refuted_*.) *)
From Coq Require Import NArith ZArith List Bool Lia.
From LoraV Require Import Base.Bytes Gen.RegionTables Model.Region Model.Mac Proofs.OtaaProofs Proofs.TxProofs Proofs.NoPanicProofs.
Import ListNotations.
Local Open Scope N_scope.

(* dynamic plans, join request: a draw whose two low bits name one of the join channels *)
Lemma dyn_join_progress r p dr dt : dyn_ok r p -> datarate_index r dr = Val (Some dt) ->
  forall draws, existsb (fun d => N.land d 3 <? r_num_join r) draws = true -> exists tc rest, dyn_select_join r p dr draws = Val (tc, rest).
Proof.
  intros [_ [_ Hj]] Hd. induction draws as [|d ds IH]; intros Hex; [discriminate|]. cbn [existsb] in Hex. cbn [dyn_select_join].
  destruct (r_num_join r <=? N.land d 3) eqn:E.
  - apply N.leb_le in E. assert (F : (N.land d 3 <? r_num_join r) = false) by (apply N.ltb_ge; exact E). rewrite F in Hex. exact (IH Hex).
  - apply N.leb_gt in E. destruct (Hj (N.to_nat (N.land d 3)) ltac:(lia)) as [c [Hc _]]. rewrite (nth_error_nth _ _ None Hc), Hd. eexists; eexists; reflexivity.
Qed.
Lemma dyn_join_hit_exists r : 1 <= r_num_join r -> (N.land 0 3 <? r_num_join r) = true.
Proof. intros H. apply N.ltb_lt. cbn. lia. Qed.

(* fixed plans: a draw that names an enabled channel of the bank range *)
Lemma fix_draw_progress m bits base : bits + base <= 71 ->
  forall draws, existsb (fun d => mask_bit m (N.land d bits + base)) draws = true -> exists chn rest, fix_draw_enabled m bits base draws = Val (chn, rest).
Proof.
  intros HB. induction draws as [|d ds IH]; intros Hex; [discriminate|]. cbn [existsb] in Hex. cbn [fix_draw_enabled].
  assert (HL : N.land d bits + base <= 71) by (pose proof (land_le_r d bits); lia).
  unfold is_enabled. destruct (71 <? N.land d bits + base) eqn:E; [apply N.ltb_lt in E; lia|].
  fold (mask_bit m (N.land d bits + base)). destruct (mask_bit m (N.land d bits + base)); [eexists; eexists; reflexivity|exact (IH Hex)].
Qed.
(* every enabled channel of the range is named by some draw value *)
Lemma fix_hit_exists m bits base c : bits = N.ones (N.size bits) -> base <= c <= base + bits -> mask_bit m c = true ->
  mask_bit m (N.land (c - base) bits + base) = true.
Proof.
  intros HB [H1 H2] E. rewrite HB, N.land_ones, N.mod_small.
  - replace (c - base + base) with c by lia. exact E.
  - rewrite HB in H2. rewrite N.ones_equiv in H2. pose proof (N.pow_nonzero 2 (N.size bits) ltac:(discriminate)). lia.
Qed.

(* the mask-driven data uplink of a fixed plan: ends at the first hit *)
Theorem fix_masked_progress r p dr sf bw mp : r_fixed r = true -> datarate_index r dr = Val (Some (sf, bw, mp)) ->
  forall draws,
  existsb (fun d => if bw =? 9 then mask_bit (fix_fallback_mask (fp_mask p) true) (N.land d 7 + 64)
                    else mask_bit (fix_fallback_mask (fp_mask p) false) (N.land d 63 + 0)) draws = true ->
  exists tc p' rest, fix_select_masked r p dr draws = Val (tc, p', rest).
Proof.
  intros Hf Hd draws Hex. unfold fix_select_masked. rewrite Hd. destruct (bw =? 9) eqn:Ebw.
  - destruct (fix_draw_progress (fix_fallback_mask (fp_mask p) true) 7 64 ltac:(lia) draws Hex) as [chn [rest E]]. rewrite E.
    destruct (fix_draw_enabled_spec _ _ _ _ _ _ E) as [En _]. apply is_enabled_bit in En. destruct En as [_ Hc].
    destruct (fix_mk_tx_total r dr chn {| fp_mask := fix_fallback_mask (fp_mask p) true; fp_jc := fp_jc p |} rest _ Hf Hc Hd) as [tc [Et _]].
    rewrite Et. eexists; eexists; eexists; reflexivity.
  - destruct (fix_draw_progress (fix_fallback_mask (fp_mask p) false) 63 0 ltac:(lia) draws Hex) as [chn [rest E]]. rewrite E.
    destruct (fix_draw_enabled_spec _ _ _ _ _ _ E) as [En _]. apply is_enabled_bit in En. destruct En as [_ Hc].
    destruct (fix_mk_tx_total r dr chn {| fp_mask := fix_fallback_mask (fp_mask p) false; fp_jc := fp_jc p |} rest _ Hf Hc Hd) as [tc [Et _]].
    rewrite Et. eexists; eexists; eexists; reflexivity.
Qed.
