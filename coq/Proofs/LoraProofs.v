(* Proofs/LoraProofs.v -- C14, part 1: operations invoked in the wrong mode are refused without touching the pins.
   Statements are about running the LoRa-layer programs of Model/LoraDrv.v on ANY emulated chip (register file, scripted reads,
   fault position, interrupt script) and ANY radio kind (the record of driver primitives). *)
From Coq Require Import ZArith NArith List Bool Lia Arith.
From LoraV Require Import Base.Bytes Gen.PhyTables Model.PhyCore Model.LoraDrv.
Import ListNotations.
Local Open Scope nat_scope.

Definition drv_mode (c : chip) : rmode := dec_mode (nth 0 (c_drv c) []).
Definition is_rx (m : rmode) : bool := match m with MRx _ => true | _ => false end.

(* a refusal: the error, an unchanged chip (driver fields included), nothing added to the pin-level trace *)
Definition refused {A} (K : kind) (p : prog A) (c : chip) : Prop :=
  forall f tr, run (S (S f)) c p tr = (c, rev tr, Some (inr EInvalidRadioMode)).

Ltac refuse :=
  intros H f tr; unfold drv_mode in H; cbn [run bind get_mode act1];
  match goal with |- context [dec_mode ?v] => destruct (dec_mode v) eqn:E end;
  try reflexivity; try (exfalso; apply H; reflexivity); try discriminate H.

Theorem tx_refused K fuel c : drv_mode c <> MTx -> refused K (tx K fuel) c.
Proof. unfold refused, tx. refuse. Qed.
Theorem start_rx_refused K c : is_rx (drv_mode c) = false -> refused K (start_rx K) c.
Proof. unfold refused, start_rx. refuse. Qed.
Theorem rx_switch_channel_refused K freq c : is_rx (drv_mode c) = false -> refused K (rx_switch_channel K freq) c.
Proof. unfold refused, rx_switch_channel. refuse. Qed.
Theorem complete_rx_refused K fuel pk buflen c : is_rx (drv_mode c) = false -> refused K (complete_rx K fuel pk buflen) c.
Proof. unfold refused, complete_rx. refuse. Qed.
Theorem rx_refused K fuel pk buflen c : is_rx (drv_mode c) = false -> refused K (rx K fuel pk buflen) c.
Proof. unfold refused, rx, start_rx. refuse. Qed.
Theorem get_rx_result_refused K pk buflen c : is_rx (drv_mode c) = false -> refused K (get_rx_result K pk buflen) c.
Proof. unfold refused, get_rx_result. refuse. Qed.
Theorem cad_refused K md c : drv_mode c <> MCad -> refused K (cad K md) c.
Proof. unfold refused, cad. refuse. Qed.

(* and the converse: in the right mode the operation is not refused at the mode check (it reaches the chip) *)
Theorem tx_accepted K fuel c f tr : drv_mode c = MTx -> run (S f) c (tx K fuel) tr = run f c (k_tx K ;;; tx_loop K fuel) tr.
Proof. intros H. unfold drv_mode in H. unfold tx. cbn [run bind get_mode act1]. rewrite H. reflexivity. Qed.
