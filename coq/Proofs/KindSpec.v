(* Proofs/KindSpec.v -- what the LoRa-layer proofs need to know about a radio kind (the record of driver primitives), stated in the
   calculus of PhyHoare.v against the chip-side monitor.  Proved for the SX126x driver in Kind126Proofs.v and for the SX127x driver
   in Kind127Proofs.v; used generically in LoraInv.v. *)
From Coq Require Import ZArith NArith List Bool Lia Arith.
From LoraV Require Import Base.Bytes Model.PhyCore Model.Sx126x Model.LoraDrv Spec.ChipMon Proofs.PhyHoare Proofs.PlainProgs.
Import ListNotations.
Local Open Scope nat_scope.

Definition pin_err {A} (r : A + rerr) : Prop := forall e, r = inr e -> e = ESpi \/ e = EBusy.
Definition is_duty (m : rmode) : bool := match m with MRx (RxDuty _ _) => true | _ => false end.
Definition is_single (m : rmode) : bool := match m with MRx (RxSingle _) => true | _ => false end.
Definition rx_target (rm : rxmode) : cmode := match rm with RxSingle _ => CRx1 | RxContinuous => CRxc | RxDuty _ _ => CDuty end.
(* the active chip mode an operation of the driver's mode puts the chip in; one-shot operations end by themselves *)
Definition active_of (dm : rmode) : option cmode :=
  match dm with MTx => Some CTx | MRx rm => Some (rx_target rm) | MListen => Some CRxc | MCad => Some CCad | MSleep | MStandby => None end.
Definition oneshot (dm : rmode) : bool := match dm with MTx | MCad | MRx (RxSingle _) | MRx (RxDuty _ _) => true | _ => false end.
(* the monitor context of every operation but listen() *)
Definition no_listen (x : mctx) : mctx := {| x_fam := x_fam x; x_tcxo := x_tcxo x; x_dcdc := x_dcdc x; x_listen := false; x_lora := x_lora x |}.
Definition valid_all (m : mon) (l : list item) : Prop := forall i, In i l -> valid m i = true.

Section Spec.
  Variable x : mctx.
  Variable K : kind.

  (* like plain_spec but programmed items may be lost on the way (SX126x SetPacketType resets the modem parameters) *)
  (* the LoRa modem is selected (SX127x: RegOpMode.LongRangeMode, writable in sleep mode only) *)
  Definition lora_sel (m : mon) : Prop := x_fam x = K127 -> x_lora x = true -> valid m ILoraMode = true.
  Definition weak_spec {A} (want : list item) (p : prog A) : Prop :=
    forall (Q : A + rerr -> drv -> mon -> Prop) d m, okm m -> ready m ->
      (forall r m', cm m' = cm m -> awake m' = awake m -> okm m' -> (is_ok r -> valid_all m' want) -> (forall e, r = inr e -> plain_err e) ->
                    (lora_sel m -> lora_sel m') -> Q r d m') ->
      wp x p Q d m.

  Record kind_ok := {
    it_init : list item; it_power : list item; it_mod : list item; it_pkt : list item; it_chan : list item; it_irq : list item;
    it_payload : list item; it_sync : list item;
    ok_init : forall sw, weak_spec it_init (k_init K sw);
    ok_power : forall p md istx, plain_spec x plain_err it_power (k_power K p md istx);
    ok_irq : forall m, plain_spec x pin_only it_irq (k_irq K m);
    ok_calimg : forall f, plain_spec x plain_err [] (k_calimg K f);
    ok_mod : forall md, plain_spec x plain_err it_mod (k_mod K md);
    ok_pkt : forall pk, plain_spec x plain_err it_pkt (k_pkt K pk);
    ok_chan : forall f, plain_spec x plain_err it_chan (k_chan K f);
    ok_payload : forall p, plain_spec x plain_err it_payload (k_payload K p);
    ok_sync : forall sw, plain_spec x plain_err it_sync (k_sync K sw);
    ok_rxpayload : forall pk n, plain_spec x plain_err [] (k_rxpayload K pk n);
    ok_status : plain_spec x plain_err [] (k_status K);
    (* wake-up: from sleep (SX126x: only when the driver asks for it; SX127x registers are always reachable) and from the sleep
       phase of a duty-cycled reception *)
    ok_ensure : forall dm (Q : unit + rerr -> drv -> mon -> Prop) d m, okm m ->
      (cm m = CSleep -> dm = MSleep \/ x_fam x = K127) -> (cm m = CDuty -> awake m = false -> is_duty dm = true) ->
      (forall r m', okm m' -> le_valid m m' -> (cm m' = cm m \/ (cm m = CSleep /\ cm m' = CStby) \/ (dm = MSleep /\ cm m' = CSleep)) ->
                    (is_ok r -> x_fam x = K126 \/ (ready m /\ dm <> MSleep) -> ready m') ->
                    (* a chip the driver believes asleep has been put into LoRa mode when the wake-up went through *)
                    (is_ok r -> x_fam x = K127 -> dm = MSleep -> valid m' ILoraMode = true) -> pin_err r -> Q r d m') ->
      wp x (k_ensure_ready K dm) Q d m;
    ok_standby : forall (Q : unit + rerr -> drv -> mon -> Prop) d m, okm m -> (x_fam x = K126 -> ready m) ->
      (forall r m', okm m' -> le_valid m m' -> (is_ok r -> cm m' = CStby) -> (cm m' = cm m \/ cm m' = CStby) -> pin_err r -> Q r d m') ->
      wp x (k_standby K) Q d m;
    ok_sleep : forall warm (Q : unit + rerr -> drv -> mon -> Prop) d m, okm m -> (x_fam x = K126 -> ready m) ->
      (forall r m', (is_ok r -> okm m' /\ cm m' = CSleep /\ (warm = true -> le_valid m m')) -> (~ is_ok r -> m' = m) -> pin_err r -> Q r d m') ->
      wp x (k_sleep K warm) Q d m;
    ok_reset : forall (Q : unit + rerr -> drv -> mon -> Prop) d m, okm m ->
      (forall r m', okm m' -> (cm m' = CStby \/ (cm m' = CSleep /\ x_fam x = K127)) -> (is_ok r -> lora_sel m') -> pin_err r -> Q r d m') ->
      wp x (k_reset K) Q d m;
    ok_tx : forall (Q : unit + rerr -> drv -> mon -> Prop) d m, okm m -> ready m -> forallb (valid m) (need x StTx) = true ->
      (forall r m', okm m' -> le_valid m m' -> (is_ok r -> cm m' = CTx) -> (cm m' = cm m \/ cm m' = CTx) -> pin_err r -> Q r d m') ->
      wp x (k_tx K) Q d m;
    ok_rx : forall rm (Q : unit + rerr -> drv -> mon -> Prop) d m, okm m -> ready m -> forallb (valid m) (need x StRx) = true ->
      (forall r m', okm m' -> le_valid m m' -> (is_ok r -> cm m' = rx_target rm) -> (cm m' = cm m \/ cm m' = rx_target rm) ->
                    (x_fam x = K127 -> cm m' = CDuty -> cm m = CDuty) ->
                    (forall e, r = inr e -> e = ESpi \/ e = EBusy \/ (e = EDutyCycleUnsupported /\ cm m' = cm m /\ x_fam x = K127 /\ is_duty (MRx rm) = true)) -> Q r d m') ->
      wp x (k_rx K rm) Q d m;
    it_cad : list item;     (* what CAD needs before do_cad (which programs the CAD parameters itself) *)
    (* md: modulation parameters made from the API's typed values (the spreading factor is one of the 8 enum values) *)
    ok_cad : forall md (Q : unit + rerr -> drv -> mon -> Prop) d m, (md_sf md < 8)%N -> okm m -> ready m -> valid_all m it_cad ->
      (forall r m', okm m' -> le_valid m m' -> (is_ok r -> cm m' = CCad) -> (cm m' = cm m \/ cm m' = CCad) -> pin_err r -> Q r d m') ->
      wp x (k_cad K md) Q d m;
    (* reading (and clearing) the interrupt status: the chip may be found to have returned to standby *)
    ok_procirq : forall dm clear (Q : irqstate + rerr -> drv -> mon -> Prop) d m, okm m -> cm m <> CSleep ->
      (cm m = CDuty -> is_single dm = false) ->
      (forall r m', okm m' -> le_valid m m' -> (cm m' = cm m \/ cm m' = CStby) ->
                    (* a completion seen by the driver is a completion of the chip: a one-shot operation in flight has ended *)
                    (forall c, r = inl (IrqDone c) -> oneshot dm = true -> Some (cm m) = active_of dm -> cm m' = CStby) ->
                    (r = inl IrqPreamble -> exists rm, dm = MRx rm) ->
                    (forall e, r = inr e -> e <> ECancelled) -> Q r d m') ->
      wp x (k_procirq K dm clear) Q d m;
    (* what the prepared states rely on is covered by what the prepare operations program *)
    cover_tx : forall m, valid_all m (it_init ++ it_mod ++ it_power ++ it_pkt ++ it_chan ++ it_payload ++ it_irq) -> lora_sel m -> forallb (valid m) (need (no_listen x) StTx) = true;
    cover_rx : forall m, valid_all m (it_init ++ it_mod ++ it_pkt ++ it_chan ++ it_irq) -> lora_sel m -> forallb (valid m) (need (no_listen x) StRx) = true;
    cover_cad : forall m, valid_all m (it_init ++ it_mod ++ it_chan ++ it_irq) -> lora_sel m -> valid_all m it_cad;
    cover_listen : forall m, x_listen x = true -> valid_all m (it_init ++ it_chan ++ it_mod) -> lora_sel m -> forallb (valid m) (need x StRx) = true;
    (* a prepared CAD implies the LoRa modem is selected (so does a prepared TX / RX, through `need`) *)
    cad_lora : forall m, valid_all m it_cad -> lora_sel m
  }.
End Spec.
